#!/usr/bin/env python3
"""tools/extract_tables.py [REPO]   — the translator half of the tie for the format / header TABLES.

Parses the literal tables of the library out of REPO/src (default /repo) and prints the Lean module
`DdsModel/SrcTables.lean`. check.py regenerates that file from the current working tree on EVERY run before it builds
the theorem modules; `HeaderTables.lean`, `FormatTables.lean` and `Header.lean` define their tables FROM that module,
so the table-consistency theorems of C09 / C18 / C19 (round trips, conversions keep the bytes-per-pixel / block shape,
header-derived layout = the format's layout, the named DXGI constants are exactly the accepted codes, ...) are
re-checked by the kernel against what the code says NOW: a harmless table change (more legacy FourCC codes) re-proves
them and stays quiet; a row under which a theorem is false fails the build of that theorem and is reported.

What is translated (all literal data; nothing is evaluated as Rust):
  src/header.rs   FourCC constants, PixelFormatFlags constants, RgbBitCount / AlphaMode discriminants,
                  define_dxgi_formats!(NAME = code ...), TryFrom<u32> for DxgiFormat (accepted codes),
                  DxgiFormat::to_linear, DxgiFormat::has_alpha
  src/pixel.rs    TryFrom<DxgiFormat> for PixelInfo, the explicit arms of From<Format> for PixelInfo
  src/detect.rs   special_cases, dxgi_format_to_supported, four_cc_to_dxgi, dxgi_to_four_cc,
                  four_cc_to_supported (second stage), KNOWN_PIXEL_FORMATS (with its local helper functions)
  src/format.rs   enum Format (compared with the pinned Lean inductive), TryFrom<Format> for DxgiFormat / FourCC

Every parser is a small bracket-matching / regex parser for exactly the syntax forms the tables use. Anything it does
not recognise (a new syntax form, a missing function, a Format name the Lean inductive does not have, an unknown
constant) is an extraction failure: exit 3 with a message. check.py reports that as a broken correspondence and never
keeps an old table silently.
"""
import os, re, sys

HERE = os.path.dirname(os.path.abspath(__file__))
LEAN_ENUM = os.path.join(HERE, "..", "lean", "DdsModel", "DdsModel", "FormatEnum.lean")


class Fail(Exception):
    pass


# ----------------------------------------------------------------------------------------------------------------
# lexical helpers

def strip_comments(src):
    """replace // and /* */ comments by spaces (offsets and newlines kept); string / char literals are respected"""
    out = []
    i, n = 0, len(src)
    while i < n:
        c = src[i]
        if src.startswith("//", i):
            j = src.find("\n", i)
            j = n if j < 0 else j
            out.append(" " * (j - i))
            i = j
        elif src.startswith("/*", i):
            depth, j = 1, i + 2
            while j < n and depth:
                if src.startswith("/*", j):
                    depth += 1; j += 2
                elif src.startswith("*/", j):
                    depth -= 1; j += 2
                else:
                    j += 1
            out.append(re.sub(r"[^\n]", " ", src[i:j]))
            i = j
        elif c == '"':
            j = i + 1
            while j < n and src[j] != '"':
                j += 2 if src[j] == "\\" else 1
            out.append(src[i:j + 1])
            i = j + 1
        elif c == "'":
            m = re.match(r"'(\\.[^']*|[^\\'])'", src[i:])
            if m:
                out.append(m.group(0)); i += len(m.group(0))
            else:
                out.append(c); i += 1          # a lifetime
        else:
            out.append(c); i += 1
    return "".join(out)


OPEN, CLOSE = "([{", ")]}"


def match_close(s, i):
    """index of the bracket closing the one at s[i]"""
    if s[i] not in OPEN:
        raise Fail(f"internal: no bracket at {i}: {s[i:i+20]!r}")
    stack = []
    j = i
    while j < len(s):
        c = s[j]
        if c == '"':
            j += 1
            while j < len(s) and s[j] != '"':
                j += 2 if s[j] == "\\" else 1
        elif c in OPEN:
            stack.append(c)
        elif c in CLOSE:
            if not stack or OPEN.index(stack[-1]) != CLOSE.index(c):
                raise Fail(f"unbalanced brackets near {s[max(0,j-30):j+10]!r}")
            stack.pop()
            if not stack:
                return j
        j += 1
    raise Fail(f"unclosed bracket near {s[i:i+40]!r}")


def split_top(s, sep):
    """split s at the separator string `sep` where bracket depth is 0 (for '|' the '||' operator is not a separator)"""
    parts, depth, cur, i = [], 0, [], 0
    while i < len(s):
        c = s[i]
        if c in OPEN:
            depth += 1
        elif c in CLOSE:
            depth -= 1
        if depth == 0 and s.startswith(sep, i):
            parts.append("".join(cur)); cur = []; i += len(sep); continue
        cur.append(c); i += 1
    parts.append("".join(cur))
    return parts


def norm(s):
    s = re.sub(r"\s+", " ", s).strip()
    return re.sub(r"\s*([(){}\[\],:;|=<>!&.*%])\s*", r"\1", s)


def block_after(src, regex, what, flags=re.S):
    """text between the braces opened by the `{` that ends the first match of regex"""
    m = re.search(regex, src, flags)
    if not m:
        raise Fail(f"{what}: not found")
    i = m.end() - 1
    if src[i] != "{":
        raise Fail(f"internal: pattern for {what} does not end in an opening brace")
    return src[i + 1:match_close(src, i)]


def int_lit(s, what):
    t = s.strip().replace("_", "")
    t = re.sub(r"(u8|u16|u32|u64|usize|i32)$", "", t)
    if re.fullmatch(r"0[xX][0-9a-fA-F]+", t):
        return int(t, 16)
    if re.fullmatch(r"0b[01]+", t):
        return int(t[2:], 2)
    if re.fullmatch(r"[0-9]+", t):
        return int(t)
    raise Fail(f"{what}: not an integer literal: {s.strip()!r}")


def parse_arms(text, what):
    """arms of a `match`: list of (patterns[list of normalised str], guard or None, normalised expression)"""
    arms, i, n = [], 0, len(text)
    while True:
        while i < n and text[i] in " \t\r\n,":
            i += 1
        if i >= n:
            break
        # pattern: up to `=>` at depth 0
        depth, j = 0, i
        while j < n:
            c = text[j]
            if c in OPEN:
                depth += 1
            elif c in CLOSE:
                depth -= 1
            elif depth == 0 and text.startswith("=>", j):
                break
            j += 1
        if j >= n:
            raise Fail(f"{what}: arm without `=>`: {norm(text[i:i+80])!r}")
        pat = text[i:j]
        j += 2
        while j < n and text[j] in " \t\r\n":
            j += 1
        if j < n and text[j] == "{":
            k = match_close(text, j)
            expr = text[j + 1:k]
            i = k + 1
        else:
            depth, k = 0, j
            while k < n:
                c = text[k]
                if c in OPEN:
                    depth += 1
                elif c in CLOSE:
                    depth -= 1
                elif c == "," and depth == 0:
                    break
                k += 1
            expr = text[j:k]
            i = k + 1
        guard = None
        m = re.search(r"\sif\s", pat)
        if m:
            pat, guard = pat[:m.start()], norm(pat[m.end():])
        alts = [norm(a) for a in split_top(pat, "|")]
        if alts and alts[0] == "":
            alts = alts[1:]
        if not alts or any(a == "" for a in alts):
            raise Fail(f"{what}: empty pattern in {norm(pat)!r}")
        arms.append((alts, guard, norm(expr)))
    if not arms:
        raise Fail(f"{what}: no match arms")
    return arms


def match_arms(body, scrut_regex, what):
    m = re.search(r"match\s+" + scrut_regex + r"\s*\{", body)
    if not m:
        raise Fail(f"{what}: `match {scrut_regex}` not found")
    i = m.end() - 1
    j = match_close(body, i)
    return parse_arms(body[i + 1:j], what), body[:m.start()], body[j + 1:]


def aliases(body):
    return {a: t for t, a in re.findall(r"\buse\s+(\w+)\s+as\s+(\w+)\s*;", body)}


# ----------------------------------------------------------------------------------------------------------------
# the tables

class Tables:
    pass


def lean_format_names():
    try:
        src = open(LEAN_ENUM).read()
    except OSError as e:
        raise Fail(f"pinned Lean inductive: {e}")
    m = re.search(r"inductive Format where(.*?)deriving", src, re.S)
    if not m:
        raise Fail("pinned Lean inductive `Format` not found in FormatEnum.lean")
    return re.findall(r"\|\s*([A-Za-z0-9_]+)", m.group(1))


def extract(repo):
    rd = lambda p: strip_comments(open(os.path.join(repo, "src", p)).read())
    try:
        header, pixel, detect, fmt = rd("header.rs"), rd("pixel.rs"), rd("detect.rs"), rd("format.rs")
    except OSError as e:
        raise Fail(str(e))
    T = Tables()

    # ---- enum Format (src/format.rs) against the pinned Lean inductive
    body = block_after(fmt, r"pub enum Format\s*\{", "format.rs: enum Format")
    body = re.sub(r"#\[[^\]]*\]", " ", body)
    variants = [v.strip() for v in split_top(body, ",") if v.strip()]
    for v in variants:
        if not re.fullmatch(r"[A-Za-z][A-Za-z0-9_]*", v):
            raise Fail(f"format.rs: enum Format: variant with payload or discriminant: {norm(v)!r}")
    lean = lean_format_names()
    if variants != lean:
        extra = [v for v in variants if v not in lean]
        missing = [v for v in lean if v not in variants]
        raise Fail("format.rs: enum Format differs from the pinned Lean inductive `Dds.Format` "
                   f"(only in the source: {extra}; only in Lean: {missing}; or the order differs)")
    T.formats = variants
    fset = set(variants)

    def fmt_of(e, what, al=None):
        m = re.fullmatch(r"(\w+)::(\w+)", e)
        if not m or (al or {}).get(m.group(1), m.group(1)) != "Format":
            raise Fail(f"{what}: expected Format::NAME, got {e!r}")
        if m.group(2) not in fset:
            raise Fail(f"{what}: Format::{m.group(2)} is not a variant of the Lean inductive")
        return m.group(2)

    # ---- FourCC constants
    body = block_after(header, r"\nimpl FourCC\s*\{", "header.rs: impl FourCC")
    T.fourcc = {}
    for stmt in split_top(body, ";"):
        s = norm(stmt)
        if not s:
            continue
        m = re.fullmatch(r'pub const (\w+):Self=FourCC\(u32::from_le_bytes\(\*b"(.{4})"\)\)', s)
        if m:
            b = m.group(2).encode("latin-1")
            T.fourcc[m.group(1)] = b[0] | b[1] << 8 | b[2] << 16 | b[3] << 24
            continue
        m = re.fullmatch(r"pub const (\w+):Self=FourCC\(([0-9a-fA-Fx_u]+)\)", s)
        if m:
            T.fourcc[m.group(1)] = int_lit(m.group(2), f"FourCC::{m.group(1)}")
            continue
        raise Fail(f"header.rs: impl FourCC: unrecognised item {s[:80]!r}")
    if not T.fourcc:
        raise Fail("header.rs: impl FourCC: no constants")

    def fourcc_of(e, what):
        m = re.fullmatch(r"FourCC::(\w+)", e)
        if m:
            if m.group(1) not in T.fourcc:
                raise Fail(f"{what}: unknown constant FourCC::{m.group(1)}")
            return T.fourcc[m.group(1)], m.group(1)
        m = re.fullmatch(r"FourCC\(([0-9a-fA-Fx_u]+)\)", e)
        if m:
            v = int_lit(m.group(1), what)
            if v >= 1 << 32:
                raise Fail(f"{what}: FourCC literal out of u32 range")
            return v, str(v)
        raise Fail(f"{what}: expected FourCC::NAME or FourCC(literal), got {e!r}")

    # ---- define_dxgi_formats!
    m = re.search(r"macro_rules!\s*define_dxgi_formats\s*\{", header)
    if not m:
        raise Fail("header.rs: macro define_dxgi_formats not found")
    mac = norm(header[m.end() - 1:match_close(header, m.end() - 1)])
    if "($($name:ident=$n:literal),+)" not in mac or "$(pub const $name:DxgiFormat=DxgiFormat($n);)+" not in mac:
        raise Fail("header.rs: macro define_dxgi_formats no longer declares `pub const $name: DxgiFormat = DxgiFormat($n)`")
    m = re.search(r"\ndefine_dxgi_formats!\s*\(", header)
    if not m:
        raise Fail("header.rs: define_dxgi_formats!( ... ) not found")
    i = m.end() - 1
    body = header[i + 1:match_close(header, i)]
    T.dxgi_names, T.dxgi_code = [], {}
    for item in split_top(body, ","):
        s = norm(item)
        if not s:
            continue
        m = re.fullmatch(r"([A-Za-z][A-Za-z0-9_]*)=([0-9a-fA-Fx_]+)", s)
        if not m:
            raise Fail(f"header.rs: define_dxgi_formats!: unrecognised item {s!r}")
        name, code = m.group(1), int_lit(m.group(2), "define_dxgi_formats!")
        if code > 255:
            raise Fail(f"header.rs: DxgiFormat::{name} = {code} does not fit the u8")
        if name in T.dxgi_code:
            raise Fail(f"header.rs: DxgiFormat::{name} defined twice")
        T.dxgi_names.append(name)
        T.dxgi_code[name] = code
    if re.search(r"pub const \w+\s*:\s*DxgiFormat\s*=", header.replace("pub const $name", "")):
        raise Fail("header.rs: a DxgiFormat constant is defined outside define_dxgi_formats!")

    def dxgi_of(e, what, al=None):
        m = re.fullmatch(r"(\w+)::(\w+)", e)
        if not m or (al or {}).get(m.group(1), m.group(1)) != "DxgiFormat":
            raise Fail(f"{what}: expected DxgiFormat::NAME, got {e!r}")
        if m.group(2) not in T.dxgi_code:
            raise Fail(f"{what}: unknown constant DxgiFormat::{m.group(2)}")
        return m.group(2)

    # ---- TryFrom<u32> for DxgiFormat: the accepted codes
    body = block_after(header, r"impl TryFrom<u32> for DxgiFormat\s*\{", "header.rs: TryFrom<u32> for DxgiFormat")
    fbody = block_after(body, r"fn try_from\(value:\s*u32\)\s*->\s*Result<Self,\s*Self::Error>\s*\{",
                        "header.rs: DxgiFormat::try_from(u32)")
    arms, pre, post = match_arms(fbody, "value", "header.rs: DxgiFormat::try_from(u32)")
    if norm(pre) or norm(post):
        raise Fail("header.rs: DxgiFormat::try_from(u32): code around the match")
    rules, hi_max, wild = [], 0, False
    for alts, guard, expr in arms:
        if wild:
            raise Fail("header.rs: DxgiFormat::try_from(u32): arm after the wildcard")
        if expr == "Ok(DxgiFormat(value as u8))":
            ok = True
        elif expr == "Err(value)":
            ok = False
        else:
            raise Fail(f"header.rs: DxgiFormat::try_from(u32): unrecognised arm value {expr!r}")
        g = None
        if guard is not None:
            m = re.fullmatch(r"value%([0-9_]+)(!=|==)([0-9_]+)", guard)
            if not m or int(m.group(1).replace("_", "")) == 0:
                raise Fail(f"header.rs: DxgiFormat::try_from(u32): unrecognised guard {guard!r}")
            g = (int(m.group(1).replace("_", "")), m.group(2), int(m.group(3).replace("_", "")))
        rs = []
        for a in alts:
            if a == "_":
                if len(alts) != 1:
                    raise Fail("header.rs: DxgiFormat::try_from(u32): wildcard inside an alternative")
                rs.append(None)
                wild = guard is None
                continue
            m = re.fullmatch(r"([0-9a-fA-Fx_]+)\.\.(=?)([0-9a-fA-Fx_]+)", a)
            if m:
                lo, hi = int_lit(m.group(1), "range"), int_lit(m.group(3), "range")
                hi = hi if m.group(2) else hi - 1
            else:
                lo = hi = int_lit(a, "header.rs: DxgiFormat::try_from(u32) pattern")
            if hi >= 1 << 16:
                raise Fail("header.rs: DxgiFormat::try_from(u32): range bound too large")
            hi_max = max(hi_max, hi)
            rs.append((lo, hi))
        rules.append((rs, g, ok))
    if not wild or rules[-1][2]:
        raise Fail("header.rs: DxgiFormat::try_from(u32): no final `_ => Err(value)` arm")

    def accepted(v):
        for rs, g, ok in rules:
            hit = any(r is None or r[0] <= v <= r[1] for r in rs)
            if hit and g is not None:
                hit = (v % g[0] != g[2]) if g[1] == "!=" else (v % g[0] == g[2])
            if hit:
                return ok
        return False
    codes = [v for v in range(hi_max + 2) if accepted(v)]
    if codes and codes[-1] > 255:
        raise Fail(f"header.rs: DxgiFormat::try_from accepts {codes[-1]}, which `value as u8` truncates")
    T.valid_ranges = []
    for v in codes:
        if T.valid_ranges and T.valid_ranges[-1][1] == v - 1:
            T.valid_ranges[-1][1] = v
        else:
            T.valid_ranges.append([v, v])

    # ---- to_linear / has_alpha
    body = block_after(header, r"pub const fn to_linear\(self\)\s*->\s*DxgiFormat\s*\{", "header.rs: DxgiFormat::to_linear")
    arms, pre, post = match_arms(body, "self", "header.rs: DxgiFormat::to_linear")
    if norm(pre) or norm(post):
        raise Fail("header.rs: DxgiFormat::to_linear: code around the match")
    T.linear = {}
    for n_, (alts, guard, expr) in enumerate(arms):
        if guard:
            raise Fail("header.rs: DxgiFormat::to_linear: guard")
        if alts == ["_"]:
            if expr != "self" or n_ != len(arms) - 1:
                raise Fail("header.rs: DxgiFormat::to_linear: the wildcard arm is not the final `_ => self`")
            continue
        to = dxgi_of(expr, "header.rs: DxgiFormat::to_linear")
        for a in alts:
            T.linear.setdefault(dxgi_of(a, "header.rs: DxgiFormat::to_linear"), to)
    if arms[-1][0] != ["_"]:
        raise Fail("header.rs: DxgiFormat::to_linear: no `_ => self` arm")
    body = block_after(header, r"pub const fn has_alpha\(self\)\s*->\s*bool\s*\{", "header.rs: DxgiFormat::has_alpha")
    m = re.fullmatch(r"\s*matches!\s*\((.*)\)\s*", body, re.S)
    if not m:
        raise Fail("header.rs: DxgiFormat::has_alpha is not a single matches!(self, ...)")
    parts = split_top(m.group(1), ",")
    parts = [p for p in parts if p.strip()]
    if len(parts) != 2 or norm(parts[0]) != "self":
        raise Fail("header.rs: DxgiFormat::has_alpha: unrecognised matches! arguments")
    T.has_alpha = {dxgi_of(norm(a), "header.rs: DxgiFormat::has_alpha") for a in split_top(parts[1], "|") if a.strip()}

    # ---- TryFrom<DxgiFormat> for PixelInfo
    def pixel_info(e, what):
        m = re.fullmatch(r"(?:Self|PixelInfo)::fixed\(([0-9_]+)\)", e)
        if m:
            v = ("fixed", int_lit(m.group(1), what))
        else:
            m = re.fullmatch(r"(?:Self|PixelInfo)::block\(([0-9_]+),\(([0-9_]+),([0-9_]+)\)\)", e)
            if m:
                v = ("block",) + tuple(int_lit(x, what) for x in m.groups())
            else:
                m = re.fullmatch(r"(?:Self|PixelInfo)::bi_planar\(([0-9_]+),([0-9_]+),\(([0-9_]+),([0-9_]+)\)\)", e)
                if not m:
                    raise Fail(f"{what}: unrecognised PixelInfo expression {e!r}")
                v = ("biPlanar",) + tuple(int_lit(x, what) for x in m.groups())
        if any(x > 255 for x in v[1:]):
            raise Fail(f"{what}: {e!r} does not fit u8")
        return v

    body = block_after(pixel, r"impl TryFrom<DxgiFormat> for PixelInfo\s*\{", "pixel.rs: TryFrom<DxgiFormat> for PixelInfo")
    fbody = block_after(body, r"fn try_from\(value:\s*DxgiFormat\)\s*->\s*Result<Self,\s*Self::Error>\s*\{",
                        "pixel.rs: PixelInfo::try_from(DxgiFormat)")
    al = aliases(fbody)
    arms, pre, post = match_arms(fbody, "value", "pixel.rs: PixelInfo::try_from(DxgiFormat)")
    if norm(re.sub(r"\buse\s+\w+\s+as\s+\w+\s*;", "", pre)) or norm(post):
        raise Fail("pixel.rs: PixelInfo::try_from(DxgiFormat): code around the match")
    T.dxgi_px = {}
    for n_, (alts, guard, expr) in enumerate(arms):
        what = "pixel.rs: PixelInfo::try_from(DxgiFormat)"
        if guard:
            raise Fail(what + ": guard")
        if alts == ["_"]:
            if expr != "Err(())" or n_ != len(arms) - 1:
                raise Fail(what + ": the wildcard arm is not the final `_ => Err(())`")
            continue
        if expr == "Err(())":
            val = None
        else:
            m = re.fullmatch(r"Ok\((.*)\)", expr)
            if not m:
                raise Fail(f"{what}: unrecognised arm value {expr!r}")
            val = pixel_info(m.group(1), what)
        for a in alts:
            T.dxgi_px.setdefault(dxgi_of(a, what, al), val)
    if arms[-1][0] != ["_"]:
        raise Fail("pixel.rs: PixelInfo::try_from(DxgiFormat): no `_ => Err(())` arm")

    # ---- From<Format> for PixelInfo: explicit arms; everything else goes through the DXGI code
    body = block_after(pixel, r"impl From<Format> for PixelInfo\s*\{", "pixel.rs: From<Format> for PixelInfo")
    fbody = block_after(body, r"fn from\(value:\s*Format\)\s*->\s*Self\s*\{", "pixel.rs: PixelInfo::from(Format)")
    al = aliases(fbody)
    arms, pre, post = match_arms(fbody, "value", "pixel.rs: PixelInfo::from(Format)")
    if norm(re.sub(r"\buse\s+\w+\s+as\s+\w+\s*;", "", pre)) or norm(post):
        raise Fail("pixel.rs: PixelInfo::from(Format): code around the match")
    T.format_px = []
    seen = set()
    for n_, (alts, guard, expr) in enumerate(arms):
        what = "pixel.rs: PixelInfo::from(Format)"
        if guard:
            raise Fail(what + ": guard")
        if alts == ["_"]:
            if n_ != len(arms) - 1 or expr != "let dxgi=DxgiFormat::try_from(value).unwrap();PixelInfo::try_from(dxgi).unwrap()":
                raise Fail(what + ": the wildcard arm is not the final `DxgiFormat::try_from(value).unwrap()` / "
                                  "`PixelInfo::try_from(dxgi).unwrap()` pair")
            continue
        val = pixel_info(expr, what)
        for a in alts:
            f = fmt_of(a, what, al)
            if f not in seen:
                seen.add(f)
                T.format_px.append((f, val))
    if arms[-1][0] != ["_"]:
        raise Fail("pixel.rs: PixelInfo::from(Format): no wildcard arm")

    # ---- detect.rs: Option-valued matches
    def option_match(src, sig, scrut, key_of, val_of, what, wrap="Some"):
        fbody = block_after(src, sig, what)
        arms, pre, post = match_arms(fbody, scrut, what)
        rows, seen_ = [], set()
        for n_, (alts, guard, expr) in enumerate(arms):
            if guard:
                raise Fail(what + ": guard")
            if alts == ["_"]:
                if expr != "None" or n_ != len(arms) - 1:
                    raise Fail(what + ": the wildcard arm is not the final `_ => None`")
                continue
            m = re.fullmatch(wrap + r"\((.*)\)", expr)
            if not m:
                raise Fail(f"{what}: unrecognised arm value {expr!r}")
            val = val_of(m.group(1), what)
            for a in alts:
                k = key_of(a, what)
                kk = k[0] if isinstance(k, tuple) else k
                if kk in seen_:
                    continue            # unreachable in Rust as well: the first arm wins
                seen_.add(kk)
                rows.append((k, val))
        if arms[-1][0] != ["_"]:
            raise Fail(what + ": no `_ => None` arm")
        return rows, norm(pre), norm(post)

    rows, pre, post = option_match(detect, r"const fn dxgi_format_to_supported\(dxgi_format:\s*DxgiFormat\)\s*->\s*Option<Format>\s*\{",
                                   "dxgi_format", dxgi_of, fmt_of, "detect.rs: dxgi_format_to_supported")
    if pre or post:
        raise Fail("detect.rs: dxgi_format_to_supported: code around the match")
    T.supported = dict(rows)

    rows, pre, post = option_match(detect, r"const fn four_cc_to_dxgi\(four_cc:\s*FourCC\)\s*->\s*Option<DxgiFormat>\s*\{",
                                   "four_cc", fourcc_of, dxgi_of, "detect.rs: four_cc_to_dxgi")
    if pre or post:
        raise Fail("detect.rs: four_cc_to_dxgi: code around the match")
    T.fourcc_to_dxgi = rows          # ((value, label), dxgi name)

    rows, pre, post = option_match(detect, r"const fn dxgi_to_four_cc\(dxgi:\s*DxgiFormat\)\s*->\s*Option<FourCC>\s*\{",
                                   "dxgi", dxgi_of, fourcc_of, "detect.rs: dxgi_to_four_cc")
    if pre or post:
        raise Fail("detect.rs: dxgi_to_four_cc: code around the match")
    T.dxgi_to_fourcc = rows          # (dxgi name, (value, label))

    rows, pre, post = option_match(detect, r"const fn four_cc_to_supported\(four_cc:\s*FourCC\)\s*->\s*Option<Format>\s*\{",
                                   "four_cc", fourcc_of, fmt_of, "detect.rs: four_cc_to_supported")
    if pre != "if let Some(dxgi_format)=four_cc_to_dxgi(four_cc){return dxgi_format_to_supported(dxgi_format);}" or post:
        raise Fail("detect.rs: four_cc_to_supported is no longer `four_cc_to_dxgi` -> `dxgi_format_to_supported`, "
                   "then a match on the four CC")
    T.fourcc_direct = rows           # ((value, label), format)

    # ---- special_cases
    T.alpha_modes = {}
    body = block_after(header, r"pub enum AlphaMode\s*\{", "header.rs: enum AlphaMode")
    for item in split_top(body, ","):
        s = norm(item)
        if not s:
            continue
        m = re.fullmatch(r"(\w+)=([0-9]+)", s)
        if not m:
            raise Fail(f"header.rs: enum AlphaMode: unrecognised variant {s!r}")
        T.alpha_modes[m.group(1)] = int(m.group(2))
    body = norm(block_after(detect, r"const fn special_cases\(dx10:\s*&Dx10Header\)\s*->\s*Option<Format>\s*\{",
                            "detect.rs: special_cases"))
    m = re.fullmatch(r"if matches!\(dx10\.alpha_mode,AlphaMode::(\w+)\)\{match dx10\.dxgi_format\{(.*)\}\}None", body)
    if not m or m.group(1) not in T.alpha_modes:
        raise Fail("detect.rs: special_cases: unrecognised shape")
    T.special = []
    sc_arms = parse_arms(m.group(2), "detect.rs: special_cases")
    for n_, (alts, guard, expr) in enumerate(sc_arms):
        if guard:
            raise Fail("detect.rs: special_cases: guard")
        if alts == ["_"]:
            if expr != "" or n_ != len(sc_arms) - 1:
                raise Fail("detect.rs: special_cases: the wildcard arm is not the final `_ => {}`")
            continue
        mm = re.fullmatch(r"return Some\((.*)\)", expr)
        if not mm:
            raise Fail(f"detect.rs: special_cases: unrecognised arm value {expr!r}")
        f = fmt_of(mm.group(1), "detect.rs: special_cases")
        for a in alts:
            T.special.append((T.alpha_modes[m.group(1)], dxgi_of(a, "detect.rs: special_cases"), f))
    if sc_arms[-1][0] != ["_"]:
        raise Fail("detect.rs: special_cases: no `_ => {}` arm")

    # ---- PixelFormatFlags / RgbBitCount
    m = re.search(r"pub struct PixelFormatFlags\s*:\s*u32\s*\{", header)
    if not m:
        raise Fail("header.rs: bitflags PixelFormatFlags not found")
    body = header[m.end():match_close(header, m.end() - 1)]
    T.pf_flags = {}
    for stmt in split_top(body, ";"):
        s = norm(re.sub(r"#\[[^\]]*\]", " ", stmt))
        if not s:
            continue
        m = re.fullmatch(r"const (\w+)=(.*)", s)
        if not m:
            raise Fail(f"header.rs: PixelFormatFlags: unrecognised item {s[:60]!r}")
        val = 0
        for term in split_top(m.group(2), "|"):
            mm = re.fullmatch(r"Self::(\w+)\.bits\(\)", term)
            if mm:
                if mm.group(1) not in T.pf_flags:
                    raise Fail(f"header.rs: PixelFormatFlags::{m.group(1)} uses {mm.group(1)} before its definition")
                val |= T.pf_flags[mm.group(1)]
            else:
                val |= int_lit(term, f"header.rs: PixelFormatFlags::{m.group(1)}")
        T.pf_flags[m.group(1)] = val
    body = block_after(header, r"pub enum RgbBitCount\s*\{", "header.rs: enum RgbBitCount")
    T.bit_counts = {}
    for item in split_top(body, ","):
        s = norm(item)
        if not s:
            continue
        m = re.fullmatch(r"(\w+)=([0-9]+)", s)
        if not m:
            raise Fail(f"header.rs: enum RgbBitCount: unrecognised variant {s!r}")
        T.bit_counts[m.group(1)] = int(m.group(2))

    # ---- KNOWN_PIXEL_FORMATS
    what = "detect.rs: KNOWN_PIXEL_FORMATS"
    body = block_after(detect, r"const KNOWN_PIXEL_FORMATS\s*:\s*&\[\(PFPattern,\s*Option<DxgiFormat>,\s*Format\)\]\s*=\s*\{", what)
    wf = norm(block_after(detect, r"const fn with_flags\(mut self,\s*flags:\s*PixelFormatFlags\)\s*->\s*Self\s*\{",
                          "detect.rs: PFPattern::with_flags"))
    if wf != "self.flags=flags;self":
        raise Fail("detect.rs: PFPattern::with_flags no longer just replaces the flags")
    FIELDS = ["flags", "rgb_bit_count", "r_bit_mask", "g_bit_mask", "b_bit_mask", "a_bit_mask"]
    helpers, lets = {}, {}
    rest = body
    # local helper functions
    while True:
        m = re.search(r"const fn (\w+)\s*\(", rest)
        if not m:
            break
        name = m.group(1)
        i = m.end() - 1
        j = match_close(rest, i)
        params = []
        for p in split_top(rest[i + 1:j], ","):
            p = norm(p)
            if not p:
                continue
            mm = re.fullmatch(r"(\w+):u32", p)
            if not mm:
                raise Fail(f"{what}: helper {name}: parameter {p!r} is not a plain u32")
            params.append(mm.group(1))
        k = rest.find("{", j)
        ret = norm(rest[j + 1:k])
        e = match_close(rest, k)
        fb = rest[k + 1:e]
        if ret == "->RgbBitCount":
            arms, pre, post = match_arms(fb, re.escape(params[0]) if len(params) == 1 else "?", f"{what}: {name}")
            table = {}
            for alts, guard, expr in arms:
                if alts == ["_"]:
                    if not expr.startswith("panic!("):
                        raise Fail(f"{what}: {name}: the wildcard arm does not panic")
                    continue
                mm = re.fullmatch(r"RgbBitCount::(\w+)", expr)
                if guard or not mm or mm.group(1) not in T.bit_counts:
                    raise Fail(f"{what}: {name}: unrecognised arm {alts} => {expr!r}")
                for a in alts:
                    table[int_lit(a, f"{what}: {name}")] = T.bit_counts[mm.group(1)]
            helpers[name] = ("bitcount", table)
        elif ret == "->PFPattern":
            mm = re.fullmatch(r"\s*PFPattern\s*\{(.*)\}\s*", fb, re.S)
            if not mm:
                raise Fail(f"{what}: helper {name} is not a single PFPattern literal")
            helpers[name] = ("pattern", params, mm.group(1))
        else:
            raise Fail(f"{what}: helper {name}: unexpected return type {ret!r}")
        rest = rest[:m.start()] + " " * (e + 1 - m.start()) + rest[e + 1:]

    def flags_expr(e, env):
        e = norm(e)
        if e in env:
            return env[e]
        if e in lets:
            return lets[e]
        mm = re.fullmatch(r"PixelFormatFlags::(\w+)", e)
        if mm and mm.group(1) in T.pf_flags:
            return T.pf_flags[mm.group(1)]
        mm = re.fullmatch(r"PixelFormatFlags::(\w+)\.union\((.*)\)", e)
        if mm and mm.group(1) in T.pf_flags:
            return T.pf_flags[mm.group(1)] | flags_expr(mm.group(2), env)
        raise Fail(f"{what}: unrecognised flags expression {e!r}")

    def u32_expr(e, env):
        e = norm(e)
        if e in env:
            return env[e]
        v = int_lit(e, what)
        if v >= 1 << 32:
            raise Fail(f"{what}: mask {e!r} out of u32 range")
        return v

    def bitcount_expr(e, env):
        e = norm(e)
        mm = re.fullmatch(r"RgbBitCount::(\w+)", e)
        if mm and mm.group(1) in T.bit_counts:
            return T.bit_counts[mm.group(1)]
        mm = re.fullmatch(r"(\w+)\((.*)\)", e)
        if mm and helpers.get(mm.group(1), ("",))[0] == "bitcount":
            v = u32_expr(mm.group(2), env)
            table = helpers[mm.group(1)][1]
            if v not in table:
                raise Fail(f"{what}: {mm.group(1)}({v}) panics (invalid bit count)")
            return table[v]
        raise Fail(f"{what}: unrecognised bit count expression {e!r}")

    def literal(fields_src, env):
        got = {}
        for item in split_top(fields_src, ","):
            if not item.strip():
                continue
            mm = re.fullmatch(r"\s*(\w+)\s*:(.*)", item, re.S)
            if not mm or mm.group(1) not in FIELDS or mm.group(1) in got:
                raise Fail(f"{what}: unrecognised PFPattern field {norm(item)!r}")
            f = mm.group(1)
            got[f] = flags_expr(mm.group(2), env) if f == "flags" else \
                bitcount_expr(mm.group(2), env) if f == "rgb_bit_count" else u32_expr(mm.group(2), env)
        if sorted(got) != sorted(FIELDS):
            raise Fail(f"{what}: PFPattern literal without all six fields")
        return [got[f] for f in FIELDS]

    # `let name = <flags expression>;`, `use Format::*;`, then `&[ rows ]`
    m = re.search(r"&\s*\[", rest)
    if not m:
        raise Fail(f"{what}: `&[ ... ]` not found")
    i = m.end() - 1
    j = match_close(rest, i)
    if norm(rest[j + 1:]):
        raise Fail(f"{what}: code after the table")
    glob_format = False
    for stmt in split_top(rest[:m.start()], ";"):
        s = norm(stmt)
        if not s:
            continue
        if s == "use Format::*":
            glob_format = True
            continue
        mm = re.fullmatch(r"let (\w+)=(.*)", s)
        if not mm:
            raise Fail(f"{what}: unrecognised statement {s[:80]!r}")
        lets[mm.group(1)] = flags_expr(mm.group(2), {})
    T.known = []
    for row in split_top(rest[i + 1:j], ","):
        if not row.strip():
            continue
        r = row.strip()
        if r[0] != "(" or match_close(r, 0) != len(r) - 1:
            raise Fail(f"{what}: row is not a tuple: {norm(r)[:80]!r}")
        cols = [c for c in split_top(r[1:-1], ",")]
        if cols and not cols[-1].strip():
            cols = cols[:-1]
        if len(cols) != 3:
            raise Fail(f"{what}: row does not have three columns: {norm(r)[:80]!r}")
        pat, dx, f = cols[0].strip(), norm(cols[1]), norm(cols[2])
        with_flags = None
        mm = re.fullmatch(r"(.*)\.with_flags\s*\((.*)\)", pat, re.S)
        if mm:
            pat, with_flags = mm.group(1).strip(), mm.group(2)
        mm = re.fullmatch(r"PFPattern\s*\{(.*)\}", pat, re.S)
        if mm:
            vals = literal(mm.group(1), {})
        else:
            mm = re.fullmatch(r"(\w+)\s*\((.*)\)", pat, re.S)
            if not mm or helpers.get(mm.group(1), ("",))[0] != "pattern":
                raise Fail(f"{what}: unrecognised pattern expression {norm(pat)[:80]!r}")
            _, params, fields_src = helpers[mm.group(1)]
            args = [a for a in split_top(mm.group(2), ",") if a.strip()]
            if len(args) != len(params):
                raise Fail(f"{what}: {mm.group(1)} called with {len(args)} arguments")
            vals = literal(fields_src, {p: u32_expr(a, {}) for p, a in zip(params, args)})
        if with_flags is not None:
            vals[0] = flags_expr(with_flags, {})
        if dx == "None":
            dname = None
        else:
            mm = re.fullmatch(r"Some\((.*)\)", dx)
            if not mm:
                raise Fail(f"{what}: unrecognised DXGI column {dx!r}")
            dname = dxgi_of(mm.group(1), what)
        if re.fullmatch(r"\w+", f) and glob_format:
            if f not in fset:
                raise Fail(f"{what}: {f} is not a variant of the Lean inductive `Format`")
            fname = f
        else:
            fname = fmt_of(f, what)
        T.known.append((vals, dname, fname))
    if not T.known:
        raise Fail(f"{what}: empty table")

    # ---- TryFrom<Format> for DxgiFormat / FourCC
    what = "format.rs: TryFrom<Format> for DxgiFormat"
    body = block_after(fmt, r"impl TryFrom<Format> for DxgiFormat\s*\{", what)
    fbody = block_after(body, r"fn try_from\(value:\s*Format\)\s*->\s*Result<DxgiFormat,\s*Self::Error>\s*\{", what)
    arms, pre, post = match_arms(fbody, "value", what)
    pre, post = norm(pre), norm(post)
    if (pre, post) == ("Ok(", ")"):
        wrapped = True
    elif (pre, post) == ("", ""):
        wrapped = False
    else:
        raise Fail(what + ": code around the match")
    T.format_to_dxgi, seen = [], set()
    for n_, (alts, guard, expr) in enumerate(arms):
        if guard:
            raise Fail(what + ": guard")
        if expr in ("return Err(())",) or (not wrapped and expr == "Err(())"):
            val = None
        else:
            e = expr
            if not wrapped:
                mm = re.fullmatch(r"Ok\((.*)\)", expr)
                if not mm:
                    raise Fail(f"{what}: unrecognised arm value {expr!r}")
                e = mm.group(1)
            val = dxgi_of(e, what)
        if alts == ["_"]:
            if val is not None or n_ != len(arms) - 1:
                raise Fail(what + ": the wildcard arm is not a final error arm")
            continue
        for a in alts:
            f = fmt_of(a, what)
            if f in seen:
                continue
            seen.add(f)
            if val is not None:
                T.format_to_dxgi.append((f, val))
    if arms[-1][0] != ["_"] and seen != fset:
        raise Fail(what + f": formats without an arm: {sorted(fset - seen)}")

    what = "format.rs: TryFrom<Format> for FourCC"
    body = block_after(fmt, r"impl TryFrom<Format> for FourCC\s*\{", what)
    fbody = block_after(body, r"fn try_from\(value:\s*Format\)\s*->\s*Result<Self,\s*Self::Error>\s*\{", what)
    arms, pre, post = match_arms(fbody, "value", what)
    if norm(pre) or norm(post):
        raise Fail(what + ": code around the match")
    T.format_to_fourcc, seen = [], set()
    for n_, (alts, guard, expr) in enumerate(arms):
        if guard:
            raise Fail(what + ": guard")
        if expr == "Err(())":
            val = None
        else:
            mm = re.fullmatch(r"Ok\((.*)\)", expr)
            if not mm:
                raise Fail(f"{what}: unrecognised arm value {expr!r}")
            val = fourcc_of(mm.group(1), what)
        if alts == ["_"]:
            if val is not None or n_ != len(arms) - 1:
                raise Fail(what + ": the wildcard arm is not a final error arm")
            continue
        for a in alts:
            f = fmt_of(a, what)
            if f in seen:
                continue
            seen.add(f)
            if val is not None:
                T.format_to_fourcc.append((f, val))
    if arms[-1][0] != ["_"] and seen != fset:
        raise Fail(what + f": formats without an arm: {sorted(fset - seen)}")
    # `TryFrom<Format> for MaskPixelFormat` / `Dx9PixelFormat` are code over these tables (modelled in HeaderTables.lean)
    return T


# ----------------------------------------------------------------------------------------------------------------
# rendering

def lean_px(v):
    if v is None:
        return "none"
    return "some (." + v[0] + " " + " ".join(str(x) for x in v[1:]) + ")"


def render(T):
    L = []
    A = L.append
    A("/-")
    A("GENERATED by tools/extract_tables.py from the library source on every check run — do not edit.")
    A("Literal format / header tables of /repo/src (header.rs, pixel.rs, detect.rs, format.rs). HeaderTables.lean,")
    A("FormatTables.lean and Header.lean define their tables from these rows, so the table-consistency theorems of")
    A("C09 / C18 / C19 are re-checked against what the code says now. The correspondence run still compares every")
    A("row with the implementation (that validates this translator).")
    A("-/")
    A("import DdsModel.Layout")
    A("import DdsModel.FormatEnum")
    A("namespace Dds.SrcTables")
    A("open Dds")
    A("")
    A("/-- `FourCC::NAME` constants (src/header.rs `impl FourCC`) -/")
    A("def fourCCConsts : List (String × Nat) := [")
    A(",\n".join(f'  ("{k}", {v})' for k, v in T.fourcc.items()) + "]")
    A("")
    A("/-- `PixelFormatFlags` constants (src/header.rs) -/")
    A("def pixelFormatFlags : List (String × Nat) := [")
    A(",\n".join(f'  ("{k}", {v})' for k, v in T.pf_flags.items()) + "]")
    A("")
    A("/-- `detect::four_cc_to_dxgi`: (four CC, DXGI code) in source order -/")
    A("def fourCCToDxgi : List (Nat × Nat) := [")
    rows = [(f"({k[0]}, {T.dxgi_code[d]})", f"{k[1]} => {d}") for k, d in T.fourcc_to_dxgi]
    A(commented(rows))
    A("")
    A("/-- `detect::dxgi_to_four_cc`: (DXGI code, four CC) in source order -/")
    A("def dxgiToFourCC : List (Nat × Nat) := [")
    rows = [(f"({T.dxgi_code[d]}, {k[0]})", f"{d} => {k[1]}") for d, k in T.dxgi_to_fourcc]
    A(commented(rows))
    A("")
    A("/-- second stage of `detect::four_cc_to_supported` (four CCs without a DXGI code; the first stage is")
    A("`four_cc_to_dxgi` then `dxgi_format_to_supported`, checked by the translator) -/")
    A("def fourCCDirect : List (Nat × Format) := [")
    rows = [(f"({k[0]}, .{f})", k[1]) for k, f in T.fourcc_direct]
    A(commented(rows))
    A("")
    A("/-- `detect::special_cases`: (alpha mode, DXGI code, format) -/")
    A("def specialCases : List (Nat × Nat × Format) := [")
    rows = [(f"({a}, {T.dxgi_code[d]}, .{f})", d) for a, d, f in T.special]
    A(commented(rows))
    A("")
    A("/-- one row of `detect::KNOWN_PIXEL_FORMATS` (helper functions and `with_flags` already applied) -/")
    A("structure MaskRow where")
    A("  flags : Nat\n  bitCount : Nat\n  r : Nat\n  g : Nat\n  b : Nat\n  a : Nat\n  dxgi : Option Nat\n  fmt : Format\nderiving Repr, Inhabited")
    A("")
    A("/-- `detect::KNOWN_PIXEL_FORMATS` in table order -/")
    A("def knownPixelFormats : List MaskRow := [")
    rows = []
    for vals, d, f in T.known:
        dx = "none" if d is None else f"some {T.dxgi_code[d]}"
        rows.append((f"⟨0x{vals[0]:X}, {vals[1]}, 0x{vals[2]:X}, 0x{vals[3]:X}, 0x{vals[4]:X}, 0x{vals[5]:X}, {dx}, .{f}⟩",
                     d or "-"))
    A(commented(rows))
    A("")
    A("/-- one row per NAMED `DxgiFormat` constant (`define_dxgi_formats!`): `PixelInfo::try_from`, `to_linear`,")
    A("`has_alpha`, `detect::dxgi_format_to_supported` -/")
    A("structure DxgiRow where")
    A("  code : Nat\n  name : String\n  px : Option PixelInfo\n  linear : Nat\n  hasAlpha : Bool\n  supported : Option Format\nderiving Repr, Inhabited")
    A("")
    A("def dxgiNamed : List DxgiRow := [")
    rows = []
    for n in T.dxgi_names:
        sup = T.supported.get(n)
        rows.append(f'  ⟨{T.dxgi_code[n]}, "{n}", {lean_px(T.dxgi_px.get(n))}, {T.dxgi_code[T.linear.get(n, n)]}, '
                    f'{"true" if n in T.has_alpha else "false"}, {"none" if sup is None else "some ." + sup}⟩')
    A(",\n".join(rows) + "]")
    A("")
    A("/-- `TryFrom<u32> for DxgiFormat`: maximal runs `(lo, hi)` of accepted codes -/")
    A("def dxgiValidRanges : List (Nat × Nat) := [" + ", ".join(f"({a}, {b})" for a, b in T.valid_ranges) + "]")
    A("")
    A("/-- `TryFrom<Format> for DxgiFormat` (the formats with an `Ok` arm) -/")
    A("def formatToDxgi : List (Format × Nat) := [")
    A(commented([(f"(.{f}, {T.dxgi_code[d]})", d) for f, d in T.format_to_dxgi]))
    A("")
    A("/-- `TryFrom<Format> for FourCC` (the formats with an `Ok` arm) -/")
    A("def formatToFourCC : List (Format × Nat) := [")
    A(commented([(f"(.{f}, {k[0]})", k[1]) for f, k in T.format_to_fourcc]))
    A("")
    A("/-- the explicit arms of `From<Format> for PixelInfo`; every other format goes through its DXGI code -/")
    A("def formatPixelInfoDirect : List (Format × PixelInfo) := [")
    A(",\n".join(f"  (.{f}, {lean_px(v)[5:]})" for f, v in T.format_px) + "]")
    A("")
    A("end Dds.SrcTables")
    A("")
    return "\n".join(L)


def commented(rows):
    out = []
    for n, (txt, c) in enumerate(rows):
        out.append(f"  {txt}{',' if n + 1 < len(rows) else ']'}  -- {c}")
    if not rows:
        return "  ]"
    return "\n".join(out)


if __name__ == "__main__":
    repo = sys.argv[1] if len(sys.argv) > 1 else "/repo"
    try:
        sys.stdout.write(render(extract(repo)))
    except Fail as e:
        sys.stderr.write(f"extraction failed: {e}\n")
        sys.exit(3)
