#!/usr/bin/env python3
"""Apply a patch to /repo, run the given checks (default: all claimed), undo the patch.

  tools/try_patch.py PATCH [Cxx ...]      prints one line per check and a JSON summary on the last line
"""
import json, os, subprocess, sys
ROOT = os.path.dirname(os.path.dirname(os.path.abspath(__file__)))
sys.path.insert(0, os.path.join(ROOT, "tools"))
import props

patch = os.path.abspath(sys.argv[1])
pids = sys.argv[2:] or sorted(p for p in props.PROPS if len(p) == 3)
st = subprocess.run(["git", "-C", "/repo", "status", "--porcelain", "--untracked-files=no"], capture_output=True, text=True).stdout
if st.strip():
    print("refusing: /repo has local modifications:\n" + st)
    sys.exit(2)
r = subprocess.run(["git", "-C", "/repo", "apply", patch], capture_output=True, text=True)
if r.returncode != 0:
    print("patch does not apply:", r.stderr)
    sys.exit(2)
summary = {}
try:
    for pid in pids:
        p = subprocess.run([os.path.join(ROOT, "check.py"), pid], cwd=ROOT, capture_output=True, text=True)
        lines = [l for l in p.stdout.splitlines() if l.startswith("VIOLATION") or l.startswith("BUILD-FAILURE") or " -> " in l]
        verdict = "caught-oracle" if any(l.startswith("VIOLATION") and "no-failing-input-found" not in l for l in lines) else \
                  "caught-tie" if any(l.startswith("VIOLATION") for l in lines) else \
                  "build-failure" if p.returncode == 2 else ("silent" if p.returncode == 0 else f"rc{p.returncode}")
        summary[pid] = verdict
        print(pid, verdict, "|", " ; ".join(l[:160] for l in lines[-3:]), flush=True)
finally:
    subprocess.run(["git", "-C", "/repo", "checkout", "--", "."])
    subprocess.run(["git", "-C", "/repo", "clean", "-fdq", "src", "tests"])
    # replay files of these runs are kept under replays/ for inspection
print(json.dumps(summary))
