#!/usr/bin/env python3
"""Run checks against a patched copy of the library.

  tools/try_patch.py PATCH [Cxx ...]      prints one line per check and a JSON summary on the last line

Default: the patch is applied to a scratch git worktree of /repo (/tmp/mw/alt, created on demand, at /repo's HEAD)
and ./check.py is run with DDSV_ALT_REPO pointing at it, so /repo itself and /verif/evidence are left alone and
other check runs are not disturbed. With --in-repo the patch is applied to /repo itself
(git -C /repo apply; ./check.py <id>; git -C /repo checkout -- .) — the procedure an outside reviewer would use;
both give the same verdicts (the harness sources and the registered commands are the same).
Replay files of these runs are kept (ALT mode: /tmp/mw/alt_out/replays, --in-repo: /verif/replays)."""
import json, os, subprocess, sys
ROOT = os.path.dirname(os.path.dirname(os.path.abspath(__file__)))
sys.path.insert(0, os.path.join(ROOT, "tools"))
import props

args = [a for a in sys.argv[1:] if a != "--in-repo"]
in_repo = "--in-repo" in sys.argv[1:]
patch = os.path.abspath(args[0])
pids = args[1:] or sorted(p for p in props.PROPS if len(p) == 3)
_slot = os.environ.get("DDSV_ALT_SLOT", "")   # a second slot allows two patch runs at the same time
ALT, ALT_OUT = "/tmp/mw/alt" + _slot, "/tmp/mw/alt" + _slot + "_out"
env = dict(os.environ)
if in_repo:
    tree = "/repo"
else:
    tree = ALT
    head = subprocess.run(["git", "-C", "/repo", "rev-parse", "HEAD"], capture_output=True, text=True).stdout.strip()
    if not os.path.isdir(ALT):
        os.makedirs(os.path.dirname(ALT), exist_ok=True)
        subprocess.run(["git", "-C", "/repo", "worktree", "add", "--detach", ALT, head], check=True, capture_output=True)
    else:
        subprocess.run(["git", "-C", ALT, "checkout", "-q", "--detach", head], check=True)
    env["DDSV_ALT_REPO"] = ALT
    env["DDSV_OUT"] = ALT_OUT
st = subprocess.run(["git", "-C", tree, "status", "--porcelain", "--untracked-files=no"], capture_output=True, text=True).stdout
if st.strip():
    print(f"refusing: {tree} has local modifications:\n" + st)
    sys.exit(2)
r = subprocess.run(["git", "-C", tree, "apply", patch], capture_output=True, text=True)
if r.returncode != 0:
    print("patch does not apply:", r.stderr)
    sys.exit(2)
summary = {}
try:
    for pid in pids:
        p = subprocess.run([os.path.join(ROOT, "check.py"), pid], cwd=ROOT, capture_output=True, text=True, env=env)
        lines = [l for l in p.stdout.splitlines() if l.startswith("VIOLATION") or l.startswith("BUILD-FAILURE") or " -> " in l]
        verdict = "caught-oracle" if any(l.startswith("VIOLATION") and "no-failing-input-found" not in l for l in lines) else \
                  "caught-tie" if any(l.startswith("VIOLATION") for l in lines) else \
                  "build-failure" if p.returncode == 2 else ("silent" if p.returncode == 0 else f"rc{p.returncode}")
        summary[pid] = verdict
        print(pid, verdict, "|", " ; ".join(l[:160] for l in lines[-3:]), flush=True)
finally:
    subprocess.run(["git", "-C", tree, "checkout", "--", "."])
    subprocess.run(["git", "-C", tree, "clean", "-fdq", "src", "tests"])
print(json.dumps(summary))
