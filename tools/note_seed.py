#!/usr/bin/env python3
"""tools/note_seed.py NAME CHECK "verdict text"  — records a re-run verdict (with the history of what was changed) in seeded/NAME/meta.json"""
import json, os, sys
ROOT = os.path.dirname(os.path.dirname(os.path.abspath(__file__)))
name, chk, text = sys.argv[1:4]
p = os.path.join(ROOT, "seeded", name, "meta.json")
d = json.load(open(p)); d["checks"][chk] = text
json.dump(d, open(p, "w"), indent=1)
