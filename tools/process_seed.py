#!/usr/bin/env python3
"""tools/process_seed.py OUTDIR NAME PROPERTY "site" "needs" [checks...]
confirms the seeded change (tools/confirm_seed.py), runs the checks against it (tools/try_patch.py) and, when it
is confirmed, stores it as seeded/NAME/ (patch.diff, demo.rs, README.md, meta.json)."""
import json, os, shutil, subprocess, sys
ROOT = os.path.dirname(os.path.dirname(os.path.abspath(__file__)))
out, name, prop, site, needs = sys.argv[1:6]
checks = sys.argv[6:] or [prop]
c = subprocess.run([os.path.join(ROOT, "tools", "confirm_seed.py"), out], capture_output=True, text=True)
conf = json.loads(c.stdout.strip().splitlines()[-1])
print("confirm:", json.dumps({k: v for k, v in conf.items() if k not in ("demo_with_patch_tail",)}))
if not conf["confirmed"]:
    print("NOT CONFIRMED"); sys.exit(1)
t = subprocess.run([os.path.join(ROOT, "tools", "try_patch.py"), os.path.join(out, "patch.diff")] + checks, capture_output=True, text=True)
print(t.stdout[-1500:])
summ = json.loads(t.stdout.strip().splitlines()[-1])
dst = os.path.join(ROOT, "seeded", name)
os.makedirs(dst, exist_ok=True)
for f in ("patch.diff", "demo.rs", "README.md"):
    shutil.copy(os.path.join(out, f), os.path.join(dst, f))
meta = {"property": prop, "site": site, "needs": needs, "checks": summ,
        "confirmed": {"demo_passes_unchanged": conf["demo_unchanged_passes"], "demo_fails_with_patch": conf["demo_with_patch_fails"],
                      "existing_suite_passes_with_patch": conf["suite_ok"]},
        "ran": ["tools/confirm_seed.py (scratch worktree /tmp/mw/verify: cargo test --workspace --no-fail-fast --offline; demo as tests/demo_x.rs or examples/demo_x.rs)",
                "tools/try_patch.py patch.diff " + " ".join(checks) + " (git -C /repo apply; ./check.py <id>; git -C /repo checkout -- .)"]}
json.dump(meta, open(os.path.join(dst, "meta.json"), "w"), indent=1)
print("stored", dst, summ)
