#!/usr/bin/env python3
"""tools/recheck_all.py [seeded|harmless] [NAME ...]
Re-runs every stored change (seeded/*: must be caught; harmless/*: should stay silent) against the checks recorded in
its meta.json and prints where the verdict class differs from the recorded one. Applies patches to /repo one at a
time (tools/try_patch.py) — do not run other checks concurrently."""
import json, os, subprocess, sys
ROOT = os.path.dirname(os.path.dirname(os.path.abspath(__file__)))
kinds = [a for a in sys.argv[1:] if a in ("seeded", "harmless")] or ["seeded", "harmless"]
names = [a for a in sys.argv[1:] if a not in ("seeded", "harmless")]
bad = 0
for kind in kinds:
    d = os.path.join(ROOT, kind)
    for name in sorted(os.listdir(d)):
        if names and name not in names:
            continue
        mp = os.path.join(d, name, "meta.json")
        if not os.path.exists(mp):
            continue
        meta = json.load(open(mp))
        checks = list(meta["checks"].keys())
        t = subprocess.run([os.path.join(ROOT, "tools", "try_patch.py"), os.path.join(d, name, "patch.diff")] + checks,
                           capture_output=True, text=True)
        try:
            summ = json.loads(t.stdout.strip().splitlines()[-1])
        except Exception:
            print(name, "ERROR", t.stdout[-300:], t.stderr[-300:]); bad += 1; continue
        for c in checks:
            old = meta["checks"][c].split(" ")[0]
            new = summ.get(c, "?")
            flag = "" if old == new else "   <-- CHANGED"
            if flag:
                bad += 1
            print(f"{kind}/{name} {c}: recorded {old}, now {new}{flag}", flush=True)
print("differences:", bad)
