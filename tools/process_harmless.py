#!/usr/bin/env python3
"""tools/process_harmless.py OUTDIR NAME PROPERTY "what changes" [checks...]
A property-preserving change (refactor, tuning, behaviour change outside the property's promise) delivered by an
independent engineer: compile it, run the named checks against it (tools/try_patch.py) and store it as
harmless/NAME/ (patch.diff, README.md, meta.json). Expected verdict for every check: silent."""
import json, os, shutil, subprocess, sys
ROOT = os.path.dirname(os.path.dirname(os.path.abspath(__file__)))
out, name, prop, what = sys.argv[1:5]
checks = sys.argv[5:] or [prop]
t = subprocess.run([os.path.join(ROOT, "tools", "try_patch.py"), os.path.join(out, "patch.diff")] + checks, capture_output=True, text=True)
print(t.stdout[-1500:])
summ = json.loads(t.stdout.strip().splitlines()[-1])
dst = os.path.join(ROOT, "harmless", name)
os.makedirs(dst, exist_ok=True)
for f in ("patch.diff", "README.md"):
    shutil.copy(os.path.join(out, f), os.path.join(dst, f))
meta = {"property": prop, "what": what, "checks": summ,
        "ran": ["tools/try_patch.py patch.diff " + " ".join(checks) + " (git -C /repo apply; ./check.py <id>; git -C /repo checkout -- .)"]}
json.dump(meta, open(os.path.join(dst, "meta.json"), "w"), indent=1)
print("stored", dst, summ)
