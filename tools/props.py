"""Per-property configuration of check.py: one module per property in tools/propcfg/Cxx.py.

A module defines CFG (dict: claim, note, profiles, level, rule, assumptions, trusted_base, technique,
explanation, env) and optionally
  equal(a, b)        canonical comparison of an implementation result line and a model result line
  nontrivial(c, r)   whether case c with implementation result r counts as non-trivial
  classify(c, r)     histogram class of a case
"""
import glob
import importlib.util
import os

HOOK_COMMITS = ["8f697da", "2a63934"]

# reason shown in MANIFEST.not_applicable for properties whose check is not claimed (yet)
NOT_YET = {}

PROPS = {}
_here = os.path.dirname(os.path.abspath(__file__))
for _f in sorted(glob.glob(os.path.join(_here, "propcfg", "C*.py"))):
    _pid = os.path.basename(_f)[:-3]
    _spec = importlib.util.spec_from_file_location(f"propcfg_{_pid}", _f)
    _m = importlib.util.module_from_spec(_spec)
    _spec.loader.exec_module(_m)
    PROPS[_pid] = _m.CFG
    for _fn in ("equal", "nontrivial", "classify"):
        if hasattr(_m, _fn):
            globals()[f"{_fn}_{_pid}"] = getattr(_m, _fn)
