#!/usr/bin/env python3
"""tools/coverage.py [Cxx ...] [--tier quick|thorough] [--show FILE]

Measures which regions of /repo/src the correspondence cases of the given checks (default: all) execute.
NOT part of any registered command and not a proof: it is the measurement the generators are tuned with
("generator quality bounds what the tie sees"). An instrumented copy of the harness is built with the nightly
toolchain (-C instrument-coverage) into .scratch/cov/target, `ddsv impl Cxx` is run over `ddsv gen Cxx 1 <tier>`,
profiles are merged with llvm-profdata and reported with llvm-cov; the JSON summary goes to
.scratch/cov/summary.json and the per-line report of each file to .scratch/cov/show/<file>.txt.
"""
import concurrent.futures as cf
import glob
import json
import os
import shutil
import subprocess
import sys

ROOT = os.path.dirname(os.path.dirname(os.path.abspath(__file__)))
sys.path.insert(0, os.path.join(ROOT, "tools"))
import props  # noqa: E402

COV = os.path.join(ROOT, ".scratch", "cov")
BIN = "/root/.rustup/toolchains/nightly-x86_64-unknown-linux-gnu/lib/rustlib/x86_64-unknown-linux-gnu/bin"
args = sys.argv[1:]
tier = "quick"
if "--tier" in args:
    i = args.index("--tier"); tier = args[i + 1]; del args[i:i + 2]
pids = [a for a in args if not a.startswith("-")] or sorted(props.PROPS)
os.makedirs(COV, exist_ok=True)
env = dict(os.environ, CARGO_NET_OFFLINE="true", RUSTFLAGS="--cfg dds_verif -C instrument-coverage",
           CARGO_TARGET_DIR=os.path.join(COV, "target"))
subprocess.run(["cargo", "+nightly", "build", "--offline", "--release", "--quiet"], cwd=os.path.join(ROOT, "harness"),
               env=env, check=True)
exe = os.path.join(COV, "target", "release", "ddsv")
plain = os.path.join(ROOT, "harness", "target", "release", "ddsv")
for pid in pids:
    pdir = os.path.join(COV, "prof", pid)
    shutil.rmtree(pdir, ignore_errors=True)
    os.makedirs(pdir)
    cases = []
    cdir = os.path.join(ROOT, "corpus", pid)
    if os.path.isdir(cdir):
        for f in sorted(os.listdir(cdir)):
            cases += [l.strip() for l in open(os.path.join(cdir, f)) if l.strip() and not l.startswith("#")]
    out = subprocess.run([plain, "gen", pid, "1", tier], capture_output=True, text=True, check=True).stdout
    cases += [l for l in out.splitlines() if l.strip()]
    k = 16
    size = (len(cases) + k - 1) // k or 1
    chunks = [cases[i:i + size] for i in range(0, len(cases), size)]
    for k_, v_ in props.PROPS[pid].get("env", {}).items():
        os.environ[k_] = v_

    def work(ix):
        e = dict(os.environ, LLVM_PROFILE_FILE=os.path.join(pdir, f"c{ix}-%p.profraw"))
        subprocess.run([exe, "impl", pid], input="\n".join(chunks[ix]) + "\n", capture_output=True, text=True, env=e)

    with cf.ThreadPoolExecutor(max_workers=16) as ex:
        list(ex.map(work, range(len(chunks))))
    subprocess.run([f"{BIN}/llvm-profdata", "merge", "-sparse", "-o", os.path.join(COV, f"{pid}.profdata")] +
                   glob.glob(os.path.join(pdir, "*.profraw")), check=True)
    shutil.rmtree(pdir, ignore_errors=True)
    print(pid, len(cases), "cases", flush=True)

allp = sorted(glob.glob(os.path.join(COV, "C*.profdata")))
subprocess.run([f"{BIN}/llvm-profdata", "merge", "-sparse", "-o", os.path.join(COV, "all.profdata")] + allp, check=True)
rep = subprocess.run([f"{BIN}/llvm-cov", "export", "-summary-only", "-instr-profile", os.path.join(COV, "all.profdata"), exe],
                     capture_output=True, text=True, check=True).stdout
d = json.loads(rep)
rows = []
for f in d["data"][0]["files"]:
    fn = f["filename"]
    if not fn.startswith("/repo/src/"):
        continue
    s = f["summary"]
    rows.append((fn[len("/repo/src/"):], s["regions"]["covered"], s["regions"]["count"], s["lines"]["covered"], s["lines"]["count"],
                 s["functions"]["covered"], s["functions"]["count"]))
rows.sort()
json.dump([dict(zip(("file", "regions_cov", "regions", "lines_cov", "lines", "fn_cov", "fns"), r)) for r in rows],
          open(os.path.join(COV, "summary.json"), "w"), indent=1)
print(f"{'file':34} regions          lines            functions")
for r in rows:
    print(f"{r[0]:34} {r[1]:5}/{r[2]:5} {100*r[1]/max(1,r[2]):5.1f}%  {r[3]:5}/{r[4]:5} {100*r[3]/max(1,r[4]):5.1f}%  {r[5]:4}/{r[6]:4}")
os.makedirs(os.path.join(COV, "show"), exist_ok=True)
for r in rows:
    src = "/repo/src/" + r[0]
    txt = subprocess.run([f"{BIN}/llvm-cov", "show", "-instr-profile", os.path.join(COV, "all.profdata"), exe, src,
                          "-show-line-counts-or-regions", "-show-instantiations=false"], capture_output=True, text=True).stdout
    open(os.path.join(COV, "show", r[0].replace("/", "__") + ".txt"), "w").write(txt)
