#!/usr/bin/env python3
"""tools/test_extract_tables.py [REPO]  — unit test of the table translator (tools/extract_tables.py).

Copies the four translated source files of REPO (default /repo; never written to) into a temporary directory, applies
one small edit at a time and checks that the translator (a) FAILS with a message for every syntax form / name it
cannot recognise — it must never keep an old row silently —, (b) gives a DIFFERENT table for a real table change, and
(c) gives the SAME output for reformatting, comments and literal spellings. That the output for the unchanged tree is
the table the model had pinned before was checked once in Lean (notes/C09.md, "Translator"). Exit 0 iff all pass."""
import os, shutil, subprocess, sys, tempfile
repo = sys.argv[1] if len(sys.argv) > 1 else "/repo"
tool = os.path.join(os.path.dirname(os.path.abspath(__file__)), "extract_tables.py")
base = tempfile.mkdtemp(prefix="extract_tables_test_")
os.makedirs(base + "/src")
for f in ['header.rs','pixel.rs','detect.rs','format.rs']:
    shutil.copy(f"{repo}/src/{f}", f"{base}/src/{f}")
bad = 0
orig={f:open(f'{base}/src/{f}').read() for f in ['header.rs','pixel.rs','detect.rs','format.rs']}
ref=subprocess.run([tool,base],capture_output=True,text=True)
assert ref.returncode==0, ref.stderr
def run(name, f, old, new, expect):
    global bad
    assert old in orig[f], name
    open(f'{base}/src/{f}','w').write(orig[f].replace(old,new,1))
    r=subprocess.run([tool,base],capture_output=True,text=True)
    open(f'{base}/src/{f}','w').write(orig[f])
    got = 'fail' if r.returncode else ('same' if r.stdout==ref.stdout else 'diff')
    bad += got != expect
    print(('OK  ' if got==expect else 'BAD ')+f'{name}: {got}' + (f' :: {r.stderr.strip()[:150]}' if r.returncode else ''))
# must fail loudly
run('new Format variant','format.rs','    BC3_UNORM_NORMAL,\n}','    BC3_UNORM_NORMAL,\n    ETC2_UNORM,\n}','fail')
run('unknown Format in table','detect.rs','Some(Format::A8_UNORM)','Some(Format::A8_UNORMX)','fail')
run('unknown DXGI name','detect.rs','FourCC::DXT1 => Some(DxgiFormat::BC1_UNORM)','FourCC::DXT1 => Some(DxgiFormat::BC1_UNORMX)','fail')
run('function renamed','detect.rs','const fn four_cc_to_dxgi(four_cc: FourCC)','const fn fourcc_to_dxgi(four_cc: FourCC)','fail')
run('guard in four_cc_to_dxgi','detect.rs','FourCC::ATI1 => Some(DxgiFormat::BC4_UNORM)','FourCC::ATI1 if true => Some(DxgiFormat::BC4_UNORM)','fail')
run('if-let arm value','detect.rs','FourCC(36) => Some(DxgiFormat::R16G16B16A16_UNORM)','FourCC(36) => if cfg!(x) { None } else { Some(DxgiFormat::R16G16B16A16_UNORM) }','fail')
run('four_cc_to_supported first stage removed','detect.rs','return dxgi_format_to_supported(dxgi_format);','return None;','fail')
run('computed FourCC','detect.rs','FourCC(36) =>','FourCC(30 + 6) =>','fail')
run('KPF helper with extra logic','detect.rs','r_bit_mask: r_mask,\n            g_bit_mask: 0,\n            b_bit_mask: 0,\n            a_bit_mask: 0,\n        }\n    }\n    const fn rgb(','r_bit_mask: r_mask << 1,\n            g_bit_mask: 0,\n            b_bit_mask: 0,\n            a_bit_mask: 0,\n        }\n    }\n    const fn rgb(','fail')
run('KPF invalid bit count','detect.rs','rgb(16, 0xFF, 0xFF00, 0)','rgb(12, 0xFF, 0xFF00, 0)','fail')
run('KPF 4-column row','detect.rs','(rgb(24, 0xFF0000, 0xFF00, 0xFF), None, B8G8R8_UNORM)','(rgb(24, 0xFF0000, 0xFF00, 0xFF), None, B8G8R8_UNORM, 1)','fail')
run('try_from open range','header.rs','| 191 => Ok(DxgiFormat(value as u8))','| 191.. => Ok(DxgiFormat(value as u8))','fail')
run('try_from code above u8','header.rs','| 191 => Ok(DxgiFormat(value as u8))','| 191 | 300 => Ok(DxgiFormat(value as u8))','fail')
run('try_from other guard','header.rs','0..=115\n','0..=115 if value.count_ones() < 9\n','fail')
run('dxgi const outside macro','header.rs','impl DxgiFormat {\n    pub const fn is_srgb','impl DxgiFormat {\n    pub const FOO: DxgiFormat = DxgiFormat(200);\n    pub const fn is_srgb','fail')
run('has_alpha not matches!','header.rs','pub const fn has_alpha(self) -> bool {\n        matches!(','pub const fn has_alpha(self) -> bool {\n        self.0 == 3 || matches!(','fail')
run('pixel info via helper','pixel.rs','F::YUY2 => Ok(Self::block(4, (2, 1)))','F::YUY2 => Ok(yuy2_info())','fail')
run('From<Format> fallthrough changed','pixel.rs','PixelInfo::try_from(dxgi).unwrap()','PixelInfo::try_from(dxgi).unwrap_or(Self::fixed(4))','fail')
run('special_cases new shape','detect.rs','if matches!(dx10.alpha_mode, AlphaMode::Premultiplied) {','if dx10.array_size == 1 && matches!(dx10.alpha_mode, AlphaMode::Premultiplied) {','fail')
run('with_flags changed','detect.rs','self.flags = flags;\n        self','self.flags = self.flags.union(flags);\n        self','fail')
# must be translated (different output)
run('more FourCC (C09hd-like)','detect.rs','        FourCC(36) => Some(DxgiFormat::R16G16B16A16_UNORM),','        FourCC(21) => Some(DxgiFormat::B8G8R8A8_UNORM), // x\n        FourCC(36) => Some(DxgiFormat::R16G16B16A16_UNORM),','diff')
run('guarded range (seeded C09g)','header.rs','            | 191 => Ok(DxgiFormat(value as u8)),','            | 191 => Ok(DxgiFormat(value as u8)),\n            200..=210 if value % 4 != 0 => Ok(DxgiFormat(value as u8)),','diff')
run('hex + suffix literals','detect.rs','FourCC(110) =>','FourCC(0x6E_u32) =>','same')
run('comment + reformat','detect.rs','FourCC::DXT3 => Some(DxgiFormat::BC2_UNORM),','FourCC::DXT3 /* legacy */ =>\n            Some( DxgiFormat::BC2_UNORM ), // note','same')
run('block-bodied arm','detect.rs','FourCC::DXT5 => Some(DxgiFormat::BC3_UNORM),','FourCC::DXT5 => {\n            Some(DxgiFormat::BC3_UNORM)\n        }','same')
run('struct-literal KPF row (C09h)','detect.rs','            R8G8_UNORM,\n        ),\n    ]','            R8G8_UNORM,\n        ),\n        (PFPattern { flags: PixelFormatFlags::LUMINANCE_ALPHA, rgb_bit_count: RgbBitCount::Count8, r_bit_mask: 0xFF, g_bit_mask: 0, b_bit_mask: 0, a_bit_mask: 0xFF00 }, Some(DxgiFormat::R8G8_UNORM), R8G8_UNORM),\n    ]','diff')
run('Format->DXGI unwrapped style','format.rs','            Format::BC3_UNORM_NORMAL => DxgiFormat::BC3_UNORM,','            Format::BC3_UNORM_NORMAL => DxgiFormat::BC3_UNORM_SRGB,','diff')
run('to_linear row removed','header.rs','            DxgiFormat::BC7_UNORM_SRGB => DxgiFormat::BC7_UNORM,\n\n            DxgiFormat::R8G8B8A8_UNORM_SRGB =>','\n            DxgiFormat::R8G8B8A8_UNORM_SRGB =>','diff')
shutil.rmtree(base)
print("all passed" if not bad else f"{bad} FAILED")
sys.exit(1 if bad else 0)
