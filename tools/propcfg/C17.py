"""check.py configuration of C17."""
import struct

CFG = {
    "claim": "Proof: over exact rationals, for every encoder family with any geometry (chunks/blocks/line groups, report "
             "frequency), any number of generated mip levels and, for parallel levels, ANY list of submitted heights "
             "(= any interleaving of the fragment jobs, total = height+1): ProgressRange.project is monotone and maps "
             "[0,1] into the range, sub_range composes and nests, level ranges abut inside [0,1]; the reports of one "
             "write_surface_with_progress call never decrease, lie in [0,1] and end with 1 and the call returns Ok; "
             "parallel reports are strictly increasing and < 1 until the final 1 after the write-out; every report < 1 "
             "is followed by a check, so cancelling there returns Cancelled; a pre-cancelled call reports and writes "
             "nothing; after reset the same call runs to completion (7 theorems). Tie: recorded report sequences "
             "(1e-6 slack for f32) and outcomes of Encoder::write_surface_with_progress and dds::encode over every "
             "encoder function x sizes x +-generated mipmaps x parallel on/off x pools 1..16 x completion orders x "
             "mt/st reporter x cancellation before the call (retry after reset with a fresh and with the same Progress "
             "value) / at report k / at every k, and x a writer that returns an I/O error at byte k of the output "
             "(first byte .. last byte), release and checked builds.",
    "note": "Trusted: Lean kernel + propext/Classical.choice/Quot.sound; the hand-written model Progress.lean (+Split.lean); "
            "the correspondence check and its generators. f32 rounding of the real computation is outside the model "
            "(tie slack 1e-6). Real thread interleavings finer than the submission order are outside the model; "
            "covered by the pool-size x completion-order sweep only. Known finding F8: the free function dds::encode "
            "never reports 1.0 on its sequential / single-fragment path (the model predicts exactly that).",
    "profiles": ["release", "checked"],
    "level": "proof",
    "rule": "cases = 33 (format,color,dithering,quality) shapes, one per encoder function and pick_encoder branch "
            "(copy, untyped, universal, dither, sub-sampled, bi-planar, BC) x sizes (empty, 1x1 .. several chunks; BC: at "
            "the split threshold, 2 fragments, uneven last fragment, ~20 fragments, wider than a fragment) x API "
            "(Encoder / free encode) x +-generated mip chain x parallel on/off x reporter mt/st x cancellation "
            "{never, before call + reset + retry (pre: fresh Progress, pres: the same Progress value), at report k, sweep "
            "over every k} and x failing writer {ioA/B: byte (T-1)*A/B of the T output bytes, iosweep: A/8 for A=0..8}; "
            "threads 1..16 and orders "
            "nat/rev/rnd/free rotate; large surfaces so that every family reports more than once sequentially; PRNG "
            "parallel BC cases with random sizes/cancel points; non-trivial = the call was made (result is not "
            "bad-case/not-modelled/err); distinct = distinct case lines",
    "assumptions": [
        "the implementation equals the model off the generated cases",
        "f32 evaluation of project/powi/division differs from the rational value by less than 1e-6 (tie slack, as the "
        "property allows 'beyond float rounding')",
        "ParallelProgress::submit is atomic (Mutex); a parallel level is linearised in submission order",
        "oracle in harness/src/c17.rs: the property's clauses evaluated on the recorded f32 sequence and the result of "
        "the implementation alone",
    ],
    "trusted_base": ["model: lean/DdsModel/DdsModel/Progress.lean (src/progress.rs ProgressRange/checked_report*/"
                     "ParallelProgress; src/encoder.rs write_surface_impl incl. get_level_progress_range; "
                     "src/encode/mod.rs encode/encode_parallel; the checked_report_if loops of copy_directly, "
                     "uncompressed.rs, sub_sampled.rs, bi_planar.rs, bc.rs; EncoderSet::pick_encoder over the encoder "
                     "lists of 35 formats); not modelled: f32 rounding, the resize step of mipmap generation, rayon"],
    "explanation": "oracle failures counted in the evidence are all the known finding F8 (free encode returns Ok "
                   "without a final 1.0 report); any other oracle message is a VIOLATION",
}


def nontrivial(c, r):
    return not (r.startswith(("bad-", "not-modelled", "err", "panic")) or " err:" in r)


def classify(c, r):
    t = c.split(" ")
    if len(t) < 16:
        return "malformed"
    name = t[2]
    fam = ("bc" if name.startswith("BC") else "biplanar" if name in ("NV12", "P010", "P016") else
           "subsampled" if name in ("R1_UNORM", "YUY2", "UYVY", "Y210", "Y216", "R8G8_B8G8_UNORM", "G8R8_G8B8_UNORM")
           else "uncompressed")
    try:
        nf = int(t[15][3:])
    except ValueError:
        nf = -1
    path = "seq" if t[9] == "0" else ("par1" if nf <= 1 else "parN")
    th = int(t[10])
    ths = "1" if th == 1 else "2-4" if th <= 4 else "5-16"
    cancel = "k" if t[13].startswith("k") else "io" if t[13].startswith("io") and "/" in t[13] else t[13]
    return f"{t[1]} {fam} mips={t[8]} {path} thr={ths if path == 'parN' else '-'} {t[11] if path == 'parN' else '-'} {t[12]} cancel={cancel}"


SLACK = 1e-6


def _val(tok):
    """implementation: f32 bit pattern (8 hex digits); model: exact rational num/den"""
    if "/" in tok:
        a, b = tok.split("/")
        return int(a) / int(b)
    return struct.unpack(">f", bytes.fromhex(tok))[0]


def equal(a, b):
    """token-wise equality; progress values (seq= / dif= / last=) within 1e-6 (f32 rounding of the
    real computation is outside the model, as the property allows)"""
    ta, tb = a.split(" "), b.split(" ")
    if len(ta) != len(tb):
        return False
    for x, y in zip(ta, tb):
        kx, _, vx = x.partition("=")
        ky, _, vy = y.partition("=")
        if kx in ("seq", "dif", "last") and kx == ky:
            lx = [t for t in vx.split(",") if t]
            ly = [t for t in vy.split(",") if t]
            if len(lx) != len(ly):
                return False
            try:
                if any(abs(_val(p) - _val(q)) > SLACK for p, q in zip(lx, ly)):
                    return False
            except (ValueError, struct.error, ZeroDivisionError):
                return False
        elif x != y:
            return False
    return True
