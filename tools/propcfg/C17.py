"""check.py configuration of C17."""
import struct

CFG = {"claim": "", "profiles": ["release", "checked"], "level": "proof"}

SLACK = 1e-6


def _val(tok):
    """implementation: f32 bit pattern (8 hex digits); model: exact rational num/den"""
    if "/" in tok:
        a, b = tok.split("/")
        return int(a) / int(b)
    return struct.unpack(">f", bytes.fromhex(tok))[0]


def equal(a, b):
    """token-wise equality; progress values (seq= / dif= / last=) within 1e-6 (f32 rounding of the
    real computation is outside the model, as the property allows)"""
    ta, tb = a.split(" "), b.split(" ")
    if len(ta) != len(tb):
        return False
    for x, y in zip(ta, tb):
        kx, _, vx = x.partition("=")
        ky, _, vy = y.partition("=")
        if kx in ("seq", "dif", "last") and kx == ky:
            lx = [t for t in vx.split(",") if t]
            ly = [t for t in vy.split(",") if t]
            if len(lx) != len(ly):
                return False
            try:
                if any(abs(_val(p) - _val(q)) > SLACK for p, q in zip(lx, ly)):
                    return False
            except (ValueError, struct.error, ZeroDivisionError):
                return False
        elif x != y:
            return False
    return True
