"""check.py configuration of C01 (hostile files never crash the reader)."""

CFG = {
    "claim": "Proof over the composed model (Reader.lean = Header::read ; Format::from_header ; "
             "DataLayout::from_header_with ; SurfaceIterator::new ; Decoder calls over an arbitrary stream, chaining "
             "the models of C02/C05/C06/C08/C09/C18/C19): for EVERY word/byte string and every ParseOptions "
             "Decoder::new_with_options returns Ok or a library error, never the model's panic value, and every "
             "accepted file has a well-formed header, a defined data length < 2^64, a valid layout and a valid fresh "
             "iterator; for every accepted layout, every stream (any length, fault or early EOF anywhere, either "
             "seek behaviour) and every list of read / rect / skip-surface / skip-mipmaps / cube-map calls no call "
             "panics and the iterator invariant is kept (no size hypothesis; the two rewinding calls need "
             "data <= i64::MAX and are outside C01's list); decode / decode_rect never reach a panic operation for "
             "any family, colour, size, rect, limit, stream, and all their lengths are <= isize::MAX; output "
             "addresses lie inside the view (per-pixel, block and bi-planar families); a full decode whose "
             "surface contains the first unreadable offset, and any call with a hard reader error inside the "
             "surface, ends in an I/O error, never in Ok; the composed reader over a real stream refines C08's "
             "ideal cursor (reader_refines_cursor: for every call, every stream, limit and allocator, a result "
             "other than Io / MemoryLimitExceeded is the ideal decoder's result and reader position = base + "
             "ideal position again, Io only if the first undeliverable offset lies before the end of the bytes the "
             "call touches or a skip exceeds i64::MAX, MemoryLimitExceeded only if the limit is below the need, "
             "the allocator refused or the surface exceeds isize::MAX; no size hypothesis for the forward calls), "
             "and on a stream that delivers the data section with a sufficient limit every call list gives the "
             "ideal results and after every prefix the reader position is base + the offset of the next surface "
             "in C02's flattened list (reader_position_is_cursor_offset; data <= i64::MAX). The per-block / per-pixel "
             "codec BODIES are inside the proof too: trapping mirrors (Trap*.lean: every plain + - * on "
             "u8/u16/u32/i8/i16/i32, every shift amount, every run-time index, division, debug_assert!/assert!/"
             "unreachable! is a possible panic value) of the BC1-5 decoders (13 decoders x 3 precisions), of the whole "
             "BC7 and BC6H block decodes incl. BitStream / Indexes / header extraction / sign_extend asserts / "
             "palette indexing and the six half conversions with bc6h_uf16's asserts, of all 45 uncompressed / "
             "sub-sampled / bi-planar pixel bodies x 3 precisions (every formats.rs conversion incl. XR_BIAS i16, "
             "fp16/fp11/fp10/R9G9B9E5 exponent arithmetic and two_powi), of r1_bits, convert_channels and the "
             "process_pixels helpers return, for EVERY block / encoded value, Some of exactly what the wrapping models "
             "of C03/C03x/C04 compute: no panic site of a body is reachable and checked = release arithmetic "
             "(bc1to5_bodies_trapfree, bc7_body_trapfree, bc6_body_trapfree, uncompressed_bodies_trapfree, "
             "subsampled_biplanar_bodies_trapfree, channel_conversion_trapfree, pixel_loop_wrappers_trapfree). And so are the "
             "generic decode LOOPS of read_write.rs (TrapLoops*.lean): UntypedLineBuffer (new / next_line), "
             "ChannelConversionBuffer::{process_pixels, process_blocks, process_bi_planar}, for_each_pixel(_rect)_untyped, "
             "for_each_block(_rect)_untyped with general_process_blocks / process_4x4 (incl. handle_width_offset and the aligned "
             "fast path taken or not) / 2x1 / 8x1 helpers, for_each_bi_planar(_rect) with process_bi_planar_helper, "
             "read_exact_image / for_each_slice and ImageViewMut's get_row / get_row_range / rows_mut / is_contiguous: every "
             "a..b slice, plain usize / u32 / u8 arithmetic, division, step_by, expect / unwrap / (debug_)assert! and every "
             "index into a block's pixel array is a possible panic value of the mirror; for EVERY view ImageViewMut can hold "
             "(C20's invariant), every surface < 2^32 x 2^32 that passed check_likely_overflow, every rect inside it, every "
             "native / target colour pair and buffer alignment the mirror returns Some, its reader / allocator trace IS the "
             "trace of C06/C07's model and every write lies inside a row of the view (line_buffer_trapfree, "
             "pixel_loops_trapfree, block_loops_trapfree, biplanar_loops_trapfree, channel_conversion_buffer_trapfree, "
             "read_exact_image_trapfree, decode_loops_trapfree); the proof attempt found F17 (u32 overflow of chunk_start + "
             "preferred_chunk_size in process_blocks for widths within 3072 pixels of 2^32; repaired), recorded as "
             "f17_unrepaired_traps / f17_repaired_returns and tied by one giant decode case. Tied to the code on every run by a hostile-input "
             "differential run (structured and mutated headers, truncations at every offset, option matrix, fault "
             "injecting Read+Seek, all 73 formats x 12 colours) in release and overflow-checking builds under "
             "catch_unwind and a watchdog.",
    "note": "Trusted: Lean kernel + propext/Classical.choice/Quot.sound; the hand-written models (Header, HeaderTables, "
            "FormatTables, Layout, Iter, Stream, Addr, Decoder, Reader; for the codec bodies the value models Bc, Bc7, Bc6, "
            "Conv, Uncompressed and their trapping mirrors Trap, TrapBc, TrapBc7, TrapBc6, TrapUnc, whose fidelity to the "
            "Rust text is by inspection: notes/C01.md lists panic site file:line -> mirror -> theorem; the value models "
            "are tied to the code by the C03/C03x/C04 checks, which run the real decoders in the overflow-checking "
            "profile under catch_unwind); the correspondence check and its generators. PROVED panic-free for all inputs: "
            "parse, layout, iterator, stream, output addressing AND the per-block / per-pixel bodies of BC1-5, BC7, BC6H, "
            "the 45 uncompressed / sub-sampled / bi-planar formats, r1_bits, convert_channels, process_pixels_helper(_unroll) "
            "AND every slice / index / length computation of the generic loops of read_write.rs with the row access of "
            "ImageViewMut (mirrors TrapLoops, TrapLoopsBlock, TrapLoopsPlanar; site table in notes/C01.md section 7). "
            "STILL only exercised: the external astc-decode crate (ASTC block bodies), std I/O and allocation, termination "
            "of the real loops (watchdog; the model functions are all structurally recursive and the mirrors of the "
            "`while let` loops return within lines + 1 next_line calls). Assumed about Rust, not a theorem: f32 arithmetic "
            "and float -> integer casts never panic (IEEE, saturating casts).",
    "profiles": ["release", "checked"],
    "level": "proof",
    "rule": "cases = (a) every u32 word of 7 (thorough 20) template headers of every layout kind / pixel-info family "
            "at 0, 1, 2^k, 2^k-1, MAX; DXGI codes 0..255 + invalid x 5 shapes; known, D3DFMT 0..130 and random four "
            "CCs; the 19 mask rows + bit perturbations; caps2 cube/volume/face combinations, resource dimension x "
            "misc flags x array size x depth, mip count x flags x caps; DX10 extension missing / unannounced / "
            "mismatched; random multi-field headers (quick 12k, thorough 1.5M); (b) byte sets 00/FF/80/7F and bit "
            "flips of Header::write images (every offset for some files), (c) the file cut at every offset, "
            "extensions; (d) strict/permissive x file_len {None, right, +-1, +-4, 0, 127, 128, 148, MAX} x skip_magic x "
            "magic present/absent; (e) on every opened file DataLayout::from_header and operation lists: every "
            "surface into each of the 12 colours with memory limits {0, 700, default}, random read / rect (incl. out of "
            "bounds, empty) / skip / skip_mipmaps / read_cube_map / rewind lists over all 73 formats with exact, "
            "truncated, empty and oversized data; surfaces up to 2^64 bytes parsed, laid out and skipped only (image "
            "buffers capped at 16 MiB); (f) hard error / EOF / Interrupted at every byte of small files, chunked "
            "reads, clamping seek; (g) one giant full decode (R1_UNORM 4294966273 x 1 into Alpha U8 from an all-zero "
            "stream, memory_limit = usize::MAX, 4 GiB view: the regression case of F17; thorough: the neighbouring widths). "
            "Compared: header or error variant, reader position, format, layout summary, result "
            "kind and reader position after every call, final cursor. Non-trivial = the header parsed; distinct = "
            "distinct case lines.",
    "assumptions": [
        "the implementation equals the model off the generated cases",
        "astc-decode and std (I/O, allocation) are panic-free and the real loops terminate (exercised by the tie, not "
        "modelled); f32 arithmetic never panics; the trapping mirrors Trap*.lean / TrapLoops*.lean transcribe the panic "
        "sites of the codec bodies and of the generic loops faithfully (by inspection; tables in notes/C01.md)",
        "oracle in harness/src/c01.rs, independent of the model: no panic / hang (20 s watchdog) / abort in either "
        "profile; reader error or end of file during a call => Err(Io); Ok full decode => the stream held the whole "
        "surface; a single-surface call that used the reader fails only with Err(Io); padding between the rows of a "
        "view is not written; new_with_options agrees with Header::read + from_header",
        "the rewinding calls are only run on data sections <= i64::MAX bytes (documented expect beyond)",
    ],
    "trusted_base": ["models: Reader.lean (composition), Header.lean, HeaderTables.lean, FormatTables.lean, Layout.lean, "
                     "Iter.lean, Decoder.lean, Stream.lean, Addr.lean; codec bodies: Bc.lean, Bc7.lean, Bc6.lean, Conv.lean, "
                     "Uncompressed.lean with the trapping mirrors Trap.lean, TrapBc.lean, TrapBc7.lean, TrapBc6.lean, "
                     "TrapUnc.lean; generic loops: TrapLoops.lean, TrapLoopsBlock.lean, TrapLoopsPlanar.lean (over Stream.lean's "
                     "operations and View's invariant); not modelled: astc-decode, std"],
}


def nontrivial(c, r):
    return r.startswith("hdr=9") or r.startswith("hdr=10") or (c.startswith("G ") and r.startswith("ok "))


def classify(c, r):
    t = c.split()
    if t and t[0] == "G":
        return "giant " + r.split(" ")[0]
    try:
        env = t[3][0] + ("c" if ",c" in t[3] else "")
        opt = t[1] + ("+fl" if t[2] != "-" else "")
    except Exception:
        return "bad"
    head = r.split(" ")[0]
    if head.startswith("hdr=err:"):
        hd = head.split("@")[0].split(":")[1]
    elif head.startswith("hdr="):
        hd = "dx" + head[4:].split(":")[0]
        if " fmt=err" in r:
            hd += " fmt-err"
        elif " lay=err:" in r:
            hd += " lay-" + r.split(" lay=err:")[1].split(" ")[0]
        else:
            hd += " open"
    else:
        hd = head
    return f"{opt} env={env} {hd}"


import re as _re

_TOK = _re.compile(r"^(?:(\d+):)?([A-Za-z]+)@(\d+)$")
_NONIO = lambda n: n not in ("ok", "Io", "panic", "m", "L")


def equal(a, b):
    """C01 distinguishes Ok, I/O errors, other errors and panics — not WHICH non-I/O error a call returns when several
    apply (rect out of bounds vs surface too large), and not the threshold at which a small memory limit starts to
    refuse (C07's subject). Tolerated therefore, per operation token: two different non-I/O error names at the same
    reader position; and `MemoryLimitExceeded` on exactly one side. Everything else (header, format, layout, Ok/Io/panic
    class, reader positions, cursor) is compared exactly up to the first one-sided refusal or the first I/O error
    (after which the state of decoder and reader is documented as unspecified)."""
    if a == b:
        return True
    # which header / layout error an input gets that is invalid in two ways at once is not distinguished either
    # (nor where the reader stands after a header that failed to parse)
    canon = lambda s: _re.sub(r"hdr=err@\d+", "hdr=err", _re.sub(r"(hdr|lay|L)=err:[A-Za-z0-9]+(:\d+)?", r"\1=err", s))
    a, b = canon(a), canon(b)
    if a == b:
        return True
    ta, tb = a.split(" "), b.split(" ")
    for x, y in zip(ta, tb):
        if x == y:
            m = _TOK.match(x)
            if m and m.group(2) == "Io":
                # the docs promise the reader position after success and after non-I/O errors only (decode docs "State of the
                # reader"; Decoder: "not ... a known (working) state after an error"): what later calls
                # return is not comparable (the oracle still demands Ok/Err without panic from every one of them)
                return True
            continue
        mx, my = _TOK.match(x), _TOK.match(y)
        if not mx or not my:
            return False
        nx, ny = mx.group(2), my.group(2)
        if _NONIO(nx) and _NONIO(ny) and mx.group(3) == my.group(3):
            continue
        if (nx == "MemoryLimitExceeded") != (ny == "MemoryLimitExceeded"):
            # one side was refused, the other went on: the two runs are in different states from here on, the
            # rest of the sequence is not comparable (the oracle still judges every call of the implementation)
            return True
        return False
    return len(ta) == len(tb)
