"""check.py configuration of C06 (stream-position contract of decode / decode_rect)."""

CFG = {
    "claim": "Proof: in the model of dds::decode / dds::decode_rect (every decode path as a list of alloc/skip/read "
             "operations, interpreted over an ideal stream with arbitrary length, hard-error offset, seek behaviour, "
             "short-read/Interrupted pattern, memory limit and allocator) for all format families with admissible "
             "unit sizes, all surface sizes of at most isize::MAX bytes, all rects inside the surface: every "
             "allocation precedes the first reader operation; success ends exactly surface_bytes after the start; "
             "the outcome does not depend on how reads are chunked; a reader error or an end of stream inside the "
             "surface is returned as an I/O error; any other error leaves the reader untouched; no panic. "
             "The model is tied to the code by a differential run with a logging Read+Seek over all 73 formats.",
    "note": "Trusted: Lean kernel + propext/Classical.choice/Quot.sound; the hand-written model Stream.lean (incl. "
            "its format table); the correspondence check (harness FaultReader, driver, diff) and its generator; "
            "agreement of code and model off the generated cases; std's read_exact / io::copy(take) / Vec contracts.",
    "profiles": ["release", "checked"],
    "level": "proof",
    "rule": "cases = (1) every format x 2 sizes x {full, 2 rects} x limits {0, need-1, need, default} with random "
            "colour/pitch padding/start position/chunking; (2) 17 representatives of every helper x unit size x small "
            "sizes x {full, 5-7 rects}: hard error at every byte offset k, EOF at every k with Cursor-like and with "
            "clamping seek (quick: k <= 48 plus 14 sampled, thorough: every k); (3) validation errors, empty rects, "
            "empty surfaces, > isize::MAX and near-2^63 surfaces; (4) surfaces beyond the 64 KiB line buffer, padded "
            "rows; (5) PRNG cases over all formats. need/need-1 are resolved on the implementation side by bisection "
            "on the real decoder and on the model side by the model's need. A case is non-trivial unless it is "
            "bad-case; distinct = distinct case lines.",
    "assumptions": [
        "the implementation equals the model off the generated cases",
        "Read::read_exact, io::copy(Take) and Vec::try_reserve_exact behave as documented by std",
        "oracle in harness/src/c06.rs evaluates the three clauses on the implementation alone "
        "(surface length from PixelInfo::surface_bytes)",
    ],
    "trusted_base": ["model: lean/DdsModel/DdsModel/Stream.lean (decode/mod.rs decode, decode_rect, "
                     "check_likely_overflow; decoder.rs DecodeContext, DecoderSet::decode/decode_rect; read_write.rs "
                     "for_each_* helpers, UntypedLineBuffer, read_exact_image; util.rs io_skip_exact; format -> "
                     "helper/unit-size table); not modelled: pixel conversion (C03-C05), the contents of the bytes"],
}


def nontrivial(c, r):
    return r != "bad-case"


def classify(c, r):
    t = c.split()
    res = r.split(" ")[0]
    kind = t[0]
    try:
        rest = t[6:] if kind == "full" else t[10:]
        lim = rest[1] if rest[1] in ("0", "n", "n-1", "d") else "num"
        stream = "fault" if rest[4] != "-" else ("clamp" if rest[5] == "1" else "cursor")
        chunk = rest[6][0]
    except Exception:
        return f"{kind} {res}"
    return f"{kind} {res} lim={lim} {stream} chunk={chunk}"


def equal(a, b):
    """The numeric value of the resolved limit (`lim=<need>` for the symbolic limits n / n-1) and the exact
    threshold at which a fixed limit starts to be refused are C07's subject, not C06's: a harmless change of a
    buffer size or of the allocation policy must not alarm here. Tolerated therefore: exactly one side `mem` (refused)
    where the other side went on (ok, or io on a faulty stream) — whatever the implementation did is individually
    checked against C06's clauses by the oracle (ok: consumed exactly the surface; mem: reader where it was; io only
    when the reader faulted).
    Everything else is compared exactly."""
    import re
    strip = lambda s: re.sub(r" lim=\d+", " lim=*", s)
    a, b = strip(a), strip(b)
    if a == b:
        return True
    ta, tb = a.split(), b.split()
    return len(ta) >= 1 and len(tb) >= 1 and (ta[0] == "mem") != (tb[0] == "mem")
