"""check.py configuration of C07 (the memory limit bounds allocation)."""
import re

SLACK = 4096

CFG = {
    "claim": "Proof: in the model of dds::decode / dds::decode_rect (Stream.lean: DecodeContext as a budget that only "
             "decreases, the allocator called only with requests the budget admits, the alloc entries of every decode "
             "path) for all format families, sizes, rects, limits, streams: the bytes handed to the allocator never "
             "exceed memory_limit at any prefix of any trace; a request above the remaining budget is refused before "
             "the allocator is called; the result is MemoryLimitExceeded exactly when limit < need; closed form of "
             "the need per family and need <= max(64 KiB, bytes per line) + row/plane bytes <= encoded surface "
             "bytes; with the default 33 MiB every row of the format table x every colour decodes at 4096x4096. "
             "Tied to the code by a counting global allocator measuring the peak heap use of the real decoder.",
    "note": "Trusted: Lean kernel + propext/Classical.choice/Quot.sound; the hand-written model Stream.lean; the "
            "correspondence check (counting allocator, bisection of the observed need, driver, refinement "
            "comparison) and its generator; agreement of code and model off the generated cases. Stack memory "
            "(ChannelConversionBuffer, 3 KiB) is not heap and not counted; the output image belongs to the caller.",
    "profiles": ["release"],
    "level": "proof",
    "rule": "cases = all 73 formats x sizes {1x1 .. 257x129, 1024x16, 16x1024, 65536x1, 1x65536, 16385x3} x "
            "{full, interior rect, full-width strip, far-corner pixel} x limits {0, 1, 1 KiB, 64 KiB, need-1, need, "
            "default}; 17 representatives at 1024^2 (thorough 2048^2, 4096^2) x {need-1, need, default}; 4096x4096 "
            "with the default limit for all 73 formats (thorough: 3 calls each + a padded output view); output "
            "views: all 73 formats x sizes {1x1, 7x5, 64x64, 257x129; thorough + 1024x16, 16x1024, 3000x3} x full "
            "decode in the natural colour (the one with a specialised whole-image decoder) x {row pitch + N "
            "(ImageViewMut::new_with), two cropped views, Decoder::read_cube_map atlas} x limits {0, 1 KiB, need-1, "
            "need}, another colour and 3 rects x 2 colours x {0, need-1, need} into a random strided view; PRNG "
            "sizes/rects/limits/colours, half of them into strided views. Comparison is a refinement: observed need <= model need, measured peak <= bytes the "
            "model hands to the allocator + 4096, same result (an implementation that needs less may succeed where "
            "the model refuses). Non-trivial = not bad-case; distinct = distinct case lines.",
    "assumptions": [
        "the implementation equals (refines) the model off the generated cases",
        "allocations are made on the calling thread (decode is single-threaded)",
        "the model's answer does not depend on the caller's output view (contiguous, padded pitch, cropped, cube "
        "atlas); the harness decodes into all of them",
        "oracle in harness/src/c07.rs: peak <= limit + 4096, MemoryLimitExceeded iff limit < observed need, "
        "4096x4096 decodes with the default limit; independent of the model",
    ],
    "trusted_base": ["model: lean/DdsModel/DdsModel/Stream.lean (decoder.rs DecodeContext::{reserve_bytes, alloc, "
                     "alloc_read}; read_write.rs UntypedLineBuffer::new and every for_each_* helper; mod.rs "
                     "DecodeOptions default); measurement: harness/src/alloc_count.rs (#[global_allocator])"],
}


def _parse(s):
    t = s.split(" ")
    d = {"res": t[0]}
    for x in t[1:]:
        if "=" in x:
            k, v = x.split("=", 1)
            d[k] = int(v)
    return d


def equal(a, b):
    """a = implementation line, b = model line"""
    if a == "bad-case" or b == "bad-case" or a.startswith("panic") or a.startswith("process-died"):
        return a == b
    try:
        i, m = _parse(a), _parse(b)
        n_obs, n_mod = i["need"], m["need"]
        if n_obs > n_mod:
            return False          # the implementation needs more than the model proves
        if n_obs == n_mod:
            return i["res"] == m["res"] and i["lim"] == m["lim"] and i["peak"] <= m["granted"] + SLACK
        # the implementation needs less than the model: a harmless shrink
        if i["peak"] > n_mod + SLACK:
            return False
        if i["res"] == m["res"]:
            return True
        return i["res"] == "ok" and m["res"] == "mem" and i["lim"] < n_mod
    except Exception:
        return False


def nontrivial(c, r):
    return r != "bad-case"


def classify(c, r):
    t = c.split()
    lim = t[-1] if t[-1] in ("0", "1", "1024", "65536", "n", "n-1", "d") else "num"
    view = "contig"
    if lim == "num" and not t[-1].isdigit():
        v = t[-1]
        view = "cube" if v == "cube" else "pitch" if v[:1] == "p" else "crop" if v[:1] == "x" else "contig"
        lim = t[-2] if t[-2] in ("0", "1", "1024", "65536", "n", "n-1", "d") else "num"
    return f"{t[0]} {r.split(' ')[0]} lim={lim} view={view}"
