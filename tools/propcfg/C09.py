"""check.py configuration of C09."""

CFG = {
    "claim": "Proof (Lean 4, all inputs): RawHeader read/write are mutually inverse on every 31/36-word image and "
             "every consistent raw header (also at byte level, little endian); Header::from_raw(to_raw(h)) = h for "
             "every well-formed h in strict, permissive and permissive-with-true-file-length mode; every header the "
             "three constructors and any chain of with_size/with_dimensions/with_mipmap_count/with_mipmaps build is "
             "well-formed, and so is every header the struct-level constructors Dx9Header::new_* / Dx10Header::new_* and any "
             "chain of their ten setters build unless it combines Texture3D with an array size other than 1 "
             "(struct_builders_wf / _roundtrip); every header from_raw returns for a read raw header is well-formed (all modes, any "
             "file_len); parsing is a normalisation (idempotent, also with a file length); to_dx9/to_dx10 keep "
             "dimensions, mip count, pixel-info shape and - for everything but DX10 1D textures - the layout. The "
             "model is tied to the code by a differential run over raw word images, constructor/builder chains, "
             "conversions and the complete DXGI / FourCC / Format tables. The ROWS of those tables are not pinned: "
             "tools/extract_tables.py translates them from /repo's working tree into SrcTables.lean on every run, so "
             "the table theorems (dxgi_table_complete: the named DxgiFormat constants are exactly the accepted codes; "
             "dx_conversion_*: every FourCC / mask / DXGI row keeps the bytes-per-pixel / block shape; constructed_wf) "
             "are re-checked by the kernel for the rows the code has now - a harmless table change re-proves them, a "
             "row that breaks one fails its build.",
    "note": "Trusted: Lean kernel + propext/Classical.choice/Quot.sound; the hand-written model Header.lean + "
            "HeaderTables.lean (lookup functions, constructors, conversions; the table rows are translated from the "
            "source by tools/extract_tables.py on every run and that translator is validated by the row-by-row "
            "comparison of this run; the Format enumeration is pinned); the correspondence check and its generators; agreement of code and "
            "model off the generated cases; byte<->u32 little-endian step (cast.rs) is modelled (leBytes/leWords) "
            "and exercised through real byte images.",
    "profiles": ["release", "checked"],
    "level": "proof",
    "rule": "cases = table rows (DXGI codes 0..300 + out-of-range, known FourCC +-perturbations and 0..129, all 73 "
            "Formats: exhaustive for the finite tables) + constructors x builder chains (73 formats x 3 kinds x "
            "boundary dims, PRNG chains) + struct-level constructors x setter chains (KS: all 162 DXGI codes, all 256 face "
            "bytes, every mask row, PRNG chains over the ten setters) + raw word images (every word of 5 base images x boundary values, "
            "truncation at every word, flag combinations, all DX10 code x dimension x misc x array x alpha classes, "
            "mask rows + bit perturbations, all 64 DX9 face sets, PRNG perturbed valid images, PRNG fully random "
            "images; strict/permissive/file_len exact,+-1,arbitrary) + to_dx9/to_dx10 over all valid DXGI x alpha "
            "x kind, all FourCC/mask rows x caps2 and PRNG headers; non-trivial = the header parses / is built / "
            "a conversion exists; distinct = distinct case lines",
    "assumptions": [
        "the implementation equals the model off the generated cases",
        "oracle in harness/src/c09.rs evaluates the round trips on the implementation itself (write->read == "
        "original in three modes, raw bytes identical, conversions keep shape/pixel info/DataLayout)",
    ],
    "trusted_base": ["model: lean/DdsModel/DdsModel/Header.lean (header.rs RawHeader::{read,write}, Header::{read,"
                     "write,from_raw,to_raw,fix_based_on_file_len}, Dx9PixelFormat::from_raw, builders), "
                     "HeaderTables.lean (DXGI/FourCC/mask/Format tables with rows translated from the source into "
                     "SrcTables.lean by tools/extract_tables.py on every run; constructors, to_dx9/to_dx10), "
                     "Layout.lean (C02) for layout lengths"],
}


def nontrivial(c, r):
    if c.startswith("P ") or c.startswith("K ") or c.startswith("KS "):
        return r.startswith("ok")
    if c.startswith("X "):
        return not r.startswith("d9=- d10=-")
    return r not in ("invalid", "bad-case") and not r.startswith("fmt=- px=- dxgi=-")


def classify(c, r):
    t = c.split(" ", 3)
    kind = t[0]
    if kind == "P":
        mode = t[1] + ("+fl" if t[2] != "-" else "")
        res = r.split(" ")[0]
        if res == "ok":
            res = "ok-dx" + r.split(" ")[1].split(":")[0]
        else:
            res = ":".join(res.split(":")[:2])
        return f"P {mode} {res}"
    if kind == "K":
        return f"K {t[1]} {r.split(' ')[0]}"
    if kind == "X":
        src = "dx" + t[1].split(":")[0]
        return f"X {src} to9={'y' if not r.startswith('d9=-') else 'n'} to10={'y' if ' d10=-' not in r else 'n'}"
    return f"{kind} {r.split(' ')[0].split('=')[0]}"


def equal(a, b):
    """C09 speaks about the headers that parse. Which error a header gets that is invalid in two places at once
    (pixel-format size and DX10 extension) is not part of it: two `err:` results with the same `raw=` outcome are equal
    whatever the variant; everything else is compared exactly."""
    if a == b:
        return True
    ta, tb = a.split(" "), b.split(" ")
    return len(ta) == len(tb) and len(ta) >= 1 and ta[0].startswith("err:") and tb[0].startswith("err:") and ta[1:] == tb[1:]
