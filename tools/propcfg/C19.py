"""check.py configuration of C19."""

CFG = {
    "claim": "Proof over the format tables (header / detection rows - DXGI codes with pixel info and supported format, "
             "accepted codes, special cases, FourCC and mask tables, Format -> DXGI / FourCC, the explicit arms of "
             "From<Format> for PixelInfo - are TRANSLATED from /repo's working tree into SrcTables.lean by "
             "tools/extract_tables.py on every run, so the decide-theorems are re-checked for the rows the code has "
             "now; pinned: the 73-variant Format enumeration, per format the layout of the format definition and the "
             "native colour, and the encoder table with the source's flag bit values incl. DITHER_ALPHA = 0x16): for every header from which a format is detected "
             "PixelInfo::from_header equals the format's pixel info (all valid DXGI codes x 5 alpha modes, every FourCC "
             "and mask value through the default arms); bits per pixel, block size, native colour, encodability and size "
             "multiple are mutually consistent; the overlapping flag bits never confuse an exactness or dithering test; "
             "a channel group whose error mask is 0 is stored exactly as without dithering (induction over arbitrary "
             "images); formats not advertising dithering for a group select a path that does not dither it. The tables "
             "and the codecs are tied to the library exhaustively (every u32 0..255 as DXGI code, all table rows and "
             "their one-bit perturbations) and by running decode/encode for all 73 formats over sizes 1..32 and all "
             "four dithering modes.",
    "note": "Trusted: Lean kernel + propext/Classical.choice/Quot.sound; the tables FormatTables.lean (translated rows: the translator "
            "tools/extract_tables.py is validated by this run's row-by-row comparison; pinned: Format enumeration, format "
            "layouts / colours, encoder lists) and the dithering dataflow model Dither.lean; the correspondence check (harness, driver, diff) and its generators. "
            "The numeric quantisers and block encoders are abstract parameters of the dithering model.",
    "profiles": ["release"],
    "level": "proof",
    "rule": "cases = M: all 73 formats; H: every u32 0..=255 as DXGI code x 5 alpha modes (dims/misc rotated), all 25 "
            "known FourCCs + their 32 one-bit neighbours + 0..130 + boundary + PRNG u32s, all 19 mask rows + other bit "
            "counts + one-bit perturbations of every field + PRNG masks; D/E: 73 formats x every width and every "
            "height 1..32 (quick: paired, plus all 6x6 small sizes; thorough: full 32x32 grid) x colour formats; "
            "R: rectangle decodes (decode_rect / Decoder::read_surface_rect) for 73 formats x surface heights with "
            "every residue modulo the block height / chroma sub-sampling (below one period and beyond two) x every "
            "bottom edge x tops on and off line boundaries, the whole surface, PRNG rects up to 40x40, rects outside; "
            "T: every encodable format x 12 colour formats x 4 dithering modes x sizes, extra weight on RGBA F32/U16, "
            "and every format x all 4 compression qualities (Fast .. Unreasonable) x RGBA U8/U16/F32 + a random "
            "colour on images up to 16x16; "
            "non-trivial = a format was detected / codec ran (result not an error); distinct = distinct case lines",
    "assumptions": [
        "the implementation equals the model off the generated cases (tables: none are off the cases, the table "
        "domains are enumerated completely)",
        "quantisers / block encoders are deterministic functions of their own channel group and switch (observed by "
        "the byte comparisons of the T cases, not proved)",
        "oracle in harness/src/c19.rs compares two API paths, Cursor positions and stored bytes; alpha bit positions "
        "per format are pinned there from the format definitions",
    ],
    "trusted_base": ["model: lean/DdsModel/DdsModel/FormatTables.lean (pixel.rs, format.rs, detect.rs, header.rs "
                     "codes, encode/encoder.rs flags + pick_encoder + encoding_support, encoder lists of "
                     "encode/{uncompressed,sub_sampled,bi_planar,bc}.rs), Dither.lean (uncompressed.rs "
                     "uncompressed_universal_dither/process_chunk dataflow, bc.rs switch wiring); not modelled: the "
                     "numeric quantisers, BC block encoders, decoders (exercised by the D/E/T cases)"],
}


def _tok_eq(a, b):
    """a = implementation token, b = model token; the model prints `?` where it makes no prediction"""
    if a == b:
        return True
    if "=" in a and "=" in b:
        ka, va = a.split("=", 1)
        kb, vb = b.split("=", 1)
        return ka == kb and vb == "?" and va in ("0", "1")
    return False


def equal(a, b):
    if a == b:
        return True
    if a.startswith("F:") and b.startswith("F:"):
        # `H` cases: C19 constrains the pixel layout derived from a header (P:) against the layout of the detected
        # format (FP:) and the metadata of that format — not WHICH of several formats with identical layout and
        # metadata is detected (e.g. premultiplied vs plain BC2 for a typeless DXGI code): the name of the detected
        # format is ignored when everything else on the line agrees.
        ta, tb = a.split(" "), b.split(" ")
        return len(ta) == len(tb) and len(ta) > 1 and not ta[0].startswith("F:E:") and not tb[0].startswith("F:E:") \
            and ta[1:] == tb[1:]
    if not a.startswith("adv="):
        return False
    ta, tb = a.split(), b.split()
    return len(ta) == len(tb) and all(_tok_eq(x, y) for x, y in zip(ta, tb))


def nontrivial(c, r):
    return not (r.startswith("err") or r == "bad-case" or r.startswith("F:E:") or r.startswith("invalid")
                or r.startswith("unsupported"))


def classify(c, r):
    t = c.split()
    k = t[0]
    if k == "H":
        if r.startswith("invalid"):
            return f"H {t[1]} {r}"
        f = r.split()[0]
        return f"H {t[1]} " + ("detected" if not f.startswith("F:E:") else f)
    if k == "M":
        return "M"
    if k == "R":
        # where the bottom edge of the rectangle lies (whole surface / inside), and the result
        try:
            sh, y, h = int(t[3]), int(t[5]), int(t[7])
            where = "to-bottom" if y + h == sh else "inside" if y + h < sh else "outside"
        except Exception:
            where = "?"
        return "R " + r.split()[0] + " " + where
    if k in ("D", "E"):
        return f"{k} " + r.split()[0] + (" " + r.split()[1].split(":")[0] if r.startswith("err") else "")
    if k == "T":
        p = r.split()
        if not r.startswith("adv="):
            return "T " + r
        # which groups are advertised and whether dithering changed anything
        changed = "changed" if ("C=0" in p or "A=0" in p or "CA=0" in p) else "same"
        q = f" q={t[6]}" if len(t) == 7 else ""
        return f"T {p[0]} {changed}{q}"
    return k

