"""check.py configuration of C04."""

CFG = {
    "claim": "Proof + exhaustive tie: every integer conversion of color/formats.rs (UNORM 1..16 -> 8/16, SNORM 8/16, "
             "XR bias, 10/11-bit float denormals) equals the nearest code of the rational ideal on its whole input "
             "domain (ties characterised: none for UNORM, SNORM 0 and odd XR steps go up); UNORM/SNORM/XR/half/11/10-bit/"
             "shared-exponent -> f32 equal the correctly rounded binary32 of the ideal, including the 16-bit domains "
             "(n16::f32, s16::uf32, fp16::f32: all 65536 inputs kernel-evaluated); every half -> nearest U8 code, every "
             "half -> nearest U16 code except exactly 0x3801..0x3804, which are proved to come out one code high and "
             "inside the tie tolerance (F14b), likewise R9G9B9E5 (15,257); binary32 sources (fp::n8, fp::n16 = "
             "(x*MAX+0.5) as uN) on ALL 2^32 bit patterns: NaN->0, +-inf saturate, every finite value -> nearest code, "
             "except exactly 128 (U8) / 32768 (U16) patterns, each the largest float below a tie (2k-1)/(2 MAX), proved to "
             "come out one code high and inside the tie tolerance (monotone software float + kernel-checked threshold "
             "tables, Proofs/F32Mono.lean, F32Thr*.lean); the YUV decoders yuv8/yuv10/yuv16::{n8,n16,f32} on ALL inputs "
             "(2^24 / 2^30 / 2^48 triples, no enumeration): every channel satisfies the oracle's admissibility predicate "
             "(code: |k/max - ideal| <= 1/(2 max) + 2^-12/255; f32: finite and within 2^-12/255 + 2^-24), from a proved "
             "rounding-error bound (standard model of floating-point arithmetic for the bit-level operators, "
             "Proofs/F32Err*.lean; |f32 channel - ideal| <= 10*2^-24 at every depth, Proofs/YuvErr.lean) composed with the "
             "all-patterns theorems of fp::n8/n16; exact saturation outside a 2^-20 margin; the pinned 45-format field table is "
             "well formed; sub-sampled and bi-planar decoding pairs every pixel with the chroma sample of its own cell for "
             "all widths/heights. The model (software binary32, bit-exact) is tied to dds::decode by a differential run "
             "that is exhaustive for <=16-bit pixels and per field for wider ones.",
    "note": "Trusted: Lean kernel + propext/Classical.choice/Quot.sound; the hand-written models ConvF32/Conv/"
            "Uncompressed.lean and specification ConvSpec.lean; the correspondence check (harness, driver, diff); "
            "the 65536-point evaluations of the 16-bit->f32 and half conversions run inside the kernel on an integer "
            "representation of the software float (Proofs/ConvFast*.lean) that is proved equal to the model for all "
            "arguments, so it adds nothing to the trusted base; the threshold tables of fp::n8/n16 are produced by an "
            "untrusted script (tools/gen_f32thr.py) and validated entry by entry in the kernel; the YUV theorems are "
            "symbolic (error analysis over Rat, core tactics only), their generator cases (section Y) come from the "
            "untrusted tools/yuv_worst.py and only strengthen the tie; "
            "IEEE-754 +,-,*,/ being correctly rounded and evaluated operator by operator in binary32 by rustc/x86-64.",
    "profiles": ["release", "checked"],
    "level": "proof",
    "rule": "cases = (A) every value of every format with <=16-bit units x {U8,U16,F32}; (B) for every field of every "
            "wider format all 2^width values (16-bit windows: boundary + random 256-blocks in quick, all in thorough) with "
            "the other bits 0 / all ones / random; (C) splitmix random surfaces for 24 geometries (odd and even widths "
            "and heights, 1x1 .. 1025x1) x {U8,U16,F32} x native and other channel sets; (D) float specials (signed "
            "zeros, subnormals, ties, 65504, max finite, infinities, NaN payloads) and f32 inputs next to every U8 / "
            "sampled U16 rounding tie; (Y) YUV lattice / clamp-boundary / worst-error triples for AYUV, Y410, Y416. Non-trivial = decoded (result starts with ok); distinct = distinct case lines. "
            "Oracle tolerance (only YUV outputs and integer outputs of float-valued fields, which the library evaluates in "
            "f32): a code is accepted iff |code/max - ideal| <= 1/(2 max) + 2^-12/255; everything else must be a nearest "
            "code / the correctly rounded f32.",
    "assumptions": [
        "the implementation equals the model off the generated cases (32-bit float fields, YUV triples and >16-bit "
        "words are sampled, not exhausted)",
        "IEEE-754 binary32 +,-,*,/ are correctly rounded; rustc does not contract or reassociate f32 expressions",
        "i128 rational oracle in harness/src/c04.rs (own transcription of the layouts, own software rounding) is "
        "independent of the Lean model",
        "NaN inputs decode to 0 and infinities saturate at integer precisions (the crate's documented convention); NaN "
        "payloads are not compared",
    ],
    "trusted_base": ["model: ConvF32.lean (software binary32), Conv.lean (color/formats.rs n1..n16, s8, s16, xr10, fp, "
                     "fp16, fp11, fp10, rgb9995f, yuv8/10/16), Uncompressed.lean (decode/uncompressed.rs, sub_sampled.rs, "
                     "bi_planar.rs wiring; read_write.rs process_2x1_blocks_helper, general_process_blocks 8x1, "
                     "process_bi_planar_helper, for_each_bi_planar row loop; color/mod.rs convert_channels); not "
                     "modelled: line buffering / reader handling (C06), rect decoding (C05)"],
}


def classify(case, result):
    t = case.split(" ")
    if len(t) < 7:
        return "malformed"
    kind = t[6].split(":")[0]
    shape = "odd" if (int(t[4]) % 2 == 1 or int(t[5]) % 2 == 1) else "even"
    return f"{t[1]} p{t[3]} {kind} {shape}"
