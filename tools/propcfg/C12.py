"""check.py configuration of C12."""

CFG = {
    "claim": "placeholder",
    "profiles": ["release"],
    "level": "proof",
}


def classify(c, r):
    t = c.split(" ")
    if t[0] == "int":
        return f"int{t[2]} {t[3]} pat{t[4]} -> {r.split(' ')[0]}"
    if t[0] == "sup":
        return "sup"
    return f"{t[0]} {t[2]} -> {r.split(' ')[0]}"


def nontrivial(c, r):
    return r.startswith("ok ") or r.startswith("sup ")
