"""check.py configuration of C12."""

CFG = {
    "claim": "Proof (Lean, 24 theorems over the exact-Rat quantiser model Quant.lean): an n-bit value stored in any "
             "m>=n-bit UNORM field (any N<=L level counts; SNORM for n<m, both minimum codes, minimum code never "
             "emitted) decodes back unchanged, for all n, m, v; every real x quantises to within half a step of "
             "clamp(x) (UNORM and SNORM, all m); every 8-bit value survives nearest-half / nearest-binary32 / the "
             "shared-exponent encoder and every 16-bit value survives binary32 (whole domains); the integer paths "
             "n8::n16, n16::n8, s8::from_n8, s16::from_n16 and the SNORM/10-bit decoders equal the specification on "
             "their whole domains; pick_encoder over the pinned 45-format flag table is total, never dithers without "
             "being asked, honours advertised exactness, and DITHER_ALPHA=0x16 fools no test. The model is tied to "
             "the code through dds::encode -> dds::decode on all 45 non-BC formats: encoded bytes equal the model's "
             "prediction (exhaustive 0..255 and 0..65535 per channel, f32 grids/midpoints/subnormals/out-of-range/"
             "Inf) and an independent exact-rational oracle checks exact round trip, half-step / YUV bound, and "
             "byte identity across the 12 colour formats, pitches, alignment and parallel on/off.",
    "note": "Trusted: Lean kernel + propext/Classical.choice/Quot.sound; the hand-written models Quant.lean / "
            "QuantFmt.lean; the correspondence check and its generators; the binary32 evaluation of the float "
            "quantisers is not modelled (its agreement with the model is what the exhaustive tie establishes, with "
            "the stated tie tolerance); assumption A1 (YUV bound, not documented by the crate).",
    "profiles": ["release"],
    "level": "proof",
    "rule": "cases = per format: 8-bit ramps (every channel value) x 4 pixel families (gray/alpha/rgb/rgba, i.e. all 12 "
            "colour formats as carriers) x widths 511,512,513,1023,1025,4097 and multi-row shapes (x block-constant / "
            "even-step patterns on blocked formats); 65536-pixel 8-bit pair patterns for shared-exponent and YUV; "
            "16-bit ramps covering 0..65535 per channel; f32 lines (grid points, midpoints +-1 ulp, random, "
            "in-range / below 2^-14 / out-of-range specials, +-Inf, NaN); each case is encoded through every "
            "carrier x {tight, padded pitch} x {aligned, unaligned} x parallel on/off. Non-trivial = an encoding was "
            "produced; distinct = distinct case lines.",
    "assumptions": [
        "the implementation equals the model off the generated cases",
        "tie tolerance: a stored code whose ideal pre-rounding value lies within 2^-12 step (2^(b-23) for UNORM "
        "fields wider than 11 bits, 2^(m-20) code for the m-bit YUV matrices) of a rounding tie may go either way; "
        "such pixels are excluded from the byte comparison and the oracle bound is widened by that amount; "
        "never applied to integer inputs into UNORM/SNORM/XR fields",
        "A1: wider bound for YUV / sub-sampled / bi-planar formats is NOT documented by the crate; used: decoded "
        "R,G within 1.5 and B within 2 codes of the m-bit format (Y210: 3, 2.5, 3.5) of the clamped input on "
        "block-constant images (measured maxima 1.41/1.23/1.65, Y210 2.45/1.88/2.82; analytic 1.38/1.18/1.59)",
        "NaN input: no clamped real value, the property demands nothing (observation O1 in notes/C12.md)",
    ],
    "trusted_base": ["model: lean/DdsModel/DdsModel/Quant.lean (formats.rs quantisers, encoder.rs Flags/pick_encoder, "
                     "the encoder tables), QuantFmt.lean (bit-field wiring of uncompressed.rs, sub_sampled.rs, "
                     "bi_planar.rs); not modelled: binary32 evaluation, dithering encoders, progress/cancel, "
                     "write_util chunking (exercised by the geometry classes, not modelled: the model is per pixel)"],
}


def classify(c, r):
    t = c.split(" ")
    if t[0] == "int":
        return f"int{t[2]} {t[3]} pat{t[4]} -> {r.split(' ')[0]}"
    if t[0] == "sup":
        return "sup"
    if t[0] == "q32":
        return f"q32 {t[1]} -> {r.split(' ')[0]}"
    return f"{t[0]} {t[2]} -> {r.split(' ')[0]}"


def nontrivial(c, r):
    return r.startswith("ok ") or r.startswith("sup ") or r.startswith("q ")
