"""check.py configuration of C18."""

CFG = {
    "claim": "Proof (Lean 4, all raw headers / all valid headers / any pixel-info detection): strict ok => permissive "
             "(no file_len) gives the same header; a strictly parsed header whose layout length equals file_len - "
             "header bytes is returned unchanged by permissive parsing with that file_len; the file_len repair "
             "changes nothing but mip count and array size and whenever it changes them (other than array 0->1) "
             "the result's layout length equals the file's data length; every listed single defect (and array size "
             "0 combined with a mip defect) applied to to_raw(h) of a valid h is parsed, with the true file length, "
             "to a header whose layout length equals that of h. fix_based_on_file_len is modelled verbatim and tied "
             "to the code differentially (valid headers x defects x file lengths, arbitrary word images).",
    "note": "Trusted: Lean kernel + 3 standard axioms; model Header.lean (+ Layout.lean of C02, HeaderTables.lean for "
            "the concrete PixelInfo detection in the driver and pinned_pixel_infos_wf - its table rows are translated from "
            "the source into SrcTables.lean by tools/extract_tables.py on every run, so that theorem is re-checked for "
            "the current rows); correspondence check + generators.",
    "profiles": ["release", "checked"],
    "level": "proof",
    "rule": "cases = D: valid headers (73 formats x image/volume/cube x geometries x mip counts {1,2,full-1,full,"
            "full+1}, DX10 arrays/cube arrays/1D, DX9 partial cubes, PRNG headers) x defect lists (each single "
            "defect incl. non-applicable variants, array0+mip combos, triple) x file_len {exact, none, +1, -1, "
            "arbitrary/multiples}; R: PRNG perturbed word images with file lengths taken from neighbouring mip "
            "counts / array sizes (coincidence-prone); non-trivial = permissive parse succeeds; distinct = distinct "
            "case lines",
    "assumptions": [
        "the implementation equals the model off the generated cases",
        "oracle in harness/src/c18.rs evaluates the four clauses on the implementation with "
        "DataLayout::from_header(..).data_len(); 'known defect' for mip counts = the true count is 1, the full "
        "chain, or one off the count the reader sees",
    ],
    "trusted_base": ["model: lean/DdsModel/DdsModel/Header.lean (Header::from_raw, Dx9PixelFormat::from_raw, "
                     "fix_based_on_file_len verbatim; Defect = specification of the writer bugs), Layout.lean"],
}


def nontrivial(c, r):
    return " p=err" not in r and r not in ("bad-case", "panic")


def classify(c, r):
    t = c.split(" ")
    if t[0] == "D":
        ds = "+".join(x.split(":")[0] for x in t[3:]) or "none"
        fl = t[2] if t[2] in ("e", "n", "+", "-") else "arb"
        kv = dict(x.split("=", 1) for x in r.split(" ") if "=" in x)
        rec = "rec" if kv.get("lf", "-") == kv.get("L", "?") and kv.get("lf") != "-" else "norec"
        return f"D {ds} fl={fl} {rec}"
    kv = dict(x.split("=", 1) for x in r.split(" ") if "=" in x)
    s = "s-ok" if not kv.get("s", "err").startswith("err") else "s-err"
    p = "p-ok" if not kv.get("p", "err").startswith("err") else "p-err"
    ch = "repaired" if kv.get("p") != kv.get("f") else "same"
    return f"R {'fl' if t[1] != 'n' else 'nofl'} {s} {p} {ch}"


import re as _re


def equal(a, b):
    """C18 speaks about headers strict parsing accepts and about repairs. Which error a header gets that is invalid in
    two places at once is not part of it: `err:<Variant>:<value>` is compared as `err` (on both sides, in every field);
    everything else is compared exactly."""
    if a == b:
        return True
    canon = lambda s: _re.sub(r"=err:[A-Za-z0-9]+:\d+", "=err", s)
    return canon(a) == canon(b)
