"""check.py configuration of C05."""

CFG = {
    "claim": "Proof: in the addressing model of read_write.rs (per-pixel, block bw x bh incl. 2x1 / 8x1 / 4x4 fast path / "
             "general, bi-planar; 3072-byte channel-conversion chunking; line buffer; decoder selection) every write of a "
             "rectangle decode lands inside the addressed rows and carries the source pixel (off.x+i, off.y+j), for all "
             "surface sizes, rectangles, block shapes, pitches and conversion settings (assembled for the uncompressed, block and "
             "bi-planar families; bi-planar for every sub-sampling (sx, sy) >= 1 incl. the y-offset loops and the conversion chunks); the 16-entry channel table has the "
             "documented structure. The model is tied to the code on every run by comparing, per case, the set of written "
             "output bytes and (for probe formats) the map output pixel -> source pixel read back from the implementation; "
             "an independent oracle compares rect decodes with crops of the full decode for all 73 formats x 12 colours.",
    "note": "Trusted: Lean kernel + propext/Classical.choice/Quot.sound; the hand-written model Addr.lean; the "
            "correspondence check (harness, driver, diff) and its generators; agreement of code and model off the "
            "generated cases; per-unit decode functions are a parameter (C03/C04).",
    "profiles": ["release", "checked"],
    "level": "proof",
    "rule": "cases = R (rect decode: format, surface size, rect, colour 0..11, pitch in {min,min+1,min+7,2min}, buffer offset "
            "0..3, api fn/Decoder, data seed; both prefills 0x00/0xFF are run inside every case), F (full decode into a "
            "pitched view), L (locality). Structured: all rects of tiny surfaces for probe formats; every format x widths "
            "and heights 1..70 x rect classes (1x1,row,column,full,edge,aligned,inside-unit,random); wide surfaces around "
            "the 3072-byte conversion chunk and the 64 KiB line buffer; every format x 12 colours full decodes. "
            "non-trivial = result starts with ok; distinct = distinct case lines",
    "assumptions": [
        "the implementation equals the model off the generated cases",
        "oracle in harness/src/c05.rs (crop comparison, untouched padding, channel mapping from the documented rules, "
        "probe read-back, locality) is independent of the model",
        "probe read-back relies on flat surfaces decoding flat (checked at calibration)",
    ],
    "trusted_base": ["model: lean/DdsModel/DdsModel/Addr.lean (read_write.rs index arithmetic, decoder.rs get_decoder, "
                     "uncompressed.rs COPY paths as row copies, color/mod.rs convert_channels table); not modelled: the "
                     "per-unit decode functions (parameter of the model), reader error paths, memory limit"],
}


def classify(c, r):
    t = c.split(" ")
    kind = t[0]
    fam = "?"
    name = t[1] if len(t) > 1 else "?"
    if name.startswith("ASTC"):
        fam = "astc"
    elif name.startswith("BC"):
        fam = "bc4x4"
    elif name in ("NV12", "P010", "P016"):
        fam = "planar"
    elif name in ("R8G8_B8G8_UNORM", "G8R8_G8B8_UNORM", "UYVY", "YUY2", "Y210", "Y216"):
        fam = "2x1"
    elif name == "R1_UNORM":
        fam = "8x1"
    else:
        fam = "pixel"
    probe = "probe" if " sm=" in r and "sm=-" not in r else "bytes"
    if kind == "R" and len(t) >= 13:
        W, H, ox, oy, w, h = map(int, t[2:8])
        if w == 1 and h == 1:
            rc = "1x1"
        elif (w, h) == (W, H):
            rc = "full"
        elif h == 1:
            rc = "row"
        elif w == 1:
            rc = "col"
        else:
            rc = "rect"
        return f"R {fam} {rc} {probe}"
    return f"{kind} {fam} {probe}"
