"""check.py configuration of C03x (BC7 and BC6H part of C03)."""

CFG = {
    "claim": "Proof (Lean 4, for every 128-bit block, no sampling) that the implementation-shaped BC7 and BC6H (signed and "
             "unsigned) block decoders equal the specification-shaped decoders: bc7_impl_eq_spec and bc6_impl_eq_spec for "
             "EVERY block (all 8 + 14 modes and the reserved codes), assembled from: fix-up index decompression = anchor "
             "rule for all 64+64 partitions, per-mode endpoint extraction, consume! sequences = spec field layouts, sign "
             "extension + delta transform, no i32 overflow in unquantize/interpolate/finish; and of the decomposition: pinned spec partition/anchor/weight tables are well-formed and equal the tables the "
             "code builds from its literals; BC7 mode = trailing zeros, every stream read = positional field read, "
             "promote = bit replication, weights x4 and (256-4w)e0+4w e1+128>>8 = (64-w)e0+w e1+32>>6, low byte 0 -> zero; "
             "BC6H: the 14 header layouts partition the header bits and give each endpoint its declared width, the "
             "four reserved codes (and only they) give zero, (x<<s)>>s = two's-complement sign extension for all widths "
             "<=16, half->f32 exact and half->U8 nearest for all 65536 halves, half->U16 nearest except 0x3801..0x3804. "
             "The implementation-shaped models are tied to the code on every run through dds::decode at U8/U16/F32 "
             "(all BC7 mode/partition/rotation/selector/p-bit tuples, all BC6H mode codes x partitions x extreme deltas, "
             "every half value, PRNG blocks) with zero tolerance, and the literal tables of the source are re-parsed "
             "and compared with the pinned tables. The oracle is an independent Rust implementation of the specification.",
    "note": "Trusted: Lean kernel + propext/Classical.choice/Quot.sound; the hand-written models Bc7.lean, Bc6.lean, "
            "BcTables.lean; the reading of the D3D11/Khronos specification in Bc7Spec.lean, Bc6Spec.lean and in the "
            "harness oracle; the correspondence check; agreement of code and model off the generated blocks. The "
            "whole-block equalities bc7_impl_eq_spec / bc6_impl_eq_spec hold for every block; only half->U16 stays partial "
            "(four halves, finding F6).",
    "profiles": ["release", "checked"],
    "level": "proof",
    "rule": "cases = table-tie lines (64+64 partition literals, 5 weight tables, 10 BC6H two-region header orders parsed "
            "from the source text) + blocks batched 64 per line: BC7 every (mode, partition | rotation x index selector) "
            "x every p-bit pattern x {all-0, all-1, mixed, >=4 random payloads}, mode-8 blocks, PRNG blocks; BC6H_UF16 "
            "and BC6H_SF16 every 5-bit mode code (incl. the 4 reserved) x 32 partitions x {random, all-0, all-1, max "
            "positive / max negative / -1 deltas, most negative base} x indices {0, 1, random}, every 16-bit endpoint "
            "value in mode 01111 (every reachable half), PRNG blocks; a case is non-trivial when it decodes (ok) or is a "
            "table line; distinct = distinct case lines",
    "assumptions": [
        "the implementation equals the model off the generated blocks",
        "the independent Rust oracle in harness/src/c03x.rs and the Lean spec models transcribe the D3D11.3 / Khronos "
        "BPTC specification correctly (two transcriptions, compared with each other through the implementation)",
    ],
    "trusted_base": ["model: lean/DdsModel/DdsModel/{Bc7,Bc6,BcTables}.lean (src/decode/bc7.rs, bc6.rs, bcn_util.rs, "
                     "bcn_data.rs partition tables, color/formats.rs fp16/bc6h_uf16/n8 conversions); spec: Bc7Spec.lean, "
                     "Bc6Spec.lean; not modelled: the block/row addressing of the generic BC decoder loop (exercised by "
                     "multi-block surfaces, property C05), channel conversions other than the native RGBA/RGB"],
}


def _mode7(hexblock):
    b = int(hexblock[0:2], 16)
    if b == 0:
        return 8
    return (b & -b).bit_length() - 1


def classify(c, r):
    t = c.split(" ")
    if t[0] == "tbl":
        return "tbl " + t[1]
    if len(t) != 3:
        return "bad"
    if t[0] == "b7":
        return f"b7 mode{_mode7(t[2][:32])}"
    low = int(t[2][0:2], 16) & 31
    code = low & 3 if (low & 3) < 2 else low
    return f"{t[0]} code{code:05b}" if (low & 3) >= 2 else f"{t[0]} code{code:02b}"


def nontrivial(c, r):
    return r.startswith("ok") or r[:2] in ("s ", "w ", "m ")
