"""check.py configuration of C03 (BC1-BC5 part; BC6H/BC7 are sub-check C03x)."""

CFG = {
    "sub_checks": ["C03x"],
    "claim": "Proof: for EVERY 8-/16-byte block the implementation-shaped model of the BC1, BC2, BC3, BC4 U/S and "
             "BC5 U/S decoders (bc.rs blocks::*, formats.rs B5G6R5/n4/n5/n6/n8/s8) equals the specification model "
             "(exact rational interpolation of the endpoints, nearest representable value; BC1 three-colour mode iff "
             "color0<=color1, BC2/BC3 colour always four-colour; explicit alpha x17; SNORM -128=-127) at U8, U16 and "
             "F32 (f32 as bit patterns against a software round-to-nearest-even), plus DXT2/DXT4 un-premultiplication "
             "and the RXGB swizzle, and BC3n (R, G and the f32-computed B = calc_b(R,G), proved equal to the nearest 8-bit value "
             "of 255*(sqrt(1-x^2-y^2)/2+1/2) on all 65 536 pairs by kernel evaluation of integer float operations that are "
             "proved equal to the software-float model for all arguments). Proof by decomposition: finite "
             "lemmas over interpolation numerators (decide +kernel) + generic index/bit-field lemmas. The model is "
             "tied to the code through dds::decode on multi-block surfaces, exhaustively by decomposition.",
    "note": "Trusted: Lean kernel + propext/Classical.choice/Quot.sound; the hand-written models Bc.lean/F32.lean "
            "(f32 operations are modelled as correctly rounded, as IEEE-754 prescribes); the reading of the format "
            "specification in BcSpec.lean; the correspondence check (harness, driver, diff) and its generators.",
    "profiles": ["release", "checked"],
    "level": "proof",
    "rule": "case = one batch of <=64 blocks decoded as one surface (4*wb x 4*hb px) through dds::decode; classes: "
            "colour decomposition (all 64x64 green pairs x both orders of the packed colours x all 32x32 red/blue "
            "pairs x every 2-bit index at every position; equal-red / equal-red-green / equal / adjacent colours), "
            "BC2 alpha (every nibble at every position), BC4/BC5/BC3-alpha (all 256x256 endpoint pairs, every 3-bit "
            "index, rotating positions), variants (every alpha value x every colour numerator), PRNG blocks; x 13 "
            "format/channel combinations x {U8,U16,F32}; non-trivial = decoded (result starts with ok); "
            "distinct = distinct case lines",
    "explanation": "result = 32-bit hash per block of the 16 decoded pixels; oracle = independent u128 rational "
                   "re-implementation of the specification, tie-agnostic nearest (both neighbours admitted on exact ties)",
    "assumptions": [
        "the implementation equals the model off the generated blocks (the palette of a block depends only on the "
        "per-channel endpoint pair and the order of the packed colours; index extraction is covered at every position)",
        "IEEE-754 f32 multiplication/division/sqrt are correctly rounded (x86-64 SSE2)",
        "BC1-BC3 (incl. BC3 alpha) are defined at 8 bit and widened exactly; BC4/BC5 are quantised per precision",
        "BC4_SNORM mode selection compares the raw signed bytes (DirectXTex behaviour); SNORM is shown as (v+1)/2",
    ],
    "trusted_base": ["model: lean/DdsModel/DdsModel/Bc.lean, F32.lean (src/decode/bc.rs mod blocks without bc6/bc7, "
                     "src/color/formats.rs B5G6R5, n4, n5::n8, n6::n8, n8::{n16,f32}, s8::{norm,n8,n16,uf32}, "
                     "Norm constants); spec: BcSpec.lean; not modelled: block iteration / de-tiling "
                     "(read_write.rs process_4x4_blocks_helper; exercised by the multi-block surfaces, owned by C05)"],
}


def classify(c, r):
    t = c.split(" ")
    if len(t) < 4:
        return "malformed"
    return f"{t[1]} {t[2]} " + (r.split(" ")[0] if r else "none")
