"""check.py configuration of C20."""

CFG = {
    "claim": "Proof: for every buffer length, row pitch < 2^64, width/height < 2^32 and 1..16 bytes per pixel the model "
             "of ImageView/ImageViewMut::new_with returns a view exactly when pitch >= w*bpp and pitch*(h-1)+w*bpp <= "
             "len computed in N (never panics or wraps), new exactly when the length matches; every produced view "
             "satisfies an invariant from which rows() and rows_mut() expose exactly height slices of w*bpp bytes at "
             "multiples of the pitch inside the data (also for empty views), cropping a rectangle inside the parent "
             "yields a view with the invariant whose row j byte i is the parent's row oy+j byte ox*bpp+i, and "
             "rectangles outside are rejected (incl. u32-overflowing sums). Tied to the code over boundary/PRNG "
             "geometry for both view kinds in release and overflow-checking builds.",
    "note": "Trusted: Lean kernel + propext/Classical.choice/Quot.sound; model View.lean; correspondence check and its "
            "generators; buffers above 4 KiB are covered by the theorem only (extreme pitch/size with small buffers "
            "reach the same arithmetic in the tie).",
    "profiles": ["release", "checked"],
    "level": "proof",
    "rule": "cases = new / new_with / new_with+cropped for the shared and the mutable view: buffer length 0..4200 "
            "(exact, off by one, arbitrary), row pitch from {bytes per row, +-1, boundary set up to usize::MAX, pitches "
            "with pitch*(h-1) near 2^64, random u64}, width/height in {0,1..9,..70,2^16+-1,2^31,2^32-1, u32 boundary "
            "set}, 12 colour formats, crop rectangles inside / touching / outside / empty / u32-overflowing; a case is "
            "non-trivial when a view is produced; distinct = distinct case lines",
    "assumptions": [
        "the implementation equals the model off the generated cases",
        "oracle = u128 recomputation of the acceptance condition and of every exposed row (pointer offsets relative "
        "to the buffer base) in harness/src/c20.rs",
    ],
    "trusted_base": ["model: View.lean (lib.rs ImageView/ImageViewMut new, new_with, rows, rows_mut, cropped); "
                     "get_row/get_row_range/cropped_data are crate-private and only modelled (exercised through decode in C05)"],
}


def nontrivial(case, result):
    return result.startswith("some")


def classify(case, result):
    t = case.split(" ")
    return f"{t[0]} {t[1]} {result.split(' ')[0]}"


def equal(a, b):
    """`some W H pitch len base rows`: the row pitch of a view with at most one row does not influence any row address;
    a one-row view may normalise it (empty views already do). The pitch token is ignored when H <= 1 and everything else
    agrees."""
    if a == b:
        return True
    ta, tb = a.split(" "), b.split(" ")
    if len(ta) == len(tb) and len(ta) >= 7 and ta[0] == tb[0] == "some" and ta[2] == tb[2] and ta[2] in ("0", "1"):
        return ta[:3] + ta[4:] == tb[:3] + tb[4:]
    return False
