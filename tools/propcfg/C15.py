"""check.py configuration of C15 (encoding is total)."""

# section M of Theorems/C15.lean (branch wM): the slicing / index arithmetic of the encoder loops
M_CLAIM = (
    "(6) the LOOP CODE of every encoder family does not panic: trapping mirrors (TrapEnc.lean, TrapEncBlk.lean, "
    "TrapEncSplit.lean - the loops written once more with Option-valued operators, none = panic in the checked "
    "profile: slice range, copy_from_slice of unequal lengths, chunks(0), split_at, expect, assert!/debug_assert!, "
    "usize/u32 overflow, division by zero, Vec capacity overflow) of for_each_chunk (contiguous and strided), "
    "copy_directly, uncompressed_untyped + simple_color_convert / BGR lines, uncompressed_universal, "
    "uncompressed_universal_dither (both error rows), uncompressed_universal_subsample + process_subsample (partial "
    "last block), for_each_f32_rgba_rows, bi_planar_universal (2x2 cells, plane buffers, progress divisor), "
    "block_universal + get_4x4_* (edge padding), SplitView::new/get, ImageView::is_contiguous/rows/cropped, "
    "encode_parallel (fragment buffers sized by surface_bytes) and EncoderSet::encode (pick_encoder expect, "
    "Encoder::encode assert) return `some` of exactly the write sizes of EncLen.lean (C10) - for EVERY view the "
    "public API can build (C20's invariant: w, h < 2^32 incl. 0x0, 1x1 and sizes not divisible by the block size; "
    "contiguous or strided with ANY pitch >= row bytes, e.g. isize::MAX for one row), all 12 input colours, all 57 "
    "encodable formats x 4 dithering options through C19's pinned encoder table (complete evaluation of "
    "pick_encoder), every quality, either alignment of RGBA-F32 input; the progress fraction never exceeds 1 "
    "(ProgressRange::project's debug_assert), every inner while loop terminates, and for every writer failing after "
    "k bytes Err(Io) iff k < surface_bytes (theorems chunk_loops_trapfree, dither_loop_trapfree, "
    "subsample_loop_trapfree, biplanar_loop_trapfree, block_rows_trapfree, split_view_trapfree, "
    "parallel_fragments_trapfree, encode_loops_trapfree). Buffer sizes and report cadences are read from the source "
    "on every run (SrcConsts.lean): a retuned buffer re-proves the theorems, an unsafe one (a staging buffer below "
    "one pixel, a block buffer below BUFFER_PIXELS / 2) fails loop_constants_ok. The mutated loops of seeds C15g / "
    "C12i / C10g, transcribed as variants, are `none` resp. differ from EncLen.lean (examples). "
)
M_NOTE = (
    " Section M additionally trusts: that the mirrors TrapEnc*.lean transcribe the loops (file:line cited; every "
    "operation that can panic is an Option operator) and Body.Matches (which loop an encoder of C19's table runs, "
    "read off the encoder lists); the views satisfy C20's invariant (proved for new / new_with / cropped in C20), a "
    "slice has at most isize::MAX bytes; the per-pixel / per-block functions are total (the quantiser theorems; the "
    "sampled float bodies); the progress assertion is stated on the integers (index <= count, count != 0) - that the "
    "f32 quotient of two monotonically rounded integers a <= b is <= 1.0 is a fact about IEEE division; allocation "
    "FAILURE (abort, not a panic) of the row-group buffers 16 * w * block_height bytes is outside the model."
)

Q_CLAIM = (
    "Encoder::write_surface_impl (section Q, TrapMip.lean): write_surface_trapfree - for every encoder state with "
    "C11's invariant (any layout, cursor, generation on/off), any cache state, any image of the public API (any "
    "size incl. a wrong one, address, pitch, colour, <= 2^62-16 bytes), filter, alpha setting, cancelled or not, the "
    "trapping mirror of encoder.rs:156-241 (current.mipmap_level + 1 on u8, saturating_sub, the progress sub-ranges "
    "level as i32 + 1 and from_to's debug_assert on 1 - 0.4^l over exact rationals, Vec::with_capacity, the "
    "look-ahead, MipmapCache::generate with C16's section Q behind it, the u8 counter level += 1) returns some of "
    "exactly Enc.write, so C11's history theorems hold in the trapping semantics. Seed C11b (mipmaps - 1) as a "
    "variant returns none (sizes[0] of an empty list) on the README's history. "
)
Q_NOTE = (
    " Section Q: see C16's note (assumed contract of the resize crate, allocator); binary32 rounding of powi in "
    "get_level_progress_range is outside the model (the assertion from <= to is proved for the exact values; 0.4^l is "
    "strictly decreasing by a factor far above rounding error until it underflows to 0, where from = to)."
)

CFG = {
    "claim": "Partial. PROVED about the model (EncTotal.lean), for all sizes, writer loops, fault offsets and all "
             "extended-real inputs: (1) size rule - over the table of all 73 formats the encoder refuses exactly the "
             "sizes EncodingSupport::supports_size refuses (NV12/P010/P016, multiples of 2x2), a refusal has written "
             "nothing and the check precedes every write in every trace; the 16 formats without encoders are refused "
             "with UnsupportedFormat; (2) a writer failing at byte k gives Err(Io) with exactly the k-byte prefix iff "
             "k < encoded length and Ok with exactly surface_bytes otherwise - for ALL write-size lists and "
             "instantiated with the writer loops of every family (C10); (3) every scalar quantiser of "
             "color/formats.rs (n1..n16, s8/s16 incl. the `norm + 1` overflow, xr10, yuv8/10/16, the 11/10-bit float "
             "packer) stays within its bit field for EVERY input incl. NaN and +-inf, so the "
             "packing shifts of B5G6R5, B5G5R5A1, B4G4R4A4, R10G10B10A2, XR_BIAS, Y410, R11G11B10 and P010 cannot "
             "overflow; (3b) at the BIT level, on binary32 bit patterns with a software binary32 and NO assumption on "
             "the rounding: rgb9995f::from_f32 (R9G9B9E5) for every triple of patterns (any NaN, +-inf, negatives, "
             "both zeros, subnormals, huge) trips none of its five debug_assert!s nor an i8 overflow, has r/g/b "
             "mantissas <= 511 and exponent <= 31 and returns exactly the 9+9+9+5 packing (first pass <= 512, second "
             "pass <= 256, exponent 31 <= 511 so exp never becomes 32; multiplication by two_powi proved exact in the "
             "normal range; the zero f32::max returns on a -0.0/+0.0 tie proved irrelevant); n1/n2/n4/n5/n6/n10::from_f32 and s8::from_uf32 stay <= MAX for every pattern and "
             "B5G6R5, B5G5R5A1, B4G4R4A4, A4B4G4R4, R10G10B10A2, R8G8B8A8_SNORM encode every pixel to exactly the "
             "field packing; (3c) s16::from_uf32, the one quantiser that computes in binary64 "
             "((x.min(1.0) as f64 * 65534.0 + 0.5) as u16), on binary32 bit patterns with a software binary64 "
             "(ConvF64.lean: exact widening, one correctly rounded multiplication and addition, saturating cast): for "
             "EVERY pattern norm + 1 does not overflow u16 and the code fits 16 bits; the binary64 evaluation is "
             "exact (24 x 16 bit product <= 40 bits, sum with 0.5 <= 53 bits, and below 2^-53 the rounded sum stays "
             "under 0.75 so the cast is 0 like the exact floor): norm = floor(clamp01(v)*65534 + 1/2), NaN and "
             "everything >= 1 incl. +inf give 65534, negatives, -0 and -inf give 0, hence the stored code is C12's "
             "Quant.sencode 16 of the value, within half a SNORM16 step of the clamped input; R16_SNORM, R16G16_SNORM, "
             "R16G16B16A16_SNORM encode every pixel to exactly the 16-bit field packing; (3d) the float -> integer sites of "
             "the block encoders (EncBcSites.lean: trapping mirrors on bit patterns, glam min/max/clamp = SSE2 "
             "minps/maxps): glam clamp(0,1) maps every pattern to [+0,1]; EndPoints::quantize / new_inter6 of bc4.rs "
             "(UNORM and SNORM) for EVERY pair of patterns - no u8 underflow of 255-x / 254-x / min-=1, "
             "debug_assert!(min < max), both s8::from_norm assertions and c0 != c1 hold (floor(K x)+floor(K (1-x)) <= K "
             "by monotone x antitone + 256 checked cut points); new_closest on [0,1]; reference_brute_force bounds; "
             "INDEX_MAP[blend7]; R5G6B5Color::round/floor/ceil (<32/<64/<32) and the u8 arithmetic of optimal_channel; "
             "bc7 channel_round/floor/ceil::<4..8> (<= MAX, guarded +-1) for every pattern. NOT proved: assertions on "
             "float values (Inter6Palette::new c0 != c1, best_error.is_finite(), best_c0 <= best_c1); "
             "(4) the only data-dependent loop of the block encoders (bcn_util::refine_endpoints) runs at "
             "most max_iter <= 10 times at every quality, whatever the float comparison does; (5) empty images give "
             "Ok and zero bytes in every family (incl. the repaired bi-planar path) even with a writer that accepts "
             "nothing. " + M_CLAIM + Q_CLAIM +
             "EXPLORED, not proved: panic- and hang-freedom of the float bodies of the BC1/BC4/BC7 block "
             "encoders, the float arithmetic of the error diffusion and the pixel readers - dds::encode and Encoder::write_surface run under "
             "catch_unwind + a 20 s watchdog in both build profiles over 73 formats x sizes 0..40 x NaN/inf/huge/"
             "subnormal/negative/random-bit content x 12 colours x quality x dithering x metric x parallel x "
             "writer fault offsets.",
    "note": "Trusted: Lean kernel + propext/Classical.choice/Quot.sound; the hand-written model EncTotal.lean (format "
            "table, trace shape, quantiser shapes read from src/color/formats.rs) and EncLen.lean; the correspondence "
            "check (harness FaultWriter, watchdog, driver, diff) and its generator; agreement of code and model off "
            "the generated cases; for the abstract (extended-real) quantiser theorems binary32/binary64 rounding "
            "being monotone and exact on the integers and half-integers named there - discharged for every binary32 "
            "quantiser by the bit-level theorems (quantiser_range_shared_exp, quantiser_range_unorm_bits, "
            "packed_formats_fit_bits) and for the binary64 quantiser s16::from_uf32 by quantiser_range_snorm16_bits / "
            "s16_from_uf32_exact (no float quantiser of formats.rs is left with a rounding hypothesis); for the "
            "bit-level theorems that the compiled code evaluates f32 `*`, `+`, `min`, `max`, `as uN`, `as f64` and f64 "
            "`*`, `+`, `as u16` as IEEE-754 binary32 / binary64 operations (ConvF32.lean, ConvF64.lean; no FMA "
            "contraction, no flush-to-zero, no excess precision), which the S/U/W cases compare on bit patterns; "
            "std's write_all contract." + M_NOTE + Q_NOTE,
    "profiles": ["release", "checked"],
    "level": "proof",
    "explanation": "level=proof refers to the modelled part (size rule, writer faults, quantiser ranges, loop bounds, "
                   "empty images: theorems over all inputs). The property's 'never panics or hangs' clause for the "
                   "unmodelled float code of the BC encoders is decided by exploration only: every generated case is "
                   "executed on the real library under catch_unwind with a watchdog thread, in the release and in "
                   "the overflow-checking/debug-assertion profile; the counters are evaluations / class_histogram. "
                   "Any panic, hang, wrong length, write-before-refusal, swallowed writer error or content-dependent "
                   "result is an oracle failure with a replayable case line.",
    "rule": "cases = (a) empty images into NV12/P010/P016 through both API paths; (b) every format x size grid "
            "(quick: {0..17,23,24,31,32,33,39,40}^2, thorough: {0..40}^2 three times; 5^2 for the 16 formats without encoder) with random "
            "colour (12), row pitch (+0/+1/+7), content class, dithering, metric, parallel, API path "
            "(dds::encode | Encoder::new_image+write_surface+finish) and in 1 of 6 a fault offset; (c) per encodable "
            "format 5 sizes x fault offsets {0,1,len/2,len-1,len,len+1} and EVERY offset 0..len+1 when len <= 64 "
            "(thorough 400); (d) per encodable format x 14 content classes (ord, NaN, +inf, -inf, -0, +-1e30, "
            "subnormal, 65504, >1, <0, mix, random bits, NaN alpha, one special pixel) x 4 f32 colours x 2 sizes, and "
            "U8/U16 inputs all-0 / all-max / random; (e) the 12 block formats at Normal/High (4x4, 9x6) and "
            "Unreasonable (<= 8x4) on every content class, and 4 sizes that the parallel encoder splits, with "
            "faults; (f) Q cases: 1x1 RGBA f32 pixels of special values through 14 packed formats, the encoded "
            "word compared with the quantiser models; (f2) S cases: bit patterns of a 1x1 pixel into R9G9B9E5 against "
            "the bit-level model of rgb9995f::from_f32 - 12^3 + 2*30^2 special triples, every exponent field "
            "96..144 x 15 boundary fractions x 10 partner channels, 12 000 (thorough 400 000) biased PRNG triples; "
            "(f3) U cases: bit patterns into 6 packed UNORM/SNORM8 formats against the bit-level quantisers - 28 "
            "specials, the rounding boundary (k+0.5)/MAX +-2 ulp of every code k, 2 500 (thorough 60 000) PRNG "
            "pixels per format; (f4) W cases: bit patterns into R16_SNORM, R16G16_SNORM, R16G16B16A16_SNORM against "
            "the binary64 model of s16::from_uf32 - 60 specials (NaN payloads of both signs, +-inf, zeros, subnormals, "
            "+-1 and +-0.5 +-2 ulp, the exact ties 0.25/0.75 +-1 ulp, 2^-53 region), every exponent field x 6 fractions (both signs), the rounding "
            "boundary (k+0.5)/65534 +-2 ulp of ~670 codes k (first/last 40, powers of two, every 131st; thorough: every "
            "17th and every code once), 2 500 (thorough 60 000) PRNG pixels per format; "
            "(h) the 12 block formats x {flat: one boundary colour per image (k/31, k/63, k/255, k/254, k/15, k/127 +-3 ulp, "
            "1.0, +-0.0), close2: two values closer than one code, edge: 1.0/-0.0/+0.0/NaN/min-subnormal/boundary "
            "values mixed} x 4 qualities x 4 f32 colours x 5 (thorough 40) seeds; "
            "(g) PRNG over the whole quantifier. Every f32 case with "
            "non-ordinary content is run a second time with ordinary content and must give the same kind and "
            "length. non-trivial = result ok / err Io / px (bytes produced or a fault propagated); distinct = "
            "distinct case lines.",
    "assumptions": [
        "the implementation equals the model off the generated cases",
        "panic/hang-freedom of the unmodelled float code (BC1/BC4/BC7 block encoders, dithering, pixel readers, glam, "
        "rayon) holds beyond the explored cases",
        "oracle in harness/src/c15.rs evaluates the property clauses on the implementation alone (encoded length "
        "from PixelInfo::surface_bytes, support from Format::encoding_support / supports_size)",
        "a call that needs more than 20 s for an image of at most 40x40 pixels counts as a hang",
    ],
    "trusted_base": ["models: lean/DdsModel/DdsModel/EncTotal.lean (encode/mod.rs get_encoders, supports_size; "
                     "encoder.rs size multiple; bi_planar.rs size check; color/formats.rs from_f32 quantisers; "
                     "bcn_util.rs refine_endpoints loop; bc.rs max_iter tables; namespaces SharedExp and QuantBits: "
                     "rgb9995f::from_f32, util::clamp_0_max, util::two_powi, n1..n10::from_f32, s8::from_uf32 and six "
                     "universal! closures of uncompressed.rs on bit patterns), EncTotal64.lean (s16::from_uf32 on bit "
                     "patterns, R16/R16G16/R16G16B16A16_SNORM packing), ConvF32.lean (software binary32), ConvF64.lean "
                     "(software binary64: widening, *, +, as u16), "
                     "EncLen.lean (writer loops); not "
                     "modelled: float bodies of bc1.rs/bc4.rs/bc7.rs/bcn_util.rs, dithering, pixel readers"],
}


def nontrivial(c, r):
    return r.startswith("ok ") or r.startswith("err Io") or r.startswith("px ")


def _f32_class(b):
    """class of a binary32 pattern with respect to s16::from_uf32 (first channel of a W case)"""
    e, f, neg = (b >> 23) & 0xFF, b & 0x7FFFFF, b >> 31
    if e == 255:
        return "nan" if f else ("-inf" if neg else "+inf")
    if e == 0 and f == 0:
        return "-0" if neg else "+0"
    if neg:
        return "negative"
    if e == 0:
        return "subnormal"
    if b < 0x24800000:
        return "below 2^-53 (rounded sum)"
    if b < 0x3F800000:
        return "(0,1)"
    return "1.0" if b == 0x3F800000 else "above 1"


def classify(c, r):
    t = c.split()
    res = " ".join(r.split(" ")[:-1]) if r.split(" ")[0] in ("ok", "err") else r.split(" ")[0]
    if t[0] == "Q":
        return f"Q {res}"
    if t[0] == "W":
        return f"W {_f32_class(int(t[2]))} -> {res}"
    if t[0] == "T":
        return f"T {t[1]} {_f32_class(int(t[2]))} -> {r.split(' ')[0]}"
    try:
        fam = ("bc" if t[2].startswith("BC") and not t[2].startswith("BC6") else
               "noenc" if t[2].startswith("ASTC") or t[2].startswith("BC6") else
               "biplanar" if t[2] in ("NV12", "P010", "P016") else "uncompressed")
        w, h = int(t[3]), int(t[4])
        size = "empty" if w == 0 or h == 0 else "1x1" if (w, h) == (1, 1) else \
            "even" if w % 2 == 0 and h % 2 == 0 else "odd"
        f32 = int(t[5]) >= 8
        if f32 and t[7] not in ("ord", "zero", "max"):
            q = "" if t[9] == "fast" or fam != "bc" else " slowq"
            return f"{'bc' if fam == 'bc' else 'other'} f32:{t[7]}{q} -> {res}"
        return f"{fam} {size} -> {res}"
    except Exception:
        return f"{t[0]} {res}"


def equal(a, b, case=None):
    """`Q` cases push one pixel of special float values through a quantiser and compare the packed pixel with the
    model. Which in-range code a NaN channel becomes (0 or the maximum) is a side effect of how the clamp is spelled
    (`min(1.0)` vs `clamp(0,1)`); C15 promises no panic and the exact length, not the content for NaN. For Q cases with a
    NaN channel only 'a pixel was produced' is compared; every other case is compared exactly."""
    if a == b:
        return True
    # `T` cases: a is the implementation, b the model; `search` = the encoder left the modelled early-return path
    # (palette / candidate search, float bodies): the model makes no prediction, only panics/hangs are judged
    if case and case.startswith("T ") and b == "search":
        return a.split(" ")[0] in ("blk", "ends")
    # BC4 outside the early return: the model predicts the two endpoint bytes (`EndPoints::new_inter6(value, value)`),
    # not their order (inter6 / inter4, chosen by a float error comparison) nor the indexes
    if case and case.startswith("T ") and b.startswith("pair "):
        t = a.split(" ")
        return t[0] == "blk" and len(t) == 9 and sorted(map(int, t[1:3])) == sorted(map(int, b.split(" ")[1:3]))
    if case and case.startswith("Q ") and "nan" in case.split(" ")[2:]:
        return a.split(" ")[0] == b.split(" ")[0] == "px"
    # the same for the cases that give the pixel by binary32 bit patterns (`U`, `W`): with a NaN channel only 'a pixel
    # was produced' is compared (harmless change C15hc: NaN quantised to 0 instead of to the maximum)
    if case and case.split(" ")[0] in ("U", "W"):
        def is_nan(t):
            try:
                v = int(t)
            except ValueError:
                return False
            return (v >> 23) & 0xFF == 0xFF and v & 0x7FFFFF != 0
        if any(is_nan(t) for t in case.split(" ")[2:]):
            return a.split(" ")[0] == b.split(" ")[0]
    return False
