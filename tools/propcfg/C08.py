"""check.py configuration of C08."""

CFG = {
    "claim": "Proof: the models of both surface iterators (iter.rs) and of every Decoder call (decoder.rs, over an "
             "ideal fault-free reader with decode/decode_rect represented by their stream contract) refine a cursor "
             "into C02's flattened surface list: advance = min(k+1,N), rewind = k-1, skip_mipmaps jumps to the next "
             "level-0 object / errors inside a volume, elapsed_bytes = layout offset of the cursor; by induction over "
             "ARBITRARY operation lists the reader position equals that offset, no call panics or wraps, rejected "
             "calls change nothing, the end position is the data length, and the cube-map cells are disjoint. "
             "Tied to the code by exhaustive depth-3 (thorough: 5) and random depth-40 call sequences on the real "
             "Decoder in release and overflow-checking builds.",
    "note": "Trusted: Lean kernel + propext/Classical.choice/Quot.sound; models Iter.lean/Decoder.lean/Layout.lean; the "
            "stream contract of decode/decode_rect (C06) is assumed inside the model; I/O faults are out of scope "
            "here; data sections above i64::MAX bytes are excluded by hypothesis (documented expect in the rewind "
            "calls); correspondence check and its generators.",
    "profiles": ["release", "checked"],
    "level": "proof",
    "rule": "cases = operation sequences over {read, rect-read, skip-surface, skip-mipmaps, rewind-previous, "
            "rewind-start, cube-map read}: exhaustive trees of valid-parameter calls to depth 3 (thorough 5) on 21 "
            "layouts (texture 1/3/full mips, arrays 0/1/3, 1D, cube, cube array, volume 1/3/4 mips) and depth 2 on all "
            "64 DX9 face sets, plus random sequences of length 4..40 including wrong-size, out-of-bounds, empty-rect "
            "and wrong cube size calls; formats R8, BC1, NV12, R8G8_B8G8, RGBA8, BC3; non-trivial = at least one call "
            "succeeded; distinct = distinct case lines",
    "assumptions": [
        "the implementation equals the model off the generated sequences",
        "oracle = an independent spec cursor over the flattened list in harness/src/c08.rs + content checks "
        "(read data equals a stand-alone decode of the surface's own bytes; cube cells hold their faces, other cells "
        "untouched)",
    ],
    "trusted_base": ["models: Iter.lean (iter.rs verbatim), Decoder.lean (decoder.rs calls), Layout.lean"],
}


def nontrivial(case, result):
    return "| ok " in result


def classify(case, result):
    t = case.split(" ")
    kind = t[1].split(":")[0] + (":cube" if t[1].startswith("x:1") else "")
    if t[1].startswith("n:"):
        c = int(t[1][2:])
        kind = "dx9-cube" if c & 0x200 else ("dx9-vol" if c & 0x200000 else "dx9-tex")
    return f"{kind} {t[7]} len={min(len(t) - 8, 8)}"


def equal(a, b):
    """A cube-map read past the end with a wrong-size buffer falls under two clauses of C08 (no-more-surfaces past the
    end; wrong-size buffers rejected without moving) whose precedence the statement leaves open. The model reports what
    the code reports today. Tolerated per call: `NoMoreSurfaces` on one side where the other says
    `UnexpectedSurfaceSize`, with the identical state after the call (which must be the `done` state)."""
    if a == b:
        return True
    pa, pb = a.split(" | "), b.split(" | ")
    if len(pa) != len(pb):
        return False
    for x, y in zip(pa, pb):
        if x == y:
            continue
        tx, ty = x.split(" ", 1), y.split(" ", 1)
        if len(tx) == 2 and len(ty) == 2 and tx[1] == ty[1] and tx[1].startswith("- done") \
                and {tx[0], ty[0]} == {"NoMoreSurfaces", "UnexpectedSurfaceSize"}:
            continue
        return False
    return True
