"""check.py configuration of C11."""

CFG = {
    "claim": "Proof: the model of Encoder::write_surface_impl / finish / mipmaps.generate (encoder.rs, after repair F13) "
             "keeps, after ANY sequence of calls (induction over the call list), the invariant 'data bytes written = "
             "layout offset of the surface reported as next' (offsets and cursor as in C02/C08), never panics, "
             "rejected calls (wrong size, too many surfaces, pre-cancelled, unsupported size) return the state "
             "unchanged, an accepted write moves the cursor forward by one surface (exactly one without generation or on "
             "a volume), finish succeeds iff the cursor is at the end, volumes never generate, and a finished file has "
             "exactly the layout's data length. Tied to the real Encoder by exhaustive depth-4 (thorough 6) and random "
             "call sequences in release and overflow-checking builds.",
    "note": "Trusted: Lean kernel + propext/Classical.choice/Quot.sound; models Encoder.lean/Iter.lean/Layout.lean; "
            "inside the model `encode` is represented by its contract (rejects pre-cancelled calls and unsupported "
            "sizes before writing, otherwise writes exactly the encoded length: C10/C15); writer faults and "
            "cancellation in the middle of a surface leave the file inconsistent by documentation and are outside "
            "the property; correspondence check and generators.",
    "profiles": ["release", "checked"],
    "level": "proof",
    "rule": "cases = call sequences over {write correct size, write wrong size, write with a cancelled token, "
            "generate off, generate on} ending in finish: exhaustive trees to depth 4 (thorough 6) on 16 layouts "
            "(texture +-mips incl. non-power-of-two, arrays 0/2/3, cube +-mips, partial cube, volumes +-mips, DX9 "
            "volume) x formats RGBA8, BC1, R8G8_B8G8, NV12 (size multiple 2x2: generated odd mip levels fail), R8, "
            "BC4, P010, plus random sequences of length 3..30 with further wrong-size variants; non-trivial = at "
            "least one accepted write; distinct = distinct case lines",
    "assumptions": [
        "the implementation equals the model off the generated sequences",
        "oracle = independent specification cursor + byte count in harness/src/c11.rs; finished files are re-opened "
        "with Decoder and header/layout compared",
    ],
    "trusted_base": ["models: Encoder.lean (encoder.rs write_surface_impl, finish), Iter.lean, Layout.lean"],
}


def nontrivial(case, result):
    return "| ok " in result and " w:" in case


def classify(case, result):
    t = case.split(" ")
    kind = t[1].split(":")[0]
    if t[1].startswith("x:"):
        p = t[1].split(":")
        kind = "cube" if p[1] == "1" else ("vol" if p[2] == "3" else ("arr" if p[3] != "1" else "tex"))
    elif t[1].startswith("n:"):
        c = int(t[1][2:])
        kind = "dx9-cube" if c & 0x200 else ("dx9-vol" if c & 0x200000 else "dx9-tex")
    return f"{kind} mips={t[5]} {t[7]}"


_REJ = {"Cancelled", "TooManySurfaces", "UnexpectedSurfaceSize", "InvalidSize"}


def equal(a, b):
    """The property names the grounds for rejection but not which one is reported when several apply to one call
    (a pre-cancelled write that is also out of order or of the wrong size). The model reports what the code reports
    today; a different precedence is not a violation. Tolerated therefore, per call: `Cancelled` on one side where the
    other side names another rejection, with the same encoder state after the call. The oracle accepts only grounds
    that do apply, so a wrong variant for a call with a single ground is still reported."""
    if a == b:
        return True
    pa, pb = a.split(" | "), b.split(" | ")
    if len(pa) != len(pb):
        return False
    for x, y in zip(pa, pb):
        if x == y:
            continue
        tx, ty = x.split(" ", 1), y.split(" ", 1)
        if len(tx) == 2 and len(ty) == 2 and tx[1] == ty[1] and tx[0] in _REJ and ty[0] in _REJ \
                and "Cancelled" in (tx[0], ty[0]):
            continue
        return False
    return True
