"""check.py configuration of C16."""

Q_CLAIM = (
    " Buffer handling (section Q, TrapMip.lean): trapping mirrors (Option, none = panic in the overflow-checking "
    "profile) of MipmapCache::generate / generate_from_source (rayon and sequential) / _previous / _previous_two "
    "(sizes[0], sizes[1], &sizes[1..], &sizes[2..], the len == 1 return, the decreasing-sizes debug_assert) and of "
    "get_aligned_slice, Aligner::align (three branches, row copies), AlignedView::new / as_image_view, "
    "AlignedBuffer::new / as_view, ResizeState::resize, resize, resize_into, resize_typed (zerocopy from_bytes: "
    "aligned address, length a multiple of the pixel; Resizer::new / resize preconditions). mip_cache_trapfree: for "
    "every allocator returning 4-aligned storage, with and without rayon, every SEQUENCE of generating calls "
    "through one cache (buffers reused), every view with C20's invariant and non-empty size at ANY address and "
    "pitch, all 12 colours, every filter, both alpha settings, every non-empty non-increasing size list - in "
    "particular every mip chain started at any level with any number of further levels, also beyond 1x1 - with "
    "pixel buffers up to 2^62-16 bytes: the mirror returns some, the emitted (size, source image) pairs are exactly "
    "Mip.plan, every resize call meets the crate's preconditions, get_aligned_slice returns exactly the requested "
    "length at a 4-aligned address for any previous buffer state (len <= capacity), no straight-alpha to_value takes "
    "the reciprocal of zero. aligned_view_independent: the w*h*bpp bytes handed to the resizer are the image rows "
    "back to back whatever the address, pitch, branch and previous buffer contents. The mutated code of seeds C16a "
    "(split_at(2)), C16d (capacity() for len()) transcribed as variants returns none on the README inputs; C16f's "
    "division is recipT 0 = none."
)
Q_NOTE = (
    " Section Q additionally trusts: that TrapMip.lean transcribes the code (file:line cited); the ASSUMED contract "
    "of the resize crate 0.8.9 (Resizer::new is Err iff a size is 0; resize is Err iff src.len() < w1*h1 or "
    "dst.len() != w2*h2; neither panics; read from its lib.rs, not proved); Vec<u32> storage is 4-aligned and grows "
    "by max(2*cap, n, 4) with a capacity-overflow panic beyond isize::MAX bytes; allocation FAILURE (incl. the "
    "crate's try_reserve -> Err -> expect) is outside the model; the bound 2^62-16 bytes per pixel buffer."
)

CFG = {
    "claim": "Proof: in the model of Encoder::write_surface_impl / MipmapCache::generate (encoder.rs, after repair F13) and "
             "resize.rs, for every size, filter and alpha setting the look-ahead gathers exactly the declared levels "
             "1..mips-1 with sizes max(1,dim>>level) and every strategy emits exactly these, in order, each resized from "
             "an earlier image (strategy = from-previous / from-previous-two only if the filter is not Nearest and every "
             "size including the source is a power of two); assuming the external resizer outputs normalised weighted "
             "sums (non-negative for Point/Box/Triangle), over exact rationals and through the code's `(acc+0.5) as T` "
             "rounding and its straight-alpha wrapper: every output value of every level lies in [min,max] of its source "
             "channel (no drift along chains of rounded levels), a constant image gives constant levels of exactly that "
             "colour (alpha > 0; all-zero pixels when straight alpha is on and alpha = 0), full opacity is preserved "
             "exactly, channels are functions of their own channel when straight-alpha handling is off, and a "
             "straight-alpha colour is the convex combination with weights w_i a_i / sum w_j a_j. Tied to the real "
             "Encoder + Decoder over lossless targets of each precision in release and overflow/debug-assertion builds." + Q_CLAIM,
    "note": "Trusted: Lean kernel + propext/Classical.choice/Quot.sound; models Mip.lean, Encoder.lean, Iter.lean, "
            "Layout.lean; ASSUMED (validated by the oracle on every run, not proved): the resize crate's Point, Box(1.0) "
            "and Triangle kernels are convex (weights >= 0, sum 1) and all five are normalised; binary32 rounding inside "
            "the resizer is not modelled (theorems are over Rat; the oracle allows the property's one output unit for "
            "integers and a relative 2^-13 for f32 data, see notes/C16.md); Aligner::align is modelled as the identity on "
            "pixel values and checked by comparing aligned / offset / strided inputs byte for byte (section Q proves the byte identity in the model: aligned_view_independent)." + Q_NOTE,
    "profiles": ["release", "checked"],
    "level": "proof",
    "rule": "cases = (A2) very long rows / columns (997x1 ... 4096x1, 2047x2) with boundary constants and opaque content for "
            "every precision and filter; (A3) `S` sequences: six cube-map faces in changing colour formats through ONE "
            "encoder, aligned vs unaligned / strided input of the same pixels (file bytes must be equal; harness oracle "
            "only, the model answers `seq ok`); (A4) `P` cases: single RGBA8 image, levels 0..k-1 by hand, generation on at "
            "level k; (A5) `M ... m:<levels>`: the header declares fewer levels than the full chain or MORE (1..255; every "
            "level past 1x1 is 1x1 again, generated from a 1x1 image) for 12 colour formats x 5 filters x straight alpha "
            "on/off, constant / opaque / other content, sizes 1x1, 2x1, 4x4, 16x2, ... and the pools; (A6) `T` cases: whole "
            "files through ONE encoder — single texture, cube map (6 faces), texture arrays of 2..7 elements, declared "
            "level count short / full / surplus, every colour format and filter, the chain of every element started at "
            "its own level (all from level 0; the FIRST generation of the encoder in the middle of element 0's chain and "
            "later elements from level 0; the reverse; arbitrary), every written image with its own content and memory "
            "layout: calls and finish succeed, exact file length, declared size of every level of every element after "
            "re-opening, hand-written levels read back, generated levels satisfy the constant / opaque / range clauses; "
            "the model answers the bytes written by each generating call, the total and done; (A) 12 colour formats x 5 filters x straight alpha on/off x 5 memory layouts (4-aligned, buffer "
            "offset 1/2/3, strided with odd/even extra pitch) x 5 contents (constant colour incl. alpha 0/1/max, opaque "
            "noise, per-channel bands, transparent/opaque holes, noise) on sizes drawn from the pool; (B) every size of "
            "1..12 x 1..12, a sample (thorough: all) of 1..40 x 1..40, all powers of two up to 256 x 256, extreme aspect "
            "ratios (1x256, 256x1, 3x200, 257x1, ...) and sources that are not powers of two although all their "
            "mipmaps are (3,5,9,17,33,65,129), each with random configurations; a case is non-trivial when at least "
            "one level is generated; distinct = distinct case lines",
    "assumptions": [
        "the implementation equals the model off the generated cases",
        "oracle in harness/src/c16.rs: exact level list and file length; constant/opaque exact (f32: relative 2^-13); "
        "range within one unit (f32: relative 2^-13) for Nearest/Box/Triangle; second run with one channel replaced; "
        "second run from an aligned contiguous copy; all on decoded levels, independent of the model",
        "the `plan` component (which earlier image every level was resized from) is observed by re-running the resize "
        "crate on the decoded levels and demanding bit equality; the model's index must be in the observed set",
    ],
    "trusted_base": ["models: Mip.lean (encoder.rs write_surface_impl look-ahead, MipmapCache::generate*, resize.rs "
                     "resize_into / Pixel / StraightAlpha), Encoder.lean, Iter.lean, Layout.lean; external resize "
                     "0.8.9 and glam Vec4 arithmetic are parameters of the model"],
}


def _split(r):
    return dict(t.split("=", 1) for t in r.split(" ")[1:] if "=" in t)


def equal(a, b):
    """a = implementation, b = model. Everything must be textually equal except `plan`: the implementation
    prints, per level, the set of earlier images that reproduce the level bit for bit (`*` = not observable),
    the model prints the one index its plan prescribes, which must be a member."""
    if a == b:
        return True
    if not (a.startswith("ok ") and b.startswith("ok ")):
        return False
    A, B = _split(a), _split(b)
    if set(A) != set(B):
        return False
    for k in A:
        if k == "const" and B[k] == "?":
            continue  # the model makes no prediction (see Drv/C16.lean: more taps than binary32 carries exactly)
        if k != "plan" and A[k] != B[k]:
            return False
    pa, pb = A.get("plan", ""), B.get("plan", "")
    if pa == pb:
        return True
    la, lb = pa.split(","), pb.split(",")
    if len(la) != len(lb):
        return False
    for x, y in zip(la, lb):
        if x == "*":
            continue
        if y not in x.split("|"):
            return False
    return True


def nontrivial(case, result):
    return result.startswith("ok ") and not result.startswith("ok n=1 ")


def classify(case, result):
    t = case.split(" ")
    if t[0] in ("S", "P"):
        return {"S": "S six faces, one encoder", "P": "P chain started in the middle"}[t[0]]
    if t[0] == "T" and len(t) == 11:
        # whole files: layout kind x declared level count vs the full chain x where the FIRST generation starts
        full = max(int(t[2]), int(t[3])).bit_length()
        m = int(t[4])
        starts = t[9].split(",")
        kind = "texture" if t[1] == "t" else "cube" if t[1] == "c" else "array"
        dec = "short" if m < full else "full" if m == full else "surplus"
        st = "top" if all(k == "0" for k in starts) else "first-mid" if starts[0] != "0" else "later-mid"
        return f"T {kind} {dec} {st}"
    if len(t) < 10 or t[0] != "M":
        return "bad"
    w, h = int(t[1]), int(t[2])

    def p2(x):
        return x & (x - 1) == 0

    if p2(w) and p2(h):
        sz = "pow2"
    elif all(p2(max(1, w >> l)) and p2(max(1, h >> l)) for l in range(1, 12)):
        sz = "mips-pow2-only"
    elif max(w, h) >= 8 * min(w, h) and max(w, h) > 40:
        sz = "extreme"
    elif w <= 12 and h <= 12:
        sz = "1..12"
    elif w <= 40 and h <= 40:
        sz = "13..40"
    else:
        sz = "large"
    # 6 size classes x 5 filters x straight alpha on/off = 60 classes (check.py keeps the 60 largest);
    # colour format, memory layout and content are swept as a full product by generator part (A)
    if len(t) == 11:
        # declared level count other than the full chain
        m = int(t[10][2:])
        full = max(w, h).bit_length()
        return f"M declared {'short' if m < full else 'full' if m == full else 'surplus'}"
    return f"{sz} {t[5]} sa={t[6]}"
