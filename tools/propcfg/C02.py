"""check.py configuration of C02."""

CFG = {
    "claim": "Proof: for every u32 width/height/depth/array size, mip count and pixel-info shape the model of "
             "layout.rs/pixel.rs yields surfaces that start at 0, are contiguous, have size max(1,dim>>level) and the "
             "formula length, sum to the reported total < 2^64, with indexed access equal to iteration and rejection "
             "exactly when the ideal total does not fit (15 theorems, no bound on sizes). The model is tied to the "
             "code by a differential run over boundary/PRNG headers in release and overflow-checking builds.",
    "note": "Trusted: Lean kernel + propext/Classical.choice/Quot.sound; the hand-written model Layout.lean; "
            "the correspondence check (harness, driver, diff) and its generators; agreement of code and model off "
            "the generated cases.",
    "profiles": ["release", "checked"],
    "level": "proof",
    "rule": "cases = every pixel-info shape x every resource kind (incl. all 64 DX9 face sets) on small boundary "
            "dims, then PRNG cases over the u32 boundary set {0,1,..,2^k-1,2^k,2^k+1,..,2^32-1} for width/height/"
            "depth/array size and mip counts 1..255 (+256, 2^32-1); a case is non-trivial when a layout is "
            "produced (result starts with ok); distinct = distinct case lines",
    "assumptions": [
        "the implementation equals the model off the generated cases",
        "u128 oracle in harness/src/c02.rs recomputes sizes/offsets independently of both",
    ],
    "trusted_base": ["model: lean/DdsModel/DdsModel/Layout.lean (pixel.rs surface_bytes, util.rs get_mipmap_size, "
                     "layout.rs in full); not modelled: Header -> (width,height,depth,mips,caps2/dx10 fields) "
                     "projection is taken from the public Header struct fields"],
}


def equal(a, b):
    """C02 promises that a header whose total does not fit (or that is otherwise not a layout) is rejected "with an
    error" — not WHICH error a header gets that is invalid in two ways at once (too many mipmaps and an array that is
    too large). Two different error names are therefore equal; everything else is compared exactly."""
    return a == b or (a.startswith("err ") and b.startswith("err "))
