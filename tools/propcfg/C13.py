"""check.py configuration of C13 (BC encoding keeps representable content, emits portable blocks) - PARTIAL."""

CFG = {
    "claim": "PARTIAL (exploration with a verified oracle + proofs of the discrete encoder logic). Proved in Lean for "
             "ALL inputs: EndPoints::new_p4 returns colour0 > colour1 for every valid 5:6:5 pair incl. both "
             "tie-breaking branches (new_p3_default: colour0 <= colour1); get_bc3_options (no_p3_default) forces "
             "compress_p4 for BC2/BC3/premultiplied/RXGB/BC3n at every quality and alpha; AlphaMap bit i <=> alpha_i "
             ">= 128 (alpha/255 >= 1/2, one half itself opaque) and the resulting palette-mode choice of BC1; BC4 "
             "endpoint order <=> interpolation mode; blocks meeting the emitted-block predicate Portable decode "
             "identically under the three-colour-capable and the always-four-colour decoder, and a BC1 decoder that "
             "deviates on index 3 of three-colour mode agrees on every pixel outside the transparent mask "
             "(over the C03 decoder models); representability floors (zero error for palette members; every grey "
             "level within 1 of a four-colour palette entry; every 8-bit value a BC4 endpoint); the oracle's "
             "quantisation step bounds = largest gap of adjacent decoded endpoint levels; the fully discrete "
             "single-colour paths decode exactly: BC7 compress_single_color for ALL 2^32 colours as whole blocks "
             "(mode-5 bit-field layout: the block is the sum of its ten fields and every positional read returns the "
             "value written; then decode = 16 x (r,g,b,a) through Bc7.decodeBlock = Bc7Spec.decodeBlock of C03x), "
             "BC4-type UNORM, BC3 alpha under any colour block (all 256 values), the SNORM closest branch (all 255 "
             "levels, BC4S and BC5S; which inputs take it is decided in f32: of the 8-bit values exactly 0 and 255, "
             "proved over the binary32 model), BC2 4-bit alpha of a constant-alpha block (17*round(a/17), within 8 of a, "
             "255 stays 255; the same per pixel for blocks of varying alpha, Proofs/Enc13Tie.bc2_alpha_block), 5:6:5 corner "
             "colours. BC7 opacity, decoder side for EVERY block: modes 0-3 decode alpha 255 at every pixel; in any "
             "mode a pixel is opaque when both fully decoded endpoints of its subset are 255 in the channel the "
             "rotation field routes to alpha; a stored alpha endpoint is 255 iff its raw field is all ones and (modes "
             "6, 7) its p-bit is 1. BC7 opacity, encoder side, discrete control flow only (every f32 result is a "
             "parameter): an opaque block is tried exactly in the allowed modes among 0-6, never mode 7, at every "
             "preset; compress_rgba writes p-bits (1,1) for an opaque subset whatever the search returns; the "
             "exactness guard of constant alpha in modes 4/5 yields endpoints that promote to exactly a. NOT proved "
             "(float-dependent, explored by the opaque-lost oracle): that the alpha endpoint FIELDS of modes 4-7 are "
             "all ones for opaque multi-colour blocks (Quantization::pick_best, channel_round, rotated modes 4/5). "
             "The discrete core of the BC7 encoder (Enc7.lean: Compressed::mode0..7 with BitStream, IndexList::compress_p1/"
             "p2/p3, ensure_msb_zero, compress_single_index, merge2/3; the encoder's own promote / p_promote / interpolate "
             "and weight tables; closest_rgb / closest_rgba / closest_alpha; Rotation::apply; BlockStats) is modelled and "
             "proved for ALL inputs: bc7_writer_roundtrip - for every mode 0..7, every partition / rotation / index "
             "selector, every endpoint tuple that fits the mode's bit widths, every p-bit choice and EVERY index list "
             "(anchors not assumed normalised) the proved decoder (implementation-shaped and specification, C03x) applied "
             "to the written block returns at each of the 16 pixels exactly interpolate(p_promote(e0), p_promote(e1), "
             "index_i) over the subset of pixel i with rotation applied, i.e. the anchor fix-up (swap endpoints and "
             "per-endpoint p-bits, invert the subset's indexes, drop the anchor's top bit) is invisible after decoding, "
             "symbolically in every field (no _partial); bc7_encoder_palette_eq_decoder - the encoder's palette arithmetic "
             "equals the decoder's for all arguments and the specification's on in-range ones, and is symmetric under "
             "(swap endpoints, invert index); bc7_closest_is_argmin - closest_* is an exhaustive search with strict '<': "
             "the first palette entry of least squared distance per pixel, error = sum of the chosen distances <= "
             "16*4*255^2 < 2^32; bc7_mode6_keeps_palette_content - 16 pixels that are entries of a mode-6 palette (e.g. "
             "the two promoted endpoints) decode exactly after writer o closest; bc7_writer_opaque - alpha endpoints that "
             "are all ones (with p-bits 1) give alpha 255 at every pixel; bc7_block_stats_opaque - BlockStats::opaque() "
             "iff every alpha is 255. "
             "The discrete core of the BC1-BC5 encoders (EncBc15.lean: bc1.rs IndexList / AlphaMap / transparent_index / "
             "create_endpoints / with_indexes / closest scan and the encoder's own binary32 palette; bc4.rs IndexList / "
             "new_all / INDEX_MAP / new_closest / new_inter6 / inter6_to_inter4 / with_indexes / Inter6Palette / "
             "Inter4Palette / single_color; bc.rs concat_blocks, channel wiring, get_bc1_options / get_bc3_options / "
             "get_bc4_options) is modelled and proved for ALL inputs: bc1_writer_roundtrip - every mode, every pair of valid "
             "5:6:5 colours in any order, every alpha map and per-pixel closest choice: no debug_assert fires and "
             "Bc.decodeBlock of the 8 written bytes is, at every pixel and precision, entry index_p of the palette over the "
             "ORDERED pair create_endpoints(e0, e1) in the encoder's mode (swap and tie-break included; the code has no "
             "index re-mapping because the palette is built after the ordering), Portable as BC1, and behind any 8 bytes "
             "the P4 block decodes to the same entries under the always-four-colour decoder and is Portable for all six "
             "BC2/BC3-family formats; bc4_writer_roundtrip - every pair of endpoint bytes, every sixteen 3-bit indexes "
             "(set x 16 or new_all), BC4 U/S, both halves of BC5 U/S, BC3 alpha / RXGB / BC3n red in front of the colour "
             "block: the decoder returns the quantised entry index_p of the eight- resp. six-value palette of the pair, "
             "and new_inter6 / new_inter4 / new_closest establish exactly the order of the palette the encoder built "
             "(SNORM: never swaps, never writes 0x80); bc2_writer_roundtrip - explicit alpha nibble layout = decoder layout "
             "for all sixteen 4-bit values, whole BC2 block; bc1_palette_f32_rounds_to_decoder - the encoder's binary32 "
             "palette (n5::f32 / n6::f32, c0*(2/3)+c1*(1/3), (c0+c1)*0.5) rounds to nearest to exactly the decoder's 8-bit "
             "entry and is within 2^-22 of the exact entry for ALL 32x32 and 64x64 endpoint pairs, both modes, every "
             "selectable entry (kernel-evaluated); bc4_index_map_spec - INDEX_MAP[j] is the index of the j-th point "
             "between the endpoints, the four-interpolant palette uses the index as position; "
             "bc4_palette_f32_partial - the BC4 binary32 palettes round to the decoder's entries on the sub-domain hi = max "
             "or hi = lo + 1 (lo >= 1); the other pairs are evaluated by the compiled model only (no failure). "
             "NOT modelled: the f32/Oklab endpoint search, refinement, BC7 "
             "partition/p-bit/endpoint CHOICE (their results are parameters of Enc7), dithering. Those are explored: dds::encode on generated images, every "
             "emitted block checked for Portable, decoded by dds::decode, by a Rust reference decoder written from "
             "the specification and by the Lean decoder models (driver), and the property's floors evaluated.",
    "note": "Trusted: Lean kernel + propext/Classical.choice/Quot.sound; Enc13.lean (hand-written model of the discrete "
            "encoder logic) and the C03/C03x decoder models (BC7 decoder model: tied exhaustively and proved equal to "
            "the specification decoder for every block, see C03x); the control-flow transcriptions (BC7 modes tried, "
            "p-bit candidates, rotations, constant-alpha guard; SNORM closest block; BC2 alpha bytes; border replication) "
            "are part of Enc13.lean and ARE reached by the differential tie on every run (bytes: Enc13.predictBlock; BC7 "
            "header fields of every emitted block against Enc13.bc7Rule, membership checked by the equal hook below); "
            "Enc7.lean (hand-written model of the BC7 block writers, index-list compression, palette arithmetic and "
            "closest_* search) is tied on every run: every BC7 block emitted for an RGBA8 image without dithering that is "
            "not single-coloured and lies inside the image is re-derived WHOLE by Enc7.emit from its own endpoints / "
            "p-bits / partition / rotation / selector and the original pixels (closest_* + merge + anchor fix-up + writer; "
            "the orientation of each endpoint pair is the only freedom) and must be reproduced bit for bit; the encoder's "
            "weight tables are re-parsed from the source; when the library has the verification hook "
            "dds::verif_hook::bc7_write / bc7_closest (notes/hook_bc7_writer.patch) the writers and closest_* are also "
            "compared directly on every mode x partition with all-anchors-set index lists (cases w7h / cl7h; without the "
            "hook these cases are not generated); Drv/C13.lean fieldsOfBlock / orientations (parsers of the tie); "
            "EncBc15.lean (hand-written model of the BC1-BC5 block writers, index lists, endpoint constructors, option "
            "plumbing, the encoders' own binary32 palettes and closest searches) is tied on every run: w15 - every emitted "
            "BC1-BC5 block is parsed with the decoder-side readers and re-created by the model's constructors and writers "
            "(fails for a BC2/BC3 colour half with colour0 <= colour1, a SNORM endpoint 0x80, equal BC4 endpoints other "
            "than level 0); cl15 - for RGBA8 images and blocks inside the image every 8-byte half whose index selection "
            "is deterministic (colour: Uniform metric, no colour dithering; BC4-type: its dither switch off, taken from "
            "the model's option plumbing) is re-derived from its own endpoints and the original pixels (get_single_color, "
            "create_endpoints, binary32 palette, closest / blend7 -> INDEX_MAP / Inter4 scan, single_color, with_indexes) "
            "and must be reproduced byte for byte; trusted there: glam Vec3A lane order of distance_squared, one rounding "
            "per f32 operator; ConvF32.lean / Conv.lean (software binary32, n5/n6/n8::f32, s8::uf32; tied in C04); "
            "F32.lean (software binary32) for the f32 expressions on these paths, proved equal to the closed forms on "
            "the whole 8-bit domain; the reading of 'within the endpoint quantisation step' on decoded 8-bit "
            "values (bound = largest gap between adjacent decoded endpoint levels; two-colour blocks: the same "
            "step bound, 'exactly' applies to single-colour BC4/BC5/BC7/BC3-alpha blocks); generators and harness.",
    "profiles": ["release", "checked"],
    "level": "other",
    "technique": "Lean 4 theorems over a hand-written model of the encoder's discrete logic + proved decoder models as "
                 "oracle; the float endpoint search is explored through dds::encode with that oracle (partial)",
    "rule": "case = one image (row of 4x4 blocks, 8x8, or partial sizes 1x1..12x9/6x10) encoded through dds::encode "
            "(header-less) in one of 12 BC formats x quality F/N/H (+U subset) x metric U/P x dithering N (C/A/B for "
            "the portability/opacity clauses); classes: grey (all 256 levels), rand1 (random single RGBA colours), "
            "corner (the 8 exactly representable 5:6:5 colours x alpha 255/0/127/128), two (two palette colours of a "
            "valid witness block), grad, noise, alpha (extreme alpha patterns), edge (partial blocks), dither, prec "
            "(RGBA16/RGBA32F/RGB8/GRAY8 input), half (f32 alpha exactly 0.5 and neighbours), a16 (BC2 explicit alpha: "
            "all 256 values, nibble boundaries, partial blocks), sx (SNORM constant channels 0/255/1/254/127/128), "
            "b7op/b7mix/b7ca/b7sa/b7g (BC7 opaque / mixed alpha / constant RGB / constant alpha / constant-alpha guard "
            "of modes 4 and 5 for every alpha value, F/N/H/U), b7m (BC7 two / three colour clusters along a partition, "
            "F/N/H/U: the partitioned modes); w7e (encoder weight tables as source text); with the verification hook "
            "w7h (Compressed::modeN on every mode x partition / rotation x selector, index lists all-max / all-zero / top "
            "bit / alternating / random) and cl7h (closest_* incl. tying palettes); non-trivial = encoded "
            "and decoded (result starts with ok); distinct = distinct case lines",
    "explanation": "level other = partial: (1) proof obligations: the theorems of Theorems/C13.lean about the discrete "
                   "encoder logic, Portable and the floors, all inputs; (2) correspondence: for every emitted block the "
                   "Lean driver computes mode digits, Portable and a hash of the 16 pixels decoded by the proved "
                   "decoder models, and - for RGBA8 inputs - the bytes predicted by the discrete encoder model "
                   "(single colours: BC7 whole block, BC4-type block, 5:6:5 corner colour block, BC1 transparent block; "
                   "every block: BC2 explicit alpha bytes unless alpha is dithered, BC4-type UNORM block of a constant "
                   "channel, SNORM closest block of a constant channel 0 / 255) and, for BC7 without dithering, mode / "
                   "partition / rotation / index-selection / p-bits / alpha endpoint fields read back from every emitted "
                   "block together with the constraint the discrete rules put on them (modes tried; p-bits (1,1) of "
                   "opaque subsets in modes 6 / 7; admissible rotations; endpoints of a constant separated channel in "
                   "modes 4 / 5) and the whole block re-derived by the BC7 writer model Enc7.emit (tokens w7, cl7), and for BC1-BC5 every block "
                   "re-created by the model writers and every deterministic 8-byte half re-derived from its own endpoints and "
                   "the original pixels (tokens w15, cl15); the harness "
                   "computes the same from dds::decode and Rust code (own bit reader; hashes of the emitted bytes) and the "
                   "equal hook checks that every emitted block meets the model's constraint; (3) oracle on freshly emitted "
                   "blocks: Portable; library decoder = reference decoder; single-colour floor (step bound; exact "
                   "for BC4/BC5/BC7/BC3 alpha); two-colour floor; opaque stays opaque; BC1 alpha threshold at 1/2. "
                   "Not modelled hence only explored: the float endpoint search.",
    "assumptions": [
        "the float endpoint search (line fit, least squares, refinement, quantisation choice, Oklab metric, BC7 "
        "mode/partition/p-bit search, dithering) is not modelled; its outputs are only checked on the generated inputs",
        "'within the endpoint quantisation step' is read on decoded 8-bit values: 5-bit 9, 6-bit 5, BC2 alpha 17, "
        "8-bit UNORM 1, 8-bit SNORM 2, BC7 colour 9 / alpha 5 (coarsest mode); premultiplied formats are checked on "
        "the stored (premultiplied) values",
        "partial edge blocks: only pixels inside the image are judged",
        "with alpha dithering the BC1 per-pixel threshold is the dither's decision; only all-opaque and "
        "all-transparent blocks are judged then",
    ],
    "trusted_base": ["model: lean/DdsModel/DdsModel/Enc13.lean (src/encode/bc1.rs EndPoints::new_p4/new_p3_default/"
                     "with_indexes, get_alpha_map, compress_bc1_block/compress choice, compress_single_color min==max "
                     "path; bc.rs get_bc1_options/get_bc3_options; bc4.rs new_closest/new_inter6 distinctness/"
                     "inter6_to_inter4, single_color closest branch (SNORM); bc.rs bc2_alpha, block_universal border "
                     "replication, BC7_UNORM presets; write_util.rs for_each_f32_rgba_rows row fill; bc7.rs "
                     "compress_single_color/Compressed::mode5/BitStream, compress_bc7_block mode filter, compress_rgba "
                     "p-bit candidates, PBitHandling::pick_best, RotationSelect::get_forced_rotation/pick_best, "
                     "compress_mode4 C3A2 shortcut, compress_color_separate_alpha_with_rotation single-alpha branch, "
                     "channel_round/floor/ceil); lean/DdsModel/DdsModel/Enc7.lean (bc7.rs BitStream, IndexList, "
                     "Compressed::mode0..7, promote/p_promote/interpolate*, WEIGHTS_2/3/4, closest_rgb/rgba/alpha, "
                     "Rotation::apply, BlockStats; bcn_data.rs sort_block); lean/DdsModel/DdsModel/EncBc15.lean (bc1.rs "
                     "IndexList, AlphaMap, transparent_index, create_endpoints, with_indexes, closest, Palette::new_p4/new_p3, "
                     "get_single_color; bc4.rs IndexList, EndPoints constructors, Inter6Palette, Inter4Palette, block_closest, "
                     "single_color; bc.rs concat_blocks, get_bc1/bc3/bc4_options, per-format closures); ConvF32.lean, Conv.lean; "
                     "F32.lean; decoders: Bc.lean, BcSpec.lean, Bc7.lean, Bc7Spec.lean "
                     "(C03, C03x)"],
}


def _b7_meets(obs, rule):
    """obs = `mode.part.rot.sel.pbits.alpha` of one emitted block, rule = `modes.rots.sel.pbits.alpha` (see
    Drv/C13.lean ruleString): mode / rotation must be among the listed digits, selector and forced p-bits must be
    equal, the alpha endpoint fields must be the listed unordered pair; `*` / `x` = unconstrained."""
    o, r = obs.split("."), rule.split(".")
    if len(o) != 6 or len(r) != 5:
        return False
    mode, _part, rot, sel, pbits, alpha = o
    rmodes, rrots, rsel, rpbits, ralpha = r
    if mode not in rmodes:
        return False
    if rrots != "*" and rot not in rrots:
        return False
    if rsel != "*" and sel != rsel:
        return False
    if len(pbits) != len(rpbits) or any(y != "x" and x != y for x, y in zip(pbits, rpbits)):
        return False
    if ralpha != "*":
        try:
            if sorted(int(x) for x in alpha.split(",")) != sorted(int(x) for x in ralpha.split(",")):
                return False
        except ValueError:
            return False
    return True


def equal(a, b):
    """a = implementation, b = model.  Everything must be textually equal except the `b7` token (7th) of BC7 cases: the
    implementation prints the header fields of every emitted block (its own bit reader), the model prints
    `<the same fields read with its reader>@<what its discrete rules allow for the input block>`; the fields must be
    textually equal and every block must meet its rule (membership, as for the `plan` sets of C16).  The tokens after it
    (`w7`: hash of every BC7 block re-written by `Enc7.write`; `cl7`: hash of the block `Enc7.emit` re-derives from the
    emitted parameters and the original pixels; `w15`: hash of every BC1-BC5 block re-written by the model's constructors and
    writers from what the decoder-side readers return; `cl15`: hashes of the 8-byte halves the model re-derives from their
    own endpoints and the original pixels - binary32 palette and closest search of bc1.rs / bc4.rs) must be textually equal.
    `no-hook`: a direct-tie case (`w7h`, `cl7h`; only generated when `dds::verif_hook::bc7_write` exists) read from a
    corpus / replay file while the library under test has no hook - skipped, not compared."""
    if a == b:
        return True
    if a == "no-hook":
        return True
    ta, tb = a.split(" "), b.split(" ")
    if len(ta) != len(tb) or len(ta) != 11 or ta[:6] != tb[:6] or ta[7:] != tb[7:] or "@" not in tb[6]:
        return False
    obs, rules = tb[6].split("@", 1)
    if obs != ta[6]:
        return False
    lo, lr = obs.split(";"), rules.split(";")
    return len(lo) == len(lr) and all(_b7_meets(x, y) for x, y in zip(lo, lr))


def classify(c, r):
    t = c.split(" ")
    if t[0] in ("w7h", "cl7h", "w7e"):
        return f"{t[0]} " + (t[1] if t[0] != "w7e" and len(t) > 1 else "-") + " " + (r.split(" ")[0] if r else "none")
    if len(t) < 8:
        return "malformed"
    return f"{t[0]} {t[1]} " + (r.split(" ")[0] if r else "none")
