"""check.py configuration of C14 (placeholder, completed below)."""
CFG = {"claim": "", "profiles": ["release", "checked"], "level": "proof"}
