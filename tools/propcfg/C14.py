"""check.py configuration of C14."""

CFG = {
    "claim": "Proof: for every u32 image size, every support record (NonZeroU8 split height, any preferred fragment "
             "size), dithering option and quality the model of src/split.rs yields fragments that cover rows [0,h) "
             "exactly once in order, all but the last of the nominal height, which is a positive multiple of the split "
             "height, len = ceil(h/F), exactly one fragment iff the image is empty/small, the format has no split height "
             "or global dithering applies; the indexed collect of encode_parallel gives the same vector for every "
             "completion permutation; under the explicit assumption that an encoder is row-group local, fragment-wise "
             "output = whole-image output (6 theorems, no size bound). Tie: SplitView geometry over a size grid around "
             "every fragment threshold for every format, and dds::encode parallel (pools of 1..16 threads, completion "
             "orders natural/reversed/random/free imposed through the dds_verif hook) vs sequential vs "
             "fragment-by-fragment, byte for byte, in release and overflow-checking builds.",
    "note": "Trusted: Lean kernel + propext/Classical.choice/Quot.sound; the hand-written model Split.lean; the "
            "correspondence check and its generators; RowGroupLocal for each encoder family is an ASSUMPTION validated "
            "only by the byte comparison of the tie; real data races in rayon/Mutex are outside the model and covered "
            "only by the schedule sweep.",
    "profiles": ["release", "checked"],
    "level": "proof",
    "rule": "cases = support record of all 73 formats; SplitView geometry on a grid (widths 1..100 and around "
            "t/8,t/4,t/2,t,2t+3 for every preferred fragment size t in {64,256,1024,2048,4096}; heights 0..13, around "
            "t/w and around 1..3 fragment heights; 4 qualities; dithering none/color/alpha/all) + PRNG sizes over all "
            "formats; encode cases over all 57 encodable formats (every family in each quarter of the list) x sizes "
            "(wider than a fragment, at the threshold, few and many fragments, tiny) x 12 color formats x dithering x "
            "quality Fast/Normal(/High thorough) x error metric x 1..16 threads x 4 orders; non-trivial = a geometry or "
            "an encode was produced (not a support-record or bad-case line); distinct = distinct case lines",
    "assumptions": [
        "the implementation equals the model off the generated cases",
        "RowGroupLocal (each encoder's output is the concatenation of per-row-group outputs) — assumed in "
        "fragmentwise_eq_whole, validated by byte equality of sequential vs fragment-wise encoding on every run",
        "rayon's indexed collect preserves index order; the scheduler is an arbitrary permutation of job completions",
        "oracle in harness/src/c14.rs: tiling facts checked on the fragments' data pointers, byte equality of the "
        "three outputs of the implementation itself",
    ],
    "trusted_base": ["model: lean/DdsModel/DdsModel/Split.lean (src/split.rs in full; EncodingSupport / "
                     "PreferredFragmentSize / Dithering::intersect of src/encode/mod.rs; EncoderSet::{new,new_bc,"
                     "new_bi_planar} and the fragment sizes of src/encode/bc.rs as a 73-row table; the indexed "
                     "collect of encode_parallel); not modelled: the encoders' bytes (compared, not predicted), "
                     "rayon, Mutex"],
    "explanation": "the schedule clause is proved for an abstract scheduler (any permutation of completions); what real "
                   "threads do beyond that is explored by the pool-size x completion-order sweep only",
}


def nontrivial(c, r):
    return c.startswith(("geo", "enc")) and r != "bad-case" and not r.startswith("panic")


def classify(c, r):
    t = c.split(" ")
    if t[0] == "sup":
        return "sup " + ("none" if r.endswith("none") else "some")
    if t[0] == "geo":
        n = _len(r)
        fam = "bc" if t[1].startswith("BC") and not t[1].startswith("BC6") else "other"
        return f"geo {fam} dith={t[4]} q={t[5]} frags={_bucket(n)}"
    if t[0] == "enc":
        n = _len(r)
        fam = "bc" if t[1].startswith("BC") else "other"
        th = int(t[8])
        return f"enc {fam} q={t[6]} threads={'1' if th == 1 else '2-4' if th <= 4 else '5-16'} order={t[9]} frags={_bucket(n)}"
    return t[0]


def _len(r):
    for tok in r.split(" "):
        if tok.startswith("len="):
            try:
                return int(tok[4:])
            except ValueError:
                return -1
    return -1


def _bucket(n):
    if n < 0:
        return "?"
    if n <= 1:
        return str(n)
    if n <= 3:
        return "2-3"
    if n <= 8:
        return "4-8"
    return "9+"
