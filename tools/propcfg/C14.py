"""check.py configuration of C14."""

CFG = {
    "claim": "Proof: for every u32 image size, every support record (NonZeroU8 split height, any preferred fragment "
             "size), dithering option and quality the model of src/split.rs yields fragments that cover rows [0,h) "
             "exactly once in order, all but the last of the nominal height, which is a positive multiple of the split "
             "height, len = ceil(h/F), exactly one fragment iff the image is empty/small, the format has no split height "
             "or global dithering applies; the indexed collect of encode_parallel gives the same vector for every "
             "completion permutation; fragment-wise output = whole-image output for every encoder that is row-group "
             "local, and row-group locality is PROVED for a data-flow model of every encoder family with arbitrary "
             "per-pixel / per-block functions (for_each_chunk contiguous and row-wise, process_subsample, "
             "for_each_f32_rgba_rows + block_universal incl. bottom/right padding), the families that are not local "
             "(Bayer row index, bi-planar, error diffusion) being never split; put together over the pinned tables "
             "(73 formats x 12 colours x 4 options) in fragmentwise_eq_whole_all_families (16 theorems, no size bound). "
             "Tie: SplitView geometry over a size grid around "
             "every fragment threshold for every format, and dds::encode parallel (pools of 1..16 threads, completion "
             "orders natural/reversed/random/free imposed through the dds_verif hook) vs sequential vs "
             "fragment-by-fragment, byte for byte, in release and overflow-checking builds.",
    "note": "Trusted: Lean kernel + propext/Classical.choice/Quot.sound; the hand-written model Split.lean; the "
            "correspondence check and its generators; the data-flow model EncRows.lean: that each Rust encoder body is "
            "an instance of its family (EncRows.Runs) and that every per-pixel / per-block closure is a pure function "
            "of its arguments is ASSUMED (validated by the byte comparison of the tie and the pad cases); real data "
            "races in rayon/Mutex are outside the model and covered only by the schedule sweep.",
    "profiles": ["release", "checked"],
    "level": "proof",
    "rule": "cases = support record of all 73 formats; SplitView geometry on a grid (widths 1..100 and around "
            "t/8,t/4,t/2,t,2t+3 for every preferred fragment size t in {64,256,1024,2048,4096}; heights 0..13, around "
            "t/w and around 1..3 fragment heights; 4 qualities; dithering none/color/alpha/all) + PRNG sizes over all "
            "formats; encode cases over all 57 encodable formats (every family in each quarter of the list) x sizes "
            "(wider than a fragment, at the threshold, few and many fragments, tiny) x 12 color formats x dithering x "
            "quality Fast/Normal(/High thorough) x error metric x 1..16 threads x 4 orders; pad cases: every block / "
            "sub-sampled format x widths 1..19 and around the 512-pixel chunk (sub-sampled) or 1..18 (BCn) x heights "
            "1..11 vs the block-aligned image built with the model's padding rules; non-trivial = a geometry or "
            "an encode was produced (not a support-record or bad-case line); distinct = distinct case lines",
    "assumptions": [
        "the implementation equals the model off the generated cases",
        "EncRows.Runs: the Rust body of every encoder is an instance of the data-flow family the model names for it "
        "(loops transcribed by reading; padding rules tied by the pad cases, write sizes by C10, encoder lists and "
        "pick_encoder by C19)",
        "every per-pixel / per-block / per-row-group closure is a function of the arguments the model gives it and of "
        "the options (no state between calls; output slot overwritten, not read); for for_each_chunk the closures "
        "encode pixel by pixel; input colour conversion is per pixel; a full-width crop yields the corresponding rows "
        "— validated by byte equality of sequential vs fragment-wise encoding on every run",
        "rayon's indexed collect preserves index order; the scheduler is an arbitrary permutation of job completions",
        "oracle in harness/src/c14.rs: tiling facts checked on the fragments' data pointers, byte equality of the "
        "three outputs of the implementation itself",
    ],
    "trusted_base": ["model: lean/DdsModel/DdsModel/EncRows.lean (data flow of for_each_chunk, process_subsample / "
                     "uncompressed_universal_subsample, for_each_f32_rgba_rows + block_universal, bi_planar_universal, "
                     "uncompressed_universal_dither; per-unit functions are parameters)",
                     "model: lean/DdsModel/DdsModel/Split.lean (src/split.rs in full; EncodingSupport / "
                     "PreferredFragmentSize / Dithering::intersect of src/encode/mod.rs; EncoderSet::{new,new_bc,"
                     "new_bi_planar} and the fragment sizes of src/encode/bc.rs as a 73-row table; the indexed "
                     "collect of encode_parallel); not modelled: the encoders' bytes (compared, not predicted), "
                     "rayon, Mutex"],
    "explanation": "the schedule clause is proved for an abstract scheduler (any permutation of completions); what real "
                   "threads do beyond that is explored by the pool-size x completion-order sweep only",
}


def nontrivial(c, r):
    return c.startswith(("geo", "enc", "pad")) and r != "bad-case" and not r.startswith("panic")


def classify(c, r):
    t = c.split(" ")
    if t[0] == "sup":
        return "sup " + ("none" if r.endswith("none") else "some")
    if t[0] == "geo":
        n = _len(r)
        fam = "bc" if t[1].startswith("BC") and not t[1].startswith("BC6") else "other"
        return f"geo {fam} dith={t[4]} q={t[5]} frags={_bucket(n)}"
    if t[0] == "enc":
        n = _len(r)
        fam = "bc" if t[1].startswith("BC") else "other"
        th = int(t[8])
        return f"enc {fam} q={t[6]} threads={'1' if th == 1 else '2-4' if th <= 4 else '5-16'} order={t[9]} frags={_bucket(n)}"
    if t[0] == "pad":
        fam = "bc" if t[1].startswith("BC") else "r1" if t[1] == "R1_UNORM" else "2x1" if t[1] in (
            "R8G8_B8G8_UNORM", "G8R8_G8B8_UNORM", "UYVY", "YUY2", "Y210", "Y216") else "plain"
        w, h = int(t[2]), int(t[3])
        bw, bh = {"bc": (4, 4), "r1": (8, 1), "2x1": (2, 1), "plain": (1, 1)}[fam]
        which = ("w" if w % bw else "") + ("h" if h % bh else "")
        return f"pad {fam} padded={which or 'none'}" + (" chunks=2+" if w > 512 else "")
    return t[0]


def _len(r):
    for tok in r.split(" "):
        if tok.startswith("len="):
            try:
                return int(tok[4:])
            except ValueError:
                return -1
    return -1


def _bucket(n):
    if n < 0:
        return "?"
    if n <= 1:
        return str(n)
    if n <= 3:
        return "2-3"
    if n <= 8:
        return "4-8"
    return "9+"
