"""check.py configuration of C10."""

CFG = {
    "claim": "Proof: the models of the writer loops of every encoder family (for_each_chunk contiguous and strided, the "
             "per-row dithering loop, the sub-sampled per-row chunk loop with partial blocks, block_universal with its "
             "padded last row group, bi_planar_universal) write exactly the layout length surface_bytes for EVERY width, "
             "height, buffer and chunk size; with C11's history invariant a finished encoder has written exactly "
             "the layout's data length with every surface at its layout offset, and (theorem reopen, composing the header, "
             "layout, encoder and decoder models) the written header parses back to the same header and layout while a decoder "
             "walking all surfaces ends exactly at the last byte written. Tied to the code over all 57 encodable "
             "formats x sizes (all residues; 512-pixel chunk boundaries) x {texture, array, cube, volume} x mips "
             "{none, explicit, generated} x 12 input colours x pitch x quality x dithering x parallel: byte counts after "
             "every call are compared with the model, and every finished file is re-opened and fully decoded.",
    "note": "Trusted: Lean kernel + propext/Classical.choice/Quot.sound; models EncLen.lean (read from the encoder loops; "
            "only their TOTAL per surface is compared with the code, so that buffer-size refactors do not alarm), "
            "Encoder.lean, Layout.lean; the header round trip used for re-opening is C09; 'every surface decodes' is "
            "exercised, not proved.",
    "profiles": ["release"],
    "level": "proof",
    "rule": "cases = per encodable format 70 (thorough 1200): the first 24 walk sizes 1..12 x 1..12, the rest PRNG sizes "
            "1..70 (1..40 for BCn), widths 511/512/513/1023/1025, sizes rounded to the size multiple except 1 in 8, "
            "kind texture/array 2..3/cube/volume depth 1..5, mip mode none/explicit/generated, 12 input colours, row "
            "pitch +0/+1/+7/+64 bytes, quality fast (normal for some BCn), dithering none/colour/alpha/both, parallel "
            "on/off; non-trivial = the file was finished (result ok); distinct = distinct case lines",
    "assumptions": [
        "the implementation equals the model off the generated cases",
        "oracle in harness/src/c10.rs: length after every call = layout offset of the next surface (via the public "
        "layout iterators), finished length = magic+header+data_len, Decoder::new on the bytes gives the same header, "
        "format (BC3_UNORM_NORMAL -> BC3_UNORM alias aside) and layout, every surface decodes, the last one ends at "
        "EOF; dds::encode writes exactly surface_bytes",
    ],
    "trusted_base": ["models: EncLen.lean (write_util.rs for_each_chunk / for_each_f32_rgba_rows, bc.rs block_universal, "
                     "uncompressed.rs, sub_sampled.rs, bi_planar.rs writer loops), Encoder.lean"],
}


def nontrivial(case, result):
    return result.startswith("ok ")


def classify(case, result):
    t = case.split(" ")
    fam = t[2].split(":")[0]
    return f"{fam} {t[5][0]} mips={t[8]} {result.split(' ')[0]}"
