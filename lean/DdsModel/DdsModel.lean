import DdsModel.Mach
import DdsModel.Layout
import DdsModel.Proofs.Layout
import DdsModel.Theorems.C02
import DdsModel.Theorems.C12
