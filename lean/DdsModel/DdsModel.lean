import DdsModel.Mach
import DdsModel.Layout
import DdsModel.Proofs.Layout
import DdsModel.Theorems.C02
import DdsModel.Split
import DdsModel.Proofs.Split
import DdsModel.Theorems.C14
