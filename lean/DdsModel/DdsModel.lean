import DdsModel.Mach
import DdsModel.Layout
import DdsModel.Iter
import DdsModel.Decoder
import DdsModel.Proofs.Layout
import DdsModel.Proofs.Iter
import DdsModel.Theorems.C02
import DdsModel.Theorems.C08
