import DdsModel.Mach
import DdsModel.Layout
import DdsModel.Proofs.Layout
import DdsModel.Theorems.C02
import DdsModel.Stream
import DdsModel.Proofs.Stream
import DdsModel.Proofs.StreamPaths
import DdsModel.Theorems.C06
