/-
The mutated loops of three seeded defects, transcribed as VARIANTS of the mirrors of `TrapEnc.lean` /
`TrapEncBlk.lean` — evidence that the `*_trapfree` theorems of C15 depend on the text of the loops: for each
variant `Theorems/C15.lean` exhibits a view on which the variant is `none` (a panic) or differs from the write
sizes of `EncLen.lean`, i.e. on which the theorem's equation fails.

* `/verif/seeded/C15g` (`for_each_chunk`, strided branch: whole rows are copied into the staging buffer)
* `/verif/seeded/C12i` (`for_each_chunk`, strided branch: head / rest rewrite that flushes once per row)
* `/verif/seeded/C10g` (`uncompressed_universal_subsample`: source-byte cap applied after the block rounding)
-/
import DdsModel.TrapEncBlk
namespace Dds.TrapEnc.Seeds
open Dds Dds.Trap Dds.TrapEnc

/-! ## C15g -/

/-- seeded/C15g/patch.diff, the loop body: "flush if the row no longer fits, then copy the whole row" -/
def fillRowsT_C15g (bufferPixels buffer bpp epp : Nat) (copyT : Nat → Nat → Option Unit) :
    (rows : List Nat) → (fill : Nat) → Option (List Nat × Nat)
  | [], fill => some ([], fill)
  | row :: rest, fill => do
    let r ← remU row bpp                                     -- debug_assert!(row.len() % bytes_per_pixel == 0)
    dbgP (r = 0)
    let rowPixels ← div row bpp
    let sum ← addU fill rowPixels
    -- `if fill_pixels > 0 && fill_pixels + row_pixels > buffer_pixels { process_chunk(&mut buffer[..fill * epp])?; fill = 0 }`
    let fl ← (if fill > 0 ∧ sum > bufferPixels then do
        let m ← mulU fill epp
        let s ← sliceTo buffer m
        pure ([s], 0)
      else pure ([], fill))
    let fill := fl.2
    -- `copy_to_buffer(row, &mut buffer[fill * epp..(fill + row_pixels) * epp])`
    let a ← mulU fill epp
    let e ← addU fill rowPixels
    let b ← mulU e epp
    let dst ← sliceRange buffer a b
    copyT row dst
    let fill' ← addU fill rowPixels
    let s ← fillRowsT_C15g bufferPixels buffer bpp epp copyT rest fill'
    pure (fl.1 ++ s.1, s.2)

/-- `for_each_chunk` with the strided branch of seed C15g (the contiguous branch is untouched) -/
def forEachChunkT_C15g (v : View) (bufLen epp : Nat) (copyT : Nat → Nat → Option Unit) : Option (List Nat) := do
  let bufferPixels ← div bufLen epp
  let n ← mulU bufferPixels epp
  let buffer ← sliceTo bufLen n
  let contiguous ← isContiguousT v
  if contiguous then forEachChunkT v bufLen epp copyT
  else do
    let rows ← rowsT v
    let r ← fillRowsT_C15g bufferPixels buffer v.bpp epp copyT rows 0
    finishT buffer epp r

/-- `uncompressed_universal` over the mutated `for_each_chunk` -/
def uncompressedUniversalT_C15g (v : View) (c : Color) (aligned : Bool) (size prim : Nat) : Option (List Nat) := do
  let bufferPixels := SrcConsts.UNIVERSAL_BUFFER_PIXELS
  let chunkCount ← divCeilU (v.w * v.h) bufferPixels
  let lens ← forEachChunkT_C15g v bufferPixels 1 (fun part encoded => do
    let intermediate ← sliceTo bufferPixels encoded
    let line ← asRgbaF32T c aligned part intermediate
    dbgP (line = encoded))
  mapIdxT (fun chunkIndex encoded => do
    progT chunkIndex chunkCount SrcConsts.UNC_REPORT_FREQUENCY
    let bytes ← mulU encoded size
    toLeT prim bytes
    pure bytes) lens

/-! ## C12i -/

/-- seeded/C12i/patch.diff, the loop body: head fills up the buffer, the rest is iterated with
`rest.chunks(buffer_pixels * bpp)` after ONE flush -/
def fillRowsT_C12i (bufferPixels buffer bpp epp : Nat) (copyT : Nat → Nat → Option Unit) :
    (rows : List Nat) → (fill : Nat) → Option (List Nat × Nat)
  | [], fill => some ([], fill)
  | row :: rest, fill => do
    let r ← remU row bpp
    dbgP (r = 0)
    let rowPixels ← div row bpp
    let room ← subU bufferPixels fill
    let headPixels := min rowPixels room
    let mid ← mulU headPixels bpp
    let hr ← splitAtT row mid                                -- `row.split_at(head_pixels * bytes_per_pixel)`
    let a ← mulU fill epp
    let e ← addU fill headPixels
    let b ← mulU e epp
    let dst ← sliceRange buffer a b
    copyT hr.1 dst
    let fill ← addU fill headPixels
    let fl ← (if hr.2 ≠ 0 then do
        -- `process_chunk(buffer)?; for part in rest.chunks(buffer_pixels * bpp) { copy; fill_pixels = part_pixels }`
        let cs ← mulU bufferPixels bpp
        let parts ← chunksT hr.2 cs
        let ps ← mapT (fun part => do
          let pp ← div part bpp
          let m ← mulU pp epp
          let d ← sliceTo buffer m
          copyT part d
          pure pp) parts
        pure ([buffer], ps.getLastD fill)
      else pure ([], fill))
    let s ← fillRowsT_C12i bufferPixels buffer bpp epp copyT rest fl.2
    pure (fl.1 ++ s.1, s.2)

def forEachChunkT_C12i (v : View) (bufLen epp : Nat) (copyT : Nat → Nat → Option Unit) : Option (List Nat) := do
  let bufferPixels ← div bufLen epp
  let n ← mulU bufferPixels epp
  let buffer ← sliceTo bufLen n
  let contiguous ← isContiguousT v
  if contiguous then forEachChunkT v bufLen epp copyT
  else do
    let rows ← rowsT v
    let r ← fillRowsT_C12i bufferPixels buffer v.bpp epp copyT rows 0
    finishT buffer epp r

def uncompressedUniversalT_C12i (v : View) (c : Color) (aligned : Bool) (size prim : Nat) : Option (List Nat) := do
  let bufferPixels := SrcConsts.UNIVERSAL_BUFFER_PIXELS
  let chunkCount ← divCeilU (v.w * v.h) bufferPixels
  let lens ← forEachChunkT_C12i v bufferPixels 1 (fun part encoded => do
    let intermediate ← sliceTo bufferPixels encoded
    let line ← asRgbaF32T c aligned part intermediate
    dbgP (line = encoded))
  mapIdxT (fun chunkIndex encoded => do
    progT chunkIndex chunkCount SrcConsts.UNC_REPORT_FREQUENCY
    let bytes ← mulU encoded size
    toLeT prim bytes
    pure bytes) lens

/-! ## C10g -/

/-- seeded/C10g/patch.diff: `chunk_pixels = min(BUFFER_PIXELS / block_width * block_width, 4096 / bytes_per_pixel)` -/
def subsampleT_C10g (v : View) (c : Color) (aligned : Bool) (bw blockBytes prim : Nat) : Option (List Nat) := do
  dbgP (bw ≥ 2)
  let q ← div SrcConsts.SUBSAMPLE_BUFFER_PIXELS bw
  let rounded ← mulU q bw
  let cap ← div 4096 c.bpp                                   -- `MAX_CHUNK_BYTES / bytes_per_pixel`
  let chunkPixels := min rounded cap
  let chunkSize ← mulU chunkPixels c.bpp
  let rowBytes ← mulU v.w c.bpp
  let perRow ← divCeilU rowBytes chunkSize
  let chunkCount ← mulU v.h perRow
  let rows ← rowsT v
  subsampleRowsT c aligned bw blockBytes prim chunkSize chunkCount rowBytes rows 0

end Dds.TrapEnc.Seeds
