/-
Scalar conversions of `src/color/formats.rs`, in implementation shape.

Integer code is modelled on `Nat` with the wrapping (`% 2^n`) and truncating (`as u8`) steps of the
Rust source written out (release profile); `Theorems/C04.lean` shows that no intermediate
overflows, so the overflow-checking profile computes the same values.  Code that evaluates in
`f32` is modelled operator by operator with the software binary32 of `ConvF32.lean`; values of type
`f32` are bit patterns (`Nat`).

Every definition cites the Rust function it models.
-/
import DdsModel.ConvF32
namespace Dds.Conv
open Dds.CF32

def w8 (n : Nat) : Nat := n % 256
def w16 (n : Nat) : Nat := n % 65536
def w32 (n : Nat) : Nat := n % 4294967296

/-! ### UNORM → UNORM8 / UNORM16 (integer multiply-add-shift) -/

/-- `n1::n8` -/ def n1n8 (x : Nat) : Nat := if x == 0 then 0 else 255
/-- `n1::n16` -/ def n1n16 (x : Nat) : Nat := if x == 0 then 0 else 65535
/-- `n2::n8`: `x * 85` in `u8` -/ def n2n8 (x : Nat) : Nat := w8 (x * 85)
/-- `n2::n16`: `x as u16 * 21845` -/ def n2n16 (x : Nat) : Nat := w16 (x * 21845)
/-- `n4::n8`: `x * 17` in `u8` -/ def n4n8 (x : Nat) : Nat := w8 (x * 17)
/-- `n4::n16`: `x as u16 * 4369` -/ def n4n16 (x : Nat) : Nat := w16 (x * 4369)
/-- `n5::n8`: `((x as u16 * 2108 + 92) >> 8) as u8` -/
def n5n8 (x : Nat) : Nat := w8 (w16 (x * 2108 + 92) >>> 8)
/-- `n5::n16`: `((x as u32 * 138547200) >> 16) as u16` -/
def n5n16 (x : Nat) : Nat := w16 (w32 (x * 138547200) >>> 16)
/-- `n6::n8`: `((x as u16 * 1036 + 132) >> 8) as u8` -/
def n6n8 (x : Nat) : Nat := w8 (w16 (x * 1036 + 132) >>> 8)
/-- `n6::n16`: `((x as u32 * 68173056 + 30976) >> 16) as u16` -/
def n6n16 (x : Nat) : Nat := w16 (w32 (x * 68173056 + 30976) >>> 16)
/-- `n8::n16`: `x as u16 * 257` -/ def n8n16 (x : Nat) : Nat := w16 (x * 257)
/-- `n10::n8`: `((x as u32 * 16336 + 32656) >> 16) as u8` -/
def n10n8 (x : Nat) : Nat := w8 (w32 (x * 16336 + 32656) >>> 16)
/-- `n10::n16`: `((x as u32 * 4198340 + 32660) >> 16) as u16` -/
def n10n16 (x : Nat) : Nat := w16 (w32 (x * 4198340 + 32660) >>> 16)
/-- `n16::n8`: `((x as u32 * 255 + 32895) >> 16) as u8` -/
def n16n8 (x : Nat) : Nat := w8 (w32 (x * 255 + 32895) >>> 16)

/-! ### SNORM → UNORM -/

/-- `s8::norm`: `x.wrapping_add(128).saturating_sub(1)` (range `[0, 254]`) -/
def s8norm (x : Nat) : Nat := w8 (x + 128) - 1
/-- `s8::n8` -/ def s8n8 (x : Nat) : Nat := w8 (w16 (s8norm x * 258 + 2) >>> 8)
/-- `s8::n16` -/ def s8n16 (x : Nat) : Nat := w16 (w32 (s8norm x * 16909064 + 32520) >>> 16)
/-- `s16::norm`: `x.wrapping_add(32768).saturating_sub(1)` (range `[0, 65534]`) -/
def s16norm (x : Nat) : Nat := w16 (x + 32768) - 1
/-- `s16::n8`: `((x as u32 * 65282 + 8388354) >> 24) as u8` -/
def s16n8 (x : Nat) : Nat := w8 (w32 (s16norm x * 65282 + 8388354) >>> 24)
/-- `s16::n16`: `((x as u32 * 65538 + 2) >> 16) as u16` -/
def s16n16 (x : Nat) : Nat := w16 (w32 (s16norm x * 65538 + 2) >>> 16)

/-! ### XR_BIAS → UNORM -/

/-- `(x as i16 - 0x180).clamp(0, 510) as u16` for `x ≤ 1023` -/
def xrClamp (x : Nat) : Nat := min (x - 384) 510
/-- `xr10::n8`: `((c + 1) >> 1) as u8` -/
def xr10n8 (x : Nat) : Nat := w8 (w16 (xrClamp x + 1) >>> 1)
/-- `xr10::n16`: `((c as u32 * 8421376 + 65535) >> 16) as u16` -/
def xr10n16 (x : Nat) : Nat := w16 (w32 (xrClamp x * 8421376 + 65535) >>> 16)

/-! ### small-float denormals → UNORM16 (integer) -/

/-- `fp11::n16`, `exp == 0` branch: `(mant + 7) >> 4` -/
def fp11DenormN16 (mant : Nat) : Nat := w16 (mant + 7) >>> 4
/-- `fp10::n16`, `exp == 0` branch: `(mant + 3) >> 3` -/
def fp10DenormN16 (mant : Nat) : Nat := w16 (mant + 3) >>> 3

/-! ### → `f32` (evaluated in binary32) -/

/-- `1.0 / 3.0` -/ def kThird : Nat := 0x3EAAAAAB
/-- `1.0 / (15.0 * 3.0)` -/ def k1_n4 : Nat := 0x3CB60B61
/-- `1.0 / (31.0 * 3.0)` -/ def k1_n5 : Nat := 0x3C302C0B
/-- `1.0 / (63.0 * 5.0)` -/ def k1_n6 : Nat := 0x3B500D01
/-- `1.0 / (255.0 * 3.0)` -/ def k1_n8 : Nat := 0x3AAB5601
/-- `1.0 / (1023.0 * 85.0)` -/ def k1_n10 : Nat := 0x3740F0FD
/-- `1.0 / (254.0 * 31.0)` -/ def k1_s8 : Nat := 0x39052B5F
/-- `1.0 / (65534.0 * 73.0)` -/ def k1_s16 : Nat := 0x346071F9
/-- `1.0 / 65536.0` -/ def c0_n16 : Nat := 0x37800000
/-- `(1.0 + 65536.0) / 65536.0 / 65536.0 / 65536.0` = 65537·2^-48 -/ def c1_n16 : Nat := 0x2F800080
/-- `1.0 / 510.0` -/ def kXr : Nat := 0x3B008081
/-- `1.0 / 255.0` -/ def k255 : Nat := 0x3B808081
/-- `1.0 / 1023.0` -/ def k1023 : Nat := 0x3A802008
/-- `1.0 / 65535.0` -/ def k65535 : Nat := 0x37800080
/-- `65535.0 / 16777216.0` -/ def kDenorm16 : Nat := 0x3B7FFF00

/-- `(x as f32 * K0) * K1` -/
def mulK (x k0 k1 : Nat) : Nat := fmul (fmul (ofNat x) (ofNat k0)) k1

/-- `n1::f32` -/ def n1f32 (x : Nat) : Nat := if x == 0 then 0 else one
/-- `n2::f32`: `x as f32 * (1.0 / 3.0)` -/ def n2f32 (x : Nat) : Nat := fmul (ofNat x) kThird
/-- `n4::f32` -/ def n4f32 (x : Nat) : Nat := mulK x 3 k1_n4
/-- `n5::f32` -/ def n5f32 (x : Nat) : Nat := mulK x 3 k1_n5
/-- `n6::f32` -/ def n6f32 (x : Nat) : Nat := mulK x 5 k1_n6
/-- `n8::f32` -/ def n8f32 (x : Nat) : Nat := mulK x 3 k1_n8
/-- `n10::f32` -/ def n10f32 (x : Nat) : Nat := mulK x 85 k1_n10
/-- `n16::f32`: `(t * C0) + (t * C1)` -/
def n16f32 (x : Nat) : Nat := fadd (fmul (ofNat x) c0_n16) (fmul (ofNat x) c1_n16)
/-- `s8::uf32` -/ def s8f32 (x : Nat) : Nat := mulK (s8norm x) 31 k1_s8
/-- `s16::uf32` -/ def s16f32 (x : Nat) : Nat := mulK (s16norm x) 73 k1_s16
/-- `xr10::f32`: `(x as i16 - 0x180) as f32 / 510.0` -/
def xr10f32 (x : Nat) : Nat := fdiv (ofInt ((x : Int) - 384)) (ofNat 510)
/-- `xr10::f32` as it was before commit 785f0f7 (`* (1.0 / 510.0)`): kept to state the old defect -/
def xr10f32Reciprocal (x : Nat) : Nat := fmul (ofInt ((x : Int) - 384)) kXr

/-! ### `f32` → UNORM -/

/-- `fp::n8`: `(x * 255.0 + 0.5) as u8` -/
def fpn8 (x : Nat) : Nat := toNatSat (fadd (fmul x (ofNat 255)) half) 255
/-- `fp::n16`: `(x * 65535.0 + 0.5) as u16` -/
def fpn16 (x : Nat) : Nat := toNatSat (fadd (fmul x (ofNat 65535)) half) 65535

/-! ### small floats: `e` exponent bits = 5, `mb` mantissa bits, optional sign (fp16) -/

/-- `(mant as f32 + 2^mb) * two_powi(exp - (15 + mb))`, the value of a normal small float -/
def smallNormal (mb exp mant : Nat) : Nat :=
  fmul (fadd (ofNat mant) (ofNat (2 ^ mb))) (twoPowi ((exp : Int) - (15 + mb : Nat)))

/-- `fp16::f32` / `fp11::f32` / `fp10::f32` (the latter two have no sign bit) -/
def smallF32 (mb : Nat) (signed : Bool) (x : Nat) : Nat :=
  let exp := (x >>> mb) % 32
  let mant := x % (2 ^ mb)
  let v := if exp == 0 then fmul (ofNat mant) (twoPowi (-((14 + mb : Nat) : Int)))
    else if exp != 31 then smallNormal mb exp mant
    else if mant == 0 then posInf else nan
  if signed && (x >>> (mb + 5)) % 2 == 1 then neg v else v

/-- `fp16::n8` / `fp11::n8` / `fp10::n8`: denormals take the normal-number formula -/
def smallN8 (mb : Nat) (signed : Bool) (x : Nat) : Nat :=
  let exp := (x >>> mb) % 32
  let mant := x % (2 ^ mb)
  let v := if exp != 31 then
      toNatSat (fadd (fmul (smallNormal mb exp mant) (ofNat 255)) half) 255
    else if mant == 0 then 255 else 0
  if signed && (x >>> (mb + 5)) % 2 == 1 then 0 else v

/-- `fp16::n16` (denormals: `(mant as f32 * (65535/2^24) + 0.5) as u16`),
`fp11::n16` / `fp10::n16` (denormals: integer formulas) -/
def smallN16 (mb : Nat) (signed : Bool) (x : Nat) : Nat :=
  let exp := (x >>> mb) % 32
  let mant := x % (2 ^ mb)
  let v := if exp == 0 then
      (if mb == 10 then toNatSat (fadd (fmul (ofNat mant) kDenorm16) half) 65535
       else if mb == 6 then fp11DenormN16 mant else fp10DenormN16 mant)
    else if exp != 31 then
      toNatSat (fadd (fmul (smallNormal mb exp mant) (ofNat 65535)) half) 65535
    else if mant == 0 then 65535 else 0
  if signed && (x >>> (mb + 5)) % 2 == 1 then 0 else v

/-! ### R9G9B9E5 -/

/-- `rgb9995f::f32`, one channel: `mant as f32 * two_powi(exp - 24)` -/
def sharedF32 (exp mant : Nat) : Nat := fmul (ofNat mant) (twoPowi ((exp : Int) - 24))
/-- `rgb9995f::n8`, one channel: `(mant as f32 * (two_powi(exp - 24) * 255.0) + 0.5) as u8` -/
def sharedN8 (exp mant : Nat) : Nat :=
  toNatSat (fadd (fmul (ofNat mant) (fmul (twoPowi ((exp : Int) - 24)) (ofNat 255))) half) 255
/-- `rgb9995f::n16`, one channel -/
def sharedN16 (exp mant : Nat) : Nat :=
  toNatSat (fadd (fmul (ofNat mant) (fmul (twoPowi ((exp : Int) - 24)) (ofNat 65535))) half) 65535

/-! ### YUV (BT.601 limited range, evaluated in `f32`) -/

/-- `1.164383` -/ def kY : Nat := 0x3F950A81
/-- `1.596027` -/ def kRV : Nat := 0x3FCC4A9D
/-- `0.391762` -/ def kGU : Nat := 0x3EC89507
/-- `0.812968` -/ def kGV : Nat := 0x3F501EAC
/-- `2.017232` -/ def kBU : Nat := 0x40011A54

/-- the three sums `r, g, b` of `yuv8::f32` etc. for offsets `(oy, oc)` = `(16,128)`, `(64,512)`,
`(4096,32768)`:
`c = y - oy; d = u - oc; e = v - oc;
 r = kY*c + kRV*e; g = kY*c - kGU*d - kGV*e; b = kY*c + kBU*d` -/
def yuvSums (oy oc y u v : Nat) : Nat × Nat × Nat :=
  let c := fsub (ofNat y) (ofNat oy)
  let d := fsub (ofNat u) (ofNat oc)
  let e := fsub (ofNat v) (ofNat oc)
  let yc := fmul kY c
  (fadd yc (fmul kRV e), fsub (fsub yc (fmul kGU d)) (fmul kGV e), fadd yc (fmul kBU d))

/-- `yuv8::f32`, `yuv10::f32`, `yuv16::f32`: `(sum * (1/max)).clamp(0.0, 1.0)` -/
def yuvF32 (bits y u v : Nat) : List Nat :=
  let (oy, oc, k) := if bits == 8 then (16, 128, k255) else if bits == 10 then (64, 512, k1023)
    else (4096, 32768, k65535)
  let (r, g, b) := yuvSums oy oc y u v
  [r, g, b].map fun s => fclamp (fmul s k) 0 one

/-- `yuv8::n8`: `(sum + 0.5) as u8` on the unnormalised sums -/
def yuv8n8 (y u v : Nat) : List Nat :=
  let (r, g, b) := yuvSums 16 128 y u v
  [r, g, b].map fun s => toNatSat (fadd s half) 255

/-- precision index: 0 = U8, 1 = U16, 2 = F32 -/
def yuvTo (bits prec y u v : Nat) : List Nat :=
  if prec == 2 then yuvF32 bits y u v
  else if prec == 0 then (if bits == 8 then yuv8n8 y u v else (yuvF32 bits y u v).map fpn8)
  else (yuvF32 bits y u v).map fpn16

end Dds.Conv
