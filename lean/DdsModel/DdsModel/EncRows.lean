/-
Data-flow model of the encoder families (which input pixels reach which per-unit encode call, and
in which order the results are written).  VALUES are not modelled: every per-unit function (one
pixel, one block of a row, one row group's blocks, one macro pixel, one dithered row) is an
ARBITRARY parameter; the pixel type `α` and the output element type `β` are arbitrary.  An image is
its list of rows (`image.rows()`), a row is its list of pixels; a fragment of a split view is a
full-width crop, i.e. a consecutive sub-list of the rows (`SplitView.fragmentRows`).

  (a) `for_each_chunk` (src/encode/write_util.rs) as used by `uncompressed_universal`,
      `uncompressed_untyped` (uncompressed.rs) and `copy_directly` (encoder.rs): contiguous path
      (`data.chunks(buffer_pixels)`) and row-wise path (fill / flush of the buffer across rows)
  (b) `uncompressed_universal_subsample` + `process_subsample` (sub_sampled.rs), with the row
      index `y_index` handed to the per-block function (ignored by `universal_subsample!`, used by
      `universal_subsample_dither!` = R1_UNORM's Bayer encoder)
  (c) `for_each_f32_rgba_rows` (write_util.rs) + `block_universal` (bc.rs)
  (d) `bi_planar_universal` (bi_planar.rs): plane 1 per row pair, plane 2 at the END
  (e) `uncompressed_universal_dither` (uncompressed.rs): a state (the error line) carried from row
      to row

The lengths of the writes of the same loops are modelled in `EncLen.lean` (C10); the lemmas
`chunks_lengths` / `fillRowD_flush_lengths` in `Proofs/EncRows.lean` connect the two models.
`Theorems/C14.lean` proves that (a), (b) without row index, (c) are row-group local — for every
image and every per-unit function — and that (b) with row index, (d), (e) are never split.
-/
import DdsModel.Split
import DdsModel.EncLen
namespace Dds
namespace EncRows

variable {α β σ : Type}

/-! ## (a) uncompressed / copy: `for_each_chunk` -/

/-- `copy_to_buffer` / `process` on a run of pixels: every closure handed to `for_each_chunk`
(`process_line` of `universal!`, `simple_color_convert`, the `process_line`s of
`uncompressed_untyped`, `copy_from_slice`) writes one encoded pixel per input pixel, in order.
`encPx` is arbitrary. -/
def encPixels (encPx : α → List β) (px : List α) : List β := px.flatMap encPx

/-- contiguous path: `for chunk in image.data().chunks(buffer_pixels * bytes_per_pixel)` —
`copy_to_buffer(chunk)` then `process_chunk` = one `write_all` per chunk.  The list of writes. -/
def contigWrites (encPx : α → List β) (bufPx : Nat) (img : List (List α)) : List (List β) :=
  (chunks bufPx img.flatten).map (encPixels encPx)

/-- the inner `while !row.is_empty()` loop of the row-wise path.  State: `fill` = `fill_pixels`,
`buf` = the valid part `buffer[..fill_pixels * elements_per_pixel]`.  Returns the flushed buffers
(each one `process_chunk(buffer)` = one write), the new fill and buffer.  Same shape as
`EncLen.fillRow` (which keeps only the pixel counts). -/
def fillRowD (encPx : α → List β) (bufPx : Nat) :
    (fuel : Nat) → (row : List α) → (fill : Nat) → (buf : List β) → List (List β) × Nat × List β
  | 0, _, fill, buf => ([], fill, buf)
  | fuel + 1, row, fill, buf =>
    if row = [] then ([], fill, buf) else
    if fill = bufPx then
      -- buffer full: flush it, fill_pixels = 0, then copy at the start of the buffer
      let w := min row.length bufPx
      let r := fillRowD encPx bufPx fuel (row.drop w) w (encPixels encPx (row.take w))
      (buf :: r.1, r.2)
    else
      let w := min row.length (bufPx - fill)
      fillRowD encPx bufPx fuel (row.drop w) (fill + w) (buf ++ encPixels encPx (row.take w))

/-- row-wise path: `for mut row in image.rows() { while .. }`, then
`if fill_pixels > 0 { process_chunk(&mut buffer[..fill_pixels * ..]) }` -/
def rowsWritesAux (encPx : α → List β) (bufPx : Nat) :
    List (List α) → (fill : Nat) → (buf : List β) → List (List β)
  | [], fill, buf => if fill > 0 then [buf] else []
  | row :: rest, fill, buf =>
    let r := fillRowD encPx bufPx (row.length + 1) row fill buf
    r.1 ++ rowsWritesAux encPx bufPx rest r.2.1 r.2.2

def rowsWrites (encPx : α → List β) (bufPx : Nat) (img : List (List α)) : List (List β) :=
  rowsWritesAux encPx bufPx img 0 []

/-- which path `for_each_chunk` takes (`image.is_contiguous()`); `direct` is `copy_directly`'s
single `writer.write_all(image.data())` -/
inductive Path where
  | contiguous | rowWise | direct
  deriving DecidableEq, Repr

/-- bytes written by an uncompressed / copy encoder: the writes in order, concatenated -/
def encUncompressed (p : Path) (encPx : α → List β) (bufPx : Nat) (img : List (List α)) : List β :=
  match p with
  | .contiguous => (contigWrites encPx bufPx img).flatten
  | .rowWise => (rowsWrites encPx bufPx img).flatten
  | .direct => encPixels encPx img.flatten

/-! ## (b) sub-sampled rows: `uncompressed_universal_subsample` -/

/-- fill the rest of a short block with its last pixel
(`last_block[rest..].fill(data[data.len() - 1])`; a full block is unchanged) -/
def padLast (n : Nat) (l : List α) : List α :=
  match l.getLast? with
  | some x => l ++ List.replicate (n - l.length) x
  | none => l

/-- `process_subsample::<BLOCK_WIDTH, _>(data, out, f)`: the full blocks, then the partial block
padded with the last pixel of `data`. -/
def processSubsample (bw : Nat) (f : List α → List β) (data : List α) : List β :=
  let fullLen := data.length / bw * bw
  let rest := data.length - fullLen
  (chunks bw (data.take fullLen)).flatMap f ++
    (if rest > 0 then
       f (match data.getLast? with
          | some x => data.drop fullLen ++ List.replicate (bw - rest) x
          | none => [])
     else [])

/-- one row: `for chunk in y_line.chunks(chunk_size) { process(y_index, chunk, encoded); write }`.
`f y` is the per-block function of row `y` (`y` = index within the image handed to the encoder,
`image.rows().enumerate()`) -/
def subsampleRow (bw chunkPx : Nat) (f : List α → List β) (row : List α) : List β :=
  (chunks chunkPx row).flatMap (processSubsample bw f)

/-- rows `y0, y0+1, …` -/
def encSubsampleFrom (bw chunkPx : Nat) (f : Nat → List α → List β) :
    (y0 : Nat) → List (List α) → List β
  | _, [] => []
  | y, row :: rest => subsampleRow bw chunkPx (f y) row ++ encSubsampleFrom bw chunkPx f (y + 1) rest

/-- `uncompressed_universal_subsample(args, block_width, process)` with
`chunk_pixels = BUFFER_PIXELS / block_width * block_width` -/
def encSubsample (bw chunkPx : Nat) (f : Nat → List α → List β) (img : List (List α)) : List β :=
  encSubsampleFrom bw chunkPx f 0 img

/-- what the output of a row is, independently of the chunking: `f` over the blocks of `bw`
pixels of the row, the last one padded -/
def rowBlocks (bw : Nat) (row : List α) : List (List α) := (chunks bw row).map (padLast bw)

/-! ## (c) block formats: `for_each_f32_rgba_rows` + `block_universal` -/

/-- fill the missing rows of the last row group with its FIRST row
(`intermediate_buffer.copy_within(..width, i * width)` for `i in rest_blocks..block_height`) -/
def padRows (bh : Nat) (g : List (List α)) : List (List α) :=
  match g.head? with
  | some r => g ++ List.replicate (bh - g.length) r
  | none => g

/-- `for_each_f32_rgba_rows(image, block_height, f)`: the successive contents of
`intermediate_buffer` handed to `f` — `height / block_height` full groups, then, when
`height % block_height > 0`, the remaining rows followed by copies of the first of them. -/
def rowGroupBuffers (bh : Nat) (img : List (List α)) : List (List (List α)) :=
  let full := img.length / bh
  let rest := img.length % bh
  (List.range full).map (fun g => (img.drop (g * bh)).take bh) ++
    (if rest > 0 then [padRows bh (img.drop (full * bh))] else [])

/-- the closure of `block_universal` on one buffer (`rows` = the flat buffer, pitch `w`):
`encode_block(&rows[block_index * BLOCK_WIDTH ..], width, ..)` for the `width / BLOCK_WIDTH` full
blocks, then — when `width % BLOCK_WIDTH != 0` — the partial block copied into `block_data` with
every row padded by its last pixel, `encode_block(&block_data, BLOCK_WIDTH, ..)`; one write of all
blocks.  `encBlock data pitch` is arbitrary: it may read anything of the slice it is given. -/
def encodeGroup (bw bh w : Nat) (encBlock : List α → Nat → List β) (buf : List (List α)) : List β :=
  let rows := buf.flatten
  ((List.range (w / bw)).flatMap fun bi => encBlock (rows.drop (bi * bw)) w) ++
    (if w % bw ≠ 0 then
       let start := w / bw * bw
       let bwid := w - start
       encBlock ((List.range bh).flatMap fun i =>
         padLast bw ((rows.drop (start + i * w)).take bwid)) bw
     else [])

/-- `block_universal::<BW, BH, _, _>(args, encode_block)` -/
def encBlocks (bw bh w : Nat) (encBlock : List α → Nat → List β) (img : List (List α)) : List β :=
  (rowGroupBuffers bh img).flatMap (encodeGroup bw bh w encBlock)

/-! ## (d) bi-planar: `bi_planar_universal` -/

/-- plane 1 of every row pair is written as the pair is processed, the plane-2 samples are pushed
to a `Vec` that is written after the last pair.  `encPair buf = (plane-1 bytes, plane-2 samples)`
of one buffer is arbitrary.  (The `InvalidSize` refusal for odd sizes is C15's `size_rule`.) -/
def encBiPlanar (encPair : List (List α) → List β × List β) (img : List (List α)) : List β :=
  let groups := (rowGroupBuffers 2 img).map encPair
  groups.flatMap (·.1) ++ groups.flatMap (·.2)

/-! ## (e) global error diffusion: `uncompressed_universal_dither` -/

/-- `for row in image.rows()`: `step` = swap of the error lines + the chunk loop of one row
(arbitrary); `s` = `next_line_error` left by the previous row -/
def encDitherFrom (step : σ → List α → List β × σ) : σ → List (List α) → List β
  | _, [] => []
  | s, row :: rest => (step s row).1 ++ encDitherFrom step (step s row).2 rest

/-- `s0` = the zeroed error buffer every call of the encoder starts with -/
def encDither (step : σ → List α → List β × σ) (s0 : σ) (img : List (List α)) : List β :=
  encDitherFrom step s0 img

end EncRows
end Dds
