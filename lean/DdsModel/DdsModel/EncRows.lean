/-
Data-flow model of the encoder families (which input pixels reach which per-unit encode call, and
in which order the results are written).  VALUES are not modelled: every per-unit function (one
pixel, one block of a row, one row group's blocks, one macro pixel, one dithered row) is an
ARBITRARY parameter; the pixel type `α` and the output element type `β` are arbitrary.  An image is
its list of rows (`image.rows()`), a row is its list of pixels; a fragment of a split view is a
full-width crop, i.e. a consecutive sub-list of the rows (`SplitView.fragmentRows`).

  (a) `for_each_chunk` (src/encode/write_util.rs) as used by `uncompressed_universal`,
      `uncompressed_untyped` (uncompressed.rs) and `copy_directly` (encoder.rs): contiguous path
      (`data.chunks(buffer_pixels)`) and row-wise path (fill / flush of the buffer across rows)
  (b) `uncompressed_universal_subsample` + `process_subsample` (sub_sampled.rs), with the row
      index `y_index` handed to the per-block function (ignored by `universal_subsample!`, used by
      `universal_subsample_dither!` = R1_UNORM's Bayer encoder)
  (c) `for_each_f32_rgba_rows` (write_util.rs) + `block_universal` (bc.rs)
  (d) `bi_planar_universal` (bi_planar.rs): plane 1 per row pair, plane 2 at the END
  (e) `uncompressed_universal_dither` (uncompressed.rs): a state (the error line) carried from row
      to row

The lengths of the writes of the same loops are modelled in `EncLen.lean` (C10);
`write_sizes_match_c10` (lemmas `chunks_lengths`, `fillRowD_lengths` in `Proofs/EncRows.lean`)
connects the two models.
`Theorems/C14.lean` proves that (a), (b) without row index, (c) are row-group local — for every
image and every per-unit function — and that (b) with row index, (d), (e) are never split.
-/
import DdsModel.Split
import DdsModel.EncLen
import DdsModel.FormatTables
namespace Dds
namespace EncRows

variable {α β σ : Type}

/-! ## (a) uncompressed / copy: `for_each_chunk` -/

/-- `copy_to_buffer` / `process` on a run of pixels: every closure handed to `for_each_chunk`
(`process_line` of `universal!`, `simple_color_convert`, the `process_line`s of
`uncompressed_untyped`, `copy_from_slice`) writes one encoded pixel per input pixel, in order.
`encPx` is arbitrary. -/
def encPixels (encPx : α → List β) (px : List α) : List β := px.flatMap encPx

/-- contiguous path: `for chunk in image.data().chunks(buffer_pixels * bytes_per_pixel)` —
`copy_to_buffer(chunk)` then `process_chunk` = one `write_all` per chunk.  The list of writes. -/
def contigWrites (encPx : α → List β) (bufPx : Nat) (img : List (List α)) : List (List β) :=
  (chunks bufPx img.flatten).map (encPixels encPx)

/-- the inner `while !row.is_empty()` loop of the row-wise path.  State: `fill` = `fill_pixels`,
`buf` = the valid part `buffer[..fill_pixels * elements_per_pixel]`.  Returns the flushed buffers
(each one `process_chunk(buffer)` = one write), the new fill and buffer.  Same shape as
`EncLen.fillRow` (which keeps only the pixel counts). -/
def fillRowD (encPx : α → List β) (bufPx : Nat) :
    (fuel : Nat) → (row : List α) → (fill : Nat) → (buf : List β) → List (List β) × Nat × List β
  | 0, _, fill, buf => ([], fill, buf)
  | fuel + 1, row, fill, buf =>
    if row = [] then ([], fill, buf) else
    if fill = bufPx then
      -- buffer full: flush it, fill_pixels = 0, then copy at the start of the buffer
      let w := min row.length bufPx
      let r := fillRowD encPx bufPx fuel (row.drop w) w (encPixels encPx (row.take w))
      (buf :: r.1, r.2)
    else
      let w := min row.length (bufPx - fill)
      fillRowD encPx bufPx fuel (row.drop w) (fill + w) (buf ++ encPixels encPx (row.take w))

/-- row-wise path: `for mut row in image.rows() { while .. }`, then
`if fill_pixels > 0 { process_chunk(&mut buffer[..fill_pixels * ..]) }` -/
def rowsWritesAux (encPx : α → List β) (bufPx : Nat) :
    List (List α) → (fill : Nat) → (buf : List β) → List (List β)
  | [], fill, buf => if fill > 0 then [buf] else []
  | row :: rest, fill, buf =>
    let r := fillRowD encPx bufPx (row.length + 1) row fill buf
    r.1 ++ rowsWritesAux encPx bufPx rest r.2.1 r.2.2

def rowsWrites (encPx : α → List β) (bufPx : Nat) (img : List (List α)) : List (List β) :=
  rowsWritesAux encPx bufPx img 0 []

/-- which path `for_each_chunk` takes (`image.is_contiguous()`); `direct` is `copy_directly`'s
single `writer.write_all(image.data())` -/
inductive Path where
  | contiguous | rowWise | direct
  deriving DecidableEq, Repr

/-- bytes written by an uncompressed / copy encoder: the writes in order, concatenated -/
def encUncompressed (p : Path) (encPx : α → List β) (bufPx : Nat) (img : List (List α)) : List β :=
  match p with
  | .contiguous => (contigWrites encPx bufPx img).flatten
  | .rowWise => (rowsWrites encPx bufPx img).flatten
  | .direct => encPixels encPx img.flatten

/-! ## (b) sub-sampled rows: `uncompressed_universal_subsample` -/

/-- fill the rest of a short block with its last pixel
(`last_block[rest..].fill(data[data.len() - 1])`; a full block is unchanged) -/
def padLast (n : Nat) (l : List α) : List α :=
  match l.getLast? with
  | some x => l ++ List.replicate (n - l.length) x
  | none => l

/-- `process_subsample::<BLOCK_WIDTH, _>(data, out, f)`: the full blocks, then the partial block
padded with the last pixel of `data`. -/
def processSubsample (bw : Nat) (f : List α → List β) (data : List α) : List β :=
  let fullLen := data.length / bw * bw
  let rest := data.length - fullLen
  (chunks bw (data.take fullLen)).flatMap f ++
    (if rest > 0 then
       f (match data.getLast? with
          | some x => data.drop fullLen ++ List.replicate (bw - rest) x
          | none => [])
     else [])

/-- one row: `for chunk in y_line.chunks(chunk_size) { process(y_index, chunk, encoded); write }`.
`f y` is the per-block function of row `y` (`y` = index within the image handed to the encoder,
`image.rows().enumerate()`) -/
def subsampleRow (bw chunkPx : Nat) (f : List α → List β) (row : List α) : List β :=
  (chunks chunkPx row).flatMap (processSubsample bw f)

/-- rows `y0, y0+1, …` -/
def encSubsampleFrom (bw chunkPx : Nat) (f : Nat → List α → List β) :
    (y0 : Nat) → List (List α) → List β
  | _, [] => []
  | y, row :: rest => subsampleRow bw chunkPx (f y) row ++ encSubsampleFrom bw chunkPx f (y + 1) rest

/-- `uncompressed_universal_subsample(args, block_width, process)` with
`chunk_pixels = BUFFER_PIXELS / block_width * block_width` -/
def encSubsample (bw chunkPx : Nat) (f : Nat → List α → List β) (img : List (List α)) : List β :=
  encSubsampleFrom bw chunkPx f 0 img

/-- what the output of a row is, independently of the chunking: `f` over the blocks of `bw`
pixels of the row, the last one padded -/
def rowBlocks (bw : Nat) (row : List α) : List (List α) := (chunks bw row).map (padLast bw)

/-! ## (c) block formats: `for_each_f32_rgba_rows` + `block_universal` -/

/-- fill the missing rows of the last row group with its FIRST row
(`intermediate_buffer.copy_within(..width, i * width)` for `i in rest_blocks..block_height`) -/
def padRows (bh : Nat) (g : List (List α)) : List (List α) :=
  match g.head? with
  | some r => g ++ List.replicate (bh - g.length) r
  | none => g

/-- `for_each_f32_rgba_rows(image, block_height, f)`: the successive contents of
`intermediate_buffer` handed to `f` — `height / block_height` full groups, then, when
`height % block_height > 0`, the remaining rows followed by copies of the first of them. -/
def rowGroupBuffers (bh : Nat) (img : List (List α)) : List (List (List α)) :=
  let full := img.length / bh
  let rest := img.length % bh
  (List.range full).map (fun g => (img.drop (g * bh)).take bh) ++
    (if rest > 0 then [padRows bh (img.drop (full * bh))] else [])

/-- the closure of `block_universal` on one buffer (`rows` = the flat buffer, pitch `w`):
`encode_block(&rows[block_index * BLOCK_WIDTH ..], width, ..)` for the `width / BLOCK_WIDTH` full
blocks, then — when `width % BLOCK_WIDTH != 0` — the partial block copied into `block_data` with
every row padded by its last pixel, `encode_block(&block_data, BLOCK_WIDTH, ..)`; one write of all
blocks.  `encBlock data pitch` is arbitrary: it may read anything of the slice it is given. -/
def encodeGroup (bw bh w : Nat) (encBlock : List α → Nat → List β) (buf : List (List α)) : List β :=
  let rows := buf.flatten
  ((List.range (w / bw)).flatMap fun bi => encBlock (rows.drop (bi * bw)) w) ++
    (if w % bw ≠ 0 then
       let start := w / bw * bw
       let bwid := w - start
       encBlock ((List.range bh).flatMap fun i =>
         padLast bw ((rows.drop (start + i * w)).take bwid)) bw
     else [])

/-- `block_universal::<BW, BH, _, _>(args, encode_block)` -/
def encBlocks (bw bh w : Nat) (encBlock : List α → Nat → List β) (img : List (List α)) : List β :=
  (rowGroupBuffers bh img).flatMap (encodeGroup bw bh w encBlock)

/-- how the block encoders read their slice (`get_4x4_rgba`, `get_4x4_grayscale`, …:
`block[i * 4 + j] = data[i * row_pitch + j]`): the `bw × bh` pixels at the start of the slice -/
def blockAt (bw bh : Nat) (data : List α) (pitch : Nat) : List α :=
  (List.range bh).flatMap fun i => (data.drop (i * pitch)).take bw

/-- the blocks of a row group `g` (rows of `w` pixels), without any buffer: block column `bi` holds
of every row the pixels `[bi·bw, bi·bw + bw)`, a run cut short by the right edge being padded with
its last pixel -/
def groupBlocks (bw w : Nat) (g : List (List α)) : List (List α) :=
  (List.range (divCeil w bw)).map fun bi =>
    g.flatMap fun row => padLast bw ((row.drop (bi * bw)).take bw)

/-! ## (d) bi-planar: `bi_planar_universal` -/

/-- plane 1 of every row pair is written as the pair is processed, the plane-2 samples are pushed
to a `Vec` that is written after the last pair.  `encPair buf = (plane-1 bytes, plane-2 samples)`
of one buffer is arbitrary.  (The `InvalidSize` refusal for odd sizes is C15's `size_rule`.) -/
def encBiPlanar (encPair : List (List α) → List β × List β) (img : List (List α)) : List β :=
  let groups := (rowGroupBuffers 2 img).map encPair
  groups.flatMap (·.1) ++ groups.flatMap (·.2)

/-! ## (e) global error diffusion: `uncompressed_universal_dither` -/

/-- `for row in image.rows()`: `step` = swap of the error lines + the chunk loop of one row
(arbitrary); `s` = `next_line_error` left by the previous row -/
def encDitherFrom (step : σ → List α → List β × σ) : σ → List (List α) → List β
  | _, [] => []
  | s, row :: rest => (step s row).1 ++ encDitherFrom step (step s row).2 rest

/-- `s0` = the zeroed error buffer every call of the encoder starts with -/
def encDither (step : σ → List α → List β × σ) (s0 : σ) (img : List (List α)) : List β :=
  encDitherFrom step s0 img

/-! ## which family runs for which encoder of the table

`FormatTables.lean` (C19, tied to the library on every run) pins for every format the encoder list
(`encoderSet`: constructor of the set, kind of every body), `pick_encoder` (`EncSet.pick`) and the
pixel layout (`Format.row .px`, block width / height).  `Split.lean` pins `encoding_support()` by
format NAME (tied by C14's `sup` cases).  `Runs` says of which data-flow family the body of an
encoder of the table is an instance — by reading the encoder lists:

* uncompressed.rs (layout `fixed`): `Encoder::copy` → `copy_directly`; `color_convert!` and the
  `Encoder::new(ColorFormatSet::U8, ..)` bodies → `uncompressed_untyped`; `universal!` →
  `uncompressed_universal` — kind `plain`, family (a); `universal_dither!` →
  `uncompressed_universal_dither` — kind `fsDither`, family (e)
* sub_sampled.rs (layout `block _ bw 1`): `universal_subsample!` — kind `plain`, family (b) with a
  per-block function that ignores the row index; `universal_subsample_dither!` — kind `bayer`,
  family (b) with the row index
* bc.rs (set constructor `new_bc`, layout `block _ 4 4`): `block_4x4` = `block_universal::<4, 4, ..>`
  — kind `bc _`, family (c) with the layout's block size
* bi_planar.rs (set constructor `new_bi_planar`): `bi_planar_universal` — family (d)
-/

open C19 in
inductive Runs {α β : Type} (w : Nat) :
    SetCtor → EncKind → PixelInfo → (List (List α) → List β) → Prop where
  | uncompressed (bpp : Nat) (p : Path) (encPx : α → List β) (bufPx : Nat) (hb : 0 < bufPx) :
      Runs w .plain .plain (.fixed bpp) (encUncompressed p encPx bufPx)
  | subsample (bytes bw chunkPx : Nat) (f : List α → List β) :
      Runs w .plain .plain (.block bytes bw 1) (encSubsample bw chunkPx (fun _ => f))
  | bayer (bytes bw chunkPx : Nat) (f : Nat → List α → List β) :
      Runs w .plain .bayer (.block bytes bw 1) (encSubsample bw chunkPx f)
  | fsDither (bpp : Nat) (σ : Type) (step : σ → List α → List β × σ) (s0 : σ) :
      Runs w .plain .fsDither (.fixed bpp) (encDither step s0)
  | block (bytes bw bh : Nat) (wiring : BcWiring) (encBlock : List α → Nat → List β) :
      Runs w .bc (.bc wiring) (.block bytes bw bh) (encBlocks bw bh w encBlock)
  | biPlanar (p1 p2 sx sy : Nat) (kind : EncKind) (encPair : List (List α) → List β × List β) :
      Runs w .biPlanar kind (.biPlanar p1 p2 sx sy) (encBiPlanar encPair)

/-- `Dithering::new(color, alpha)` (C19's pair) as the enum of `Split.lean` -/
def ditheringOf (d : C19.Dithering) : Dithering :=
  match d.color, d.alpha with
  | false, false => .none
  | true, true => .colorAndAlpha
  | true, false => .color
  | false, true => .alpha

/-- the two pinned tables agree on everything `get_fragment_height` reads -/
def tablesAgree (sup : Support) (s : C19.Support) : Bool :=
  sup.dithering == ditheringOf s.dithering && sup.splitHeight == s.splitHeight &&
    sup.localDithering == s.localDithering

/-- the advertised split height against the set constructor and the row-group height of the
layout: a `NonZeroU8` multiple of the block height; none for bi-planar formats -/
def splitOk (ctor : C19.SetCtor) (px : PixelInfo) (sh : Option Nat) : Bool :=
  match ctor, px, sh with
  | .plain, .fixed _, some sh => decide (0 < sh ∧ sh < U8)
  | .plain, .block _ _ bh, some sh => decide (0 < sh ∧ sh < U8) && bh == 1
  | .bc, .block _ _ bh, some sh => decide (0 < sh ∧ sh < U8) && decide (0 < bh) && sh % bh == 0
  | .biPlanar, .biPlanar _ _ _ _, none => true
  | _, _, _ => false

/-- a body with state across rows (`fsDither`) or reading the row index (`bayer`) is picked only
when `get_fragment_height` refuses to split because global dithering applies -/
def kindOk (kind : C19.EncKind) (ctor : C19.SetCtor) (sup : Support) (d : Dithering) : Bool :=
  match kind, ctor with
  | .plain, .plain => true
  | _, .biPlanar => true
  | .bc _, .bc => true
  | .fsDither, .plain => !sup.localDithering && decide (d.intersect sup.dithering ≠ .none)
  | .bayer, .plain => !sup.localDithering && decide (d.intersect sup.dithering ≠ .none)
  | _, _ => false

/-- everything `fragmentwise_eq_whole_all_families` needs from the tables, for one format, input
colour and dithering option; `Theorems/C14.lean` evaluates it on all 73 × 12 × 4 combinations. -/
def familyCheck (f : C19.Format) (c : C19.ColorFormat) (d : C19.Dithering) : Bool :=
  match C19.encoderSet f with
  | none => supportOf f.name == some none
  | some s =>
    match supportOf f.name with
    | some (some sup) =>
      tablesAgree sup s.support && splitOk s.ctor f.row.px sup.splitHeight &&
        (match s.pick c d with
         | none => false
         | some i =>
           match s.encs[i]? with
           | none => false
           | some e => kindOk e.kind s.ctor sup (ditheringOf d))
    | _ => false

end EncRows
end Dds
