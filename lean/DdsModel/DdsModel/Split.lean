/-
Model of `src/split.rs` (fragment height, `SplitView`), of the parts of `src/encode/mod.rs` /
`src/encode/encoder.rs` / `src/encode/bc.rs` that decide how a surface is split
(`EncodingSupport`, `PreferredFragmentSize`, `Dithering::intersect`), and of the way
`encode_parallel` assembles the fragment results (rayon's indexed `collect`).

Everything is `Nat`; `u32`/`u64` operators of the source are modelled by the operators of
`Mach.lean` (`wMul32` … wrapping in the release profile) and `Theorems/C14.lean` shows that the
ideal values are in range.
-/
import DdsModel.Mach
import DdsModel.SrcConsts
namespace Dds

/-! ## options -/

/-- `Dithering` (src/encode/mod.rs) -/
inductive Dithering where
  | none | colorAndAlpha | color | alpha
  deriving DecidableEq, Repr, Inhabited

/-- `Dithering::intersect`, the match arms in source order -/
def Dithering.intersect : Dithering → Dithering → Dithering
  | .none, _ => .none
  | _, .none => .none
  | .colorAndAlpha, o => o
  | o, .colorAndAlpha => o
  | .color, .alpha => .none
  | .alpha, .color => .none
  | .color, .color => .color
  | .alpha, .alpha => .alpha

/-- `CompressionQuality` -/
inductive Quality where
  | fast | normal | high | unreasonable
  deriving DecidableEq, Repr, Inhabited

/-- `PreferredFragmentSize`: the `u8` fields are base-2 logarithms -/
inductive FragSize where
  | entireImage
  | fragment (fast high unreasonable : Nat)
  deriving DecidableEq, Repr, Inhabited

/-- `PreferredFragmentSize::new(fast, high, unreasonable)` for powers of two given as exponents
(`log2` of the source is exact on powers of two, which `debug_assert!`s demand). -/
def FragSize.ofLog2 (f h u : Nat) : FragSize := .fragment f h u

/-- `PreferredFragmentSize::combine` -/
def FragSize.combine : FragSize → FragSize → FragSize
  | .entireImage, o => o
  | s, .entireImage => s
  | .fragment a b c, .fragment x y z => .fragment (min a x) (min b y) (min c z)

/-- `PreferredFragmentSize::get_preferred`: `u64::MAX` for `EntireImage`, else
`1 << size_log2.min(63)` where Normal is `((fast as u16 + high as u16) / 2) as u8`. -/
def FragSize.getPreferred (s : FragSize) (q : Quality) : Nat :=
  match s with
  | .entireImage => U64 - 1
  | .fragment f h u =>
    let l := match q with
      | .fast => f
      | .normal => ((f + h) / 2) % U8
      | .high => h
      | .unreasonable => u
    2 ^ (min l 63)

/-- `EncodingSupport` (the fields `get_fragment_height` reads).  `splitHeight` is an
`Option<NonZeroU8>`. -/
structure Support where
  dithering : Dithering
  splitHeight : Option Nat
  localDithering : Bool
  fragmentSize : FragSize
  deriving DecidableEq, Repr, Inhabited

/-- the invariant of `NonZeroU8` -/
def Support.WF (s : Support) : Prop := ∀ sh, s.splitHeight = some sh → 0 < sh ∧ sh < U8

/-! ## `get_fragment_height` -/

/-- `u32::try_from(x: u64).ok()` -/
def tryU32 (x : Nat) : Option Nat := if x < U32 then some x else none

/-- `get_fragment_height(size, format, options)` of src/split.rs, statement by statement.
`sup = none` is `format.encoding_support()? == None`. -/
def getFragmentHeight (w h : Nat) (sup : Option Support) (dith : Dithering) (q : Quality) :
    Option Nat :=
  -- if size.is_empty() { return None; }
  if w = 0 ∨ h = 0 then none else
  -- let support = format.encoding_support()?;
  match sup with
  | none => none
  | some s =>
  -- let split_height = support.split_height()?;
  match s.splitHeight with
  | none => none
  | some sh =>
  -- if !support.local_dithering() && options.dithering.intersect(support.dithering()) != None
  if (!s.localDithering) && decide (dith.intersect s.dithering ≠ .none) then none else
  -- let fragment_pixels = support.fragment_size.get_preferred(options.quality).max(1);
  let fp := max (s.fragmentSize.getPreferred q) 1
  -- if fragment_pixels >= size.pixels() { return None; }     (pixels = w as u64 * h as u64)
  if fp ≥ w * h then none else
  -- u32::try_from((fragment_pixels / size.width as u64) / split_height_64 * split_height_64).ok()?
  match tryU32 (wMul ((fp / w) / sh) sh) with
  | none => none
  | some v =>
  -- NonZeroU32::new(fragment_height_or_zero).unwrap_or(split_height.into())
  some (if v = 0 then sh else v)

/-! ## `SplitView` -/

/-- plain `*` on `u32` in the release profile -/
def wMul32 (a b : Nat) : Nat := (a * b) % U32
/-- plain `-` on `u32` in the release profile -/
def wSub32 (a b : Nat) : Nat := (a + U32 - b % U32) % U32

/-- `SplitView { image, len, fragment_height }` (the image is represented by its size) -/
structure SplitView where
  w : Nat
  h : Nat
  len : Nat
  fragmentHeight : Option Nat
  deriving DecidableEq, Repr, Inhabited

/-- `SplitView::new` (and `new_single` in the `else` branch) -/
def SplitView.new (w h : Nat) (sup : Option Support) (dith : Dithering) (q : Quality) : SplitView :=
  match getFragmentHeight w h sup dith q with
  | some fh => { w, h, len := divCeil h fh, fragmentHeight := some fh }
  | none => { w, h, len := 1, fragmentHeight := none }

/-- `SplitView::get(index)`: `(start_y, fragment height)` of the crop, `none` when out of bounds. -/
def SplitView.get (s : SplitView) (index : Nat) : Option (Nat × Nat) :=
  if index ≥ s.len then none else
  match s.fragmentHeight with
  | some fh =>
    let startY := wMul32 index fh
    let endY := min (satAdd32 startY fh) s.h
    some (startY, wSub32 endY startY)
  | none => some (0, s.h)

/-- `SplitView::single` -/
def SplitView.single (s : SplitView) : Option (Nat × Nat) :=
  if s.len = 1 then some (0, s.h) else none

/-- all fragments in index order (`(0..split.len()).map(|i| split.get(i))`) -/
def SplitView.fragments (s : SplitView) : List (Option (Nat × Nat)) :=
  (List.range s.len).map s.get

/-! ## assembling the fragment results

`(0..len).into_par_iter().map(job).collect::<Result<Vec<_>,_>>()`: every job writes its result into
the slot of its own index, whatever the order in which the jobs finish; the vector is then read in
index order.  `order` is the completion order chosen by the scheduler. -/

/-- slots after the jobs listed in `order` have finished -/
def collectSlots {α : Type} (n : Nat) (r : Nat → α) (order : List Nat) : List (Option α) :=
  order.foldl (fun slots i => slots.set i (some (r i))) (List.replicate n none)

/-- all slots filled? -/
def allSome {α : Type} : List (Option α) → Option (List α)
  | [] => some []
  | none :: _ => none
  | some a :: t => (allSome t).map (a :: ·)

/-- the collected vector, `none` if some slot was never filled -/
def assemble {α : Type} (n : Nat) (r : Nat → α) (order : List Nat) : Option (List α) :=
  allSome (collectSlots n r order)

/-- `for fragment in encoded_fragments { writer.write_all(&fragment) }` -/
def writeOut {β : Type} (frags : List (List β)) : List β := frags.flatten

/-! ## row groups (for the fragment-wise clause) -/

/-- consecutive chunks of `k` elements, the last one possibly shorter
(`for_each_f32_rgba_rows` / `chunks(k)`); used both for "row groups of split height `sh`"
and for "fragments of height `F`". -/
def chunks {ρ : Type} (k : Nat) (l : List ρ) : List (List ρ) :=
  if _h : k = 0 ∨ l = [] then [] else
    l.take k :: chunks k (l.drop k)
termination_by l.length
decreasing_by
  have hk : 0 < k := by omega
  have hl : 0 < l.length := by
    cases l with
    | nil => simp at _h
    | cons a t => simp
  simp only [List.length_drop]
  omega

/-- rows of fragment `i` of a split view, cut out of the image's rows -/
def SplitView.fragmentRows {ρ : Type} (s : SplitView) (img : List ρ) (i : Nat) : List ρ :=
  match s.get i with
  | some (o, k) => (img.drop o).take k
  | none => []

/-! ## format table

`Format::encoding_support()` = `get_encoders(format).map(|e| e.encoding_support())`:
`EncoderSet::new` (split height 1, no local dithering), `new_bc` (split height 4, local dithering),
`new_bi_planar` (no split height); `fragment_size` is that of the first encoder of the set
(`EntireImage` unless `with_fragment_size`), `dithering` the union of the encoders' dither flags. -/

/-- `BC1_FRAGMENT_SIZE = new(64*64, 16*16, 16*16)` at the pinned commit; the exponents are regenerated from the source -/
def bc1Frag : FragSize :=
  .ofLog2 SrcConsts.BC1_FRAG_LOG2_FAST SrcConsts.BC1_FRAG_LOG2_HIGH SrcConsts.BC1_FRAG_LOG2_UNREASONABLE
/-- `BC4_FRAGMENT_SIZE = new(64*64, 32*32, 8*8)` -/
def bc4Frag : FragSize :=
  .ofLog2 SrcConsts.BC4_FRAG_LOG2_FAST SrcConsts.BC4_FRAG_LOG2_HIGH SrcConsts.BC4_FRAG_LOG2_UNREASONABLE
/-- `BC3_FRAGMENT_SIZE = BC1_FRAGMENT_SIZE.combine(BC4_FRAGMENT_SIZE)` -/
def bc3Frag : FragSize := bc1Frag.combine bc4Frag
/-- `BC7_FRAGMENT_SIZE = new(16*16, 16*16, 16*16)` -/
def bc7Frag : FragSize :=
  .ofLog2 SrcConsts.BC7_FRAG_LOG2_FAST SrcConsts.BC7_FRAG_LOG2_HIGH SrcConsts.BC7_FRAG_LOG2_UNREASONABLE

def supPlain (d : Dithering) : Support := ⟨d, some 1, false, .entireImage⟩
def supBc (d : Dithering) (f : FragSize) : Support := ⟨d, some 4, true, f⟩
def supBiPlanar : Support := ⟨.none, none, false, .entireImage⟩

/-- format name ↦ `encoding_support()`; `none` = unknown name, `some none` = not encodable -/
def supportOf (name : String) : Option (Option Support) :=
  let all := Dithering.colorAndAlpha
  let col := Dithering.color
  match name with
  | "R8G8B8_UNORM" | "B8G8R8_UNORM" | "B8G8R8X8_UNORM" | "B5G6R5_UNORM" | "R8_SNORM" | "R8_UNORM"
  | "R8G8_UNORM" | "R8G8_SNORM" | "R16_UNORM" | "R16_SNORM" | "R16G16_UNORM" | "R16G16_SNORM"
  | "R11G11B10_FLOAT" | "R9G9B9E5_SHAREDEXP" | "R16_FLOAT" | "R16G16_FLOAT" | "R1_UNORM" =>
    some (some (supPlain col))
  | "R8G8B8A8_UNORM" | "R8G8B8A8_SNORM" | "B8G8R8A8_UNORM" | "B5G5R5A1_UNORM" | "B4G4R4A4_UNORM"
  | "A4B4G4R4_UNORM" | "R16G16B16A16_UNORM" | "R16G16B16A16_SNORM" | "R10G10B10A2_UNORM"
  | "R16G16B16A16_FLOAT" | "R10G10B10_XR_BIAS_A2_UNORM" | "AYUV" | "Y410" | "Y416" =>
    some (some (supPlain all))
  | "A8_UNORM" => some (some (supPlain .alpha))
  | "R32_FLOAT" | "R32G32_FLOAT" | "R32G32B32_FLOAT" | "R32G32B32A32_FLOAT" | "R8G8_B8G8_UNORM"
  | "G8R8_G8B8_UNORM" | "UYVY" | "YUY2" | "Y210" | "Y216" => some (some (supPlain .none))
  | "NV12" | "P010" | "P016" => some (some supBiPlanar)
  | "BC1_UNORM" | "BC2_UNORM" | "BC2_UNORM_PREMULTIPLIED_ALPHA" => some (some (supBc all bc1Frag))
  | "BC3_UNORM" | "BC3_UNORM_PREMULTIPLIED_ALPHA" => some (some (supBc all bc3Frag))
  | "BC3_UNORM_RXGB" | "BC3_UNORM_NORMAL" => some (some (supBc col bc3Frag))
  | "BC4_UNORM" | "BC4_SNORM" | "BC5_UNORM" | "BC5_SNORM" => some (some (supBc col bc4Frag))
  | "BC7_UNORM" => some (some (supBc all bc7Frag))
  | "BC6H_UF16" | "BC6H_SF16" | "ASTC_4X4_UNORM" | "ASTC_5X4_UNORM" | "ASTC_5X5_UNORM"
  | "ASTC_6X5_UNORM" | "ASTC_6X6_UNORM" | "ASTC_8X5_UNORM" | "ASTC_8X6_UNORM" | "ASTC_8X8_UNORM"
  | "ASTC_10X5_UNORM" | "ASTC_10X6_UNORM" | "ASTC_10X8_UNORM" | "ASTC_10X10_UNORM"
  | "ASTC_12X10_UNORM" | "ASTC_12X12_UNORM" => some none
  | _ => none

end Dds
