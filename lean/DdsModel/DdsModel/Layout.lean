/-
Model of src/pixel.rs (`PixelInfo::surface_bytes`), src/util.rs
(`get_mipmap_size`) and src/layout.rs (`Texture`, `Volume`, `TextureArray`,
`DataLayout::from_header_with`).

Conventions: `Option` results whose `none` stands for a Rust *panic*
(`unwrap()` on a checked length) are suffixed `!?`-style by the word `P`
(e.g. `dataLenP`); `Option`/`Except` results that are ordinary Rust `Option`/
`Result` values carry no suffix.
-/
import DdsModel.Mach
namespace Dds

/-- src/pixel.rs `PixelInfo`. All fields are `u8` (block sizes 1..15). -/
inductive PixelInfo where
  | fixed (bpp : Nat)
  | block (bytes bw bh : Nat)
  | biPlanar (p1 p2 sx sy : Nat)
deriving DecidableEq, Repr, Inhabited

/-- what the public constructors `PixelInfo::{fixed,block,bi_planar}` guarantee -/
def PixelInfo.WF : PixelInfo → Prop
  | .fixed bpp => bpp < 256
  | .block bytes bw bh => bytes < 256 ∧ 0 < bw ∧ bw < 16 ∧ 0 < bh ∧ bh < 16
  | .biPlanar p1 p2 sx sy => p1 < 16 ∧ p2 < 16 ∧ 0 < sx ∧ sx < 16 ∧ 0 < sy ∧ sy < 16

instance (p : PixelInfo) : Decidable p.WF := by
  cases p <;> unfold PixelInfo.WF <;> exact inferInstance

/-- `PixelInfo::surface_bytes` -/
def PixelInfo.surfaceBytes (p : PixelInfo) (w h : Nat) : Option Nat :=
  match p with
  | .fixed bpp => ckMul (w * h) bpp
  | .block bytes bw bh => ckMul (divCeil w bw * divCeil h bh) bytes
  | .biPlanar p1 p2 sx sy =>
    match ckMul (w * h) p1 with
    | none => none
    | some a =>
      match ckMul (divCeil w sx * divCeil h sy) p2 with
      | none => none
      | some b => ckAdd a b

/-- the mathematical surface length (the property's formula) -/
def PixelInfo.surfIdeal (p : PixelInfo) (w h : Nat) : Nat :=
  match p with
  | .fixed bpp => w * h * bpp
  | .block bytes bw bh => ((w + bw - 1) / bw) * ((h + bh - 1) / bh) * bytes
  | .biPlanar p1 p2 sx sy => w * h * p1 + ((w + sx - 1) / sx) * ((h + sy - 1) / sy) * p2

/-- `util::get_mipmap_size` (on `u32`, `level : u8`) -/
def mipSize (d level : Nat) : Nat :=
  if level ≥ 31 then 1 else if d >>> level = 0 then 1 else d >>> level

structure Surface where
  w : Nat
  h : Nat
  offset : Nat
  len : Nat
deriving DecidableEq, Repr, Inhabited

structure VolumeDesc where
  w : Nat
  h : Nat
  d : Nat
  offset : Nat
  sliceLen : Nat
deriving DecidableEq, Repr, Inhabited

/-- `to_short_len` -/
def toShortLen (len : Nat) : Option Nat :=
  if len < U32 ∧ len ≠ 0 then some len else none

/-- `get_texture_len`: loop `for level in 0..mipmaps` with the accumulator -/
def textureLenAux (px : PixelInfo) (w h : Nat) : (level n acc : Nat) → Option Nat
  | _, 0, acc => some acc
  | level, n + 1, acc =>
    match px.surfaceBytes (mipSize w level) (mipSize h level) with
    | none => none
    | some m =>
      match ckAdd acc m with
      | none => none
      | some acc' => textureLenAux px w h (level + 1) n acc'

def textureLen (px : PixelInfo) (w h mips : Nat) : Option Nat :=
  textureLenAux px w h 0 mips 0

structure Texture where
  w : Nat
  h : Nat
  mips : Nat
  px : PixelInfo
  offsetIndex : Nat
  shortLen : Option Nat
deriving DecidableEq, Repr, Inhabited

inductive LayoutErr where
  | tooManyMipMaps | missingDepth | zeroDimension | arraySizeTooBig
  | dataLayoutTooBig | invalidCubeMapFaces
deriving DecidableEq, Repr, Inhabited

/-- `Texture::create_at_offset_0` -/
def Texture.create (w h mips : Nat) (px : PixelInfo) : Except LayoutErr Texture :=
  match textureLen px w h mips with
  | none => .error .dataLayoutTooBig
  | some len => .ok { w, h, mips, px, offsetIndex := 0, shortLen := toShortLen len }

/-- `DataRegion::data_len for Texture`; `none` = panic of `unwrap()` -/
def Texture.dataLenP (t : Texture) : Option Nat :=
  match t.shortLen with
  | some l => some l
  | none => textureLen t.px t.w t.h t.mips

/-- `DataRegion::data_offset for Texture` (release arithmetic) -/
def Texture.dataOffsetP (t : Texture) : Option Nat :=
  t.dataLenP.map fun l => wMul t.offsetIndex l

/-- `DataRegion::data_end for Texture` (release arithmetic) -/
def Texture.dataEndP (t : Texture) : Option Nat :=
  t.dataLenP.map fun l => wMul (wAdd t.offsetIndex 1) l

/-- `Texture::iter_mips`: the closure state is the running `offset` -/
def iterMipsAux (px : PixelInfo) (w h : Nat) : (level n offset : Nat) → Option (List Surface)
  | _, 0, _ => some []
  | level, n + 1, offset =>
    match px.surfaceBytes (mipSize w level) (mipSize h level) with
    | none => none
    | some len =>
      match iterMipsAux px w h (level + 1) n (wAdd offset len) with
      | none => none
      | some rest => some (⟨mipSize w level, mipSize h level, offset, len⟩ :: rest)

def Texture.iterMipsP (t : Texture) : Option (List Surface) :=
  match t.dataOffsetP with
  | none => none
  | some off => iterMipsAux t.px t.w t.h 0 t.mips off

/-- `Texture::get(level)` = `iter_mips().nth(level)`; outer `none` = panic -/
def Texture.getP (t : Texture) (level : Nat) : Option (Option Surface) :=
  t.iterMipsP.map fun l => l[level]?

/-- `Texture::main` -/
def Texture.mainP (t : Texture) : Option Surface :=
  match t.px.surfaceBytes t.w t.h, t.dataOffsetP with
  | some len, some off => some ⟨t.w, t.h, off, len⟩
  | _, _ => none

/-- `get_volume_len` -/
def volumeLenAux (px : PixelInfo) (w h d : Nat) : (level n acc : Nat) → Option Nat
  | _, 0, acc => some acc
  | level, n + 1, acc =>
    match px.surfaceBytes (mipSize w level) (mipSize h level) with
    | none => none
    | some sl =>
      match ckMul sl (mipSize d level) with
      | none => none
      | some ml =>
        match ckAdd acc ml with
        | none => none
        | some acc' => volumeLenAux px w h d (level + 1) n acc'

def volumeLen (px : PixelInfo) (w h d mips : Nat) : Option Nat :=
  volumeLenAux px w h d 0 mips 0

structure Volume where
  w : Nat
  h : Nat
  d : Nat
  mips : Nat
  px : PixelInfo
deriving DecidableEq, Repr, Inhabited

def Volume.create (w h d mips : Nat) (px : PixelInfo) : Except LayoutErr Volume :=
  match volumeLen px w h d mips with
  | none => .error .dataLayoutTooBig
  | some _ => .ok { w, h, d, mips, px }

def Volume.dataLenP (v : Volume) : Option Nat := volumeLen v.px v.w v.h v.d v.mips

/-- `Volume::iter_mips` -/
def volIterMipsAux (px : PixelInfo) (w h d : Nat) :
    (level n offset : Nat) → Option (List VolumeDesc)
  | _, 0, _ => some []
  | level, n + 1, offset =>
    match px.surfaceBytes (mipSize w level) (mipSize h level) with
    | none => none
    | some sl =>
      match volIterMipsAux px w h d (level + 1) n (wAdd offset (wMul (mipSize d level) sl)) with
      | none => none
      | some rest =>
        some (⟨mipSize w level, mipSize h level, mipSize d level, offset, sl⟩ :: rest)

def Volume.iterMipsP (v : Volume) : Option (List VolumeDesc) :=
  volIterMipsAux v.px v.w v.h v.d 0 v.mips 0

def Volume.getP (v : Volume) (level : Nat) : Option (Option VolumeDesc) :=
  v.iterMipsP.map fun l => l[level]?

/-- `VolumeDescriptor::get_depth_slice` -/
def VolumeDesc.getDepthSlice (v : VolumeDesc) (k : Nat) : Option Surface :=
  if k < v.d then some ⟨v.w, v.h, wAdd v.offset (wMul k v.sliceLen), v.sliceLen⟩ else none

/-- `VolumeDescriptor::iter_depth_slices` -/
def VolumeDesc.iterDepthSlices (v : VolumeDesc) : List Surface :=
  (List.range v.d).map fun k => ⟨v.w, v.h, wAdd v.offset (wMul k v.sliceLen), v.sliceLen⟩

/-- `DataRegion::data_len for VolumeDescriptor` -/
def VolumeDesc.dataLen (v : VolumeDesc) : Nat := wMul v.sliceLen v.d

inductive ArrayKind where
  | textures | cubeMaps | partialCubeMap (faces : Nat)
deriving DecidableEq, Repr, Inhabited

structure TextureArray where
  kind : ArrayKind
  arrayLen : Nat
  w : Nat
  h : Nat
  mips : Nat
  px : PixelInfo
  shortLen : Option Nat
deriving DecidableEq, Repr, Inhabited

/-- `TextureArray::new`; the inner `Option` is the `data_len()` unwrap -/
def TextureArray.new (kind : ArrayKind) (arrayLen : Nat) (first : Texture) :
    Option (Except LayoutErr TextureArray) :=
  match first.dataLenP with
  | none => none
  | some l =>
    match ckMul l arrayLen with
    | none => some (.error .dataLayoutTooBig)
    | some _ => some (.ok { kind, arrayLen, w := first.w, h := first.h, mips := first.mips,
                            px := first.px, shortLen := first.shortLen })

def TextureArray.first (a : TextureArray) : Texture :=
  { w := a.w, h := a.h, mips := a.mips, px := a.px, offsetIndex := 0, shortLen := a.shortLen }

/-- `TextureArray::get` -/
def TextureArray.get (a : TextureArray) (i : Nat) : Option Texture :=
  if i < a.arrayLen then some { a.first with offsetIndex := i } else none

/-- `TextureArray::iter` -/
def TextureArray.iter (a : TextureArray) : List Texture :=
  (List.range a.arrayLen).map fun i => { a.first with offsetIndex := i }

def TextureArray.dataLenP (a : TextureArray) : Option Nat :=
  a.first.dataLenP.map fun l => wMul l a.arrayLen

inductive DataLayout where
  | texture (t : Texture)
  | volume (v : Volume)
  | textureArray (a : TextureArray)
deriving DecidableEq, Repr, Inhabited

def DataLayout.dataLenP : DataLayout → Option Nat
  | .texture t => t.dataLenP
  | .volume v => v.dataLenP
  | .textureArray a => a.dataLenP

def DataLayout.mips : DataLayout → Nat
  | .texture t => t.mips
  | .volume v => v.mips
  | .textureArray a => a.mips

def DataLayout.px : DataLayout → PixelInfo
  | .texture t => t.px
  | .volume v => v.px
  | .textureArray a => a.px

/-! ### The part of a header the layout depends on -/

inductive ResDim where
  | tex1D | tex2D | tex3D
deriving DecidableEq, Repr, Inhabited

inductive HeaderKind where
  /-- DX10: `misc_flag.contains(TEXTURE_CUBE)`, resource dimension, `array_size` -/
  | dx10 (isCube : Bool) (dim : ResDim) (arraySize : Nat)
  /-- DX9: the raw `caps2` bits -/
  | dx9 (caps2 : Nat)
deriving DecidableEq, Repr, Inhabited

structure LayoutHeader where
  width : Nat
  height : Nat
  depth : Option Nat
  /-- `NonZeroU32` -/
  mipmapCount : Nat
  kind : HeaderKind
deriving DecidableEq, Repr, Inhabited

def CAPS2_CUBE_MAP : Nat := 0x200
def CAPS2_VOLUME : Nat := 0x200000

/-- `CubeMapFaces::from(Caps2)`: bits 10..15 shifted down -/
def cubeFacesOfCaps2 (caps2 : Nat) : Nat := (caps2 >>> 10) % 64

def popCount6 (f : Nat) : Nat :=
  f % 2 + (f / 2) % 2 + (f / 4) % 2 + (f / 8) % 2 + (f / 16) % 2 + (f / 32) % 2

def parseDimension (d : Nat) : Except LayoutErr Nat :=
  if d = 0 then .error .zeroDimension else .ok d

def parseMipmapCount (m : Nat) : Except LayoutErr Nat :=
  if m < 256 then .ok m else .error .tooManyMipMaps

structure SurfaceLayoutInfo where
  w : Nat
  h : Nat
  mips : Nat
  px : PixelInfo

def SurfaceLayoutInfo.fromHeader (hd : LayoutHeader) (px : PixelInfo) :
    Except LayoutErr SurfaceLayoutInfo :=
  match parseDimension hd.width with
  | .error e => .error e
  | .ok w =>
    match parseDimension hd.height with
    | .error e => .error e
    | .ok h =>
      match parseMipmapCount hd.mipmapCount with
      | .error e => .error e
      | .ok mips => .ok { w, h, mips, px }

def SurfaceLayoutInfo.create (i : SurfaceLayoutInfo) : Except LayoutErr Texture :=
  Texture.create i.w i.h i.mips i.px

/-- `SurfaceLayoutInfo::create_array`; outer `Option` = panic -/
def SurfaceLayoutInfo.createArray (i : SurfaceLayoutInfo) (kind : ArrayKind) (n : Nat) :
    Option (Except LayoutErr TextureArray) :=
  match i.create with
  | .error e => some (.error e)
  | .ok t => TextureArray.new kind n t

def volumeFromHeader (hd : LayoutHeader) (px : PixelInfo) : Except LayoutErr Volume :=
  match parseDimension hd.width with
  | .error e => .error e
  | .ok w =>
    match parseDimension hd.height with
    | .error e => .error e
    | .ok h =>
      match hd.depth with
      | none => .error .missingDepth
      | some d0 =>
        match parseDimension d0 with
        | .error e => .error e
        | .ok d =>
          match parseMipmapCount hd.mipmapCount with
          | .error e => .error e
          | .ok mips => Volume.create w h d mips px

def liftArr (r : Option (Except LayoutErr TextureArray)) : Option (Except LayoutErr DataLayout) :=
  r.map fun e => e.map DataLayout.textureArray

/-- `DataLayout::from_header_with`; outer `Option` = panic -/
def layoutOf (hd : LayoutHeader) (px : PixelInfo) : Option (Except LayoutErr DataLayout) :=
  match hd.kind with
  | .dx10 isCube dim arraySize =>
    if isCube then
      if dim ≠ .tex2D then some (.error .invalidCubeMapFaces) else
      match SurfaceLayoutInfo.fromHeader hd px with
      | .error e => some (.error e)
      | .ok info =>
        match ckMul32 arraySize 6 with
        | none => some (.error .arraySizeTooBig)
        | some faces => liftArr (info.createArray .cubeMaps faces)
    else
      match dim with
      | .tex3D => some ((volumeFromHeader hd px).map DataLayout.volume)
      | d =>
        match SurfaceLayoutInfo.fromHeader hd px with
        | .error e => some (.error e)
        | .ok info0 =>
          let info : SurfaceLayoutInfo := if d = .tex1D then { info0 with h := 1 } else info0
          if arraySize = 1 then some (info.create.map DataLayout.texture)
          else liftArr (info.createArray .textures arraySize)
  | .dx9 caps2 =>
    if caps2 / CAPS2_CUBE_MAP % 2 = 1 then
      if caps2 / CAPS2_VOLUME % 2 = 1 then some (.error .invalidCubeMapFaces) else
      match SurfaceLayoutInfo.fromHeader hd px with
      | .error e => some (.error e)
      | .ok info =>
        let faces := cubeFacesOfCaps2 caps2
        let n := popCount6 faces
        let kind := if n = 6 then ArrayKind.cubeMaps else ArrayKind.partialCubeMap faces
        liftArr (info.createArray kind n)
    else if caps2 / CAPS2_VOLUME % 2 = 1 then
      some ((volumeFromHeader hd px).map DataLayout.volume)
    else
      match SurfaceLayoutInfo.fromHeader hd px with
      | .error e => some (.error e)
      | .ok info => some (info.create.map DataLayout.texture)

/-! ### Flattening through the iterators of the source -/

def sequenceOpt {α : Type} : List (Option α) → Option (List α)
  | [] => some []
  | none :: _ => none
  | some a :: r => (sequenceOpt r).map (a :: ·)

/-- array element, then mip level, then depth slice -/
def DataLayout.flattenP : DataLayout → Option (List Surface)
  | .texture t => t.iterMipsP
  | .textureArray a => (sequenceOpt (a.iter.map Texture.iterMipsP)).map List.flatten
  | .volume v => v.iterMipsP.map fun l => (l.map VolumeDesc.iterDepthSlices).flatten

end Dds
