/-
C13: complete evaluation of the encoder's binary32 palette against the decoder's 8-bit palette (generated; the
checkers are in `Proofs/EncBc15Palette.lean`): 6-bit channel pairs [512, 1024) of 64 x 64.
-/
import DdsModel.Proofs.EncBc15Palette
namespace Dds.Enc15
open Dds Dds.Bc

theorem pal6b_all : allRange (chkPair 63 Conv.n6f32 third6 mid6) 5 512 512 = true := by decide +kernel

end Dds.Enc15
