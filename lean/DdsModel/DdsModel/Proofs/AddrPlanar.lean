/-
Helper lemmas for C05: bi-planar family (row level, sub-sampling 2 as in NV12 / P010 / P016).
-/
import DdsModel.Proofs.Addr
namespace Dds.Addr
open Dds

/-- contract of one `process_bi_planar_helper::<2, ..>` call: output pixel `c` of the row is computed
from luma sample `c` of the plane-1 slice and chroma sample `(offset + c) / 2` of the plane-2 slice -/
structure PlRowSpec (offset width yoff : Nat) (runs : List PlRun) : Prop where
  sound : ∀ r ∈ runs, r.row = 0 ∧ r.ly = 0 ∧ r.cy = 0 ∧ r.yoff = yoff ∧ r.col + r.n ≤ width ∧ r.lx = r.col ∧
    ∀ t, t < r.n → r.cx + (r.px + t) / 2 = (offset + r.col + t) / 2
  cover : ∀ c, c < width → ∃ r ∈ runs, r.col ≤ c ∧ c < r.col + r.n

theorem planarHelper_spec (offset width yoff : Nat) (ho : offset < 2) :
    PlRowSpec offset width yoff (planarHelper 2 offset width yoff) := by
  unfold planarHelper
  simp only
  by_cases h0 : offset = 0
  · subst h0
    simp only [Nat.lt_irrefl, if_false, List.nil_append, Nat.zero_add, gt_iff_lt]
    constructor
    · intro r hr
      simp only [List.mem_append, List.mem_map, List.mem_range] at hr
      rcases hr with ⟨x, hx, rfl⟩ | hr
      · refine ⟨rfl, rfl, rfl, rfl, by show x * 2 + 2 ≤ width; omega, rfl, ?_⟩
        intro t ht
        dsimp only at ht ⊢
        omega
      · by_cases hl : 0 < width - width / 2 * 2
        · rw [if_pos hl] at hr
          simp only [List.mem_singleton] at hr
          subst hr
          refine ⟨rfl, rfl, rfl, rfl, by show width / 2 * 2 + (width - width / 2 * 2) ≤ width; omega, rfl, ?_⟩
          intro t ht
          dsimp only at ht ⊢
          omega
        · rw [if_neg hl] at hr; simp at hr
    · intro c hc
      simp only [List.mem_append, List.mem_map, List.mem_range]
      by_cases hp : c / 2 < width / 2
      · exact ⟨⟨0, c / 2 * 2, 2, c / 2 * 2, 0, c / 2, 0, 0, yoff⟩, Or.inl ⟨c / 2, hp, rfl⟩,
          by show c / 2 * 2 ≤ c; omega, by show c < c / 2 * 2 + 2; omega⟩
      · have hl : 0 < width - width / 2 * 2 := by omega
        refine ⟨⟨0, width / 2 * 2, width - width / 2 * 2, width / 2 * 2, 0, width / 2, 0, 0, yoff⟩, Or.inr ?_,
          by show width / 2 * 2 ≤ c; omega, by show c < width / 2 * 2 + (width - width / 2 * 2); omega⟩
        rw [if_pos hl]; simp
  · have h1 : offset = 1 := by omega
    subst h1
    simp only [show (1 : Nat) > 0 from by decide, if_true, gt_iff_lt]
    constructor
    · intro r hr
      simp only [List.mem_append, List.mem_singleton, List.mem_map, List.mem_range] at hr
      rcases hr with (rfl | ⟨x, hx, rfl⟩) | hr
      · refine ⟨rfl, rfl, rfl, rfl, by show 0 + min (2 - 1) width ≤ width; omega, rfl, ?_⟩
        intro t ht
        dsimp only at ht ⊢
        omega
      · refine ⟨rfl, rfl, rfl, rfl, by show min (2 - 1) width + x * 2 + 2 ≤ width; omega, rfl, ?_⟩
        intro t ht
        dsimp only at ht ⊢
        omega
      · by_cases hl : 0 < width - min (2 - 1) width - (width - min (2 - 1) width) / 2 * 2
        · rw [if_pos hl] at hr
          simp only [List.mem_singleton] at hr
          subst hr
          refine ⟨rfl, rfl, rfl, rfl, ?_, rfl, ?_⟩
          · show min (2 - 1) width + (width - min (2 - 1) width) / 2 * 2 +
              (width - min (2 - 1) width - (width - min (2 - 1) width) / 2 * 2) ≤ width
            omega
          · intro t ht
            dsimp only at ht ⊢
            omega
        · rw [if_neg hl] at hr; simp at hr
    · intro c hc
      simp only [List.mem_append, List.mem_singleton, List.mem_map, List.mem_range]
      by_cases hc0 : c = 0
      · exact ⟨_, Or.inl (Or.inl rfl), by show 0 ≤ c; omega, by show c < 0 + min (2 - 1) width; omega⟩
      · by_cases hp : (c - 1) / 2 < (width - min (2 - 1) width) / 2
        · exact ⟨⟨0, min (2 - 1) width + (c - 1) / 2 * 2, 2, min (2 - 1) width + (c - 1) / 2 * 2, 0,
            1 + (c - 1) / 2, 0, 0, yoff⟩, Or.inl (Or.inr ⟨_, hp, rfl⟩),
            by show min (2 - 1) width + (c - 1) / 2 * 2 ≤ c; omega,
            by show c < min (2 - 1) width + (c - 1) / 2 * 2 + 2; omega⟩
        · have hl : 0 < width - min (2 - 1) width - (width - min (2 - 1) width) / 2 * 2 := by omega
          refine ⟨⟨0, min (2 - 1) width + (width - min (2 - 1) width) / 2 * 2,
            width - min (2 - 1) width - (width - min (2 - 1) width) / 2 * 2,
            min (2 - 1) width + (width - min (2 - 1) width) / 2 * 2, 0,
            1 + (width - min (2 - 1) width) / 2, 0, 0, yoff⟩, Or.inr ?_, ?_, ?_⟩
          · rw [if_pos hl]; simp
          · show min (2 - 1) width + (width - min (2 - 1) width) / 2 * 2 ≤ c; omega
          · show c < min (2 - 1) width + (width - min (2 - 1) width) / 2 * 2 +
              (width - min (2 - 1) width - (width - min (2 - 1) width) / 2 * 2)
            omega

end Dds.Addr
