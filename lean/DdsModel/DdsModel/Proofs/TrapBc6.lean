/-
C01 (codec bodies, BC6H): the trapping mirror `TrapBc6.decodeT` returns `some` of the wrapping model
(`Bc6.decodeBlock` + the half conversions) for every block, both formats, three precisions.
-/
import DdsModel.TrapBc6
import DdsModel.Proofs.TrapBc7
import DdsModel.Proofs.Bc6Glue
namespace Dds.TrapBc6
open Dds Dds.Trap Dds.Bc6 Dds.BcTables

theorem shlI32_of_lt {x : Int} {s : Nat} (h : s < 32) : shlI32 x s = some (shl32 x s) := if_pos h
theorem sarI32_of_lt {x : Int} {s : Nat} (h : s < 32) : sarI32 x s = some (sar32 x s) := if_pos h

/-! ### `BitStream` -/

theorem consumeBits32T_eq (count s : Nat) (h : 0 < count ∧ count ≤ 31) :
    consumeBits32T count s = some (consumeBits32 count s) := by
  unfold consumeBits32T consumeBits32
  rw [dbgP_of h, bind_some', shl_of_lt (by omega), bind_some', TrapBc7.skipT_eq _ _ (by omega), bind_some', pure_some']

theorem consumeBitsRevT_eq (count s : Nat) (h : count ≤ 8) :
    consumeBitsRevT count s = some (consumeBitsRev count s) := by
  by_cases h2 : count ≥ 2
  · simp (disch := omega) only [consumeBitsRevT, consumeBitsRev, Bc7.mask8, dbgP_of, shl_of_lt, TrapBc7.skipT_eq,
      bind_some', pure_some', if_pos h2, subU_of_le, shr_of_lt]
  · simp (disch := omega) only [consumeBitsRevT, consumeBitsRev, Bc7.mask8, dbgP_of, shl_of_lt, TrapBc7.skipT_eq,
      bind_some', pure_some', if_neg h2]

/-! ### modes -/

theorem consumeBits2_lt (s : Nat) : (Bc7.consumeBits 2 s).1 < 4 := by
  unfold Bc7.consumeBits
  have : Bc7.mask8 2 = 3 := by decide
  rw [this]
  exact Nat.lt_succ_of_le Nat.and_le_right
theorem consumeBits3_lt (s : Nat) : (Bc7.consumeBits 3 s).1 < 8 := by
  unfold Bc7.consumeBits
  have : Bc7.mask8 3 = 7 := by decide
  rw [this]
  exact Nat.lt_succ_of_le Nat.and_le_right
theorem consumeBits5_lt (s : Nat) : (Bc7.consumeBits 5 s).1 < 32 := by
  unfold Bc7.consumeBits
  have : Bc7.mask8 5 = 31 := by decide
  rw [this]
  exact Nat.lt_succ_of_le Nat.and_le_right

theorem extractModeT_eq (s : Nat) : extractModeT s = some (extractMode s) := by
  unfold extractModeT extractMode extractModeHighT
  simp (disch := omega) only [TrapBc7.consumeBitsT_eq, bind_some']
  have h2 := consumeBits2_lt s
  have h3 := consumeBits3_lt (Bc7.consumeBits 2 s).2
  generalize (Bc7.consumeBits 3 (Bc7.consumeBits 2 s).2).2 = s3
  generalize (Bc7.consumeBits 3 (Bc7.consumeBits 2 s).2).1 = h at h3
  generalize (Bc7.consumeBits 2 s).2 = s2
  generalize (Bc7.consumeBits 2 s).1 = a at h2
  have ha : a = 0 ∨ a = 1 ∨ a = 2 ∨ a = 3 := by omega
  have hh : h = 0 ∨ h = 1 ∨ h = 2 ∨ h = 3 ∨ h = 4 ∨ h = 5 ∨ h = 6 ∨ h = 7 := by omega
  rcases ha with rfl | rfl | rfl | rfl
  · rfl
  · rfl
  · rcases hh with rfl | rfl | rfl | rfl | rfl | rfl | rfl | rfl <;> rfl
  · rcases hh with rfl | rfl | rfl | rfl | rfl | rfl | rfl | rfl <;> rfl

/-! ### compressed endpoints -/

theorem stepOpT_eq (st : List Nat × Nat) (op : Op) (h : op.bit < 31) : stepOpT st op = some (stepOp st op) := by
  unfold stepOpT stepOp
  by_cases hr : op.range
  · rw [if_pos hr, if_pos hr, consumeBits32T_eq _ _ (by omega), bind_some', pure_some']
  · rw [if_neg hr, if_neg hr, consumeBits32T_eq _ _ (by omega), bind_some', shl_of_lt (by omega), bind_some', pure_some']

theorem foldOpsT_eq (ops : List Op) (st : List Nat × Nat) (h : ∀ op ∈ ops, op.bit < 31) :
    foldOpsT ops st = some (ops.foldl stepOp st) := by
  induction ops generalizing st with
  | nil => rfl
  | cons op ops ih =>
    unfold foldOpsT
    rw [stepOpT_eq _ _ (h op (List.mem_cons_self ..)), bind_some', List.foldl_cons]
    exact ih _ (fun o ho => h o (List.mem_cons_of_mem _ ho))

theorem ops_bits (m : ModeTwo) : ∀ op ∈ modeTwoOps m, op.bit < 31 := by
  cases m <;> decide

theorem extractTwoT_eq (m : ModeTwo) (s : Nat) : extractTwoT m s = some (extractTwo m s) :=
  foldOpsT_eq _ _ (ops_bits m)

theorem extractOneT_eq (m : ModeOne) (s : Nat) : extractOneT m s = some (extractOne m s) := by
  have h1 : 10 ≤ m.a0BitCount ∧ m.a0BitCount ≤ 16 := by cases m <;> decide
  unfold extractOneT extractOne
  simp (disch := omega) only [consumeBits32T_eq, consumeBitsRevT_eq, subU_of_le, bind_some', pure_some']

theorem extractPartitionT_eq (s : Nat) : extractPartitionT s = some (Bc7.consumeBits 5 s) := by
  have h := consumeBits5_lt s
  unfold extractPartitionT
  rw [TrapBc7.consumeBitsT_eq _ _ (by omega), bind_some', dbgP_of h, bind_some', idxF_of_lt (by omega), bind_some', pure_some']

/-! ### `sign_extend` -/

theorem and_high_zero (v k : Nat) (hk : k ≤ 32) (hv : v < 2 ^ k) : v &&& (2 ^ 32 - 2 ^ k) = 0 := by
  apply Nat.eq_of_testBit_eq
  intro i
  rw [Nat.testBit_and, Nat.zero_testBit]
  by_cases hi : i < k
  · have e : 2 ^ 32 - 2 ^ k = 2 ^ k * (2 ^ (32 - k) - 1) := by
      rw [Nat.mul_sub, ← Nat.pow_add, Nat.mul_one]
      congr 2; omega
    rw [e, Nat.testBit_two_pow_mul]
    have : decide (k ≤ i) = false := by simpa using hi
    rw [this]; simp
  · have : v.testBit i = false :=
      Nat.testBit_lt_two_pow (Nat.lt_of_lt_of_le hv (Nat.pow_le_pow_right (by decide) (by omega)))
    rw [this]; simp

theorem two_pow_bounds (k : Nat) (hk : k ≤ 16) : 1 ≤ 2 ^ k ∧ 2 ^ k ≤ 65536 :=
  ⟨Nat.one_le_two_pow, Nat.pow_le_pow_right (by decide) hk⟩

theorem shl32_one (k : Nat) (hk : k ≤ 16) : shl32 1 k = ((2 ^ k : Nat) : Int) := by
  have := two_pow_bounds k hk
  unfold shl32
  rw [Int.one_mul, wrap32_id _ (by omega) (by omega)]

/-- the third `debug_assert!` of `sign_extend` holds for a `k`-bit pattern -/
theorem no_high_bits (x : Int) (k : Nat) (hk : k ≤ 16) (hx : 0 ≤ x ∧ x < ((2 ^ k : Nat) : Int)) :
    and32 x (toU32 (-(shl32 1 k - 1) - 1)) = 0 := by
  have hb := two_pow_bounds k hk
  have e1 : toU32 (-(shl32 1 k - 1) - 1) = 2 ^ 32 - 2 ^ k := by
    rw [shl32_one k hk]
    unfold toU32
    have : (2 : Nat) ^ 32 = 4294967296 := by decide
    omega
  have e2 : toU32 x = x.toNat := by unfold toU32; omega
  unfold and32
  rw [e1, e2, and_high_zero _ k (by omega) (by omega)]
  rfl

theorem signExtendT_eq (x : Int) (k : Nat) (hk : 1 ≤ k ∧ k ≤ 16) (hx : 0 ≤ x ∧ x < ((2 ^ k : Nat) : Int)) :
    signExtendT x k = some (signExtend x k) := by
  have hb := two_pow_bounds k hk.2
  have h1 := shl32_one k hk.2
  unfold signExtendT signExtend
  rw [dbgP_of (by omega), bind_some', dbgP_of (by omega), bind_some', shlI32_of_lt (by omega), bind_some',
    ckI32_of_range (by rw [h1]; omega), bind_some', dbgP_of (no_high_bits x k hk.2 hx), bind_some',
    subU_of_le (by omega), bind_some', shlI32_of_lt (by omega), bind_some', sarI32_of_lt (by omega)]

theorem maskT_eq (k : Nat) (hk : k ≤ 16) : maskT k = some () := by
  have hb := two_pow_bounds k hk
  have h1 := shl32_one k hk
  unfold maskT
  rw [shlI32_of_lt (by omega), bind_some', ckI32_of_range (by rw [h1]; omega), bind_some', pure_some']

/-- a `k`-bit pattern as `Int` -/
def Pat (k : Nat) (v : Int) : Prop := 0 ≤ v ∧ v < ((2 ^ k : Nat) : Int)

theorem pat_cast (k v : Nat) (h : v < 2 ^ k) : Pat k (v : Int) := ⟨Int.natCast_nonneg v, Int.ofNat_lt.mpr h⟩

theorem addMask_pat (a b : Int) (k : Nat) (hk : k ≤ 16)
    (ha : -1073741824 ≤ a ∧ a < 1073741824) (hb : -1073741824 ≤ b ∧ b < 1073741824) :
    Pat k (addMask a b (maskOf k)) := by
  rw [addMask_eq a b k hk ha hb]
  have h2 : (0 : Int) < ((2 ^ k : Nat) : Int) := by have := Nat.two_pow_pos k; omega
  exact ⟨Int.emod_nonneg _ (by omega), Int.emod_lt_of_pos _ h2⟩

theorem signExtend_bound (v : Int) (k : Nat) (hk : 1 ≤ k ∧ k ≤ 16) (hv : Pat k v) :
    -65536 ≤ signExtend v k ∧ signExtend v k < 65536 := by
  rw [signExtend_int v k hk.1 hk.2 hv.1 hv.2]
  have : v.toNat < 2 ^ k := by
    have h1 := hv.1; have h2 := hv.2
    generalize (2 ^ k : Nat) = P at *
    omega
  exact sext_bound k _ hk.2 this

theorem pat_bound (v : Int) (k : Nat) (hk : k ≤ 16) (hv : Pat k v) : -65536 ≤ v ∧ v < 65536 := by
  have h0 := two_pow_bounds k hk
  have h1 := hv.1; have h2 := hv.2
  generalize (2 ^ k : Nat) = P at *
  omega

/-! ### endpoint decompression -/

theorem decompressTwoChanT_eq (m : ModeTwo) (signed : Bool) (d : Nat) (w x y z : Int) (hd : 1 ≤ d ∧ d ≤ 16)
    (hw : Pat m.a0BitCount w) (hx : Pat d x) (hy : Pat d y) (hz : Pat d z) :
    decompressTwoChanT m signed d w x y z = some (decompressTwoChan m signed d w x y z) := by
  have hp : 1 ≤ m.a0BitCount ∧ m.a0BitCount ≤ 16 := by cases m <;> decide
  have sw := signExtendT_eq w _ hp hw
  have sx := signExtendT_eq x d hd hx
  have sy := signExtendT_eq y d hd hy
  have sz := signExtendT_eq z d hd hz
  have bw := signExtend_bound w _ hp hw
  have bx := signExtend_bound x d hd hx
  have by' := signExtend_bound y d hd hy
  have bz := signExtend_bound z d hd hz
  have cw := pat_bound w _ hp.2 hw
  have sx' := signExtendT_eq _ _ hp (addMask_pat (signExtend x d) (signExtend w m.a0BitCount) _ hp.2 (by omega) (by omega))
  have sy' := signExtendT_eq _ _ hp (addMask_pat (signExtend y d) (signExtend w m.a0BitCount) _ hp.2 (by omega) (by omega))
  have sz' := signExtendT_eq _ _ hp (addMask_pat (signExtend z d) (signExtend w m.a0BitCount) _ hp.2 (by omega) (by omega))
  cases signed <;> cases htr : m.transformed <;>
    simp only [decompressTwoChanT, decompressTwoChan, htr, sw, sx, sy, sz, sx', sy', sz', maskT_eq _ hp.2, bind_some',
      pure_some', Bool.or_false, Bool.or_true, Bool.or_self, Bool.false_eq_true, ↓reduceIte]

theorem decompressOneChanT_eq (m : ModeOne) (signed : Bool) (a b : Int)
    (ha : Pat m.a0BitCount a) (hb : Pat m.b0BitCount b) :
    decompressOneChanT m signed a b = some (decompressOneChan m signed a b) := by
  have hp : 1 ≤ m.a0BitCount ∧ m.a0BitCount ≤ 16 := by cases m <;> decide
  have hq : 1 ≤ m.b0BitCount ∧ m.b0BitCount ≤ 16 := by cases m <;> decide
  have h20 : subU 20 m.a0BitCount = some m.b0BitCount := subU_of_le (by cases m <;> decide)
  have sa := signExtendT_eq a _ hp ha
  have sb := signExtendT_eq b _ hq hb
  have ba := signExtend_bound a _ hp ha
  have bb := signExtend_bound b _ hq hb
  have ca := pat_bound a _ hp.2 ha
  have sb1 := signExtendT_eq _ _ hp (addMask_pat (signExtend a m.a0BitCount) (signExtend b m.b0BitCount) _ hp.2
    (by omega) (by omega))
  cases signed <;> cases htr : m.transformed <;>
    simp only [decompressOneChanT, decompressOneChan, htr, h20, sa, sb, sb1, maskT_eq _ hp.2, bind_some',
      pure_some', Bool.or_false, Bool.or_true, Bool.or_self, Bool.false_eq_true, ↓reduceIte]

/-! ### unquantize / interpolate / finish -/

/-- one step: remove passing checks / identity wraps, reduce binds, split an `if` -/
macro "tq_step" : tactic =>
  `(tactic| first
    | rfl
    | simp (disch := omega) only [ckI32_of_range, wrap32_id, bind_some', pure_some', shlI32_of_lt, sarI32_of_lt,
        subU_of_le]
    | split)

theorem unquantizeT_eq (signed : Bool) (bits : Nat) (c : Int)
    (hbits : bits = 6 ∨ bits = 7 ∨ bits = 8 ∨ bits = 9 ∨ bits = 10 ∨ bits = 11 ∨ bits = 12 ∨ bits = 16)
    (hc : inRange signed bits c) : unquantizeT c bits signed = some (Bc6.unquantize c bits signed) := by
  cases signed <;> rcases hbits with h | h | h | h | h | h | h | h <;> subst h <;>
    simp (disch := omega) only [inRange, unquantizeT, onesT, Bc6.unquantize, shlI32_of_lt, sarI32_of_lt, subU_of_le,
      bind_some', shl32, sar32, Nat.reducePow, Nat.reduceSub,
      Int.cast_ofNat_Int, Bool.not_true, Bool.not_false, Bool.false_eq_true, if_false, if_true,
      Nat.reduceLeDiff, ge_iff_le, Int.one_mul] at hc ⊢ <;>
    repeat' tq_step

theorem finishUnquantizeT_eq (signed : Bool) (e : Int)
    (he : if signed then -32768 ≤ e ∧ e ≤ 32767 else 0 ≤ e ∧ e ≤ 65535) :
    finishUnquantizeT e signed = some (finishUnquantize e signed) := by
  cases signed <;>
    simp (disch := omega) only [finishUnquantizeT, finishUnquantize, sarI32_of_lt, sar32, Nat.reducePow,
      Int.cast_ofNat_Int, Bool.not_true, Bool.not_false, Bool.false_eq_true, if_false, if_true] at he ⊢ <;>
    repeat' tq_step

theorem ckI32_some (x : Int) (h1 : -2147483648 ≤ x) (h2 : x < 2147483648) : ckI32 x = some x :=
  ckI32_of_range ⟨h1, by omega⟩

theorem paletteEntryT_eq (signed : Bool) (a b : Int) (w : Nat) (hw : w ≤ 64)
    (ha : if signed then -32768 ≤ a ∧ a ≤ 32767 else 0 ≤ a ∧ a ≤ 65535)
    (hb : if signed then -32768 ≤ b ∧ b ≤ 32767 else 0 ≤ b ∧ b ≤ 65535) :
    paletteEntryT a b w signed = some (paletteEntry a b w signed) := by
  have hw0 : (0 : Int) ≤ 64 - (w : Int) := by omega
  have hw1 : (0 : Int) ≤ (w : Int) := by omega
  have hA : -32768 * (64 - (w : Int)) ≤ a * (64 - (w : Int)) ∧ a * (64 - (w : Int)) ≤ 65535 * (64 - (w : Int)) ∧
      (signed = true → a * (64 - (w : Int)) ≤ 32767 * (64 - (w : Int))) ∧
      (signed = false → 0 ≤ a * (64 - (w : Int))) := by
    cases signed <;> simp only [Bool.false_eq_true, if_false, if_true] at ha
    · have h1 := Int.mul_le_mul_of_nonneg_right ha.2 hw0
      have h2 := Int.mul_le_mul_of_nonneg_right ha.1 hw0
      refine ⟨by omega, by omega, fun h => (by cases h), fun _ => by omega⟩
    · have h1 := Int.mul_le_mul_of_nonneg_right ha.2 hw0
      have h2 := Int.mul_le_mul_of_nonneg_right ha.1 hw0
      refine ⟨by omega, by omega, fun _ => by omega, fun h => (by cases h)⟩
  have hB : -32768 * (w : Int) ≤ b * (w : Int) ∧ b * (w : Int) ≤ 65535 * (w : Int) ∧
      (signed = true → b * (w : Int) ≤ 32767 * (w : Int)) ∧ (signed = false → 0 ≤ b * (w : Int)) := by
    cases signed <;> simp only [Bool.false_eq_true, if_false, if_true] at hb
    · have h1 := Int.mul_le_mul_of_nonneg_right hb.2 hw1
      have h2 := Int.mul_le_mul_of_nonneg_right hb.1 hw1
      refine ⟨by omega, by omega, fun h => (by cases h), fun _ => by omega⟩
    · have h1 := Int.mul_le_mul_of_nonneg_right hb.2 hw1
      have h2 := Int.mul_le_mul_of_nonneg_right hb.1 hw1
      refine ⟨by omega, by omega, fun _ => by omega, fun h => (by cases h)⟩
  have c1 := ckI32_some (64 - (w : Int)) (by omega) (by omega)
  have w1 := wrap32_id (64 - (w : Int)) (by omega) (by omega)
  generalize hAe : a * (64 - (w : Int)) = A at hA
  generalize hBe : b * (w : Int) = B at hB
  have c2 := ckI32_some A (by omega) (by omega)
  have w2 := wrap32_id A (by omega) (by omega)
  have c3 := ckI32_some B (by omega) (by omega)
  have w3 := wrap32_id B (by omega) (by omega)
  have c4 := ckI32_some (A + B) (by omega) (by omega)
  have w4 := wrap32_id (A + B) (by omega) (by omega)
  have c5 := ckI32_some (A + B + 32) (by omega) (by omega)
  have w5 := wrap32_id (A + B + 32) (by omega) (by omega)
  have hs : sar32 (A + B + 32) 6 = (A + B + 32) / 64 := by
    simp only [sar32, Nat.reducePow, Int.cast_ofNat_Int]
  have c6 : sarI32 (A + B + 32) 6 = some (sar32 (A + B + 32) 6) := sarI32_of_lt (by omega)
  simp only [paletteEntryT, paletteEntry, bind_some', c1, w1, hAe, hBe, c2, w2, c3, w3, c4, w4, c5, w5, c6]
  apply finishUnquantizeT_eq
  rw [hs]
  cases signed <;> simp only [Bool.false_eq_true, if_false, if_true]
  · have := hA.2.2.2 rfl
    have := hB.2.2.2 rfl
    omega
  · have := hA.2.2.1 rfl
    have := hB.2.2.1 rfl
    omega

theorem w63_le : ∀ w ∈ implW6_3, w ≤ 64 := by decide
theorem w64_le : ∀ w ∈ implW6_4, w ≤ 64 := by decide

theorem paletteT_eq (signed : Bool) (W : List Nat) (hW : ∀ w ∈ W, w ≤ 64) (bits : Nat) (a z : Int)
    (hbits : bits = 6 ∨ bits = 7 ∨ bits = 8 ∨ bits = 9 ∨ bits = 10 ∨ bits = 11 ∨ bits = 12 ∨ bits = 16)
    (ha : inRange signed bits a) (hz : inRange signed bits z) :
    paletteT W a z bits signed = some (palette W a z bits signed) := by
  obtain ⟨e1, r1⟩ := unquantize_eq signed bits a hbits ha
  obtain ⟨e2, r2⟩ := unquantize_eq signed bits z hbits hz
  unfold paletteT palette
  rw [unquantizeT_eq signed bits a hbits ha, bind_some', unquantizeT_eq signed bits z hbits hz, bind_some']
  apply mapT_eq_some
  intro w hw
  rw [e1, e2]
  exact paletteEntryT_eq signed _ _ w (hW w hw) r1 r2

/-! ### unsigned outputs are finite non-negative halves (the `debug_assert!`s of `bc6h_uf16`) -/

theorem paletteEntry_uf_lt (a b : Int) (w : Nat) (hw : w ≤ 64) (ha : 0 ≤ a ∧ a ≤ 65535) (hb : 0 ≤ b ∧ b ≤ 65535) :
    paletteEntry a b w false < 0x7C00 := by
  have hw0 : (0 : Int) ≤ 64 - (w : Int) := by omega
  have hw1 : (0 : Int) ≤ (w : Int) := by omega
  rw [paletteEntry_eq false a b w hw (by simpa using ha) (by simpa using hb)]
  have h1 := Int.mul_le_mul_of_nonneg_right ha.2 hw0
  have h2 := Int.mul_le_mul_of_nonneg_right ha.1 hw0
  have h3 := Int.mul_le_mul_of_nonneg_right hb.2 hw1
  have h4 := Int.mul_le_mul_of_nonneg_right hb.1 hw1
  simp only [Bc6Spec.finish, Bc6Spec.lerp, Bool.not_false, if_true]
  generalize a * (64 - (w : Int)) = A at *
  generalize b * (w : Int) = B at *
  omega

theorem palette_uf_lt (W : List Nat) (hW : ∀ w ∈ W, w ≤ 64) (bits : Nat) (a z : Int)
    (hbits : bits = 6 ∨ bits = 7 ∨ bits = 8 ∨ bits = 9 ∨ bits = 10 ∨ bits = 11 ∨ bits = 12 ∨ bits = 16)
    (ha : inRange false bits a) (hz : inRange false bits z) : ∀ v ∈ palette W a z bits false, v < 0x7C00 := by
  obtain ⟨e1, r1⟩ := unquantize_eq false bits a hbits ha
  obtain ⟨e2, r2⟩ := unquantize_eq false bits z hbits hz
  intro v hv
  unfold palette at hv
  obtain ⟨w, hw, rfl⟩ := List.mem_map.mp hv
  rw [e1, e2]
  exact paletteEntry_uf_lt _ _ w (hW w hw) (by simpa using r1) (by simpa using r2)

/-- what the pixel loops need to know about a palette table -/
def HalfOk (signed : Bool) (l : List Nat) : Prop := signed = false → ∀ v ∈ l, v < 0x7C00

theorem palette_len (W : List Nat) (a z : Int) (bits : Nat) (signed : Bool) :
    (palette W a z bits signed).length = W.length := by
  unfold palette; simp

/-! ### one channel of a block -/

theorem chanTwoT (signed : Bool) (m : ModeTwo) (c : Nat) (hc : c < 3) (w x y z : Nat)
    (hw : w < 2 ^ m.a0BitCount)
    (hx : x < 2 ^ (if c = 0 then m.deltaBitCount.1 else if c = 1 then m.deltaBitCount.2.1 else m.deltaBitCount.2.2))
    (hy : y < 2 ^ (if c = 0 then m.deltaBitCount.1 else if c = 1 then m.deltaBitCount.2.1 else m.deltaBitCount.2.2))
    (hz : z < 2 ^ (if c = 0 then m.deltaBitCount.1 else if c = 1 then m.deltaBitCount.2.1 else m.deltaBitCount.2.2)) :
    let d := if c = 0 then m.deltaBitCount.1 else if c = 1 then m.deltaBitCount.2.1 else m.deltaBitCount.2.2
    let ws := decompressTwoChan m signed d (w : Int) (x : Int) (y : Int) (z : Int)
    decompressTwoChanT m signed d (w : Int) (x : Int) (y : Int) (z : Int) = some ws ∧
    paletteT implW6_3 (getI ws 0) (getI ws 1) m.a0BitCount signed =
      some (palette implW6_3 (getI ws 0) (getI ws 1) m.a0BitCount signed) ∧
    paletteT implW6_3 (getI ws 2) (getI ws 3) m.a0BitCount signed =
      some (palette implW6_3 (getI ws 2) (getI ws 3) m.a0BitCount signed) ∧
    HalfOk signed (palette implW6_3 (getI ws 0) (getI ws 1) m.a0BitCount signed) ∧
    HalfOk signed (palette implW6_3 (getI ws 2) (getI ws 3) m.a0BitCount signed) := by
  intro d ws
  obtain ⟨p1, p2, p3, p4, p5, p6, p7⟩ := two_params m c hc
  have hws : ws = _ := decompressTwoChan_eq m signed d w x y z p6 hw hx hy hz
  have hr : ∀ raw e, raw < 2 ^ d → inRange signed m.a0BitCount (endpointV m.a0BitCount d m.transformed signed w raw e) :=
    fun raw e hraw => endpointV_inRange _ _ _ _ _ _ _ p1 p2 p3 p4 p5 hw hraw
  have hr0 : inRange signed m.a0BitCount (endpointV m.a0BitCount d m.transformed signed w w 0) := by
    have : endpointV m.a0BitCount d m.transformed signed w w 0 = endpointV m.a0BitCount d m.transformed signed w 0 0 := by
      simp [endpointV]
    rw [this]; exact hr 0 0 (Nat.two_pow_pos _)
  refine ⟨decompressTwoChanT_eq m signed d _ _ _ _ ⟨p3, by omega⟩ (pat_cast _ _ hw) (pat_cast _ _ hx) (pat_cast _ _ hy)
    (pat_cast _ _ hz), ?_, ?_, ?_, ?_⟩
  · rw [hws]; exact paletteT_eq signed _ w63_le _ _ _ p7 hr0 (hr x 1 hx)
  · rw [hws]; exact paletteT_eq signed _ w63_le _ _ _ p7 (hr y 2 hy) (hr z 3 hz)
  · intro hs; subst hs; rw [hws]; exact palette_uf_lt _ w63_le _ _ _ p7 hr0 (hr x 1 hx)
  · intro hs; subst hs; rw [hws]; exact palette_uf_lt _ w63_le _ _ _ p7 (hr y 2 hy) (hr z 3 hz)

theorem chanOneT (signed : Bool) (m : ModeOne) (a z : Nat) (ha : a < 2 ^ m.a0BitCount) (hz : z < 2 ^ m.b0BitCount) :
    let ab := decompressOneChan m signed (a : Int) (z : Int)
    decompressOneChanT m signed (a : Int) (z : Int) = some ab ∧
    paletteT implW6_4 (getI ab 0) (getI ab 1) m.a0BitCount signed =
      some (palette implW6_4 (getI ab 0) (getI ab 1) m.a0BitCount signed) ∧
    HalfOk signed (palette implW6_4 (getI ab 0) (getI ab 1) m.a0BitCount signed) := by
  intro ab
  obtain ⟨p1, p2, p3, p4, p5, p7⟩ := one_params m
  have hab : ab = _ := decompressOneChan_eq m signed a z ha hz
  have hr : ∀ raw e, raw < 2 ^ m.b0BitCount →
      inRange signed m.a0BitCount (endpointV m.a0BitCount m.b0BitCount m.transformed signed a raw e) :=
    fun raw e hraw => endpointV_inRange _ _ _ _ _ _ _ p1 p2 p3 p4 p5 ha hraw
  have hr0 : inRange signed m.a0BitCount (endpointV m.a0BitCount m.b0BitCount m.transformed signed a a 0) := by
    have : endpointV m.a0BitCount m.b0BitCount m.transformed signed a a 0 =
        endpointV m.a0BitCount m.b0BitCount m.transformed signed a 0 0 := by simp [endpointV]
    rw [this]; exact hr 0 0 (Nat.two_pow_pos _)
  refine ⟨decompressOneChanT_eq m signed _ _ (pat_cast _ _ ha) (pat_cast _ _ hz), ?_, ?_⟩
  · rw [hab]; exact paletteT_eq signed _ w64_le _ _ _ p7 hr0 (hr z 1 hz)
  · intro hs; subst hs; rw [hab]; exact palette_uf_lt _ w64_le _ _ _ p7 hr0 (hr z 1 hz)

/-! ### whole blocks -/

theorem subset2Index_le (m : Nat × Nat) (pixel : Nat) : subset2Index m pixel ≤ 1 := by
  unfold subset2Index
  exact Nat.le_trans (Nat.mod_le _ _) Nat.and_le_right

theorem getD_mem_or {α} (l : List α) (i : Nat) (d : α) : l.getD i d ∈ l ∨ l.getD i d = d := by
  by_cases hi : i < l.length
  · left; have : l.getD i d = l[i] := by simp [List.getD, hi]
    rw [this]; exact List.getElem_mem hi
  · right; simp [List.getD, Nat.le_of_not_lt hi]

/-- per-channel palette table of a two-region block (the model's `pal` entry) -/
def palTwo (signed : Bool) (m : ModeTwo) (acc : List Nat) (c : Nat) : List (List Nat) :=
  let d := m.deltaBitCount
  let dc := if c = 0 then d.1 else if c = 1 then d.2.1 else d.2.2
  let ws := decompressTwoChan m signed dc (accGet acc 0 c) (accGet acc 1 c) (accGet acc 2 c) (accGet acc 3 c)
  [palette implW6_3 (getI ws 0) (getI ws 1) m.a0BitCount signed, palette implW6_3 (getI ws 2) (getI ws 3) m.a0BitCount signed]

theorem two_T (signed : Bool) (m : ModeTwo) (b : Nat)
    (hmode : extractMode b = (.two m, b >>> (recTwo m).modeBits)) :
    decodeBlockT signed b = some (Bc6.decodeBlock signed b) ∧
    (signed = false → ∀ px ∈ Bc6.decodeBlock signed b, ∀ v ∈ px, v < 0x7C00) := by
  have hok := twoOk_true m
  simp only [twoOk, Bool.and_eq_true, beq_iff_eq, List.all_eq_true, List.mem_range, decide_eq_true_eq,
    Bool.or_eq_true, Bool.not_eq_true'] at hok
  obtain ⟨⟨⟨⟨⟨⟨⟨hreg, hprec⟩, hdelta⟩, htr⟩, hhdr⟩, _⟩, _⟩, _⟩ := hok
  obtain ⟨hst, hacc⟩ := extractTwo_eq m b
  generalize hE : extractTwo m (b >>> (recTwo m).modeBits) = e at *
  -- the three channels
  have hch : ∀ c, c < 3 →
      (do
        let ws ← decompressTwoChanT m signed
          (if c = 0 then m.deltaBitCount.1 else if c = 1 then m.deltaBitCount.2.1 else m.deltaBitCount.2.2)
          (accGet e.1 0 c) (accGet e.1 1 c) (accGet e.1 2 c) (accGet e.1 3 c)
        let p0 ← paletteT implW6_3 (getI ws 0) (getI ws 1) m.a0BitCount signed
        let p1 ← paletteT implW6_3 (getI ws 2) (getI ws 3) m.a0BitCount signed
        pure [p0, p1]) = some (palTwo signed m e.1 c) ∧
      ∀ l ∈ palTwo signed m e.1 c, l.length = 8 ∧ HalfOk signed l := by
    intro c hc
    obtain ⟨a0, l0⟩ := hacc c 0 hc (by decide)
    obtain ⟨a1, l1⟩ := hacc c 1 hc (by decide)
    obtain ⟨a2, l2⟩ := hacc c 2 hc (by decide)
    obtain ⟨a3, l3⟩ := hacc c 3 hc (by decide)
    simp only [fieldWidth, Nat.reduceEqDiff, if_true, if_false, hprec, Bc6Spec.deltaW, hdelta] at l0 l1 l2 l3
    rw [← a0] at l0; rw [← a1] at l1; rw [← a2] at l2; rw [← a3] at l3
    have h := chanTwoT signed m c hc _ _ _ _ l0 l1 l2 l3
    simp only [] at h
    obtain ⟨h1, h2, h3, h4, h5⟩ := h
    refine ⟨?_, ?_⟩
    · rw [h1, bind_some', h2, bind_some', h3, bind_some', pure_some']; rfl
    · intro l hl
      simp only [palTwo, List.mem_cons, List.not_mem_nil, or_false] at hl
      rcases hl with rfl | rfl
      · exact ⟨palette_len .., h4⟩
      · exact ⟨palette_len .., h5⟩
  have hpal : mapT (fun c => do
        let ws ← decompressTwoChanT m signed
          (if c = 0 then m.deltaBitCount.1 else if c = 1 then m.deltaBitCount.2.1 else m.deltaBitCount.2.2)
          (accGet e.1 0 c) (accGet e.1 1 c) (accGet e.1 2 c) (accGet e.1 3 c)
        let p0 ← paletteT implW6_3 (getI ws 0) (getI ws 1) m.a0BitCount signed
        let p1 ← paletteT implW6_3 (getI ws 2) (getI ws 3) m.a0BitCount signed
        pure [p0, p1]) (List.range 3) = some ((List.range 3).map (palTwo signed m e.1)) :=
    mapT_eq_some _ _ _ (fun c hc => (hch c (List.mem_range.mp hc)).1)
  have hpid := consumeBits5_lt e.2
  have hfix := TrapBc7.implP2_fix _ (show (Bc7.consumeBits 5 e.2).1 < 64 by omega)
  -- facts about the table
  have hPc : ∀ c, c < 3 → ((List.range 3).map (palTwo signed m e.1)).getD c [] = palTwo signed m e.1 c :=
    fun c hc => getD_map_range3 _ _ c hc
  constructor
  · unfold decodeBlockT Bc6.decodeBlock
    rw [extractModeT_eq, bind_some']
    simp only [hmode, hE, extractTwoT_eq, bind_some', extractPartitionT_eq]
    rw [TrapBc7.newP2T_eq _ _ _ (by omega) hfix, bind_some', hpal, bind_some']
    apply mapT_eq_some
    intro pixel hp
    have hp : pixel < 16 := List.mem_range.mp hp
    generalize hix : Bc7.newP2 3 (Bc7.consumeBits 5 e.2).2 (implP2 (Bc7.consumeBits 5 e.2).1).2 = ix
    have hixb : ix.1.bits = 3 := by rw [← hix]; rfl
    have hixm : ix.1.mask = Bc7.getMask 3 := by rw [← hix]; rfl
    have hidx := TrapBc7.getIndex_le ix.1 pixel
    rw [hixm, TrapBc7.getMask_vals.2.1] at hidx
    have hsub := subset2Index_le (implP2 (Bc7.consumeBits 5 e.2).1) pixel
    rw [TrapBc7.getIndexT_eq _ _ hp (by omega), bind_some', dbgP_of hp, bind_some', bind_some']
    apply mapT_eq_some
    intro c hc
    have hc : c < 3 := List.mem_range.mp hc
    have hl := (hch c hc).2
    rw [TrapBc7.idx_getD _ _ [] (by simp; exact hc), bind_some', hPc c hc,
      TrapBc7.idx_getD _ _ [] (show subset2Index _ pixel < (palTwo signed m e.1 c).length by simp [palTwo]; omega),
      bind_some']
    have hmem : (palTwo signed m e.1 c).getD (subset2Index (implP2 (Bc7.consumeBits 5 e.2).1) pixel) [] ∈
        palTwo signed m e.1 c := by
      rcases getD_mem_or (palTwo signed m e.1 c) (subset2Index (implP2 (Bc7.consumeBits 5 e.2).1) pixel) [] with h | h
      · exact h
      · exfalso
        have : subset2Index (implP2 (Bc7.consumeBits 5 e.2).1) pixel < (palTwo signed m e.1 c).length := by
          simp [palTwo]; omega
        simp [List.getD, this] at h
        have := (hl _ (List.getElem_mem this)).1
        rw [h] at this; simp at this
    rw [TrapBc7.idx_getD _ _ 0 (by rw [(hl _ hmem).1]; omega)]
    show _ = some ((((List.map (palTwo signed m e.1) (List.range 3)).getD c []).getD _ []).getD _ 0)
    rw [hPc c hc]
  · intro hs px hpx v hv
    unfold Bc6.decodeBlock at hpx
    simp only [hmode, hE] at hpx
    obtain ⟨pixel, _, rfl⟩ := List.mem_map.mp hpx
    obtain ⟨c, hc, rfl⟩ := List.mem_map.mp hv
    have hc := List.mem_range.mp hc
    show (((List.map (palTwo signed m e.1) (List.range 3)).getD c []).getD _ []).getD _ 0 < _
    rw [hPc c hc]
    apply TrapBc7.getD_lt _ _ (by decide)
    rcases getD_mem_or (palTwo signed m e.1 c) (subset2Index (implP2 (Bc7.consumeBits 5 e.2).1) pixel) [] with h | h
    · exact ((hch c hc).2 _ h).2 hs
    · rw [h]; intro v hv; cases hv

/-- per-channel palette of a one-region block (the model's `pal` entry) -/
def palOne (signed : Bool) (m : ModeOne) (acc : List Nat) (c : Nat) : List Nat :=
  let ab := decompressOneChan m signed (acc.getD c 0) (acc.getD (3 + c) 0)
  palette implW6_4 (getI ab 0) (getI ab 1) m.a0BitCount signed

theorem one_T (signed : Bool) (m : ModeOne) (b : Nat) (hmode : extractMode b = (.one m, b >>> 5)) :
    decodeBlockT signed b = some (Bc6.decodeBlock signed b) ∧
    (signed = false → ∀ px ∈ Bc6.decodeBlock signed b, ∀ v ∈ px, v < 0x7C00) := by
  have hok := oneOk_true m
  simp only [oneOk, Bool.and_eq_true, beq_iff_eq, List.all_eq_true, List.mem_range, decide_eq_true_eq,
    Bool.or_eq_true, Bool.not_eq_true'] at hok
  obtain ⟨⟨⟨⟨⟨⟨hreg, hprec⟩, hdelta⟩, htr⟩, hmb⟩, hhdr⟩, _⟩ := hok
  obtain ⟨hst, hacc⟩ := extractOne_eq m b
  generalize hE : extractOne m (b >>> 5) = e at *
  have hch : ∀ c, c < 3 →
      (do
        let ab ← decompressOneChanT m signed (e.1.getD c 0) (e.1.getD (3 + c) 0)
        paletteT implW6_4 (getI ab 0) (getI ab 1) m.a0BitCount signed) = some (palOne signed m e.1 c) ∧
      (palOne signed m e.1 c).length = 16 ∧ HalfOk signed (palOne signed m e.1 c) := by
    intro c hc
    obtain ⟨a0, a1, l0, l1⟩ := hacc c hc
    have hdw : Bc6Spec.deltaW (recOne m) c = m.b0BitCount := by
      simp only [Bc6Spec.deltaW, hdelta]; split
      · rfl
      · split <;> rfl
    simp only [fieldWidth, if_true, if_false, hprec, hdw, Nat.one_ne_zero] at l0 l1
    rw [← a0] at l0; rw [← a1] at l1
    have h := chanOneT signed m _ _ l0 l1
    simp only [] at h
    obtain ⟨h1, h2, h3⟩ := h
    refine ⟨?_, palette_len .., h3⟩
    rw [h1, bind_some', h2]; rfl
  have hpal : mapT (fun c => do
        let ab ← decompressOneChanT m signed (e.1.getD c 0) (e.1.getD (3 + c) 0)
        paletteT implW6_4 (getI ab 0) (getI ab 1) m.a0BitCount signed) (List.range 3) =
      some ((List.range 3).map (palOne signed m e.1)) :=
    mapT_eq_some _ _ _ (fun c hc => (hch c (List.mem_range.mp hc)).1)
  have hPc : ∀ c, c < 3 → ((List.range 3).map (palOne signed m e.1)).getD c [] = palOne signed m e.1 c :=
    fun c hc => getD_map_range3 _ _ c hc
  constructor
  · unfold decodeBlockT Bc6.decodeBlock
    rw [extractModeT_eq, bind_some']
    simp only [hmode, hE, extractOneT_eq, bind_some']
    rw [TrapBc7.newP1T_eq _ _ (by omega), bind_some', hpal, bind_some']
    apply mapT_eq_some
    intro pixel hp
    have hp : pixel < 16 := List.mem_range.mp hp
    generalize hix : Bc7.newP1 4 e.2 = ix
    have hixb : ix.1.bits = 4 := by rw [← hix]; rfl
    have hixm : ix.1.mask = Bc7.getMask 4 := by rw [← hix]; rfl
    have hidx := TrapBc7.getIndex_le ix.1 pixel
    rw [hixm, TrapBc7.getMask_vals.2.2] at hidx
    rw [TrapBc7.getIndexT_eq _ _ hp (by omega), bind_some', dbgP_of hp, bind_some']
    apply mapT_eq_some
    intro c hc
    have hc : c < 3 := List.mem_range.mp hc
    rw [TrapBc7.idx_getD _ _ [] (by simp; exact hc), bind_some', hPc c hc,
      TrapBc7.idx_getD _ _ 0 (by rw [(hch c hc).2.1]; omega)]
    show _ = some (((List.map (palOne signed m e.1) (List.range 3)).getD c []).getD _ 0)
    rw [hPc c hc]
  · intro hs px hpx v hv
    unfold Bc6.decodeBlock at hpx
    simp only [hmode, hE] at hpx
    obtain ⟨pixel, _, rfl⟩ := List.mem_map.mp hpx
    obtain ⟨c, hc, rfl⟩ := List.mem_map.mp hv
    have hc := List.mem_range.mp hc
    show ((List.map (palOne signed m e.1) (List.range 3)).getD c []).getD _ 0 < _
    rw [hPc c hc]
    exact TrapBc7.getD_lt _ _ (by decide) ((hch c hc).2.2 hs) _

/-- **BC6H block**: no panic site of `decode_bc6_block` is reachable, the 16 pixels are those of the wrapping
model, and for `BC6H_UF16` every output half is non-negative and finite (`< 0x7C00`) -/
theorem decodeBlockT_eq (signed : Bool) (b : Nat) :
    decodeBlockT signed b = some (Bc6.decodeBlock signed b) ∧
    (signed = false → ∀ px ∈ Bc6.decodeBlock signed b, ∀ v ∈ px, v < 0x7C00) := by
  have hd := dispatch b
  cases hm : (extractMode b).1 with
  | two m => rw [hm] at hd; exact two_T signed m b hd.2
  | one m => rw [hm] at hd; exact one_T signed m b hd.2
  | invalid =>
    constructor
    · unfold decodeBlockT Bc6.decodeBlock
      rw [extractModeT_eq, bind_some']
      simp only [hm]
    · intro _ px hpx v hv
      unfold Bc6.decodeBlock at hpx
      simp only [hm] at hpx
      have hpe : px = [0, 0, 0] := List.eq_of_mem_replicate hpx
      rw [hpe] at hv
      simp only [List.mem_cons, List.not_mem_nil, or_false] at hv
      rcases hv with h | h | h <;> subst h <;> decide

/-! ### the six decoders -/

theorem twoPowiT_eq (exp : Nat) (h : exp ≤ 31) : twoPowiT exp 25 = some () := twoPowiT_of (by omega)

theorem exp_le (x : Nat) : (x >>> 10) &&& 31 ≤ 31 := Nat.and_le_right

theorem uf16AssertT_eq (x : Nat) (h : x < 0x7C00) : uf16AssertT x = some () := by
  have h1 : x &&& 0x8000 = 0 := by
    have e : (0x8000 : Nat) = 2 ^ 15 := by decide
    apply Nat.eq_of_testBit_eq
    intro i
    rw [Nat.testBit_and, Nat.zero_testBit, e, Nat.testBit_two_pow]
    by_cases hi : 15 = i
    · subst hi
      have hb : x.testBit 15 = false := Nat.testBit_lt_two_pow (by omega)
      simp [hb]
    · simp [hi]
  have h2 : (x >>> 10) &&& 31 < 31 := by
    have : x >>> 10 < 31 := by omega
    exact Nat.lt_of_le_of_lt Nat.and_le_left this
  unfold uf16AssertT
  rw [dbgP_of h1, bind_some', dbgP_of h2]

theorem convT_eq (signed : Bool) (prec x : Nat) (hx : signed = false → x < 0x7C00) :
    convT signed prec x = some (conv signed prec x) := by
  have he := exp_le x
  have t1 := twoPowiT_eq _ he
  have t2 := twoPowiT_eq 1 (by omega)
  cases signed
  · have ha := uf16AssertT_eq x (hx rfl)
    simp only [convT, conv, ha, bind_some', Bool.false_eq_true, ↓reduceIte]
    repeat' split
    all_goals (try simp only [t1, t2, bind_some', pure_some'])
  · simp only [convT, conv, bind_some', ↓reduceIte]
    repeat' split
    all_goals (try simp only [t1, t2, bind_some', pure_some'])

/-- **the six BC6H decoders** (`bc6_{s,u}_{u8,u16,f32}`): block decode + per-channel conversion never panic and
give the wrapping model's values -/
theorem decodeT_eq (signed : Bool) (prec b : Nat) :
    decodeT signed prec b = some ((Bc6.decodeBlock signed b).map (List.map (conv signed prec))) := by
  obtain ⟨h1, h2⟩ := decodeBlockT_eq signed b
  unfold decodeT
  rw [h1, bind_some']
  apply mapT_eq_some
  intro px hpx
  apply mapT_eq_some
  intro v hv
  exact convT_eq signed prec v (fun hs => h2 hs px hpx v hv)

end Dds.TrapBc6
