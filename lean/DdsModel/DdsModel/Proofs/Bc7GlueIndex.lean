/-
C03x glue, part 1: `Indexes::decompress_single_index` inserts a zero bit at the top position of the anchor's
index; the fields of the decompressed word are the positional reads of the specification's anchor rule.
Shared by BC7 (all modes) and BC6H.
-/
import DdsModel.Proofs.Bc7
namespace Dds.Bc7
open Dds.BcTables Dds.Bc7Spec

/-- decide every arithmetic side condition of a bit-level boolean expression with `omega` -/
macro "bsimp" : tactic => `(tactic| simp (disch := omega) only [decide_eq_true, decide_eq_false, if_pos, if_neg,
  Bool.true_and, Bool.and_true, Bool.false_and, Bool.and_false, Bool.or_false, Bool.false_or, Bool.true_or,
  Bool.or_true, Bool.not_true, Bool.not_false, Bool.and_self, Bool.or_self])

theorem U64_eq : U64 = 2 ^ 64 := by decide
theorem U8_eq : U8 = 2 ^ 8 := by decide

/-- `x` with a zero bit inserted at position `k` -/
def insZ (x k : Nat) : Nat := x % 2 ^ k + 2 ^ (k + 1) * (x / 2 ^ k)

theorem insZ_testBit (x k j : Nat) :
    (insZ x k).testBit j = if j < k then x.testBit j else if j = k then false else x.testBit (j - 1) := by
  unfold insZ
  have hlt : x % 2 ^ k < 2 ^ (k + 1) :=
    Nat.lt_trans (Nat.mod_lt _ (Nat.two_pow_pos k)) (Nat.pow_lt_pow_right (by decide) (by omega))
  rw [Nat.add_comm, Nat.testBit_two_pow_mul_add _ hlt, Nat.testBit_mod_two_pow, Nat.testBit_div_two_pow]
  by_cases h1 : j < k
  · have : j < k + 1 := by omega
    simp [h1, this]
  · by_cases h2 : j = k
    · subst h2; simp
    · have h3 : ¬ j < k + 1 := by omega
      have h4 : j - (k + 1) + k = j - 1 := by omega
      simp [h1, h2, h3, h4]

/-- `(1 << k) - 1` in `u64` for `k < 64` -/
theorem mask64_eq (k : Nat) (h : k < 64) : ((1 <<< k) % U64 + U64 - 1) % U64 = 2 ^ k - 1 := by
  have h1 : 2 ^ k < 2 ^ 64 := Nat.pow_lt_pow_right (by decide) h
  have h2 : 0 < 2 ^ k := Nat.two_pow_pos k
  rw [Nat.one_shiftLeft, U64_eq]
  generalize 2 ^ k = t at *
  omega

theorem getMask_eq (k : Nat) (h : k < 64) : getMask k = 2 ^ k - 1 := mask64_eq k h

theorem compl_testBit (n : Nat) (j : Nat) :
    (U64 - 1 - (2 ^ n - 1)).testBit j = (decide (j < 64) && !decide (j < n)) := by
  have h2 : 0 < 2 ^ n := Nat.two_pow_pos n
  by_cases hn : n ≤ 64
  · have hle : 2 ^ n ≤ 2 ^ 64 := Nat.pow_le_pow_right (by decide) hn
    have e : U64 - 1 - (2 ^ n - 1) = 2 ^ 64 - ((2 ^ n - 1) + 1) := by rw [U64_eq]; omega
    by_cases hn' : n = 64
    · subst hn'
      have : U64 - 1 - (2 ^ 64 - 1) = 0 := by decide
      rw [this]; simp
    · have hlt : 2 ^ n - 1 < 2 ^ 64 := by
        have : 2 ^ n < 2 ^ 64 := Nat.pow_lt_pow_right (by decide) (by omega)
        omega
      rw [e, Nat.testBit_two_pow_sub_succ hlt, Nat.testBit_two_pow_sub_one]
  · have hle : 2 ^ 64 ≤ 2 ^ n := Nat.pow_le_pow_right (by decide) (by omega)
    have : U64 - 1 - (2 ^ n - 1) = 0 := by rw [U64_eq]; omega
    rw [this]; simp; omega

/-- `decompress_single_index(bits, x, a)` = `x` with a zero inserted at bit `a*bits + bits - 1`
(the top bit of entry `a`), as long as the result fits the `u64` -/
theorem decompressSingleIndex_eq (bits x a : Nat) (hb : bits = 2 ∨ bits = 3 ∨ bits = 4) (ha : a < 16)
    (hx : x < 2 ^ (16 * bits - 1)) :
    decompressSingleIndex bits x a = insZ x (a * bits + bits - 1) := by
  have hK : (a * bits) % U8 = a * bits := by
    rcases hb with h | h | h <;> subst h <;> rw [U8_eq] <;> omega
  have hK64 : a * bits < 64 := by rcases hb with h | h | h <;> subst h <;> omega
  have hbits64 : bits < 64 := by omega
  have hxbit : ∀ j, 16 * bits - 1 ≤ j → x.testBit j = false := by
    intro j hj
    exact Nat.testBit_lt_two_pow (Nat.lt_of_lt_of_le hx (Nat.pow_le_pow_right (by decide) hj))
  have hm1 := mask64_eq _ hK64
  have hm2 := mask64_eq _ hbits64
  have hc := compl_testBit bits
  simp only [U64_eq] at hm1 hm2 hc
  apply Nat.eq_of_testBit_eq
  intro j
  simp only [decompressSingleIndex, getMask, hK, U64_eq, hm1, hm2, Nat.and_two_pow_sub_one_eq_mod,
    Nat.testBit_or, Nat.testBit_and, hc, Nat.testBit_shiftLeft, Nat.testBit_shiftRight,
    Nat.testBit_mod_two_pow, insZ_testBit]
  have hb16 : 16 * bits ≤ 64 := by omega
  have hKb : a * bits + bits ≤ 16 * bits := by rcases hb with h | h | h <;> subst h <;> omega
  generalize a * bits = K at *
  clear hm1 hm2 hc hK hx
  have hx1 := hxbit (j - 1)
  by_cases h1 : j < K
  · bsimp
  · by_cases h2 : j < K + bits - 1
    · bsimp; congr 1; omega
    · by_cases h3 : j = K + bits - 1
      · bsimp
      · by_cases h4 : j < 64
        · bsimp; congr 1; omega
        · have := hxbit (j - 1) (by omega)
          bsimp; exact this.symm

theorem insZ_lt (x k n : Nat) (hx : x < 2 ^ n) : insZ x k < 2 ^ (n + 1) := by
  apply Nat.lt_pow_two_of_testBit
  intro j hj
  have h1 : x.testBit j = false := Nat.testBit_lt_two_pow (Nat.lt_of_lt_of_le hx (Nat.pow_le_pow_right (by decide) (by omega)))
  have h2 : x.testBit (j - 1) = false :=
    Nat.testBit_lt_two_pow (Nat.lt_of_lt_of_le hx (Nat.pow_le_pow_right (by decide) (by omega)))
  rw [insZ_testBit]
  split
  · exact h1
  · split
    · rfl
    · exact h2

/-- the `n`-bit field of `y` at bit `q` -/
def fld (y q n : Nat) : Nat := (y >>> q) % 2 ^ n

theorem fld_testBit (y q n j : Nat) : (fld y q n).testBit j = (decide (j < n) && y.testBit (q + j)) := by
  simp only [fld, Nat.testBit_mod_two_pow, Nat.testBit_shiftRight]

/-- fields of a word with an inserted zero bit: below the zero, containing it as top bit, above it -/
theorem fld_insZ_below (x k q n : Nat) (h : q + n ≤ k) : fld (insZ x k) q n = fld x q n := by
  apply Nat.eq_of_testBit_eq; intro j
  simp only [fld_testBit, insZ_testBit]
  by_cases hj : j < n
  · bsimp
  · bsimp
theorem fld_insZ_top (x k q n : Nat) (h : q + n = k + 1) : fld (insZ x k) q n = fld x q (n - 1) := by
  apply Nat.eq_of_testBit_eq; intro j
  simp only [fld_testBit, insZ_testBit]
  by_cases hj : j < n - 1
  · bsimp
  · by_cases hj' : j < n
    · bsimp
    · bsimp
theorem fld_insZ_above (x k q n : Nat) (h : k < q) : fld (insZ x k) q n = fld x (q - 1) n := by
  apply Nat.eq_of_testBit_eq; intro j
  simp only [fld_testBit, insZ_testBit]
  by_cases hj : j < n
  · bsimp; congr 1; omega
  · bsimp

/-- a field of the masked stream word is a positional read of the block -/
theorem fld_stream (b P N q n : Nat) (h : q + n ≤ N) : fld ((b >>> P) % 2 ^ N) q n = rd b (P + q) n := by
  apply Nat.eq_of_testBit_eq; intro j
  simp only [fld_testBit, rd, Nat.testBit_mod_two_pow, Nat.testBit_shiftRight, Nat.testBit_div_two_pow]
  by_cases hj : j < n
  · bsimp; congr 1; omega
  · bsimp

/-- `consume_bits_64(count)` for `count < 64` -/
theorem consumeBits64_at (count b P : Nat) (h : count < 64) :
    consumeBits64 count (b >>> P) = ((b >>> P) % 2 ^ count, b >>> (P + count)) := by
  unfold consumeBits64
  have hd : 2 ^ count ∣ U64 := by rw [U64_eq]; exact Nat.pow_dvd_pow 2 (by omega)
  simp only [h, if_true, mask64_eq count h, Nat.and_two_pow_sub_one_eq_mod, Nat.mod_mod_of_dvd _ hd,
    Nat.shiftRight_add]

/-- `get_index` is the `bits`-wide field at `pixel * bits` -/
theorem getIndex_eq (unc bits pixel : Nat) (hb : bits ≤ 8) :
    getIndex ⟨unc, bits, getMask bits⟩ pixel = fld unc (pixel * bits) bits := by
  have hle : 2 ^ bits ≤ U8 := by rw [U8_eq]; exact Nat.pow_le_pow_right (by decide) hb
  have hlt : unc >>> (pixel * bits) % 2 ^ bits < U8 := Nat.lt_of_lt_of_le (Nat.mod_lt _ (Nat.two_pow_pos bits)) hle
  simp only [getIndex, fld, getMask_eq bits (by omega), Nat.and_two_pow_sub_one_eq_mod, Nat.mod_eq_of_lt hlt]

/-! ### the three constructors -/

/-- one subset: pixel 0 is the anchor -/
theorem newP1_index (bits b P i : Nat) (hb : bits = 2 ∨ bits = 3 ∨ bits = 4) (hi : i < 16) :
    getIndex (newP1 bits (b >>> P)).1 i =
      rd b (P + i * bits - (if i = 0 then 0 else 1)) (if i = 0 then bits - 1 else bits) ∧
    (newP1 bits (b >>> P)).2 = b >>> (P + (16 * bits - 1)) := by
  have hc : 16 * bits - 1 < 64 := by omega
  have hxlt : (b >>> P) % 2 ^ (16 * bits - 1) < 2 ^ (16 * bits - 1) := Nat.mod_lt _ (Nat.two_pow_pos _)
  simp only [newP1, consumeBits64_at _ b P hc, decompressSingleIndex_eq bits _ 0 hb (by omega) hxlt,
    getIndex_eq _ bits i (by omega), and_true]
  rcases hb with h | h | h <;> subst h <;> simp only [Nat.zero_mul, Nat.zero_add, Nat.reduceSub, Nat.reduceMul]
  all_goals
    by_cases h0 : i = 0
    · subst h0
      rw [fld_insZ_top _ _ _ _ (by omega), fld_stream _ _ _ _ _ (by omega)]
      simp only [if_true, Nat.zero_mul, Nat.add_zero, Nat.sub_zero, Nat.reduceSub]
    · rw [fld_insZ_above _ _ _ _ (by omega), fld_stream _ _ _ _ _ (by omega)]
      simp only [h0, if_false]
      congr 1; omega

/-- two subsets: anchors at pixel 0 and at `f2` -/
theorem newP2_index (bits b P f2 i : Nat) (hb : bits = 2 ∨ bits = 3 ∨ bits = 4) (hi : i < 16)
    (hf : 0 < f2) (hf' : f2 < 16) :
    getIndex (newP2 bits (b >>> P) f2).1 i =
      rd b (P + i * bits - ((if 0 < i then 1 else 0) + (if f2 < i then 1 else 0)))
        (if i = 0 ∨ i = f2 then bits - 1 else bits) ∧
    (newP2 bits (b >>> P) f2).2 = b >>> (P + (16 * bits - 2)) := by
  have hc : 16 * bits - 2 < 64 := by omega
  have hxlt : (b >>> P) % 2 ^ (16 * bits - 2) < 2 ^ (16 * bits - 2) := Nat.mod_lt _ (Nat.two_pow_pos _)
  have hxlt' : (b >>> P) % 2 ^ (16 * bits - 2) < 2 ^ (16 * bits - 1) :=
    Nat.lt_of_lt_of_le hxlt (Nat.pow_le_pow_right (by decide) (by omega))
  have hy := insZ_lt ((b >>> P) % 2 ^ (16 * bits - 2)) (0 * bits + bits - 1) _ hxlt
  have e : 16 * bits - 2 + 1 = 16 * bits - 1 := by omega
  rw [e] at hy
  simp only [newP2, consumeBits64_at _ b P hc, decompressSingleIndex_eq bits _ 0 hb (by omega) hxlt',
    decompressSingleIndex_eq bits _ f2 hb hf' hy, getIndex_eq _ bits i (by omega), and_true]
  rcases hb with h | h | h <;> subst h <;> simp only [Nat.zero_mul, Nat.zero_add, Nat.reduceSub, Nat.reduceMul]
  all_goals
    by_cases h0 : i = 0
    · subst h0
      rw [fld_insZ_below _ _ _ _ (by omega), fld_insZ_top _ _ _ _ (by omega), fld_stream _ _ _ _ _ (by omega)]
      simp only [true_or, if_true, Nat.zero_mul, Nat.add_zero, Nat.sub_zero, Nat.reduceSub, Nat.lt_irrefl,
        if_false, Nat.not_lt_zero]
    · by_cases h1 : i < f2
      · rw [fld_insZ_below _ _ _ _ (by omega), fld_insZ_above _ _ _ _ (by omega), fld_stream _ _ _ _ _ (by omega)]
        simp only [h0, show ¬ i = f2 by omega, show 0 < i by omega, show ¬ f2 < i by omega, or_self, if_false,
          if_true]
        congr 1; omega
      · by_cases h2 : i = f2
        · subst h2
          rw [fld_insZ_top _ _ _ _ (by omega), fld_insZ_above _ _ _ _ (by omega), fld_stream _ _ _ _ _ (by omega)]
          simp only [or_true, if_true, hf, Nat.lt_irrefl, if_false]
          congr 1; omega
        · rw [fld_insZ_above _ _ _ _ (by omega), fld_insZ_above _ _ _ _ (by omega),
            fld_stream _ _ _ _ _ (by omega)]
          simp only [h0, h2, show 0 < i by omega, show f2 < i by omega, or_self, if_false, if_true]
          congr 1; omega

/-- three subsets: anchors at pixel 0, `f2` and `f3` (position-sorted) -/
theorem newP3_index (bits b P f2 f3 i : Nat) (hb : bits = 2 ∨ bits = 3) (hi : i < 16)
    (hf : 0 < f2) (hf23 : f2 < f3) (hf' : f3 < 16) :
    getIndex (newP3 bits (b >>> P) f2 f3).1 i =
      rd b (P + i * bits - ((if 0 < i then 1 else 0) + (if f2 < i then 1 else 0) + (if f3 < i then 1 else 0)))
        (if i = 0 ∨ i = f2 ∨ i = f3 then bits - 1 else bits) ∧
    (newP3 bits (b >>> P) f2 f3).2 = b >>> (P + (16 * bits - 3)) := by
  have hb' : bits = 2 ∨ bits = 3 ∨ bits = 4 := by omega
  have hc : 16 * bits - 3 < 64 := by omega
  have hxlt : (b >>> P) % 2 ^ (16 * bits - 3) < 2 ^ (16 * bits - 3) := Nat.mod_lt _ (Nat.two_pow_pos _)
  have hxlt' : (b >>> P) % 2 ^ (16 * bits - 3) < 2 ^ (16 * bits - 1) :=
    Nat.lt_of_lt_of_le hxlt (Nat.pow_le_pow_right (by decide) (by omega))
  have hy := insZ_lt ((b >>> P) % 2 ^ (16 * bits - 3)) (0 * bits + bits - 1) _ hxlt
  have hy' : insZ ((b >>> P) % 2 ^ (16 * bits - 3)) (0 * bits + bits - 1) < 2 ^ (16 * bits - 1) :=
    Nat.lt_of_lt_of_le hy (Nat.pow_le_pow_right (by decide) (by omega))
  have hz := insZ_lt _ (f2 * bits + bits - 1) _ hy
  have e : 16 * bits - 3 + 1 + 1 = 16 * bits - 1 := by omega
  rw [e] at hz
  simp only [newP3, consumeBits64_at _ b P hc, decompressSingleIndex_eq bits _ 0 hb' (by omega) hxlt',
    decompressSingleIndex_eq bits _ f2 hb' (by omega) hy', decompressSingleIndex_eq bits _ f3 hb' hf' hz,
    getIndex_eq _ bits i (by omega), and_true]
  rcases hb with h | h <;> subst h <;> simp only [Nat.zero_mul, Nat.zero_add, Nat.reduceSub, Nat.reduceMul]
  all_goals
    by_cases h0 : i = 0
    · subst h0
      rw [fld_insZ_below _ _ _ _ (by omega), fld_insZ_below _ _ _ _ (by omega), fld_insZ_top _ _ _ _ (by omega),
        fld_stream _ _ _ _ _ (by omega)]
      simp only [true_or, if_true, Nat.zero_mul, Nat.add_zero, Nat.sub_zero, Nat.reduceSub, Nat.lt_irrefl,
        if_false, Nat.not_lt_zero]
    · by_cases h1 : i < f2
      · rw [fld_insZ_below _ _ _ _ (by omega), fld_insZ_below _ _ _ _ (by omega),
          fld_insZ_above _ _ _ _ (by omega), fld_stream _ _ _ _ _ (by omega)]
        simp only [h0, show ¬ i = f2 by omega, show ¬ i = f3 by omega, show 0 < i by omega,
          show ¬ f2 < i by omega, show ¬ f3 < i by omega, or_self, if_false, if_true]
        congr 1; omega
      · by_cases h2 : i = f2
        · subst h2
          rw [fld_insZ_below _ _ _ _ (by omega), fld_insZ_top _ _ _ _ (by omega),
            fld_insZ_above _ _ _ _ (by omega), fld_stream _ _ _ _ _ (by omega)]
          simp only [true_or, or_true, if_true, hf, Nat.lt_irrefl, if_false, show ¬ f3 < i by omega]
          congr 1; omega
        · by_cases h3 : i < f3
          · rw [fld_insZ_below _ _ _ _ (by omega), fld_insZ_above _ _ _ _ (by omega),
              fld_insZ_above _ _ _ _ (by omega), fld_stream _ _ _ _ _ (by omega)]
            simp only [h0, h2, show ¬ i = f3 by omega, show 0 < i by omega, show f2 < i by omega,
              show ¬ f3 < i by omega, or_self, if_false, if_true]
            congr 1; omega
          · by_cases h4 : i = f3
            · subst h4
              rw [fld_insZ_top _ _ _ _ (by omega), fld_insZ_above _ _ _ _ (by omega),
                fld_insZ_above _ _ _ _ (by omega), fld_stream _ _ _ _ _ (by omega)]
              simp only [or_true, if_true, show 0 < i by omega, hf23, Nat.lt_irrefl, if_false]
              congr 1; omega
            · rw [fld_insZ_above _ _ _ _ (by omega), fld_insZ_above _ _ _ _ (by omega),
                fld_insZ_above _ _ _ _ (by omega), fld_stream _ _ _ _ _ (by omega)]
              simp only [h0, h2, h4, show 0 < i by omega, show f2 < i by omega, show f3 < i by omega, or_self,
                if_false, if_true]
              congr 1; omega

end Dds.Bc7
