/- finite fact (kernel evaluation), slice 3 of 4: 16-bit values through nearest-binary32 -/
import DdsModel.Proofs.QuantFinA0
namespace Dds.Quant
set_option maxRecDepth 100000
theorem holdsF32U16_s8 : allRange holdsF32U16 6 32768 4096 = true := by decide +kernel
theorem holdsF32U16_s9 : allRange holdsF32U16 6 36864 4096 = true := by decide +kernel
theorem holdsF32U16_s10 : allRange holdsF32U16 6 40960 4096 = true := by decide +kernel
theorem holdsF32U16_s11 : allRange holdsF32U16 6 45056 4096 = true := by decide +kernel
end Dds.Quant
