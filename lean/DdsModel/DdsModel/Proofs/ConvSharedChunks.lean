/- R9G9B9E5: all 32 × 512 (exponent, mantissa) pairs, all three precisions (kernel evaluation, two chunks). -/
import DdsModel.Proofs.ConvFloat
namespace Dds.ConvProofs
open Dds Dds.Conv Dds.Spec Dds.CF32 Dds.ConvRange
set_option maxRecDepth 100000

def okShared (i : Nat) : Bool :=
  let e := i / 512
  let m := i % 512
  sharedF32 e m == roundF32 (sharedExp e m) && ((sharedN8 e m : Int) == toCode 255 (sharedExp e m)) &&
    ((sharedN16 e m : Int) == toCode 65535 (sharedExp e m) + (if e == 15 && m == 257 then 1 else 0))

theorem shared_c0 : allRange okShared 8 0 8192 = true := by decide +kernel
theorem shared_c1 : allRange okShared 8 8192 8192 = true := by decide +kernel

end Dds.ConvProofs
