/- Helper lemmas for C09 / C18 about the model `Header.lean`. -/
import DdsModel.Header
import DdsModel.Proofs.Layout
namespace Dds

/-! ### accepted DXGI codes (the runs are translated from the source: `SrcTables.dxgiValidRanges`) -/

theorem any_inR_lt {l : List (Nat × Nat)} {v n : Nat}
    (h : (l.any fun r => inR v r.1 r.2) = true) (hb : (l.all fun r => decide (r.2 < n)) = true) : v < n := by
  rw [List.any_eq_true] at h
  obtain ⟨r, hr, h1⟩ := h
  have h2 := List.all_eq_true.mp hb r hr
  simp only [inR, Bool.and_eq_true, decide_eq_true_eq] at h1 h2
  omega

/-- every accepted DXGI code fits the `u8` of `DxgiFormat(u8)`: `value as u8` in `try_from` does not truncate
(complete evaluation over the translated runs, so re-checked whenever the source's pattern changes) -/
theorem dxgiValid_lt256 {c : Nat} (h : dxgiValid c = true) : c < 256 :=
  any_inR_lt h (by decide)

/-! ### raw header -/

theorem RawHeader.read_write (r : RawHeader) (hc : r.Consistent) (rest : List Nat) :
    RawHeader.read (r.write ++ rest) = some (r, rest) := by
  obtain ⟨size, flags, height, width, pitch, depth, mips, ⟨r0, r1, r2, r3, r4, r5, r6, r7, r8, r9, r10⟩,
    ⟨ps, pfl, pcc, pbc, pr, pg, pb, pa⟩, caps, caps2, caps3, caps4, res2, dx⟩ := r
  unfold RawHeader.Consistent at hc
  cases dx with
  | none =>
    simp only [Option.isSome_none] at hc
    simp only [RawHeader.write, RawHeader.read, List.cons_append, List.nil_append, List.append_nil,
      ← hc]
    rfl
  | some d =>
    obtain ⟨d0, d1, d2, d3, d4⟩ := d
    simp only [Option.isSome_some] at hc
    simp only [RawHeader.write, RawHeader.read, List.cons_append, List.nil_append, ← hc]
    rfl

theorem RawHeader.write_read (ws : List Nat) (r : RawHeader) (rest : List Nat)
    (h : RawHeader.read ws = some (r, rest)) : r.write ++ rest = ws ∧ r.Consistent := by
  unfold RawHeader.read at h
  split at h
  · rename_i w0 w1 w2 w3 w4 w5 w6 w7 w8 w9 w10 w11 w12 w13 w14 w15 w16 w17 w18 w19 w20 w21 w22 w23
      w24 w25 w26 w27 w28 w29 w30 rest0
    simp only at h
    split at h
    · rename_i hd
      split at h
      · simp only [Option.some.injEq, Prod.mk.injEq] at h
        obtain ⟨h1, h2⟩ := h
        subst h1 h2
        exact ⟨rfl, by simp [RawHeader.Consistent, hd]⟩
      · cases h
    · rename_i hd
      simp only [Option.some.injEq, Prod.mk.injEq] at h
      obtain ⟨h1, h2⟩ := h
      subst h1 h2
      exact ⟨rfl, by simp [RawHeader.Consistent, hd]⟩
  · cases h


/-! ### bytes <-> words -/

theorem leWords_leBytes (ws : List Nat) (h : ∀ w ∈ ws, w < U32) : leWords (leBytes ws) = ws := by
  induction ws with
  | nil => rfl
  | cons w ws ih =>
    have hw : w < U32 := h w (List.mem_cons_self ..)
    simp only [leBytes, leWords]
    rw [ih (fun x hx => h x (List.mem_cons_of_mem _ hx))]
    congr 1
    unfold U32 at hw
    omega

theorem leBytes_leWords : ∀ (n : Nat) (bs : List Nat), bs.length = 4 * n → (∀ b ∈ bs, b < 256) →
    leBytes (leWords bs) = bs := by
  intro n
  induction n with
  | zero =>
    intro bs hl _
    have : bs = [] := List.eq_nil_of_length_eq_zero (by omega)
    subst this; rfl
  | succ n ih =>
    intro bs hl hb
    match bs, hl with
    | b0 :: b1 :: b2 :: b3 :: rest, hl =>
      have h0 : b0 < 256 := hb b0 (by simp)
      have h1 : b1 < 256 := hb b1 (by simp)
      have h2 : b2 < 256 := hb b2 (by simp)
      have h3 : b3 < 256 := hb b3 (by simp)
      simp only [leWords, leBytes]
      rw [ih rest (by simp at hl; omega) (fun b hb' => hb b (by simp [hb']))]
      have e0 : (b0 + 256 * b1 + 65536 * b2 + 16777216 * b3) % 256 = b0 := by omega
      have e1 : (b0 + 256 * b1 + 65536 * b2 + 16777216 * b3) / 256 % 256 = b1 := by omega
      have e2 : (b0 + 256 * b1 + 65536 * b2 + 16777216 * b3) / 65536 % 256 = b2 := by omega
      have e3 : (b0 + 256 * b1 + 65536 * b2 + 16777216 * b3) / 16777216 % 256 = b3 := by omega
      rw [e0, e1, e2, e3]
    | [], hl => simp at hl
    | [_], hl => simp at hl; omega
    | [_, _], hl => simp at hl; omega
    | [_, _, _], hl => simp at hl; omega

theorem leBytes_length (ws : List Nat) : (leBytes ws).length = 4 * ws.length := by
  induction ws with
  | nil => rfl
  | cons w ws ih => simp only [leBytes, List.length_cons, ih]; omega

theorem leBytes_lt (ws : List Nat) : ∀ b ∈ leBytes ws, b < 256 := by
  induction ws with
  | nil => intro b hb; cases hb
  | cons w ws ih =>
    intro b hb
    simp only [leBytes, List.mem_cons] at hb
    rcases hb with h | h | h | h | h
    · omega
    · omega
    · omega
    · omega
    · exact ih b h

/-! ### small conversions -/

theorem RgbBitCount.ofU32_toU32 (b : RgbBitCount) : RgbBitCount.ofU32 b.toU32 = some b := by
  cases b <;> rfl
theorem AlphaMode.ofU32_toU32 (a : AlphaMode) : AlphaMode.ofU32 a.toU32 = some a := by
  cases a <;> rfl
theorem ResDim.ofU32_toU32 (d : ResDim) : ResDim.ofU32 d.toU32 = some d := by
  cases d <;> rfl
theorem AlphaMode.toU32_lt (a : AlphaMode) : a.toU32 < 5 := by cases a <;> decide
theorem RgbBitCount.toU32_ne_zero (b : RgbBitCount) : b.toU32 ≠ 0 := by cases b <;> decide
theorem RgbBitCount.toU32_lt (b : RgbBitCount) : b.toU32 < U32 := by cases b <;> decide
theorem ResDim.toU32_lt (d : ResDim) : d.toU32 < U32 := by cases d <;> decide

theorem RgbBitCount.ofU32_some {n : Nat} {b : RgbBitCount} (h : RgbBitCount.ofU32 n = some b) :
    n = b.toU32 := by
  unfold RgbBitCount.ofU32 at h
  split at h
  · cases h; assumption
  · split at h
    · cases h; assumption
    · split at h
      · cases h; assumption
      · split at h
        · cases h; assumption
        · cases h

theorem Header.WF_mipmapCount' {h : Header} (hwf : h.WF) : 1 ≤ h.mipmapCount := by
  cases h with
  | dx9 x => exact hwf.2.2.2.1
  | dx10 x => exact hwf.2.2.2.1

/-! ### writing: flags -/

theorem pitchOrLinear_flag (px : Option PixelInfo) (w h : Nat) :
    (pitchOrLinear px w h).2 = 0 ∨ (pitchOrLinear px w h).2 = DDSD_PITCH ∨
      (pitchOrLinear px w h).2 = DDSD_LINEARSIZE := by
  unfold pitchOrLinear
  split
  · exact Or.inl rfl
  · split
    · exact Or.inr (Or.inl rfl)
    · exact Or.inl rfl
  · split
    · split
      · exact Or.inr (Or.inr rfl)
      · exact Or.inl rfl
    · exact Or.inl rfl

theorem pitchOrLinear_lt (px : Option PixelInfo) (w h : Nat) : (pitchOrLinear px w h).1 < U32 := by
  unfold pitchOrLinear
  split
  · decide
  · split
    · rename_i p hp
      unfold ckMul32 at hp
      split at hp
      · cases hp; assumption
      · cases hp
    · decide
  · split
    · split
      · assumption
      · decide
    · decide

theorem Header.toRaw_flags (pi : Header → Option PixelInfo) (h : Header) :
    bitSet (h.toRaw pi).flags DDSD_DEPTH = h.depth.isSome ∧
    bitSet (h.toRaw pi).flags DDSD_MIPMAPCOUNT = true ∧ (h.toRaw pi).flags < U32 := by
  have hp := pitchOrLinear_flag (pi h) h.width h.height
  have e : (h.toRaw pi).flags =
      (if h.depth.isSome then (DDSD_REQUIRED ||| DDSD_MIPMAPCOUNT) ||| DDSD_DEPTH
        else DDSD_REQUIRED ||| DDSD_MIPMAPCOUNT) ||| (pitchOrLinear (pi h) h.width h.height).2 := by
    cases h <;> rfl
  rw [e]
  cases hd : h.depth.isSome <;> rcases hp with hp | hp | hp <;> rw [hp] <;> decide


/-! ### parse (write h) -/

theorem Dx9PixelFormat.fromRaw_newFourCC (perm : Bool) (c : Nat) :
    Dx9PixelFormat.fromRaw perm (RawPixelFormat.newFourCC c) = .ok (.fourCC c) := by
  have hb : bitSet PF_FOURCC PF_FOURCC = true := by decide
  simp [Dx9PixelFormat.fromRaw, RawPixelFormat.newFourCC, hb]

theorem Dx9PixelFormat.fromRaw_newMask (perm : Bool) (m : MaskPixelFormat)
    (hf : bitSet m.flags PF_FOURCC = false) :
    Dx9PixelFormat.fromRaw perm (RawPixelFormat.newMask m) = .ok (.mask m) := by
  have hz := m.rgbBitCount.toU32_ne_zero
  simp [Dx9PixelFormat.fromRaw, RawPixelFormat.newMask, hf, hz, RgbBitCount.ofU32_toU32]

theorem Dx10Header.fromRaw_toRaw (perm : Bool) (x : Dx10Header) (hv : dxgiValid x.dxgiFormat = true)
    (h3 : x.resourceDimension = .tex3D → x.arraySize = 1) :
    Dx10Header.fromRaw perm x.height x.width x.depth x.mipmapCount
      { dxgiFormat := x.dxgiFormat, resourceDimension := x.resourceDimension.toU32,
        miscFlag := x.miscFlag, arraySize := x.arraySize, miscFlags2 := x.alphaMode.toU32 } = .ok x := by
  have ha : x.alphaMode.toU32 % 8 = x.alphaMode.toU32 := Nat.mod_eq_of_lt (by have := x.alphaMode.toU32_lt; omega)
  have h3' : ¬ (x.resourceDimension = .tex3D ∧ x.arraySize ≠ 1) := fun ⟨a, b⟩ => b (h3 a)
  simp [Dx10Header.fromRaw, parseAlphaMode, hv, ResDim.ofU32_toU32, ha, AlphaMode.ofU32_toU32, h3']
  intro a b; exact absurd (h3 a) b

/-- the pixel format `to_raw` writes parses back to this -/
def Header.pf : Header → Dx9PixelFormat
  | .dx9 x => x.pixelFormat
  | .dx10 _ => .fourCC FOURCC_DX10

theorem Header.fromRawNoFix_assemble {perm : Bool} {r : RawHeader}
    (hsize : r.size = RAW_HEADER_SIZE ∨ (perm = true ∧ r.size = 24)) {p : Dx9PixelFormat}
    (hpf : Dx9PixelFormat.fromRaw perm r.pixelFormat = .ok p) :
    Header.fromRawNoFix perm r =
      match r.dx10 with
      | some d =>
        match Dx10Header.fromRaw perm r.height r.width r.parsedDepth r.parsedMips d with
        | .error e => .error e
        | .ok x => .ok (.dx10 x)
      | none => .ok (.dx9 { height := r.height, width := r.width, depth := r.parsedDepth,
                            mipmapCount := r.parsedMips, caps2 := r.caps2, pixelFormat := p }) := by
  unfold Header.fromRawNoFix
  have : ¬ (r.size ≠ RAW_HEADER_SIZE ∧ ¬ (perm = true ∧ r.size = 24)) := by
    rintro ⟨h1, h2⟩
    rcases hsize with h | h
    · exact h1 h
    · exact h2 h
  rw [if_neg this, hpf]
  rfl

theorem Header.toRaw_parsedDepth (pi : Header → Option PixelInfo) (h : Header) :
    (h.toRaw pi).parsedDepth = h.depth := by
  unfold RawHeader.parsedDepth
  rw [(Header.toRaw_flags pi h).1]
  have : (h.toRaw pi).depth = h.depth.getD 1 := by cases h <;> rfl
  rw [this]
  cases h.depth <;> rfl

theorem parsedMips_of_flag {r : RawHeader} (hm : bitSet r.flags DDSD_MIPMAPCOUNT = true) :
    r.parsedMips = parsedMips r.mipmapCount := by
  unfold RawHeader.parsedMips parsedMips
  simp [hm]

theorem Header.toRaw_parsedMips (pi : Header → Option PixelInfo) (h : Header) (hm : 1 ≤ h.mipmapCount) :
    (h.toRaw pi).parsedMips = h.mipmapCount := by
  rw [parsedMips_of_flag (Header.toRaw_flags pi h).2.1]
  have : (h.toRaw pi).mipmapCount = h.mipmapCount := by cases h <;> rfl
  rw [this]
  unfold parsedMips
  rw [if_neg (by omega)]

theorem Header.toRaw_pf (pi : Header → Option PixelInfo) (perm : Bool) (h : Header) (hwf : h.WF) :
    Dx9PixelFormat.fromRaw perm (h.toRaw pi).pixelFormat = .ok h.pf := by
  cases h with
  | dx9 x =>
    obtain ⟨_, _, _, _, _, _, hpf⟩ := hwf
    cases hp : x.pixelFormat with
    | fourCC c => simp [Header.toRaw, Header.pf, hp, Dx9PixelFormat.fromRaw_newFourCC]
    | mask m =>
      rw [hp] at hpf
      simp [Header.toRaw, Header.pf, hp, Dx9PixelFormat.fromRaw_newMask perm m hpf.2.1]
  | dx10 x => simp [Header.toRaw, Header.pf, Dx9PixelFormat.fromRaw_newFourCC]

theorem Header.fromRawNoFix_toRaw (pi : Header → Option PixelInfo) (perm : Bool) (h : Header)
    (hwf : h.WF) : Header.fromRawNoFix perm (h.toRaw pi) = .ok h := by
  have hm1 := (Header.WF_mipmapCount' hwf)
  rw [Header.fromRawNoFix_assemble (Or.inl (by cases h <;> rfl)) (Header.toRaw_pf pi perm h hwf),
    Header.toRaw_parsedDepth, Header.toRaw_parsedMips pi h hm1]
  cases h with
  | dx9 x => rfl
  | dx10 x =>
    obtain ⟨_, _, _, _, _, hv, _, _, h3⟩ := hwf
    have hx := Dx10Header.fromRaw_toRaw perm x hv h3
    simp only [Header.toRaw, Header.height, Header.width, Header.depth, Header.mipmapCount]
    rw [hx]

theorem Header.toRaw_consistent (pi : Header → Option PixelInfo) (h : Header) (hwf : h.WF) :
    (h.toRaw pi).Consistent := by
  cases h with
  | dx9 x =>
    obtain ⟨_, _, _, _, _, _, hpf⟩ := hwf
    cases hp : x.pixelFormat with
    | fourCC c =>
      rw [hp] at hpf
      have : (c == FOURCC_DX10) = false := by simpa using hpf.2
      simp [Header.toRaw, RawHeader.Consistent, RawPixelFormat.saysDx10, hp, RawPixelFormat.newFourCC, this]
    | mask m =>
      rw [hp] at hpf
      simp [Header.toRaw, RawHeader.Consistent, RawPixelFormat.saysDx10, hp, RawPixelFormat.newMask, hpf.2.1]
  | dx10 x =>
    have hb : bitSet PF_FOURCC PF_FOURCC = true := by decide
    simp [Header.toRaw, RawHeader.Consistent, RawPixelFormat.saysDx10, RawPixelFormat.newFourCC, hb]

/-! ### `fix_based_on_file_len` -/

theorem Header.fixBasedOnFileLen_none (pi : Header → Option PixelInfo) (h : Header) :
    h.fixBasedOnFileLen pi none = (h, false) := rfl

theorem Header.fixCore_of_test {test : Header → Bool} {e : Nat} {h : Header} (ht : test h = true) :
    h.fixCore test e = (h, true) := by
  unfold Header.fixCore; simp [ht]

/-- the candidates `fix_based_on_file_len` can return -/
inductive Header.FixResult (test : Header → Bool) (e : Nat) (h : Header) : Header × Bool → Prop
  | same : test h = true → FixResult test e h (h, true)
  | zero (h1 : Header) : h.arrayZero? e = some h1 → test h1 = true → FixResult test e h (h1, true)
  | six (h1 c : Header) : h1 = (h.arrayZero? e).getD h → h1.cubeSix? = some c → test c = true →
      FixResult test e h (c, true)
  | mips (h1 : Header) (g : Nat) : h1 = (h.arrayZero? e).getD h → g ∈ h1.mipGuesses →
      test (h1.setMipmapCount g) = true → FixResult test e h (h1.setMipmapCount g, true)
  | fail (h1 : Header) : h1 = (h.arrayZero? e).getD h → test h = false → test h1 = false →
      (∀ c, h1.cubeSix? = some c → test c = false) →
      (∀ g ∈ h1.mipGuesses, test (h1.setMipmapCount g) = false) → FixResult test e h (h1, false)

theorem Header.fixCore_result (test : Header → Bool) (e : Nat) (h : Header) :
    Header.FixResult test e h (h.fixCore test e) := by
  unfold Header.fixCore
  by_cases ht : test h = true
  · simp only [ht, if_true]; exact .same ht
  · have ht' : test h = false := by simpa using ht
    simp only [ht', Bool.false_eq_true, if_false]
    by_cases hz : ((h.arrayZero? e).isSome && test ((h.arrayZero? e).getD h)) = true
    · simp only [hz, if_true]
      simp only [Bool.and_eq_true] at hz
      obtain ⟨h1, hh1⟩ := Option.isSome_iff_exists.mp hz.1
      have : (h.arrayZero? e).getD h = h1 := by rw [hh1]; rfl
      rw [this] at hz ⊢
      exact .zero h1 hh1 hz.2
    · simp only [hz, Bool.false_eq_true, if_false]
      have ht1 : test ((h.arrayZero? e).getD h) = false := by
        cases hzz : h.arrayZero? e with
        | none => simpa using ht'
        | some h1 => rw [hzz] at hz; simpa using hz
      generalize hh1 : (h.arrayZero? e).getD h = h1 at *
      cases hc : h1.cubeSix? with
      | some c =>
        by_cases htc : test c = true
        · simp only [htc, if_true]
          exact .six h1 c hh1.symm hc htc
        · have htc' : test c = false := by simpa using htc
          simp only [htc', Bool.false_eq_true, if_false]
          cases hf : h1.mipGuesses.find? (fun g => test (h1.setMipmapCount g)) with
          | some g =>
            have := List.find?_some hf
            have hm := List.mem_of_find?_eq_some hf
            exact .mips h1 g hh1.symm hm this
          | none =>
            refine .fail h1 hh1.symm ht' ht1 ?_ ?_
            · intro c' hc'; rw [hc] at hc'; cases hc'; exact htc'
            · intro g hg
              have := List.find?_eq_none.mp hf g hg
              simpa using this
      | none =>
        simp only
        cases hf : h1.mipGuesses.find? (fun g => test (h1.setMipmapCount g)) with
        | some g =>
          have := List.find?_some hf
          have hm := List.mem_of_find?_eq_some hf
          exact .mips h1 g hh1.symm hm this
        | none =>
          refine .fail h1 hh1.symm ht' ht1 ?_ ?_
          · intro c' hc'; rw [hc] at hc'; cases hc'
          · intro g hg
            have := List.find?_eq_none.mp hf g hg
            simpa using this

theorem Header.fixCore_true {test : Header → Bool} {e : Nat} {h : Header}
    (hr : (h.fixCore test e).2 = true) : test (h.fixCore test e).1 = true := by
  have := Header.fixCore_result test e h
  revert hr
  generalize h.fixCore test e = r at *
  cases this <;> simp_all


theorem Header.fixCore_false {test : Header → Bool} {e : Nat} {h : Header}
    (hr : (h.fixCore test e).2 = false) : (h.fixCore test e).1 = (h.arrayZero? e).getD h := by
  have := Header.fixCore_result test e h
  revert hr
  generalize h.fixCore test e = r at *
  cases this <;> simp_all

/-- everything of a header except mip count and array size -/
def Header.setArraySize : Header → Nat → Header
  | .dx9 x, _ => .dx9 x
  | .dx10 x, a => .dx10 { x with arraySize := a }
def Header.core (h : Header) : Header := (h.setMipmapCount 1).setArraySize 1

theorem Header.core_setMipmapCount (h : Header) (m : Nat) : (h.setMipmapCount m).core = h.core := by
  cases h <;> rfl

theorem Header.arrayZero?_some {e : Nat} {h h1 : Header} (hz : h.arrayZero? e = some h1) :
    ∃ x, h = .dx10 x ∧ x.arraySize = 0 ∧ 0 < e ∧ h1 = .dx10 { x with arraySize := 1 } := by
  cases h with
  | dx9 x => cases hz
  | dx10 x =>
    simp only [Header.arrayZero?] at hz
    by_cases hc : e > 0 ∧ x.arraySize = 0
    · rw [if_pos hc] at hz
      simp only [Option.some.injEq] at hz
      exact ⟨x, rfl, hc.2, hc.1, hz.symm⟩
    · rw [if_neg hc] at hz; cases hz

theorem Header.cubeSix?_some {h c : Header} (hz : h.cubeSix? = some c) :
    ∃ x, h = .dx10 x ∧ x.arraySize = 6 ∧ x.resourceDimension = .tex2D ∧
      c = .dx10 { x with arraySize := 1 } := by
  cases h with
  | dx9 x => cases hz
  | dx10 x =>
    simp only [Header.cubeSix?] at hz
    by_cases hc : x.arraySize = 6 ∧ x.resourceDimension = .tex2D ∧ bitSet x.miscFlag MISC_TEXTURE_CUBE = true
    · rw [if_pos hc] at hz
      simp only [Option.some.injEq] at hz
      exact ⟨x, rfl, hc.1, hc.2.1, hz.symm⟩
    · rw [if_neg hc] at hz; cases hz

theorem Header.arrayZero_getD_core (e : Nat) (h : Header) : ((h.arrayZero? e).getD h).core = h.core := by
  cases hz : h.arrayZero? e with
  | none => rfl
  | some h1 =>
    obtain ⟨x, rfl, _, _, rfl⟩ := Header.arrayZero?_some hz
    rfl

theorem Header.fixCore_core (test : Header → Bool) (e : Nat) (h : Header) :
    (h.fixCore test e).1.core = h.core := by
  have := Header.fixCore_result test e h
  generalize h.fixCore test e = r at *
  cases this with
  | same _ => rfl
  | zero h1 hz _ =>
    have := Header.arrayZero_getD_core e h
    rw [hz] at this; exact this
  | six h1 c hh1 hc _ =>
    obtain ⟨x, hx, _, _, rfl⟩ := Header.cubeSix?_some hc
    have := Header.arrayZero_getD_core e h
    rw [← hh1, hx] at this
    rw [← this]; rfl
  | mips h1 g hh1 _ _ =>
    rw [Header.core_setMipmapCount, hh1]; exact Header.arrayZero_getD_core e h
  | fail h1 hh1 _ _ _ _ => show h1.core = _; rw [hh1]; exact Header.arrayZero_getD_core e h

theorem Header.fixBasedOnFileLen_core (pi : Header → Option PixelInfo) (fl : Option Nat) (h : Header) :
    (h.fixBasedOnFileLen pi fl).1.core = h.core := by
  unfold Header.fixBasedOnFileLen
  split
  · rfl
  · split
    · rfl
    · split
      · rfl
      · exact Header.fixCore_core _ _ _

theorem Header.byteLen_core (h : Header) : h.core.byteLen = h.byteLen := by cases h <;> rfl
theorem Header.byteLen_of_core {h h' : Header} (hc : h.core = h'.core) : h.byteLen = h'.byteLen := by
  rw [← Header.byteLen_core h, hc, Header.byteLen_core]

/-! ### bounds -/

theorem bitLen_le (f n : Nat) : bitLen f n ≤ f := by
  induction f generalizing n with
  | zero => simp [bitLen]
  | succ f ih =>
    unfold bitLen
    split
    · omega
    · have := ih (n / 2); omega

theorem maxMipCount_bounds (n : Nat) : 1 ≤ maxMipCount n ∧ maxMipCount n ≤ 32 := by
  unfold maxMipCount
  have := bitLen_le 32 n
  omega

theorem Header.mipGuesses_bounds {h : Header} (hm : h.mipmapCount < U32) :
    ∀ g ∈ h.mipGuesses, 1 ≤ g ∧ g < U32 := by
  intro g hg
  unfold Header.mipGuesses at hg
  have hb := maxMipCount_bounds h.maxDim
  simp only [List.mem_filter, List.mem_cons, List.not_mem_nil, or_false, decide_eq_true_eq] at hg
  obtain ⟨hg, hne⟩ := hg
  refine ⟨by omega, ?_⟩
  unfold U32 at *
  rcases hg with rfl | rfl | rfl | rfl
  · omega
  · omega
  · omega
  · unfold satAdd32 U32; split <;> omega

theorem Header.WF_setMipmapCount {h : Header} (hwf : h.WF) {g : Nat} (h1 : 1 ≤ g) (h2 : g < U32) :
    (h.setMipmapCount g).WF := by
  cases h with
  | dx9 x =>
    obtain ⟨a, b, c, _, _, d, e⟩ := hwf
    exact ⟨a, b, c, h1, h2, d, e⟩
  | dx10 x =>
    obtain ⟨a, b, c, _, _, d, e, f, g'⟩ := hwf
    exact ⟨a, b, c, h1, h2, d, e, f, g'⟩

theorem Header.WF_mipmapCount {h : Header} (hwf : h.WF) : 1 ≤ h.mipmapCount ∧ h.mipmapCount < U32 := by
  cases h with
  | dx9 x => exact ⟨hwf.2.2.2.1, hwf.2.2.2.2.1⟩
  | dx10 x => exact ⟨hwf.2.2.2.1, hwf.2.2.2.2.1⟩

theorem Header.WF_setArraySize_one {x : Dx10Header} (hwf : (Header.dx10 x).WF) :
    (Header.dx10 { x with arraySize := 1 }).WF := by
  obtain ⟨a, b, c, d, e, f, g, _, _⟩ := hwf
  exact ⟨a, b, c, d, e, f, g, (by show 1 < U32; decide), fun _ => rfl⟩

theorem Header.WF_arrayZero_getD {h : Header} (hwf : h.WF) (e : Nat) : ((h.arrayZero? e).getD h).WF := by
  cases hz : h.arrayZero? e with
  | none => exact hwf
  | some h1 =>
    obtain ⟨x, rfl, _, _, rfl⟩ := Header.arrayZero?_some hz
    exact Header.WF_setArraySize_one hwf

theorem Header.fixCore_WF (test : Header → Bool) (e : Nat) {h : Header} (hwf : h.WF) :
    (h.fixCore test e).1.WF := by
  have := Header.fixCore_result test e h
  generalize h.fixCore test e = r at *
  have hz := Header.WF_arrayZero_getD hwf e
  cases this with
  | same _ => exact hwf
  | zero h1 hz' _ => rw [hz'] at hz; exact hz
  | six h1 c hh1 hc _ =>
    obtain ⟨x, hx, _, _, rfl⟩ := Header.cubeSix?_some hc
    rw [← hh1, hx] at hz
    exact Header.WF_setArraySize_one hz
  | mips h1 g hh1 hg _ =>
    rw [← hh1] at hz
    obtain ⟨g1, g2⟩ := Header.mipGuesses_bounds (Header.WF_mipmapCount hz).2 g hg
    exact Header.WF_setMipmapCount hz g1 g2
  | fail h1 hh1 _ _ _ _ => show h1.WF; rw [hh1]; exact hz

theorem Header.fixBasedOnFileLen_WF (pi : Header → Option PixelInfo) (fl : Option Nat) {h : Header}
    (hwf : h.WF) : (h.fixBasedOnFileLen pi fl).1.WF := by
  unfold Header.fixBasedOnFileLen
  split
  · exact hwf
  · split
    · exact hwf
    · split
      · exact hwf
      · exact Header.fixCore_WF _ _ hwf


/-! ### parsing yields well-formed headers -/

theorem bitSet_or_fourcc (x : Nat) : bitSet (x ||| PF_FOURCC) PF_FOURCC = true := by
  have h := Nat.testBit_or x 4 2
  rw [Nat.testBit_eq_decide_div_mod_eq, Nat.testBit_eq_decide_div_mod_eq,
    Nat.testBit_eq_decide_div_mod_eq] at h
  simp at h
  simp only [bitSet, PF_FOURCC, beq_iff_eq]
  omega

structure RawHeader.Fields (r : RawHeader) : Prop where
  height : r.height < U32
  width : r.width < U32
  depth : r.depth < U32
  mips : r.mipmapCount < U32
  caps2 : r.caps2 < U32
  pfFlags : r.pixelFormat.flags < U32
  fourCC : r.pixelFormat.fourCC < U32
  rMask : r.pixelFormat.rMask < U32
  gMask : r.pixelFormat.gMask < U32
  bMask : r.pixelFormat.bMask < U32
  aMask : r.pixelFormat.aMask < U32
  dx10 : ∀ d, r.dx10 = some d → d.miscFlag < U32 ∧ d.arraySize < U32

theorem RawHeader.InRange.fields {r : RawHeader} (h : r.InRange) : r.Fields := by
  unfold RawHeader.InRange RawHeader.write at h
  have hh : ∀ w ∈ [r.size, r.flags, r.height, r.width, r.pitchOrLinearSize, r.depth, r.mipmapCount,
   r.reserved1.r0, r.reserved1.r1, r.reserved1.r2, r.reserved1.r3, r.reserved1.r4,
   r.reserved1.r5, r.reserved1.r6, r.reserved1.r7, r.reserved1.r8, r.reserved1.r9,
   r.reserved1.r10,
   r.pixelFormat.size, r.pixelFormat.flags, r.pixelFormat.fourCC, r.pixelFormat.rgbBitCount,
   r.pixelFormat.rMask, r.pixelFormat.gMask, r.pixelFormat.bMask, r.pixelFormat.aMask,
   r.caps, r.caps2, r.caps3, r.caps4, r.reserved2], w < U32 :=
    fun w hw => h w (List.mem_append_left _ hw)
  refine ⟨hh _ (by simp), hh _ (by simp), hh _ (by simp), hh _ (by simp), hh _ (by simp),
    hh _ (by simp), hh _ (by simp), hh _ (by simp), hh _ (by simp), hh _ (by simp), hh _ (by simp), ?_⟩
  intro d hd
  rw [hd] at h
  exact ⟨h _ (List.mem_append_right _ (by simp)), h _ (List.mem_append_right _ (by simp))⟩

theorem Dx9PixelFormat.fromRaw_WF {perm : Bool} {pf : RawPixelFormat} {p : Dx9PixelFormat}
    (h : Dx9PixelFormat.fromRaw perm pf = .ok p) (hfl : pf.flags < U32) (hcc : pf.fourCC < U32)
    (hr : pf.rMask < U32) (hg : pf.gMask < U32) (hb : pf.bMask < U32) (ha : pf.aMask < U32)
    (hno : pf.saysDx10 = false) : p.WF := by
  unfold Dx9PixelFormat.fromRaw at h
  split at h
  · cases h
  · simp only at h
    split at h
    · -- repaired
      rename_i hrep
      rw [bitSet_or_fourcc] at h
      simp only [if_true, Except.ok.injEq] at h
      subst h
      exact ⟨hcc, hrep.2.2.2.1⟩
    · split at h
      · rename_i hbit
        simp only [Except.ok.injEq] at h
        subst h
        refine ⟨hcc, ?_⟩
        intro hc
        simp [RawPixelFormat.saysDx10, hbit, hc] at hno
      · rename_i hbit
        split at h
        · cases h
        · simp only [Except.ok.injEq] at h
          subst h
          exact ⟨hfl, by simpa using hbit, hr, hg, hb, ha⟩

theorem Dx10Header.fromRaw_WF {perm : Bool} {ht w : Nat} {dep : Option Nat} {m : Nat} {d : RawDx10}
    {x : Dx10Header} (h : Dx10Header.fromRaw perm ht w dep m d = .ok x) (hh : ht < U32) (hw : w < U32)
    (hd : optLt dep U32) (hm1 : 1 ≤ m) (hm2 : m < U32) (hmisc : d.miscFlag < U32)
    (harr : d.arraySize < U32) : (Header.dx10 x).WF := by
  unfold Dx10Header.fromRaw at h
  by_cases hv : dxgiValid d.dxgiFormat = false
  · rw [if_pos hv] at h; cases h
  · rw [if_neg hv] at h
    cases hdim : ResDim.ofU32 d.resourceDimension with
    | none => rw [hdim] at h; cases h
    | some dim =>
      rw [hdim] at h
      simp only at h
      cases ha : parseAlphaMode perm (d.miscFlags2 % 8) with
      | none => rw [ha] at h; cases h
      | some alpha =>
        rw [ha] at h
        simp only at h
        by_cases h3 : dim = .tex3D ∧ d.arraySize ≠ 1 ∧ perm = false
        · rw [if_pos h3] at h; cases h
        · rw [if_neg h3] at h
          simp only [Except.ok.injEq] at h
          subst h
          refine ⟨hw, hh, hd, hm1, hm2, by simpa using hv, hmisc, ?_, ?_⟩
          · show (if _ then 1 else d.arraySize) < U32
            split
            · decide
            · exact harr
          · intro h3'
            show (if _ then 1 else d.arraySize) = 1
            split
            · rfl
            · rename_i hn
              simp only [not_and, Decidable.not_not] at hn
              exact hn h3'

theorem RawHeader.parsedMips_bounds (raw : RawHeader) (hm : raw.mipmapCount < U32) :
    1 ≤ raw.parsedMips ∧ raw.parsedMips < U32 := by
  unfold RawHeader.parsedMips
  simp only
  split
  · split
    · exact ⟨by omega, by decide⟩
    · exact ⟨by omega, hm⟩
  · simp; decide

theorem Header.fromRawNoFix_WF {perm : Bool} {raw : RawHeader} {h : Header}
    (hp : Header.fromRawNoFix perm raw = .ok h) (hr : raw.InRange) (hc : raw.Consistent) : h.WF := by
  have f := hr.fields
  have hdep : optLt raw.parsedDepth U32 := by
    unfold RawHeader.parsedDepth
    split
    · exact f.depth
    · trivial
  obtain ⟨hm1, hm2⟩ := raw.parsedMips_bounds f.mips
  unfold Header.fromRawNoFix at hp
  split at hp
  · cases hp
  · split at hp
    · cases hp
    · rename_i pfm hpf
      split at hp
      · rename_i d hd
        split at hp
        · cases hp
        · rename_i x hx
          simp only [Except.ok.injEq] at hp
          subst hp
          obtain ⟨a, b⟩ := f.dx10 d hd
          exact Dx10Header.fromRaw_WF hx f.height f.width hdep hm1 hm2 a b
      · rename_i hd
        simp only [Except.ok.injEq] at hp
        subst hp
        have hno : raw.pixelFormat.saysDx10 = false := by
          unfold RawHeader.Consistent at hc
          rw [hd] at hc
          simpa using hc.symm
        exact ⟨f.width, f.height, hdep, hm1, hm2, f.caps2,
          Dx9PixelFormat.fromRaw_WF hpf f.pfFlags f.fourCC f.rMask f.gMask f.bMask f.aMask hno⟩

theorem Header.fromRaw_ok {pi : Header → Option PixelInfo} {opts : ParseOptions} {raw : RawHeader}
    {h : Header} (hp : Header.fromRaw pi opts raw = .ok h) :
    ∃ h0, Header.fromRawNoFix opts.permissive raw = .ok h0 ∧
      h = if opts.permissive then (h0.fixBasedOnFileLen pi opts.fileLen).1 else h0 := by
  unfold Header.fromRaw at hp
  split at hp
  · cases hp
  · rename_i h0 hh0
    refine ⟨h0, hh0, ?_⟩
    split at hp <;> simp_all

theorem Header.fromRaw_WF {pi : Header → Option PixelInfo} {opts : ParseOptions} {raw : RawHeader}
    {h : Header} (hp : Header.fromRaw pi opts raw = .ok h) (hr : raw.InRange) (hc : raw.Consistent) :
    h.WF := by
  obtain ⟨h0, hh0, rfl⟩ := Header.fromRaw_ok hp
  have hwf := Header.fromRawNoFix_WF hh0 hr hc
  split
  · exact Header.fixBasedOnFileLen_WF pi _ hwf
  · exact hwf


/-! ### strict versus permissive -/

theorem Dx9PixelFormat.fromRaw_strict_perm {pf : RawPixelFormat} {p : Dx9PixelFormat}
    (h : Dx9PixelFormat.fromRaw false pf = .ok p) : Dx9PixelFormat.fromRaw true pf = .ok p := by
  unfold Dx9PixelFormat.fromRaw at h ⊢
  by_cases hs : pf.size = RAW_PF_SIZE
  · simp only [hs, ne_eq, not_true_eq_false, false_and, if_false, Bool.false_eq_true] at h ⊢
    by_cases hb : bitSet pf.flags PF_FOURCC = true
    · simp only [hb, Bool.true_eq_false, and_false, if_false, if_true] at h ⊢
      exact h
    · have hb' : bitSet pf.flags PF_FOURCC = false := by simpa using hb
      simp only [hb', Bool.false_eq_true, if_false] at h
      cases hbc : RgbBitCount.ofU32 pf.rgbBitCount with
      | none => rw [hbc] at h; cases h
      | some bc =>
        have hz : pf.rgbBitCount ≠ 0 := by
          intro hz; rw [hz] at hbc; cases hbc
        rw [hbc] at h
        simp only [hz, false_and, and_false, if_false, hb', Bool.false_eq_true]
        exact h
  · simp [hs] at h

theorem parseAlphaMode_strict_perm {v : Nat} {a : AlphaMode} (h : parseAlphaMode false v = some a) :
    parseAlphaMode true v = some a := by
  unfold parseAlphaMode at h ⊢
  cases ho : AlphaMode.ofU32 v with
  | none => rw [ho] at h; simp at h
  | some b => rw [ho] at h; exact h

theorem Dx10Header.fromRaw_strict_perm {ht w : Nat} {dep : Option Nat} {m : Nat} {d : RawDx10}
    {x : Dx10Header} (h : Dx10Header.fromRaw false ht w dep m d = .ok x) :
    Dx10Header.fromRaw true ht w dep m d = .ok x := by
  unfold Dx10Header.fromRaw at h ⊢
  by_cases hv : dxgiValid d.dxgiFormat = false
  · rw [if_pos hv] at h; cases h
  · rw [if_neg hv] at h ⊢
    cases hdim : ResDim.ofU32 d.resourceDimension with
    | none => rw [hdim] at h; cases h
    | some dim =>
      rw [hdim] at h
      simp only at h ⊢
      cases ha : parseAlphaMode false (d.miscFlags2 % 8) with
      | none => rw [ha] at h; cases h
      | some alpha =>
        rw [ha] at h
        rw [parseAlphaMode_strict_perm ha]
        simp only at h ⊢
        by_cases h3 : dim = .tex3D ∧ d.arraySize ≠ 1
        · simp [h3] at h
        · have h1 : ¬ (dim = .tex3D ∧ d.arraySize ≠ 1 ∧ True) := fun ⟨a, b, _⟩ => h3 ⟨a, b⟩
          have h2 : ¬ (dim = .tex3D ∧ d.arraySize ≠ 1 ∧ true = false) := fun ⟨a, b, _⟩ => h3 ⟨a, b⟩
          rw [if_neg h1] at h
          rw [if_neg h2]
          exact h

theorem Header.fromRawNoFix_strict_perm {raw : RawHeader} {h : Header}
    (hp : Header.fromRawNoFix false raw = .ok h) : Header.fromRawNoFix true raw = .ok h := by
  unfold Header.fromRawNoFix at hp ⊢
  by_cases hs : raw.size = RAW_HEADER_SIZE
  · simp only [hs, ne_eq, not_true_eq_false, false_and, if_false] at hp ⊢
    cases hpf : Dx9PixelFormat.fromRaw false raw.pixelFormat with
    | error e => rw [hpf] at hp; cases hp
    | ok pfm =>
      rw [hpf] at hp
      rw [Dx9PixelFormat.fromRaw_strict_perm hpf]
      simp only at hp ⊢
      cases hd : raw.dx10 with
      | none => rw [hd] at hp; exact hp
      | some d =>
        rw [hd] at hp
        simp only at hp ⊢
        cases hx : Dx10Header.fromRaw false raw.height raw.width raw.parsedDepth raw.parsedMips d with
        | error e => rw [hx] at hp; cases hp
        | ok x =>
          rw [hx] at hp
          rw [Dx10Header.fromRaw_strict_perm hx]
          exact hp
  · simp [hs] at hp

/-! ### written images -/

theorem Header.toRaw_inRange (pi : Header → Option PixelInfo) (h : Header) (hwf : h.WF) :
    (h.toRaw pi).InRange := by
  obtain ⟨_, _, hfl⟩ := Header.toRaw_flags pi h
  have hpl := pitchOrLinear_lt (pi h) h.width h.height
  have hcaps : (if h.mipmapCount > 1 then CAPS_TEXTURE ||| (CAPS_MIPMAP ||| CAPS_COMPLEX) else CAPS_TEXTURE) < U32 := by
    split <;> decide
  intro w hw
  cases h with
  | dx9 x =>
    obtain ⟨h1, h2, h3, _, h5, h6, hpf⟩ := hwf
    have hdep : x.depth.getD 1 < U32 := by
      cases hd : x.depth with
      | none => decide
      | some v => rw [hd] at h3; exact h3
    cases hp : x.pixelFormat with
    | fourCC c =>
      rw [hp] at hpf
      simp only [Header.toRaw, RawHeader.write, hp, RawPixelFormat.newFourCC, Res11.zero,
        List.append_nil, List.mem_cons, List.not_mem_nil, or_false] at hw
      simp only [Header.toRaw, hp] at hfl
      simp only [Header.mipmapCount, Header.width, Header.height, Header.depth] at *
      rcases hw with rfl | rfl | rfl | rfl | rfl | rfl | rfl | rfl | rfl | rfl | rfl | rfl | rfl | rfl |
        rfl | rfl | rfl | rfl | rfl | rfl | rfl | rfl | rfl | rfl | rfl | rfl | rfl | rfl | rfl | rfl | rfl
      all_goals first | assumption | exact hpf.1 | decide
    | mask m =>
      rw [hp] at hpf
      obtain ⟨m1, _, m3, m4, m5, m6⟩ := hpf
      have := m.rgbBitCount.toU32_lt
      simp only [Header.toRaw, RawHeader.write, hp, RawPixelFormat.newMask, Res11.zero,
        List.append_nil, List.mem_cons, List.not_mem_nil, or_false] at hw
      simp only [Header.toRaw, hp] at hfl
      simp only [Header.mipmapCount, Header.width, Header.height, Header.depth] at *
      rcases hw with rfl | rfl | rfl | rfl | rfl | rfl | rfl | rfl | rfl | rfl | rfl | rfl | rfl | rfl |
        rfl | rfl | rfl | rfl | rfl | rfl | rfl | rfl | rfl | rfl | rfl | rfl | rfl | rfl | rfl | rfl | rfl
      all_goals first | assumption | decide
  | dx10 x =>
    obtain ⟨h1, h2, h3, _, h5, hv, h7, h8, _⟩ := hwf
    have hdep : x.depth.getD 1 < U32 := by
      cases hd : x.depth with
      | none => decide
      | some v => rw [hd] at h3; exact h3
    have hdx : x.dxgiFormat < U32 := by
      have : x.dxgiFormat < 256 := dxgiValid_lt256 hv
      unfold U32; omega
    have hdim := x.resourceDimension.toU32_lt
    have hal : x.alphaMode.toU32 < U32 := by have := x.alphaMode.toU32_lt; unfold U32; omega
    have hc2 : (if bitSet x.miscFlag MISC_TEXTURE_CUBE = true then
        (if x.resourceDimension = .tex3D then CAPS2_VOLUME else 0) ||| (CAPS2_CUBE_MAP ||| CAPS2_ALL_FACES)
        else (if x.resourceDimension = .tex3D then CAPS2_VOLUME else 0)) < U32 := by
      split <;> split <;> decide
    simp only [Header.toRaw, RawHeader.write, RawPixelFormat.newFourCC, Res11.zero,
      List.cons_append, List.nil_append, List.mem_cons, List.not_mem_nil, or_false] at hw
    simp only [Header.toRaw] at hfl
    simp only [Header.mipmapCount, Header.width, Header.height, Header.depth] at *
    rcases hw with rfl | rfl | rfl | rfl | rfl | rfl | rfl | rfl | rfl | rfl | rfl | rfl | rfl | rfl |
      rfl | rfl | rfl | rfl | rfl | rfl | rfl | rfl | rfl | rfl | rfl | rfl | rfl | rfl | rfl | rfl | rfl |
      rfl | rfl | rfl | rfl | rfl
    all_goals first | assumption | decide

theorem Header.write_length (pi : Header → Option PixelInfo) (h : Header) :
    4 * (h.write pi).length = 4 + h.byteLen := by
  cases h <;> rfl


theorem Header.fromRaw_strict (pi : Header → Option PixelInfo) (raw : RawHeader) :
    Header.fromRaw pi ParseOptions.strict raw = Header.fromRawNoFix false raw := by
  unfold Header.fromRaw ParseOptions.strict
  simp only
  cases Header.fromRawNoFix false raw <;> simp

theorem Header.fromRaw_perm (pi : Header → Option PixelInfo) (fl : Option Nat) (raw : RawHeader) :
    Header.fromRaw pi (ParseOptions.newPermissive fl) raw =
      match Header.fromRawNoFix true raw with
      | .error e => .error e
      | .ok h => .ok (h.fixBasedOnFileLen pi fl).1 := by
  unfold Header.fromRaw ParseOptions.newPermissive
  simp only
  cases Header.fromRawNoFix true raw <;> simp

end Dds
