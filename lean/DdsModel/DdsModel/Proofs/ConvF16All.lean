/-
C04: `n16::f32`, `s16::uf32`, `fp16::{f32,n8,n16}` against the rational specification on their whole 16-bit
domains — the twelve row files (kernel evaluation, built in parallel) combined.
-/
import DdsModel.Proofs.ConvF16RowsN0
import DdsModel.Proofs.ConvF16RowsN1
import DdsModel.Proofs.ConvF16RowsN2
import DdsModel.Proofs.ConvF16RowsN3
import DdsModel.Proofs.ConvF16RowsS0
import DdsModel.Proofs.ConvF16RowsS1
import DdsModel.Proofs.ConvF16RowsS2
import DdsModel.Proofs.ConvF16RowsS3
import DdsModel.Proofs.ConvF16RowsH0
import DdsModel.Proofs.ConvF16RowsH1
import DdsModel.Proofs.ConvF16RowsH2
import DdsModel.Proofs.ConvF16RowsH3
import DdsModel.Proofs.ConvF16Lift
namespace Dds.ConvFast
open Dds Dds.CF32 Dds.Spec Dds.Conv

theorem chkN16_all (v : Nat) (hv : v < 65536) : chkN16 v = true := by
  by_cases h0 : v < 16384
  · exact rowsN0 v (by omega) (by omega)
  by_cases h1 : v < 32768
  · exact rowsN1 v (by omega) (by omega)
  by_cases h2 : v < 49152
  · exact rowsN2 v (by omega) (by omega)
  exact rowsN3 v (by omega) (by omega)

theorem chkS16_all (v : Nat) (hv : v < 65536) : chkS16 v = true := by
  by_cases h0 : v < 16384
  · exact rowsS0 v (by omega) (by omega)
  by_cases h1 : v < 32768
  · exact rowsS1 v (by omega) (by omega)
  by_cases h2 : v < 49152
  · exact rowsS2 v (by omega) (by omega)
  exact rowsS3 v (by omega) (by omega)

theorem chkHalf_all (y : Nat) (hy : y < 31744) : chkHalf y = true := by
  by_cases h0 : y < 8192
  · exact rowsH0 y (by omega) (by omega)
  by_cases h1 : y < 16384
  · exact rowsH1 y (by omega) (by omega)
  by_cases h2 : y < 24576
  · exact rowsH2 y (by omega) (by omega)
  exact rowsH3 y (by omega) (by omega)

theorem n16f32_all (v : Nat) (hv : v < 65536) : n16f32 v = roundF32 (unorm 16 v) :=
  chkN16_sound v (chkN16_all v hv)

theorem s16f32_all (v : Nat) (hv : v < 65536) : s16f32 v = roundF32 (snorm 16 v) :=
  chkS16_sound v hv (chkS16_all v hv)

theorem half_f32_all (x : Nat) (hx : x < 65536) :
    match smallFloat 10 true x with
    | some v => smallF32 10 true x = if v = 0 then (if x < 32768 then 0 else signBit) else roundF32 v
    | none => if x % 1024 = 0 then smallF32 10 true x = (if x < 32768 then posInf else negInf)
        else isNaN (smallF32 10 true x) = true :=
  half_f32_of chkHalf_all x hx

theorem half_n8_all (x : Nat) (hx : x < 65536) :
    ((smallN8 10 true x : Nat) : Int) = match smallFloat 10 true x with
      | some v => toCode 255 v
      | none => if x % 1024 = 0 ∧ x < 32768 then 255 else 0 :=
  half_n8_of chkHalf_all x hx

theorem half_n16_all (x : Nat) (hx : x < 65536) :
    ((smallN16 10 true x : Nat) : Int) = match smallFloat 10 true x with
      | some v => toCode 65535 v + (if 14337 ≤ x ∧ x ≤ 14340 then 1 else 0)
      | none => if x % 1024 = 0 ∧ x < 32768 then 65535 else 0 :=
  half_n16_of chkHalf_all x hx

end Dds.ConvFast
