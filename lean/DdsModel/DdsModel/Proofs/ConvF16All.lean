/-
C04: `n16::f32`, `s16::uf32`, `fp16::{f32,n8,n16}` against the rational specification on their whole 16-bit
domains — the twelve row files (kernel evaluation, built in parallel) combined.
-/
import DdsModel.Proofs.ConvF16RowsN0
import DdsModel.Proofs.ConvF16RowsN1
import DdsModel.Proofs.ConvF16RowsN2
import DdsModel.Proofs.ConvF16RowsN3
import DdsModel.Proofs.ConvF16RowsS0
import DdsModel.Proofs.ConvF16RowsS1
import DdsModel.Proofs.ConvF16RowsS2
import DdsModel.Proofs.ConvF16RowsS3
import DdsModel.Proofs.ConvF16RowsH0
import DdsModel.Proofs.ConvF16RowsH1
import DdsModel.Proofs.ConvF16RowsH2
import DdsModel.Proofs.ConvF16RowsH3
import DdsModel.Proofs.ConvF16Lift
namespace Dds.ConvFast
open Dds Dds.CF32 Dds.Spec Dds.Conv

theorem chkN16_all (v : Nat) (hv : v < 65536) : chkN16 v = true := by
  by_cases h0 : v < 16384
  · exact rowsN0 v (by omega) (by omega)
  by_cases h1 : v < 32768
  · exact rowsN1 v (by omega) (by omega)
  by_cases h2 : v < 49152
  · exact rowsN2 v (by omega) (by omega)
  exact rowsN3 v (by omega) (by omega)

theorem chkS16_all (v : Nat) (hv : v < 65536) : chkS16 v = true := by
  by_cases h0 : v < 16384
  · exact rowsS0 v (by omega) (by omega)
  by_cases h1 : v < 32768
  · exact rowsS1 v (by omega) (by omega)
  by_cases h2 : v < 49152
  · exact rowsS2 v (by omega) (by omega)
  exact rowsS3 v (by omega) (by omega)

theorem chkHalf_all (y : Nat) (hy : y < 31744) : chkHalf y = true := by
  by_cases h0 : y < 8192
  · exact rowsH0 y (by omega) (by omega)
  by_cases h1 : y < 16384
  · exact rowsH1 y (by omega) (by omega)
  by_cases h2 : y < 24576
  · exact rowsH2 y (by omega) (by omega)
  exact rowsH3 y (by omega) (by omega)

theorem n16f32_all (v : Nat) (hv : v < 65536) : n16f32 v = roundF32 (unorm 16 v) :=
  chkN16_sound v (chkN16_all v hv)

theorem s16f32_all (v : Nat) (hv : v < 65536) : s16f32 v = roundF32 (snorm 16 v) :=
  chkS16_sound v hv (chkS16_all v hv)

theorem half_f32_all := half_f32_of chkHalf_all
theorem half_n8_all := half_n8_of chkHalf_all
theorem half_n16_all := half_n16_of chkHalf_all

end Dds.ConvFast
