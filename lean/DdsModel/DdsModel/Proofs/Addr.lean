/-
Helper lemmas for C05 (addressing model `Addr.lean`).
-/
import DdsModel.Addr
namespace Dds.Addr
open Dds

/-! ### arithmetic -/

theorem lt_divCeil_iff {n p k : Nat} (hp : 0 < p) : k < divCeil n p ↔ k * p < n := by
  have h := divCeil_spec n p hp
  obtain ⟨h1, h2⟩ := h
  constructor
  · intro hk
    by_cases hn : n = 0
    · subst hn
      have : divCeil 0 p = 0 := by unfold divCeil; simp
      omega
    · simp only [hn, if_false, Nat.add_zero] at h2
      have hle : k ≤ divCeil n p - 1 := by omega
      have : k * p ≤ (divCeil n p - 1) * p := Nat.mul_le_mul_right p hle
      omega
  · intro hk
    apply Classical.byContradiction
    intro hnot
    have hle : divCeil n p ≤ k := by omega
    have : divCeil n p * p ≤ k * p := Nat.mul_le_mul_right p hle
    omega

theorem divCeil_pos {n p : Nat} (hp : 0 < p) (hn : 0 < n) : 0 < divCeil n p := by
  rw [lt_divCeil_iff hp]; omega

theorem mem_stepStarts {n p cs : Nat} (hp : 0 < p) :
    cs ∈ stepStarts n p ↔ ∃ k, k * p < n ∧ cs = k * p := by
  unfold stepStarts
  simp only [List.mem_map, List.mem_range]
  constructor
  · rintro ⟨k, hk, rfl⟩; exact ⟨k, (lt_divCeil_iff hp).1 hk, rfl⟩
  · rintro ⟨k, hk, rfl⟩; exact ⟨k, (lt_divCeil_iff hp).2 hk, rfl⟩

/-- the chunk `[k*p, min((k+1)*p, n))` that contains `x` -/
theorem chunk_of {n p x : Nat} (hp : 0 < p) (hx : x < n) :
    (x / p) * p < n ∧ (x / p) * p ≤ x ∧ x < min ((x / p) * p + p) n := by
  have h1 := Nat.div_add_mod x p
  have h2 := Nat.mod_lt x hp
  have : x / p * p = p * (x / p) := Nat.mul_comm _ _
  rw [Nat.min_def]
  split <;> omega

/-! ### last write -/

theorem lastWrite_eq_some {bw bh : Nat} {runs : List Run} {row col : Nat} {s : Nat × Nat}
    (hs : ∀ r ∈ runs, r.covers row col = true → r.srcAt bw bh col = s)
    (hc : ∃ r ∈ runs, r.covers row col = true) : lastWrite bw bh runs row col = some s := by
  unfold lastWrite
  obtain ⟨r, hr, hrc⟩ := hc
  have hsome : (runs.reverse.find? (·.covers row col)).isSome := by
    rw [List.find?_isSome]; exact ⟨r, List.mem_reverse.2 hr, hrc⟩
  obtain ⟨r', hr'⟩ := Option.isSome_iff_exists.1 hsome
  rw [hr']
  have hm : r' ∈ runs := List.mem_reverse.1 (List.mem_of_find?_eq_some hr')
  have hc' : r'.covers row col = true := List.find?_some (p := fun (x : Run) => x.covers row col) hr'
  show some (Run.srcAt bw bh r' col) = some s
  rw [hs r' hm hc']

theorem lastWrite_eq_none {bw bh : Nat} {runs : List Run} {row col : Nat}
    (h : ∀ r ∈ runs, r.covers row col = false) : lastWrite bw bh runs row col = none := by
  unfold lastWrite
  have : runs.reverse.find? (·.covers row col) = none := by
    rw [List.find?_eq_none]
    intro x hx
    have := h x (List.mem_reverse.1 hx)
    simp [this]
  rw [this]; rfl

theorem covers_iff (r : Run) (row col : Nat) :
    r.covers row col = true ↔ r.row = row ∧ r.col ≤ col ∧ col < r.col + r.n := by
  unfold Run.covers
  simp [Bool.and_eq_true, and_assoc]

/-! ### per-pixel family -/

/-- what a caller needs to know about the runs of one row of `pixels` pixels -/
structure RowSpec (pixels : Nat) (runs : List Run) : Prop where
  sound : ∀ r ∈ runs, r.row = 0 ∧ r.ux = r.col ∧ r.uy = 0 ∧ r.px = 0 ∧ r.py = 0 ∧ r.col + r.n ≤ pixels ∧ 0 < r.n
  cover : ∀ x, x < pixels → ∃ r ∈ runs, r.col ≤ x ∧ x < r.col + r.n

theorem convPixels_spec (conv : Bool) (nbpp pixels : Nat) (hb : 0 < BUFFER_BYTES / nbpp) (hp : 0 < pixels) :
    RowSpec pixels (convPixels conv nbpp pixels) := by
  unfold convPixels
  cases conv with
  | false =>
    simp only [Bool.not_false, if_true]
    constructor
    · intro r hr
      simp only [List.mem_singleton] at hr
      subst hr
      simp [hp]
    · intro x hx
      exact ⟨_, List.mem_singleton.2 rfl, by simp, by simpa using hx⟩
  | true =>
    simp only [Bool.not_true, Bool.false_eq_true, if_false]
    constructor
    · intro r hr
      simp only [List.mem_map] at hr
      obtain ⟨cs, hcs, rfl⟩ := hr
      obtain ⟨k, hk, rfl⟩ := (mem_stepStarts hb).1 hcs
      refine ⟨rfl, rfl, rfl, rfl, rfl, ?_, ?_⟩
      · show k * (BUFFER_BYTES / nbpp) + (min (k * (BUFFER_BYTES / nbpp) + BUFFER_BYTES / nbpp) pixels - k * (BUFFER_BYTES / nbpp)) ≤ pixels
        omega
      · show 0 < (min (k * (BUFFER_BYTES / nbpp) + BUFFER_BYTES / nbpp) pixels - k * (BUFFER_BYTES / nbpp))
        omega
    · intro x hx
      obtain ⟨h1, h2, h3⟩ := chunk_of hb hx
      refine ⟨_, List.mem_map.2 ⟨_, (mem_stepStarts hb).2 ⟨x / (BUFFER_BYTES / nbpp), h1, rfl⟩, rfl⟩, h2, ?_⟩
      show x < x / (BUFFER_BYTES / nbpp) * (BUFFER_BYTES / nbpp) +
        (min (x / (BUFFER_BYTES / nbpp) * (BUFFER_BYTES / nbpp) + BUFFER_BYTES / nbpp) pixels - x / (BUFFER_BYTES / nbpp) * (BUFFER_BYTES / nbpp))
      omega

theorem rectRowPos_eq (W ox oy w y : Nat) (h : ox + w ≤ W) :
    rectRowPos W ox oy w y = W * (oy + y) + ox := by
  induction y with
  | zero => rfl
  | succ y ih =>
    unfold rectRowPos
    rw [ih, ← Nat.add_assoc oy y 1, Nat.mul_add W (oy + y) 1]
    omega

/-! ### crop predicates -/

/-- every run lies inside the `w × h` view and carries the source pixels of the crop at `(ox, oy)` -/
def CropSound (bw bh ox oy w h : Nat) (runs : List Run) : Prop :=
  ∀ r ∈ runs, r.row < h ∧ r.col + r.n ≤ w ∧ r.ux * bw + r.px = ox + r.col ∧ r.uy * bh + r.py = oy + r.row

/-- every pixel of the view is written -/
def CropCover (w h : Nat) (runs : List Run) : Prop :=
  ∀ i j, i < w → j < h → ∃ r ∈ runs, r.covers j i = true

/-- block runs never leave their unit -/
def WithinUnit (bw bh : Nat) (runs : List Run) : Prop :=
  ∀ r ∈ runs, r.px + r.n ≤ bw ∧ r.py < bh

theorem lastWrite_crop {bw bh ox oy w h : Nat} {runs : List Run}
    (hs : CropSound bw bh ox oy w h runs) (hc : CropCover w h runs) (i j : Nat) (hi : i < w) (hj : j < h) :
    lastWrite bw bh runs j i = some (ox + i, oy + j) := by
  apply lastWrite_eq_some
  · intro r hr hcov
    obtain ⟨h1, h2, h3, h4⟩ := hs r hr
    obtain ⟨c1, c2, c3⟩ := (covers_iff r j i).1 hcov
    unfold Run.srcAt
    rw [h3, h4, c1]
    congr 1
    omega
  · exact hc i j hi hj

theorem lastWrite_outside {bw bh ox oy w h : Nat} {runs : List Run}
    (hs : CropSound bw bh ox oy w h runs) (row col : Nat) (ho : ¬ (col < w ∧ row < h)) :
    lastWrite bw bh runs row col = none := by
  apply lastWrite_eq_none
  intro r hr
  obtain ⟨h1, h2, _, _⟩ := hs r hr
  cases hcv : r.covers row col with
  | false => rfl
  | true =>
    obtain ⟨c1, c2, c3⟩ := (covers_iff r row col).1 hcv
    exfalso; apply ho; omega

theorem pixelRect_sound (conv : Bool) (nbpp W ox oy w h : Nat) (hb : 0 < BUFFER_BYTES / nbpp)
    (hw : 0 < w) (hx : ox + w ≤ W) :
    CropSound 1 1 ox oy w h (pixelRect conv nbpp W ox oy w h) := by
  intro r hr
  unfold pixelRect at hr
  simp only [List.mem_flatMap, List.mem_range, List.mem_map] at hr
  obtain ⟨y, hy, r0, hr0, rfl⟩ := hr
  obtain ⟨s1, s2, s3, s4, s5, s6, s7⟩ := (convPixels_spec conv nbpp w hb hw).sound r0 hr0
  rw [rectRowPos_eq W ox oy w y hx]
  have hW : 0 < W := by omega
  have e1 : (W * (oy + y) + ox + r0.ux) % W = ox + r0.col := by
    rw [show W * (oy + y) + ox + r0.ux = (ox + r0.ux) + W * (oy + y) by omega, Nat.add_mul_mod_self_left,
      Nat.mod_eq_of_lt (by omega), s2]
  have e2 : (W * (oy + y) + ox + r0.ux) / W = oy + y := by
    rw [show W * (oy + y) + ox + r0.ux = (ox + r0.ux) + W * (oy + y) by omega, Nat.add_mul_div_left _ _ hW,
      Nat.div_eq_of_lt (by omega)]
    omega
  refine ⟨?_, s6, ?_, ?_⟩
  · show r0.row + y < h
    omega
  · show (W * (oy + y) + ox + r0.ux) % W * 1 + r0.px = ox + r0.col
    rw [e1, s4]; omega
  · show (W * (oy + y) + ox + r0.ux) / W * 1 + r0.py = oy + (r0.row + y)
    rw [e2, s5, s1]; omega

theorem pixelRect_cover (conv : Bool) (nbpp W ox oy w h : Nat) (hb : 0 < BUFFER_BYTES / nbpp) (hw : 0 < w) :
    CropCover w h (pixelRect conv nbpp W ox oy w h) := by
  intro i j hi hj
  obtain ⟨r0, hr0, c1, c2⟩ := (convPixels_spec conv nbpp w hb hw).cover i hi
  obtain ⟨s1, _⟩ := (convPixels_spec conv nbpp w hb hw).sound r0 hr0
  refine ⟨{ r0 with row := r0.row + j, ux := (rectRowPos W ox oy w j + r0.ux) % W,
                      uy := (rectRowPos W ox oy w j + r0.ux) / W }, ?_, ?_⟩
  · unfold pixelRect
    simp only [List.mem_flatMap, List.mem_range, List.mem_map]
    exact ⟨j, hj, r0, hr0, rfl⟩
  · rw [covers_iff]
    exact ⟨by show r0.row + j = j; omega, c1, c2⟩

theorem pixelFull_sound (conv : Bool) (nbpp W H : Nat) (hb : 0 < BUFFER_BYTES / nbpp) (hw : 0 < W) :
    CropSound 1 1 0 0 W H (pixelFull conv nbpp W H) := by
  intro r hr
  unfold pixelFull at hr
  simp only [List.mem_flatMap, List.mem_range, List.mem_map] at hr
  obtain ⟨y, hy, r0, hr0, rfl⟩ := hr
  obtain ⟨s1, s2, s3, s4, s5, s6, s7⟩ := (convPixels_spec conv nbpp W hb hw).sound r0 hr0
  unfold Run.shift
  refine ⟨?_, s6, ?_, ?_⟩
  · show r0.row + y < H; omega
  · show (r0.ux + 0) * 1 + r0.px = 0 + (r0.col + 0); omega
  · show (r0.uy + y) * 1 + r0.py = 0 + (r0.row + y); omega

theorem pixelFull_cover (conv : Bool) (nbpp W H : Nat) (hb : 0 < BUFFER_BYTES / nbpp) (hw : 0 < W) :
    CropCover W H (pixelFull conv nbpp W H) := by
  intro i j hi hj
  obtain ⟨r0, hr0, c1, c2⟩ := (convPixels_spec conv nbpp W hb hw).cover i hi
  obtain ⟨s1, _⟩ := (convPixels_spec conv nbpp W hb hw).sound r0 hr0
  refine ⟨Run.shift j 0 0 j r0, ?_, ?_⟩
  · unfold pixelFull
    simp only [List.mem_flatMap, List.mem_range, List.mem_map]
    exact ⟨j, hj, r0, hr0, rfl⟩
  · rw [covers_iff]
    unfold Run.shift
    exact ⟨by show r0.row + j = j; omega, by show r0.col + 0 ≤ i; omega, by show i < r0.col + 0 + r0.n; omega⟩

theorem copyFull_sound (W H : Nat) : CropSound 1 1 0 0 W H (copyFull W H) := by
  intro r hr
  unfold copyFull at hr
  simp only [List.mem_map, List.mem_range] at hr
  obtain ⟨y, hy, rfl⟩ := hr
  exact ⟨hy, by simp, by simp, by simp⟩

theorem copyFull_cover (W H : Nat) : CropCover W H (copyFull W H) := by
  intro i j hi hj
  refine ⟨⟨j, 0, W, 0, j, 0, 0⟩, ?_, ?_⟩
  · unfold copyFull; simp only [List.mem_map, List.mem_range]; exact ⟨j, hj, rfl⟩
  · rw [covers_iff]; exact ⟨rfl, Nat.zero_le _, by simpa using hi⟩

/-- bytes of a run that lies inside a `w`-pixel row stay inside the addressed part of that row -/
theorem run_bytes_in_row (pitch obpp w : Nat) (r : Run) (hp : w * obpp ≤ pitch) (hc : r.col + r.n ≤ w) :
    r.row * pitch ≤ r.byteLo pitch obpp ∧ r.byteLo pitch obpp ≤ r.byteHi pitch obpp ∧
    r.byteHi pitch obpp ≤ r.row * pitch + w * obpp ∧ r.byteHi pitch obpp ≤ (r.row + 1) * pitch := by
  unfold Run.byteLo Run.byteHi
  have h1 : (r.col + r.n) * obpp ≤ w * obpp := Nat.mul_le_mul_right obpp hc
  have h2 : r.col * obpp ≤ (r.col + r.n) * obpp := Nat.mul_le_mul_right obpp (Nat.le_add_right _ _)
  rw [Nat.succ_mul]
  omega

/-! ### line buffer -/

theorem lbLines_eq (cap : Nat) (hcap : 0 < cap) :
    ∀ fuel onDisk base, onDisk ≤ fuel → lbLines cap fuel onDisk base = (List.range onDisk).map (base + ·) := by
  intro fuel
  induction fuel with
  | zero => intro onDisk base h; have : onDisk = 0 := by omega
            subst this; rfl
  | succ fuel ih =>
    intro onDisk base h
    unfold lbLines
    by_cases h0 : onDisk = 0
    · subst h0; rfl
    · rw [if_neg h0]
      simp only
      have hk : 0 < min cap onDisk := by omega
      rw [ih (onDisk - min cap onDisk) (base + min cap onDisk) (by omega)]
      have e : onDisk = min cap onDisk + (onDisk - min cap onDisk) := by omega
      conv => rhs; rw [e, List.range_add, List.map_append, List.map_map]
      congr 1
      apply List.map_congr_left
      intro x _
      simp [Function.comp, Nat.add_assoc]

theorem lbCapacity_pos (bpl h : Nat) (hh : 0 < h) : 0 < lbCapacity bpl h := by
  unfold lbCapacity
  simp only
  split
  · omega
  · split <;> omega

end Dds.Addr
