/-
The rounding-error bounds of `Proofs/F32Err.lean` lifted to the operators of `ConvF32.lean` on FINITE operands of
both signs, in `Rat` vocabulary.  See the header of `F32Err.lean`.  Core only.
-/
import DdsModel.Proofs.F32Err
namespace Dds.F32Err
open Dds Dds.CF32 Dds.ConvFast Dds.F32Mono Dds.F32Thr Dds.Spec

/-! ### finite patterns and their integer value -/

/-- a finite 32-bit pattern (either sign, zeros and subnormals included) -/
def FinP (x : Nat) : Prop := x < 4294967296 ∧ x % 2147483648 < 0x7F800000

instance (x : Nat) : Decidable (FinP x) := inferInstanceAs (Decidable (_ ∧ _))

/-- the value of a finite pattern in units of 2^-149 -/
def ival (x : Nat) : Int :=
  if 2147483648 ≤ x then -((pval (x % 2147483648) : Nat) : Int) else ((pval (x % 2147483648) : Nat) : Int)

theorem finP_flags (x : Nat) (h : FinP x) :
    isNaN x = false ∧ isInf x = false ∧ isNeg x = decide (2147483648 ≤ x) ∧
    mant x = mantR (x % 2147483648) ∧ expo x = (bexpR (x % 2147483648) : Int) - 1000 := by
  obtain ⟨h1, h2⟩ := h
  obtain ⟨a1, a2, a3, a4, a5⟩ := posfin (x % 2147483648) h2
  have he : expField x = expField (x % 2147483648) := by
    rw [expField_eq, expField_eq]; omega
  have hf : fracField x = fracField (x % 2147483648) := by
    unfold fracField; omega
  refine ⟨?_, ?_, ?_, ?_, ?_⟩
  · rw [← a1]; unfold isNaN; rw [he, hf]
  · rw [← a2]; unfold isInf; rw [he, hf]
  · unfold isNeg signBit; rfl
  · rw [← a4]; unfold mant; rw [he, hf]
  · rw [← a5]; unfold expo; rw [he]

theorem finP_of_lt (p : Nat) (h : p < 0x7F800000) : FinP p ∧ ival p = (pval p : Int) := by
  have e : p % 2147483648 = p := Nat.mod_eq_of_lt (by omega)
  refine ⟨⟨by omega, by rw [e]; exact h⟩, ?_⟩
  unfold ival
  rw [e, if_neg (by omega)]

theorem finP_signBit_add (p : Nat) (h : p < 0x7F800000) :
    FinP (signBit + p) ∧ ival (signBit + p) = -(pval p : Int) := by
  have e : (signBit + p) % 2147483648 = p := by unfold signBit; omega
  refine ⟨⟨by unfold signBit; omega, by rw [e]; exact h⟩, ?_⟩
  unfold ival
  rw [e, if_pos (by unfold signBit; omega)]

/-! ### "x is the rounding of the exact value Z·2^-1000" -/

/-- `x` is `roundPack` of a signed dyadic whose value is `Z` in units of 2^-1000 -/
def IsRound (x : Nat) (Z : Int) : Prop :=
  ∃ (s : Bool) (m B : Nat), x = roundPack s m ((B : Int) - 1000) ∧ (if s then -(m : Int) else (m : Int)) * 2 ^ B = Z

theorem roundPack_fin (s : Bool) (m B : Nat) (h : rpU m B < 0x7F800000) :
    FinP (roundPack s m ((B : Int) - 1000)) ∧
    ival (roundPack s m ((B : Int) - 1000)) = if s then -(pval (rpU m B) : Int) else (pval (rpU m B) : Int) := by
  cases s
  · rw [roundPack_eq_rpU]
    exact finP_of_lt _ h
  · rw [roundPack_sign, roundPack_eq_rpU]
    exact finP_signBit_add _ h

theorem signed_natAbs (s : Bool) (m : Nat) (P : Nat) :
    ((if s then -(m : Int) else (m : Int)) * (P : Int)).natAbs = m * P := by
  cases s
  · simp only [Bool.false_eq_true, if_false]
    rw [Int.natAbs_mul, Int.natAbs_natCast, Int.natAbs_natCast]
  · simp only [if_true]
    rw [Int.natAbs_mul, Int.natAbs_neg, Int.natAbs_natCast, Int.natAbs_natCast]

theorem pow_cast (B : Nat) : ((2 : Int) ^ B) = ((2 ^ B : Nat) : Int) := by
  rw [Int.natCast_pow]; rfl

/-- absolute form, integers (units of 2^-1000): `|Z| < 2^T` ⇒ `2·|ival x·2^851 − Z| ≤ 2^(T−24)` -/
theorem isRound_ulp_int (x : Nat) (Z : Int) (h : IsRound x Z) (T : Nat) (hT : 875 ≤ T) (hT2 : T ≤ 1127)
    (hb : Z.natAbs < 2 ^ T) :
    FinP x ∧ 2 * (ival x * 2 ^ 851) ≤ 2 * Z + 2 ^ (T - 24) ∧ 2 * Z ≤ 2 * (ival x * 2 ^ 851) + 2 ^ (T - 24) := by
  obtain ⟨s, m, B, rfl, rfl⟩ := h
  rw [pow_cast B, signed_natAbs] at hb
  obtain ⟨h0, h1, h2⟩ := rpU_err_ulp m B T hT hT2 hb
  obtain ⟨f1, f2⟩ := roundPack_fin s m B h0
  refine ⟨f1, ?_⟩
  rw [f2, pow_cast B, pow_cast 851, pow_cast (T - 24)]
  have g1 : ((2 * (pval (rpU m B) * 2 ^ 851) : Nat) : Int) ≤ ((2 * (m * 2 ^ B) + 2 ^ (T - 24) : Nat) : Int) :=
    Int.ofNat_le.mpr h1
  have g2 : ((2 * (m * 2 ^ B) : Nat) : Int) ≤ ((2 * (pval (rpU m B) * 2 ^ 851) + 2 ^ (T - 24) : Nat) : Int) :=
    Int.ofNat_le.mpr h2
  simp only [Int.natCast_add, Int.natCast_mul] at g1 g2
  clear h1 h2 hb f2 f1 h0
  generalize ((2 ^ (T - 24) : Nat) : Int) = Q at *
  generalize ((2 ^ 851 : Nat) : Int) = P at *
  generalize ((2 ^ B : Nat) : Int) = PB at *
  generalize ((pval (rpU m B) : Nat) : Int) = V at *
  cases s
  · simp only [Bool.false_eq_true, if_false]
    generalize V * P = VP at *
    generalize (m : Int) * PB = X at *
    omega
  · simp only [if_true, Int.neg_mul]
    generalize V * P = VP at *
    generalize (m : Int) * PB = X at *
    omega

/-- relative form, integers: `2^874 ≤ |Z| < 2^1127` (the normal range) ⇒ `2^24·|ival x·2^851 − Z| ≤ |Z|` -/
theorem isRound_rel_int (x : Nat) (Z : Int) (h : IsRound x Z) (hb : Z.natAbs < 2 ^ 1127) (hn : 2 ^ 874 ≤ Z.natAbs) :
    FinP x ∧ 2 ^ 24 * (ival x * 2 ^ 851) ≤ 2 ^ 24 * Z + Z.natAbs ∧ 2 ^ 24 * Z ≤ 2 ^ 24 * (ival x * 2 ^ 851) + Z.natAbs := by
  obtain ⟨s, m, B, rfl, rfl⟩ := h
  rw [pow_cast B, signed_natAbs] at hb hn ⊢
  obtain ⟨h0, h1, h2⟩ := rpU_err_rel m B hb hn
  obtain ⟨f1, f2⟩ := roundPack_fin s m B h0
  refine ⟨f1, ?_⟩
  rw [f2, pow_cast 851, pow_cast 24]
  have g1 := Int.ofNat_le.mpr h1
  have g2 := Int.ofNat_le.mpr h2
  simp only [Int.natCast_add, Int.natCast_mul] at g1 g2 ⊢
  clear h1 h2 hb hn f2 f1 h0
  generalize ((2 ^ 24 : Nat) : Int) = Q at *
  generalize ((2 ^ 851 : Nat) : Int) = P at *
  generalize ((2 ^ B : Nat) : Int) = PB at *
  generalize ((pval (rpU m B) : Nat) : Int) = V at *
  cases s
  · simp only [Bool.false_eq_true, if_false]
    generalize V * P = VP at *
    generalize (m : Int) * PB = X at *
    exact ⟨g1, g2⟩
  · simp only [if_true, Int.neg_mul, Int.mul_neg]
    generalize V * P = VP at *
    generalize (m : Int) * PB = X at *
    generalize Q * VP = A at *
    generalize Q * X = C at *
    omega

/-- exactness, integers: `Z = z'·2^B'` with `|z'| < 2^24`, `B' ≥ 851` ⇒ `ival x·2^851 = Z` -/
theorem isRound_exact_int (x : Nat) (Z : Int) (h : IsRound x Z) (z' : Int) (B' : Nat) (hz : Z = z' * 2 ^ B')
    (hz' : z'.natAbs < 2 ^ 24) (hB' : 851 ≤ B') (hB2 : B' ≤ 1100) :
    FinP x ∧ ival x * 2 ^ 851 = Z := by
  obtain ⟨s, m, B, rfl, hZ⟩ := h
  have hlt : z'.natAbs * 2 ^ B' < 2 ^ 1127 := by
    have : z'.natAbs * 2 ^ B' < 2 ^ 24 * 2 ^ B' := (Nat.mul_lt_mul_right (two_pow_pos B')).mpr hz'
    rw [← Nat.pow_add] at this
    exact Nat.lt_of_lt_of_le this (pow_mono (a := 24 + B') (b := 1127) (by omega))
  have hab : m * 2 ^ B = z'.natAbs * 2 ^ B' := by
    have := congrArg Int.natAbs hZ
    rw [pow_cast B, signed_natAbs, hz, Int.natAbs_mul, pow_cast B', Int.natAbs_natCast] at this
    exact this
  obtain ⟨h0, h1⟩ := rpU_exact m B z'.natAbs B' hab hz' hB' hlt
  obtain ⟨f1, f2⟩ := roundPack_fin s m B h0
  refine ⟨f1, ?_⟩
  rw [f2, ← hZ, pow_cast 851, pow_cast B]
  have g1 := congrArg (Nat.cast : Nat → Int) h1
  simp only [Int.natCast_mul] at g1
  cases s
  · simp only [Bool.false_eq_true, if_false]; exact g1
  · simp only [if_true, Int.neg_mul]; rw [g1]

/-! ### the operators as roundings of their exact results -/

theorem ival_eq (x c : Nat) (hc : c = 851) : ival x = (if 2147483648 ≤ x then -1 else 1) *
    (((mantR (x % 2147483648) * 2 ^ (bexpR (x % 2147483648) - c) : Nat)) : Int) := by
  subst hc
  unfold ival pval
  split <;> simp

theorem prod_alg (sa sb ma mb Pa Pb P : Int) :
    (sa * sb * (ma * mb)) * (Pa * Pb * P) = sa * (ma * Pa) * (sb * (mb * Pb)) * P := by grind

theorem fmul_isRound_aux (a b K c : Nat) (hK : K = 702) (hc : c = 851) (ha : FinP a) (hb : FinP b) :
    IsRound (fmul a b) (ival a * ival b * 2 ^ K) := by
  obtain ⟨a1, a2, a3, a4, a5⟩ := finP_flags a ha
  obtain ⟨b1, b2, b3, b4, b5⟩ := finP_flags b hb
  unfold fmul
  simp only [force_eq, a1, a2, a3, a4, a5, b1, b2, b3, b4, b5, Bool.or_self, Bool.false_eq_true, if_false]
  have ea := bexpR_ge (a % 2147483648)
  have eb := bexpR_ge (b % 2147483648)
  rw [ival_eq a c hc, ival_eq b c hc]
  generalize bexpR (a % 2147483648) = Ba at *
  generalize bexpR (b % 2147483648) = Bb at *
  generalize mantR (a % 2147483648) = ma at *
  generalize mantR (b % 2147483648) = mb at *
  refine ⟨decide (2147483648 ≤ a) != decide (2147483648 ≤ b), ma * mb, Ba + Bb - 1000, ?_, ?_⟩
  · have : (((Ba + Bb - 1000 : Nat) : Int) - 1000) = (Ba : Int) - 1000 + ((Bb : Int) - 1000) := by omega
    rw [this]
  · have e : Ba + Bb - 1000 = (Ba - c) + (Bb - c) + K := by omega
    rw [e, Int.pow_add, Int.pow_add]
    simp only [Int.natCast_mul, Int.natCast_pow]
    have hs : (if (decide (2147483648 ≤ a) != decide (2147483648 ≤ b)) = true then -(((ma : Nat) : Int) * (mb : Int)) else (ma : Int) * (mb : Int)) =
        (if 2147483648 ≤ a then -1 else 1) * (if 2147483648 ≤ b then -1 else 1) * ((ma : Int) * (mb : Int)) := by
      by_cases sa : 2147483648 ≤ a <;> by_cases sb : 2147483648 ≤ b <;> simp [sa, sb]
    rw [hs]
    exact prod_alg _ _ _ _ _ _ _
theorem add_alg (sa sb X1 X2 Y1 Y2 P Q : Int) (h1 : X1 * P = Y1 * Q) (h2 : X2 * P = Y2 * Q) :
    (sa * X1 + sb * X2) * P = (sa * Y1 + sb * Y2) * Q := by grind

theorem signed_abs (S : Int) : (if decide (S < 0) = true then -(S.natAbs : Int) else (S.natAbs : Int)) = S := by
  by_cases h : S < 0
  · simp only [h, decide_true, if_true]; omega
  · simp only [h, decide_false, Bool.false_eq_true, if_false]; omega

theorem fadd_isRound_aux (a b c : Nat) (hc : c = 851) (ha : FinP a) (hb : FinP b) :
    IsRound (fadd a b) ((ival a + ival b) * 2 ^ c) := by
  obtain ⟨a1, a2, a3, a4, a5⟩ := finP_flags a ha
  obtain ⟨b1, b2, b3, b4, b5⟩ := finP_flags b hb
  unfold fadd
  simp only [force_eq, forceI_eq, a1, a2, a3, a4, a5, b1, b2, b3, b4, b5, Bool.or_self, Bool.false_eq_true, if_false,
    Nat.shiftLeft_eq]
  have ea := bexpR_ge (a % 2147483648)
  have eb := bexpR_ge (b % 2147483648)
  rw [ival_eq a c hc, ival_eq b c hc]
  generalize bexpR (a % 2147483648) = Ba at *
  generalize bexpR (b % 2147483648) = Bb at *
  generalize mantR (a % 2147483648) = ma at *
  generalize mantR (b % 2147483648) = mb at *
  obtain ⟨Bm, hBm, hm1, hm2⟩ : ∃ Bm : Nat, min ((Ba : Int) - 1000) ((Bb : Int) - 1000) = (Bm : Int) - 1000 ∧
      Bm ≤ Ba ∧ Bm ≤ Bb := ⟨min Ba Bb, by omega, by omega, by omega⟩
  rw [hBm]
  have t1 : ((Ba : Int) - 1000 - ((Bm : Int) - 1000)).toNat = Ba - Bm := by omega
  have t2 : ((Bb : Int) - 1000 - ((Bm : Int) - 1000)).toNat = Bb - Bm := by omega
  rw [t1, t2]
  have s1 : ∀ X : Nat, (if decide (2147483648 ≤ a) = true then -(X : Int) else (X : Int)) =
      (if 2147483648 ≤ a then -1 else 1) * (X : Int) := by
    intro X; by_cases h : 2147483648 ≤ a <;> simp [h]
  have s2 : ∀ X : Nat, (if decide (2147483648 ≤ b) = true then -(X : Int) else (X : Int)) =
      (if 2147483648 ≤ b then -1 else 1) * (X : Int) := by
    intro X; by_cases h : 2147483648 ≤ b <;> simp [h]
  simp only [s1, s2]
  have n1 : ma * 2 ^ (Ba - Bm) * 2 ^ Bm = ma * 2 ^ (Ba - c) * 2 ^ c := by
    rw [mul_pow_cancel _ _ _ hm1, mul_pow_cancel _ _ _ (by omega)]
  have n2 : mb * 2 ^ (Bb - Bm) * 2 ^ Bm = mb * 2 ^ (Bb - c) * 2 ^ c := by
    rw [mul_pow_cancel _ _ _ hm2, mul_pow_cancel _ _ _ (by omega)]
  have i1 := congrArg (Nat.cast : Nat → Int) n1
  have i2 := congrArg (Nat.cast : Nat → Int) n2
  rw [Int.natCast_mul, Int.natCast_mul _ (2 ^ c), ← pow_cast, ← pow_cast] at i1 i2
  have key := add_alg (if 2147483648 ≤ a then -1 else 1) (if 2147483648 ≤ b then -1 else 1) _ _ _ _ _ _ i1 i2
  generalize (if 2147483648 ≤ a then (-1 : Int) else 1) * ((ma * 2 ^ (Ba - Bm) : Nat) : Int) +
    (if 2147483648 ≤ b then (-1 : Int) else 1) * ((mb * 2 ^ (Bb - Bm) : Nat) : Int) = S at *
  rw [← key]
  by_cases hS : S = 0
  · have : (S == 0) = true := by simp [hS]
    rw [if_pos this]
    refine ⟨decide (2147483648 ≤ a) && decide (2147483648 ≤ b), 0, Bm, ?_, ?_⟩
    · rw [roundPack_zero]
    · rw [hS]; simp
  · have : ¬ (S == 0) = true := by simp [hS]
    rw [if_neg this]
    exact ⟨decide (S < 0), S.natAbs, Bm, rfl, by rw [signed_abs]⟩
/-! ### to `Rat` -/

theorem near_of_scaled (t v e ix Z Q P851 D P1000 : Rat) (hD : 0 < D) (hP : 0 < P851) (h1000 : P1000 = D * P851)
    (ht : t = ix / D) (hv : v * P1000 = Z) (he : e * P1000 * 2 = Q)
    (g1 : 2 * (ix * P851) ≤ 2 * Z + Q) (g2 : 2 * Z ≤ 2 * (ix * P851) + Q) : -e ≤ t - v ∧ t - v ≤ e := by
  have hpos : 0 < P1000 := by rw [h1000]; exact Rat.mul_pos hD hP
  have tP : t * P1000 = ix * P851 := by
    rw [ht, h1000, ← Rat.mul_assoc, Rat.div_mul_cancel (Rat.ne_of_gt hD)]
  constructor
  · apply Rat.le_of_mul_le_mul_right _ hpos
    have : (t - v) * P1000 = t * P1000 - v * P1000 := by grind
    rw [this, tP, hv, Rat.neg_mul]
    grind
  · apply Rat.le_of_mul_le_mul_right _ hpos
    have : (t - v) * P1000 = t * P1000 - v * P1000 := by grind
    rw [this, tP, hv]
    grind
/-- `|x − y| ≤ e` -/
def Near (x y e : Rat) : Prop := -e ≤ x - y ∧ x - y ≤ e

instance (x y e : Rat) : Decidable (Near x y e) := inferInstanceAs (Decidable (_ ∧ _))

theorem near_trans (a b c e1 e2 : Rat) (h1 : Near a b e1) (h2 : Near b c e2) : Near a c (e1 + e2) := by
  unfold Near at *
  constructor <;> grind

theorem near_mono (a b e1 e2 : Rat) (h1 : Near a b e1) (h : e1 ≤ e2) : Near a b e2 := by
  unfold Near at *
  constructor <;> grind

theorem neg_fin (b : Nat) (hb : FinP b) : FinP (neg b) ∧ ival (neg b) = -ival b := by
  obtain ⟨h1, h2⟩ := hb
  unfold neg isNeg signBit
  by_cases h : 2147483648 ≤ b
  · have hd : decide (b ≥ 2147483648) = true := by simpa using h
    rw [hd, if_pos rfl]
    have e : (b - 2147483648) % 2147483648 = b % 2147483648 := by omega
    refine ⟨⟨by omega, by rw [e]; exact h2⟩, ?_⟩
    unfold ival
    rw [e, if_neg (by omega), if_pos h, Int.neg_neg]
  · have hd : decide (b ≥ 2147483648) = false := by simpa using h
    rw [hd, if_neg (by decide)]
    have e : (b + 2147483648) % 2147483648 = b % 2147483648 := by omega
    refine ⟨⟨by omega, by rw [e]; exact h2⟩, ?_⟩
    unfold ival
    rw [e, if_pos (by omega), if_neg h]

theorem fsub_isRound_aux (a b c : Nat) (hc : c = 851) (ha : FinP a) (hb : FinP b) :
    IsRound (fsub a b) ((ival a - ival b) * 2 ^ c) := by
  obtain ⟨n1, n2⟩ := neg_fin b hb
  have := fadd_isRound_aux a (neg b) c hc ha n1
  rw [n2, ← Int.sub_eq_add_neg] at this
  unfold fsub
  rw [force_eq]
  exact this

theorem ofNat_isRound (n K : Nat) (hK : K = 1000) : IsRound (ofNat n) ((n : Int) * 2 ^ K) := by
  refine ⟨false, n, K, ?_, by simp⟩
  unfold ofNat
  have : ((K : Int) - 1000) = 0 := by omega
  rw [this]

/-! the value of a finite pattern -/

theorem toRat_ival (x : Nat) (h : FinP x) : toRat x = (ival x : Rat) / ((2 ^ 149 : Nat) : Rat) := by
  obtain ⟨a1, a2, a3, a4, a5⟩ := finP_flags x h
  have he : ¬ (expField x == 255) = true := by
    intro hh
    have hh' : expField x = 255 := beq_iff_eq.mp hh
    unfold isNaN at a1
    unfold isInf at a2
    rw [hh'] at a1 a2
    cases hf : (fracField x == 0)
    · simp at a1
      rw [a1] at hf
      exact absurd hf (by decide)
    · simp [hf] at a2
  unfold toRat
  rw [if_neg he]
  simp only [a3, a4, a5]
  have hv := natCast_mul_pow2_pval (mantR (x % 2147483648)) (bexpR (x % 2147483648)) (bexpR_ge _)
  rw [hv, mkRat_eq_natDiv]
  unfold ival
  show (if decide (2147483648 ≤ x) = true then _ else _) = _
  by_cases hs : 2147483648 ≤ x
  · simp only [hs, decide_true, if_true, Rat.intCast_neg, Rat.intCast_natCast]
    unfold pval
    rw [Rat.div_def, Rat.div_def, Rat.neg_mul]
  · simp only [hs, decide_false, Bool.false_eq_true, if_false, Rat.intCast_natCast]
    unfold pval
    rfl

/-! ### the three error forms in `Rat` -/

theorem natAbs_lt_of_rat (Z : Int) (v : Rat) (P W : Nat) (hP : 0 < P) (hv : v * (P : Rat) = (Z : Rat))
    (hb1 : -(W : Rat) < v) (hb2 : v < (W : Rat)) : Z.natAbs < W * P := by
  have hpos : (0 : Rat) < (P : Rat) := Rat.natCast_pos.mpr hP
  have z1 : (Z : Rat) < ((W * P : Nat) : Rat) := by
    rw [← hv, Rat.natCast_mul]; exact Rat.mul_lt_mul_of_pos_right hb2 hpos
  have z2 : -((W * P : Nat) : Rat) < (Z : Rat) := by
    rw [← hv, Rat.natCast_mul, ← Rat.neg_mul]; exact Rat.mul_lt_mul_of_pos_right hb1 hpos
  rw [← Rat.intCast_natCast, Rat.intCast_lt_intCast] at z1
  rw [← Rat.intCast_natCast, ← Rat.intCast_neg, Rat.intCast_lt_intCast] at z2
  omega

theorem pow_split_cast (K a b : Nat) (h : K = a + b) :
    ((2 ^ K : Nat) : Rat) = ((2 ^ a : Nat) : Rat) * ((2 ^ b : Nat) : Rat) := by
  subst h; rw [Nat.pow_add, Rat.natCast_mul]

theorem p1000_split (K : Nat) (hK : K = 1000) :
    ((2 ^ K : Nat) : Rat) = ((2 ^ 149 : Nat) : Rat) * ((2 ^ 851 : Nat) : Rat) :=
  pow_split_cast K 149 851 (by omega)

/-- ABSOLUTE FORM: the exact value `v` (with `v·2^1000 = Z`) lies in `(−2^E, 2^E)`, `E ≤ 127` ⇒ the rounded result is
finite and `|toRat x − v| ≤ 2^(E−25)` -/
theorem isRound_ulp (x : Nat) (Z : Int) (h : IsRound x Z) (v : Rat) (K : Nat) (hK : K = 1000)
    (hv : v * ((2 ^ K : Nat) : Rat) = (Z : Rat))
    (E W : Nat) (hE : E ≤ 127) (hW : W = 2 ^ E) (hb1 : -(W : Rat) < v) (hb2 : v < (W : Rat)) :
    FinP x ∧ Near (toRat x) v ((W : Rat) / 33554432) := by
  have hna : Z.natAbs < 2 ^ (E + K) := by
    rw [Nat.pow_add, ← hW]
    exact natAbs_lt_of_rat Z v (2 ^ K) W (two_pow_pos K) hv hb1 hb2
  obtain ⟨f, g1, g2⟩ := isRound_ulp_int x Z h (E + K) (by omega) (by omega) hna
  refine ⟨f, ?_⟩
  rw [pow_cast 851, pow_cast (E + K - 24)] at g1 g2
  have r1 := Rat.intCast_le_intCast.mpr g1
  have r2 := Rat.intCast_le_intCast.mpr g2
  simp only [Rat.intCast_add, Rat.intCast_mul, Rat.intCast_natCast] at r1 r2
  have e2 : ((2 : Int) : Rat) = 2 := rfl
  rw [e2] at r1 r2
  have hQ : ((2 ^ (E + K - 24) : Nat) : Rat) * 33554432 = (W : Rat) * ((2 ^ K : Nat) : Rat) * 2 := by
    have n : 2 ^ (E + K - 24) * 33554432 = W * 2 ^ K * 2 := by
      have e25 : 33554432 = 2 ^ 25 := by decide
      rw [e25, ← Nat.pow_add, hW, ← Nat.pow_add, ← Nat.pow_succ]
      congr 1; omega
    have := congrArg (Nat.cast : Nat → Rat) n
    simpa only [Rat.natCast_mul, Rat.natCast_ofNat] using this
  unfold Near
  refine near_of_scaled (toRat x) v ((W : Rat) / 33554432) (ival x : Rat) (Z : Rat) ((2 ^ (E + K - 24) : Nat) : Rat)
    ((2 ^ 851 : Nat) : Rat) ((2 ^ 149 : Nat) : Rat) ((2 ^ K : Nat) : Rat)
    (Rat.natCast_pos.mpr (two_pow_pos _)) (Rat.natCast_pos.mpr (two_pow_pos _)) (p1000_split K hK)
    (toRat_ival x f) hv ?_ r1 r2
  generalize ((2 ^ (E + K - 24) : Nat) : Rat) = Q at *
  generalize ((2 ^ K : Nat) : Rat) = P at *
  generalize (W : Rat) = w at *
  grind

/-- EXACTNESS: an integer below 2^24 in absolute value is not rounded -/
theorem isRound_exact (x : Nat) (Z : Int) (h : IsRound x Z) (n : Int) (K : Nat) (hK : K = 1000)
    (hZ : Z = n * 2 ^ K) (hn : n.natAbs < 2 ^ 24) : FinP x ∧ toRat x = (n : Rat) := by
  obtain ⟨f, g⟩ := isRound_exact_int x Z h n K hZ hn (by subst hK; decide) (by subst hK; decide)
  refine ⟨f, ?_⟩
  rw [toRat_ival x f]
  rw [hZ, pow_cast 851, pow_cast K] at g
  have r := congrArg (Int.cast : Int → Rat) g
  simp only [Rat.intCast_mul, Rat.intCast_natCast] at r
  rw [p1000_split K hK] at r
  have hD : (0 : Rat) < ((2 ^ 149 : Nat) : Rat) := Rat.natCast_pos.mpr (two_pow_pos _)
  have hP : (0 : Rat) < ((2 ^ 851 : Nat) : Rat) := Rat.natCast_pos.mpr (two_pow_pos 851)
  generalize ((2 ^ 149 : Nat) : Rat) = D at *
  generalize ((2 ^ 851 : Nat) : Rat) = P at *
  generalize (ival x : Rat) = ix at *
  generalize (n : Rat) = nn at *
  rw [Rat.div_def]
  have h1 : ix = nn * D := by
    have : ix * P = (nn * D) * P := by rw [r, Rat.mul_assoc]
    have hP' : P ≠ 0 := Rat.ne_of_gt hP
    have := congrArg (· / P) this
    simpa only [Rat.mul_div_cancel hP'] using this
  rw [h1, Rat.mul_assoc, Rat.mul_inv_cancel _ (Rat.ne_of_gt hD), Rat.mul_one]

/-! ### the operators -/

theorem toRat_mul_D (x : Nat) (h : FinP x) : toRat x * ((2 ^ 149 : Nat) : Rat) = (ival x : Rat) := by
  rw [toRat_ival x h, Rat.div_mul_cancel (Rat.ne_of_gt (Rat.natCast_pos.mpr (two_pow_pos _)))]

theorem fmul_value (a b K : Nat) (hK : K = 1000) (ha : FinP a) (hb : FinP b) (k : Nat) (hk : k = 702) :
    toRat a * toRat b * ((2 ^ K : Nat) : Rat) = ((ival a * ival b * 2 ^ k : Int) : Rat) := by
  have e1 := pow_split_cast K 149 851 (by omega)
  have e2 := pow_split_cast 851 149 k (by omega)
  rw [pow_cast k]
  simp only [Rat.intCast_mul, Rat.intCast_natCast]
  rw [e1, e2, ← toRat_mul_D a ha, ← toRat_mul_D b hb]
  generalize ((2 ^ 149 : Nat) : Rat) = D
  generalize ((2 ^ k : Nat) : Rat) = P
  grind

theorem fadd_value (a b K : Nat) (hK : K = 1000) (ha : FinP a) (hb : FinP b) (c : Nat) (hc : c = 851) :
    (toRat a + toRat b) * ((2 ^ K : Nat) : Rat) = (((ival a + ival b) * 2 ^ c : Int) : Rat) := by
  have e1 := pow_split_cast K 149 c (by omega)
  rw [pow_cast c]
  simp only [Rat.intCast_mul, Rat.intCast_add, Rat.intCast_natCast]
  rw [e1, ← toRat_mul_D a ha, ← toRat_mul_D b hb]
  generalize ((2 ^ 149 : Nat) : Rat) = D
  generalize ((2 ^ c : Nat) : Rat) = P
  grind

theorem fsub_value (a b K : Nat) (hK : K = 1000) (ha : FinP a) (hb : FinP b) (c : Nat) (hc : c = 851) :
    (toRat a - toRat b) * ((2 ^ K : Nat) : Rat) = (((ival a - ival b) * 2 ^ c : Int) : Rat) := by
  have e1 := pow_split_cast K 149 c (by omega)
  rw [pow_cast c]
  simp only [Rat.intCast_mul, Rat.intCast_sub, Rat.intCast_natCast]
  rw [e1, ← toRat_mul_D a ha, ← toRat_mul_D b hb]
  generalize ((2 ^ 149 : Nat) : Rat) = D
  generalize ((2 ^ c : Nat) : Rat) = P
  grind

/-- `a * b` on finite operands whose exact product lies in `(−2^E, 2^E)`: finite, `|result − a·b| ≤ 2^(E−25)` -/
theorem fmul_ulp (a b : Nat) (ha : FinP a) (hb : FinP b) (E W : Nat) (hE : E ≤ 127) (hW : W = 2 ^ E)
    (h1 : -(W : Rat) < toRat a * toRat b) (h2 : toRat a * toRat b < (W : Rat)) :
    FinP (fmul a b) ∧ Near (toRat (fmul a b)) (toRat a * toRat b) ((W : Rat) / 33554432) :=
  isRound_ulp _ _ (fmul_isRound_aux a b 702 851 rfl rfl ha hb) _ 1000 rfl (fmul_value a b 1000 rfl ha hb 702 rfl)
    E W hE hW h1 h2

/-- `a + b` -/
theorem fadd_ulp (a b : Nat) (ha : FinP a) (hb : FinP b) (E W : Nat) (hE : E ≤ 127) (hW : W = 2 ^ E)
    (h1 : -(W : Rat) < toRat a + toRat b) (h2 : toRat a + toRat b < (W : Rat)) :
    FinP (fadd a b) ∧ Near (toRat (fadd a b)) (toRat a + toRat b) ((W : Rat) / 33554432) :=
  isRound_ulp _ _ (fadd_isRound_aux a b 851 rfl ha hb) _ 1000 rfl (fadd_value a b 1000 rfl ha hb 851 rfl)
    E W hE hW h1 h2

/-- `a - b` -/
theorem fsub_ulp (a b : Nat) (ha : FinP a) (hb : FinP b) (E W : Nat) (hE : E ≤ 127) (hW : W = 2 ^ E)
    (h1 : -(W : Rat) < toRat a - toRat b) (h2 : toRat a - toRat b < (W : Rat)) :
    FinP (fsub a b) ∧ Near (toRat (fsub a b)) (toRat a - toRat b) ((W : Rat) / 33554432) :=
  isRound_ulp _ _ (fsub_isRound_aux a b 851 rfl ha hb) _ 1000 rfl (fsub_value a b 1000 rfl ha hb 851 rfl)
    E W hE hW h1 h2

/-! ### exact cases -/

/-- `n as f32` is exact for `n < 2^24` -/
theorem ofNat_exact (n : Nat) (hn : n < 2 ^ 24) : FinP (ofNat n) ∧ toRat (ofNat n) = (n : Rat) := by
  have := isRound_exact (ofNat n) _ (ofNat_isRound n 1000 rfl) (n : Int) 1000 rfl rfl (by simpa using hn)
  rwa [Rat.intCast_natCast] at this

theorem ival_of_int (x : Nat) (h : FinP x) (n : Int) (hx : toRat x = (n : Rat)) : ival x = n * 2 ^ 149 := by
  have := toRat_mul_D x h
  rw [hx, ← Rat.intCast_natCast, ← Rat.intCast_mul, Rat.intCast_inj, ← pow_cast] at this
  exact this.symm

/-- the difference of two integer-valued floats is exact when it is below 2^24 in absolute value -/
theorem fsub_exact (a b : Nat) (ha : FinP a) (hb : FinP b) (na nb : Int) (hna : toRat a = (na : Rat))
    (hnb : toRat b = (nb : Rat)) (hn : (na - nb).natAbs < 2 ^ 24) :
    FinP (fsub a b) ∧ toRat (fsub a b) = ((na - nb : Int) : Rat) := by
  refine isRound_exact (fsub a b) _ (fsub_isRound_aux a b 851 rfl ha hb) (na - nb) 1000 rfl ?_ hn
  rw [ival_of_int a ha na hna, ival_of_int b hb nb hnb]
  have : (2 : Int) ^ 1000 = 2 ^ 149 * 2 ^ 851 := by rw [← Int.pow_add]
  rw [this, ← Int.mul_assoc, Int.sub_mul na nb]

/-- the sum of two integer-valued floats is exact when it is below 2^24 in absolute value -/
theorem fadd_exact (a b : Nat) (ha : FinP a) (hb : FinP b) (na nb : Int) (hna : toRat a = (na : Rat))
    (hnb : toRat b = (nb : Rat)) (hn : (na + nb).natAbs < 2 ^ 24) :
    FinP (fadd a b) ∧ toRat (fadd a b) = ((na + nb : Int) : Rat) := by
  refine isRound_exact (fadd a b) _ (fadd_isRound_aux a b 851 rfl ha hb) (na + nb) 1000 rfl ?_ hn
  rw [ival_of_int a ha na hna, ival_of_int b hb nb hnb]
  have : (2 : Int) ^ 1000 = 2 ^ 149 * 2 ^ 851 := by rw [← Int.pow_add]
  rw [this, ← Int.mul_assoc, Int.add_mul na nb]

/-! ### relative form -/

theorem natAbs_cast_abs (Z : Int) (v P : Rat) (hP : 0 < P) (hv : v * P = (Z : Rat)) :
    ((Z.natAbs : Nat) : Rat) = v.abs * P := by
  by_cases h : 0 ≤ v
  · have hz : (0 : Rat) ≤ (Z : Rat) := by rw [← hv]; exact Rat.mul_nonneg h (Rat.le_of_lt hP)
    have hz' : 0 ≤ Z := Rat.intCast_nonneg.mp hz
    rw [Rat.abs_of_nonneg h, hv, ← Rat.intCast_natCast]
    congr 1; omega
  · have h' : v ≤ 0 := Rat.le_of_lt (Rat.not_le.mp h)
    have hz : (Z : Rat) ≤ 0 := by
      rw [← hv, ← Rat.neg_neg (v * P), ← Rat.neg_mul]
      have : 0 ≤ -v * P := Rat.mul_nonneg (by rw [← Rat.neg_zero]; exact Rat.neg_le_neg h') (Rat.le_of_lt hP)
      rw [← Rat.neg_zero]; exact Rat.neg_le_neg this
    have hz' : Z ≤ 0 := Rat.intCast_nonpos.mp hz
    rw [Rat.abs_of_nonpos h', Rat.neg_mul, hv, ← Rat.intCast_neg, ← Rat.intCast_natCast]
    congr 1; omega

/-- RELATIVE FORM: the exact value `v` is in the normal range, `2^-126 ≤ |v| < 2^127` ⇒ the rounded result is finite
and `|toRat x − v| ≤ 2^-24 · |v|` -/
theorem isRound_rel (x : Nat) (Z : Int) (h : IsRound x Z) (v : Rat) (K : Nat) (hK : K = 1000)
    (hv : v * ((2 ^ K : Nat) : Rat) = (Z : Rat))
    (hlo : 1 ≤ v.abs * ((2 ^ 126 : Nat) : Rat)) (hhi : v.abs < ((2 ^ 127 : Nat) : Rat)) :
    FinP x ∧ Near (toRat x) v (v.abs / 16777216) := by
  have hP : (0 : Rat) < ((2 ^ K : Nat) : Rat) := Rat.natCast_pos.mpr (two_pow_pos K)
  have hN := natAbs_cast_abs Z v _ hP hv
  have e1 := pow_split_cast K 126 874 (by omega)
  have e2 := pow_split_cast 1127 127 K (by omega)
  have hP874 : (0 : Rat) < ((2 ^ 874 : Nat) : Rat) := Rat.natCast_pos.mpr (two_pow_pos 874)
  have b1 : Z.natAbs < 2 ^ 1127 := by
    rw [← Rat.natCast_lt_natCast, hN, e2]
    exact Rat.mul_lt_mul_of_pos_right hhi hP
  have b2 : 2 ^ 874 ≤ Z.natAbs := by
    rw [← Rat.natCast_le_natCast, hN, e1, ← Rat.mul_assoc]
    have := Rat.mul_le_mul_of_nonneg_right hlo (Rat.le_of_lt hP874)
    rwa [Rat.one_mul] at this
  obtain ⟨f, g1, g2⟩ := isRound_rel_int x Z h b1 b2
  refine ⟨f, ?_⟩
  rw [pow_cast 851, pow_cast 24] at g1 g2
  have r1 := Rat.intCast_le_intCast.mpr g1
  have r2 := Rat.intCast_le_intCast.mpr g2
  simp only [Rat.intCast_add, Rat.intCast_mul, Rat.intCast_natCast] at r1 r2
  have e24 : ((2 ^ 24 : Nat) : Rat) = 16777216 := by decide +kernel
  rw [e24, hN] at r1 r2
  unfold Near
  refine near_of_scaled (toRat x) v (v.abs / 16777216) (ival x : Rat) (Z : Rat) (2 * (v.abs * ((2 ^ K : Nat) : Rat)) / 16777216)
    ((2 ^ 851 : Nat) : Rat) ((2 ^ 149 : Nat) : Rat) ((2 ^ K : Nat) : Rat)
    (Rat.natCast_pos.mpr (two_pow_pos _)) (Rat.natCast_pos.mpr (two_pow_pos 851)) (p1000_split K hK)
    (toRat_ival x f) hv ?_ ?_ ?_
  · generalize ((2 ^ K : Nat) : Rat) = P at *
    generalize v.abs = A at *
    grind
  · generalize ((2 ^ K : Nat) : Rat) = P at *
    generalize v.abs = A at *
    generalize (ival x : Rat) * ((2 ^ 851 : Nat) : Rat) = X at *
    grind
  · generalize ((2 ^ K : Nat) : Rat) = P at *
    generalize v.abs = A at *
    generalize (ival x : Rat) * ((2 ^ 851 : Nat) : Rat) = X at *
    grind

/-- `a * b`, exact product in the normal range: relative error ≤ 2^-24 -/
theorem fmul_rel (a b : Nat) (ha : FinP a) (hb : FinP b)
    (hlo : 1 ≤ (toRat a * toRat b).abs * ((2 ^ 126 : Nat) : Rat)) (hhi : (toRat a * toRat b).abs < ((2 ^ 127 : Nat) : Rat)) :
    FinP (fmul a b) ∧ Near (toRat (fmul a b)) (toRat a * toRat b) ((toRat a * toRat b).abs / 16777216) :=
  isRound_rel _ _ (fmul_isRound_aux a b 702 851 rfl rfl ha hb) _ 1000 rfl (fmul_value a b 1000 rfl ha hb 702 rfl) hlo hhi

theorem fadd_rel (a b : Nat) (ha : FinP a) (hb : FinP b)
    (hlo : 1 ≤ (toRat a + toRat b).abs * ((2 ^ 126 : Nat) : Rat)) (hhi : (toRat a + toRat b).abs < ((2 ^ 127 : Nat) : Rat)) :
    FinP (fadd a b) ∧ Near (toRat (fadd a b)) (toRat a + toRat b) ((toRat a + toRat b).abs / 16777216) :=
  isRound_rel _ _ (fadd_isRound_aux a b 851 rfl ha hb) _ 1000 rfl (fadd_value a b 1000 rfl ha hb 851 rfl) hlo hhi

theorem fsub_rel (a b : Nat) (ha : FinP a) (hb : FinP b)
    (hlo : 1 ≤ (toRat a - toRat b).abs * ((2 ^ 126 : Nat) : Rat)) (hhi : (toRat a - toRat b).abs < ((2 ^ 127 : Nat) : Rat)) :
    FinP (fsub a b) ∧ Near (toRat (fsub a b)) (toRat a - toRat b) ((toRat a - toRat b).abs / 16777216) :=
  isRound_rel _ _ (fsub_isRound_aux a b 851 rfl ha hb) _ 1000 rfl (fsub_value a b 1000 rfl ha hb 851 rfl) hlo hhi
/-! ### `clamp(0, 1)` and the float → integer cast -/

theorem clamp01_near (a b e : Rat) (h : Near a b e) : Near (clamp01 a) (clamp01 b) e := by
  unfold Near at *
  unfold clamp01
  obtain ⟨h1, h2⟩ := h
  constructor <;> grind

theorem toRat_one : toRat one = 1 := by decide +kernel
theorem toRat_signBit : toRat signBit = 0 := by decide +kernel
theorem toRat_zero : toRat 0 = 0 := by decide +kernel

theorem clamp01_of_mem (q : Rat) (h0 : 0 ≤ q) (h1 : q ≤ 1) : clamp01 q = q := by
  unfold clamp01; grind
theorem clamp01_of_ge (q : Rat) (h1 : 1 ≤ q) : clamp01 q = 1 := by
  unfold clamp01; grind
theorem clamp01_of_le (q : Rat) (h1 : q ≤ 0) : clamp01 q = 0 := by
  unfold clamp01; grind

theorem toRat_nonneg_of_lt (x : Nat) (h : x < 0x7F800000) : 0 ≤ toRat x := by
  rw [toRat_natDiv x h, Rat.div_def]
  exact Rat.mul_nonneg Rat.natCast_nonneg (Rat.le_of_lt (Rat.inv_pos.mpr (Rat.natCast_pos.mpr (two_pow_pos 149))))

theorem toRat_mono (x y : Nat) (h : x ≤ y) (hy : y < 0x7F800000) : toRat x ≤ toRat y := by
  rw [toRat_natDiv x (by omega), toRat_natDiv y hy]
  rw [natDiv_le_natDiv _ _ _ _ (two_pow_pos 149) (two_pow_pos 149)]
  exact Nat.mul_le_mul_right _ (pval_mono h)

theorem fclamp_unfold (x lo hi : Nat) :
    fclamp x lo hi = if flt hi (if flt x lo then lo else x) then hi else (if flt x lo then lo else x) := by
  unfold fclamp; simp only [force_eq]

theorem flt_eq (a b : Nat) (ha : isNaN a = false) (hb : isNaN b = false) : flt a b = decide (key a < key b) := by
  unfold flt; rw [ha, hb]; simp

/-- `x.clamp(0.0, 1.0)` on a finite `x`: the value is `clamp01` of the value; the result is a pattern in `0 … 1.0`
or `−0.0` -/
theorem fclamp01 (x : Nat) (h : FinP x) :
    FinP (fclamp x 0 one) ∧ (fclamp x 0 one ≤ one ∨ fclamp x 0 one = signBit) ∧
    toRat (fclamp x 0 one) = clamp01 (toRat x) := by
  obtain ⟨a1, a2, a3, a4, a5⟩ := finP_flags x h
  obtain ⟨h1, h2⟩ := h
  have n0 : isNaN 0 = false := by decide
  have n1 : isNaN one = false := by decide
  have k0 : key 0 = 0 := by decide
  have k1 : key one = 1065353216 := by decide
  rw [fclamp_unfold]
  by_cases hneg : 2147483648 ≤ x
  · have hk : key x = -((x - 2147483648 : Nat) : Int) := by
      unfold key; rw [a3]; simp [hneg, signBit]
    have hle : toRat x ≤ 0 := toRat_nonpos_of_neg x (by rw [a3]; simpa using hneg)
    by_cases hz : x = 2147483648
    · subst hz
      have hin : (if flt 2147483648 0 = true then 0 else 2147483648) = 2147483648 := by decide
      have f2 : flt one 2147483648 = false := by decide
      rw [hin, f2, if_neg Bool.false_ne_true]
      refine ⟨⟨by decide, by decide⟩, Or.inr rfl, ?_⟩
      rw [clamp01_of_le _ hle]; exact toRat_signBit
    · have f1 : key x < 0 := by rw [hk]; omega
      have hin : (if flt x 0 = true then 0 else x) = 0 := by
        rw [flt_eq x 0 a1 n0, k0, decide_eq_true f1, if_pos rfl]
      have f2 : flt one 0 = false := by decide
      rw [hin, f2, if_neg Bool.false_ne_true]
      refine ⟨⟨by decide, by decide⟩, Or.inl (by decide), ?_⟩
      rw [clamp01_of_le _ hle]; exact toRat_zero
  · have hx : x < 0x7F800000 := by omega
    have hk : key x = (x : Int) := by
      unfold key; rw [a3]; simp [hneg]
    have f1 : ¬ key x < 0 := by rw [hk]; omega
    have hin : (if flt x 0 = true then 0 else x) = x := by
      rw [flt_eq x 0 a1 n0, k0, decide_eq_false f1, if_neg Bool.false_ne_true]
    rw [hin, flt_eq one x n1 a1, k1, hk]
    have h0 := toRat_nonneg_of_lt x hx
    by_cases hgt : 1065353216 < x
    · have f2 : (1065353216 : Int) < (x : Int) := by omega
      rw [decide_eq_true f2, if_pos rfl]
      refine ⟨⟨by decide, by decide⟩, Or.inl (Nat.le_refl _), ?_⟩
      have := toRat_mono one x (by unfold one; omega) hx
      rw [toRat_one] at this
      rw [clamp01_of_ge _ this]; exact toRat_one
    · have f2 : ¬ (1065353216 : Int) < (x : Int) := by omega
      rw [decide_eq_false f2, if_neg Bool.false_ne_true]
      refine ⟨⟨h1, h2⟩, Or.inl (by unfold one; omega), ?_⟩
      have := toRat_mono x one (by unfold one; omega) (by decide)
      rw [toRat_one] at this
      rw [clamp01_of_mem _ h0 this]

/-- `x as uN` on a finite `x`: 0 for a negative `x` (value ≤ 0), else `min max ⌊value⌋` -/
theorem toNatSat_floor (t mx : Nat) (h : FinP t) :
    (toNatSat t mx = 0 ∧ toRat t ≤ 0) ∨
    (∃ n : Nat, toNatSat t mx = min mx n ∧ (n : Rat) ≤ toRat t ∧ toRat t < (n : Rat) + 1) := by
  obtain ⟨a1, a2, a3, a4, a5⟩ := finP_flags t h
  obtain ⟨h1, h2⟩ := h
  by_cases hneg : 2147483648 ≤ t
  · refine Or.inl ⟨?_, toRat_nonpos_of_neg t (by rw [a3]; simpa using hneg)⟩
    unfold toNatSat
    simp only [force_eq, a1, a3, hneg, decide_true, Bool.false_eq_true, if_false, if_true]
  · have hx : t < 0x7F800000 := by omega
    refine Or.inr ⟨pval t / 2 ^ 149, toNatSat_pval t mx hx, ?_, ?_⟩
    · rw [toRat_natDiv t hx, ← Rat.not_lt, Rat.div_lt_iff (Rat.natCast_pos.mpr (two_pow_pos 149)), ← Rat.natCast_mul,
        Rat.natCast_lt_natCast]
      have := Nat.div_mul_le_self (pval t) (2 ^ 149)
      omega
    · rw [toRat_natDiv t hx, Rat.div_lt_iff (Rat.natCast_pos.mpr (two_pow_pos 149))]
      have e : ((pval t / 2 ^ 149 : Nat) : Rat) + 1 = ((pval t / 2 ^ 149 + 1 : Nat) : Rat) := by
        rw [Rat.natCast_add]; rfl
      rw [e, ← Rat.natCast_mul, Rat.natCast_lt_natCast]
      exact Nat.lt_mul_of_div_lt (Nat.lt_succ_self _) (two_pow_pos 149)
end Dds.F32Err
