/-
Helper lemmas of C15: upper bounds through the float operations of the quantisers and the
saturating casts; bit-field packing; the refinement loop.
-/
import DdsModel.EncTotal
namespace Dds.EncTotal
open Dds

/-- the rounding returns `q` itself (`q` is representable) -/
def Rounding.fixes (R : Rounding) (q : Rat) : Prop := R.rnd q = .fin q

theorem exact_fixes (q : Rat) : Rounding.exact.fixes q := rfl

/-! ### upper bounds -/

theorem ub_minC (x : ExtReal) (c : Rat) : (x.minC c).ub c := by
  cases x with
  | nan => exact Rat.le_refl
  | ninf => trivial
  | pinf => exact Rat.le_refl
  | fin q =>
    show (if q ≤ c then q else c) ≤ c
    by_cases h : q ≤ c
    · rw [if_pos h]; exact h
    · rw [if_neg h]; exact Rat.le_refl

theorem ub_mulPos (R : Rounding) (x : ExtReal) (a k : Rat) (hx : x.ub a) (hk : 0 ≤ k)
    (hr : R.fixes (a * k)) : (x.mulPos R k).ub (a * k) := by
  cases x with
  | nan => exact hx.elim
  | ninf => trivial
  | pinf => exact hx.elim
  | fin q => exact R.mono (q * k) (a * k) (a * k) (Rat.mul_le_mul_of_nonneg_right hx hk) hr

theorem ub_addC (R : Rounding) (x : ExtReal) (a c : Rat) (hx : x.ub a)
    (hr : R.fixes (a + c)) : (x.addC R c).ub (a + c) := by
  cases x with
  | nan => exact hx.elim
  | ninf => trivial
  | pinf => exact hx.elim
  | fin q => exact R.mono (q + c) (a + c) (a + c) (Rat.add_le_add_right.mpr hx) hr

theorem floor_toNat_le (q c : Rat) (n : Nat) (h : q ≤ c) (hc : c < n + 1) : q.floor.toNat ≤ n := by
  have h2 : q.floor < (n + 1 : Int) := by
    rw [Rat.floor_lt_iff]
    push_cast
    grind
  omega

/-- a value bounded by `c < n + 1` is cast to at most `n` -/
theorem castU_le (bits : Nat) (x : ExtReal) (c : Rat) (n : Nat) (hx : x.ub c) (hc : c < n + 1) :
    x.castU bits ≤ n := by
  cases x with
  | nan => exact hx.elim
  | ninf => exact Nat.zero_le _
  | pinf => exact hx.elim
  | fin q =>
    show (if q < 0 then 0 else min q.floor.toNat (2 ^ bits - 1)) ≤ n
    by_cases h : q < 0
    · rw [if_pos h]; exact Nat.zero_le _
    · rw [if_neg h]
      exact Nat.le_trans (Nat.min_le_left _ _) (floor_toNat_le q c n hx hc)

/-- whatever the value (NaN and the infinities included), `as uN` fits `N` bits -/
theorem castU_lt (bits : Nat) (x : ExtReal) : x.castU bits < 2 ^ bits := by
  have hp : 0 < 2 ^ bits := Nat.two_pow_pos bits
  cases x with
  | nan => exact hp
  | ninf => exact hp
  | pinf => show 2 ^ bits - 1 < 2 ^ bits; omega
  | fin q =>
    show (if q < 0 then 0 else min q.floor.toNat (2 ^ bits - 1)) < 2 ^ bits
    by_cases h : q < 0
    · rw [if_pos h]; exact hp
    · rw [if_neg h]
      have := Nat.min_le_right q.floor.toNat (2 ^ bits - 1)
      omega

/-! ### the quantisers -/

theorem qN1_le (x : ExtReal) : qN1 x ≤ 1 := by
  unfold qN1
  split <;> omega

/-- `(x.min(1.0) * MAX + 0.5) as uN ≤ MAX` for every input, given that `MAX` and `MAX + 0.5`
are representable -/
theorem qUnormMin_le (R : Rounding) (max ty : Nat) (x : ExtReal)
    (h1 : R.fixes max) (h2 : R.fixes (max + 1/2)) : qUnormMin R max ty x ≤ max := by
  unfold qUnormMin
  have a1 : ((x.minC 1).mulPos R max).ub ((1 : Rat) * max) :=
    ub_mulPos R _ 1 max (ub_minC x 1) (by exact_mod_cast Nat.zero_le max) (by
      have : (1 : Rat) * max = max := by grind
      rw [this]; exact h1)
  have e : (1 : Rat) * max = max := by grind
  rw [e] at a1
  have a2 := ub_addC R _ (max : Rat) (1/2) a1 h2
  exact castU_le ty _ _ max a2 (by grind)

theorem qUnormSat_lt (R : Rounding) (max ty : Nat) (x : ExtReal) : qUnormSat R max ty x < 2 ^ ty :=
  castU_lt ty _

/-- SNORM: the intermediate `norm` is at most `2^n − 2`, so `norm + 1` does not overflow the
type and the result fits `n` bits -/
theorem qSnorm_some (R : Rounding) (bits : Nat) (hb : 2 ≤ bits) (x : ExtReal)
    (h1 : R.fixes ((2 ^ bits - 2 : Nat) : Rat)) (h2 : R.fixes (((2 ^ bits - 2 : Nat) : Rat) + 1/2)) :
    ∃ v, qSnorm R bits x = some v ∧ v < 2 ^ bits := by
  have hn : qSnormNorm R bits x ≤ 2 ^ bits - 2 := qUnormMin_le R _ bits x h1 h2
  have hp : 4 ≤ 2 ^ bits := by
    calc 4 = 2 ^ 2 := rfl
      _ ≤ 2 ^ bits := Nat.pow_le_pow_right (by omega) hb
  unfold qSnorm snormFromNorm
  have : qSnormNorm R bits x + 1 < 2 ^ bits := by omega
  rw [if_pos this]
  exact ⟨_, rfl, Nat.mod_lt _ (by omega)⟩

theorem qXr10_le (R : Rounding) (x : ExtReal) : qXr10 R x ≤ 1023 := Nat.min_le_right _ _

theorem qYuv8_lt (R : Rounding) (row : YuvRow) (r g b : ExtReal) : qYuv8 R row r g b < 256 :=
  castU_lt 8 _
theorem qYuv10_le (R : Rounding) (row : YuvRow) (r g b : ExtReal) : qYuv10 R row r g b ≤ 1023 :=
  Nat.min_le_right _ _
theorem qYuv16_lt (R : Rounding) (row : YuvRow) (r g b : ExtReal) : qYuv16 R row r g b < 65536 :=
  castU_lt 16 _

/-! ### bit operations -/

theorem shiftLeft_lt_pow (v w n : Nat) (h : v < 2 ^ n) : v <<< w < 2 ^ (w + n) := by
  rw [Nat.shiftLeft_eq, Nat.pow_add, Nat.mul_comm]
  exact Nat.mul_lt_mul_of_pos_left h (Nat.two_pow_pos w)

theorem lt_pow_mono (v a b : Nat) (h : v < 2 ^ a) (hab : a ≤ b) : v < 2 ^ b :=
  Nat.lt_of_lt_of_le h (Nat.pow_le_pow_right (by omega) hab)

/-- `(exp << n) | mant` of `f32_to_unsigned_fp_e5` fits `n + 5` bits -/
theorem fpE5_lt (n : Nat) (hn : n ≤ 10) (f16 : Nat) : fpE5 n f16 < 2 ^ (n + 5) := by
  unfold fpE5
  apply Nat.or_lt_two_pow
  · have : (f16 >>> 10) &&& 31 < 2 ^ 5 := Nat.and_lt_two_pow _ (by decide)
    exact shiftLeft_lt_pow _ n 5 this
  · have h1 : f16 &&& 1023 < 2 ^ 10 := Nat.and_lt_two_pow _ (by decide)
    have h2 : (f16 &&& 1023) >>> (10 - n) < 2 ^ n := by
      rw [Nat.shiftRight_eq_div_pow]
      apply Nat.div_lt_of_lt_mul
      rw [← Nat.pow_add]
      have : 10 - n + n = 10 := by omega
      rw [this]; exact h1
    exact lt_pow_mono _ n (n + 5) h2 (by omega)

/-- fields that fit their widths pack into the sum of the widths: no shift pushes a bit out -/
theorem pack_lt (l : List (Nat × Nat)) (h : ∀ f ∈ l, f.1 < 2 ^ f.2) : pack l < 2 ^ widthSum l := by
  induction l with
  | nil => simp [pack, widthSum]
  | cons f rest ih =>
    obtain ⟨v, w⟩ := f
    have hv : v < 2 ^ w := h (v, w) (List.mem_cons_self)
    have hr := ih (fun f hf => h f (List.mem_cons_of_mem _ hf))
    show v ||| (pack rest <<< w) < 2 ^ widthSum ((v, w) :: rest)
    have e : widthSum ((v, w) :: rest) = w + widthSum rest := by simp [widthSum]
    rw [e]
    apply Nat.or_lt_two_pow
    · exact lt_pow_mono _ w _ hv (by omega)
    · exact shiftLeft_lt_pow _ w _ hr

/-- and every field can be read back: the lowest field is the packed value modulo its width,
the rest is the packed value shifted down -/
theorem pack_low (v w : Nat) (rest : List (Nat × Nat)) (hv : v < 2 ^ w) :
    pack ((v, w) :: rest) % 2 ^ w = v ∧ pack ((v, w) :: rest) >>> w = pack rest := by
  show (v ||| (pack rest <<< w)) % 2 ^ w = v ∧ (v ||| (pack rest <<< w)) >>> w = pack rest
  have e : v ||| (pack rest <<< w) = pack rest <<< w + v := by
    rw [Nat.or_comm]; exact (Nat.shiftLeft_add_eq_or_of_lt hv _).symm
  rw [e, Nat.shiftLeft_eq, Nat.shiftRight_eq_div_pow]
  constructor
  · rw [Nat.add_comm, Nat.add_mul_mod_self_right]; exact Nat.mod_eq_of_lt hv
  · rw [Nat.add_comm, Nat.add_mul_div_right _ _ (Nat.two_pow_pos w), Nat.div_eq_of_lt hv]; omega

/-! ### R9G9B9E5 -/

/-- a channel below `2^(exp − 15)` (`exp` the shared exponent chosen from the largest channel)
gives a mantissa of at most 512 — 512 only by rounding, which is what the second pass handles -/
theorem mant9995_le (R : Rounding) (exp : Nat) (c bound : Rat) (n : Nat)
    (hc : c * (2 : Rat) ^ ((24 : Int) - exp) ≤ bound) (hb : bound + 1/2 < n + 1)
    (hr : R.fixes (bound + 1/2)) : mant9995 R exp c ≤ n := by
  unfold mant9995
  have a1 : (ExtReal.fin (c * (2 : Rat) ^ ((24 : Int) - exp))).ub bound := hc
  have a2 := ub_addC R _ bound (1/2) a1 hr
  exact castU_le 32 _ _ n a2 hb

/-! ### the refinement loop -/

theorem refineIters_le (stepOk : Nat → Bool) (maxIter : Nat) : ∀ fuel iters, iters ≤ maxIter →
    refineIters stepOk maxIter fuel iters ≤ maxIter := by
  intro fuel
  induction fuel with
  | zero => intro iters h; exact h
  | succ fuel ih =>
    intro iters h
    simp only [refineIters]
    by_cases hc : loopGuard stepOk maxIter iters = true
    · rw [if_pos hc]
      simp only [loopGuard, Bool.and_eq_true, decide_eq_true_eq] at hc
      exact ih (iters + 1) (by omega)
    · rw [if_neg hc]; exact h

/-- with enough fuel the loop has really stopped: the guard is false at the returned count -/
theorem refineIters_stops (stepOk : Nat → Bool) (maxIter : Nat) : ∀ fuel iters,
    maxIter ≤ iters + fuel →
    loopGuard stepOk maxIter (refineIters stepOk maxIter fuel iters) = false := by
  intro fuel
  induction fuel with
  | zero =>
    intro iters h
    simp only [refineIters, loopGuard]
    have : ¬ iters < maxIter := by omega
    simp [this]
  | succ fuel ih =>
    intro iters h
    simp only [refineIters]
    by_cases hc : loopGuard stepOk maxIter iters = true
    · rw [if_pos hc]; exact ih (iters + 1) (by omega)
    · rw [if_neg hc]; simpa using hc

end Dds.EncTotal
