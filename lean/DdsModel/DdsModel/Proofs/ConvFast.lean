/-
Kernel-friendly evaluation of the software binary32 of `ConvF32.lean` (the float model of C04).

`ConvF32.roundPack` and the operators built on it (`fmul`, `fadd`, `ofNat`, `toNatSat`) are written with `Int`
exponents, type-class arithmetic, `Decidable` instances, `Nat.log2` and call-by-value wrappers; one evaluation
costs the kernel ≈ 2 ms.  Here the same operations are written with the kernel-accelerated primitives only
(`Nat.add`, `Nat.ble`, `cond`, …), with exponents kept as natural numbers biased by 1000, `Nat.log2` replaced by
the checked binary search `Fast.lg`, and intermediate values shared by β-redexes (`lz`) — the technique of
`Proofs/F32Raw.lean` (C03), applied to the dyadic `roundPack` of C04.

Every fast operation is proved equal to the model's for ALL arguments: where the cheap formula covers only
positive finite patterns the definition tests that at run time and otherwise falls back to the model's own
operation, so no range hypotheses leak into the statements.
-/
import DdsModel.Proofs.F32Raw
import DdsModel.ConvF32
namespace Dds.ConvFast
open Dds Dds.CF32
open Dds.F32.Raw (lz lz_eq nadd nsub nmul ndiv nmod npow nshl cond_ble cond_blt cond_beq ble_dec blt_dec beq_dec cond_dec)
open Dds.F32.Fast (lg lg_eq)

theorem nshr (a b : Nat) : Nat.shiftRight a b = a >>> b := rfl

/-! ### `roundPack` -/

/-- round `m / 2^k` to nearest, ties to even (`k ≥ 1`) -/
def rneR (m k : Nat) : Nat :=
  lz (Nat.shiftRight m k) fun hi => lz (Nat.mod m (Nat.pow 2 k)) fun rem => lz (Nat.pow 2 (Nat.sub k 1)) fun half =>
    cond (Nat.blt half rem || (Nat.beq rem half && Nat.beq (Nat.mod hi 2) 1)) (Nat.add hi 1) hi

/-- the same in the notation of `roundPack` -/
def rne (m k : Nat) : Nat :=
  if m % 2 ^ k > 2 ^ (k - 1) ∨ (m % 2 ^ k == 2 ^ (k - 1) ∧ (m >>> k) % 2 == 1) then (m >>> k) + 1 else m >>> k

theorem rneR_eq (m k : Nat) : rneR m k = rne m k := by
  unfold rneR rne
  simp only [lz_eq, nadd, nsub, nmod, npow, nshr, blt_dec, beq_dec, ← Bool.decide_and, ← Bool.decide_or, cond_dec,
    beq_iff_eq, gt_iff_lt]

/-- `roundPack` for a positive value without the call-by-value wrappers -/
theorem roundPack_pos (m : Nat) (e : Int) (hm : m ≠ 0) :
    roundPack false m e =
      (let E := (Nat.log2 m : Int) + e
       let q := if E ≥ -126 then E - 23 else -149
       let sh := q - e
       let mant' := if sh ≤ 0 then m <<< (-sh).toNat else rne m sh.toNat
       let bits := if E ≥ -126 then ((E + 126).toNat <<< 23) + mant' else mant'
       if bits ≥ posInf then posInf else bits) := by
  unfold roundPack
  simp only [force_eq, forceI_eq]
  have : (m == 0) = false := by simpa using hm
  simp only [this, rne]
  simp

theorem roundPack_zero (s : Bool) (e : Int) : roundPack s 0 e = if s then signBit else 0 := by
  unfold roundPack
  simp only [force_eq, forceI_eq]
  simp

/-- the sign is attached to the rounded magnitude -/
theorem roundPack_sign (m : Nat) (e : Int) : roundPack true m e = signBit + roundPack false m e := by
  unfold roundPack
  simp only [force_eq, forceI_eq]
  by_cases hm : (m == 0) = true
  · simp [hm]
  · simp only [hm, if_true, Bool.false_eq_true, if_false, Nat.zero_add]
    exact (apply_ite (fun t => signBit + t) _ _ _).symm

/-- `⌊log₂ m⌋` with a hint: `h` and `h + 1` are tried (and CHECKED: `2^a ≤ m < 2^(a+1)`), otherwise the binary
search `Fast.lg`; equal to `Nat.log2 m` whatever the hint -/
def lgH (m h : Nat) : Nat :=
  cond (Nat.ble (Nat.pow 2 h) m)
    (lz (Nat.add h 1) fun h1 =>
      cond (Nat.blt m (Nat.pow 2 h1)) h
        (cond (Nat.blt m (Nat.pow 2 (Nat.add h1 1))) h1 (lg m)))
    (lg m)

theorem lgH_eq (m h : Nat) : lgH m h = Nat.log2 m := by
  unfold lgH
  simp only [lz_eq, lg_eq, nadd, npow, cond_ble, cond_blt]
  by_cases h0 : 2 ^ h ≤ m
  · have hm : m ≠ 0 := by
      have : 0 < 2 ^ h := Nat.pow_pos (by decide)
      omega
    rw [if_pos h0]
    by_cases h1 : m < 2 ^ (h + 1)
    · rw [if_pos h1]
      exact ((Nat.log2_eq_iff hm).mpr ⟨h0, h1⟩).symm
    · rw [if_neg h1]
      by_cases h2 : m < 2 ^ (h + 1 + 1)
      · rw [if_pos h2]
        exact ((Nat.log2_eq_iff hm).mpr ⟨by omega, h2⟩).symm
      · rw [if_neg h2]
  · rw [if_neg h0]

/-- a hint for `⌊log₂ x⌋`: decision tree over the constants `2^1 … 2^31` (exact for `x < 2^32`; being a hint only,
nothing has to be proved about it) -/
def lg32 (x : Nat) : Nat :=
  (cond (Nat.ble 65536 x) (cond (Nat.ble 16777216 x) (cond (Nat.ble 268435456 x) (cond (Nat.ble 1073741824 x)
  (cond (Nat.ble 2147483648 x) 31 30) (cond (Nat.ble 536870912 x) 29 28)) (cond (Nat.ble 67108864 x) (cond
  (Nat.ble 134217728 x) 27 26) (cond (Nat.ble 33554432 x) 25 24))) (cond (Nat.ble 1048576 x) (cond (Nat.ble
  4194304 x) (cond (Nat.ble 8388608 x) 23 22) (cond (Nat.ble 2097152 x) 21 20)) (cond (Nat.ble 262144 x) (cond
  (Nat.ble 524288 x) 19 18) (cond (Nat.ble 131072 x) 17 16)))) (cond (Nat.ble 256 x) (cond (Nat.ble 4096 x)
  (cond (Nat.ble 16384 x) (cond (Nat.ble 32768 x) 15 14) (cond (Nat.ble 8192 x) 13 12)) (cond (Nat.ble 1024 x)
  (cond (Nat.ble 2048 x) 11 10) (cond (Nat.ble 512 x) 9 8))) (cond (Nat.ble 16 x) (cond (Nat.ble 64 x) (cond
  (Nat.ble 128 x) 7 6) (cond (Nat.ble 32 x) 5 4)) (cond (Nat.ble 4 x) (cond (Nat.ble 8 x) 3 2) (cond (Nat.ble 2
  x) 1 0)))))

/-- `⌊log₂ m⌋`, cheap for `m < 2^33` -/
def lgA (m : Nat) : Nat := lgH m (lg32 m)
theorem lgA_eq (m : Nat) : lgA m = Nat.log2 m := lgH_eq m _

/-- `roundPack false m (B − 1000)`: exponents biased by 1000; `h` is a hint for `⌊log₂ m⌋` (any value is
correct, a good one is cheaper) -/
def rpH (m B h : Nat) : Nat :=
  cond (Nat.beq m 0) 0
    (lz (Nat.add (lgH m h) B) fun EB =>
      cond (Nat.ble 874 EB)
        (lz (Nat.sub EB 23) fun qB =>
          lz (cond (Nat.ble qB B) (Nat.shiftLeft m (Nat.sub B qB)) (rneR m (Nat.sub qB B))) fun mant' =>
          lz (Nat.add (Nat.shiftLeft (Nat.sub EB 874) 23) mant') fun bits =>
            cond (Nat.ble 0x7F800000 bits) 0x7F800000 bits)
        (lz (cond (Nat.ble 851 B) (Nat.shiftLeft m (Nat.sub B 851)) (rneR m (Nat.sub 851 B))) fun bits =>
          cond (Nat.ble 0x7F800000 bits) 0x7F800000 bits))

theorem rpH_eq (m B h : Nat) : rpH m B h = roundPack false m ((B : Int) - 1000) := by
  unfold rpH
  rw [cond_beq]
  by_cases hm : m = 0
  · rw [if_pos hm, hm, roundPack_zero]; rfl
  · rw [if_neg hm, roundPack_pos m _ hm]
    simp only [lz_eq, lgH_eq, nadd, nsub, nshl, cond_ble, rneR_eq, posInf, ge_iff_le]
    generalize Nat.log2 m = L
    have c1 : (-126 ≤ (L : Int) + ((B : Int) - 1000)) ↔ 874 ≤ L + B := by omega
    simp only [c1]
    by_cases h : 874 ≤ L + B
    · simp only [h, if_true]
      have c2 : ((L : Int) + ((B : Int) - 1000) - 23 - ((B : Int) - 1000) ≤ 0) ↔ L + B - 23 ≤ B := by omega
      have c3 : (-((L : Int) + ((B : Int) - 1000) - 23 - ((B : Int) - 1000))).toNat = B - (L + B - 23) := by omega
      have c4 : ((L : Int) + ((B : Int) - 1000) - 23 - ((B : Int) - 1000)).toNat = L + B - 23 - B := by omega
      have c5 : ((L : Int) + ((B : Int) - 1000) + 126).toNat = L + B - 874 := by omega
      simp only [c2, c3, c4, c5]
    · simp only [h, if_false]
      have c2 : ((-149 : Int) - ((B : Int) - 1000) ≤ 0) ↔ 851 ≤ B := by omega
      have c3 : (-((-149 : Int) - ((B : Int) - 1000))).toNat = B - 851 := by omega
      have c4 : ((-149 : Int) - ((B : Int) - 1000)).toNat = 851 - B := by omega
      simp only [c2, c3, c4]

/-! ### unpacking a positive finite pattern (`a < +∞`) -/

/-- significand with the hidden bit -/
def mantR (a : Nat) : Nat :=
  cond (Nat.blt a 8388608) a (Nat.add (Nat.mod a 8388608) 8388608)
/-- exponent of the unit in the last place, biased by 1000 -/
def bexpR (a : Nat) : Nat :=
  cond (Nat.blt a 8388608) 851 (Nat.add (Nat.div a 8388608) 850)

theorem bexpR_ge (a : Nat) : 851 ≤ bexpR a := by
  unfold bexpR; rw [cond_blt, nadd, ndiv]; split <;> omega

theorem expField_eq (b : Nat) : expField b = b / 8388608 % 256 := by
  unfold expField; rw [Nat.shiftRight_eq_div_pow]

/-- a pattern below `+∞` is neither NaN nor infinite nor negative; its unpacking -/
theorem posfin (p : Nat) (h : p < 0x7F800000) :
    isNaN p = false ∧ isInf p = false ∧ isNeg p = false ∧ mant p = mantR p ∧ expo p = (bexpR p : Int) - 1000 := by
  have he : expField p = p / 8388608 := by rw [expField_eq]; omega
  have hne : expField p ≠ 255 := by omega
  refine ⟨?_, ?_, ?_, ?_, ?_⟩
  · unfold isNaN; simp [hne]
  · unfold isInf; simp [hne]
  · unfold isNeg signBit; simp; omega
  · unfold mant mantR fracField
    rw [cond_blt, he, nadd, nmod]
    by_cases h0 : p < 8388608
    · have : p / 8388608 = 0 := Nat.div_eq_of_lt h0
      simp [this, h0]
    · have : p / 8388608 ≠ 0 := by omega
      simp [this, h0]
  · unfold expo bexpR
    rw [cond_blt, he, nadd, ndiv]
    by_cases h0 : p < 8388608
    · have : p / 8388608 = 0 := Nat.div_eq_of_lt h0
      simp [this, h0]
    · have : p / 8388608 ≠ 0 := by omega
      simp [this, h0]; omega

def posfin2 (a b : Nat) : Bool := Nat.blt a 0x7F800000 && Nat.blt b 0x7F800000

theorem posfin2_iff (a b : Nat) : posfin2 a b = true ↔ a < 0x7F800000 ∧ b < 0x7F800000 := by
  unfold posfin2
  rw [Bool.and_eq_true, Nat.blt_eq, Nat.blt_eq]

/-! ### the operators -/

/-- `n as f32` -/
def ofNatR (n : Nat) : Nat := rpH n 1000 (lg32 n)

theorem ofNatR_eq (n : Nat) : ofNatR n = ofNat n := by
  unfold ofNatR ofNat
  rw [rpH_eq]; rfl

/-- `a * b` -/
def mulR (a b : Nat) : Nat :=
  cond (posfin2 a b)
    (lz (Nat.mul (mantR a) (mantR b)) fun p =>
      rpH p (Nat.sub (Nat.add (bexpR a) (bexpR b)) 1000) (cond (Nat.ble 140737488355328 p) 47 46))
    (fmul a b)

theorem mulR_eq (a b : Nat) : mulR a b = fmul a b := by
  unfold mulR
  cases h : posfin2 a b
  · rfl
  · obtain ⟨ha, hb⟩ := (posfin2_iff a b).mp h
    obtain ⟨a1, a2, a3, a4, a5⟩ := posfin a ha
    obtain ⟨b1, b2, b3, b4, b5⟩ := posfin b hb
    rw [cond_true, lz_eq, rpH_eq]
    unfold fmul
    simp only [force_eq, a1, a2, a3, a4, a5, b1, b2, b3, b4, b5, Bool.or_self, Bool.false_eq_true, if_false, bne_self_eq_false,
      nadd, nsub, nmul]
    have ea := bexpR_ge a
    have eb := bexpR_ge b
    generalize bexpR a = x at *
    generalize bexpR b = y at *
    have : (((x + y - 1000 : Nat) : Int) - 1000) = (x : Int) - 1000 + ((y : Int) - 1000) := by omega
    rw [this]

/-- `a + b` -/
def addR (a b : Nat) : Nat :=
  cond (posfin2 a b)
    (lz (bexpR a) fun ea => lz (bexpR b) fun eb =>
      cond (Nat.ble eb ea)
        (lz (Nat.sub ea eb) fun d => rpH (Nat.add (Nat.shiftLeft (mantR a) d) (mantR b)) eb (Nat.add 23 d))
        (lz (Nat.sub eb ea) fun d => rpH (Nat.add (mantR a) (Nat.shiftLeft (mantR b) d)) ea (Nat.add 23 d)))
    (fadd a b)

theorem fadd_tail (A B : Nat) (e : Int) :
    (if (((A : Nat) : Int) + ((B : Nat) : Int) == 0) = true then 0
      else roundPack (decide (((A : Nat) : Int) + ((B : Nat) : Int) < 0)) (((A : Nat) : Int) + ((B : Nat) : Int)).natAbs e) =
    roundPack false (A + B) e := by
  have hn : (((A : Nat) : Int) + ((B : Nat) : Int)).natAbs = A + B := by omega
  have hlt : ¬ (((A : Nat) : Int) + ((B : Nat) : Int) < 0) := by omega
  rw [hn, decide_eq_false hlt]
  by_cases hS : A + B = 0
  · have : (((A : Nat) : Int) + ((B : Nat) : Int) == 0) = true := by simp; omega
    rw [if_pos this, hS, roundPack_zero]; rfl
  · have : ¬ (((A : Nat) : Int) + ((B : Nat) : Int) == 0) = true := by simp; omega
    rw [if_neg this]

theorem addR_eq (a b : Nat) : addR a b = fadd a b := by
  unfold addR
  cases h : posfin2 a b
  · rfl
  · obtain ⟨ha, hb⟩ := (posfin2_iff a b).mp h
    obtain ⟨a1, a2, a3, a4, a5⟩ := posfin a ha
    obtain ⟨b1, b2, b3, b4, b5⟩ := posfin b hb
    rw [cond_true, lz_eq, lz_eq, cond_ble]
    unfold fadd
    simp only [force_eq, forceI_eq, a1, a2, a3, a4, a5, b1, b2, b3, b4, b5, Bool.or_self, Bool.false_eq_true, if_false,
      Bool.and_self, nadd, nsub, nshl, lz_eq, rpH_eq]
    rw [fadd_tail]
    generalize bexpR a = ea
    generalize bexpR b = eb
    generalize mantR a = ma
    generalize mantR b = mb
    by_cases hle : eb ≤ ea
    · rw [if_pos hle]
      have hmin : min ((ea : Int) - 1000) ((eb : Int) - 1000) = (eb : Int) - 1000 := by omega
      have s1 : ((ea : Int) - 1000 - ((eb : Int) - 1000)).toNat = ea - eb := by omega
      have s2 : ((eb : Int) - 1000 - ((eb : Int) - 1000)).toNat = 0 := by omega
      rw [hmin, s1, s2, Nat.shiftLeft_zero]
    · rw [if_neg hle]
      have hmin : min ((ea : Int) - 1000) ((eb : Int) - 1000) = (ea : Int) - 1000 := by omega
      have s1 : ((eb : Int) - 1000 - ((ea : Int) - 1000)).toNat = eb - ea := by omega
      have s2 : ((ea : Int) - 1000 - ((ea : Int) - 1000)).toNat = 0 := by omega
      rw [hmin, s1, s2, Nat.shiftLeft_zero]

/-- `x as uN` (saturating), `max = 2^N − 1` -/
def toNatSatR (x max : Nat) : Nat :=
  cond (Nat.blt x 0x7F800000)
    (lz (bexpR x) fun e =>
      lz (cond (Nat.ble 1000 e) (Nat.shiftLeft (mantR x) (Nat.sub e 1000)) (Nat.shiftRight (mantR x) (Nat.sub 1000 e))) fun v =>
        cond (Nat.blt max v) max v)
    (toNatSat x max)

set_option maxRecDepth 10000 in
theorem toNatSatR_eq (x max : Nat) : toNatSatR x max = toNatSat x max := by
  unfold toNatSatR
  rw [cond_blt]
  by_cases hx : x < 0x7F800000
  · obtain ⟨a1, a2, a3, a4, a5⟩ := posfin x hx
    rw [if_pos hx, lz_eq, lz_eq, cond_ble, cond_blt]
    unfold toNatSat
    simp only [force_eq, a1, a2, a3, a4, a5, Bool.false_eq_true, if_false, nsub, nshl, nshr]
    generalize bexpR x = e
    have c1 : ((e : Int) - 1000 ≥ 0) ↔ 1000 ≤ e := by omega
    have c2 : ((e : Int) - 1000).toNat = e - 1000 := by omega
    have c3 : (-((e : Int) - 1000)).toNat = 1000 - e := by omega
    simp only [c1, c2, c3, gt_iff_lt]
  · rw [if_neg hx]

/-- `-x` -/
def negR (b : Nat) : Nat := cond (Nat.ble 0x80000000 b) (Nat.sub b 0x80000000) (Nat.add b 0x80000000)

theorem negR_eq (b : Nat) : negR b = neg b := by
  unfold negR neg isNeg signBit
  rw [cond_ble]
  simp only [ge_iff_le, decide_eq_true_eq]
  rfl

end Dds.ConvFast
