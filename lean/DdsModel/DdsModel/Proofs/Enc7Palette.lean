/-
C13 / BC7 encoder, T2: the encoder's own palette arithmetic (`promote`, `p_promote`, `interpolate<W>`, its copy of the
weight tables; src/encode/bc7.rs) equals the DECODER's (`Bc7.promote`, `Bc7.withP`, `Bc7.lerp`, src/decode/bc7.rs) and the
specification's (`Bc7Spec.expand`, `Bc7Spec.interp`), for all inputs; interpolation is symmetric under
(swap endpoints, invert index).
-/
import DdsModel.Proofs.Enc7Norm
namespace Dds.Enc7
open Dds Dds.BcTables

theorem promote_eq_dec (v bits : Nat) : promote v bits = Bc7.promote v bits := rfl

theorem weights_eq_dec : WEIGHTS_2 = Bc7.WEIGHTS_2 ∧ WEIGHTS_3 = Bc7.WEIGHTS_3 ∧ WEIGHTS_4 = Bc7.WEIGHTS_4 :=
  ⟨rfl, rfl, rfl⟩

/-- the decoder's weight table for `W` index bits -/
def decW (W : Nat) : List Nat := if W = 2 then Bc7.WEIGHTS_2 else if W = 3 then Bc7.WEIGHTS_3 else Bc7.WEIGHTS_4

theorem interpolate_eq_lerp (W e0 e1 k : Nat) : interpolate W e0 e1 k = Bc7.lerp e0 e1 ((decW W).getD k 0) := by
  unfold interpolate weight Bc7.lerp decW
  by_cases h2 : W = 2
  · simp only [h2, if_true]; rfl
  · by_cases h3 : W = 3
    · simp only [h3, if_true, if_false]; rfl
    · simp only [h2, h3, if_false]; rfl

theorem pPromoteCh7 (v p : Nat) : pPromoteCh 7 v p = Bc7.withP v p := by
  simp [pPromoteCh, Bc7.withP]

theorem pPromoteCh_ne7 (B v p : Nat) (h : B ≠ 7) : pPromoteCh B v p = Bc7.promote (Bc7.withP v p) (B + 1) := by
  simp [pPromoteCh, Bc7.withP, h, promote_eq_dec]

theorem promoteCh8 (v : Nat) : promoteCh 8 v = v := by simp [promoteCh]
theorem promoteCh_ne8 (B v : Nat) (h : B ≠ 8) : promoteCh B v = Bc7.promote v B := by
  simp [promoteCh, h, promote_eq_dec]

/-- swapping the endpoints and taking the complementary weight gives the same value -/
theorem lerp_swap (e0 e1 w : Nat) (hw : w ≤ 256) : Bc7.lerp e1 e0 (256 - w) = Bc7.lerp e0 e1 w := by
  unfold Bc7.lerp
  have h1 : (256 + U16 - (256 - w)) % U16 = w := by unfold U16; omega
  have h2 : (256 + U16 - w) % U16 = 256 - w := by unfold U16; omega
  simp only [h1, h2]
  rw [Nat.add_comm ((w * e1) % U16)]

theorem weights_sym (W : Nat) (hW : W = 2 ∨ W = 3 ∨ W = 4) :
    ∀ k, k < 2 ^ W → (decW W).getD (2 ^ W - 1 - k) 0 = 256 - (decW W).getD k 0 ∧ (decW W).getD k 0 ≤ 256 := by
  rcases hW with h | h | h <;> subst h <;> decide

/-- (swap endpoints, invert index) is the identity on the palette -/
theorem lerp_sym (W e0 e1 k : Nat) (hW : W = 2 ∨ W = 3 ∨ W = 4) (hk : k < 2 ^ W) :
    Bc7.lerp e1 e0 ((decW W).getD (2 ^ W - 1 - k) 0) = Bc7.lerp e0 e1 ((decW W).getD k 0) := by
  obtain ⟨h1, h2⟩ := weights_sym W hW k hk
  rw [h1, lerp_swap e0 e1 _ h2]

theorem interpolate_sym (W e0 e1 k : Nat) (hW : W = 2 ∨ W = 3 ∨ W = 4) (hk : k < 2 ^ W) :
    interpolate W e1 e0 (2 ^ W - 1 - k) = interpolate W e0 e1 k := by
  rw [interpolate_eq_lerp, interpolate_eq_lerp, lerp_sym W e0 e1 k hW hk]

/-- the encoder's interpolation is the specification's, on bytes -/
theorem interpolate_eq_spec (W e0 e1 k : Nat) (hW : W = 2 ∨ W = 3 ∨ W = 4) (h0 : e0 < 256) (h1 : e1 < 256)
    (hk : k < 2 ^ W) : interpolate W e0 e1 k = Bc7Spec.interp e0 e1 ((specWeights W).getD k 0) := by
  rw [interpolate_eq_lerp]
  exact Bc7.lerpW W e0 e1 k hW h0 h1 hk

/-- the encoder's `promote` is bit replication (the specification's `expand`) -/
theorem promote_eq_spec (bits v : Nat) (h4 : 4 ≤ bits) (h8 : bits < 8) (hv : v < 2 ^ bits) :
    promote v bits = Bc7Spec.expand bits v := Bc7.promote_eq_replicate bits h8 h4 v hv

/-- `p_promote` is `(v << 1 | p)` widened by replication -/
theorem pPromoteCh_eq_spec (B v p : Nat) (h4 : 4 ≤ B) (h8 : B < 8) (hv : v < 2 ^ B) (hp : p < 2) :
    pPromoteCh B v p = Bc7Spec.expand (B + 1) (v * 2 + p) := by
  have hv128 : v < 128 := Nat.lt_of_lt_of_le hv (by
    have : 2 ^ B ≤ 2 ^ 7 := Nat.pow_le_pow_right (by decide) (by omega)
    exact this)
  have hlt : v * 2 + p < 2 ^ (B + 1) := by rw [Nat.pow_succ]; omega
  by_cases h7 : B = 7
  · subst h7
    rw [pPromoteCh7, Bc7.withP_eq v hv128 p hp, Bc7.expand8 _ (by omega)]
  · rw [pPromoteCh_ne7 B v p h7, Bc7.withP_eq v hv128 p hp]
    exact Bc7.promote_eq_replicate (B + 1) (by omega) (by omega) _ hlt

end Dds.Enc7
