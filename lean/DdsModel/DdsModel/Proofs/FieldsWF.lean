/- Well-formedness predicate of the pinned format table (decided over the whole table). -/
import DdsModel.Uncompressed
namespace Dds.Unc

def rangesDisjoint (a b : Field) : Bool := a.off + a.width ≤ b.off || b.off + b.width ≤ a.off

def pairwiseDisjoint : List Field → Bool
  | [] => true
  | f :: fs => fs.all (rangesDisjoint f) && pairwiseDisjoint fs

/-- the widths each kind of field can have (DXGI) -/
def kindWidthOk (c : Color) (f : Field) : Bool :=
  match f.kind with
  | .unorm => [1, 2, 4, 5, 6, 8, 10, 16].contains f.width
  | .snorm => f.width == 8 || f.width == 16
  | .half => f.width == 16
  | .f11 => f.width == 11
  | .f10 => f.width == 10
  | .f32 => f.width == 32
  | .xr => f.width == 10
  | .mant => f.width == 9
  | .exp => f.width == 5
  | .yuv => c == .yuv f.width

/-- number of fields that give component `c` to pixel `p` -/
def countFor (fm : Fmt) (c : Comp) (p : Nat) : Nat :=
  (fm.fields.filter fun f => f.comp == c && (f.px == none || f.px == some p)).length

/-- which components every pixel must get from exactly one field; all others from none, except
that blue may be absent in an RGB format (then it is the default) -/
def compsOk (fm : Fmt) (p : Nat) : Bool :=
  let one (c : Comp) := countFor fm c p == 1
  let zero (c : Comp) := countFor fm c p == 0
  match fm.color with
  | .direct =>
    zero .Y && zero .U && zero .V && zero .E &&
    (match fm.native with
     | .gray => one .R && zero .G && zero .B && zero .A
     | .alpha => one .A && zero .R && zero .G && zero .B
     | .rgb => one .R && one .G && (one .B || zero .B) && zero .A
     | .rgba => one .R && one .G && one .B && one .A)
  | .yuv _ =>
    one .Y && one .U && one .V && zero .R && zero .G && zero .B && zero .E &&
    (if fm.native == .rgba then one .A else fm.native == .rgb && zero .A)
  | .sharedExp => one .R && one .G && one .B && one .E && zero .A && zero .Y && zero .U && zero .V &&
    fm.native == .rgb

def wellformed (fm : Fmt) : Bool :=
  -- every field lies inside the unit, has a documented width and belongs to an existing pixel
  fm.fields.all (fun f => f.off + f.width ≤ 8 * fm.unitBytes && kindWidthOk fm.color f &&
    (match f.px with | none => true | some p => p < fm.pxPerUnit)) &&
  -- fields are pairwise disjoint
  pairwiseDisjoint fm.fields &&
  -- every pixel of the unit gets every component it needs exactly once
  (List.range fm.pxPerUnit).all (compsOk fm) &&
  (fm.pxPerUnit == 1 || fm.pxPerUnit == 2 || fm.pxPerUnit == 8) &&
  -- absent blue is 0.5 exactly for the two-channel SNORM formats, 0 otherwise
  ((fm.blue == .half) == (fm.color == .direct && fm.native == .rgb && countFor fm .B 0 == 0 &&
      fm.fields.all (·.kind == .snorm))) && fm.blue != .one &&
  -- bi-planar: luma in the plane-1 element, chroma in the plane-2 element
  (match fm.planar with
   | none => true
   | some (p1, p2) => p1 + p2 == fm.unitBytes && fm.pxPerUnit == 1 &&
     fm.fields.all fun f => if f.comp == .Y then f.off + f.width ≤ 8 * p1 else 8 * p1 ≤ f.off)

def countWhere (p : Fmt → Bool) : Nat := (formats.filter p).length

end Dds.Unc
