/-
C03 (BC1–BC5): range facts (every 8-bit model value is a `u8`), the variants, and the per-pixel equality
`Bc.px = BcSpec.px` for every format.
-/
import DdsModel.Proofs.Bc
namespace Dds.Bc
open Dds.BcSpec (rnd quant leWord)

theorem w8_lt (x : Nat) : w8 x < 256 := Nat.mod_lt _ (by decide)

def RgbaLt (c : Rgba) : Prop := c.1 < 256 ∧ c.2.1 < 256 ∧ c.2.2.1 < 256 ∧ c.2.2.2 < 256

theorem lut4_P {α : Type} (P : α → Prop) (c0 c1 c2 c3 : α) (k : Nat)
    (h0 : P c0) (h1 : P c1) (h2 : P c2) (h3 : P c3) : P (lut4 c0 c1 c2 c3 k) := by
  unfold lut4; split <;> assumption

theorem toN8_lt (c : B565) : RgbaLt (toRgba c.toN8) := ⟨w8_lt _, w8_lt _, w8_lt _, Nat.lt_succ_self 255⟩
theorem oneThird_lt (s c : B565) : RgbaLt (toRgba (s.oneThird c)) := ⟨w8_lt _, w8_lt _, w8_lt _, Nat.lt_succ_self 255⟩
theorem mid_lt (s c : B565) : RgbaLt (toRgba (s.mid c)) := ⟨w8_lt _, w8_lt _, w8_lt _, Nat.lt_succ_self 255⟩

theorem bc1Px_lt (blk : Nat → Nat) (p : Nat) : RgbaLt (bc1Px blk p) := by
  unfold bc1Px
  apply lut4_P
  · exact toN8_lt _
  · exact toN8_lt _
  · split
    · exact oneThird_lt _ _
    · exact mid_lt _ _
  · split
    · exact oneThird_lt _ _
    · exact ⟨by decide, by decide, by decide, by decide⟩

theorem bc1NoDefaultPx_lt (blk : Nat → Nat) (p : Nat) : RgbaLt (bc1NoDefaultPx blk p) := by
  unfold bc1NoDefaultPx
  apply lut4_P
  · exact toN8_lt _
  · exact toN8_lt _
  · exact oneThird_lt _ _
  · exact oneThird_lt _ _

theorem bc4u8_lt (blk : Nat → Nat) (hb : ∀ i, blk i < 256) (p : Nat) : bc4uPx (bc4uOps .u8) blk p < 256 := by
  have h0 := hb 0; have h1 := hb 1
  simp only [bc4uPx]
  generalize decide (blk 0 > blk 1) = six
  generalize bc4Index blk p = k
  unfold bc4Lut
  split <;> cases six <;> (try simp only [if_true, if_false, Bool.false_eq_true]) <;> first
    | exact h0
    | exact h1
    | exact w8_lt _
    | exact Nat.lt_succ_self 255
    | exact Nat.zero_lt_succ 255

theorem bc2Alpha_lt (blk : Nat → Nat) (p : Nat) : bc2Alpha blk p < 256 := w8_lt _
theorem straight_lt (c a : Nat) : straight c a < 256 := w8_lt _

theorem toU8_lt (a : Nat) : F32.toU8 a < 256 := by
  simp only [F32.toU8]
  split
  · decide
  · split
    · decide
    · omega

theorem calcB_lt (r g : Nat) : calcB r g < 256 := toU8_lt _

/-- DXT2/DXT4: the decoder's division equals the documented formula -/
theorem straight_eq (c a : Nat) (hc : c < 256) (ha : a < 256) : straight c a = BcSpec.straight c a := by
  unfold straight BcSpec.straight
  have hw : w16 (c * 255) = c * 255 := by unfold w16; omega
  rw [hw]
  by_cases h : a = 0
  · simp only [h, if_true]
    rw [Nat.mul_div_cancel c (by decide : 0 < 255)]
    unfold w8; rw [Nat.min_def]; split <;> omega
  · simp only [h, if_false]
    generalize c * 255 / a = q
    unfold w8; rw [Nat.min_def, Nat.min_def]; split <;> split <;> omega

theorem map_widen_eq (pr : Prec) (l l' : List Nat) (h : l = l') (hlt : ∀ v, v ∈ l → v < 256) :
    l.map (widen pr) = l'.map (BcSpec.widen pr) := by
  subst h
  apply List.map_congr_left
  intro v hv
  have := hlt v hv
  exact beq_true (widen_fin pr v (by omega))

/-- BC3 alpha at 8 bit -/
theorem bc3Alpha_eq (blk : Nat → Nat) (hb : ∀ i, blk i < 256) (p : Nat) (hp : p < 16) :
    bc4uPx (bc4uOps .u8) blk p = rnd (255 * BcSpec.bc4uVal blk 0 p) := bc4uPx_eq .u8 blk hb p hp

theorem colorUpper_eq (blk : Nat → Nat) (hb : ∀ i, blk i < 256) (p : Nat) (hp : p < 16) :
    bc1NoDefaultPx (upper blk) p = BcSpec.colorPx false blk 8 p := by
  rw [bc1NoDefaultPx_eq (upper blk) (upper_lt blk hb) p hp, colorPx_upper]

/-- 8-bit pixel of every 8-bit-defined format except BC3n: implementation model = specification -/
theorem px8_eq (f : Fmt) (hf : f ≠ .bc3n) (blk : Nat → Nat) (hb : ∀ i, blk i < 256) (p : Nat) (hp : p < 16) :
    px8 f blk p = BcSpec.px8 f blk p := by
  have hc := colorUpper_eq blk hb p hp
  have ha2 := bc2Alpha_eq blk hb p hp
  have ha3 := bc3Alpha_eq blk hb p hp
  have hcl := bc1NoDefaultPx_lt (upper blk) p
  have h2l := bc2Alpha_lt blk p
  have h3l := bc4u8_lt blk hb p
  cases f <;> simp only [px8, BcSpec.px8, l4, bc2Px, bc3Px, setA, toStraight, ne_eq, not_true_eq_false] at hf ⊢
  · rw [bc1Px_eq blk hb p hp]
  · rw [hc, ha2]
  · rw [hc]
  · rw [straight_eq _ _ hcl.1 h2l, straight_eq _ _ hcl.2.1 h2l, straight_eq _ _ hcl.2.2.1 h2l, hc, ha2]
  · rw [hc, ha3]
  · rw [hc]
  · rw [straight_eq _ _ hcl.1 h3l, straight_eq _ _ hcl.2.1 h3l, straight_eq _ _ hcl.2.2.1 h3l, hc, ha3]
  · rw [hc, ha3]

/-- BC3n: R (from alpha) and G agree with the specification; B is `calc_b` of those two -/
theorem px8_bc3n (blk : Nat → Nat) (hb : ∀ i, blk i < 256) (p : Nat) (hp : p < 16) :
    px8 .bc3n blk p =
      [rnd (255 * BcSpec.bc4uVal blk 0 p), (BcSpec.colorPx false blk 8 p).2.1,
       calcB (rnd (255 * BcSpec.bc4uVal blk 0 p)) (BcSpec.colorPx false blk 8 p).2.1] := by
  simp only [px8, bc3Px, setA]
  rw [colorUpper_eq blk hb p hp, bc3Alpha_eq blk hb p hp]

theorem mem4_lt {a b c d : Nat} (ha : a < 256) (hb : b < 256) (hc : c < 256) (hd : d < 256) :
    ∀ v, v ∈ [a, b, c, d] → v < 256 := by
  intro v hv
  simp only [List.mem_cons, List.not_mem_nil, or_false] at hv
  rcases hv with h | h | h | h <;> subst h <;> assumption
theorem mem3_lt {a b c : Nat} (ha : a < 256) (hb : b < 256) (hc : c < 256) :
    ∀ v, v ∈ [a, b, c] → v < 256 := by
  intro v hv
  simp only [List.mem_cons, List.not_mem_nil, or_false] at hv
  rcases hv with h | h | h <;> subst h <;> assumption

theorem px8_lt (f : Fmt) (blk : Nat → Nat) (hb : ∀ i, blk i < 256) (p : Nat) :
    ∀ v, v ∈ px8 f blk p → v < 256 := by
  have h1 := bc1Px_lt blk p
  have hcl := bc1NoDefaultPx_lt (upper blk) p
  have h2l := bc2Alpha_lt blk p
  have h3l := bc4u8_lt blk hb p
  cases f <;> simp only [px8, l4, bc2Px, bc3Px, setA, toStraight]
  case bc1 => exact mem4_lt h1.1 h1.2.1 h1.2.2.1 h1.2.2.2
  case bc2 => exact mem4_lt hcl.1 hcl.2.1 hcl.2.2.1 h2l
  case bc2rgb => exact mem3_lt hcl.1 hcl.2.1 hcl.2.2.1
  case bc2p => exact mem4_lt (straight_lt _ _) (straight_lt _ _) (straight_lt _ _) h2l
  case bc3 => exact mem4_lt hcl.1 hcl.2.1 hcl.2.2.1 h3l
  case bc3rgb => exact mem3_lt hcl.1 hcl.2.1 hcl.2.2.1
  case bc3p => exact mem4_lt (straight_lt _ _) (straight_lt _ _) (straight_lt _ _) h3l
  case rxgb => exact mem3_lt h3l hcl.2.1 hcl.2.2.1
  case bc3n => exact mem3_lt h3l hcl.2.1 (calcB_lt _ _)
  all_goals (intro v hv; cases hv)

/-- every pixel of every format except BC3n: implementation model = specification, all precisions -/
theorem px_eq (f : Fmt) (hf : f ≠ .bc3n) (pr : Prec) (blk : Nat → Nat) (hb : ∀ i, blk i < 256)
    (p : Nat) (hp : p < 16) : px f pr blk p = BcSpec.px f pr blk p := by
  have hu := upper_lt blk hb
  have hc := consts_fin pr
  cases f
  case bc4u => simp only [px, pxWith, stdConv, BcSpec.px]; rw [bc4uPx_eq pr blk hb p hp]
  case bc4s => simp only [px, pxWith, stdConv, BcSpec.px]; rw [bc4sPx_eq pr blk hb p hp]
  case bc5u =>
    simp only [px, pxWith, stdConv, BcSpec.px]
    rw [bc4uPx_eq pr blk hb p hp, bc4uPx_eq pr (upper blk) hu p hp, bc4uVal_upper, hc.1]
  case bc5s =>
    simp only [px, pxWith, stdConv, BcSpec.px]
    rw [bc4sPx_eq pr blk hb p hp, bc4sPx_eq pr (upper blk) hu p hp, bc4sVal_upper, hc.2.2.2.2]
  all_goals
    simp only [px, pxWith, stdConv, BcSpec.px]
    exact map_widen_eq pr _ _ (px8_eq _ hf blk hb p hp) (px8_lt _ blk hb p)

theorem decodeBlock_eq (f : Fmt) (hf : f ≠ .bc3n) (pr : Prec) (blk : Nat → Nat) (hb : ∀ i, blk i < 256) :
    decodeBlock f pr blk = BcSpec.decodeBlock f pr blk := by
  unfold decodeBlock decodeBlockWith BcSpec.decodeBlock
  apply List.map_congr_left
  intro p hp
  rw [List.mem_range] at hp
  exact px_eq f hf pr blk hb p hp

end Dds.Bc
