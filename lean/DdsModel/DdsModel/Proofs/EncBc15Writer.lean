/-
C13, BC1–BC5 encoder core: the block writers are right inverses of the proved decoders.
`EndPoints::with_indexes` of bc1.rs / bc4.rs and `concat_blocks` of bc.rs put every field where `BcSpec` (= `Bc`, C03)
reads it; the endpoint order the constructors establish selects the palette the encoder built.
-/
import DdsModel.Proofs.EncBc15Index
import DdsModel.Proofs.Enc13
namespace Dds.Enc15
open Dds Dds.Bc Dds.Enc13
open Dds.BcSpec (leWord)

/-! ### bytes of a list as a block -/

theorem blkOf_mid (pre l post : List Nat) (i : Nat) (hi : i < l.length) :
    blkOf (pre ++ l ++ post) (pre.length + i) = l.getD i 0 := by
  unfold blkOf
  simp only [List.getD_eq_getElem?_getD]
  rw [List.append_assoc, List.getElem?_append_right (by omega), Nat.add_sub_cancel_left, List.getElem?_append_left hi]

theorem getD_lt256 (l : List Nat) (h : ∀ x ∈ l, x < 256) (i : Nat) : l.getD i 0 < 256 := by
  rw [List.getD_eq_getElem?_getD]
  cases hi : l[i]? with
  | none => decide
  | some v => exact h v (List.mem_of_getElem? hi)

theorem blkOf_lt (l : List Nat) (h : ∀ x ∈ l, x < 256) : ∀ i, blkOf l i < 256 := fun i => getD_lt256 l h i

theorem withIndexes_lt (e : C565 × C565) (idx : Nat) (h0 : e.1.toU16 < 65536) (h1 : e.2.toU16 < 65536) :
    ∀ x ∈ withIndexes e idx, x < 256 := by
  intro x hx
  simp only [withIndexes, List.mem_cons, List.not_mem_nil, or_false] at hx
  rcases hx with h | h | h | h | h | h | h | h <;> subst h <;> omega

theorem withIndexes4_lt (c0 c1 data : Nat) (h0 : c0 < 256) (h1 : c1 < 256) : ∀ x ∈ withIndexes4 c0 c1 data, x < 256 := by
  intro x hx
  simp only [withIndexes4, List.mem_cons, List.not_mem_nil, or_false] at hx
  rcases hx with h | h | h | h | h | h | h | h <;> subst h <;> omega

theorem withIndexes_length (e : C565 × C565) (idx : Nat) : (withIndexes e idx).length = 8 := rfl
theorem withIndexes4_length (c0 c1 data : Nat) : (withIndexes4 c0 c1 data).length = 8 := rfl

theorem mem_append3 {pre l post : List Nat} (hp : ∀ x ∈ pre, x < 256) (hl : ∀ x ∈ l, x < 256) (hq : ∀ x ∈ post, x < 256) :
    ∀ x ∈ pre ++ l ++ post, x < 256 := by
  intro x hx
  simp only [List.mem_append] at hx
  rcases hx with (h | h) | h
  · exact hp x h
  · exact hl x h
  · exact hq x h

/-! ### the colour block: `EndPoints::with_indexes` (bc1.rs) against `BcSpec.colorPx` -/

/-- the eight bytes of a written colour block, wherever it sits -/
theorem colour_bytes (pre post : List Nat) (e : C565 × C565) (idx : Nat) :
    let B := blkOf (pre ++ withIndexes e idx ++ post)
    B pre.length = e.1.toU16 % 256 ∧ B (pre.length + 1) = e.1.toU16 / 256 ∧ B (pre.length + 2) = e.2.toU16 % 256 ∧
    B (pre.length + 3) = e.2.toU16 / 256 ∧ B (pre.length + 4) = idx % 256 ∧ B (pre.length + 5) = idx / 256 % 256 ∧
    B (pre.length + 6) = idx / 65536 % 256 ∧ B (pre.length + 7) = idx / 16777216 % 256 := by
  have b (i : Nat) (h : i < 8) := blkOf_mid pre (withIndexes e idx) post i (by rw [withIndexes_length]; exact h)
  exact ⟨b 0 (by decide), b 1 (by decide), b 2 (by decide), b 3 (by decide), b 4 (by decide), b 5 (by decide),
    b 6 (by decide), b 7 (by decide)⟩

/-- the eight bytes of a written BC4-type block, wherever it sits -/
theorem bc4_bytes (pre post : List Nat) (c0 c1 data : Nat) :
    let B := blkOf (pre ++ withIndexes4 c0 c1 data ++ post)
    B pre.length = c0 ∧ B (pre.length + 1) = c1 ∧ B (pre.length + 2) = data % 256 ∧
    B (pre.length + 3) = data / 256 % 256 ∧ B (pre.length + 4) = data / 65536 % 256 ∧
    B (pre.length + 5) = data / 16777216 % 256 ∧ B (pre.length + 6) = data / 4294967296 % 256 ∧
    B (pre.length + 7) = data / 1099511627776 % 256 := by
  have b (i : Nat) (h : i < 8) := blkOf_mid pre (withIndexes4 c0 c1 data) post i (by rw [withIndexes4_length]; exact h)
  exact ⟨b 0 (by decide), b 1 (by decide), b 2 (by decide), b 3 (by decide), b 4 (by decide), b 5 (by decide),
    b 6 (by decide), b 7 (by decide)⟩

/-- the three words of a written colour block, wherever it sits in the block -/
theorem colour_words (pre post : List Nat) (e : C565 × C565) (idx : Nat) (h0 : e.1.toU16 < 65536) (h1 : e.2.toU16 < 65536)
    (hi : idx < 2 ^ 32) :
    leWord (blkOf (pre ++ withIndexes e idx ++ post)) pre.length 2 = e.1.toU16 ∧
    leWord (blkOf (pre ++ withIndexes e idx ++ post)) (pre.length + 2) 2 = e.2.toU16 ∧
    leWord (blkOf (pre ++ withIndexes e idx ++ post)) (pre.length + 4) 4 = idx := by
  obtain ⟨b0, b1, b2, b3, b4, b5, b6, b7⟩ := colour_bytes pre post e idx
  refine ⟨?_, ?_, ?_⟩
  · simp only [leWord, b0, b1]; omega
  · simp only [leWord, Nat.add_assoc, b2, b3]; omega
  · simp only [leWord, Nat.add_assoc, b4, b5, b6, b7]
    have : idx < 4294967296 := hi
    omega

/-- the specification decoder on a written colour block returns, per channel, entry `idx / 4^p % 4` of the palette of
the written pair in the mode the pair's order selects (`bc1 = false`: always four colours) -/
theorem colorPx_written (bc1 : Bool) (pre post : List Nat) (e : C565 × C565) (idx : Nat) (v0 : e.1.Valid) (v1 : e.2.Valid)
    (hi : idx < 2 ^ 32) (p : Nat) :
    BcSpec.colorPx bc1 (blkOf (pre ++ withIndexes e idx ++ post)) pre.length p =
      (let four := BcSpec.fourMode bc1 e.1.toU16 e.2.toU16
       let k := idx / 4 ^ p % 4
       (BcSpec.chan8 four k e.1.r e.2.r 31, BcSpec.chan8 four k e.1.g e.2.g 63, BcSpec.chan8 four k e.1.b e.2.b 31,
        if !four && k == 3 then 0 else 255)) := by
  have w := colour_words pre post e idx (toU16_lt _ v0) (toU16_lt _ v1) hi
  unfold BcSpec.colorPx
  simp only [w.1, w.2.1, w.2.2]
  have e0 := toU16_eq _ v0
  have e1 := toU16_eq _ v1
  obtain ⟨r0, g0, b0⟩ := v0
  obtain ⟨r1, g1, b1⟩ := v1
  have a1 : e.1.toU16 / 2048 = e.1.r := by omega
  have a2 : e.1.toU16 / 32 % 64 = e.1.g := by omega
  have a3 : e.1.toU16 % 32 = e.1.b := by omega
  have a4 : e.2.toU16 / 2048 = e.2.r := by omega
  have a5 : e.2.toU16 / 32 % 64 = e.2.g := by omega
  have a6 : e.2.toU16 % 32 = e.2.b := by omega
  rw [a1, a2, a3, a4, a5, a6]

/-- `le32` of a written colour block (for `Portable`'s `colourIndex`) -/
theorem colourIndex_written (pre post : List Nat) (e : C565 × C565) (idx : Nat) (hi : idx < 2 ^ 32) (p : Nat) :
    colourIndex (blkOf (pre ++ withIndexes e idx ++ post)) pre.length p = idxGet 2 idx p := by
  obtain ⟨_, _, _, _, b4, b5, b6, b7⟩ := colour_bytes pre post e idx
  have hle : le32 (blkOf (pre ++ withIndexes e idx ++ post)) (pre.length + 4) = idx := by
    simp only [le32, Nat.add_assoc, b4, b5, b6, b7]
    have : idx < 4294967296 := hi
    omega
  unfold colourIndex idxGet
  rw [hle, Nat.mul_comm p 2]
  have h3 : (2 : Nat) ^ 2 - 1 = 3 := rfl
  rw [h3]
  have : idx >>> (2 * p) &&& 3 < 256 := by
    have := Nat.and_le_right (n := idx >>> (2 * p)) (m := 3)
    omega
  exact (Nat.mod_eq_of_lt this).symm

theorem le16_written (pre post : List Nat) (e : C565 × C565) (idx : Nat) :
    le16 (blkOf (pre ++ withIndexes e idx ++ post)) pre.length = e.1.toU16 ∧
    le16 (blkOf (pre ++ withIndexes e idx ++ post)) (pre.length + 2) = e.2.toU16 := by
  obtain ⟨b0, b1, b2, b3, _, _, _, _⟩ := colour_bytes pre post e idx
  constructor
  · simp only [le16, b0, b1]; omega
  · simp only [le16, Nat.add_assoc, b2, b3]; omega

/-! ### the index list of `block_closest` / `block_dither` (bc1.rs) -/

/-- no assertion fires and the list holds `indexAt` at every pixel, provided `closest` returns `< 4` and a palette
without transparent entry (P4) only sees opaque maps (`compress_p4` passes `AlphaMap::ALL_OPAQUE`) -/
theorem blockIndexes_spec (mode : PaletteMode) (alphaMap : Nat) (sel : Nat → Nat)
    (hs : ∀ i, i < 16 → isOpaque alphaMap i = true → sel i < 4)
    (hm : mode = .p4 → ∀ i, i < 16 → isOpaque alphaMap i = true) :
    ∃ idx, blockIndexes mode alphaMap sel = some idx ∧ idx < 2 ^ 32 ∧
      ∀ p, p < 16 → idxGet 2 idx p = indexAt alphaMap sel p := by
  let v : Nat → Nat := fun i => if i < 16 then indexAt alphaMap sel i else 0
  have hv : ∀ j, v j < 2 ^ 2 := by
    intro j
    show (if j < 16 then indexAt alphaMap sel j else 0) < 4
    by_cases hj : j < 16
    · rw [if_pos hj]; unfold indexAt
      by_cases ho : isOpaque alphaMap j = true
      · rw [if_pos ho]; exact hs j hj ho
      · rw [if_neg ho]; decide
    · rw [if_neg hj]; decide
  have hf : ∀ i, i < 16 → (if isOpaque alphaMap i then some (sel i) else transparentIndex mode) = some (v i) := by
    intro i hi
    show _ = some (if i < 16 then indexAt alphaMap sel i else 0)
    rw [if_pos hi]; unfold indexAt
    by_cases ho : isOpaque alphaMap i = true
    · rw [if_pos ho, if_pos ho]
    · rw [if_neg ho, if_neg ho]
      unfold transparentIndex
      cases mode with
      | p4 => exact absurd (hm rfl i hi) ho
      | p3 => rfl
  have h := idxFill_spec 2 U32 (by decide) (by decide) v hv _ hf
  refine ⟨packed 2 v 16, h.1, h.2.1, fun p hp => ?_⟩
  rw [h.2.2 p hp]
  show (if p < 16 then indexAt alphaMap sel p else 0) = _
  rw [if_pos hp]

/-! ### BC4-type blocks: `EndPoints::with_indexes` (bc4.rs) against `BcSpec.bc4uVal` / `bc4sVal` -/

theorem bc4_words (pre post : List Nat) (c0 c1 data : Nat) (hd : data < 2 ^ 48) :
    blkOf (pre ++ withIndexes4 c0 c1 data ++ post) pre.length = c0 ∧
    blkOf (pre ++ withIndexes4 c0 c1 data ++ post) (pre.length + 1) = c1 ∧
    leWord (blkOf (pre ++ withIndexes4 c0 c1 data ++ post)) (pre.length + 2) 6 = data := by
  obtain ⟨b0, b1, b2, b3, b4, b5, b6, b7⟩ := bc4_bytes pre post c0 c1 data
  refine ⟨b0, b1, ?_⟩
  simp only [leWord, Nat.add_assoc, b2, b3, b4, b5, b6, b7]
  have : data < 281474976710656 := hd
  omega

theorem bc4uVal_written (pre post : List Nat) (c0 c1 data : Nat) (hd : data < 2 ^ 48) (p : Nat) :
    BcSpec.bc4uVal (blkOf (pre ++ withIndexes4 c0 c1 data ++ post)) pre.length p =
      BcSpec.bc4Entry (decide (c0 > c1)) (data / 8 ^ p % 8) c0 c1 255 := by
  have w := bc4_words pre post c0 c1 data hd
  unfold BcSpec.bc4uVal
  rw [w.1, w.2.1, w.2.2]

theorem bc4sVal_written (pre post : List Nat) (c0 c1 data : Nat) (hd : data < 2 ^ 48) (p : Nat) :
    BcSpec.bc4sVal (blkOf (pre ++ withIndexes4 c0 c1 data ++ post)) pre.length p =
      BcSpec.bc4Entry (decide (BcSpec.sraw c0 > BcSpec.sraw c1)) (data / 8 ^ p % 8) (BcSpec.snormU c0) (BcSpec.snormU c1) 254 := by
  have w := bc4_words pre post c0 c1 data hd
  unfold BcSpec.bc4sVal
  rw [w.1, w.2.1, w.2.2]

/-! ### `from_norm` -/

theorem fromNorm_eq (n : Nat) (h : n ≤ 254) : fromNorm n = (n + 129) % 256 := rfl

theorem fromNorm_facts (n : Nat) (h : n ≤ 254) :
    fromNorm n < 256 ∧ fromNorm n ≠ 128 ∧ BcSpec.snormU (fromNorm n) = n ∧ BcSpec.sraw (fromNorm n) = (n : Int) - 127 := by
  have e : fromNorm n = (n + 129) % 256 := rfl
  refine ⟨by omega, by omega, ?_, ?_⟩
  · unfold BcSpec.snormU BcSpec.sraw; rw [e]
    by_cases h1 : n < 127
    · have : (n + 129) % 256 = n + 129 := by omega
      rw [this]; simp only [show ¬ (n + 129 < 128) by omega, if_false]
      split <;> omega
    · have : (n + 129) % 256 = n - 127 := by omega
      rw [this]; simp only [show n - 127 < 128 by omega, if_true]
      split <;> omega
  · unfold BcSpec.sraw; rw [e]
    by_cases h1 : n < 127
    · have : (n + 129) % 256 = n + 129 := by omega
      rw [this]; simp only [show ¬ (n + 129 < 128) by omega, if_false]; omega
    · have : (n + 129) % 256 = n - 127 := by omega
      rw [this]; simp only [show n - 127 < 128 by omega, if_true]; omega

end Dds.Enc15
