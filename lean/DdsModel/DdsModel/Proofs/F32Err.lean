/-
Rounding-error bounds for the software binary32 of `ConvF32.lean` — the "standard model of floating-point
arithmetic", proved for the bit-level operators (used by C04 for the YUV decoders, whose domains of 2^24 … 2^48
triples cannot be enumerated).

Contents
* `rne_err`: round-to-nearest-even of `m / 2^k` is within half a unit of `m / 2^k`;
* `rpU_val`: the value of `rpU m B` (= `roundPack false m (B − 1000)`, `Proofs/F32Mono.lean`) in units of 2^-1000 is
  within half a quantum `2^q`, `q = max (⌊log₂ m⌋ + B − 23) 851`, of `m·2^B`, and EXACT when `q ≤ B`;
  `rpU_err_ulp` (absolute form: `m·2^B < 2^T` ⇒ error ≤ `2^(T−25)`, `875 ≤ T`, i.e. half an ulp of the binade below
  `2^(T−1000)`, never below the subnormal half-quantum 2^-150), `rpU_err_rel` (relative form: a result in the normal
  range has error ≤ `2^-24 · m·2^B`), `rpU_exact` (a value `m'·2^B'` with `m' < 2^24`, `B' ≥ 851` is not rounded);
* `rpU_sticky`: an odd significand with ≥ 26 bits is rounded at least one unit short of half a quantum (used for the
  sticky bit of `roundF32`).
Continued in `F32ErrOps.lean` (finite patterns `FinP`, their integer value `ival`, `toRat x = ival x / 2^149`; the
operators on finite operands of both signs: `fmul_ulp`, `fadd_ulp`, `fsub_ulp`, `fmul_rel`, `fadd_rel`, `fsub_rel`,
`fadd_exact`, `fsub_exact`, `ofNat_exact`; `fclamp01`, `toNatSat_floor`) and `F32ErrRound.lean` (`roundF32_rel`,
`roundF32_ulp` for the specification function `roundF32 : Rat → Nat`).

Core only (no Mathlib: the lake project has no `require`).
-/
import DdsModel.Proofs.F32ThrDev
namespace Dds.F32Err
open Dds Dds.CF32 Dds.ConvFast Dds.F32Mono Dds.F32Thr

/-! ### `rne`: within half a unit -/

theorem rne_err (m k : Nat) (hk : 1 ≤ k) :
    2 * (rne m k * 2 ^ k) ≤ 2 * m + 2 ^ k ∧ 2 * m ≤ 2 * (rne m k * 2 ^ k) + 2 ^ k := by
  rw [rne_def]
  have e := Nat.div_add_mod m (2 ^ k)
  have r := Nat.mod_lt m (two_pow_pos k)
  have hp : 2 ^ k = 2 * 2 ^ (k - 1) := by
    rw [← Nat.pow_succ']; congr 1; omega
  rw [Nat.mul_comm] at e
  generalize m / 2 ^ k = h at *
  generalize m % 2 ^ k = rr at *
  split
  · rw [Nat.add_mul, Nat.one_mul]
    generalize h * 2 ^ k = X at *
    generalize 2 ^ (k - 1) = Q at *
    generalize 2 ^ k = P at *
    omega
  · generalize h * 2 ^ k = X at *
    generalize 2 ^ (k - 1) = Q at *
    generalize 2 ^ k = P at *
    omega

/-! ### the value of a packed pattern -/

theorem pval_pack (q r : Nat) (hq : 851 ≤ q) (hr : r ≤ 2 ^ 24) (hn : q = 851 ∨ 2 ^ 23 ≤ r) :
    pval ((q - 851) * 2 ^ 23 + r) = r * 2 ^ (q - 851) := by
  obtain ⟨j, rfl⟩ : ∃ j, q = 851 + j := ⟨q - 851, by omega⟩
  have ej : 851 + j - 851 = j := by omega
  rw [ej]
  have e23 : (2 : Nat) ^ 23 = 8388608 := by decide
  have e24 : (2 : Nat) ^ 24 = 16777216 := by decide
  rw [e23] at hn ⊢
  rw [e24] at hr
  by_cases hs : j * 8388608 + r < 8388608
  · rw [pval_small _ hs]
    have : j = 0 := by omega
    subst this
    simp
  · rw [pval_big _ hs]
    by_cases h24 : r = 16777216
    · subst h24
      have d : (j * 8388608 + 16777216) / 8388608 = j + 2 := by omega
      have md : (j * 8388608 + 16777216) % 8388608 = 0 := by omega
      rw [d, md]
      have : j + 2 - 1 = j + 1 := by omega
      rw [this, Nat.pow_succ]
      omega
    · have hr2 : 8388608 ≤ r := by omega
      have d : (j * 8388608 + r) / 8388608 = j + 1 := by omega
      have md : (j * 8388608 + r) % 8388608 = r - 8388608 := by omega
      rw [d, md]
      have : j + 1 - 1 = j := by omega
      rw [this]
      have : r - 8388608 + 8388608 = r := by omega
      rw [this]

theorem mul_pow_cancel (m a b : Nat) (h : b ≤ a) : m * 2 ^ (a - b) * 2 ^ b = m * 2 ^ a := by
  rw [Nat.mul_assoc, ← Nat.pow_add, Nat.sub_add_cancel h]

theorem log2_add_lt {m B T : Nat} (hm : m ≠ 0) (h : m * 2 ^ B < 2 ^ T) : Nat.log2 m + B < T := by
  have lo := Nat.log2_self_le hm
  have : 2 ^ (Nat.log2 m + B) ≤ m * 2 ^ B := by
    rw [Nat.pow_add]; exact Nat.mul_le_mul_right _ lo
  exact (Nat.pow_lt_pow_iff_right (by decide : 1 < 2)).mp (Nat.lt_of_le_of_lt this h)

/-- the quantum (unit in the last place) of the result of rounding `m·2^(B−1000)`, biased by 1000 -/
def quant (m B : Nat) : Nat := max (Nat.log2 m + B - 23) 851

/-- THE VALUE OF A ROUNDED RESULT: no overflow below 2^127; in units of 2^-1000 the result `pval · 2^851` is within
half a quantum of the exact `m·2^B`, and equal to it when the quantum divides it trivially (`quant ≤ B`) -/
theorem rpU_val (m B : Nat) (hm : m ≠ 0) (hlt : m * 2 ^ B < 2 ^ 1127) :
    rpU m B < 0x7F800000 ∧
    (quant m B ≤ B → pval (rpU m B) * 2 ^ 851 = m * 2 ^ B) ∧
    2 * (pval (rpU m B) * 2 ^ 851) ≤ 2 * (m * 2 ^ B) + 2 ^ quant m B ∧
    2 * (m * 2 ^ B) ≤ 2 * (pval (rpU m B) * 2 ^ 851) + 2 ^ quant m B ∧
    ∃ r, pval (rpU m B) * 2 ^ 851 = r * 2 ^ quant m B := by
  have hLB := log2_add_lt hm hlt
  have lo := Nat.log2_self_le hm
  have hi := @Nat.lt_log2_self m
  unfold quant rpU
  rw [if_neg hm]
  generalize Nat.log2 m = L at *
  generalize hq : max (L + B - 23) 851 = q
  have hq851 : 851 ≤ q := by omega
  have hq1103 : q ≤ 1103 := by omega
  -- the significand
  have a1 : (if q ≤ B then m * 2 ^ (B - q) else rne m (q - B)) ≤ 2 ^ 24 := by
    split
    · rename_i hc
      have : m * 2 ^ (B - q) < 2 ^ (L + 1) * 2 ^ (B - q) := (Nat.mul_lt_mul_right (two_pow_pos _)).mpr hi
      rw [← Nat.pow_add] at this
      have : 2 ^ (L + 1 + (B - q)) ≤ 2 ^ 24 := pow_mono (by omega)
      omega
    · rename_i hc
      apply rne_le_of_le
      rw [← Nat.pow_add]
      have : 2 ^ (L + 1) ≤ 2 ^ (24 + (q - B)) := pow_mono (by omega)
      omega
  have a2 : q = 851 ∨ 2 ^ 23 ≤ (if q ≤ B then m * 2 ^ (B - q) else rne m (q - B)) := by
    by_cases h851 : q = 851
    · exact Or.inl h851
    · refine Or.inr ?_
      have hqe : q = L + B - 23 ∧ 23 ≤ L + B := by omega
      split
      · rename_i hc
        have : 2 ^ L * 2 ^ (B - q) ≤ m * 2 ^ (B - q) := Nat.mul_le_mul_right _ lo
        rw [← Nat.pow_add] at this
        have e : L + (B - q) = 23 := by omega
        rw [e] at this
        exact this
      · rename_i hc
        apply rne_ge_of_le
        rw [← Nat.pow_add]
        have e : 23 + (q - B) = L := by omega
        rw [e]; exact lo
  clear hlt
  have hv : pval ((q - 851) * 2 ^ 23 + (if q ≤ B then m * 2 ^ (B - q) else rne m (q - B))) * 2 ^ 851 =
      (if q ≤ B then m * 2 ^ (B - q) else rne m (q - B)) * 2 ^ q := by
    rw [pval_pack q _ hq851 a1 a2]
    exact mul_pow_cancel _ q 851 hq851
  have hfin : (q - 851) * 2 ^ 23 + (if q ≤ B then m * 2 ^ (B - q) else rne m (q - B)) < 0x7F800000 := by
    have : (q - 851) * 2 ^ 23 ≤ 252 * 2 ^ 23 := Nat.mul_le_mul_right _ (by omega)
    have e23 : (2 : Nat) ^ 23 = 8388608 := by decide
    have e24 : (2 : Nat) ^ 24 = 16777216 := by decide
    rw [e23] at this
    rw [e24] at a1
    rw [e23]
    omega
  rw [Nat.min_eq_right (Nat.le_of_lt hfin), hv]
  clear hv
  refine ⟨hfin, ?_, ?_, ?_, ⟨_, rfl⟩⟩
  · intro hc
    rw [if_pos hc]
    exact mul_pow_cancel _ B q hc
  all_goals by_cases hc : q ≤ B
  · rw [if_pos hc, mul_pow_cancel _ B q hc]
    exact Nat.le_add_right _ _
  · rw [if_neg hc]
    obtain ⟨e1, e2⟩ := rne_err m (q - B) (by omega)
    have hs : 2 ^ q = 2 ^ (q - B) * 2 ^ B := by
      rw [← Nat.pow_add, Nat.sub_add_cancel (by omega)]
    rw [hs, ← Nat.mul_assoc (rne m (q - B))]
    have f1 := Nat.mul_le_mul_right (2 ^ B) e1
    rw [Nat.add_mul] at f1
    rw [Nat.mul_assoc 2 (rne m (q - B) * 2 ^ (q - B)) (2 ^ B)] at f1
    rw [Nat.mul_assoc 2 m (2 ^ B)] at f1
    exact f1
  · rw [if_pos hc, mul_pow_cancel _ B q hc]
    exact Nat.le_add_right _ _
  · rw [if_neg hc]
    obtain ⟨e1, e2⟩ := rne_err m (q - B) (by omega)
    have hs : 2 ^ q = 2 ^ (q - B) * 2 ^ B := by
      rw [← Nat.pow_add, Nat.sub_add_cancel (by omega)]
    rw [hs, ← Nat.mul_assoc (rne m (q - B))]
    have f2 := Nat.mul_le_mul_right (2 ^ B) e2
    rw [Nat.add_mul] at f2
    rw [Nat.mul_assoc 2 (rne m (q - B) * 2 ^ (q - B)) (2 ^ B)] at f2
    rw [Nat.mul_assoc 2 m (2 ^ B)] at f2
    exact f2

/-- STICKY BIT: for an ODD significand `m ≥ 2^25` (two or more bits below the rounding position, the last one set) the
result is at most half a quantum MINUS one unit `2^B` away from `m·2^B`; hence every exact value strictly within one
unit of `m·2^B` is rounded to the same result, with an error of at most half a quantum (`roundF32`) -/
theorem rpU_sticky (m B : Nat) (hodd : m % 2 = 1) (hbig : 2 ^ 25 ≤ m) (hlt : m * 2 ^ B < 2 ^ 1127) :
    2 * (pval (rpU m B) * 2 ^ 851) + 2 * 2 ^ B ≤ 2 * (m * 2 ^ B) + 2 ^ quant m B ∧
    2 * (m * 2 ^ B) + 2 * 2 ^ B ≤ 2 * (pval (rpU m B) * 2 ^ 851) + 2 ^ quant m B := by
  have hm : m ≠ 0 := by omega
  obtain ⟨_, _, h1, h2, r, hr⟩ := rpU_val m B hm hlt
  have hL : 25 ≤ Nat.log2 m := (Nat.le_log2 hm).mpr hbig
  have hq : B + 2 ≤ quant m B := by unfold quant; omega
  clear hlt hbig
  rw [hr] at h1 h2 ⊢
  obtain ⟨j, hj⟩ : ∃ j, quant m B = B + 2 + j := ⟨quant m B - (B + 2), by omega⟩
  have hs : 2 ^ quant m B = 4 * 2 ^ j * 2 ^ B := by
    rw [hj, Nat.pow_add, Nat.pow_add, Nat.mul_comm (2 ^ B), Nat.mul_assoc, Nat.mul_comm (2 ^ B), ← Nat.mul_assoc]
  rw [hs] at h1 h2 ⊢
  generalize 2 ^ j = p at *
  have hB := two_pow_pos B
  -- cancel 2^B
  have e1 : 2 * (r * (4 * p * 2 ^ B)) = 2 * (r * (4 * p)) * 2 ^ B := by
    rw [Nat.mul_assoc 2, Nat.mul_assoc r]
  have e2 : 2 * (m * 2 ^ B) = 2 * m * 2 ^ B := by rw [Nat.mul_assoc]
  rw [e1, e2, ← Nat.add_mul] at h1 h2
  have g1 := Nat.le_of_mul_le_mul_right h1 hB
  have g2 := Nat.le_of_mul_le_mul_right h2 hB
  have e3 : 2 * 2 ^ B = 2 * 2 ^ B := rfl
  rw [e1, e2, ← Nat.add_mul, ← Nat.add_mul, ← Nat.add_mul, ← Nat.add_mul]
  have k1 : 2 * (r * (4 * p)) + 2 ≤ 2 * m + 4 * p := by
    have : r * (4 * p) = 4 * (r * p) := by rw [← Nat.mul_assoc, Nat.mul_comm r 4, Nat.mul_assoc]
    rw [this] at g1 ⊢
    generalize r * p = X at *
    omega
  have k2 : 2 * m + 2 ≤ 2 * (r * (4 * p)) + 4 * p := by
    have : r * (4 * p) = 4 * (r * p) := by rw [← Nat.mul_assoc, Nat.mul_comm r 4, Nat.mul_assoc]
    rw [this] at g2 ⊢
    generalize r * p = X at *
    omega
  exact ⟨Nat.mul_le_mul_right _ k1, Nat.mul_le_mul_right _ k2⟩

theorem pval_zero_mul (P : Nat) : pval 0 * P = 0 := by
  rw [pval_small 0 (by decide), Nat.zero_mul]

/-- ABSOLUTE FORM ("half an ulp of the binade"): an exact value below `2^(T−1000)` (`T ≥ 875`, i.e. a bound
`≥ 2^-125`; `T ≤ 1127`: no overflow) is rounded with an error of at most `2^(T−1025)`.  Units of 2^-1000. -/
theorem rpU_err_ulp (m B T : Nat) (hT : 875 ≤ T) (hT2 : T ≤ 1127) (h : m * 2 ^ B < 2 ^ T) :
    rpU m B < 0x7F800000 ∧
    2 * (pval (rpU m B) * 2 ^ 851) ≤ 2 * (m * 2 ^ B) + 2 ^ (T - 24) ∧
    2 * (m * 2 ^ B) ≤ 2 * (pval (rpU m B) * 2 ^ 851) + 2 ^ (T - 24) := by
  by_cases hm : m = 0
  · subst hm
    rw [rpU_zero, pval_zero_mul, Nat.zero_mul]
    exact ⟨by decide, Nat.zero_le _, Nat.zero_le _⟩
  · have hlt : m * 2 ^ B < 2 ^ 1127 := Nat.lt_of_lt_of_le h (pow_mono (a := T) (b := 1127) hT2)
    obtain ⟨h0, _, h1, h2, _⟩ := rpU_val m B hm hlt
    have hLB := log2_add_lt hm h
    have hq : 2 ^ quant m B ≤ 2 ^ (T - 24) := pow_mono (by unfold quant; omega)
    clear h hlt
    generalize 2 ^ quant m B = Q at *
    generalize 2 ^ (T - 24) = Q' at *
    generalize pval (rpU m B) * 2 ^ 851 = V at *
    generalize m * 2 ^ B = X at *
    exact ⟨h0, by omega, by omega⟩

/-- RELATIVE FORM: an exact value in the normal range `[2^-126, 2^127)` is rounded with a relative error of at most
`2^-24`: `|result − exact| · 2^24 ≤ exact`.  Units of 2^-1000. -/
theorem rpU_err_rel (m B : Nat) (hlt : m * 2 ^ B < 2 ^ 1127) (hn : 2 ^ 874 ≤ m * 2 ^ B) :
    rpU m B < 0x7F800000 ∧
    2 ^ 24 * (pval (rpU m B) * 2 ^ 851) ≤ 2 ^ 24 * (m * 2 ^ B) + m * 2 ^ B ∧
    2 ^ 24 * (m * 2 ^ B) ≤ 2 ^ 24 * (pval (rpU m B) * 2 ^ 851) + m * 2 ^ B := by
  have hm : m ≠ 0 := by
    intro h0
    rw [h0, Nat.zero_mul] at hn
    have := two_pow_pos 874
    omega
  obtain ⟨h0, _, h1, h2, _⟩ := rpU_val m B hm hlt
  have lo := Nat.log2_self_le hm
  have hi := @Nat.lt_log2_self m
  have hL : 874 ≤ Nat.log2 m + B := by
    have : m * 2 ^ B < 2 ^ (Nat.log2 m + 1 + B) := by
      rw [Nat.pow_add (n := B)]; exact (Nat.mul_lt_mul_right (two_pow_pos B)).mpr hi
    have := (Nat.pow_lt_pow_iff_right (by decide : 1 < 2)).mp (Nat.lt_of_le_of_lt hn this)
    omega
  have hq : quant m B = Nat.log2 m + B - 23 := by unfold quant; omega
  have hQ : 2 ^ 23 * 2 ^ quant m B ≤ m * 2 ^ B := by
    rw [hq, ← Nat.pow_add]
    have e : 23 + (Nat.log2 m + B - 23) = Nat.log2 m + B := by omega
    rw [e, Nat.pow_add]
    exact Nat.mul_le_mul_right _ lo
  clear hlt hn lo hi
  have e24 : (2 : Nat) ^ 24 = 2 * 2 ^ 23 := by decide
  rw [e24]
  have f1 := Nat.mul_le_mul_left (2 ^ 23) h1
  have f2 := Nat.mul_le_mul_left (2 ^ 23) h2
  rw [Nat.mul_add] at f1 f2
  generalize 2 ^ quant m B = Q at *
  generalize pval (rpU m B) * 2 ^ 851 = V at *
  generalize m * 2 ^ B = X at *
  generalize hP : (2 : Nat) ^ 23 = P at *
  refine ⟨h0, ?_, ?_⟩
  · rw [Nat.mul_comm 2 P, Nat.mul_assoc, Nat.mul_assoc]; omega
  · rw [Nat.mul_comm 2 P, Nat.mul_assoc, Nat.mul_assoc]; omega

/-- EXACTNESS: a value that can be written `m'·2^(B'−1000)` with `m' < 2^24` and `B' ≥ 851` (a multiple of 2^-149) is
not rounded -/
theorem rpU_exact (m B m' B' : Nat) (h : m * 2 ^ B = m' * 2 ^ B') (hm' : m' < 2 ^ 24) (hB' : 851 ≤ B')
    (hlt : m' * 2 ^ B' < 2 ^ 1127) :
    rpU m B < 0x7F800000 ∧ pval (rpU m B) * 2 ^ 851 = m * 2 ^ B := by
  have e : rpU m B = rpU m' B' :=
    Nat.le_antisymm (rpU_mono (Nat.le_of_eq h)) (rpU_mono (Nat.le_of_eq h.symm))
  rw [e, h]
  by_cases hm : m' = 0
  · subst hm
    rw [rpU_zero, pval_zero_mul, Nat.zero_mul]
    exact ⟨by decide, rfl⟩
  · obtain ⟨h0, h1, _, _⟩ := rpU_val m' B' hm hlt
    refine ⟨h0, h1 ?_⟩
    have : Nat.log2 m' < 24 := (Nat.log2_lt hm).mpr hm'
    unfold quant; omega

end Dds.F32Err
