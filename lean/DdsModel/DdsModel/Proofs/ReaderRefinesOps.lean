/-
C01, reader ⊑ cursor: every call of the `Decoder` API satisfies `StepOK` (see `Proofs/ReaderRefines.lean`).
-/
import DdsModel.Proofs.ReaderRefines
namespace Dds.Reader
open Dds Dds.Stream Dds.C08

/-! ### `read_surface` -/

theorem readSurface_eq (k : Cfg) (s : RS) (w h : Nat) (c : Colour) :
    readSurface k s w h c =
      match s.iter.currentP with
      | none => (s, .panic)
      | some none => (s, .noMoreSurfaces)
      | some (some cur) =>
        if normSize w h ≠ (cur.w, cur.h) then (s, .unexpectedSurfaceSize)
        else finish s (decodeCall k c (.full (normSize w h).1 (normSize w h).2) s) := by
  unfold readSurface finish; rfl

theorem readSurface_sim {k : Cfg} (hk : k.Agrees) {base : Nat} {s : RS} {d : Dec} (h : Sim k base s d)
    (w hh : Nat) (c : Colour) :
    StepOK k base s d (planNeed (plan k.fam c (.full (normSize w hh).1 (normSize w hh).2)))
      (readSurface k s w hh c) (d.readSurface w hh) := by
  rw [readSurface_eq]
  unfold Dec.readSurface
  rw [h.iter]
  obtain ⟨r, hr, _⟩ := current_total d.iter h.inv
  rw [hr]
  cases r with
  | none => exact StepOK.rejected h rfl
  | some cur =>
    simp only
    by_cases h1 : normSize w hh ≠ (cur.w, cur.h)
    · rw [if_pos h1, if_pos h1]; exact StepOK.rejected h rfl
    · rw [if_neg h1, if_neg h1]
      have h1' : normSize w hh = (cur.w, cur.h) := Decidable.not_not.1 h1
      rw [h1']
      simp only
      rw [show d.layout.px = k.fam.px from by rw [h.layout]; exact hk.2.symm, likelyOverflow_eq]
      by_cases hc : checkLikelyOverflow k.fam cur.w cur.h = true
      · rw [hc]
        simp only [Bool.not_true, Bool.false_eq_true, if_false]
        obtain ⟨it', ha, _⟩ := consume d.iter h.inv hr
        rw [ha]
        simp only
        obtain ⟨ops, hplan⟩ := (C06.validation_accepts_iff hk.1 c (.full cur.w cur.h)).2
          ⟨(checkLikelyOverflow_iff hk.1 _ _).1 hc, trivial⟩
        exact decode_sim hk h hr c (.full cur.w cur.h) rfl hplan ha
      · have hc' : checkLikelyOverflow k.fam cur.w cur.h = false := by simpa using hc
        rw [hc']
        simp only [Bool.not_false, if_true]
        obtain ⟨_, _, _, _, _, _, hle, hlen⟩ := consume d.iter h.inv hr
        have hbig : I64MAX < total d.iter := by
          have h2 : ¬ k.fam.px.surfIdeal cur.w cur.h ≤ ISIZE_MAX := fun hcon =>
            hc ((checkLikelyOverflow_iff hk.1 _ _).2 hcon)
          rw [hk.2, ← h.px, ← hlen, ISIZE_MAX_eq] at h2
          omega
        exact decode_overflow h c _ _ (by simp only [plan, hc', if_true]) hbig

/-! ### `read_surface_rect` -/

theorem readRect_eq (k : Cfg) (s : RS) (ox oy w h : Nat) (c : Colour) :
    readRect k s ox oy w h c =
      match s.iter.currentP with
      | none => (s, .panic)
      | some none => (s, .noMoreSurfaces)
      | some (some cur) =>
        finish s (decodeCall k c (.rect cur.w cur.h ox oy (normSize w h).1 (normSize w h).2) s) := by
  unfold readRect finish; rfl

/-- `read_surface_rect` of the ideal decoder as a pair -/
def idealRect (d : Dec) (ox oy w h : Nat) : Dec × DecRes :=
  match d.iter.currentP with
  | none => (d, .panic)
  | some none => (d, .noMoreSurfaces)
  | some (some s) =>
    if likelyOverflow d.layout.px s.w s.h then (d, .memoryLimitExceeded)
    else if !containsRect s.w s.h ox oy (normSize w h).1 (normSize w h).2 then (d, .rectOutOfBounds)
    else
      match d.iter.advanceP with
      | none => (d, .panic)
      | some it => ({ d with iter := it, pos := d.pos + s.len }, .ok)

theorem idealRect_eq (d : Dec) (ox oy w h : Nat) :
    ((d.step (.readRect ox oy w h)).1, (d.step (.readRect ox oy w h)).2.1) = idealRect d ox oy w h := by
  unfold Dec.step idealRect
  cases d.iter.currentP with
  | none => rfl
  | some r =>
    cases r with
    | none => rfl
    | some s =>
      simp only
      split
      · rfl
      · split
        · rfl
        · cases d.iter.advanceP <;> rfl

theorem normSize_cases (w h : Nat) :
    normSize w h = (0, 0) ∨ (normSize w h = (w, h) ∧ w ≠ 0 ∧ h ≠ 0) := by
  unfold normSize
  by_cases he : w = 0 ∨ h = 0
  · rw [if_pos he]; exact Or.inl rfl
  · rw [if_neg he]; exact Or.inr ⟨rfl, by omega, by omega⟩

/-- `Size::contains_rect` on a normalised view size is the acceptance condition of `decode_rect` -/
theorem containsRect_iff (W H x y w h : Nat) :
    containsRect W H x y (normSize w h).1 (normSize w h).2 = true ↔
      (if (normSize w h).1 = 0 ∨ (normSize w h).2 = 0 then x ≤ W ∧ y ≤ H
       else x + (normSize w h).1 ≤ W ∧ y + (normSize w h).2 ≤ H) := by
  unfold containsRect
  rcases normSize_cases w h with hn | ⟨hn, hw, hh⟩
  · rw [hn]; simp
  · rw [hn]
    simp only
    rw [if_neg (by omega)]
    simp

theorem readRect_sim {k : Cfg} (hk : k.Agrees) {base : Nat} {s : RS} {d : Dec} (h : Sim k base s d)
    (ox oy w hh : Nat) (c : Colour) :
    StepOK k base s d (opNeed k s (.rect ox oy w hh c)) (readRect k s ox oy w hh c)
      (idealRect d ox oy w hh) := by
  rw [readRect_eq]
  unfold idealRect opNeed
  rw [h.iter]
  obtain ⟨r, hr, _⟩ := current_total d.iter h.inv
  rw [hr]
  cases r with
  | none => exact StepOK.rejected h rfl
  | some cur =>
    simp only
    rw [show d.layout.px = k.fam.px from by rw [h.layout]; exact hk.2.symm, likelyOverflow_eq]
    by_cases hc : checkLikelyOverflow k.fam cur.w cur.h = true
    · rw [hc]
      simp only [Bool.not_true, Bool.false_eq_true, if_false]
      by_cases hin : containsRect cur.w cur.h ox oy (normSize w hh).1 (normSize w hh).2 = true
      · rw [hin]
        simp only [Bool.not_true, Bool.false_eq_true, if_false]
        obtain ⟨it', ha, _⟩ := consume d.iter h.inv hr
        rw [ha]
        simp only
        obtain ⟨ops, hplan⟩ := (C06.validation_accepts_iff hk.1 c
            (.rect cur.w cur.h ox oy (normSize w hh).1 (normSize w hh).2)).2
          ⟨(checkLikelyOverflow_iff hk.1 _ _).1 hc, (containsRect_iff _ _ _ _ _ _).1 hin⟩
        exact decode_sim hk h hr c _ rfl hplan ha
      · have hin' : containsRect cur.w cur.h ox oy (normSize w hh).1 (normSize w hh).2 = false := by
          simpa using hin
        rw [hin']
        simp only [Bool.not_false, if_true]
        have hplan := plan_rect_outside (f := k.fam) c cur.w cur.h ox oy (normSize w hh).1 (normSize w hh).2 hc
          (fun hcon => hin ((containsRect_iff _ _ _ _ _ _).2 hcon))
        have hd : decodeCall k c (.rect cur.w cur.h ox oy (normSize w hh).1 (normSize w hh).2) s =
            (.rectOutOfBounds, s.pos) := by
          unfold decodeCall; rw [hplan]; rfl
        rw [hd, finish_err (by simp)]
        exact StepOK.rejected h rfl
    · have hc' : checkLikelyOverflow k.fam cur.w cur.h = false := by simpa using hc
      rw [hc']
      simp only [Bool.not_false, if_true]
      obtain ⟨_, _, _, _, _, _, hle, hlen⟩ := consume d.iter h.inv hr
      have hbig : I64MAX < total d.iter := by
        have h2 : ¬ k.fam.px.surfIdeal cur.w cur.h ≤ ISIZE_MAX := fun hcon =>
          hc ((checkLikelyOverflow_iff hk.1 _ _).2 hcon)
        rw [hk.2, ← h.px, ← hlen, ISIZE_MAX_eq] at h2
        omega
      exact decode_overflow h c _ _ (by simp only [plan, hc', if_true]) hbig

/-! ### the ideal side on its own -/

theorem static_readSurface (d : Dec) (v : IterInv d.iter) (w h : Nat) : Static d (d.readSurface w h) := by
  unfold Dec.readSurface
  obtain ⟨r, hr, _⟩ := current_total d.iter v
  rw [hr]
  cases r with
  | none => exact Static.refl v _
  | some cur =>
    simp only
    split
    · exact Static.refl v _
    · split
      · exact Static.refl v _
      · obtain ⟨it', ha, _⟩ := consume d.iter v hr
        rw [ha]
        exact Static.consume v hr ha _

theorem static_skipMipmaps (d : Dec) (v : IterInv d.iter) : Static d d.skipMipmaps := by
  unfold Dec.skipMipmaps
  rcases skipMips d.iter v with he | ⟨it', n, h0, hi, _, ht, _⟩
  · rw [he]; exact Static.refl v _
  · rw [h0]
    exact ⟨by show d.pos ≤ d.pos + (n : Int); omega, rfl, ht, hi⟩

/-! ### `skip_surface` -/

/-- `io_skip_exact` for any count: success moves by exactly `n`; failure means the stream cannot
deliver every byte up to `pos + n`, or `n` does not fit an `i64` -/
theorem skipExact_facts' (e : Env) (pos n : Nat) (hU : pos + n < U64) :
    ((skipExact e pos n).1 = true → (skipExact e pos n).2 = pos + n) ∧
    ((skipExact e pos n).1 = false → e.len < U64 → e.lim < pos + n ∨ I64MAX < n) := by
  by_cases hn : n ≤ I64MAX
  · obtain ⟨h1, h2⟩ := skipExact_facts e pos n hn hU
    exact ⟨h1, fun hf hl => Or.inl (h2 hf hl)⟩
  · have hs : skipExact e pos n = (false, pos) := by
      unfold skipExact
      have hm : n % U64 = n := Nat.mod_eq_of_lt (by omega)
      simp only [hm]
      rw [if_neg (by unfold I64MAX at hn; omega), if_pos (by omega)]
    rw [hs]
    exact ⟨(fun h => by cases h), fun _ _ => Or.inr (by omega)⟩

/-- `skip_surface` of the ideal decoder as a pair -/
def idealSkip (d : Dec) : Dec × DecRes :=
  match d.iter.currentP with
  | none => (d, .panic)
  | some none => (d, .noMoreSurfaces)
  | some (some s) =>
    match d.iter.advanceP with
    | none => (d, .panic)
    | some it => ({ d with iter := it, pos := d.pos + s.len }, .ok)

theorem idealSkip_eq (d : Dec) : ((d.step .skipSurface).1, (d.step .skipSurface).2.1) = idealSkip d := by
  unfold Dec.step idealSkip
  cases d.iter.currentP with
  | none => rfl
  | some r =>
    cases r with
    | none => rfl
    | some s =>
      simp only
      cases d.iter.advanceP <;> rfl

/-- moving the reader with `io_skip_exact` against the ideal "add `n`" -/
theorem skip_sim {k : Cfg} {base : Nat} {s : RS} {d : Dec} (h : Sim k base s d) (N : Nat)
    {it' : SurfIter} {n : Nat} (hi : IterInv it') (he : elapsed it' = elapsed d.iter + n)
    (ht : total it' = total d.iter) (hp : iterPx it' = iterPx d.iter)
    (hle : elapsed d.iter + n ≤ total d.iter) (a : RS × R)
    (hok : (skipExact k.env s.pos n).1 = true →
      a = ({ s with iter := it', pos := (skipExact k.env s.pos n).2 }, .ok))
    (hfail : (skipExact k.env s.pos n).1 = false → a.2 = .io ∧ a.1.limit = s.limit) :
    StepOK k base s d N a ({ d with iter := it', pos := d.pos + n }, .ok) := by
  obtain ⟨hpos, hU⟩ := h.pos_bound hle
  obtain ⟨f1, f2⟩ := skipExact_facts' k.env s.pos n hU
  have hst : Static d ({ d with iter := it', pos := d.pos + n }, DecRes.ok) :=
    ⟨by show d.pos ≤ d.pos + (n : Int); omega, rfl, ht, hi⟩
  by_cases hs : (skipExact k.env s.pos n).1 = true
  · rw [hok hs, f1 hs]
    exact ⟨fun _ _ => ⟨rfl, h.move hi he ht hp⟩, (fun hio => by cases hio), (fun hm => by cases hm), rfl, hst⟩
  · have hs' : (skipExact k.env s.pos n).1 = false := by simpa using hs
    obtain ⟨ha, hl⟩ := hfail hs'
    refine ⟨fun hne => absurd ha hne, ?_, (fun hm => by rw [ha] at hm; cases hm), hl, hst⟩
    intro _ hlen
    have h1 := h.pos
    rcases f2 hs' hlen with h' | h'
    · left
      show (k.env.lim : Int) < base + (d.pos + n)
      omega
    · right
      show (I64MAX : Int) < d.pos + n - d.pos
      omega

theorem skipSurface_sim {k : Cfg} {base : Nat} {s : RS} {d : Dec} (h : Sim k base s d) (N : Nat) :
    StepOK k base s d N (skipSurface k s) (idealSkip d) := by
  unfold skipSurface idealSkip
  rw [h.iter]
  obtain ⟨r, hr, _⟩ := current_total d.iter h.inv
  rw [hr]
  cases r with
  | none => exact StepOK.rejected h rfl
  | some cur =>
    simp only
    obtain ⟨it', ha, hi, he, ht, hp, hle, _⟩ := consume d.iter h.inv hr
    rw [ha]
    simp only
    apply skip_sim h N hi he ht hp hle
    · intro hs; rw [if_pos hs]
    · intro hs; rw [if_neg (by rw [hs]; simp)]; exact ⟨rfl, rfl⟩

/-! ### `skip_mipmaps` -/

theorem skipMipmaps_sim {k : Cfg} {base : Nat} {s : RS} {d : Dec} (h : Sim k base s d) (N : Nat) :
    StepOK k base s d N (skipMipmaps k s) d.skipMipmaps := by
  unfold skipMipmaps Dec.skipMipmaps
  rw [h.iter]
  rcases skipMips d.iter h.inv with he | ⟨it', n, h0, hi, he, ht, hp, hle⟩
  · rw [he]; exact StepOK.rejected h rfl
  · rw [h0]
    simp only
    apply skip_sim h N hi he ht hp hle
    · intro hs; rw [hs]; rfl
    · intro hs; rw [hs]; exact ⟨rfl, rfl⟩

/-! ### `read_cube_map` -/

/-- the face loop of the reader, written with `?`-sequencing -/
def cubeR (k : Cfg) (faces fw fh : Nat) (c : Colour) : List (Nat × Nat × Nat) → RS → RS × R
  | [], s => (s, .ok)
  | (bit, _, _) :: rest, s =>
    if !hasFace faces bit then cubeR k faces fw fh c rest s else
    match s.iter.currentP with
    | none => (s, .panic)
    | some none => (s, .noMoreSurfaces)
    | some (some cur) =>
      if (cur.w, cur.h) ≠ (fw, fh) then (s, .unexpectedSurfaceSize) else
      thenR (thenR (readSurface k s fw fh c) (skipMipmaps k)) (cubeR k faces fw fh c rest)

theorem cubeLoop_eq (k : Cfg) (faces fw fh : Nat) (c : Colour) :
    ∀ (l : List (Nat × Nat × Nat)) (s : RS), cubeLoop k faces fw fh c l s = cubeR k faces fw fh c l s := by
  intro l
  induction l with
  | nil => intro s; rfl
  | cons x rest ih =>
    intro s
    obtain ⟨bit, cx, cy⟩ := x
    unfold cubeLoop cubeR
    by_cases hfc : (!hasFace faces bit) = true
    · rw [if_pos hfc, if_pos hfc]; exact ih s
    · rw [if_neg hfc, if_neg hfc]
      cases s.iter.currentP with
      | none => rfl
      | some r =>
        cases r with
        | none => rfl
        | some cur =>
          simp only
          by_cases hs : (cur.w, cur.h) ≠ (fw, fh)
          · rw [if_pos hs, if_pos hs]
          · rw [if_neg hs, if_neg hs]
            generalize readSurface k s fw fh c = a
            obtain ⟨s1, r1⟩ := a
            cases r1 <;> simp only [thenR, reduceCtorEq, if_false, if_true]
            generalize skipMipmaps k s1 = b
            obtain ⟨s2, r2⟩ := b
            cases r2 <;> simp only [reduceCtorEq, if_false, if_true, ih]

/-- the face loop of the ideal decoder without the list of written cells -/
def cubeI (faces fw fh : Nat) : List (Nat × Nat × Nat) → Dec → Dec × DecRes
  | [], d => (d, .ok)
  | (bit, _, _) :: rest, d =>
    if !hasFace faces bit then cubeI faces fw fh rest d else
    match d.iter.currentP with
    | none => (d, .panic)
    | some none => (d, .noMoreSurfaces)
    | some (some s) =>
      if (s.w, s.h) ≠ (fw, fh) then (d, .unexpectedSurfaceSize) else
      thenI (thenI (d.readSurface fw fh) Dec.skipMipmaps) (cubeI faces fw fh rest)

theorem Dec.cubeLoop_eq (faces fw fh : Nat) :
    ∀ (l : List (Nat × Nat × Nat)) (d : Dec) (cells : List (Nat × Nat)),
      ((d.cubeLoop faces fw fh l cells).1, (d.cubeLoop faces fw fh l cells).2.1) = cubeI faces fw fh l d := by
  intro l
  induction l with
  | nil => intro d cells; rfl
  | cons x rest ih =>
    intro d cells
    obtain ⟨bit, cx, cy⟩ := x
    unfold Dec.cubeLoop cubeI
    by_cases hfc : (!hasFace faces bit) = true
    · rw [if_pos hfc, if_pos hfc]; exact ih d cells
    · rw [if_neg hfc, if_neg hfc]
      cases d.iter.currentP with
      | none => rfl
      | some r =>
        cases r with
        | none => rfl
        | some cur =>
          simp only
          by_cases hs : (cur.w, cur.h) ≠ (fw, fh)
          · rw [if_pos hs, if_pos hs]
          · rw [if_neg hs, if_neg hs]
            generalize d.readSurface fw fh = a
            obtain ⟨d1, r1⟩ := a
            cases r1 <;> simp only [thenI, reduceCtorEq, if_false, if_true]
            generalize d1.skipMipmaps = b
            obtain ⟨d2, r2⟩ := b
            cases r2 <;> simp only [reduceCtorEq, if_false, if_true, ih]

theorem static_cubeI (faces fw fh : Nat) : ∀ (l : List (Nat × Nat × Nat)) (d : Dec), IterInv d.iter →
    Static d (cubeI faces fw fh l d) := by
  intro l
  induction l with
  | nil => intro d v; exact Static.refl v _
  | cons x rest ih =>
    intro d v
    obtain ⟨bit, cx, cy⟩ := x
    unfold cubeI
    split
    · exact ih d v
    · obtain ⟨r, hr, _⟩ := current_total d.iter v
      rw [hr]
      cases r with
      | none => exact Static.refl v _
      | some cur =>
        simp only
        split
        · exact Static.refl v _
        · have h1 := static_readSurface d v fw fh
          have h2 := h1.thenI (static_skipMipmaps _ h1.inv)
          exact h2.thenI (ih _ h2.inv)

theorem cubeLoop_sim {k : Cfg} (hk : k.Agrees) (base faces fw fh : Nat) (c : Colour) :
    ∀ (l : List (Nat × Nat × Nat)) (s : RS) (d : Dec), Sim k base s d →
      StepOK k base s d (planNeed (plan k.fam c (.full (normSize fw fh).1 (normSize fw fh).2)))
        (cubeR k faces fw fh c l s) (cubeI faces fw fh l d) := by
  intro l
  induction l with
  | nil => intro s d h; exact StepOK.rejected h rfl
  | cons x rest ih =>
    intro s d h
    obtain ⟨bit, cx, cy⟩ := x
    unfold cubeR cubeI
    by_cases hfc : (!hasFace faces bit) = true
    · rw [if_pos hfc, if_pos hfc]; exact ih s d h
    · rw [if_neg hfc, if_neg hfc, h.iter]
      obtain ⟨r, hr, _⟩ := current_total d.iter h.inv
      rw [hr]
      cases r with
      | none => exact StepOK.rejected h rfl
      | some cur =>
        simp only
        by_cases hs : (cur.w, cur.h) ≠ (fw, fh)
        · rw [if_pos hs, if_pos hs]; exact StepOK.rejected h rfl
        · rw [if_neg hs, if_neg hs]
          have H1 := readSurface_sim hk h fw fh c
          have H2 := H1.bind (f := skipMipmaps k) (static_skipMipmaps _ H1.st.inv)
            (fun _ _ hs1 => skipMipmaps_sim hs1 _)
          exact H2.bind (static_cubeI faces fw fh rest _ H2.st.inv) (fun _ _ hs2 => ih _ _ hs2)

/-- `read_cube_map` of the ideal decoder as a pair -/
theorem readCubeMap_sim {k : Cfg} (hk : k.Agrees) {base : Nat} {s : RS} {d : Dec} (h : Sim k base s d)
    (w hh : Nat) (c : Colour) :
    StepOK k base s d (opNeed k s (.cube w hh c)) (readCubeMap k s w hh c)
      ((d.readCubeMap w hh).1, (d.readCubeMap w hh).2.1) := by
  unfold readCubeMap Dec.readCubeMap opNeed
  rw [h.layout]
  cases hL : k.layout with
  | texture t => exact StepOK.rejected h rfl
  | volume t => exact StepOK.rejected h rfl
  | textureArray a =>
    simp only
    cases a.kind with
    | textures => exact StepOK.rejected h rfl
    | cubeMaps =>
      simp only
      split
      · exact StepOK.rejected h rfl
      · rw [Dec.cubeLoop_eq, cubeLoop_eq]
        exact cubeLoop_sim hk base _ _ _ c _ s d h
    | partialCubeMap f =>
      simp only
      split
      · exact StepOK.rejected h rfl
      · rw [Dec.cubeLoop_eq, cubeLoop_eq]
        exact cubeLoop_sim hk base _ _ _ c _ s d h

/-! ### the rewinding calls (data section at most `i64::MAX` bytes: `DecInv.small`) -/

/-- `seek(SeekFrom::Current(-delta))` to a target inside the stream: success lands on the target;
failure means a hard error before the current position -/
theorem seekBack_facts (e : Env) (pos delta : Nat) (hd : delta ≤ pos)
    (hback : e.clampSeek = true → pos ≤ e.len) :
    ((seekBack e pos delta).1 = true → (seekBack e pos delta).2 = pos - delta) ∧
    ((seekBack e pos delta).1 = false → e.lim < pos) := by
  unfold seekBack
  rw [if_neg (by omega)]
  by_cases hsf : seekFails e (pos - delta) = true
  · rw [if_pos hsf]
    refine ⟨(fun h => by cases h), fun _ => ?_⟩
    unfold seekFails at hsf
    cases hf : e.fault with
    | none => rw [hf] at hsf; cases hsf
    | some f =>
      rw [hf] at hsf
      have h1 : f < pos - delta := by simpa using hsf
      have h2 := lim_le_fault hf
      omega
  · rw [if_neg hsf]
    refine ⟨fun _ => ?_, fun h => by cases h⟩
    unfold seekLand
    rw [if_neg]
    intro ⟨hc, hl⟩
    have := hback hc
    omega

/-- what a rewinding call and its ideal counterpart have to do with each other -/
structure BackOK (k : Cfg) (base : Nat) (s : RS) (d : Dec) (a : RS × R) (b : Dec × DecRes) : Prop where
  sim : a.2 ≠ .io → a.2 = ofDecRes b.2 ∧ Sim k base a.1 b.1
  /-- an I/O error: a hard reader error before the current position -/
  io : a.2 = .io → k.env.lim < s.pos
  mem : a.2 ≠ .memoryLimitExceeded
  back : b.1.pos ≤ d.pos

theorem rewindPrev_sim {k : Cfg} {base : Nat} {s : RS} {d : Dec} (h : Sim k base s d) (hinv : DecInv d)
    (hback : k.env.clampSeek = true → s.pos ≤ k.env.len) :
    BackOK k base s d (step k s .rewindPrev) (idealStep d .rewindPrev) := by
  unfold step idealStep toDecOp
  simp only
  unfold Dec.step
  rw [h.iter]
  obtain ⟨he, hle⟩ := elapsed_refines d.iter h.inv
  obtain ⟨it', hrw, hi, _, _, ht, _⟩ := rewind_refines d.iter h.inv
  obtain ⟨it2, hr2, hle2⟩ := rewind_elapsed_le d.iter h.inv
  rw [hrw] at hr2
  simp only [Option.some.injEq] at hr2
  subst hr2
  obtain ⟨he', _⟩ := elapsed_refines it' hi
  rw [he, hrw]
  simp only [he']
  have hsmall := hinv.small
  have hU : I64MAX < U64 := by decide
  rw [wSub_eq (by omega) hle2]
  have hnot : ¬ elapsed d.iter - elapsed it' > I64MAX := by omega
  rw [if_neg hnot, if_neg hnot]
  have hp := h.pos
  have hc := h.cpos
  obtain ⟨f1, f2⟩ := seekBack_facts k.env s.pos (elapsed d.iter - elapsed it') (by omega) hback
  by_cases hs : (seekBack k.env s.pos (elapsed d.iter - elapsed it')).1 = true
  · rw [if_pos hs, f1 hs]
    refine ⟨fun _ => ⟨rfl, ⟨rfl, ?_, h.layout, ?_, hi, ?_, ?_⟩⟩, (fun hio => by cases hio),
      (fun hm => by cases hm), ?_⟩
    · show ((s.pos - (elapsed d.iter - elapsed it') : Nat) : Int) =
        base + (d.pos - ((elapsed d.iter - elapsed it' : Nat) : Int))
      omega
    · show iterPx it' = _; rw [rewind_px d.iter h.inv hrw]; exact h.px
    · show d.pos - ((elapsed d.iter - elapsed it' : Nat) : Int) = (elapsed it' : Int)
      omega
    · show base + total it' < U64; rw [ht]; exact h.u64
    · show d.pos - ((elapsed d.iter - elapsed it' : Nat) : Int) ≤ d.pos
      omega
  · have hs' : (seekBack k.env s.pos (elapsed d.iter - elapsed it')).1 = false := by simpa using hs
    rw [if_neg hs]
    refine ⟨fun hne => absurd rfl hne, fun _ => f2 hs', (fun hm => by cases hm), ?_⟩
    show d.pos - ((elapsed d.iter - elapsed it' : Nat) : Int) ≤ d.pos
    omega

theorem rewindStart_sim {k : Cfg} {base : Nat} {s : RS} {d : Dec} (h : Sim k base s d) (hinv : DecInv d)
    (hback : k.env.clampSeek = true → s.pos ≤ k.env.len) :
    BackOK k base s d (step k s .rewindStart) (idealStep d .rewindStart) := by
  unfold step idealStep toDecOp
  simp only
  unfold Dec.step
  rw [h.iter]
  obtain ⟨he, hle⟩ := elapsed_refines d.iter h.inv
  rw [he]
  simp only
  have hsmall := hinv.small
  have hnot : ¬ elapsed d.iter > I64MAX := by omega
  rw [if_neg hnot, if_neg hnot]
  have hp := h.pos
  have hc := h.cpos
  obtain ⟨f1, f2⟩ := seekBack_facts k.env s.pos (elapsed d.iter) (by omega) hback
  by_cases hs : (seekBack k.env s.pos (elapsed d.iter)).1 = true
  · rw [if_pos hs, f1 hs]
    refine ⟨fun _ => ⟨rfl, ⟨?_, ?_, h.layout, ?_, hinv.fresh, ?_, ?_⟩⟩, (fun hio => by cases hio),
      (fun hm => by cases hm), ?_⟩
    · show SurfIter.new k.layout = SurfIter.new d.layout; rw [h.layout]
    · show ((s.pos - elapsed d.iter : Nat) : Int) = base + (d.pos - (elapsed d.iter : Int))
      omega
    · show iterPx (SurfIter.new d.layout) = _; rw [iterPx_new, h.layout]
    · show d.pos - (elapsed d.iter : Int) = (elapsed (SurfIter.new d.layout) : Int)
      rw [elapsed_new]; omega
    · show base + total (SurfIter.new d.layout) < U64; rw [hinv.total_eq]; exact h.u64
    · show d.pos - (elapsed d.iter : Int) ≤ d.pos
      omega
  · have hs' : (seekBack k.env s.pos (elapsed d.iter)).1 = false := by simpa using hs
    rw [if_neg hs]
    refine ⟨fun hne => absurd rfl hne, fun _ => f2 hs', (fun hm => by cases hm), ?_⟩
    show d.pos - (elapsed d.iter : Int) ≤ d.pos
    omega

/-! ### every forward call -/

/-- **every call of C01's list satisfies `StepOK`** (no hypothesis on the size of the data section) -/
theorem step_sim {k : Cfg} (hk : k.Agrees) {base : Nat} {s : RS} {d : Dec} (h : Sim k base s d) (op : Op)
    (hop : op.inC01 = true) (hset : ∀ l, op ≠ .setLimit l) :
    StepOK k base s d (opNeed k s op) (step k s op) (idealStep d op) := by
  cases op with
  | read w hh c => exact readSurface_sim hk h w hh c
  | rect ox oy w hh c =>
    show StepOK k base s d _ (readRect k s ox oy w hh c)
      ((d.step (.readRect ox oy w hh)).1, (d.step (.readRect ox oy w hh)).2.1)
    rw [idealRect_eq]; exact readRect_sim hk h ox oy w hh c
  | skipSurface =>
    show StepOK k base s d _ (skipSurface k s) ((d.step .skipSurface).1, (d.step .skipSurface).2.1)
    rw [idealSkip_eq]; exact skipSurface_sim h _
  | skipMipmaps => exact skipMipmaps_sim h _
  | cube w hh c => exact readCubeMap_sim hk h w hh c
  | setLimit l => exact absurd rfl (hset l)
  | rewindPrev => cases hop
  | rewindStart => cases hop

end Dds.Reader
