/- Helper lemmas about the data-flow model of the encoders, `EncRows.lean` (C14). -/
import DdsModel.EncRows
import DdsModel.Proofs.Split
import DdsModel.Proofs.EncLen
namespace Dds
namespace EncRows

variable {α β σ ρ : Type}

theorem flatMap_congr' {γ : Type} {l : List ρ} {f g : ρ → List γ} (h : ∀ x ∈ l, f x = g x) :
    l.flatMap f = l.flatMap g := by
  rw [List.flatMap_def, List.flatMap_def, List.map_congr_left h]

/-! ## chunks -/

theorem chunks_flatMap_flatMap {k : Nat} (hk : 0 < k) (r : ρ → List β) (l : List ρ) :
    (chunks k l).flatMap (fun g => g.flatMap r) = l.flatMap r := by
  have h := chunks_flatten hk l
  calc (chunks k l).flatMap (fun g => g.flatMap r)
      = ((chunks k l).flatMap (fun g => g)).flatMap r := by rw [List.flatMap_assoc]
    _ = l.flatMap r := by rw [h]

/-- a list whose length is below `k` is its own single chunk -/
theorem chunks_short {k : Nat} {l : List ρ} (hl : l ≠ []) (hk : l.length ≤ k) :
    chunks k l = [l] := by
  have hpos : 0 < l.length := List.length_pos_iff.mpr hl
  rw [chunks_cons (by omega) hl, List.take_of_length_le hk, List.drop_eq_nil_of_le hk, chunks_nil]

/-- every chunk of a list whose length is a multiple of `k` is full -/
theorem chunks_full {k : Nat} (hk : 0 < k) (m : Nat) (l : List ρ) (hl : l.length = m * k) :
    ∀ c ∈ chunks k l, c.length = k := by
  induction m generalizing l with
  | zero =>
    have : l = [] := List.eq_nil_of_length_eq_zero (by omega)
    subst this; simp [chunks_nil]
  | succ m ih =>
    rw [Nat.succ_mul] at hl
    have hne : l ≠ [] := by intro h; subst h; simp at hl; omega
    rw [chunks_cons hk hne]
    intro c hc
    rcases List.mem_cons.mp hc with h | h
    · subst h; rw [List.length_take]; omega
    · exact ih (l.drop k) (by rw [List.length_drop]; omega) c h

/-- the chunk lengths are those of `EncLen.chunkLens` (`slice.chunks(n)`) -/
theorem chunks_lengths {k : Nat} (hk : 0 < k) (l : List ρ) :
    ∀ fuel, l.length ≤ fuel → (chunks k l).map List.length = chunkLens k fuel l.length := by
  intro fuel
  induction fuel generalizing l with
  | zero =>
    intro h
    have : l = [] := List.eq_nil_of_length_eq_zero (by omega)
    subst this; simp [chunks_nil, chunkLens]
  | succ fuel ih =>
    intro h
    by_cases hne : l = []
    · subst hne; simp [chunks_nil, chunkLens]
    · have hpos : 0 < l.length := List.length_pos_iff.mpr hne
      rw [chunks_cons hk hne]
      unfold chunkLens
      rw [if_neg (by omega)]
      simp only [List.map_cons, List.length_take]
      have := ih (l.drop k) (by rw [List.length_drop]; omega)
      rw [this, List.length_drop]
      congr 2
      omega

/-- **fragments of a row-group-local encoder**: if `enc` is the concatenation of `eg` over the
chunks of `g` rows and every fragment but the last has a height that is a multiple of `g`, then
encoding the fragments one by one gives the encoding of the whole. -/
theorem fragments_of_groupLocal {g : Nat} (hg : 0 < g) (enc eg : List ρ → List β)
    (hloc : ∀ img, enc img = (chunks g img).flatMap eg) :
    ∀ frags : List (List ρ), (∀ f ∈ frags.dropLast, g ∣ f.length) →
      (frags.map enc).flatten = enc frags.flatten := by
  intro frags
  induction frags with
  | nil =>
    intro _
    simp only [List.map_nil, List.flatten_nil]
    rw [hloc []]; simp [chunks_nil]
  | cons f rest ih =>
    intro h
    cases rest with
    | nil => simp
    | cons f' rest' =>
      have hf : g ∣ f.length := h f (by simp [List.dropLast])
      have hrest : ∀ x ∈ (f' :: rest').dropLast, g ∣ x.length := by
        intro x hx
        exact h x (by simp only [List.dropLast_cons_cons]; exact List.mem_cons_of_mem _ hx)
      have ih' := ih hrest
      obtain ⟨m, hm⟩ := hf
      have e1 : (f :: f' :: rest').flatten = f ++ (f' :: rest').flatten := rfl
      have e2 : ((f :: f' :: rest').map enc).flatten =
          enc f ++ ((f' :: rest').map enc).flatten := rfl
      rw [e1, e2, ih']
      generalize (f' :: rest').flatten = tail
      rw [hloc f, hloc tail, hloc (f ++ tail)]
      rw [chunks_append hg m f _ (by rw [hm, Nat.mul_comm]), List.flatMap_append]

/-- the same with a row index: `enc y0 rows` may depend on the index `y0` of the first row, as long
as it is additive over concatenation and periodic in `y0` with period `P`; then the fragment heights
(all but the last) have to be multiples of `P`. -/
theorem fragments_of_periodic {P : Nat} (enc : Nat → List ρ → List β)
    (hnil : ∀ y, enc y [] = [])
    (happ : ∀ y a b, enc y (a ++ b) = enc y a ++ enc (y + a.length) b)
    (hper : ∀ y l, enc (y + P) l = enc y l) :
    ∀ frags : List (List ρ), (∀ f ∈ frags.dropLast, P ∣ f.length) →
      (frags.map (enc 0)).flatten = enc 0 frags.flatten := by
  have hmul : ∀ k y l, enc (y + k * P) l = enc y l := by
    intro k
    induction k with
    | zero => intro y l; simp
    | succ k ih => intro y l; rw [Nat.succ_mul, ← Nat.add_assoc, hper, ih]
  intro frags
  induction frags with
  | nil => intro _; simp [hnil]
  | cons f rest ih =>
    intro h
    cases rest with
    | nil => simp
    | cons f' rest' =>
      have hf : P ∣ f.length := h f (by simp [List.dropLast])
      have hrest : ∀ x ∈ (f' :: rest').dropLast, P ∣ x.length := by
        intro x hx
        exact h x (by simp only [List.dropLast_cons_cons]; exact List.mem_cons_of_mem _ hx)
      obtain ⟨m, hm⟩ := hf
      have e1 : (f :: f' :: rest').flatten = f ++ (f' :: rest').flatten := rfl
      have e2 : ((f :: f' :: rest').map (enc 0)).flatten =
          enc 0 f ++ ((f' :: rest').map (enc 0)).flatten := rfl
      rw [e1, e2, ih hrest]
      generalize (f' :: rest').flatten = tail
      rw [happ 0 f]
      congr 1
      rw [hm, Nat.mul_comm P m, hmul]

theorem map_flatMap_flatten (r : ρ → List β) (frags : List (List ρ)) :
    (frags.map (fun f => f.flatMap r)).flatten = frags.flatten.flatMap r := by
  induction frags with
  | nil => rfl
  | cons f t ih => simp [List.flatMap_append, ih]

/-! ## (a) uncompressed -/

theorem encPixels_append (encPx : α → List β) (a b : List α) :
    encPixels encPx (a ++ b) = encPixels encPx a ++ encPixels encPx b := by
  simp [encPixels]

theorem contigWrites_flatten (encPx : α → List β) {bufPx : Nat} (hb : 0 < bufPx)
    (img : List (List α)) :
    (contigWrites encPx bufPx img).flatten = encPixels encPx img.flatten := by
  unfold contigWrites
  rw [← List.flatMap_def]
  exact chunks_flatMap_flatMap hb encPx img.flatten

/-- the inner loop neither loses nor reorders pixels: flushed buffers followed by the buffer left
= old buffer followed by the encoded row; the fill stays within the buffer and is positive whenever
the buffer holds data. -/
theorem fillRowD_spec (encPx : α → List β) {bufPx : Nat} (hb : 0 < bufPx) :
    ∀ (fuel : Nat) (row : List α) (fill : Nat) (buf : List β),
      row.length < fuel → fill ≤ bufPx → (fill = 0 → buf = []) →
      let r := fillRowD encPx bufPx fuel row fill buf
      r.1.flatten ++ r.2.2 = buf ++ encPixels encPx row ∧ r.2.1 ≤ bufPx ∧
        (r.2.1 = 0 → r.2.2 = []) := by
  intro fuel
  induction fuel with
  | zero => intro row fill buf h; omega
  | succ fuel ih =>
    intro row fill buf hlen hfill hinv
    unfold fillRowD
    by_cases hr : row = []
    · subst hr
      simp only [if_true]
      exact ⟨by simp [encPixels], hfill, hinv⟩
    · rw [if_neg hr]
      have hpos : 0 < row.length := List.length_pos_iff.mpr hr
      by_cases hf : fill = bufPx
      · rw [if_pos hf]
        have h := ih (row.drop (min row.length bufPx)) (min row.length bufPx)
          (encPixels encPx (row.take (min row.length bufPx)))
          (by rw [List.length_drop]; omega) (by omega) (by intro h0; omega)
        obtain ⟨h1, h2, h3⟩ := h
        refine ⟨?_, h2, h3⟩
        simp only [List.flatten_cons, List.append_assoc]
        rw [h1, ← encPixels_append, List.take_append_drop]
      · rw [if_neg hf]
        have h := ih (row.drop (min row.length (bufPx - fill))) (fill + min row.length (bufPx - fill))
          (buf ++ encPixels encPx (row.take (min row.length (bufPx - fill))))
          (by rw [List.length_drop]; omega) (by omega) (by intro h0; omega)
        obtain ⟨h1, h2, h3⟩ := h
        refine ⟨?_, h2, h3⟩
        rw [h1, List.append_assoc, ← encPixels_append, List.take_append_drop]

/-- the pixel counts of the row-wise path are those of `EncLen.fillRow` -/
theorem fillRowD_flush_lengths (encPx : α → List β) (bufPx : Nat) :
    ∀ (fuel : Nat) (row : List α) (fill : Nat) (buf : List β),
      (fillRowD encPx bufPx fuel row fill buf).1.length = (fillRow bufPx fuel row.length fill).1.length ∧
      (fillRowD encPx bufPx fuel row fill buf).2.1 = (fillRow bufPx fuel row.length fill).2 := by
  intro fuel
  induction fuel with
  | zero => intro row fill buf; simp [fillRowD, fillRow]
  | succ fuel ih =>
    intro row fill buf
    unfold fillRowD fillRow
    by_cases hr : row = []
    · subst hr; simp
    · have hpos : 0 < row.length := List.length_pos_iff.mpr hr
      have hl0 : ¬ row.length = 0 := by omega
      rw [if_neg hr, if_neg hl0]
      by_cases hf : fill = bufPx
      · rw [if_pos hf, if_pos hf]
        have h := ih (row.drop (min row.length bufPx)) (min row.length bufPx)
          (encPixels encPx (row.take (min row.length bufPx)))
        rw [List.length_drop] at h
        simp only [List.length_cons]
        exact ⟨by rw [h.1], h.2⟩
      · rw [if_neg hf, if_neg hf]
        have h := ih (row.drop (min row.length (bufPx - fill)))
          (fill + min row.length (bufPx - fill))
          (buf ++ encPixels encPx (row.take (min row.length (bufPx - fill))))
        rw [List.length_drop] at h
        exact h

theorem rowsWritesAux_flatten (encPx : α → List β) {bufPx : Nat} (hb : 0 < bufPx) :
    ∀ (img : List (List α)) (fill : Nat) (buf : List β), fill ≤ bufPx → (fill = 0 → buf = []) →
      (rowsWritesAux encPx bufPx img fill buf).flatten = buf ++ encPixels encPx img.flatten := by
  intro img
  induction img with
  | nil =>
    intro fill buf _ hinv
    unfold rowsWritesAux
    by_cases h0 : fill > 0
    · rw [if_pos h0]; simp [encPixels]
    · rw [if_neg h0, hinv (by omega)]; simp [encPixels]
  | cons row rest ih =>
    intro fill buf hfill hinv
    unfold rowsWritesAux
    obtain ⟨h1, h2, h3⟩ := fillRowD_spec encPx hb (row.length + 1) row fill buf (by omega) hfill hinv
    simp only [List.flatten_append]
    rw [ih _ _ h2 h3, ← List.append_assoc, h1, List.flatten_cons, encPixels_append,
      List.append_assoc]

/-- **chunk boundaries do not matter**: whatever the path and the buffer size, the bytes are the
per-pixel encodings in row-major order -/
theorem encUncompressed_eq (p : Path) (encPx : α → List β) {bufPx : Nat} (hb : 0 < bufPx)
    (img : List (List α)) :
    encUncompressed p encPx bufPx img = img.flatMap (encPixels encPx) := by
  have e : img.flatMap (encPixels encPx) = encPixels encPx img.flatten := by
    induction img with
    | nil => rfl
    | cons r t ih => rw [List.flatMap_cons, ih, List.flatten_cons, encPixels_append]
  rw [e]
  cases p with
  | contiguous => exact contigWrites_flatten encPx hb img
  | rowWise =>
    show (rowsWritesAux encPx bufPx img 0 []).flatten = _
    rw [rowsWritesAux_flatten encPx hb img 0 [] (by omega) (fun _ => rfl)]; rfl
  | direct => rfl

/-! ### the write sizes are those of `EncLen.lean` (C10) -/

theorem encPixels_length (encPx : α → List β) {encBpp : Nat} (hl : ∀ x, (encPx x).length = encBpp)
    (l : List α) : (encPixels encPx l).length = l.length * encBpp := by
  unfold encPixels
  induction l with
  | nil => simp
  | cons a t ih => rw [List.flatMap_cons, List.length_append, ih, hl, List.length_cons,
      Nat.succ_mul, Nat.add_comm]

theorem contigWrites_lengths (encPx : α → List β) {encBpp bufPx : Nat}
    (hl : ∀ x, (encPx x).length = encBpp) (hb : 0 < bufPx) (img : List (List α)) :
    (contigWrites encPx bufPx img).map List.length =
      chunksContig img.flatten.length bufPx encBpp := by
  unfold contigWrites chunksContig
  rw [← chunks_lengths hb img.flatten _ (Nat.le_refl _), List.map_map, List.map_map]
  apply List.map_congr_left
  intro c _
  exact encPixels_length encPx hl c

theorem fillRowD_lengths (encPx : α → List β) {encBpp : Nat} (hl : ∀ x, (encPx x).length = encBpp)
    (bufPx : Nat) :
    ∀ (fuel : Nat) (row : List α) (fill : Nat) (buf : List β), buf.length = fill * encBpp →
      fill ≤ bufPx →
      (fillRowD encPx bufPx fuel row fill buf).1.map List.length =
        (fillRow bufPx fuel row.length fill).1.map (· * encBpp) ∧
      (fillRowD encPx bufPx fuel row fill buf).2.1 = (fillRow bufPx fuel row.length fill).2 ∧
      (fillRowD encPx bufPx fuel row fill buf).2.2.length =
        (fillRow bufPx fuel row.length fill).2 * encBpp := by
  intro fuel
  induction fuel with
  | zero => intro row fill buf hbuf _; simp [fillRowD, fillRow, hbuf]
  | succ fuel ih =>
    intro row fill buf hbuf hfill
    unfold fillRowD fillRow
    by_cases hr : row = []
    · subst hr; simp [hbuf]
    · have hpos : 0 < row.length := List.length_pos_iff.mpr hr
      have hl0 : ¬ row.length = 0 := by omega
      rw [if_neg hr, if_neg hl0]
      by_cases hf : fill = bufPx
      · rw [if_pos hf, if_pos hf]
        have h := ih (row.drop (min row.length bufPx)) (min row.length bufPx)
          (encPixels encPx (row.take (min row.length bufPx)))
          (by rw [encPixels_length encPx hl, List.length_take]; congr 1; omega) (by omega)
        rw [List.length_drop] at h
        simp only [List.map_cons]
        refine ⟨?_, h.2.1, h.2.2⟩
        rw [h.1, hbuf, hf]
      · rw [if_neg hf, if_neg hf]
        have h := ih (row.drop (min row.length (bufPx - fill)))
          (fill + min row.length (bufPx - fill))
          (buf ++ encPixels encPx (row.take (min row.length (bufPx - fill))))
          (by rw [List.length_append, encPixels_length encPx hl, List.length_take, hbuf,
                Nat.add_mul]; congr 2; omega) (by omega)
        rw [List.length_drop] at h
        exact h

theorem rowsWritesAux_lengths (encPx : α → List β) {encBpp bufPx w : Nat}
    (hl : ∀ x, (encPx x).length = encBpp) (hb : 1 ≤ bufPx) :
    ∀ (img : List (List α)) (fill : Nat) (buf : List β), (∀ r ∈ img, r.length = w) →
      buf.length = fill * encBpp → fill ≤ bufPx →
      (rowsWritesAux encPx bufPx img fill buf).map List.length =
        (chunksRowsAux bufPx w img.length fill).map (· * encBpp) := by
  intro img
  induction img with
  | nil =>
    intro fill buf _ hbuf _
    unfold rowsWritesAux chunksRowsAux
    by_cases h0 : fill > 0
    · simp [h0, hbuf]
    · simp [h0]
  | cons row rest ih =>
    intro fill buf hu hbuf hfill
    have hrw : row.length = w := hu row (by simp)
    rw [List.length_cons]
    unfold rowsWritesAux chunksRowsAux
    obtain ⟨h1, h2, h3⟩ := fillRowD_lengths encPx hl bufPx (row.length + 1) row fill buf hbuf hfill
    have hle := (fillRow_sum bufPx hb (row.length + 1) row.length fill (by omega) hfill).2
    simp only [List.map_append]
    rw [h1, ih _ _ (fun r hr => hu r (List.mem_cons_of_mem _ hr)) (by rw [h3, h2]) (by rw [h2]; exact hle),
      h2, hrw]

theorem flatten_length_uniform {w : Nat} (img : List (List α)) (hu : ∀ r ∈ img, r.length = w) :
    img.flatten.length = w * img.length := by
  induction img with
  | nil => simp
  | cons r t ih =>
    rw [List.flatten_cons, List.length_append, hu r (by simp),
      ih (fun x hx => hu x (List.mem_cons_of_mem _ hx)), List.length_cons, Nat.mul_succ,
      Nat.add_comm]

theorem rowGroupBuffers_length (bh : Nat) (img : List (List α)) :
    (rowGroupBuffers bh img).length = rowGroups img.length bh := by
  unfold rowGroupBuffers rowGroups
  simp only [List.length_append, List.length_map, List.length_range]
  by_cases h : img.length % bh > 0
  · rw [if_pos h, if_pos h]; rfl
  · rw [if_neg h, if_neg h]; rfl

/-! ## (b) sub-sampled -/

theorem padLast_of_length_ge {n : Nat} {l : List α} (h : n ≤ l.length) : padLast n l = l := by
  unfold padLast
  cases l.getLast? with
  | none => rfl
  | some x =>
    have : n - l.length = 0 := by omega
    simp [this]

theorem map_padLast_full {k : Nat} (hk : 0 < k) (m : Nat) (l : List α) (hl : l.length = m * k) :
    (chunks k l).map (padLast k) = chunks k l := by
  have hfull := chunks_full hk m l hl
  calc (chunks k l).map (padLast k) = (chunks k l).map id := by
        apply List.map_congr_left
        intro c hc
        exact padLast_of_length_ge (by rw [hfull c hc]; exact Nat.le_refl _)
    _ = chunks k l := List.map_id _

/-- `process_subsample` = the per-block function over the blocks of the data, last one padded -/
theorem processSubsample_eq {bw : Nat} (hbw : 0 < bw) (f : List α → List β) (data : List α) :
    processSubsample bw f data = (rowBlocks bw data).flatMap f := by
  unfold processSubsample rowBlocks
  have hfull : data.length / bw * bw ≤ data.length := Nat.div_mul_le_self _ _
  have hmod : data.length - data.length / bw * bw = data.length % bw := by
    have := Nat.div_add_mod data.length bw
    rw [Nat.mul_comm] at this
    omega
  have hlt : data.length % bw < bw := Nat.mod_lt _ hbw
  have htake : (data.take (data.length / bw * bw)).length = data.length / bw * bw := by
    rw [List.length_take]; omega
  have hsplit : chunks bw data =
      chunks bw (data.take (data.length / bw * bw)) ++ chunks bw (data.drop (data.length / bw * bw)) := by
    rw [← chunks_append hbw (data.length / bw) _ _ htake, List.take_append_drop]
  simp only
  rw [hsplit, List.map_append, List.flatMap_append,
    map_padLast_full hbw (data.length / bw) _ htake, hmod]
  congr 1
  by_cases hr : data.length % bw > 0
  · rw [if_pos hr]
    have hdl : (data.drop (data.length / bw * bw)).length = data.length % bw := by
      rw [List.length_drop]; exact hmod
    have hne : data.drop (data.length / bw * bw) ≠ [] := by
      intro h; rw [h] at hdl; simp at hdl; omega
    rw [chunks_short hne (by omega)]
    simp only [List.map_cons, List.map_nil, List.flatMap_cons, List.flatMap_nil, List.append_nil]
    congr 1
    unfold padLast
    have hgl : (data.drop (data.length / bw * bw)).getLast? = data.getLast? := by
      rw [List.getLast?_drop, if_neg (by omega)]
    rw [hgl, hdl]
    cases hg : data.getLast? with
    | some x => rfl
    | none =>
      have : data = [] := List.getLast?_eq_none_iff.mp hg
      subst this; simp at hne
  · rw [if_neg hr]
    have : data.drop (data.length / bw * bw) = [] := by
      apply List.drop_eq_nil_of_le; omega
    rw [this, chunks_nil]; rfl

theorem rowBlocks_append {bw : Nat} (hbw : 0 < bw) (m : Nat) (a b : List α)
    (ha : a.length = m * bw) : rowBlocks bw (a ++ b) = rowBlocks bw a ++ rowBlocks bw b := by
  unfold rowBlocks
  rw [chunks_append hbw m a b ha, List.map_append]

/-- **the chunking of a row does not matter** (the chunk size is a multiple of the block width) -/
theorem subsampleRow_eq {bw chunkPx : Nat} (hbw : 0 < bw) (hc : 0 < chunkPx) (hd : bw ∣ chunkPx)
    (f : List α → List β) (row : List α) :
    subsampleRow bw chunkPx f row = (rowBlocks bw row).flatMap f := by
  obtain ⟨m, hm⟩ := hd
  unfold subsampleRow
  generalize hn : row.length = n
  induction n using Nat.strongRecOn generalizing row with
  | _ n ih =>
    by_cases hne : row = []
    · subst hne; simp [chunks_nil, rowBlocks]
    · have hpos : 0 < row.length := List.length_pos_iff.mpr hne
      rw [chunks_cons hc hne, List.flatMap_cons, processSubsample_eq hbw]
      rw [ih (row.drop chunkPx).length (by rw [List.length_drop]; omega) _ rfl]
      by_cases hle : chunkPx ≤ row.length
      · rw [← List.flatMap_append, ← rowBlocks_append hbw m _ _
          (by rw [List.length_take, Nat.min_eq_left hle, hm, Nat.mul_comm]),
          List.take_append_drop]
      · rw [List.take_of_length_le (by omega), List.drop_eq_nil_of_le (by omega)]
        simp [rowBlocks, chunks_nil]

theorem encSubsampleFrom_append (bw chunkPx : Nat) (f : Nat → List α → List β) :
    ∀ (a b : List (List α)) (y : Nat),
      encSubsampleFrom bw chunkPx f y (a ++ b) =
        encSubsampleFrom bw chunkPx f y a ++ encSubsampleFrom bw chunkPx f (y + a.length) b := by
  intro a
  induction a with
  | nil => intro b y; simp [encSubsampleFrom]
  | cons r t ih =>
    intro b y
    simp only [List.cons_append, encSubsampleFrom, ih, List.length_cons, List.append_assoc]
    congr 3
    omega

theorem encSubsampleFrom_periodic (bw chunkPx : Nat) (f : Nat → List α → List β) {P : Nat}
    (hper : ∀ y, f (y + P) = f y) :
    ∀ (l : List (List α)) (y : Nat),
      encSubsampleFrom bw chunkPx f (y + P) l = encSubsampleFrom bw chunkPx f y l := by
  intro l
  induction l with
  | nil => intro y; simp [encSubsampleFrom]
  | cons r t ih =>
    intro y
    simp only [encSubsampleFrom]
    rw [hper y, Nat.add_right_comm, ih]

/-- without a row index: the rows are encoded independently -/
theorem encSubsampleFrom_const (bw chunkPx : Nat) (f : List α → List β) :
    ∀ (l : List (List α)) (y : Nat),
      encSubsampleFrom bw chunkPx (fun _ => f) y l = l.flatMap (subsampleRow bw chunkPx f) := by
  intro l
  induction l with
  | nil => intro y; simp [encSubsampleFrom]
  | cons r t ih => intro y; simp [encSubsampleFrom, ih]

/-! ## (c) blocks -/

theorem padRows_of_length_ge {n : Nat} {g : List (List α)} (h : n ≤ g.length) :
    padRows n g = g := by
  unfold padRows
  cases g.head? with
  | none => rfl
  | some x =>
    have : n - g.length = 0 := by omega
    simp [this]

/-- `for_each_f32_rgba_rows` hands out the chunks of `bh` rows, the last one padded -/
theorem rowGroupBuffers_eq {bh : Nat} (hbh : 0 < bh) (img : List (List α)) :
    rowGroupBuffers bh img = (chunks bh img).map (padRows bh) := by
  unfold rowGroupBuffers
  rw [chunks_eq_map hbh, List.map_map]
  have hdm := Nat.div_add_mod img.length bh
  have hdc : divCeil img.length bh = img.length / bh + (if img.length % bh > 0 then 1 else 0) := by
    rw [← rowGroups_eq]; rfl
  have hfullmap : (List.range (img.length / bh)).map (fun g => (img.drop (g * bh)).take bh) =
      (List.range (img.length / bh)).map
        (padRows bh ∘ fun i => (img.drop (i * bh)).take bh) := by
    apply List.map_congr_left
    intro i hi
    have hi' := List.mem_range.mp hi
    simp only [Function.comp]
    rw [padRows_of_length_ge]
    rw [List.length_take, List.length_drop]
    have : (i + 1) * bh ≤ img.length / bh * bh := Nat.mul_le_mul_right bh hi'
    have h2 : img.length / bh * bh ≤ img.length := Nat.div_mul_le_self _ _
    rw [Nat.succ_mul] at this
    omega
  simp only
  by_cases hr : img.length % bh > 0
  · rw [if_pos hr, hdc, if_pos hr, List.range_succ, List.map_append, hfullmap]
    simp only [List.map_cons, List.map_nil, Function.comp]
    congr 3
    rw [List.take_of_length_le]
    rw [List.length_drop]
    have : bh * (img.length / bh) = img.length / bh * bh := Nat.mul_comm _ _
    have := Nat.mod_lt img.length hbh
    omega
  · rw [if_neg hr, hdc, if_neg hr, hfullmap]
    simp

theorem encBlocks_eq {bw bh w : Nat} (hbh : 0 < bh) (encBlock : List α → Nat → List β)
    (img : List (List α)) :
    encBlocks bw bh w encBlock img =
      (chunks bh img).flatMap (fun g => encodeGroup bw bh w encBlock (padRows bh g)) := by
  unfold encBlocks
  rw [rowGroupBuffers_eq hbh, List.flatMap_def, List.map_map, ← List.flatMap_def]
  rfl

/-- … hence also the concatenation of a group function over chunks of any multiple of `bh` rows -/
theorem encBlocks_eq_mul {bw bh w k : Nat} (hbh : 0 < bh) (hk : 0 < k)
    (encBlock : List α → Nat → List β) (img : List (List α)) :
    encBlocks bw bh w encBlock img =
      (chunks (k * bh) img).flatMap (fun G => (chunks bh G).flatMap
        (fun g => encodeGroup bw bh w encBlock (padRows bh g))) := by
  rw [encBlocks_eq hbh, ← List.flatMap_assoc, chunks_flatMap hbh hk]

/-- reading a run of every row out of the flat buffer (`rows[o + i * width ..][..n]`) = reading
it out of the rows -/
theorem flat_runs {γ : Type} (φ : List α → List γ) {w o n : Nat} (hon : o + n ≤ w) :
    ∀ buf : List (List α), (∀ r ∈ buf, r.length = w) →
      (List.range buf.length).flatMap (fun i => φ ((buf.flatten.drop (i * w + o)).take n)) =
        buf.flatMap (fun row => φ ((row.drop o).take n)) := by
  intro buf
  induction buf with
  | nil => intro _; rfl
  | cons r t ih =>
    intro hu
    have hr : r.length = w := hu r (by simp)
    have ht : ∀ x ∈ t, x.length = w := fun x hx => hu x (List.mem_cons_of_mem _ hx)
    rw [List.length_cons, List.range_succ_eq_map, List.flatMap_cons, List.flatMap_cons,
      List.flatMap_map, ← ih ht]
    congr 1
    · simp only [Nat.zero_mul, Nat.zero_add, List.flatten_cons]
      rw [List.drop_append_of_le_length (by omega), List.take_append_of_le_length
        (by rw [List.length_drop]; omega)]
    · apply flatMap_congr'
      intro i _
      simp only [List.flatten_cons]
      have e : (i + 1) * w + o = r.length + (i * w + o) := by rw [Nat.succ_mul, hr]; omega
      have h1 : r.drop (r.length + (i * w + o)) = [] := List.drop_eq_nil_of_le (by omega)
      rw [e, List.drop_append, h1, Nat.add_sub_cancel_left, List.nil_append]

theorem padLast_length {n : Nat} {l : List α} (hne : l ≠ []) (hl : l.length ≤ n) :
    (padLast n l).length = n := by
  unfold padLast
  cases hg : l.getLast? with
  | none => exact absurd (List.getLast?_eq_none_iff.mp hg) hne
  | some x => simp; omega

/-- **what a block encoder sees**: if `encode_block` reads its slice the way the BCn encoders do
(`blockAt`: the `bw × bh` pixels at `data[i * pitch + j]`), the output of a row group is the per-block
function over the blocks of the group, left to right; the blocks at the right edge are padded by
repeating the last pixel of each row. -/
theorem encodeGroup_blockAt {bw bh w : Nat} (hbw : 0 < bw) (g : List α → List β)
    (buf : List (List α)) (hlen : buf.length = bh) (hu : ∀ r ∈ buf, r.length = w) :
    encodeGroup bw bh w (fun data pitch => g (blockAt bw bh data pitch)) buf =
      (groupBlocks bw w buf).flatMap g := by
  unfold encodeGroup groupBlocks
  have hdm := Nat.div_add_mod w bw
  have hmul : bw * (w / bw) = w / bw * bw := Nat.mul_comm _ _
  have hdc : divCeil w bw = w / bw + (if w % bw > 0 then 1 else 0) := by
    rw [← rowGroups_eq]; rfl
  -- full blocks
  have hfull : ∀ bi, bi < w / bw →
      blockAt bw bh (buf.flatten.drop (bi * bw)) w =
        buf.flatMap fun row => padLast bw ((row.drop (bi * bw)).take bw) := by
    intro bi hbi
    have hle : bi * bw + bw ≤ w := by
      have : (bi + 1) * bw ≤ w / bw * bw := Nat.mul_le_mul_right bw hbi
      rw [Nat.succ_mul] at this
      omega
    unfold blockAt
    have := flat_runs (fun l => l) hle buf hu
    rw [hlen] at this
    calc (List.range bh).flatMap (fun i => ((buf.flatten.drop (bi * bw)).drop (i * w)).take bw)
        = (List.range bh).flatMap (fun i => (buf.flatten.drop (i * w + bi * bw)).take bw) := by
          apply flatMap_congr'; intro i _; rw [List.drop_drop, Nat.add_comm]
      _ = buf.flatMap (fun row => (row.drop (bi * bw)).take bw) := this
      _ = buf.flatMap (fun row => padLast bw ((row.drop (bi * bw)).take bw)) := by
          apply flatMap_congr'
          intro row hrow
          rw [padLast_of_length_ge]
          rw [List.length_take, List.length_drop, hu row hrow]; omega
  have hfullmap : (List.range (w / bw)).flatMap
        (fun bi => g (blockAt bw bh (buf.flatten.drop (bi * bw)) w)) =
      ((List.range (w / bw)).map fun bi =>
        buf.flatMap fun row => padLast bw ((row.drop (bi * bw)).take bw)).flatMap g := by
    rw [List.flatMap_map]
    apply flatMap_congr'
    intro bi hbi
    rw [hfull bi (List.mem_range.mp hbi)]
  simp only
  rw [hfullmap, hdc]
  by_cases hr : w % bw > 0
  · have hne : w % bw ≠ 0 := by omega
    rw [if_pos hne, if_pos hr, List.range_succ, List.map_append, List.flatMap_append]
    congr 1
    simp only [List.map_cons, List.map_nil, List.flatMap_cons, List.flatMap_nil, List.append_nil]
    congr 1
    -- the partial block: `block_data`, read back with pitch `bw`
    have hwid : w - w / bw * bw = w % bw := by omega
    have hlt : w % bw < bw := Nat.mod_lt _ hbw
    have hdata : (List.range bh).flatMap (fun i =>
          padLast bw ((buf.flatten.drop (w / bw * bw + i * w)).take (w - w / bw * bw))) =
        (buf.map fun row => padLast bw ((row.drop (w / bw * bw)).take bw)).flatten := by
      have := flat_runs (padLast bw) (o := w / bw * bw) (n := w - w / bw * bw) (by omega) buf hu
      rw [hlen] at this
      rw [← List.flatMap_def]
      calc _ = (List.range bh).flatMap (fun i =>
              padLast bw ((buf.flatten.drop (i * w + w / bw * bw)).take (w - w / bw * bw))) := by
            apply flatMap_congr'; intro i _; rw [Nat.add_comm]
        _ = _ := this
        _ = _ := by
            apply flatMap_congr'
            intro row hrow
            have hl : (row.drop (w / bw * bw)).length = w % bw := by
              rw [List.length_drop, hu row hrow]; exact hwid
            rw [List.take_of_length_le (by omega), List.take_of_length_le (by omega)]
    rw [hdata]
    unfold blockAt
    have hu' : ∀ r ∈ buf.map (fun row => padLast bw ((row.drop (w / bw * bw)).take bw)),
        r.length = bw := by
      intro r hr'
      obtain ⟨row, hrow, rfl⟩ := List.mem_map.mp hr'
      have hl : (row.drop (w / bw * bw)).length = w % bw := by
        rw [List.length_drop, hu row hrow]; exact hwid
      have htk : (row.drop (w / bw * bw)).take bw = row.drop (w / bw * bw) :=
        List.take_of_length_le (by omega)
      rw [htk]
      apply padLast_length
      · intro h; rw [h] at hl; simp at hl; omega
      · omega
    have := flat_runs (fun l => l) (o := 0) (n := bw) (w := bw) (by omega) _ hu'
    rw [List.length_map, hlen] at this
    simp only [Nat.add_zero, List.drop_zero] at this
    rw [this, List.flatMap_map]
    apply flatMap_congr'
    intro row hrow
    have hl : (row.drop (w / bw * bw)).length = w % bw := by
      rw [List.length_drop, hu row hrow]; exact hwid
    have htk : (row.drop (w / bw * bw)).take bw = row.drop (w / bw * bw) :=
      List.take_of_length_le (by omega)
    rw [htk]
    apply List.take_of_length_le
    have hne' : row.drop (w / bw * bw) ≠ [] := by
      intro h; rw [h] at hl; simp at hl; omega
    rw [padLast_length hne' (by omega)]
    exact Nat.le_refl _
  · have he : w % bw = 0 := by omega
    have : ¬ (w % bw ≠ 0) := by omega
    rw [if_neg this, if_neg hr]
    simp

/-- every chunk is a non-empty run of at most `k` elements of the list -/
theorem chunks_mem {k : Nat} (hk : 0 < k) (l : List ρ) :
    ∀ c ∈ chunks k l, c ≠ [] ∧ c.length ≤ k ∧ ∀ x ∈ c, x ∈ l := by
  generalize hn : l.length = n
  induction n using Nat.strongRecOn generalizing l with
  | _ n ih =>
    by_cases hne : l = []
    · subst hne; simp [chunks_nil]
    · have hpos : 0 < l.length := List.length_pos_iff.mpr hne
      rw [chunks_cons hk hne]
      intro c hc
      rcases List.mem_cons.mp hc with h | h
      · subst h
        refine ⟨?_, ?_, fun x hx => List.mem_of_mem_take hx⟩
        · intro h0
          have : (l.take k).length = 0 := by rw [h0]; rfl
          rw [List.length_take] at this; omega
        · rw [List.length_take]; omega
      · obtain ⟨h1, h2, h3⟩ := ih (l.drop k).length (by rw [List.length_drop]; omega) _ rfl c h
        exact ⟨h1, h2, fun x hx => List.mem_of_mem_drop (h3 x hx)⟩

theorem padRows_props {bh : Nat} {g : List (List α)} (hne : g ≠ []) (hl : g.length ≤ bh) :
    (padRows bh g).length = bh ∧ ∀ r ∈ padRows bh g, r ∈ g := by
  unfold padRows
  cases g with
  | nil => exact absurd rfl hne
  | cons r t =>
    simp only [List.head?_cons]
    constructor
    · simp only [List.length_append, List.length_replicate]; omega
    · intro x hx
      rcases List.mem_append.mp hx with h | h
      · exact h
      · rw [List.eq_of_mem_replicate h]; simp

/-- the whole image, when `encode_block` reads its slice as a block: the per-block function over
the blocks of every (padded) row group, groups top to bottom, blocks left to right -/
theorem encBlocks_blockAt {bw bh w : Nat} (hbw : 0 < bw) (hbh : 0 < bh) (g : List α → List β)
    (img : List (List α)) (hu : ∀ r ∈ img, r.length = w) :
    encBlocks bw bh w (fun data pitch => g (blockAt bw bh data pitch)) img =
      (chunks bh img).flatMap (fun grp => (groupBlocks bw w (padRows bh grp)).flatMap g) := by
  rw [encBlocks_eq hbh]
  apply flatMap_congr'
  intro grp hgrp
  obtain ⟨h1, h2, h3⟩ := chunks_mem hbh img grp hgrp
  obtain ⟨p1, p2⟩ := padRows_props h1 h2
  exact encodeGroup_blockAt hbw g _ p1 (fun r hr => hu r (h3 r (p2 r hr)))

/-! ## the split model never splits the stateful families -/

theorem fragmentHeight_none_of_no_split_height (w h : Nat) (s : Support) (d : Dithering)
    (q : Quality) (hs : s.splitHeight = none) :
    (SplitView.new w h (some s) d q).fragmentHeight = none := by
  have : getFragmentHeight w h (some s) d q = none := by
    unfold getFragmentHeight
    by_cases he : w = 0 ∨ h = 0
    · rw [if_pos he]
    · rw [if_neg he]; simp only [hs]
  unfold SplitView.new; rw [this]

theorem fragmentHeight_none_of_global_dithering (w h : Nat) (s : Support) (d : Dithering)
    (q : Quality) (hl : s.localDithering = false) (hd : d.intersect s.dithering ≠ .none) :
    (SplitView.new w h (some s) d q).fragmentHeight = none := by
  have : getFragmentHeight w h (some s) d q = none := by
    unfold getFragmentHeight
    by_cases he : w = 0 ∨ h = 0
    · rw [if_pos he]
    · rw [if_neg he]
      simp only
      cases hsh : s.splitHeight with
      | none => rfl
      | some sh =>
        simp only
        have hc : ((!s.localDithering) && decide (d.intersect s.dithering ≠ .none)) = true := by
          simp [hl, hd]
        rw [if_pos hc]
  unfold SplitView.new; rw [this]

/-! ## reading the table checks -/

theorem splitOk_wf {ctor : C19.SetCtor} {px : PixelInfo} {s : Support}
    (h : splitOk ctor px s.splitHeight = true) : s.WF := by
  intro sh hsh
  rw [hsh] at h
  unfold splitOk at h
  cases ctor <;> cases px <;> simp at h <;> omega

theorem splitOk_bc {bytes bw bh : Nat} {sho : Option Nat}
    (h : splitOk .bc (.block bytes bw bh) sho = true) :
    ∀ sh, sho = some sh → 0 < bh ∧ ∃ k, 0 < k ∧ sh = k * bh := by
  intro sh hsh
  subst hsh
  simp [splitOk] at h
  obtain ⟨⟨⟨h0, _⟩, hbh⟩, hmod⟩ := h
  refine ⟨hbh, sh / bh, ?_, ?_⟩
  · have := Nat.div_add_mod sh bh
    rw [hmod] at this
    cases hk : sh / bh with
    | zero => rw [hk] at this; simp at this; omega
    | succ n => omega
  · have := Nat.div_add_mod sh bh
    rw [hmod, Nat.mul_comm] at this
    omega

theorem splitOk_biPlanar {p1 p2 sx sy : Nat} {sho : Option Nat}
    (h : splitOk .biPlanar (.biPlanar p1 p2 sx sy) sho = true) : sho = none := by
  cases sho with
  | none => rfl
  | some sh => simp [splitOk] at h

theorem kindOk_stateful {kind : C19.EncKind} {s : Support} {d : Dithering}
    (hk : kind = .fsDither ∨ kind = .bayer) (h : kindOk kind .plain s d = true) :
    s.localDithering = false ∧ d.intersect s.dithering ≠ .none := by
  rcases hk with hk | hk <;> subst hk <;> simpa [kindOk] using h

end EncRows
end Dds
