/-
Integer evaluation of the software binary32 operations of `F32.lean`.

`F32.mul a b = roundF32 (toRat a * toRat b)` etc. go through `Rat` (normalised fractions with proofs), which
the kernel evaluates slowly.  Here every finite pattern `b` gets an explicit fraction `qn b / qd b`
(`qd b` a power of two), the operations are carried out on those integers, and the result is rounded by
the same `roundF32Q` as in `F32.lean`.  Each `Fast.op` is proved equal to `F32.op` for ALL arguments
(no range condition), so the fast operations can replace the model's in any kernel computation.
-/
import DdsModel.F32
namespace Dds.F32.Fast
open Dds.F32

/-- signed numerator of the value of a finite pattern -/
def qn (b : Nat) : Int :=
  let ex := (b / 8388608) % 256
  let m := b % 8388608
  let n : Nat := if ex = 0 then m else if 150 ≤ ex then (8388608 + m) * 2 ^ (ex - 150) else 8388608 + m
  if b / 2147483648 % 2 = 1 then -(n : Int) else (n : Int)

/-- denominator (a power of two) of the value of a finite pattern -/
def qd (b : Nat) : Nat :=
  let ex := (b / 8388608) % 256
  if ex = 0 then 2 ^ 149 else if 150 ≤ ex then 1 else 2 ^ (150 - ex)

theorem qd_ne (b : Nat) : qd b ≠ 0 := by
  unfold qd
  simp only
  split
  · exact Nat.pos_iff_ne_zero.mp (Nat.pow_pos (by decide))
  · split
    · decide
    · exact Nat.pos_iff_ne_zero.mp (Nat.pow_pos (by decide))

theorem mkRat_one (n : Int) : mkRat n 1 = (n : Rat) := by
  apply Rat.ext
  · rw [Rat.num_mkRat]; simp
  · rw [Rat.den_mkRat]; simp

theorem natCast_mul_pow2 (a : Nat) (e : Int) :
    (a : Rat) * pow2 e = if 0 ≤ e then mkRat ((a * 2 ^ e.toNat : Nat) : Int) 1 else mkRat (a : Int) (2 ^ (-e).toNat) := by
  unfold pow2
  by_cases h : e ≥ 0
  · have h' : 0 ≤ e := h
    rw [if_pos h, if_pos h', ← Rat.natCast_mul, mkRat_one]
    rfl
  · have h' : ¬ 0 ≤ e := h
    rw [if_neg h, if_neg h', Rat.mkRat_eq_div, Rat.div_def, Rat.div_def, Rat.one_mul]
    rfl

/-- the value of a pattern is the fraction `qn b / qd b` -/
theorem toRat_eq (b : Nat) : toRat b = mkRat (qn b) (qd b) := by
  unfold toRat qn qd
  simp only
  generalize b / 8388608 % 256 = ex
  generalize b % 8388608 = m
  have key : (if ex = 0 then (m : Rat) * pow2 (-149) else ((8388608 + m : Nat) : Rat) * pow2 ((ex : Int) - 150)) =
      mkRat ((if ex = 0 then m else if 150 ≤ ex then (8388608 + m) * 2 ^ (ex - 150) else 8388608 + m : Nat) : Int)
        (if ex = 0 then 2 ^ 149 else if 150 ≤ ex then 1 else 2 ^ (150 - ex)) := by
    by_cases h0 : ex = 0
    · rw [if_pos h0, if_pos h0, if_pos h0, natCast_mul_pow2]
      rfl
    · rw [if_neg h0, if_neg h0, if_neg h0, natCast_mul_pow2]
      by_cases h1 : 150 ≤ ex
      · have : (0 : Int) ≤ (ex : Int) - 150 := by omega
        rw [if_pos this, if_pos h1, if_pos h1]
        have : ((ex : Int) - 150).toNat = ex - 150 := by omega
        rw [this]
      · have : ¬ (0 : Int) ≤ (ex : Int) - 150 := by omega
        rw [if_neg this, if_neg h1, if_neg h1]
        have : (-((ex : Int) - 150)).toNat = 150 - ex := by omega
        rw [this]
  rw [key]
  split
  · rw [Rat.neg_mkRat]
  · rfl

/-- `roundF32 (N / D)` on integers (`D ≠ 0`): reduce the fraction as `Rat` does, then `roundF32Q` -/
def rnd (N : Int) (D : Nat) : Nat :=
  let g := D.gcd N.natAbs
  let n := N / (g : Int)
  if n < 0 then 0x80000000 + roundF32Q n.natAbs (D / g) else roundF32Q n.natAbs (D / g)

theorem roundF32_mkRat (N : Int) (D : Nat) (hD : D ≠ 0) : roundF32 (mkRat N D) = rnd N D := by
  unfold roundF32 rnd
  rw [Rat.num_mkRat, Rat.den_mkRat, if_neg hD, if_neg hD]

def mul (a b : Nat) : Nat := rnd (qn a * qn b) (qd a * qd b)
def add (a b : Nat) : Nat := rnd (qn a * qd b + qn b * qd a) (qd a * qd b)
def sub (a b : Nat) : Nat := rnd (qn a * qd b + -qn b * qd a) (qd a * qd b)

theorem mul_eq (a b : Nat) : F32.mul a b = mul a b := by
  unfold F32.mul mul
  rw [toRat_eq a, toRat_eq b, Rat.mkRat_mul_mkRat, roundF32_mkRat _ _ (Nat.mul_ne_zero (qd_ne a) (qd_ne b))]

theorem add_eq (a b : Nat) : F32.add a b = add a b := by
  unfold F32.add add
  rw [toRat_eq a, toRat_eq b, Rat.mkRat_add_mkRat _ _ (qd_ne a) (qd_ne b),
    roundF32_mkRat _ _ (Nat.mul_ne_zero (qd_ne a) (qd_ne b))]

theorem sub_eq (a b : Nat) : F32.sub a b = sub a b := by
  unfold F32.sub sub
  rw [toRat_eq a, toRat_eq b, Rat.sub_eq_add_neg, Rat.neg_mkRat, Rat.mkRat_add_mkRat _ _ (qd_ne a) (qd_ne b),
    roundF32_mkRat _ _ (Nat.mul_ne_zero (qd_ne a) (qd_ne b))]

/-- `x as f32` of a natural number -/
theorem ofNat_eq (x : Nat) : F32.ofNat x = roundF32Q x 1 := by
  unfold F32.ofNat roundF32
  rw [Rat.num_natCast, Rat.den_natCast]
  simp

theorem toRat_neg_iff (a : Nat) : toRat a < 0 ↔ qn a < 0 := by
  rw [← Rat.not_le, ← Rat.num_nonneg, toRat_eq, Rat.num_mkRat, if_neg (qd_ne a)]
  have hg : (0 : Int) < ((qd a).gcd (qn a).natAbs : Nat) :=
    Int.natCast_pos.mpr (Nat.gcd_pos_of_pos_left _ (Nat.pos_of_ne_zero (qd_ne a)))
  rw [Int.ediv_nonneg_iff_of_pos hg]
  omega

def max0 (a : Nat) : Nat := if qn a < 0 then 0 else a

theorem max0_eq (a : Nat) : F32.max0 a = max0 a := by
  unfold F32.max0 max0
  by_cases h : qn a < 0
  · rw [if_pos h, if_pos ((toRat_neg_iff a).mpr h)]
  · rw [if_neg h, if_neg (fun h' => h ((toRat_neg_iff a).mp h'))]

/-- `x as u8` -/
def toU8 (a : Nat) : Nat :=
  if qn a < 0 then 0 else
  let g := (qd a).gcd (qn a).natAbs
  let f := (qn a / (g : Int) / ((qd a / g : Nat) : Int)).toNat
  if f > 255 then 255 else f

theorem toU8_eq (a : Nat) : F32.toU8 a = toU8 a := by
  unfold F32.toU8 toU8
  simp only
  by_cases h : qn a < 0
  · rw [if_pos h, if_pos ((toRat_neg_iff a).mpr h)]
  · rw [if_neg h, if_neg (fun h' => h ((toRat_neg_iff a).mp h'))]
    rw [Rat.floor_def, toRat_eq, Rat.num_mkRat, Rat.den_mkRat, if_neg (qd_ne a), if_neg (qd_ne a)]

/-! ### square root: Newton iteration with a checked result -/

/-- strict `let` for kernel evaluation: the match makes the kernel evaluate `x` to a literal BEFORE the
continuation is entered.  Only to be used for SMALL values: terms that contain a literal `≥ 2^63` are
handled very slowly by the kernel, while an unevaluated term is evaluated once and then found in the
kernel's cache (so plain β-redexes are the default way of sharing here). -/
def force {α : Type} (x : Nat) (f : Nat → α) : α :=
  match x with
  | 0 => f 0
  | n + 1 => f (Nat.succ n)

theorem force_eq {α : Type} (x : Nat) (f : Nat → α) : force x f = f x := by
  cases x <;> rfl

/-- Newton iteration `g ↦ (g + n/g)/2` while it decreases (written with the kernel-accelerated primitives) -/
def newton (n : Nat) : Nat → Nat → Nat
  | 0, g => g
  | f + 1, g => force (Nat.div (Nat.add g (Nat.div n g)) 2) fun nx => cond (Nat.blt nx g) (newton n f nx) g

theorem sqrt_unique (n s : Nat) (h1 : s * s ≤ n) (h2 : n < (s + 1) * (s + 1)) : Nat.sqrt n = s := by
  have a1 := Nat.sqrt_le n
  have a2 := Nat.lt_succ_sqrt n
  rw [Nat.succ_eq_add_one] at a2
  apply Nat.le_antisymm
  · apply Nat.le_of_lt_succ
    apply Nat.mul_self_lt_mul_self_iff.mp
    exact Nat.lt_of_le_of_lt a1 h2
  · apply Nat.le_of_lt_succ
    apply Nat.mul_self_lt_mul_self_iff.mp
    exact Nat.lt_of_le_of_lt h1 a2

/-! ### `Nat.log2` by binary search with a checked result

The kernel has no GMP shortcut for `Nat.log2` (it runs the `Nat.rec` definition, one step per bit, and is
very slow once the argument is a literal `≥ 2^63`); `Nat.pow` and `Nat.ble` are accelerated. -/

def lgStep (n acc k : Nat) : Nat := cond (Nat.ble (Nat.pow 2 (Nat.add acc k)) n) (Nat.add acc k) acc

/-- candidate for `⌊log₂ n⌋` (`n < 2^1024`) -/
def lgSearch (n : Nat) : Nat :=
  cond (Nat.blt n 340282366920938463463374607431768211456)
    (lgStep n (lgStep n (lgStep n (lgStep n (lgStep n (lgStep n (lgStep n 0 64) 32) 16) 8) 4) 2) 1)
    (lgStep n (lgStep n (lgStep n (lgStep n (lgStep n (lgStep n (lgStep n (lgStep n (lgStep n (lgStep n 0 512) 256) 128)
      64) 32) 16) 8) 4) 2) 1)

/-- `Nat.log2`: the candidate is CHECKED (`2^a ≤ n < 2^(a+1)`), otherwise fall back to `Nat.log2` -/
def lg (n : Nat) : Nat :=
  force (lgSearch n) fun a =>
    cond (Nat.ble (Nat.pow 2 a) n && Nat.blt n (Nat.pow 2 (Nat.add a 1))) a (Nat.log2 n)

theorem lg_eq (n : Nat) : lg n = Nat.log2 n := by
  unfold lg
  rw [force_eq]
  generalize lgSearch n = a
  cases h : (Nat.ble (Nat.pow 2 a) n && Nat.blt n (Nat.pow 2 (Nat.add a 1)))
  · rfl
  · simp only [Bool.and_eq_true, Nat.ble_eq, Nat.blt_eq] at h
    have h1 : 2 ^ a ≤ n := h.1
    have h2 : n < 2 ^ (a + 1) := h.2
    have hn : n ≠ 0 := by
      have : 0 < 2 ^ a := Nat.pow_pos (by decide)
      omega
    exact ((Nat.log2_eq_iff hn).mpr ⟨h1, h2⟩).symm

/-- integer square root: the Newton candidate is CHECKED (`s² ≤ n < (s+1)²`); should the check ever fail the
definition falls back to `Nat.sqrt`, so the equality with `Nat.sqrt` needs no convergence argument -/
def isqrt (n : Nat) : Nat :=
  force (newton n 64 (Nat.pow 2 (Nat.add (Nat.div (lg n) 2) 1))) fun s =>
    cond (Nat.ble (Nat.mul s s) n && Nat.blt n (Nat.mul (Nat.add s 1) (Nat.add s 1))) s (Nat.sqrt n)

theorem isqrt_eq (n : Nat) : isqrt n = Nat.sqrt n := by
  unfold isqrt
  rw [force_eq]
  generalize newton n 64 _ = s
  cases h : (Nat.ble (Nat.mul s s) n && Nat.blt n (Nat.mul (Nat.add s 1) (Nat.add s 1)))
  · rfl
  · simp only [Bool.and_eq_true, Nat.ble_eq, Nat.blt_eq] at h
    exact (sqrt_unique n s h.1 h.2).symm

/-- `F32.sqrt` with the integer root supplied by `isq` -/
def sqrtWith (isq : Nat → Nat) (a : Nat) : Nat :=
  let ex := (a / 8388608) % 256
  let m0 := a % 8388608
  if a ≥ 0x80000000 ∨ (ex = 0 ∧ m0 = 0) then 0 else
  let m := if ex = 0 then m0 else 8388608 + m0
  let e : Int := if ex = 0 then -149 else (ex : Int) - 150
  let odd := e % 2 ≠ 0
  let m := if odd then 2 * m else m
  let e := if odd then e - 1 else e
  let big := m <<< 60
  let s := isq big
  let sticky := if s * s = big then 0 else 1
  let h : Int := e / 2 - 31
  if h ≥ 0 then roundF32Q ((2 * s + sticky) <<< h.toNat) 1 else roundF32Q (2 * s + sticky) (1 <<< (-h).toNat)

def sqrt (a : Nat) : Nat := sqrtWith isqrt a

theorem sqrt_eq (a : Nat) : F32.sqrt a = sqrt a := by
  have : isqrt = Nat.sqrt := funext isqrt_eq
  unfold sqrt
  rw [this]
  rfl

end Dds.F32.Fast
