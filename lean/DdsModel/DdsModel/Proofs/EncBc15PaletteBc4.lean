/-
C13, BC1–BC5 encoder core: the BC4 binary32 palettes on the evaluated sub-domain, as statements about the model's own
definitions (`Inter6Palette.new`, `stepValue`, `inter4Colors`).
-/
import DdsModel.Proofs.EncBc15PaletteAll
namespace Dds.Enc15
open Dds Dds.Bc Dds.Enc13

theorem chk6Pair_at (snorm : Bool) (hi lo : Nat) (h1 : lo < hi) (h2 : hi ≤ denOf snorm) (h3 : lo < 256)
    (h : chk6Pair snorm (256 * hi + lo) = true) (j : Nat) (hj1 : 1 ≤ j) (hj : j < 8) :
    let e := endpointsOfBytes snorm (byteOf snorm hi) (byteOf snorm lo)
    okEntryT ((Inter6Palette.new e.c0f e.c1f).stepValue j) (dec4 snorm true hi lo (INDEX_MAP.getD j 0))
      (j * hi + (7 - j) * lo) (7 * denOf snorm) = true := by
  unfold chk6Pair at h
  have e1 : (256 * hi + lo) / 256 = hi := by omega
  have e2 : (256 * hi + lo) % 256 = lo := by omega
  have hg : ¬ (hi ≤ lo ∨ hi > denOf snorm) := by omega
  simp only [e1, e2, CF32.force_eq, if_neg hg, List.all_eq_true, List.mem_range'_1] at h
  exact h j ⟨hj1, by omega⟩

theorem chk4Pair_at (snorm : Bool) (lo hi : Nat) (h1 : lo < hi) (h2 : hi ≤ denOf snorm) (h3 : hi < 256)
    (h : chk4Pair snorm (256 * lo + hi) = true) (k : Nat) (hk : k < 8) :
    let e := endpointsOfBytes snorm (byteOf snorm lo) (byteOf snorm hi)
    okEntryT ((inter4Colors e.c0f e.c1f).getD k 0) (dec4 snorm false lo hi k) (num4 lo hi (denOf snorm) k)
      (den4 (denOf snorm) k) = true := by
  unfold chk4Pair at h
  have e1 : (256 * lo + hi) / 256 = lo := by omega
  have e2 : (256 * lo + hi) % 256 = hi := by omega
  have hg : ¬ (hi ≤ lo ∨ hi > denOf snorm) := by omega
  simp only [e1, e2, CF32.force_eq, if_neg hg, List.all_eq_true, List.mem_range] at h
  exact h k hk

theorem subPair_facts (snorm : Bool) (kind i : Nat) (hi : i + 1 < denOf snorm) :
    (subPair snorm kind i).2 < (subPair snorm kind i).1 ∧ (subPair snorm kind i).1 ≤ denOf snorm ∧
    (subPair snorm kind i).1 < 256 ∧ 1 ≤ (subPair snorm kind i).2 := by
  have hd : denOf snorm ≤ 255 := by cases snorm <;> decide
  unfold subPair
  by_cases h0 : kind = 0
  · rw [if_pos h0]
    exact ⟨by show i + 1 < denOf snorm; omega, Nat.le_refl _, by show denOf snorm < 256; omega, by show 1 ≤ i + 1; omega⟩
  · rw [if_neg h0]
    exact ⟨by show i + 1 < i + 2; omega, by show i + 2 ≤ _; omega, by show i + 2 < 256; omega, by show 1 ≤ i + 1; omega⟩

/-- the BC4 palettes in binary32 on the sub-domain: both modes, UNORM and SNORM -/
theorem bc4_palette_sub (snorm : Bool) (kind i : Nat) (hk : kind < 2) (hi : i + 1 < denOf snorm) :
    let hl := subPair snorm kind i
    (∀ j, 1 ≤ j → j < 8 →
      let e := endpointsOfBytes snorm (byteOf snorm hl.1) (byteOf snorm hl.2)
      okEntryT ((Inter6Palette.new e.c0f e.c1f).stepValue j) (dec4 snorm true hl.1 hl.2 (INDEX_MAP.getD j 0))
        (j * hl.1 + (7 - j) * hl.2) (7 * denOf snorm) = true) ∧
    (∀ k, k < 8 →
      let e := endpointsOfBytes snorm (byteOf snorm hl.2) (byteOf snorm hl.1)
      okEntryT ((inter4Colors e.c0f e.c1f).getD k 0) (dec4 snorm false hl.2 hl.1 k) (num4 hl.2 hl.1 (denOf snorm) k)
        (den4 (denOf snorm) k) = true) := by
  have f := subPair_facts snorm kind i hi
  have hlo : (subPair snorm kind i).2 < 256 := by omega
  exact ⟨fun j hj1 hj => chk6Pair_at snorm _ _ f.1 f.2.1 hlo (sub6 snorm kind i hk hi) j hj1 hj,
    fun k hk8 => chk4Pair_at snorm _ _ f.1 f.2.1 f.2.2.1 (sub4 snorm kind i hk hi) k hk8⟩

/-- `dec4` is what the decoder shows: the 8-bit pixel of a written block with these endpoint bytes and index `k` -/
theorem dec4_unorm (six : Bool) (l0 l1 k : Nat) :
    dec4 false six l0 l1 k = bc4Lut (bc4uOps .u8) l0 l1 l0 l1 six k := rfl

theorem dec4_snorm (six : Bool) (l0 l1 k : Nat) :
    dec4 true six l0 l1 k = bc4Lut (bc4sOps .u8) (s8n8 (fromNorm l0)) (s8n8 (fromNorm l1)) l0 l1 six k := rfl

end Dds.Enc15
