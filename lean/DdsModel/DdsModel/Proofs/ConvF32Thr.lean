/-
C04: `fp::n8` and `fp::n16` (`(x * 255.0 + 0.5) as u8`, `(x * 65535.0 + 0.5) as u16`) on ALL 2^32 binary32 bit
patterns, from the kernel-checked threshold tables (`Proofs/F32ThrTabFpN8.lean`, `F32ThrTabFpN16.lean`) and the
monotonicity of the software float (`Proofs/F32Mono.lean`).
-/
import DdsModel.Proofs.F32ThrTabFpN8
import DdsModel.Proofs.F32ThrTabFpN16
import DdsModel.Proofs.F32ThrDev
import DdsModel.Conv
namespace Dds.F32Thr
open Dds Dds.CF32 Dds.Conv Dds.Spec Dds.F32Mono

theorem ofNat_255 : ofNat 255 = 0x437F0000 := by decide +kernel
theorem ofNat_65535 : ofNat 65535 = 0x477FFF00 := by decide +kernel

theorem fpn8_eq_pipe (b : Nat) : fpn8 b = pipe 0x437F0000 half 255 b := by
  unfold fpn8 pipe; rw [ofNat_255]

theorem fpn16_eq_pipe (b : Nat) : fpn16 b = pipe 0x477FFF00 half 65535 b := by
  unfold fpn16 pipe; rw [ofNat_65535]

/-- the binary32 patterns for which `fp::n8` is one code above the nearest (128 patterns) -/
def fpN8Dev : List Nat := devOf FpN8.tbl
/-- the binary32 patterns for which `fp::n16` is one code above the nearest (32 768 patterns) -/
def fpN16Dev : List Nat := devOf FpN16.tbl

theorem ite_mem_congr (tbl : List Nat) (b : Nat) :
    (if (2 * b + 1) ∈ tbl then (1 : Int) else 0) = if b ∈ devOf tbl then 1 else 0 := by
  by_cases h : (2 * b + 1) ∈ tbl
  · rw [if_pos h, if_pos ((mem_devOf tbl b).mpr h)]
  · rw [if_neg h, if_neg (fun h' => h ((mem_devOf tbl b).mp h'))]

theorem fpn8_all (b : Nat) (hb : b < 2 ^ 32) :
    (fpn8 b : Int) = specCode 255 b + (if b ∈ fpN8Dev then 1 else 0) := by
  rw [fpn8_eq_pipe, pipe_half_all 0x437F0000 255 FpN8.tbl (by decide) (by decide) FpN8.tbl_len FpN8.tbl_ok b hb,
    ite_mem_congr]
  rfl

theorem fpn16_all (b : Nat) (hb : b < 2 ^ 32) :
    (fpn16 b : Int) = specCode 65535 b + (if b ∈ fpN16Dev then 1 else 0) := by
  rw [fpn16_eq_pipe, pipe_half_all 0x477FFF00 65535 FpN16.tbl (by decide) (by decide) FpN16.tbl_len FpN16.tbl_ok b hb,
    ite_mem_congr]
  rfl

/-- what holds on an exceptional pattern -/
theorem dev_half (K mx : Nat) (tbl : List Nat) (hK : K < 0x7F800000) (hK0 : 0 < K) (hlen : tbl.length = mx)
    (hc : chkList K half mx mx 0x7F800000 1 0 tbl = true) (b : Nat) (hm : b ∈ devOf tbl) :
    b + 1 < 0x7F800000 ∧ (pipe K half mx b : Int) = toCode mx (toRat b) + 1 ∧ 1 ≤ pipe K half mx b ∧
    toRat b < ((2 * pipe K half mx b - 1 : Nat) : Rat) / ((2 * mx : Nat) : Rat) ∧
    ((2 * pipe K half mx b - 1 : Nat) : Rat) / ((2 * mx : Nat) : Rat) ≤ toRat (b + 1) ∧
    admissible mx (toRat b) (pipe K half mx b) = true :=
  dev_facts K half mx mx 0x7F800000 tbl (Nat.le_refl _)
    (fun a b hab hb => pipe_mono hK hK0 (by decide) hab (by omega))
    (fun b hb => pipe_le K half mx b (by omega) hK hK0 (by decide)) hlen hc b ((mem_devOf tbl b).mp hm)

theorem fpn8_dev (b : Nat) (hm : b ∈ fpN8Dev) :
    b + 1 < 0x7F800000 ∧ (fpn8 b : Int) = toCode 255 (toRat b) + 1 ∧ 1 ≤ fpn8 b ∧
    toRat b < ((2 * fpn8 b - 1 : Nat) : Rat) / ((2 * 255 : Nat) : Rat) ∧
    ((2 * fpn8 b - 1 : Nat) : Rat) / ((2 * 255 : Nat) : Rat) ≤ toRat (b + 1) ∧
    admissible 255 (toRat b) (fpn8 b) = true := by
  rw [fpn8_eq_pipe]
  exact dev_half 0x437F0000 255 FpN8.tbl (by decide) (by decide) FpN8.tbl_len FpN8.tbl_ok b hm

theorem fpn16_dev (b : Nat) (hm : b ∈ fpN16Dev) :
    b + 1 < 0x7F800000 ∧ (fpn16 b : Int) = toCode 65535 (toRat b) + 1 ∧ 1 ≤ fpn16 b ∧
    toRat b < ((2 * fpn16 b - 1 : Nat) : Rat) / ((2 * 65535 : Nat) : Rat) ∧
    ((2 * fpn16 b - 1 : Nat) : Rat) / ((2 * 65535 : Nat) : Rat) ≤ toRat (b + 1) ∧
    admissible 65535 (toRat b) (fpn16 b) = true := by
  rw [fpn16_eq_pipe]
  exact dev_half 0x477FFF00 65535 FpN16.tbl (by decide) (by decide) FpN16.tbl_len FpN16.tbl_ok b hm

/-! ### the exception sets -/

set_option maxRecDepth 100000 in
theorem fpN8Dev_eq : fpN8Dev = 0x3B008080 :: (List.range 127).map (fun j => 0x3F000000 + (j + 1) * 0x010101) := by
  decide +kernel

/-- closed form of the 128 exceptions of `fp::n8`: the largest float below 1/510 and the largest floats below
`1/2 + j/255`, `j = 1 … 127` (patterns `0x3F000000 + j·0x010101`) -/
theorem fpN8Dev_closed (b : Nat) :
    b ∈ fpN8Dev ↔ (b = 0x3B008080 ∨ (0x3F000000 < b ∧ b < 0x3F800000 ∧ (b - 0x3F000000) % 0x010101 = 0)) := by
  rw [fpN8Dev_eq]
  simp only [List.mem_cons, List.mem_map, List.mem_range]
  constructor
  · rintro (h | ⟨j, hj, rfl⟩)
    · exact Or.inl h
    · right; omega
  · rintro (h | ⟨h1, h2, h3⟩)
    · exact Or.inl h
    · right
      exact ⟨(b - 0x3F000000) / 0x010101 - 1, by omega, by omega⟩

set_option maxRecDepth 100000 in
theorem fpN16Dev_length : fpN16Dev.length = 32768 := by
  unfold fpN16Dev
  rw [devOf_length]
  decide +kernel

end Dds.F32Thr
