/-
C12 carrier independence: the two scalar facts over the WHOLE 16-bit domain, assembled from the eight generated,
kernel-evaluated slices `Proofs/EncCarrierRows0…7.lean`.
-/
import DdsModel.Proofs.EncCarrierRows0
import DdsModel.Proofs.EncCarrierRows1
import DdsModel.Proofs.EncCarrierRows2
import DdsModel.Proofs.EncCarrierRows3
import DdsModel.Proofs.EncCarrierRows4
import DdsModel.Proofs.EncCarrierRows5
import DdsModel.Proofs.EncCarrierRows6
import DdsModel.Proofs.EncCarrierRows7
namespace Dds.EncCarrier
open Dds Dds.Conv Dds.Quant Dds.EncTotal

theorem chk16_all (w : Nat) (hw : w < 65536) : chk16 w = true := by
  by_cases c0 : w < 8192
  · exact rows0 w (by omega) c0
  by_cases c1 : w < 16384
  · exact rows1 w (by omega) c1
  by_cases c2 : w < 24576
  · exact rows2 w (by omega) c2
  by_cases c3 : w < 32768
  · exact rows3 w (by omega) c3
  by_cases c4 : w < 40960
  · exact rows4 w (by omega) c4
  by_cases c5 : w < 49152
  · exact rows5 w (by omega) c5
  by_cases c6 : w < 57344
  · exact rows6 w (by omega) c6
  exact rows7 w (by omega) hw

/-- `n16::from_f32(n16::f32(w)) = w` for all 65 536 values -/
theorem n16_n16f32 (w : Nat) (hw : w < 65536) : QuantF32.n16 (n16f32 w) = w := (chk16_sound w (chk16_all w hw)).1

/-- `s16::from_uf32(n16::f32(w)) = s16::from_n16(w)` for all 65 536 values -/
theorem s16_n16f32 (w : Nat) (hw : w < 65536) : QuantBits.s16 (n16f32 w) = some (s16_from_n16 w) :=
  (chk16_sound w (chk16_all w hw)).2

/-- `n16::f32(w)` is a finite non-negative bit pattern -/
theorem n16f32_lt (w : Nat) (hw : w < 65536) : n16f32 w < 2 ^ 32 :=
  Nat.lt_trans (chk16_lt w (chk16_all w hw)) (by decide)

end Dds.EncCarrier
