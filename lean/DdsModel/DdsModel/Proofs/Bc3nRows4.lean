/-
BC3n `calc_b` = specification `z8`: rows `r = 128 … 159` (all 256 values of `g` each), by kernel evaluation
of the checker of `Proofs/Bc3nCalc.lean` (GENERATED: the eight files `Bc3nRows0…7` differ only in the range).
-/
import DdsModel.Proofs.Bc3nCalc
namespace Dds.Bc3n
set_option maxRecDepth 100000

theorem chunk128 : rowsChk 128 8 = true := by decide +kernel
theorem chunk136 : rowsChk 136 8 = true := by decide +kernel
theorem chunk144 : rowsChk 144 8 = true := by decide +kernel
theorem chunk152 : rowsChk 152 8 = true := by decide +kernel

theorem rows4 (r g : Nat) (h1 : 128 ≤ r) (h2 : r < 160) (hg : g < 256) : Bc.calcB r g = BcSpec.z8 r g := by
  by_cases a : r < 136
  · exact of_rows 128 8 chunk128 r g (by omega) (by omega) (by omega) hg
  · by_cases b : r < 144
    · exact of_rows 136 8 chunk136 r g (by omega) (by omega) (by omega) hg
    · by_cases c : r < 152
      · exact of_rows 144 8 chunk144 r g (by omega) (by omega) (by omega) hg
      · exact of_rows 152 8 chunk152 r g (by omega) (by omega) (by omega) hg

end Dds.Bc3n
