/- finite facts: 8-bit values through half / binary32; shared-exponent exponent and mantissa range -/
import DdsModel.Proofs.Quant
namespace Dds.Quant
set_option maxRecDepth 100000
theorem holds_u8_all : allRange (fun v => q 8 (halfVal (half ((v : Rat) / 255))) == v
    && q 8 (f32Val (f32Bits ((v : Rat) / 255))) == v) 3 0 256 = true := by decide +kernel
def e9Ok (mx : Nat) : Bool :=
  decide (e9Exp ((mx : Rat) / 255) ≤ 16)
  && allRange (fun v => decide (qRatio (2 ^ (24 - e9Exp ((mx : Rat) / 255))) v 255 ≤ 511)) 2 0 (mx + 1)
theorem e9Ok_all : allRange e9Ok 2 1 255 = true := by decide +kernel
end Dds.Quant
