/-
C16 / C15 (mipmap-generating encoder): the trapping mirrors of `TrapMip.lean` return `some`.
Part 1: `get_aligned_slice`, `AlignedView`, `AlignedBuffer`, `resize_into` / `resize_typed` (the `resize` crate's
preconditions), `Aligner::align`.
-/
import DdsModel.TrapMip
import DdsModel.Proofs.TrapEnc
namespace Dds.TrapMip
open Dds Dds.Trap Dds.TrapEnc

/-- the largest pixel buffer the theorems cover: `2^62 − 16` bytes.  (Beyond it `Vec`'s amortised doubling — or, within
3 bytes of `isize::MAX`, the rounding up to whole `u32`s — can itself exceed `isize::MAX` bytes: "capacity overflow".
No 64-bit machine can hold such an input: 4 EiB.) -/
def BMAX : Nat := 4611686018427387888

/-- what is assumed of the allocator: `Vec<u32>` storage is 4-aligned -/
def AlOK (al : Alloc) : Prop := ∀ b n, al b n % 4 = 0

/-- state of a `Vec<u32>` in a history whose requests are all at most `BMAX` bytes -/
structure VecOK (b : VecBuf) : Prop where
  addr : b.addr % 4 = 0
  len : b.len ≤ b.cap
  cap : b.cap ≤ 2305843009213693948

theorem VecOK.empty : VecOK VecBuf.empty := ⟨rfl, Nat.le_refl _, by decide⟩

theorem bufferSizeT_eq {w h : Nat} {c : Color} (hc : c.OK) (hb : w * h * c.bpp < 9223372036854775807) :
    bufferSizeT w h c = some (w * h * c.bpp) := by
  have hp := Color.bpp_pos hc
  have : w * h * 1 ≤ w * h * c.bpp := Nat.mul_le_mul_left _ hp.1
  unfold bufferSizeT
  rw [mulU_of_lt (by omega), bind_some', mulU_of_lt (by omega), bind_some', if_pos hb]

theorem vecResizeT_ok {al : Alloc} (ha : AlOK al) {b : VecBuf} (hv : VecOK b) {n : Nat}
    (hn : n ≤ 1152921504606846972) :
    ∃ b', vecResizeT al b n = some b' ∧ VecOK b' ∧ b'.len = n := by
  unfold vecResizeT
  by_cases h : n ≤ b.cap
  · rw [if_pos h]; exact ⟨_, rfl, ⟨hv.addr, h, hv.cap⟩, rfl⟩
  · rw [if_neg h]
    have h1 : max (max (2 * b.cap) n) 4 ≤ 2305843009213693944 := by omega
    dsimp only
    rw [allocT_of_le (by omega), bind_some', pure_some']
    exact ⟨_, rfl, ⟨ha _ _, by show n ≤ max (max (2 * b.cap) n) 4; omega,
      by show max (max (2 * b.cap) n) 4 ≤ _; omega⟩, rfl⟩

theorem divCeil4 (s : Nat) : s ≤ divCeil s 4 * 4 ∧ divCeil s 4 * 4 < s + 4 := by
  unfold divCeil; split <;> omega

/-- `get_aligned_slice`: for ANY previous buffer state the slice has exactly the requested length, starts at the
(4-aligned) start of the buffer, and the buffer stays well-formed -/
theorem getAlignedSliceT_ok {al : Alloc} (ha : AlOK al) {b : VecBuf} (hv : VecOK b) {w h : Nat} {c : Color}
    (hc : c.OK) (hb : w * h * c.bpp ≤ BMAX) :
    ∃ b', getAlignedSliceT al b w h c = some (b', ⟨b'.addr, w * h * c.bpp⟩) ∧ VecOK b' ∧
      w * h * c.bpp ≤ b'.len * 4 ∧ (b.len * 4 < w * h * c.bpp ∨ b' = b) := by
  unfold BMAX at hb
  unfold getAlignedSliceT
  rw [bufferSizeT_eq hc (by omega), bind_some', divCeilU_of_ne (by omega), bind_some']
  generalize w * h * c.bpp = s at hb ⊢
  have hd := divCeil4 s
  by_cases hlt : b.len < divCeil s 4
  · rw [if_pos hlt]
    obtain ⟨b', e1, e2, e3⟩ := vecResizeT_ok ha hv (n := divCeil s 4) (by omega)
    rw [e1, bind_some']
    dsimp only
    rw [sliceTo_of_le (by rw [e3]; omega), bind_some', pure_some']
    exact ⟨b', rfl, e2, by rw [e3]; omega, Or.inl (by omega)⟩
  · rw [if_neg hlt, pure_some', bind_some']
    dsimp only
    rw [sliceTo_of_le (by omega), bind_some', pure_some']
    exact ⟨b, rfl, hv, by omega, Or.inr rfl⟩

/-! ## aligned views and buffers -/

/-- a well-formed `AlignedView`: non-empty size, exactly `w·h·bpp` bytes at an address aligned to the precision -/
structure AViewOK (a : AView) : Prop where
  col : a.c.OK
  w1 : 1 ≤ a.w
  h1 : 1 ≤ a.h
  bytes : a.w * a.h * a.c.bpp ≤ BMAX
  aligned : a.sl.addr % a.c.psize = 0
  len : a.sl.len = a.w * a.h * a.c.bpp

/-- a well-formed `AlignedBuffer` -/
structure ABufOK (b : ABuf) : Prop where
  col : b.c.OK
  w1 : 1 ≤ b.w
  h1 : 1 ≤ b.h
  bytes : b.w * b.h * b.c.bpp ≤ BMAX
  aligned : b.buf.addr % 4 = 0
  len : b.w * b.h * b.c.bpp ≤ b.buf.len * 4

theorem psize_dvd4 {c : Color} (hc : c.OK) {a : Nat} (h : a % 4 = 0) : a % c.psize = 0 := by
  rcases hc with h1 | h1 | h1 <;> rw [h1] <;> omega

theorem isAlignedT_eq {c : Color} (hc : c.OK) (s : Sl) : isAlignedT s c.psize = some (decide (s.addr % c.psize = 0)) := by
  unfold isAlignedT
  have : c.psize ≠ 0 := by rcases hc with h1 | h1 | h1 <;> omega
  rw [remU_of_ne this, bind_some', pure_some']

theorem alignedViewNewT_ok {s : Sl} {w h : Nat} {c : Color} (hc : c.OK) (hw : 1 ≤ w) (hh : 1 ≤ h)
    (hb : w * h * c.bpp ≤ BMAX) (hl : s.len = w * h * c.bpp) (ha : s.addr % c.psize = 0) :
    alignedViewNewT s w h c = some ⟨s, w, h, c⟩ ∧ AViewOK ⟨s, w, h, c⟩ := by
  refine ⟨?_, ⟨hc, hw, hh, hb, ha, hl⟩⟩
  unfold alignedViewNewT
  unfold BMAX at hb
  rw [bufferSizeT_eq hc (by omega), bind_some', dbgP_of hl, bind_some', isAlignedT_eq hc, bind_some',
    dbgP_of (by simpa using ha), bind_some', pure_some']

theorem asViewT_ok {b : ABuf} (hb : ABufOK b) :
    ∃ a, asViewT b = some a ∧ AViewOK a ∧ a.w = b.w ∧ a.h = b.h ∧ a.c = b.c := by
  have h1 := hb.bytes
  unfold BMAX at h1
  unfold asViewT
  rw [bufferSizeT_eq hb.col (by omega), bind_some', sliceTo_of_le hb.len, bind_some', pure_some']
  exact ⟨_, rfl, ⟨hb.col, hb.w1, hb.h1, hb.bytes, psize_dvd4 hb.col hb.aligned, rfl⟩, rfl, rfl, rfl⟩

theorem asImageViewT_ok {a : AView} (ha : AViewOK a) : asImageViewT a = some (a.w, a.h) := by
  have h1 := ha.bytes
  unfold BMAX at h1
  have hp := Color.bpp_pos ha.col
  have h2 : a.w * a.h * 1 ≤ a.w * a.h * a.c.bpp := Nat.mul_le_mul_left _ hp.1
  have h3 : a.w ≤ a.w * a.h := Nat.le_mul_of_pos_right _ ha.h1
  have h4 : a.w * a.c.bpp ≤ a.w * a.h * a.c.bpp := Nat.mul_le_mul_right _ h3
  have hw := ha.w1
  have hh := ha.h1
  unfold asImageViewT
  have he : ¬ (a.w = 0 ∨ a.h = 0) := by omega
  simp only [if_neg he]
  have hs : satMul64 (a.w * a.h) a.c.bpp = a.w * a.h * a.c.bpp := by
    unfold satMul64 U64; rw [if_pos (by omega)]
  rw [mulU_of_lt (by omega), bind_some', hs, dbgP_of ha.len, bind_some', mulU_of_lt (by omega), bind_some', pure_some']

theorem emitBufT_ok {b : ABuf} (hb : ABufOK b) : emitBufT b = some (b.w, b.h) := by
  obtain ⟨a, e1, e2, e3, e4, _⟩ := asViewT_ok hb
  unfold emitBufT
  rw [e1, bind_some', asImageViewT_ok e2, e3, e4]

/-! ## `resize_into`: every call meets the `resize` crate's preconditions -/

theorem bpp_eq (c : Color) : TrapUnc.chanCount c.ch * c.psize = c.bpp := rfl

theorem resizeTypedT_ok {src dst : Sl} {w1 h1 w2 h2 : Nat} {c : Color} (hc : c.OK)
    (hs : src.addr % c.psize = 0) (hd : dst.addr % c.psize = 0)
    (hsl : src.len = w1 * h1 * c.bpp) (hdl : dst.len = w2 * h2 * c.bpp)
    (p1 : 1 ≤ w1) (p2 : 1 ≤ h1) (p3 : 1 ≤ w2) (p4 : 1 ≤ h2) :
    resizeTypedT src dst w1 h1 w2 h2 (TrapUnc.chanCount c.ch) c.psize = some () := by
  have hp := Color.bpp_pos hc
  have hps : c.psize ≠ 0 := by rcases hc with h1 | h1 | h1 <;> omega
  unfold resizeTypedT fromBytesAlignedT
  rw [bpp_eq, remU_of_ne hps, bind_some', dbgP_of hs, bind_some']
  have f1 : TrapUnc.fromBytesT src.len c.bpp = some (w1 * h1) := by
    unfold TrapUnc.fromBytesT
    rw [if_pos ⟨by omega, by rw [hsl]; exact Nat.mul_mod_left _ _⟩, hsl, Nat.mul_div_cancel _ (by omega)]
  have f2 : TrapUnc.fromBytesT dst.len c.bpp = some (w2 * h2) := by
    unfold TrapUnc.fromBytesT
    rw [if_pos ⟨by omega, by rw [hdl]; exact Nat.mul_mod_left _ _⟩, hdl, Nat.mul_div_cancel _ (by omega)]
  rw [f1, bind_some', remU_of_ne hps, bind_some', dbgP_of hd, bind_some', f2, bind_some']
  unfold resizerNewT resizerResizeT
  rw [dbgP_of (by omega), bind_some', dbgP_of ⟨Nat.le_refl _, rfl⟩]

theorem resizeIntoT_ok {src : AView} (hs : AViewOK src) {dst : Sl} {w2 h2 : Nat} (sa : Bool)
    (p3 : 1 ≤ w2) (p4 : 1 ≤ h2) (hb : w2 * h2 * src.c.bpp ≤ BMAX)
    (hd : dst.addr % 4 = 0) (hdl : dst.len = w2 * h2 * src.c.bpp) :
    resizeIntoT src dst w2 h2 sa = some () := by
  have hd' := psize_dvd4 hs.col hd
  have ht := resizeTypedT_ok hs.col hs.aligned hd' hs.len hdl hs.w1 hs.h1 p3 p4
  unfold BMAX at hb
  unfold resizeIntoT
  rw [bufferSizeT_eq hs.col (by omega), bind_some', dbgP_of hdl, bind_some', isAlignedT_eq hs.col, bind_some',
    dbgP_of (by simpa using hs.aligned), bind_some', isAlignedT_eq hs.col, bind_some',
    dbgP_of (by simpa using hd'), bind_some']
  by_cases hr : (sa && decide (src.c.ch = .rgba)) = true
  · rw [if_pos hr]
    have : src.c.ch = .rgba := by simp at hr; exact hr.2
    have h4 : TrapUnc.chanCount src.c.ch = 4 := by rw [this]; rfl
    rw [← h4]; exact ht
  · rw [if_neg hr]; exact ht

theorem resizeFreshT_ok {al : Alloc} (ha : AlOK al) {src : AView} (hs : AViewOK src) {w2 h2 : Nat} (sa : Bool)
    (p3 : 1 ≤ w2) (p4 : 1 ≤ h2) (hb : w2 * h2 * src.c.bpp ≤ BMAX) :
    ∃ b, resizeFreshT al src w2 h2 sa = some b ∧ ABufOK b ∧ b.w = w2 ∧ b.h = h2 ∧ b.c = src.c := by
  obtain ⟨b', e1, e2, e3, _⟩ := getAlignedSliceT_ok ha VecOK.empty hs.col hb
  unfold resizeFreshT
  rw [e1, bind_some']
  simp only []
  rw [resizeIntoT_ok hs sa p3 p4 hb e2.addr rfl, bind_some']
  have hb' := hb
  unfold BMAX at hb'
  rw [bufferSizeT_eq hs.col (by omega), bind_some', dbgP_of e3, bind_some', pure_some']
  exact ⟨_, rfl, ⟨hs.col, p3, p4, hb, e2.addr, e3⟩, rfl, rfl, rfl⟩

theorem resizeStateT_ok {al : Alloc} (ha : AlOK al) {d : VecBuf} (hv : VecOK d) {src : AView} (hs : AViewOK src)
    {w2 h2 : Nat} (sa : Bool) (p3 : 1 ≤ w2) (p4 : 1 ≤ h2) (hb : w2 * h2 * src.c.bpp ≤ BMAX) :
    ∃ d' a, resizeStateT al d src w2 h2 sa = some (d', a) ∧ VecOK d' ∧ AViewOK a ∧ a.w = w2 ∧ a.h = h2 := by
  obtain ⟨b', e1, e2, e3, _⟩ := getAlignedSliceT_ok ha hv hs.col hb
  unfold resizeStateT
  rw [e1, bind_some']
  simp only []
  rw [resizeIntoT_ok hs sa p3 p4 hb e2.addr rfl, bind_some']
  obtain ⟨f1, f2⟩ := alignedViewNewT_ok (s := ⟨b'.addr, w2 * h2 * src.c.bpp⟩) hs.col p3 p4 hb rfl
    (psize_dvd4 hs.col e2.addr)
  rw [f1, bind_some', pure_some']
  exact ⟨_, _, rfl, e2, f2, rfl, rfl⟩

/-! ## `Aligner::align` -/

theorem alignRowsT_ok {h bpr : Nat} (hlt : h * bpr < 18446744073709551616) :
    alignRowsT (h * bpr) bpr (List.replicate h bpr) = some () := by
  unfold alignRowsT
  rw [mapIdxT_eq_map _ (fun _ => ()) _ (by
    intro y row hy hrow
    rw [List.length_replicate] at hy
    have hr : row = bpr := (List.mem_replicate.mp hrow).2
    have h1 : (y + 1) * bpr ≤ h * bpr := Nat.mul_le_mul_right _ (by omega)
    rw [Nat.succ_mul] at h1
    rw [dbgP_of hr, bind_some', mulU_of_lt (by omega), bind_some', addU_of_lt (by omega), bind_some',
      sliceRange_of ⟨by omega, h1⟩, bind_some', copyFromSliceT_of_eq (by omega)]), bind_some', pure_some']

/-- `Aligner::align` for every view of the public API (C20's invariant) with a non-empty size, at ANY address, with
any pitch, and for any previous state of the aligner's buffer: it returns an aligned view of exactly `w·h·bpp` bytes
with the view's size and colour -/
theorem alignT_ok {al : Alloc} (ha : AlOK al) {b : VecBuf} (hv : VecOK b) (addr : Nat) {v : View} {c : Color}
    (hvo : VOK v c) (hc : c.OK) (hw : 1 ≤ v.w) (hh : 1 ≤ v.h) (hb : v.w * v.h * c.bpp ≤ BMAX) :
    ∃ b' a, alignT al b addr v c = some (b', a) ∧ VecOK b' ∧ AViewOK a ∧ a.w = v.w ∧ a.h = v.h ∧ a.c = c := by
  have hbpp := hvo.bpp
  have hne : ¬ (v.w = 0 ∨ v.h = 0) := by omega
  have hb' := hb
  unfold BMAX at hb'
  have hp := Color.bpp_pos hc
  have h3 : v.w ≤ v.w * v.h := Nat.le_mul_of_pos_right _ hh
  have h4 : v.w * c.bpp ≤ v.w * v.h * c.bpp := Nat.mul_le_mul_right _ h3
  unfold alignT
  rw [isContiguousT_eq hvo, bind_some']
  by_cases hcg : v.pitch = v.w * v.bpp
  · -- contiguous
    have hlen : v.len = v.w * v.h * c.bpp := by rw [contiguous_len hvo hcg, hbpp]
    have e0 : (!decide (v.pitch = v.w * v.bpp)) = false := by simp [hcg]
    rw [e0]
    simp only [Bool.false_eq_true, if_false]
    rw [isAlignedT_eq hc, bind_some']
    by_cases hal : addr % c.psize = 0
    · have e1 : decide ((⟨addr, v.len⟩ : Sl).addr % c.psize = 0) = true := by simpa using hal
      rw [e1]
      simp only [if_true]
      obtain ⟨f1, f2⟩ := alignedViewNewT_ok (s := ⟨addr, v.len⟩) hc hw hh hb hlen hal
      rw [f1, bind_some', pure_some']
      exact ⟨_, _, rfl, hv, f2, rfl, rfl, rfl⟩
    · have e1 : decide ((⟨addr, v.len⟩ : Sl).addr % c.psize = 0) = false := by simpa using hal
      rw [e1]
      simp only [Bool.false_eq_true, if_false]
      obtain ⟨b', g1, g2, g3, _⟩ := getAlignedSliceT_ok ha hv hc hb
      rw [g1, bind_some']
      simp only []
      rw [copyFromSliceT_of_eq hlen.symm, bind_some']
      obtain ⟨f1, f2⟩ := alignedViewNewT_ok (s := ⟨b'.addr, v.w * v.h * c.bpp⟩) hc hw hh hb rfl
        (psize_dvd4 hc g2.addr)
      rw [f1, bind_some', pure_some']
      exact ⟨_, _, rfl, g2, f2, rfl, rfl, rfl⟩
  · have e0 : (!decide (v.pitch = v.w * v.bpp)) = true := by simp [hcg]
    rw [e0]
    simp only [if_true]
    obtain ⟨b', g1, g2, g3, _⟩ := getAlignedSliceT_ok ha hv hc hb
    rw [g1, bind_some']
    simp only []
    rw [mulU_of_lt (by omega), bind_some', rowsT_eq hvo, bind_some', hbpp]
    have hsl : v.w * v.h * c.bpp = v.h * (v.w * c.bpp) := by
      rw [Nat.mul_comm v.w v.h, Nat.mul_assoc]
    rw [hsl, alignRowsT_ok (by rw [← hsl]; omega), bind_some', ← hsl]
    obtain ⟨f1, f2⟩ := alignedViewNewT_ok (s := ⟨b'.addr, v.w * v.h * c.bpp⟩) hc hw hh hb rfl
      (psize_dvd4 hc g2.addr)
    rw [f1, bind_some', pure_some']
    exact ⟨_, _, rfl, g2, f2, rfl, rfl, rfl⟩

end Dds.TrapMip
