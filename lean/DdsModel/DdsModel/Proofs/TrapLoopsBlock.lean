/- Proofs for `TrapLoopsBlock.lean` (C01): the block helpers never trap under the callers' invariants. -/
import DdsModel.TrapLoopsBlock
import DdsModel.Proofs.TrapLoops
import DdsModel.Proofs.AddrBlock
namespace Dds.TrapLoops
open Dds Dds.Trap
open Dds.Addr (PRange)

/-- writes of a block function: inside the first `rowBytes` bytes of one of the `rows` rows of `d` (`stride` apart) -/
def RowsOK (d : Sl) (stride rows rowBytes : Nat) (s : Sl) : Prop :=
  s.buf = d.buf ∧ ∃ y, y < rows ∧ d.off + y * stride ≤ s.off ∧ s.off + s.len ≤ d.off + y * stride + rowBytes

/-- what a `ProcessBlocksFn` for `bx × by_` blocks of `bpb` bytes and `size`-byte pixels may assume of its arguments
(the `debug_assert!`s of :322–336 and the doc comments of `PixelRange`): exactly the blocks that cover
`[wo, wo + width)`, a non-empty row range inside the block, and `decoded` long enough for `rows` rows `stride` apart -/
structure BlkPre (bx by_ bpb size : Nat) (enc dec : Sl) (stride : Nat) (r : PRange) : Prop where
  bx_pos : 0 < bx
  bx_lt : bx < 256
  bpb_pos : 0 < bpb
  size_pos : 0 < size
  wo_lt : r.wo < bx
  w_ok : 0 < r.width ∨ r.wo = 0
  wsum_lt : r.width + r.wo < U32B
  enc_len : enc.len = divCeil (r.width + r.wo) bx * bpb
  rows : r.rs < r.re
  re_le : r.re ≤ by_
  dec_len : (r.re - r.rs - 1) * stride + r.width * size ≤ dec.len
  dec_lt : dec.len < USIZE

theorem generalRowsT_spec {bx by_ size : Nat} {dec : Sl} {stride : Nat} {r : PRange} {pixelX blockW pox : Nat}
    (hs : 0 < size) (hre : r.re ≤ by_) (hdl : (r.re - r.rs - 1) * stride + r.width * size ≤ dec.len)
    (hdlt : dec.len < USIZE) (hx : pixelX + blockW ≤ r.width) (hb : blockW + pox ≤ bx) :
    ∃ e, generalRowsT bx by_ size dec stride r pixelX blockW pox = some e ∧
      Quiet (RowsOK dec stride (r.re - r.rs) (r.width * size)) e := by
  unfold generalRowsT
  apply forT_quiet
  intro y hy
  rw [List.mem_range'_1] at hy
  have p1 : (y - r.rs) * stride ≤ (r.re - r.rs - 1) * stride := Nat.mul_le_mul_right _ (by omega)
  have p2 : (pixelX + blockW) * size ≤ r.width * size := Nat.mul_le_mul_right _ hx
  rw [Nat.add_mul] at p2
  have hlen : (y - r.rs) * stride + pixelX * size + blockW * size - ((y - r.rs) * stride + pixelX * size) =
      blockW * size := by omega
  have hq : blockW * size / size = blockW := Nat.mul_div_cancel _ hs
  have hidx : ∀ x, x < blockW → x < blockW ∧ y * bx + x + pox < bx * by_ := by
    intro x hx'
    refine ⟨hx', ?_⟩
    have h1 : (y + 1) * bx ≤ by_ * bx := Nat.mul_le_mul_right _ (by omega)
    rw [Nat.succ_mul] at h1
    rw [Nat.mul_comm bx by_]; omega
  rw [subU_of_le (by omega), bind_some', ckU_of_lt (by omega), bind_some', ckU_of_lt (by omega), bind_some',
    ckU_of_lt (by omega), bind_some', ckU_of_lt (by omega), bind_some', ckU_of_lt (by omega), bind_some',
    Sl.range_of ⟨by omega, by omega⟩, bind_some']
  simp only [hlen]
  rw [TrapUnc.fromBytesT_of ⟨by omega, Nat.mul_mod_left _ _⟩, bind_some', hq, dbgP_of rfl, bind_some', dbgP_of hidx,
    bind_some', pure_some']
  refine ⟨_, rfl, Quiet.one ⟨rfl, y - r.rs, by omega, ?_, ?_⟩⟩
  · simp only; omega
  · simp only; omega

/-- `pixel_x` before block `bi` -/
def pixelXAt (bx wo bi : Nat) : Nat := if bi = 0 then 0 else bi * bx - wo

theorem generalLoopT_spec {bx by_ size : Nat} {dec : Sl} {stride : Nat} {r : PRange} (hbx : 0 < bx) (hs : 0 < size)
    (hwo : r.wo < bx) (hw : r.width < U32B) (hbl : bx < 256) (hre : r.re ≤ by_)
    (hdl : (r.re - r.rs - 1) * stride + r.width * size ≤ dec.len) (hdlt : dec.len < USIZE) (nb : Nat)
    (hnb : ∀ j, j < nb → j * bx < r.width + r.wo) :
    ∀ (k bi : Nat), bi + k = nb →
      ∃ e, generalLoopT bx by_ size dec stride r (List.range' bi k) (pixelXAt bx r.wo bi) = some e ∧
        Quiet (RowsOK dec stride (r.re - r.rs) (r.width * size)) e := by
  intro k
  induction k with
  | zero => intro bi _; exact ⟨[], rfl, Quiet.nil _⟩
  | succ k ih =>
    intro bi hbi
    have hlt := hnb bi (by omega)
    rw [List.range'_succ]
    unfold generalLoopT
    simp only []
    unfold U32B at hw
    have hUS : (2 : Nat) ^ 40 < USIZE := by decide
    simp only [Nat.reducePow] at hUS
    have hbb : bx ≤ bi * bx ∨ bi = 0 := by
      by_cases h0 : bi = 0
      · exact Or.inr h0
      · exact Or.inl (Nat.le_mul_of_pos_left _ (by omega))
    -- the block width and the accumulator
    generalize hpox : (if bi = 0 then r.wo else 0) = pox
    have hpox' : pox ≤ r.wo ∧ (bi = 0 → pox = r.wo) ∧ (bi ≠ 0 → pox = 0) := by
      subst hpox; by_cases h0 : bi = 0 <;> simp [h0]
    have hX : pixelXAt bx r.wo bi + min (min (bx - pox) r.width) (r.width + r.wo - bi * bx) ≤ r.width := by
      unfold pixelXAt
      by_cases h0 : bi = 0
      · have hp0 := hpox'.2.1 h0
        rw [if_pos h0]; omega
      · have hp0 := hpox'.2.2 h0
        rw [if_neg h0]; omega
    have hB : min (min (bx - pox) r.width) (r.width + r.wo - bi * bx) + pox ≤ bx := by omega
    obtain ⟨e1, he1, q1⟩ := generalRowsT_spec (bx := bx) (by_ := by_) (stride := stride) (pox := pox) hs hre hdl hdlt hX hB
    have hnext : bi + 1 < nb → pixelXAt bx r.wo bi + min (min (bx - pox) r.width) (r.width + r.wo - bi * bx) =
        pixelXAt bx r.wo (bi + 1) := by
      intro hn
      have h2 := hnb (bi + 1) hn
      rw [Nat.succ_mul] at h2
      unfold pixelXAt
      rw [if_neg (by omega : bi + 1 ≠ 0), Nat.succ_mul]
      by_cases h0 : bi = 0
      · have hp0 := hpox'.2.1 h0
        rw [if_pos h0]; subst h0; simp only [Nat.zero_mul, Nat.zero_add, Nat.sub_zero] at *; omega
      · have hp0 := hpox'.2.2 h0
        rw [if_neg h0]; omega
    rw [subU_of_le (by omega), bind_some', ckU_of_lt (by omega), bind_some', ckU_of_lt (by omega), bind_some',
      subU_of_le (by omega), bind_some', he1, bind_some', ckU_of_lt (by omega), bind_some']
    by_cases hn : bi + 1 < nb
    · obtain ⟨e2, he2, q2⟩ := ih (bi + 1) (by omega)
      rw [hnext hn, he2, bind_some', pure_some']
      exact ⟨_, rfl, q1.append q2⟩
    · have hk : k = 0 := by omega
      subst hk
      simp only [List.range'_zero, generalLoopT, bind_some', pure_some']
      exact ⟨_, rfl, q1.append (Quiet.nil _)⟩

theorem divCeil_lt_mul {n b j : Nat} (hb : 0 < b) (hj : j < divCeil n b) : j * b < n :=
  (Addr.lt_divCeil_iff hb).1 hj

/-- **`general_process_blocks`** -/
theorem generalT_spec {bx by_ bpb size : Nat} {enc dec : Sl} {stride : Nat} {r : PRange}
    (h : BlkPre bx by_ bpb size enc dec stride r) :
    ∃ e, generalT bx by_ bpb size enc dec stride r = some e ∧
      Quiet (RowsOK dec stride (r.re - r.rs) (r.width * size)) e := by
  unfold generalT
  have hq : enc.len / bpb = divCeil (r.width + r.wo) bx := by rw [h.enc_len]; exact Nat.mul_div_cancel _ h.bpb_pos
  rw [dbgP_of h.wo_lt, bind_some', TrapUnc.fromBytesT_of ⟨by have := h.bpb_pos; omega, by
    rw [h.enc_len]; exact Nat.mul_mod_left _ _⟩, bind_some', hq, List.range_eq_range']
  have := generalLoopT_spec (by_ := by_) (stride := stride) h.bx_pos h.size_pos h.wo_lt (by have := h.wsum_lt; omega) h.bx_lt h.re_le h.dec_len
    h.dec_lt (divCeil (r.width + r.wo) bx) (fun j hj => divCeil_lt_mul h.bx_pos hj) (divCeil (r.width + r.wo) bx) 0
    (by omega)
  exact this

theorem RowsOK.mono {d : Sl} {stride rows a b : Nat} {s : Sl} (h : RowsOK d stride rows a s) (hab : a ≤ b) :
    RowsOK d stride rows b s := by
  obtain ⟨h1, y, h2, h3, h4⟩ := h
  exact ⟨h1, y, h2, h3, by omega⟩

/-- blocks left after the first one has been handled separately -/
theorem blocks_after_offset {bx width wo : Nat} (hbx : 0 < bx) (hwo : wo < bx) (hw : 0 < width) :
    divCeil (width + wo) bx = divCeil (width - min (bx - wo) width) bx + 1 := by
  by_cases hc : width ≤ bx - wo
  · rw [Nat.min_eq_right hc, Nat.sub_self, Stream.divCeil_zero, Addr.divCeil_le_one hbx (by omega) (by omega)]
  · rw [Nat.min_eq_left (by omega)]
    have : width + wo = (width - (bx - wo)) + bx := by omega
    rw [this, Addr.divCeil_add_self _ _ hbx]

theorem succ_mul_sub (d b : Nat) : (d + 1) * b - b = d * b := by rw [Nat.succ_mul]; omega

/-- **`handle_width_offset`** for a non-zero offset -/
theorem handleWidthOffsetT_spec {bx by_ bpb size : Nat} {enc dec : Sl} {stride : Nat} {r : PRange}
    (h : BlkPre bx by_ bpb size enc dec stride r) (hwo : r.wo ≠ 0) :
    ∃ e, handleWidthOffsetT bx by_ bpb size enc dec stride r =
        some (⟨enc.buf, enc.off + bpb, enc.len - bpb⟩, min (bx - r.wo) r.width * size,
          ⟨r.width - min (bx - r.wo) r.width, 0, r.rs, r.re⟩, e) ∧
      Quiet (RowsOK dec stride (r.re - r.rs) (r.width * size)) e ∧
      enc.len - bpb = divCeil (r.width - min (bx - r.wo) r.width) bx * bpb := by
  have hw : 0 < r.width := by rcases h.w_ok with h' | h' <;> omega
  have hwl := h.wsum_lt
  have hwol := h.wo_lt
  generalize hpw : min (bx - r.wo) r.width = pw
  have hpw' : 0 < pw ∧ pw ≤ r.width ∧ pw + r.wo ≤ bx := by subst hpw; omega
  have hD := blocks_after_offset h.bx_pos h.wo_lt hw
  rw [hpw] at hD
  have hel : enc.len - bpb = divCeil (r.width - pw) bx * bpb := by rw [h.enc_len, hD, succ_mul_sub]
  have hbe : bpb ≤ enc.len := by rw [h.enc_len, hD, Nat.succ_mul]; omega
  have p1 : pw * size ≤ r.width * size := Nat.mul_le_mul_right _ hpw'.2.1
  have hUS : (2 : Nat) ^ 40 < USIZE := by decide
  simp only [Nat.reducePow] at hUS
  have p2 : r.width * size ≤ dec.len := by have := h.dec_len; omega
  have pre : BlkPre bx by_ bpb size ⟨enc.buf, enc.off, bpb⟩ dec stride ⟨pw, r.wo, r.rs, r.re⟩ :=
    { bx_pos := h.bx_pos, bx_lt := h.bx_lt, bpb_pos := h.bpb_pos, size_pos := h.size_pos, wo_lt := h.wo_lt,
      w_ok := Or.inl hpw'.1, wsum_lt := by show pw + r.wo < U32B; omega,
      enc_len := by show bpb = divCeil (pw + r.wo) bx * bpb
                    rw [Addr.divCeil_le_one h.bx_pos (by omega) hpw'.2.2, Nat.one_mul],
      rows := h.rows, re_le := h.re_le,
      dec_len := by show (r.re - r.rs - 1) * stride + pw * size ≤ dec.len
                    have := h.dec_len; omega,
      dec_lt := h.dec_lt }
  obtain ⟨e, he, q⟩ := generalT_spec pre
  refine ⟨e, ?_, q.mono fun s hs => hs.mono p1, hel⟩
  unfold handleWidthOffsetT
  rw [dbgP_of h.wo_lt, bind_some', subU_of_le (by omega), bind_some']
  simp only [hpw]
  rw [if_neg (by omega), Sl.upto_of hbe, bind_some', he, bind_some', subU_of_le hpw'.2.1, bind_some', Sl.drop_of hbe,
    bind_some', ckU_of_lt (by have := h.dec_lt; omega), bind_some', pure_some']

theorem mul_rearr (S y size : Nat) : S * y * size = y * (S * size) := by
  rw [Nat.mul_comm S y, Nat.mul_assoc]

/-- **the aligned fast path of `process_4x4_blocks_helper`** -/
theorem fast4T_spec {bpb size : Nat} {enc dec : Sl} {stride width : Nat} (hb : 0 < bpb) (hs : 0 < size)
    (hel : enc.len = divCeil width 4 * bpb) (hst : stride % size = 0) (hdm : dec.len % size = 0)
    (hdl : 3 * stride + width * size ≤ dec.len) (hdlt : dec.len < USIZE) :
    ∃ e, fast4T bpb size enc dec stride width = some e ∧ Quiet (RowsOK dec stride 4 (width * size)) e := by
  generalize hS : stride / size = S
  generalize hn : dec.len / size = n
  have eS : stride = S * size := by rw [← hS]; exact (Nat.div_mul_cancel (Nat.dvd_of_mod_eq_zero hst)).symm
  have en : dec.len = n * size := by rw [← hn]; exact (Nat.div_mul_cancel (Nat.dvd_of_mod_eq_zero hdm)).symm
  have hfit : 3 * S + width ≤ n := by
    have : (3 * S + width) * size ≤ n * size := by rw [Nat.add_mul, Nat.mul_assoc, ← eS, ← en]; exact hdl
    exact Nat.le_of_mul_le_mul_right this hs
  have hnl : n ≤ dec.len := by rw [← hn]; exact Nat.div_le_self _ _
  have hq : enc.len / bpb = divCeil width 4 := by rw [hel]; exact Nat.mul_div_cancel _ hb
  have hdc := divCeil_eq width 4 (by omega)
  have hrow : ∀ (y pi bw : Nat), y < 4 → pi + bw ≤ width → 0 < bw →
      RowsOK dec stride 4 (width * size) ⟨dec.buf, dec.off + (S * y + pi) * size, bw * size⟩ := by
    intro y pi bw hy hp _
    have e1 : (S * y + pi) * size = y * stride + pi * size := by rw [Nat.add_mul, mul_rearr, ← eS]
    have e2 : (pi + bw) * size ≤ width * size := Nat.mul_le_mul_right _ hp
    rw [Nat.add_mul] at e2
    exact ⟨rfl, y, hy, by simp only; omega, by simp only; omega⟩
  unfold fast4T
  rw [TrapUnc.fromBytesT_of ⟨by omega, by rw [hel]; exact Nat.mul_mod_left _ _⟩, bind_some', hq]
  simp only [hS, hn]
  rw [dbgP_of (by omega), bind_some']
  obtain ⟨e1, he1, q1⟩ := forT_quiet (fun bi => do
      let pi ← ckU (bi * 4)
      forT (fun y => do
        let a ← ckU (S * y)
        let rs ← ckU (a + pi)
        let re ← ckU (rs + 4)
        dbgP (rs ≤ re ∧ re ≤ n)
        pure [Ev.wr ⟨dec.buf, dec.off + rs * size, 4 * size⟩]) (List.range 4))
    (RowsOK dec stride 4 (width * size)) (List.range (width / 4)) (by
      intro bi hbi
      have hbi : bi < width / 4 := List.mem_range.mp hbi
      show ∃ e, (do
        let pi ← ckU (bi * 4)
        forT (fun y => do
          let a ← ckU (S * y)
          let rs ← ckU (a + pi)
          let re ← ckU (rs + 4)
          dbgP (rs ≤ re ∧ re ≤ n)
          pure [Ev.wr ⟨dec.buf, dec.off + rs * size, 4 * size⟩]) (List.range 4)) = some e ∧ _
      rw [ckU_of_lt (by omega), bind_some']
      apply forT_quiet
      intro y hy
      have hy : y < 4 := List.mem_range.mp hy
      have hy3 : S * y ≤ S * 3 := Nat.mul_le_mul_left _ (by omega)
      rw [ckU_of_lt (by omega), bind_some', ckU_of_lt (by omega), bind_some', ckU_of_lt (by omega), bind_some',
        dbgP_of ⟨by omega, by omega⟩, bind_some', pure_some']
      exact ⟨_, rfl, Quiet.one (hrow y (bi * 4) 4 hy (by omega) (by omega))⟩)
  rw [he1, bind_some']
  by_cases hp : width % 4 ≠ 0
  · rw [if_pos hp]
    have hbw : width - width / 4 * 4 = width % 4 := by omega
    obtain ⟨e2, he2, q2⟩ := forT_quiet (fun y => do
        let a ← ckU (S * y)
        let rs ← ckU (a + width / 4 * 4)
        let re ← ckU (rs + (width - width / 4 * 4))
        dbgP (rs ≤ re ∧ re ≤ n)
        dbgP (∀ x, x < width - width / 4 * 4 → x < re - rs ∧ y * 4 + x < 16)
        pure [Ev.wr ⟨dec.buf, dec.off + rs * size, (width - width / 4 * 4) * size⟩])
      (RowsOK dec stride 4 (width * size)) (List.range 4) (by
        intro y hy
        have hy : y < 4 := List.mem_range.mp hy
        have hy3 : S * y ≤ S * 3 := Nat.mul_le_mul_left _ (by omega)
        show ∃ e, (do
          let a ← ckU (S * y)
          let rs ← ckU (a + width / 4 * 4)
          let re ← ckU (rs + (width - width / 4 * 4))
          dbgP (rs ≤ re ∧ re ≤ n)
          dbgP (∀ x, x < width - width / 4 * 4 → x < re - rs ∧ y * 4 + x < 16)
          pure [Ev.wr ⟨dec.buf, dec.off + rs * size, (width - width / 4 * 4) * size⟩]) = some e ∧ _
        rw [ckU_of_lt (by omega), bind_some', ckU_of_lt (by omega), bind_some', ckU_of_lt (by omega), bind_some',
          dbgP_of ⟨by omega, by omega⟩, bind_some', dbgP_of (by intro x hx; omega), bind_some', pure_some']
        exact ⟨_, rfl, Quiet.one (hrow y (width / 4 * 4) _ hy (by omega) (by omega))⟩)
    rw [dbgP_of (by omega), bind_some', ckU_of_lt (by omega), bind_some', subU_of_le (by omega), bind_some', he2,
      bind_some', pure_some']
    exact ⟨_, rfl, q1.append q2⟩
  · rw [if_neg hp, pure_some', bind_some', pure_some']
    exact ⟨_, rfl, q1.append (Quiet.nil _)⟩

theorem RowsOK.shift {d d' : Sl} {stride rows a b c : Nat} {s : Sl} (h : RowsOK d' stride rows a s)
    (hb : d'.buf = d.buf) (ho : d'.off = d.off + c) (hab : c + a ≤ b) : RowsOK d stride rows b s := by
  obtain ⟨h1, y, h2, h3, h4⟩ := h
  exact ⟨h1.trans hb, y, h2, by omega, by omega⟩

/-- `process_4x4_blocks_helper` after the offset: fast path or general path, whichever the run-time tests select -/
theorem proc4TailT_spec {bpb size : Nat} {enc dec : Sl} {stride : Nat} {r : PRange} (al : Sl → Bool)
    (h : BlkPre 4 4 bpb size enc dec stride r) (hwo : r.wo = 0) :
    ∃ e, proc4TailT bpb size al enc dec stride r = some e ∧
      Quiet (RowsOK dec stride (r.re - r.rs) (r.width * size)) e := by
  unfold proc4TailT
  rw [subU_of_le (by have := h.rows; omega), bind_some']
  by_cases hc : r.re - r.rs = 4 ∧ stride % size = 0 ∧ al dec = true ∧ dec.len % size = 0
  · rw [if_pos hc]
    obtain ⟨c1, c2, _, c4⟩ := hc
    have hl := h.dec_len
    rw [c1] at hl ⊢
    have hel := h.enc_len
    rw [hwo, Nat.add_zero] at hel
    exact fast4T_spec h.bpb_pos h.size_pos hel c2 c4 (by omega) h.dec_lt
  · rw [if_neg hc]
    exact generalT_spec h

/-- **`process_4x4_blocks_helper`** (every alignment oracle) -/
theorem proc4T_spec {bpb size : Nat} {enc dec : Sl} {stride : Nat} {r : PRange} (al : Sl → Bool)
    (h : BlkPre 4 4 bpb size enc dec stride r) :
    ∃ e, proc4T bpb size al enc dec stride r = some e ∧ Quiet (RowsOK dec stride (r.re - r.rs) (r.width * size)) e := by
  have hrows := h.rows
  have hre := h.re_le
  have hq : enc.len / bpb = divCeil (r.width + r.wo) 4 := by rw [h.enc_len]; exact Nat.mul_div_cancel _ h.bpb_pos
  have hm : enc.len % bpb = 0 := by rw [h.enc_len]; exact Nat.mul_mod_left _ _
  have hdl := h.dec_len
  have hdlt := h.dec_lt
  have hws := h.wsum_lt
  have e1 : stride * (r.re - r.rs - 1) = (r.re - r.rs - 1) * stride := Nat.mul_comm _ _
  unfold proc4T
  rw [subU_of_le (by omega), bind_some', dbgP_of (by omega), bind_some', modT_of_ne (by have := h.bpb_pos; omega),
    bind_some', dbgP_of hm, bind_some', div_of_ne (by have := h.bpb_pos; omega), bind_some', ck32_of_lt (by omega),
    bind_some', divCeilT_of_ne (by omega), bind_some', dbgP_of (by rw [hq, Nat.add_comm]), bind_some',
    subU_of_le (by omega), bind_some', ckU_of_lt (by omega), bind_some', ckU_of_lt (by omega), bind_some',
    ckU_of_lt (by omega), bind_some', dbgP_of (by show dec.len ≥ _; omega), bind_some']
  by_cases hwo : r.wo ≠ 0
  · rw [if_pos hwo]
    obtain ⟨e0, he0, q0, hel'⟩ := handleWidthOffsetT_spec h hwo
    have hw : 0 < r.width := by rcases h.w_ok with h' | h' <;> omega
    generalize hpw : min (4 - r.wo) r.width = pw at he0 hel'
    have hpw' : 0 < pw ∧ pw ≤ r.width := by have := h.wo_lt; subst hpw; omega
    have p1 : pw * size + (r.width - pw) * size = r.width * size := by rw [← Nat.add_mul]; congr 1; omega
    have pre : BlkPre 4 4 bpb size ⟨enc.buf, enc.off + bpb, enc.len - bpb⟩
        ⟨dec.buf, dec.off + pw * size, dec.len - pw * size⟩ stride ⟨r.width - pw, 0, r.rs, r.re⟩ :=
      { bx_pos := h.bx_pos, bx_lt := h.bx_lt, bpb_pos := h.bpb_pos, size_pos := h.size_pos, wo_lt := by show 0 < 4; omega,
        w_ok := Or.inr rfl, wsum_lt := by show r.width - pw + 0 < U32B; omega,
        enc_len := by show enc.len - bpb = divCeil (r.width - pw + 0) 4 * bpb; rw [Nat.add_zero]; exact hel',
        rows := h.rows, re_le := h.re_le,
        dec_len := by show (r.re - r.rs - 1) * stride + (r.width - pw) * size ≤ dec.len - pw * size; omega,
        dec_lt := by show dec.len - pw * size < USIZE; omega }
    obtain ⟨e1', he1, q1⟩ := proc4TailT_spec al pre rfl
    rw [he0, bind_some']
    simp only []
    rw [Sl.drop_of (by omega), bind_some', he1, bind_some', pure_some']
    refine ⟨_, rfl, q0.append (q1.mono fun s hs => hs.shift rfl rfl (by show pw * size + (r.width - pw) * size ≤ _; omega))⟩
  · rw [if_neg hwo]
    exact proc4TailT_spec al h (by omega)

theorem proc2TailT_spec {size : Nat} {dec : Sl} {width off total : Nat} (hs : 0 < size) (hoff : off + width = total)
    (hdl : total * size ≤ dec.len) (hdlt : dec.len < USIZE) :
    ∃ e, proc2TailT size dec width (divCeil width 2) width off = some e ∧ Quiet (RowsOK dec 0 1 (total * size)) e := by
  have hdc := divCeil_eq width 2 (by omega)
  have hwr : ∀ (a b : Nat), a + b ≤ total → RowsOK dec 0 1 (total * size) ⟨dec.buf, dec.off + a * size, b * size⟩ := by
    intro a b hab
    have : (a + b) * size ≤ total * size := Nat.mul_le_mul_right _ hab
    rw [Nat.add_mul] at this
    exact ⟨rfl, 0, by omega, by simp only; omega, by simp only; omega⟩
  have hts : total ≤ total * size := Nat.le_mul_of_pos_right _ hs
  unfold proc2TailT
  rw [dbgP_of rfl, bind_some']
  simp only []
  rw [ckU_of_lt (by omega), bind_some', dbgP_of (by omega), bind_some',
    TrapUnc.fromBytesT_of ⟨by omega, by rw [Nat.mul_assoc]; exact Nat.mul_mod_left _ _⟩, bind_some']
  have hmin : min (divCeil width 2) (width / 2) = width / 2 := by rw [hdc]; omega
  rw [hmin]
  have qe1 : Quiet (RowsOK dec 0 1 (total * size))
      (if width / 2 = 0 then [] else [Ev.wr ⟨dec.buf, dec.off + off * size, width / 2 * (2 * size)⟩]) := by
    by_cases h0 : width / 2 = 0
    · rw [if_pos h0]; exact Quiet.nil _
    · rw [if_neg h0, ← Nat.mul_assoc]; exact Quiet.one (hwr off (width / 2 * 2) (by omega))
  by_cases hodd : width % 2 = 1
  · rw [if_pos hodd, dbgP_of (by rw [hdc]; omega), bind_some', subU_of_le (by omega), bind_some', dbgP_of (by omega),
      bind_some', pure_some', bind_some', pure_some']
    refine ⟨_, rfl, qe1.append (Quiet.one ?_)⟩
    have := hwr (off + (width - 1)) 1 (by omega)
    rwa [Nat.one_mul] at this
  · rw [if_neg hodd, pure_some', bind_some', pure_some']
    exact ⟨_, rfl, qe1.append (Quiet.nil _)⟩

/-- **`process_2x1_blocks_helper`** -/
theorem proc2T_spec {bpb size : Nat} {enc dec : Sl} {stride : Nat} {r : PRange}
    (h : BlkPre 2 1 bpb size enc dec stride r) :
    ∃ e, proc2T bpb size enc dec r = some e ∧ Quiet (RowsOK dec stride (r.re - r.rs) (r.width * size)) e := by
  have hrows := h.rows
  have hre := h.re_le
  have hr1 : r.re - r.rs = 1 := by omega
  have hq : enc.len / bpb = divCeil (r.width + r.wo) 2 := by rw [h.enc_len]; exact Nat.mul_div_cancel _ h.bpb_pos
  have hm : enc.len % bpb = 0 := by rw [h.enc_len]; exact Nat.mul_mod_left _ _
  have hdl : r.width * size ≤ dec.len := by have := h.dec_len; omega
  have hdlt := h.dec_lt
  have hs := h.size_pos
  have hq2 : r.width * size / size = r.width := Nat.mul_div_cancel _ hs
  have conv : ∀ e, Quiet (RowsOK dec 0 1 (r.width * size)) e → Quiet (RowsOK dec stride (r.re - r.rs) (r.width * size)) e := by
    intro e q
    refine q.mono fun s hs => ?_
    obtain ⟨h1, y, h2, h3, h4⟩ := hs
    have : y = 0 := by omega
    subst this
    exact ⟨h1, 0, by omega, by omega, by omega⟩
  unfold proc2T
  rw [TrapUnc.fromBytesT_of ⟨by have := h.bpb_pos; omega, hm⟩, bind_some', hq, ckU_of_lt (by omega), bind_some',
    Sl.upto_of hdl, bind_some']
  simp only []
  rw [TrapUnc.fromBytesT_of ⟨by omega, Nat.mul_mod_left _ _⟩, bind_some', hq2, dbgP_of rfl, bind_some']
  by_cases hwo : r.wo = 1
  · rw [if_pos hwo]
    have hw : 0 < r.width := by rcases h.w_ok with h' | h' <;> omega
    have hD := blocks_after_offset (bx := 2) (width := r.width) (wo := r.wo) (by omega) h.wo_lt hw
    rw [hwo] at hD ⊢
    have hmin : min (2 - 1) r.width = 1 := by omega
    rw [hmin] at hD
    obtain ⟨e1, he1, q1⟩ := proc2TailT_spec (dec := dec) (width := r.width - 1) (off := 1) (total := r.width) hs (by omega)
      hdl hdlt
    rw [dbgP_of hw, bind_some', dbgP_of (by omega), bind_some', bind_some', subU_of_le (by omega), bind_some',
      dbgP_of (by omega), bind_some', dbgP_of (by omega), bind_some', hD, Nat.add_sub_cancel, he1, bind_some', pure_some']
    refine ⟨_, rfl, conv _ (Quiet.append (Quiet.one ⟨rfl, 0, by omega, by simp, ?_⟩) q1)⟩
    have : 1 * size ≤ r.width * size := Nat.mul_le_mul_right _ hw
    simp only; omega
  · rw [if_neg hwo]
    have hwo0 : r.wo = 0 := by have := h.wo_lt; omega
    rw [hwo0, Nat.add_zero]
    obtain ⟨e1, he1, q1⟩ := proc2TailT_spec (dec := dec) (width := r.width) (off := 0) (total := r.width) hs (by omega)
      hdl hdlt
    exact ⟨e1, he1, conv _ q1⟩

/-- the unit sizes a `ProcessBlocksFn` shape is instantiated with -/
def BlkFn.Shape (p : BlkFn) (bpb : Nat) : Prop :=
  0 < p.bx ∧ p.bx < 256 ∧ 0 < p.by_ ∧ p.by_ < 256 ∧ 0 < bpb ∧ (p = .eight → bpb = 1)

/-- **every `ProcessBlocksFn`** under the contract `BlkPre` of its arguments -/
theorem BlkFn.runT_spec {p : BlkFn} {bpb size : Nat} {enc dec : Sl} {stride : Nat} {r : PRange} (al : Sl → Bool)
    (hp : p.Shape bpb) (h : BlkPre p.bx p.by_ bpb size enc dec stride r) :
    ∃ e, p.runT bpb size al enc dec stride r = some e ∧ Quiet (RowsOK dec stride (r.re - r.rs) (r.width * size)) e := by
  cases p with
  | general bx b => exact generalT_spec h
  | four => exact proc4T_spec al h
  | two => exact proc2T_spec h
  | eight =>
    have : bpb = 1 := hp.2.2.2.2.2 rfl
    subst this
    exact generalT_spec h

end Dds.TrapLoops
