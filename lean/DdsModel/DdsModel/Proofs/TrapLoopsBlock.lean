/- Proofs for `TrapLoopsBlock.lean` (C01): the block helpers never trap under the callers' invariants. -/
import DdsModel.TrapLoopsBlock
import DdsModel.Proofs.TrapLoops
import DdsModel.Proofs.AddrBlock
import DdsModel.Theorems.C05
namespace Dds.TrapLoops
open Dds Dds.Trap
open Dds.Addr (PRange)

/-- writes of a block function: inside the first `rowBytes` bytes of one of the `rows` rows of `d` (`stride` apart) -/
def RowsOK (d : Sl) (stride rows rowBytes : Nat) (s : Sl) : Prop :=
  s.buf = d.buf ∧ ∃ y, y < rows ∧ d.off + y * stride ≤ s.off ∧ s.off + s.len ≤ d.off + y * stride + rowBytes

/-- what a `ProcessBlocksFn` for `bx × by_` blocks of `bpb` bytes and `size`-byte pixels may assume of its arguments
(the `debug_assert!`s of :322–336 and the doc comments of `PixelRange`): exactly the blocks that cover
`[wo, wo + width)`, a non-empty row range inside the block, and `decoded` long enough for `rows` rows `stride` apart -/
structure BlkPre (bx by_ bpb size : Nat) (enc dec : Sl) (stride : Nat) (r : PRange) : Prop where
  bx_pos : 0 < bx
  bx_lt : bx < 256
  bpb_pos : 0 < bpb
  size_pos : 0 < size
  wo_lt : r.wo < bx
  w_ok : 0 < r.width ∨ r.wo = 0
  wsum_lt : r.width + r.wo < U32B
  enc_len : enc.len = divCeil (r.width + r.wo) bx * bpb
  rows : r.rs < r.re
  re_le : r.re ≤ by_
  dec_len : (r.re - r.rs - 1) * stride + r.width * size ≤ dec.len
  dec_lt : dec.len < USIZE

theorem generalRowsT_spec {bx by_ size : Nat} {dec : Sl} {stride : Nat} {r : PRange} {pixelX blockW pox : Nat}
    (hs : 0 < size) (hre : r.re ≤ by_) (hdl : (r.re - r.rs - 1) * stride + r.width * size ≤ dec.len)
    (hdlt : dec.len < USIZE) (hx : pixelX + blockW ≤ r.width) (hb : blockW + pox ≤ bx) :
    ∃ e, generalRowsT bx by_ size dec stride r pixelX blockW pox = some e ∧
      Quiet (RowsOK dec stride (r.re - r.rs) (r.width * size)) e := by
  unfold generalRowsT
  apply forT_quiet
  intro y hy
  rw [List.mem_range'_1] at hy
  have p1 : (y - r.rs) * stride ≤ (r.re - r.rs - 1) * stride := Nat.mul_le_mul_right _ (by omega)
  have p2 : (pixelX + blockW) * size ≤ r.width * size := Nat.mul_le_mul_right _ hx
  rw [Nat.add_mul] at p2
  have hlen : (y - r.rs) * stride + pixelX * size + blockW * size - ((y - r.rs) * stride + pixelX * size) =
      blockW * size := by omega
  have hq : blockW * size / size = blockW := Nat.mul_div_cancel _ hs
  have hidx : ∀ x, x < blockW → x < blockW ∧ y * bx + x + pox < bx * by_ := by
    intro x hx'
    refine ⟨hx', ?_⟩
    have h1 : (y + 1) * bx ≤ by_ * bx := Nat.mul_le_mul_right _ (by omega)
    rw [Nat.succ_mul] at h1
    rw [Nat.mul_comm bx by_]; omega
  rw [subU_of_le (by omega), bind_some', ckU_of_lt (by omega), bind_some', ckU_of_lt (by omega), bind_some',
    ckU_of_lt (by omega), bind_some', ckU_of_lt (by omega), bind_some', ckU_of_lt (by omega), bind_some',
    Sl.range_of ⟨by omega, by omega⟩, bind_some']
  simp only [hlen]
  rw [TrapUnc.fromBytesT_of ⟨by omega, Nat.mul_mod_left _ _⟩, bind_some', hq, dbgP_of rfl, bind_some', dbgP_of hidx,
    bind_some', pure_some']
  refine ⟨_, rfl, Quiet.one ⟨rfl, y - r.rs, by omega, ?_, ?_⟩⟩
  · simp only; omega
  · simp only; omega

/-- `pixel_x` before block `bi` -/
def pixelXAt (bx wo bi : Nat) : Nat := if bi = 0 then 0 else bi * bx - wo

theorem generalLoopT_spec {bx by_ size : Nat} {dec : Sl} {stride : Nat} {r : PRange} (hbx : 0 < bx) (hs : 0 < size)
    (hwo : r.wo < bx) (hw : r.width < U32B) (hbl : bx < 256) (hre : r.re ≤ by_)
    (hdl : (r.re - r.rs - 1) * stride + r.width * size ≤ dec.len) (hdlt : dec.len < USIZE) (nb : Nat)
    (hnb : ∀ j, j < nb → j * bx < r.width + r.wo) :
    ∀ (k bi : Nat), bi + k = nb →
      ∃ e, generalLoopT bx by_ size dec stride r (List.range' bi k) (pixelXAt bx r.wo bi) = some e ∧
        Quiet (RowsOK dec stride (r.re - r.rs) (r.width * size)) e := by
  intro k
  induction k with
  | zero => intro bi _; exact ⟨[], rfl, Quiet.nil _⟩
  | succ k ih =>
    intro bi hbi
    have hlt := hnb bi (by omega)
    rw [List.range'_succ]
    unfold generalLoopT
    simp only []
    unfold U32B at hw
    have hUS : (2 : Nat) ^ 40 < USIZE := by decide
    simp only [Nat.reducePow] at hUS
    have hbb : bx ≤ bi * bx ∨ bi = 0 := by
      by_cases h0 : bi = 0
      · exact Or.inr h0
      · exact Or.inl (Nat.le_mul_of_pos_left _ (by omega))
    -- the block width and the accumulator
    generalize hpox : (if bi = 0 then r.wo else 0) = pox
    have hpox' : pox ≤ r.wo ∧ (bi = 0 → pox = r.wo) ∧ (bi ≠ 0 → pox = 0) := by
      subst hpox; by_cases h0 : bi = 0 <;> simp [h0]
    have hX : pixelXAt bx r.wo bi + min (min (bx - pox) r.width) (r.width + r.wo - bi * bx) ≤ r.width := by
      unfold pixelXAt
      by_cases h0 : bi = 0
      · have hp0 := hpox'.2.1 h0
        rw [if_pos h0]; omega
      · have hp0 := hpox'.2.2 h0
        rw [if_neg h0]; omega
    have hB : min (min (bx - pox) r.width) (r.width + r.wo - bi * bx) + pox ≤ bx := by omega
    obtain ⟨e1, he1, q1⟩ := generalRowsT_spec (bx := bx) (by_ := by_) (stride := stride) (pox := pox) hs hre hdl hdlt hX hB
    have hnext : bi + 1 < nb → pixelXAt bx r.wo bi + min (min (bx - pox) r.width) (r.width + r.wo - bi * bx) =
        pixelXAt bx r.wo (bi + 1) := by
      intro hn
      have h2 := hnb (bi + 1) hn
      rw [Nat.succ_mul] at h2
      unfold pixelXAt
      rw [if_neg (by omega : bi + 1 ≠ 0), Nat.succ_mul]
      by_cases h0 : bi = 0
      · have hp0 := hpox'.2.1 h0
        rw [if_pos h0]; subst h0; simp only [Nat.zero_mul, Nat.zero_add, Nat.sub_zero] at *; omega
      · have hp0 := hpox'.2.2 h0
        rw [if_neg h0]; omega
    rw [subU_of_le (by omega), bind_some', ckU_of_lt (by omega), bind_some', ckU_of_lt (by omega), bind_some',
      subU_of_le (by omega), bind_some', he1, bind_some', ckU_of_lt (by omega), bind_some']
    by_cases hn : bi + 1 < nb
    · obtain ⟨e2, he2, q2⟩ := ih (bi + 1) (by omega)
      rw [hnext hn, he2, bind_some', pure_some']
      exact ⟨_, rfl, q1.append q2⟩
    · have hk : k = 0 := by omega
      subst hk
      simp only [List.range'_zero, generalLoopT, bind_some', pure_some']
      exact ⟨_, rfl, q1.append (Quiet.nil _)⟩

theorem divCeil_lt_mul {n b j : Nat} (hb : 0 < b) (hj : j < divCeil n b) : j * b < n :=
  (Addr.lt_divCeil_iff hb).1 hj

/-- **`general_process_blocks`** -/
theorem generalT_spec {bx by_ bpb size : Nat} {enc dec : Sl} {stride : Nat} {r : PRange}
    (h : BlkPre bx by_ bpb size enc dec stride r) :
    ∃ e, generalT bx by_ bpb size enc dec stride r = some e ∧
      Quiet (RowsOK dec stride (r.re - r.rs) (r.width * size)) e := by
  unfold generalT
  have hq : enc.len / bpb = divCeil (r.width + r.wo) bx := by rw [h.enc_len]; exact Nat.mul_div_cancel _ h.bpb_pos
  rw [dbgP_of h.wo_lt, bind_some', TrapUnc.fromBytesT_of ⟨by have := h.bpb_pos; omega, by
    rw [h.enc_len]; exact Nat.mul_mod_left _ _⟩, bind_some', hq, List.range_eq_range']
  have := generalLoopT_spec (by_ := by_) (stride := stride) h.bx_pos h.size_pos h.wo_lt (by have := h.wsum_lt; omega) h.bx_lt h.re_le h.dec_len
    h.dec_lt (divCeil (r.width + r.wo) bx) (fun j hj => divCeil_lt_mul h.bx_pos hj) (divCeil (r.width + r.wo) bx) 0
    (by omega)
  exact this

theorem RowsOK.mono {d : Sl} {stride rows a b : Nat} {s : Sl} (h : RowsOK d stride rows a s) (hab : a ≤ b) :
    RowsOK d stride rows b s := by
  obtain ⟨h1, y, h2, h3, h4⟩ := h
  exact ⟨h1, y, h2, h3, by omega⟩

/-- blocks left after the first one has been handled separately -/
theorem blocks_after_offset {bx width wo : Nat} (hbx : 0 < bx) (hwo : wo < bx) (hw : 0 < width) :
    divCeil (width + wo) bx = divCeil (width - min (bx - wo) width) bx + 1 := by
  by_cases hc : width ≤ bx - wo
  · rw [Nat.min_eq_right hc, Nat.sub_self, Stream.divCeil_zero, Addr.divCeil_le_one hbx (by omega) (by omega)]
  · rw [Nat.min_eq_left (by omega)]
    have : width + wo = (width - (bx - wo)) + bx := by omega
    rw [this, Addr.divCeil_add_self _ _ hbx]

theorem succ_mul_sub (d b : Nat) : (d + 1) * b - b = d * b := by rw [Nat.succ_mul]; omega

/-- **`handle_width_offset`** for a non-zero offset -/
theorem handleWidthOffsetT_spec {bx by_ bpb size : Nat} {enc dec : Sl} {stride : Nat} {r : PRange}
    (h : BlkPre bx by_ bpb size enc dec stride r) (hwo : r.wo ≠ 0) :
    ∃ e, handleWidthOffsetT bx by_ bpb size enc dec stride r =
        some (⟨enc.buf, enc.off + bpb, enc.len - bpb⟩, min (bx - r.wo) r.width * size,
          ⟨r.width - min (bx - r.wo) r.width, 0, r.rs, r.re⟩, e) ∧
      Quiet (RowsOK dec stride (r.re - r.rs) (r.width * size)) e ∧
      enc.len - bpb = divCeil (r.width - min (bx - r.wo) r.width) bx * bpb := by
  have hw : 0 < r.width := by rcases h.w_ok with h' | h' <;> omega
  have hwl := h.wsum_lt
  have hwol := h.wo_lt
  generalize hpw : min (bx - r.wo) r.width = pw
  have hpw' : 0 < pw ∧ pw ≤ r.width ∧ pw + r.wo ≤ bx := by subst hpw; omega
  have hD := blocks_after_offset h.bx_pos h.wo_lt hw
  rw [hpw] at hD
  have hel : enc.len - bpb = divCeil (r.width - pw) bx * bpb := by rw [h.enc_len, hD, succ_mul_sub]
  have hbe : bpb ≤ enc.len := by rw [h.enc_len, hD, Nat.succ_mul]; omega
  have p1 : pw * size ≤ r.width * size := Nat.mul_le_mul_right _ hpw'.2.1
  have hUS : (2 : Nat) ^ 40 < USIZE := by decide
  simp only [Nat.reducePow] at hUS
  have p2 : r.width * size ≤ dec.len := by have := h.dec_len; omega
  have pre : BlkPre bx by_ bpb size ⟨enc.buf, enc.off, bpb⟩ dec stride ⟨pw, r.wo, r.rs, r.re⟩ :=
    { bx_pos := h.bx_pos, bx_lt := h.bx_lt, bpb_pos := h.bpb_pos, size_pos := h.size_pos, wo_lt := h.wo_lt,
      w_ok := Or.inl hpw'.1, wsum_lt := by show pw + r.wo < U32B; omega,
      enc_len := by show bpb = divCeil (pw + r.wo) bx * bpb
                    rw [Addr.divCeil_le_one h.bx_pos (by omega) hpw'.2.2, Nat.one_mul],
      rows := h.rows, re_le := h.re_le,
      dec_len := by show (r.re - r.rs - 1) * stride + pw * size ≤ dec.len
                    have := h.dec_len; omega,
      dec_lt := h.dec_lt }
  obtain ⟨e, he, q⟩ := generalT_spec pre
  refine ⟨e, ?_, q.mono fun s hs => hs.mono p1, hel⟩
  unfold handleWidthOffsetT
  rw [dbgP_of h.wo_lt, bind_some', subU_of_le (by omega), bind_some']
  simp only [hpw]
  rw [if_neg (by omega), Sl.upto_of hbe, bind_some', he, bind_some', subU_of_le hpw'.2.1, bind_some', Sl.drop_of hbe,
    bind_some', ckU_of_lt (by have := h.dec_lt; omega), bind_some', pure_some']

theorem mul_rearr (S y size : Nat) : S * y * size = y * (S * size) := by
  rw [Nat.mul_comm S y, Nat.mul_assoc]

/-- **the aligned fast path of `process_4x4_blocks_helper`** -/
theorem fast4T_spec {bpb size : Nat} {enc dec : Sl} {stride width : Nat} (hb : 0 < bpb) (hs : 0 < size)
    (hel : enc.len = divCeil width 4 * bpb) (hst : stride % size = 0) (hdm : dec.len % size = 0)
    (hdl : 3 * stride + width * size ≤ dec.len) (hdlt : dec.len < USIZE) :
    ∃ e, fast4T bpb size enc dec stride width = some e ∧ Quiet (RowsOK dec stride 4 (width * size)) e := by
  generalize hS : stride / size = S
  generalize hn : dec.len / size = n
  have eS : stride = S * size := by rw [← hS]; exact (Nat.div_mul_cancel (Nat.dvd_of_mod_eq_zero hst)).symm
  have en : dec.len = n * size := by rw [← hn]; exact (Nat.div_mul_cancel (Nat.dvd_of_mod_eq_zero hdm)).symm
  have hfit : 3 * S + width ≤ n := by
    have : (3 * S + width) * size ≤ n * size := by rw [Nat.add_mul, Nat.mul_assoc, ← eS, ← en]; exact hdl
    exact Nat.le_of_mul_le_mul_right this hs
  have hnl : n ≤ dec.len := by rw [← hn]; exact Nat.div_le_self _ _
  have hq : enc.len / bpb = divCeil width 4 := by rw [hel]; exact Nat.mul_div_cancel _ hb
  have hdc := divCeil_eq width 4 (by omega)
  have hrow : ∀ (y pi bw : Nat), y < 4 → pi + bw ≤ width → 0 < bw →
      RowsOK dec stride 4 (width * size) ⟨dec.buf, dec.off + (S * y + pi) * size, bw * size⟩ := by
    intro y pi bw hy hp _
    have e1 : (S * y + pi) * size = y * stride + pi * size := by rw [Nat.add_mul, mul_rearr, ← eS]
    have e2 : (pi + bw) * size ≤ width * size := Nat.mul_le_mul_right _ hp
    rw [Nat.add_mul] at e2
    exact ⟨rfl, y, hy, by simp only; omega, by simp only; omega⟩
  unfold fast4T
  rw [TrapUnc.fromBytesT_of ⟨by omega, by rw [hel]; exact Nat.mul_mod_left _ _⟩, bind_some', hq]
  simp only [hS, hn]
  rw [dbgP_of (by omega), bind_some']
  obtain ⟨e1, he1, q1⟩ := forT_quiet (fun bi => do
      let pi ← ckU (bi * 4)
      forT (fun y => do
        let a ← ckU (S * y)
        let rs ← ckU (a + pi)
        let re ← ckU (rs + 4)
        dbgP (rs ≤ re ∧ re ≤ n)
        pure [Ev.wr ⟨dec.buf, dec.off + rs * size, 4 * size⟩]) (List.range 4))
    (RowsOK dec stride 4 (width * size)) (List.range (width / 4)) (by
      intro bi hbi
      have hbi : bi < width / 4 := List.mem_range.mp hbi
      show ∃ e, (do
        let pi ← ckU (bi * 4)
        forT (fun y => do
          let a ← ckU (S * y)
          let rs ← ckU (a + pi)
          let re ← ckU (rs + 4)
          dbgP (rs ≤ re ∧ re ≤ n)
          pure [Ev.wr ⟨dec.buf, dec.off + rs * size, 4 * size⟩]) (List.range 4)) = some e ∧ _
      rw [ckU_of_lt (by omega), bind_some']
      apply forT_quiet
      intro y hy
      have hy : y < 4 := List.mem_range.mp hy
      have hy3 : S * y ≤ S * 3 := Nat.mul_le_mul_left _ (by omega)
      rw [ckU_of_lt (by omega), bind_some', ckU_of_lt (by omega), bind_some', ckU_of_lt (by omega), bind_some',
        dbgP_of ⟨by omega, by omega⟩, bind_some', pure_some']
      exact ⟨_, rfl, Quiet.one (hrow y (bi * 4) 4 hy (by omega) (by omega))⟩)
  rw [he1, bind_some']
  by_cases hp : width % 4 ≠ 0
  · rw [if_pos hp]
    have hbw : width - width / 4 * 4 = width % 4 := by omega
    obtain ⟨e2, he2, q2⟩ := forT_quiet (fun y => do
        let a ← ckU (S * y)
        let rs ← ckU (a + width / 4 * 4)
        let re ← ckU (rs + (width - width / 4 * 4))
        dbgP (rs ≤ re ∧ re ≤ n)
        dbgP (∀ x, x < width - width / 4 * 4 → x < re - rs ∧ y * 4 + x < 16)
        pure [Ev.wr ⟨dec.buf, dec.off + rs * size, (width - width / 4 * 4) * size⟩])
      (RowsOK dec stride 4 (width * size)) (List.range 4) (by
        intro y hy
        have hy : y < 4 := List.mem_range.mp hy
        have hy3 : S * y ≤ S * 3 := Nat.mul_le_mul_left _ (by omega)
        show ∃ e, (do
          let a ← ckU (S * y)
          let rs ← ckU (a + width / 4 * 4)
          let re ← ckU (rs + (width - width / 4 * 4))
          dbgP (rs ≤ re ∧ re ≤ n)
          dbgP (∀ x, x < width - width / 4 * 4 → x < re - rs ∧ y * 4 + x < 16)
          pure [Ev.wr ⟨dec.buf, dec.off + rs * size, (width - width / 4 * 4) * size⟩]) = some e ∧ _
        rw [ckU_of_lt (by omega), bind_some', ckU_of_lt (by omega), bind_some', ckU_of_lt (by omega), bind_some',
          dbgP_of ⟨by omega, by omega⟩, bind_some', dbgP_of (by intro x hx; omega), bind_some', pure_some']
        exact ⟨_, rfl, Quiet.one (hrow y (width / 4 * 4) _ hy (by omega) (by omega))⟩)
    rw [dbgP_of (by omega), bind_some', ckU_of_lt (by omega), bind_some', subU_of_le (by omega), bind_some', he2,
      bind_some', pure_some']
    exact ⟨_, rfl, q1.append q2⟩
  · rw [if_neg hp, pure_some', bind_some', pure_some']
    exact ⟨_, rfl, q1.append (Quiet.nil _)⟩

theorem RowsOK.shift {d d' : Sl} {stride rows a b c : Nat} {s : Sl} (h : RowsOK d' stride rows a s)
    (hb : d'.buf = d.buf) (ho : d'.off = d.off + c) (hab : c + a ≤ b) : RowsOK d stride rows b s := by
  obtain ⟨h1, y, h2, h3, h4⟩ := h
  exact ⟨h1.trans hb, y, h2, by omega, by omega⟩

/-- `process_4x4_blocks_helper` after the offset: fast path or general path, whichever the run-time tests select -/
theorem proc4TailT_spec {bpb size : Nat} {enc dec : Sl} {stride : Nat} {r : PRange} (al : Sl → Bool)
    (h : BlkPre 4 4 bpb size enc dec stride r) (hwo : r.wo = 0) :
    ∃ e, proc4TailT bpb size al enc dec stride r = some e ∧
      Quiet (RowsOK dec stride (r.re - r.rs) (r.width * size)) e := by
  unfold proc4TailT
  rw [subU_of_le (by have := h.rows; omega), bind_some']
  by_cases hc : r.re - r.rs = 4 ∧ stride % size = 0 ∧ al dec = true ∧ dec.len % size = 0
  · rw [if_pos hc]
    obtain ⟨c1, c2, _, c4⟩ := hc
    have hl := h.dec_len
    rw [c1] at hl ⊢
    have hel := h.enc_len
    rw [hwo, Nat.add_zero] at hel
    exact fast4T_spec h.bpb_pos h.size_pos hel c2 c4 (by omega) h.dec_lt
  · rw [if_neg hc]
    exact generalT_spec h

/-- **`process_4x4_blocks_helper`** (every alignment oracle) -/
theorem proc4T_spec {bpb size : Nat} {enc dec : Sl} {stride : Nat} {r : PRange} (al : Sl → Bool)
    (h : BlkPre 4 4 bpb size enc dec stride r) :
    ∃ e, proc4T bpb size al enc dec stride r = some e ∧ Quiet (RowsOK dec stride (r.re - r.rs) (r.width * size)) e := by
  have hrows := h.rows
  have hre := h.re_le
  have hq : enc.len / bpb = divCeil (r.width + r.wo) 4 := by rw [h.enc_len]; exact Nat.mul_div_cancel _ h.bpb_pos
  have hm : enc.len % bpb = 0 := by rw [h.enc_len]; exact Nat.mul_mod_left _ _
  have hdl := h.dec_len
  have hdlt := h.dec_lt
  have hws := h.wsum_lt
  have e1 : stride * (r.re - r.rs - 1) = (r.re - r.rs - 1) * stride := Nat.mul_comm _ _
  unfold proc4T
  rw [subU_of_le (by omega), bind_some', dbgP_of (by omega), bind_some', modT_of_ne (by have := h.bpb_pos; omega),
    bind_some', dbgP_of hm, bind_some', div_of_ne (by have := h.bpb_pos; omega), bind_some', ck32_of_lt (by omega),
    bind_some', divCeilT_of_ne (by omega), bind_some', dbgP_of (by rw [hq, Nat.add_comm]), bind_some',
    subU_of_le (by omega), bind_some', ckU_of_lt (by omega), bind_some', ckU_of_lt (by omega), bind_some',
    ckU_of_lt (by omega), bind_some', dbgP_of (by show dec.len ≥ _; omega), bind_some']
  by_cases hwo : r.wo ≠ 0
  · rw [if_pos hwo]
    obtain ⟨e0, he0, q0, hel'⟩ := handleWidthOffsetT_spec h hwo
    have hw : 0 < r.width := by rcases h.w_ok with h' | h' <;> omega
    generalize hpw : min (4 - r.wo) r.width = pw at he0 hel'
    have hpw' : 0 < pw ∧ pw ≤ r.width := by have := h.wo_lt; subst hpw; omega
    have p1 : pw * size + (r.width - pw) * size = r.width * size := by rw [← Nat.add_mul]; congr 1; omega
    have pre : BlkPre 4 4 bpb size ⟨enc.buf, enc.off + bpb, enc.len - bpb⟩
        ⟨dec.buf, dec.off + pw * size, dec.len - pw * size⟩ stride ⟨r.width - pw, 0, r.rs, r.re⟩ :=
      { bx_pos := h.bx_pos, bx_lt := h.bx_lt, bpb_pos := h.bpb_pos, size_pos := h.size_pos, wo_lt := by show 0 < 4; omega,
        w_ok := Or.inr rfl, wsum_lt := by show r.width - pw + 0 < U32B; omega,
        enc_len := by show enc.len - bpb = divCeil (r.width - pw + 0) 4 * bpb; rw [Nat.add_zero]; exact hel',
        rows := h.rows, re_le := h.re_le,
        dec_len := by show (r.re - r.rs - 1) * stride + (r.width - pw) * size ≤ dec.len - pw * size; omega,
        dec_lt := by show dec.len - pw * size < USIZE; omega }
    obtain ⟨e1', he1, q1⟩ := proc4TailT_spec al pre rfl
    rw [he0, bind_some']
    simp only []
    rw [Sl.drop_of (by omega), bind_some', he1, bind_some', pure_some']
    refine ⟨_, rfl, q0.append (q1.mono fun s hs => hs.shift rfl rfl (by show pw * size + (r.width - pw) * size ≤ _; omega))⟩
  · rw [if_neg hwo]
    exact proc4TailT_spec al h (by omega)

theorem proc2TailT_spec {size : Nat} {dec : Sl} {width off total : Nat} (hs : 0 < size) (hoff : off + width = total)
    (hdl : total * size ≤ dec.len) (hdlt : dec.len < USIZE) :
    ∃ e, proc2TailT size dec width (divCeil width 2) width off = some e ∧ Quiet (RowsOK dec 0 1 (total * size)) e := by
  have hdc := divCeil_eq width 2 (by omega)
  have hwr : ∀ (a b : Nat), a + b ≤ total → RowsOK dec 0 1 (total * size) ⟨dec.buf, dec.off + a * size, b * size⟩ := by
    intro a b hab
    have : (a + b) * size ≤ total * size := Nat.mul_le_mul_right _ hab
    rw [Nat.add_mul] at this
    exact ⟨rfl, 0, by omega, by simp only; omega, by simp only; omega⟩
  have hts : total ≤ total * size := Nat.le_mul_of_pos_right _ hs
  unfold proc2TailT
  rw [dbgP_of rfl, bind_some']
  simp only []
  rw [ckU_of_lt (by omega), bind_some', dbgP_of (by omega), bind_some',
    TrapUnc.fromBytesT_of ⟨by omega, by rw [Nat.mul_assoc]; exact Nat.mul_mod_left _ _⟩, bind_some']
  have hmin : min (divCeil width 2) (width / 2) = width / 2 := by rw [hdc]; omega
  rw [hmin]
  have qe1 : Quiet (RowsOK dec 0 1 (total * size))
      (if width / 2 = 0 then [] else [Ev.wr ⟨dec.buf, dec.off + off * size, width / 2 * (2 * size)⟩]) := by
    by_cases h0 : width / 2 = 0
    · rw [if_pos h0]; exact Quiet.nil _
    · rw [if_neg h0, ← Nat.mul_assoc]; exact Quiet.one (hwr off (width / 2 * 2) (by omega))
  by_cases hodd : width % 2 = 1
  · rw [if_pos hodd, dbgP_of (by rw [hdc]; omega), bind_some', subU_of_le (by omega), bind_some', dbgP_of (by omega),
      bind_some', pure_some', bind_some', pure_some']
    refine ⟨_, rfl, qe1.append (Quiet.one ?_)⟩
    have := hwr (off + (width - 1)) 1 (by omega)
    rwa [Nat.one_mul] at this
  · rw [if_neg hodd, pure_some', bind_some', pure_some']
    exact ⟨_, rfl, qe1.append (Quiet.nil _)⟩

/-- **`process_2x1_blocks_helper`** -/
theorem proc2T_spec {bpb size : Nat} {enc dec : Sl} {stride : Nat} {r : PRange}
    (h : BlkPre 2 1 bpb size enc dec stride r) :
    ∃ e, proc2T bpb size enc dec r = some e ∧ Quiet (RowsOK dec stride (r.re - r.rs) (r.width * size)) e := by
  have hrows := h.rows
  have hre := h.re_le
  have hr1 : r.re - r.rs = 1 := by omega
  have hq : enc.len / bpb = divCeil (r.width + r.wo) 2 := by rw [h.enc_len]; exact Nat.mul_div_cancel _ h.bpb_pos
  have hm : enc.len % bpb = 0 := by rw [h.enc_len]; exact Nat.mul_mod_left _ _
  have hdl : r.width * size ≤ dec.len := by have := h.dec_len; omega
  have hdlt := h.dec_lt
  have hs := h.size_pos
  have hq2 : r.width * size / size = r.width := Nat.mul_div_cancel _ hs
  have conv : ∀ e, Quiet (RowsOK dec 0 1 (r.width * size)) e → Quiet (RowsOK dec stride (r.re - r.rs) (r.width * size)) e := by
    intro e q
    refine q.mono fun s hs => ?_
    obtain ⟨h1, y, h2, h3, h4⟩ := hs
    have : y = 0 := by omega
    subst this
    exact ⟨h1, 0, by omega, by omega, by omega⟩
  unfold proc2T
  rw [TrapUnc.fromBytesT_of ⟨by have := h.bpb_pos; omega, hm⟩, bind_some', hq, ckU_of_lt (by omega), bind_some',
    Sl.upto_of hdl, bind_some']
  simp only []
  rw [TrapUnc.fromBytesT_of ⟨by omega, Nat.mul_mod_left _ _⟩, bind_some', hq2, dbgP_of rfl, bind_some']
  by_cases hwo : r.wo = 1
  · rw [if_pos hwo]
    have hw : 0 < r.width := by rcases h.w_ok with h' | h' <;> omega
    have hD := blocks_after_offset (bx := 2) (width := r.width) (wo := r.wo) (by omega) h.wo_lt hw
    rw [hwo] at hD ⊢
    have hmin : min (2 - 1) r.width = 1 := by omega
    rw [hmin] at hD
    obtain ⟨e1, he1, q1⟩ := proc2TailT_spec (dec := dec) (width := r.width - 1) (off := 1) (total := r.width) hs (by omega)
      hdl hdlt
    rw [dbgP_of hw, bind_some', dbgP_of (by omega), bind_some', bind_some', subU_of_le (by omega), bind_some',
      dbgP_of (by omega), bind_some', dbgP_of (by omega), bind_some', hD, Nat.add_sub_cancel, he1, bind_some', pure_some']
    refine ⟨_, rfl, conv _ (Quiet.append (Quiet.one ⟨rfl, 0, by omega, by simp, ?_⟩) q1)⟩
    have : 1 * size ≤ r.width * size := Nat.mul_le_mul_right _ hw
    simp only; omega
  · rw [if_neg hwo]
    have hwo0 : r.wo = 0 := by have := h.wo_lt; omega
    rw [hwo0, Nat.add_zero]
    obtain ⟨e1, he1, q1⟩ := proc2TailT_spec (dec := dec) (width := r.width) (off := 0) (total := r.width) hs (by omega)
      hdl hdlt
    exact ⟨e1, he1, conv _ q1⟩

/-- the unit sizes a `ProcessBlocksFn` shape is instantiated with -/
def BlkFn.Shape (p : BlkFn) (bpb : Nat) : Prop :=
  0 < p.bx ∧ p.bx < 256 ∧ 0 < p.by_ ∧ p.by_ < 256 ∧ 0 < bpb ∧ (p = .eight → bpb = 1) ∧ bpb < 256

/-- **every `ProcessBlocksFn`** under the contract `BlkPre` of its arguments -/
theorem BlkFn.runT_spec {p : BlkFn} {bpb size : Nat} {enc dec : Sl} {stride : Nat} {r : PRange} (al : Sl → Bool)
    (hp : p.Shape bpb) (h : BlkPre p.bx p.by_ bpb size enc dec stride r) :
    ∃ e, p.runT bpb size al enc dec stride r = some e ∧ Quiet (RowsOK dec stride (r.re - r.rs) (r.width * size)) e := by
  cases p with
  | general bx b => exact generalT_spec h
  | four => exact proc4T_spec al h
  | two => exact proc2T_spec h
  | eight =>
    have : bpb = 1 := hp.2.2.2.2.2.1 rfl
    subst this
    exact generalT_spec h

/-! ### `ChannelConversionBuffer::process_blocks` -/

/-- where `process_blocks` may write: the conversion buffer, or the first `rowBytes` bytes of a row of `out` -/
def ConvOK (out : Sl) (pitch rows rowBytes : Nat) (s : Sl) : Prop := s.buf = .tmp ∨ RowsOK out pitch rows rowBytes s

theorem convBlockRowsT_spec {native : Color} {target : Unc.Channels} (hp : native.psz = 1 ∨ native.psz = 2 ∨ native.psz = 4)
    {height rowPitch cw : Nat} {buf out : Sl} (hh : 0 < height) (hhl : height < 256)
    (hbl : buf.len = cw * native.bpp * height)
    (hblt : buf.len < USIZE) (hol : (height - 1) * rowPitch + cw * (Color.mk target native.psz).bpp ≤ out.len)
    (holt : out.len < USIZE) :
    ∃ e, convBlockRowsT native target height (cw * native.bpp) rowPitch cw (Color.mk target native.psz).bpp buf out = some e ∧
      Quiet (RowsOK out rowPitch height (cw * (Color.mk target native.psz).bpp)) e := by
  unfold convBlockRowsT
  apply forT_quiet
  intro y hy
  have hy : y < height := List.mem_range.mp hy
  generalize hO : (Color.mk target native.psz).bpp = O at hol ⊢
  generalize hS : cw * native.bpp = S at hbl
  have p1 : (y + 1) * S ≤ height * S := Nat.mul_le_mul_right _ (by omega)
  rw [Nat.succ_mul] at p1
  rw [Nat.mul_comm S height] at hbl
  have p2 : y * rowPitch ≤ (height - 1) * rowPitch := Nat.mul_le_mul_right _ (by omega)
  have hlen : y * S + S - y * S = S := by omega
  have hUS : 256 < USIZE := by decide
  rw [ckU_of_lt (by omega), bind_some', ckU_of_lt (by omega), bind_some', Nat.succ_mul, ckU_of_lt (by omega), bind_some',
    Sl.range_of ⟨by omega, by omega⟩, bind_some', ckU_of_lt (by omega), bind_some', ckU_of_lt (by omega), bind_some',
    ckU_of_lt (by omega), bind_some', Sl.range_of ⟨by omega, by omega⟩, bind_some']
  simp only [hlen, Nat.add_sub_cancel_left]
  rw [convertChannelsForT_spec hp (n := cw) (by simp only [hS]) (by simp only [hO])]
  exact ⟨_, rfl, Quiet.one ⟨rfl, y, hy, by simp only; omega, by simp only; omega⟩⟩

theorem divCeil_le_self {w b : Nat} (hb : 0 < b) : divCeil w b ≤ w := by
  have h := (divCeil_spec w b hb).2
  by_cases h0 : w = 0
  · subst h0; rw [Stream.divCeil_zero]; omega
  · simp only [h0, if_false, Nat.add_zero] at h
    have : (divCeil w b - 1) * 1 ≤ (divCeil w b - 1) * b := Nat.mul_le_mul_left _ hb
    omega

theorem min_satAdd32 {a b w : Nat} (hw : w < U32B) : min (satAdd32 a b) w = min (a + b) w := by
  unfold satAdd32
  by_cases h : a + b < U32B
  · rw [if_pos h]
  · rw [if_neg h]; omega

/-- one chunk of the main loop of `process_blocks` (with the repaired, saturating addition) -/
theorem convBlockChunkT_spec {native : Color} {target : Unc.Channels} {p : BlkFn} {bpb : Nat} (al : Sl → Bool)
    (hsh : p.Shape bpb) (hp : native.psz = 1 ∨ native.psz = 2 ∨ native.psz = 4) {height pref width rowPitch : Nat}
    {r : PRange} {enc out : Sl} (hr : r.rs < r.re) (hre : r.re ≤ p.by_) (hh : height = r.re - r.rs)
    (hpref : 0 < pref) (hdvd : p.bx ∣ pref) (hfit : pref * (native.bpp * height) ≤ BUFFER_BYTES) (hw : width < U32B)
    (hel : enc.len = divCeil width p.bx * bpb)
    (hol : (height - 1) * rowPitch + width * (Color.mk target native.psz).bpp ≤ out.len) (holt : out.len < USIZE)
    {cs : Nat} (hcs : cs ∈ Addr.stepStarts width pref) :
    ∃ e, convBlockChunkT (fun a b => some (satAdd32 a b)) native target p bpb al bpb p.bx native.bpp
        (Color.mk target native.psz).bpp height pref width rowPitch r enc out cs = some e ∧
      Quiet (ConvOK out rowPitch height (width * (Color.mk target native.psz).bpp)) e := by
  obtain ⟨hbx, hbxl, hby, hbyl, hbpb, _, hbpbl⟩ := hsh
  obtain ⟨k, hk, rfl⟩ := (Addr.mem_stepStarts hpref).1 hcs
  obtain ⟨j, rfl⟩ := hdvd
  have hNb := Color.bpp_bounds native hp
  have hOb := Color.bpp_bounds ⟨target, native.psz⟩ hp
  generalize hO : (Color.mk target native.psz).bpp = O at hol hOb ⊢
  generalize hN : native.bpp = N at hNb hfit ⊢
  generalize hcs' : k * (p.bx * j) = cs at hk
  have hcsm : cs = (k * j) * p.bx := by rw [← hcs']; ac_rfl
  have hbo : cs / p.bx = k * j := by rw [hcsm]; exact Nat.mul_div_cancel _ hbx
  generalize hce : min (cs + p.bx * j) width = ce
  have hce' : cs < ce ∧ ce ≤ width ∧ ce - cs ≤ p.bx * j := by subst hce; omega
  have hbc : k * j + divCeil (ce - cs) p.bx ≤ divCeil width p.bx := by
    have : divCeil (ce - cs + (k * j) * p.bx) p.bx = divCeil (ce - cs) p.bx + k * j := Addr.divCeil_add_mul _ _ _ hbx
    have h2 : ce - cs + (k * j) * p.bx = ce := by omega
    rw [h2] at this
    have := Stream.divCeil_mono hbx hce'.2.1
    omega
  have hdcw : divCeil width p.bx ≤ width := divCeil_le_self hbx
  unfold U32B at hw
  have hUS : (2 : Nat) ^ 44 < USIZE := by decide
  have hB : BUFFER_BYTES < 2 ^ 20 := by decide
  simp only [Nat.reducePow] at hUS hB
  have p0 : divCeil width p.bx * bpb ≤ width * 256 :=
    Nat.mul_le_mul hdcw (by omega)
  have p1 : (k * j) * bpb ≤ (k * j + divCeil (ce - cs) p.bx) * bpb := Nat.mul_le_mul_right _ (by omega)
  have p2 : (k * j + divCeil (ce - cs) p.bx) * bpb ≤ divCeil width p.bx * bpb := Nat.mul_le_mul_right _ hbc
  have p3 : cs * O ≤ ce * O := Nat.mul_le_mul_right _ (by omega)
  have p4 : ce * O ≤ width * O := Nat.mul_le_mul_right _ hce'.2.1
  have p4' : width * O ≤ width * 16 := Nat.mul_le_mul_left _ hOb.2
  have p5 : (ce - cs) * (N * height) ≤ (p.bx * j) * (N * height) := Nat.mul_le_mul_right _ hce'.2.2
  have p6 : (ce - cs) * N ≤ (ce - cs) * (N * height) :=
    Nat.mul_le_mul_left _ (Nat.le_mul_of_pos_right _ (by omega))
  have e5 : (ce - cs) * N * height = (ce - cs) * (N * height) := Nat.mul_assoc _ _ _
  have s1 : (k * j + divCeil (ce - cs) p.bx) * bpb - (k * j) * bpb = divCeil (ce - cs) p.bx * bpb := by
    rw [Nat.add_mul]; omega
  have s2 : cs * O + (ce - cs) * O = ce * O := by rw [← Nat.add_mul]; congr 1; omega
  unfold convBlockChunkT
  simp only [bind_some']
  rw [min_satAdd32 (by unfold U32B; omega), hce, subU_of_le (by omega), bind_some', div_of_ne (by omega), bind_some',
    hbo, divCeilT_of_ne (by omega), bind_some', ckU_of_lt (by omega), bind_some', ckU_of_lt (by omega), bind_some',
    ckU_of_lt (by omega), bind_some', Sl.range_of ⟨p1, by omega⟩, bind_some', ckU_of_lt (by omega), bind_some',
    Sl.drop_of (by omega), bind_some', ckU_of_lt (by omega), bind_some', ckU_of_lt (by omega), bind_some',
    Sl.upto_of (by rw [tmpBuffer_len]; omega), bind_some']
  have pre : BlkPre p.bx p.by_ bpb N
      ⟨enc.buf, enc.off + k * j * bpb, (k * j + divCeil (ce - cs) p.bx) * bpb - k * j * bpb⟩
      ⟨tmpBuffer.buf, tmpBuffer.off, (ce - cs) * N * height⟩ ((ce - cs) * N) ⟨ce - cs, 0, r.rs, r.re⟩ :=
    { bx_pos := hbx, bx_lt := hbxl, bpb_pos := hbpb, size_pos := by omega, wo_lt := hbx, w_ok := Or.inr rfl,
      wsum_lt := by show ce - cs + 0 < U32B; unfold U32B; omega,
      enc_len := by show _ = divCeil (ce - cs + 0) p.bx * bpb; rw [Nat.add_zero]; exact s1,
      rows := hr, re_le := hre,
      dec_len := by
        show (r.re - r.rs - 1) * ((ce - cs) * N) + (ce - cs) * N ≤ (ce - cs) * N * height
        rw [← hh, Nat.mul_comm ((ce - cs) * N) height]
        have : height = (height - 1) + 1 := by omega
        conv => rhs; rw [this, Nat.succ_mul]
        exact Nat.le_refl _,
      dec_lt := by show (ce - cs) * N * height < USIZE; omega }
  obtain ⟨w1, hw1, q1⟩ := BlkFn.runT_spec al ⟨hbx, hbxl, hby, hbyl, hbpb, by assumption, hbpbl⟩ pre
  rw [hw1, bind_some']
  have := convBlockRowsT_spec (native := native) (target := target) hp (height := height) (rowPitch := rowPitch)
    (cw := ce - cs) (buf := ⟨tmpBuffer.buf, tmpBuffer.off, (ce - cs) * N * height⟩)
    (out := ⟨out.buf, out.off + cs * O, out.len - cs * O⟩) (by omega) (by omega) (by simp only [hN]) (by simp only; omega)
    (by simp only [hO]; omega) (by simp only; omega)
  rw [hN, hO] at this
  obtain ⟨w2, hw2, q2⟩ := this
  rw [hw2, bind_some', pure_some']
  refine ⟨_, rfl, Quiet.append (q1.mono fun s hs => Or.inl hs.1) (q2.mono fun s hs => Or.inr ?_)⟩
  exact hs.shift rfl rfl (by omega)

/-- the chunk size: `round_down_to_multiple(buffer_width, block_width)` for `buffer_width ≥ block_width` -/
theorem pref_facts {bufW bx : Nat} (hbx : 0 < bx) (hge : bx ≤ bufW) :
    0 < bufW - bufW % bx ∧ bufW - bufW % bx ≤ bufW ∧ bx ∣ bufW - bufW % bx := by
  have h1 := Nat.div_add_mod bufW bx
  have h2 := Nat.mod_lt bufW hbx
  have hq : 0 < bufW / bx := Nat.div_pos hge hbx
  have e : bufW - bufW % bx = bx * (bufW / bx) := by omega
  have : bx * 1 ≤ bx * (bufW / bx) := Nat.mul_le_mul_left _ hq
  exact ⟨by omega, by omega, e ▸ Nat.dvd_mul_right _ _⟩

/-- the main loop of `process_blocks` on `width` pixels that start at a block boundary -/
theorem convBlocksMainT_spec {native : Color} {target : Unc.Channels} {p : BlkFn} {bpb : Nat} (al : Sl → Bool)
    (hsh : p.Shape bpb) (hp : native.psz = 1 ∨ native.psz = 2 ∨ native.psz = 4) {height bufW width rowPitch : Nat}
    {r : PRange} {enc out : Sl} (hr : r.rs < r.re) (hre : r.re ≤ p.by_) (hh : height = r.re - r.rs)
    (hge : p.bx ≤ bufW) (hfit : bufW * (native.bpp * height) ≤ BUFFER_BYTES) (hw : width < U32B)
    (hel : enc.len = divCeil width p.bx * bpb)
    (hol : (height - 1) * rowPitch + width * (Color.mk target native.psz).bpp ≤ out.len) (holt : out.len < USIZE) :
    ∃ e, convBlocksMainT (fun a b => some (satAdd32 a b)) native target p bpb al bpb p.bx native.bpp
        (Color.mk target native.psz).bpp height bufW rowPitch r enc out width = some e ∧
      Quiet (ConvOK out rowPitch height (width * (Color.mk target native.psz).bpp)) e := by
  have hbx := hsh.1
  obtain ⟨f1, f2, f3⟩ := pref_facts hbx hge
  have hfit' : (bufW - bufW % p.bx) * (native.bpp * height) ≤ BUFFER_BYTES :=
    Nat.le_trans (Nat.mul_le_mul_right _ f2) hfit
  unfold convBlocksMainT
  rw [modT_of_ne (by omega), bind_some', subU_of_le (Nat.mod_le _ _), bind_some', dbgP_of (by omega), bind_some']
  apply forT_quiet
  intro cs hcs
  exact convBlockChunkT_spec al hsh hp hr hre hh f1 f3 hfit' hw hel hol holt hcs

/-- what `for_each_block_untyped` / `for_each_block_rect_untyped` hand to `process_blocks` -/
structure ConvPre (native : Color) (target : Unc.Channels) (p : BlkFn) (bpb : Nat) (enc out : Sl) (rowPitch : Nat)
    (r : PRange) : Prop where
  shape : p.Shape bpb
  psz : native.psz = 1 ∨ native.psz = 2 ∨ native.psz = 4
  /-- a block row of native pixels fits the conversion buffer (`debug_assert!(buffer_size.width >= block_width)`) -/
  buf : p.bx * (native.bpp * p.by_) ≤ BUFFER_BYTES
  wo_lt : r.wo < p.bx
  w_ok : 0 < r.width ∨ r.wo = 0
  wsum_lt : r.width + r.wo < U32B
  rows : r.rs < r.re
  re_le : r.re ≤ p.by_
  enc_len : enc.len = divCeil (r.width + r.wo) p.bx * bpb
  out_len : (r.re - r.rs - 1) * rowPitch + r.width * (Color.mk target native.psz).bpp ≤ out.len
  out_lt : out.len < USIZE

/-- **`ChannelConversionBuffer::process_blocks`** (as repaired by F17): no trap for any width `< 2^32` -/
theorem convBlocksT_spec {native : Color} {target : Unc.Channels} {p : BlkFn} {bpb : Nat} {enc out : Sl} {rowPitch : Nat}
    {r : PRange} (al : Sl → Bool) (h : ConvPre native target p bpb enc out rowPitch r) :
    ∃ e, convBlocksT native target p bpb al bpb p.bx enc out rowPitch r = some e ∧
      Quiet (ConvOK out rowPitch (r.re - r.rs) (r.width * (Color.mk target native.psz).bpp)) e := by
  obtain ⟨hbx, hbxl, hby, hbyl, hbpb, h8, hbpbl⟩ := h.shape
  have hrows := h.rows
  have hre := h.re_le
  have hNb := Color.bpp_bounds native h.psz
  have hOb := Color.bpp_bounds ⟨target, native.psz⟩ h.psz
  unfold convBlocksT convBlocksWithT
  by_cases hc : native.ch = target
  · rw [if_pos hc]
    have hcol : (Color.mk target native.psz) = native := by cases native; simp only at hc; subst hc; rfl
    have hol := h.out_len
    rw [hcol] at hol ⊢
    have pre : BlkPre p.bx p.by_ bpb native.bpp enc out rowPitch r :=
      { bx_pos := hbx, bx_lt := hbxl, bpb_pos := hbpb, size_pos := by omega, wo_lt := h.wo_lt, w_ok := h.w_ok,
        wsum_lt := h.wsum_lt, enc_len := h.enc_len, rows := h.rows, re_le := h.re_le, dec_len := hol, dec_lt := h.out_lt }
    obtain ⟨e, he, q⟩ := BlkFn.runT_spec al h.shape pre
    exact ⟨e, he, q.mono fun s hs => Or.inr hs⟩
  · rw [if_neg hc]
    generalize hH : r.re - r.rs = H at *
    have hHb : 0 < H ∧ H ≤ p.by_ := by omega
    have hm1 : native.bpp * H ≤ native.bpp * p.by_ := Nat.mul_le_mul_left _ hHb.2
    have hm2 : native.bpp * H ≤ 16 * 255 := Nat.mul_le_mul hNb.2 (by omega)
    have hm0 : 0 < native.bpp * H := Nat.mul_pos (by omega) hHb.1
    have hB : BUFFER_BYTES < 2 ^ 20 := by decide
    have hUS : (2 : Nat) ^ 44 < USIZE := by decide
    have hU32 : (2 : Nat) ^ 20 < U32B := by decide
    simp only [Nat.reducePow] at hB hUS hU32
    generalize hbw : BUFFER_BYTES / (native.bpp * H) = bufW
    have hbwle : bufW ≤ BUFFER_BYTES := by rw [← hbw]; exact Nat.div_le_self _ _
    have hbwmod : bufW % U32B = bufW := Nat.mod_eq_of_lt (by omega)
    have hge : p.bx ≤ bufW := by
      rw [← hbw, Nat.le_div_iff_mul_le hm0]
      exact Nat.le_trans (Nat.mul_le_mul_left _ hm1) h.buf
    have hfit : bufW * (native.bpp * H) ≤ BUFFER_BYTES := by rw [← hbw]; exact Nat.div_mul_le_self _ _
    rw [subU_of_le (by omega), bind_some']
    simp only [hH]
    rw [dbgP_of hHb.1, bind_some', Color.bppT_eq native h.psz, bind_some',
      ckU_of_lt (by omega), bind_some', div_of_ne (by omega), bind_some', hbw]
    simp only [hbwmod]
    rw [dbgP_of hge, bind_some', Color.bppT_eq ⟨target, native.psz⟩ h.psz, bind_some']
    have hwlt : r.width < U32B := by have := h.wsum_lt; omega
    by_cases hwo : r.wo ≠ 0
    · rw [if_pos hwo]
      have hw : 0 < r.width := by rcases h.w_ok with h' | h' <;> omega
      have hwol := h.wo_lt
      generalize hpw : min (p.bx - r.wo) r.width = pw
      have hpw' : 0 < pw ∧ pw ≤ r.width ∧ pw + r.wo ≤ p.bx := by subst hpw; omega
      have hD := blocks_after_offset hbx h.wo_lt hw
      rw [hpw] at hD
      have hel' : enc.len - bpb = divCeil (r.width - pw) p.bx * bpb := by rw [h.enc_len, hD, succ_mul_sub]
      have hbe : bpb ≤ enc.len := by rw [h.enc_len, hD, Nat.succ_mul]; omega
      generalize hO : (Color.mk target native.psz).bpp = O at hOb
      have hol := h.out_len
      rw [hO, hH] at hol
      generalize hN : native.bpp = N at hNb hfit hm0 hm1 hm2
      have p1 : pw * (N * H) ≤ bufW * (N * H) := Nat.mul_le_mul_right _ (by omega)
      have e1 : pw * N * H = pw * (N * H) := Nat.mul_assoc _ _ _
      have p2 : pw * N ≤ pw * (N * H) := Nat.mul_le_mul_left _ (Nat.le_mul_of_pos_right _ hHb.1)
      have p3 : pw * O ≤ r.width * O := Nat.mul_le_mul_right _ hpw'.2.1
      have p4 : pw * O + (r.width - pw) * O = r.width * O := by rw [← Nat.add_mul]; congr 1; omega
      have p5 : r.width * O ≤ r.width * 16 := Nat.mul_le_mul_left _ hOb.2
      unfold U32B at hwlt
      rw [subU_of_le (by omega), bind_some']
      simp only [hpw]
      rw [ckU_of_lt (by omega), bind_some', ckU_of_lt (by omega), bind_some',
        Sl.upto_of (by rw [tmpBuffer_len]; omega), bind_some', Sl.upto_of hbe, bind_some']
      have pre : BlkPre p.bx p.by_ bpb N ⟨enc.buf, enc.off, bpb⟩ ⟨tmpBuffer.buf, tmpBuffer.off, pw * N * H⟩ (pw * N)
          ⟨pw, r.wo, r.rs, r.re⟩ :=
        { bx_pos := hbx, bx_lt := hbxl, bpb_pos := hbpb, size_pos := by omega, wo_lt := h.wo_lt, w_ok := Or.inl hpw'.1,
          wsum_lt := by show pw + r.wo < U32B; unfold U32B; omega,
          enc_len := by show bpb = divCeil (pw + r.wo) p.bx * bpb
                        rw [Addr.divCeil_le_one hbx (by omega) hpw'.2.2, Nat.one_mul],
          rows := h.rows, re_le := h.re_le,
          dec_len := by
            show (r.re - r.rs - 1) * (pw * N) + pw * N ≤ pw * N * H
            rw [hH, Nat.mul_comm (pw * N) H]
            have : H = (H - 1) + 1 := by omega
            conv => rhs; rw [this, Nat.succ_mul]
            exact Nat.le_refl _,
          dec_lt := by show pw * N * H < USIZE; omega }
      obtain ⟨w1, hw1, q1⟩ := BlkFn.runT_spec al h.shape pre
      rw [hw1, bind_some']
      have hrows' := convBlockRowsT_spec (native := native) (target := target) h.psz (height := H) (rowPitch := rowPitch)
        (cw := pw) (buf := ⟨tmpBuffer.buf, tmpBuffer.off, pw * N * H⟩) (out := out) hHb.1 (by omega)
        (by simp only [hN]) (by simp only; omega) (by simp only [hO]; omega) h.out_lt
      rw [hN, hO] at hrows'
      obtain ⟨w2, hw2, q2⟩ := hrows'
      have hmain := convBlocksMainT_spec (native := native) (target := target) (p := p) (bpb := bpb) al h.shape h.psz
        (height := H) (bufW := bufW) (width := r.width - pw) (rowPitch := rowPitch) (r := r)
        (enc := ⟨enc.buf, enc.off + bpb, enc.len - bpb⟩) (out := ⟨out.buf, out.off + pw * O, out.len - pw * O⟩)
        h.rows h.re_le hH.symm hge (by rw [hN]; exact hfit) (by unfold U32B; omega) hel' (by simp only [hO]; omega)
        (by have := h.out_lt; simp only; omega)
      rw [hN, hO] at hmain
      obtain ⟨e1', he1, q3⟩ := hmain
      rw [hw2, bind_some', subU_of_le hpw'.2.1, bind_some', Sl.drop_of hbe, bind_some', ckU_of_lt (by omega), bind_some',
        Sl.drop_of (by omega), bind_some', he1, bind_some', pure_some']
      refine ⟨_, rfl, Quiet.append (Quiet.append (q1.mono fun s hs => Or.inl hs.1)
        (q2.mono fun s hs => Or.inr (hs.mono p3))) (q3.mono fun s hs => ?_)⟩
      rcases hs with hs | hs
      · exact Or.inl hs
      · exact Or.inr (hs.shift rfl rfl (by omega))
    · rw [if_neg hwo]
      have hwo0 : r.wo = 0 := by omega
      have hel := h.enc_len
      rw [hwo0, Nat.add_zero] at hel
      have hol := h.out_len
      rw [hH] at hol
      exact convBlocksMainT_spec al h.shape h.psz h.rows h.re_le hH.symm hge hfit hwlt hel hol h.out_lt

/-! ### the two block loops -/

/-- how a decoder of `bc.rs` / `astc.rs` / `sub_sampled.rs` instantiates the block loops -/
structure BlockCfg (img : Img) (native : Color) (p : BlkFn) (bpb size : Nat) : Prop where
  prec : img.color.psz = native.psz
  size : native.bpp = size
  shape : p.Shape bpb
  /-- a block row of native pixels fits the conversion buffer -/
  buf : p.bx * (native.bpp * p.by_) ≤ BUFFER_BYTES

theorem BlockCfg.native_psz {img : Img} {native : Color} {p : BlkFn} {bpb size : Nat}
    (c : BlockCfg img native p bpb size) (ok : img.Ok) : native.psz = 1 ∨ native.psz = 2 ∨ native.psz = 4 :=
  c.prec ▸ ok.psz

theorem BlockCfg.color_eq {img : Img} {native : Color} {p : BlkFn} {bpb size : Nat}
    (c : BlockCfg img native p bpb size) : (Color.mk img.color.ch native.psz) = img.color := by
  rw [← c.prec]

/-- the body of the loop of `for_each_block_untyped` for block line `k` -/
theorem blockFullBodyT_spec {img : Img} {native : Color} {p : BlkFn} {bpb size : Nat} (al : Sl → Bool) (ok : img.Ok)
    (c : BlockCfg img native p bpb size) {k : Nat} (hk : k < divCeil img.h p.by_) {line : Sl}
    (hl : line.len = divCeil img.w p.bx * bpb) :
    ∃ e, blockFullBodyT img native p bpb al k line = some (k + 1, e) ∧
      Quiet (InRows 0 img.pitch img.h (img.w * img.color.bpp)) e := by
  obtain ⟨hbx, hbxl, hby, hbyl, hbpb, h8, hbpbl⟩ := c.shape
  have hkm : k * p.by_ < img.h := divCeil_lt_mul hby hk
  have hh := ok.h_lt
  have hw := ok.w_lt
  generalize hpr : min p.by_ (img.h - k * p.by_) = pr
  have hpr' : 0 < pr ∧ pr ≤ p.by_ ∧ k * p.by_ + pr ≤ img.h := by subst hpr; omega
  have hmod : pr % 256 = pr := Nat.mod_eq_of_lt (by omega)
  have hkk : k < img.h := by
    have : k * 1 ≤ k * p.by_ := Nat.mul_le_mul_left _ hby
    omega
  have hrow := ok.getRowRangeT (y := k * p.by_) (k := pr) hpr'.1 hpr'.2.2
  have hlen : (pr - 1) * img.pitch + img.w * img.color.bpp ≤ img.len := by
    have := ok.row_le (y := k * p.by_ + (pr - 1)) (by omega)
    rw [Nat.add_mul] at this; omega
  have pre : ConvPre native img.color.ch p bpb line ⟨.out, k * p.by_ * img.pitch, (pr - 1) * img.pitch + img.w * img.color.bpp⟩
      img.pitch ⟨img.w, 0, 0, pr⟩ :=
    { shape := c.shape, psz := c.native_psz ok, buf := c.buf, wo_lt := hbx, w_ok := Or.inl ok.w_pos,
      wsum_lt := by show img.w + 0 < U32B; omega, rows := hpr'.1, re_le := hpr'.2.1,
      enc_len := by show line.len = divCeil (img.w + 0) p.bx * bpb; rw [Nat.add_zero]; exact hl,
      out_len := by rw [c.color_eq]; show (pr - 0 - 1) * img.pitch + img.w * img.color.bpp ≤ _; simp,
      out_lt := by have := ok.len_lt; show (pr - 1) * img.pitch + img.w * img.color.bpp < USIZE; omega }
  obtain ⟨e, he, q⟩ := convBlocksT_spec al pre
  rw [c.color_eq] at q
  unfold blockFullBodyT
  unfold U32B at hh hw
  rw [ck32_of_lt (by unfold U32B; omega), bind_some', subU_of_le (by omega), bind_some']
  simp only [hpr]
  rw [bind_some', hrow, bind_some', hmod, dbgP_of hpr'.1, bind_some', he, bind_some',
    ck32_of_lt (by unfold U32B; omega), bind_some', pure_some']
  refine ⟨e, rfl, q.mono fun s hs hb => ?_⟩
  rcases hs with hs | ⟨_, y, hy, h1, h2⟩
  · rw [hs] at hb; cases hb
  · simp only [Nat.sub_zero] at hy h1 h2
    refine ⟨k * p.by_ + y, by omega, ?_, ?_⟩
    · rw [Nat.add_mul]; omega
    · rw [Nat.add_mul]; omega

/-- **`for_each_block_untyped`**: no trap; trace = C06's `blockFull`; every write inside a row of the view -/
theorem blockFullT_spec {img : Img} {native : Color} {p : BlkFn} {bpb size : Nat} (al : Sl → Bool) (ok : img.Ok)
    (c : BlockCfg img native p bpb size) :
    ∃ evs, blockFullT img native p bpb size al = some evs ∧ ios evs = Stream.blockFull p.bx p.by_ bpb img.w img.h ∧
      Wr (InRows 0 img.pitch img.h (img.w * img.color.bpp)) evs := by
  obtain ⟨hbx, hbxl, hby, hbyl, hbpb, h8, hbpbl⟩ := c.shape
  have hwb : 0 < divCeil img.w p.bx := Stream.divCeil_pos ok.w_pos hbx
  have hhb : 0 < divCeil img.h p.by_ := Stream.divCeil_pos ok.h_pos hby
  have hwble : divCeil img.w p.bx ≤ img.w := divCeil_le_self hbx
  have hbp : 0 < divCeil img.w p.bx * bpb := Nat.mul_pos hwb hbpb
  have hbl : divCeil img.w p.bx * bpb < USIZE := by
    have : divCeil img.w p.bx * bpb ≤ img.w * 256 := Nat.mul_le_mul hwble (by omega)
    have := ok.w_lt; unfold U32B at this; unfold USIZE; omega
  obtain ⟨lb, hnew, hbpl, inv⟩ := LB.newT_spec hbp hbl hhb
  obtain ⟨e1, he1, i1, w1⟩ := whileLines_spec (blockFullBodyT img native p bpb al)
    (Stream.linesInBuffer (divCeil img.w p.bx * bpb) (divCeil img.h p.by_)) (divCeil img.w p.bx * bpb)
    (divCeil img.h p.by_) (fun k st => st = k) (InRows 0 img.pitch img.h (img.w * img.color.bpp))
    (by
      intro k st line hk hst _ hl
      subst st
      obtain ⟨e, he, q⟩ := blockFullBodyT_spec al ok c hk hl
      exact ⟨k + 1, e, he, rfl, q⟩)
    (divCeil img.h p.by_ + 1) lb 0 (divCeil img.h p.by_) 0 0 inv hbpl (by omega) (by omega) rfl
  unfold blockFullT
  rw [dbgP_of c.prec, bind_some', Color.bppT_eq _ (c.native_psz ok), bind_some', dbgP_of c.size, bind_some',
    dbgP_of (by have := ok.w_pos; have := ok.h_pos; omega), bind_some', divCeilT_of_ne (by omega), bind_some',
    divCeilT_of_ne (by omega), bind_some', ckU_of_lt hbl, bind_some', hnew, bind_some']
  simp only []
  rw [he1, bind_some', pure_some']
  refine ⟨_, rfl, ?_, (Wr.io _ _).append w1⟩
  rw [ios_append, i1, refillsFrom_stream hbp]
  unfold Stream.blockFull
  rw [if_neg (by have := ok.w_pos; have := ok.h_pos; omega), Stream.lineBufNew_eq hbp hhb]; rfl

/-- the body of the loop of `for_each_block_rect_untyped` for the `k`-th block line read -/
theorem blockRectBodyT_spec {img : Img} {native : Color} {p : BlkFn} {bpb size : Nat} (al : Sl → Bool) (ok : img.Ok)
    (c : BlockCfg img native p bpb size) {W ox oy : Nat} (hx : ox + img.w ≤ W) (hW : W < U32B) (hoy : oy + img.h < U32B)
    {k : Nat} {line : Sl} (hl : line.len = divCeil W p.bx * bpb)
    (hk : k < (Addr.RectGeom.mk p.bx p.by_ ox oy img.w img.h).linesToRead) :
    let g : Addr.RectGeom := ⟨p.bx, p.by_, ox, oy, img.w, img.h⟩
    ∃ e, blockRectBodyT img oy native p bpb al (g.brStart * bpb) (g.brEnd * bpb) (g.widthOffset % 256)
        (g.skipBefore + k, g.pixelRow k) line = some ((g.skipBefore + (k + 1), g.pixelRow (k + 1)), e) ∧
      Quiet (InRows 0 img.pitch img.h (img.w * img.color.bpp)) e := by
  intro g
  have gbw : g.bw = p.bx := rfl
  have gbh : g.bh = p.by_ := rfl
  have gox : g.ox = ox := rfl
  have goy : g.oy = oy := rfl
  have gw : g.w = img.w := rfl
  have gh : g.h = img.h := rfl
  obtain ⟨hbx, hbxl, hby, hbyl, hbpb, h8, hbpbl⟩ := c.shape
  obtain ⟨_, _, hpart⟩ := C05.rows_partition g hby ok.h_pos
  obtain ⟨r1, r2, r3, r4, r5, r6, r7⟩ := hpart k hk
  obtain ⟨b1, b2, b3, b4, b5, b6⟩ := C05.block_range_covers g hbx ok.w_pos
  obtain ⟨o1, o2, _, _, _⟩ := C05.width_offset_ok g hbx ok.w_pos
  have hbre : g.brEnd ≤ divCeil W p.bx := Stream.divCeil_mono hbx hx
  have hdW : divCeil W p.bx ≤ W := divCeil_le_self hbx
  -- unfold the geometry to the expressions of the code
  have eRS : oy - (g.skipBefore + k) * p.by_ = g.rowStart k := rfl
  have eRE : min (oy + img.h - (g.skipBefore + k) * p.by_) p.by_ = g.rowEnd k := rfl
  have hm1 : g.rowStart k % 256 = g.rowStart k := Nat.mod_eq_of_lt (by omega)
  have hm2 : g.rowEnd k % 256 = g.rowEnd k := Nat.mod_eq_of_lt (by omega)
  have hm3 : g.widthOffset % 256 = g.widthOffset := Nat.mod_eq_of_lt (by show g.widthOffset < 256; omega)
  have hprk : g.pixelRow k < img.h := by show g.pixelRow k < g.h; omega
  have hrowle := ok.row_le (y := g.pixelRow k + (g.rowEnd k - g.rowStart k - 1)) (by show _ < g.h; omega)
  rw [Nat.add_mul] at hrowle
  have hll := ok.len_lt
  have p1 : g.brStart * bpb ≤ g.brEnd * bpb := Nat.mul_le_mul_right _ (by omega)
  have p2 : g.brEnd * bpb ≤ divCeil W p.bx * bpb := Nat.mul_le_mul_right _ hbre
  have s1 : g.brEnd * bpb - g.brStart * bpb = (g.brEnd - g.brStart) * bpb := (Nat.sub_mul _ _ _).symm
  have pre : ConvPre native img.color.ch p bpb ⟨line.buf, line.off + g.brStart * bpb, g.brEnd * bpb - g.brStart * bpb⟩
      ⟨.out, 0 + g.pixelRow k * img.pitch, img.len - g.pixelRow k * img.pitch⟩ img.pitch
      ⟨img.w, g.widthOffset, g.rowStart k, g.rowEnd k⟩ :=
    { shape := c.shape, psz := c.native_psz ok, buf := c.buf, wo_lt := o1, w_ok := Or.inl ok.w_pos,
      wsum_lt := by
        show img.w + g.widthOffset < U32B
        have : g.widthOffset ≤ ox := by show ox % p.bx ≤ ox; exact Nat.mod_le _ _
        omega,
      rows := r1, re_le := r2,
      enc_len := by
        show g.brEnd * bpb - g.brStart * bpb = divCeil (img.w + g.widthOffset) p.bx * bpb
        rw [s1, b6, Nat.add_comm],
      out_len := by
        rw [c.color_eq]
        show (g.rowEnd k - g.rowStart k - 1) * img.pitch + img.w * img.color.bpp ≤ img.len - g.pixelRow k * img.pitch
        omega,
      out_lt := by show img.len - g.pixelRow k * img.pitch < USIZE; omega }
  obtain ⟨e, he, q⟩ := convBlocksT_spec al pre
  rw [c.color_eq] at q
  have hlt : (g.skipBefore + k) * p.by_ < U32B := by show _ < U32B; have : g.oy + g.h = oy + img.h := rfl; omega
  have r7' : (g.skipBefore + k) * p.by_ < oy + img.h := r7
  have hkl : g.skipBefore + k + 1 < U32B := by
    have : (g.skipBefore + k) * 1 ≤ (g.skipBefore + k) * p.by_ := Nat.mul_le_mul_left _ hby
    omega
  have hpr1 : g.pixelRow k + (g.rowEnd k - g.rowStart k) < USIZE := by
    rw [← r4]
    have h32 : U32B < USIZE := by decide
    have := ok.h_lt
    have : g.pixelRow (k + 1) ≤ img.h := r6
    omega
  unfold blockRectBodyT
  simp only []
  rw [Sl.range_of ⟨p1, by omega⟩, bind_some', ck32_of_lt hlt, bind_some', ck32_of_lt hoy, bind_some', bind_some',
    subU_of_le (by have : g.oy + g.h = oy + img.h := rfl; omega), bind_some', eRS,
    dbgP_of (by omega), bind_some', dbgP_of (by have : g.oy + g.h = oy + img.h := rfl; omega), bind_some', eRE, hm1, hm2,
    dbgP_of r1, bind_some', ckU_of_lt (by omega), bind_some', Sl.drop_of (by simp only [Img.data]; omega), bind_some']
  simp only [Img.data, hm3]
  rw [he, bind_some', ck32_of_lt hkl, bind_some', subU_of_le (by omega), bind_some',
    ckU_of_lt hpr1, bind_some', pure_some']
  refine ⟨e, by rw [r4, Nat.add_assoc], q.mono fun s hs hb => ?_⟩
  rcases hs with hs | ⟨_, y, hy, h1, h2⟩
  · rw [hs] at hb; cases hb
  · simp only [Nat.zero_add] at hy h1 h2
    refine ⟨g.pixelRow k + y, by show _ < g.h; omega, ?_, ?_⟩
    · rw [Nat.add_mul]; omega
    · rw [Nat.add_mul]; omega

/-- **`for_each_block_rect_untyped`**: surface `W × H` whose encoded length passed `check_likely_overflow`, the image is
the rect at `(ox, oy)` inside it -/
theorem blockRectT_spec {img : Img} {native : Color} {p : BlkFn} {bpb size : Nat} (al : Sl → Bool) (ok : img.Ok)
    (c : BlockCfg img native p bpb size) {W H ox oy : Nat} (hx : ox + img.w ≤ W) (hy : oy + img.h ≤ H) (hW : W < U32B)
    (hH : H < U32B) (hsurf : divCeil W p.bx * divCeil H p.by_ * bpb ≤ I64MAX) :
    ∃ evs, blockRectT img W H ox oy native p bpb al = some evs ∧
      ios evs = Stream.blockRect p.bx p.by_ bpb W H oy img.h ∧
      Wr (InRows 0 img.pitch img.h (img.w * img.color.bpp)) evs := by
  obtain ⟨hbx, hbxl, hby, hbyl, hbpb, h8, hbpbl⟩ := c.shape
  let g : Addr.RectGeom := ⟨p.bx, p.by_, ox, oy, img.w, img.h⟩
  obtain ⟨a1, a2, a3⟩ := C05.block_lines_account g H hby hy
  have a1' : oy / p.by_ ≤ divCeil (img.h + oy) p.by_ := a1
  have a2' : divCeil (img.h + oy) p.by_ ≤ divCeil H p.by_ := a2
  have hTR : 0 < divCeil (img.h + oy) p.by_ - oy / p.by_ := by
    have := Stream.div_lt_divCeil (y := oy) (h := img.h) hby ok.h_pos
    rw [Nat.add_comm] at this; omega
  have eTR : divCeil (img.h + oy) p.by_ - oy / p.by_ = g.linesToRead := rfl
  have eSB : oy / p.by_ = g.skipBefore := rfl
  have hPL : 0 < divCeil W p.bx := Stream.divCeil_pos (by have := ok.w_pos; omega) hbx
  have hPLle : divCeil W p.bx ≤ W := divCeil_le_self hbx
  have hbp : 0 < divCeil W p.bx * bpb := Nat.mul_pos hPL hbpb
  have hUS : 2 * I64MAX < USIZE := by decide
  have hbl : divCeil W p.bx * bpb < USIZE := by
    have : divCeil W p.bx * bpb ≤ W * 256 := Nat.mul_le_mul hPLle (by omega)
    unfold U32B at hW; unfold USIZE; omega
  -- the two skips
  have hsk : ∀ n, n ≤ divCeil H p.by_ → divCeil W p.bx * n ≤ I64MAX ∧ divCeil W p.bx * n * bpb ≤ I64MAX := by
    intro n hn
    have h1 : divCeil W p.bx * n * bpb ≤ divCeil W p.bx * divCeil H p.by_ * bpb :=
      Nat.mul_le_mul_right _ (Nat.mul_le_mul_left _ hn)
    have h2 : divCeil W p.bx * n ≤ divCeil W p.bx * n * bpb := Nat.le_mul_of_pos_right _ hbpb
    omega
  obtain ⟨lb, hnew, hbpl, inv⟩ := LB.newT_spec hbp hbl hTR
  rw [eTR] at hnew
  obtain ⟨e1, he1, i1, w1⟩ := whileLines_spec
    (blockRectBodyT img oy native p bpb al (g.brStart * bpb) (g.brEnd * bpb) (g.widthOffset % 256))
    (Stream.linesInBuffer (divCeil W p.bx * bpb) g.linesToRead) (divCeil W p.bx * bpb) g.linesToRead
    (fun k st => st = (g.skipBefore + k, g.pixelRow k)) (InRows 0 img.pitch img.h (img.w * img.color.bpp))
    (by
      intro k st line hk hst _ hl
      subst st
      obtain ⟨e, he, q⟩ := blockRectBodyT_spec al ok c hx hW (by omega) hl hk
      exact ⟨_, e, he, rfl, q⟩)
    (g.linesToRead + 1) lb 0 g.linesToRead (g.skipBefore, 0) 0 inv hbpl (by omega) (by omega) rfl
  have hbre : g.brEnd ≤ divCeil W p.bx := Stream.divCeil_mono hbx hx
  have hbrs : g.brStart ≤ g.brEnd := by
    have := (C05.block_range_covers g hbx ok.w_pos).2.2.2.2.1; omega
  have p1 : g.brStart * bpb ≤ g.brEnd * bpb := Nat.mul_le_mul_right _ hbrs
  have p2 : g.brEnd * bpb ≤ divCeil W p.bx * bpb := Nat.mul_le_mul_right _ hbre
  obtain ⟨k1, k2⟩ := hsk (oy / p.by_) (by omega)
  obtain ⟨k3, k4⟩ := hsk (divCeil H p.by_ - oy / p.by_ - (divCeil (img.h + oy) p.by_ - oy / p.by_)) (by omega)
  have hhl := ok.h_lt
  have hwl := ok.w_lt
  unfold blockRectT
  rw [dbgP_of c.prec, bind_some', divCeilT_of_ne (by omega), bind_some', div_of_ne (by omega), bind_some',
    ck32_of_lt (by omega), bind_some', divCeilT_of_ne (by omega), bind_some', subU_of_le a1', bind_some',
    divCeilT_of_ne (by omega), bind_some', subU_of_le (by omega), bind_some', subU_of_le (by omega), bind_some',
    ckU_of_lt hbl, bind_some', eTR, hnew, bind_some']
  simp only []
  rw [ckU_of_lt (by omega), bind_some', ckU_of_lt (by omega), bind_some', div_of_ne (by omega), bind_some',
    ck32_of_lt (by omega), bind_some', divCeilT_of_ne (by omega), bind_some']
  show ∃ evs, (do
      let rs ← ckU (g.brStart * bpb)
      let re ← ckU (g.brEnd * bpb)
      let wo ← modT ox p.bx
      let e1 ← whileLinesT (blockRectBodyT img oy native p bpb al rs re (wo % 256)) (g.linesToRead + 1) lb
        (oy / p.by_, 0)
      let s2 ← ckU (divCeil W p.bx * (divCeil H p.by_ - oy / p.by_ - g.linesToRead))
      let s2' ← ckU (s2 * bpb)
      pure ([Ev.io (.alloc (Stream.lineBufLen (divCeil W p.bx * bpb) g.linesToRead))] ++
        [Ev.io (.skip (divCeil W p.bx * (oy / p.by_) * bpb))] ++ e1 ++ [Ev.io (.skip s2')])) = some evs ∧ _
  rw [ckU_of_lt (by omega), bind_some', ckU_of_lt (by omega), bind_some', modT_of_ne (by omega), bind_some']
  show ∃ evs, (do
      let e1 ← whileLinesT (blockRectBodyT img oy native p bpb al (g.brStart * bpb) (g.brEnd * bpb)
        (g.widthOffset % 256)) (g.linesToRead + 1) lb (g.skipBefore, 0)
      let s2 ← ckU (divCeil W p.bx * (divCeil H p.by_ - oy / p.by_ - g.linesToRead))
      let s2' ← ckU (s2 * bpb)
      pure ([Ev.io (.alloc (Stream.lineBufLen (divCeil W p.bx * bpb) g.linesToRead))] ++
        [Ev.io (.skip (divCeil W p.bx * (oy / p.by_) * bpb))] ++ e1 ++ [Ev.io (.skip s2')])) = some evs ∧ _
  rw [he1, bind_some', ← eTR, ckU_of_lt (by omega), bind_some', ckU_of_lt (by omega), bind_some', pure_some']
  refine ⟨_, rfl, ?_, (((Wr.io _ _).append (Wr.io _ _)).append w1).append (Wr.io _ _)⟩
  have hTR' : 0 < g.linesToRead := hTR
  simp only [ios_append, i1, ios, refillsFrom_stream hbp, Stream.blockRect, eTR, Stream.lineBufNew_eq hbp hTR',
    List.cons_append, List.nil_append]

end Dds.TrapLoops
