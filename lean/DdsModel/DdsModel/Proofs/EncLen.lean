/- Helper lemmas about the writer-loop model `EncLen.lean`. -/
import DdsModel.EncLen
namespace Dds

theorem sum_map_mul (l : List Nat) (c : Nat) : (l.map (· * c)).sum = l.sum * c := by
  induction l with
  | nil => simp
  | cons a r ih => simp only [List.map_cons, List.sum_cons, ih, Nat.add_mul]

theorem sum_range_const (n x : Nat) : ((List.range n).map fun _ => x).sum = n * x := by
  induction n with
  | zero => simp
  | succ n ih =>
    rw [List.range_succ, List.map_append, List.sum_append, ih]
    simp [Nat.add_mul]

theorem sum_flatten_range_const (n : Nat) (l : List Nat) :
    ((List.range n).map fun _ => l).flatten.sum = n * l.sum := by
  induction n with
  | zero => simp
  | succ n ih =>
    rw [List.range_succ, List.map_append, List.flatten_append, List.sum_append, ih]
    simp [Nat.add_mul]

/-- `chunks(n)` cuts a slice of length `len` into pieces that add up to `len` -/
theorem chunkLens_sum (n : Nat) (hn : 1 ≤ n) : ∀ (fuel len : Nat), len ≤ fuel →
    (chunkLens n fuel len).sum = len := by
  intro fuel
  induction fuel with
  | zero => intro len h; have : len = 0 := by omega
            subst this; simp [chunkLens]
  | succ fuel ih =>
    intro len h
    unfold chunkLens
    by_cases h0 : len = 0
    · rw [if_pos h0]; simp [h0]
    · rw [if_neg h0, List.sum_cons]
      have hm : 1 ≤ min n len := by rw [Nat.min_def]; split <;> omega
      have hle : min n len ≤ len := Nat.min_le_right _ _
      rw [ih (len - min n len) (by omega)]
      omega

/-- every chunk has between 1 and `n` elements -/
theorem chunkLens_le (n : Nat) (hn : 1 ≤ n) : ∀ (fuel len : Nat),
    ∀ c ∈ chunkLens n fuel len, c ≤ n ∧ 1 ≤ c := by
  intro fuel
  induction fuel with
  | zero => intro len c hc; simp [chunkLens] at hc
  | succ fuel ih =>
    intro len c hc
    unfold chunkLens at hc
    by_cases h0 : len = 0
    · rw [if_pos h0] at hc; simp at hc
    · rw [if_neg h0] at hc
      simp only [List.mem_cons] at hc
      cases hc with
      | inl h => rw [h, Nat.min_def]; split <;> omega
      | inr h => exact ih _ c h

/-- a chunk loop over a row whose chunk size is a multiple of the block width writes
`ceil(w / bw)` blocks in total -/
theorem chunkLens_blocks (cp bw : Nat) (hbw : 1 ≤ bw) (hcp : 1 ≤ cp) (hdvd : cp % bw = 0) :
    ∀ (fuel len : Nat), len ≤ fuel →
      ((chunkLens cp fuel len).map fun p => divCeil p bw).sum = divCeil len bw := by
  intro fuel
  induction fuel with
  | zero =>
    intro len h
    have : len = 0 := by omega
    subst this
    simp [chunkLens, divCeil]
  | succ fuel ih =>
    intro len h
    unfold chunkLens
    by_cases h0 : len = 0
    · rw [if_pos h0]; subst h0; simp [divCeil]
    · rw [if_neg h0, List.map_cons, List.sum_cons]
      by_cases hle : cp ≤ len
      · -- a full chunk: cp / bw blocks, then the rest
        have hmin : min cp len = cp := Nat.min_eq_left hle
        rw [hmin, ih (len - cp) (by omega)]
        rw [divCeil_eq _ _ hbw, divCeil_eq _ _ hbw, divCeil_eq _ _ hbw]
        obtain ⟨q, hq⟩ : ∃ q, cp = q * bw := ⟨cp / bw, by
          have := Nat.div_add_mod cp bw; rw [hdvd, Nat.mul_comm] at this; omega⟩
        have e1 : (cp + bw - 1) / bw = q := by
          rw [hq]
          have : q * bw + bw - 1 = (bw - 1) + q * bw := by omega
          rw [this, Nat.add_mul_div_right _ _ (by omega)]
          have : (bw - 1) / bw = 0 := Nat.div_eq_of_lt (by omega)
          omega
        have e2 : (len + bw - 1) / bw = (len - cp + bw - 1) / bw + q := by
          have : len + bw - 1 = (len - cp + bw - 1) + q * bw := by omega
          rw [this, Nat.add_mul_div_right _ _ (by omega)]
        rw [e1, e2]; omega
      · -- the last (partial) chunk
        have hmin : min cp len = len := Nat.min_eq_right (by omega)
        rw [hmin, Nat.sub_self]
        have : chunkLens cp fuel 0 = [] := by
          cases fuel with
          | zero => rfl
          | succ f => simp [chunkLens]
        rw [this]; simp

/-- the row-wise buffer filling: flushed pixels + pixels left in the buffer = pixels before +
pixels of the row; the buffer never overflows -/
theorem fillRow_sum (bufPx : Nat) (hb : 1 ≤ bufPx) : ∀ (fuel rowPx fill : Nat),
    rowPx < fuel → fill ≤ bufPx →
      (fillRow bufPx fuel rowPx fill).1.sum + (fillRow bufPx fuel rowPx fill).2 = fill + rowPx ∧
      (fillRow bufPx fuel rowPx fill).2 ≤ bufPx := by
  intro fuel
  induction fuel with
  | zero => intro rowPx fill h; omega
  | succ fuel ih =>
    intro rowPx fill hf hfill
    unfold fillRow
    by_cases h0 : rowPx = 0
    · rw [if_pos h0]; subst h0; simp; exact hfill
    · rw [if_neg h0]
      by_cases hfull : fill = bufPx
      · rw [if_pos hfull]
        simp only
        have hm : 1 ≤ min rowPx bufPx := by rw [Nat.min_def]; split <;> omega
        have hml : min rowPx bufPx ≤ rowPx := Nat.min_le_left _ _
        have hmb : min rowPx bufPx ≤ bufPx := Nat.min_le_right _ _
        obtain ⟨h1, h2⟩ := ih (rowPx - min rowPx bufPx) (min rowPx bufPx) (by omega) hmb
        refine ⟨?_, h2⟩
        rw [List.sum_cons]; omega
      · rw [if_neg hfull]
        simp only
        have hm : 1 ≤ min rowPx (bufPx - fill) := by rw [Nat.min_def]; split <;> omega
        have hml : min rowPx (bufPx - fill) ≤ rowPx := Nat.min_le_left _ _
        have hmb : min rowPx (bufPx - fill) ≤ bufPx - fill := Nat.min_le_right _ _
        obtain ⟨h1, h2⟩ := ih (rowPx - min rowPx (bufPx - fill)) (fill + min rowPx (bufPx - fill))
          (by omega) (by omega)
        exact ⟨by omega, h2⟩

theorem chunksRowsAux_sum (bufPx w : Nat) (hb : 1 ≤ bufPx) : ∀ (rows fill : Nat), fill ≤ bufPx →
    (chunksRowsAux bufPx w rows fill).sum = fill + w * rows := by
  intro rows
  induction rows with
  | zero =>
    intro fill _
    unfold chunksRowsAux
    by_cases h : fill > 0
    · rw [if_pos h]; simp
    · rw [if_neg h]; simp; omega
  | succ rows ih =>
    intro fill hfill
    unfold chunksRowsAux
    simp only
    obtain ⟨h1, h2⟩ := fillRow_sum bufPx hb (w + 1) w fill (by omega) hfill
    rw [List.sum_append, ih _ h2, Nat.mul_add]
    omega

theorem rowGroups_eq (h bh : Nat) : rowGroups h bh = divCeil h bh := by
  unfold rowGroups divCeil
  split <;> omega

end Dds
