/-
C13 / BC7 encoder: `BlockStats` (`single_color`, `single_alpha`, `opaque`) says what its name says, for byte pixels.
-/
import DdsModel.Proofs.Enc7Consequences
namespace Dds.Enc7
open Dds

def statsStep (st : List Nat × List Nat) (p : List Nat) : List Nat × List Nat :=
  ([min (px st.1 0) (px p 0), min (px st.1 1) (px p 1), min (px st.1 2) (px p 2), min (px st.1 3) (px p 3)],
   [max (px st.2 0) (px p 0), max (px st.2 1) (px p 1), max (px st.2 2) (px p 2), max (px st.2 3) (px p 3)])

theorem blockStats_eq (block : List (List Nat)) :
    blockStats block = block.foldl statsStep ([255, 255, 255, 255], [0, 0, 0, 0]) := rfl

/-- channel `c` of the running minimum / maximum -/
theorem stats_chan (block : List (List Nat)) (st : List Nat × List Nat) (c : Nat) (hc : c < 4) :
    px (block.foldl statsStep st).1 c = block.foldl (fun m p => min m (px p c)) (px st.1 c) ∧
    px (block.foldl statsStep st).2 c = block.foldl (fun m p => max m (px p c)) (px st.2 c) := by
  induction block generalizing st with
  | nil => exact ⟨rfl, rfl⟩
  | cons p ps ih =>
    simp only [List.foldl_cons]
    have h := ih (statsStep st p)
    have : c = 0 ∨ c = 1 ∨ c = 2 ∨ c = 3 := by omega
    rcases this with h' | h' | h' | h' <;> subst h' <;> exact h

theorem foldl_min_le (l : List (List Nat)) (c m : Nat) :
    l.foldl (fun m p => min m (px p c)) m ≤ m ∧ (∀ p ∈ l, l.foldl (fun m p => min m (px p c)) m ≤ px p c) ∧
    ((∀ p ∈ l, m ≤ px p c) → l.foldl (fun m p => min m (px p c)) m = m) := by
  induction l generalizing m with
  | nil => exact ⟨Nat.le_refl _, ⟨fun p hp => (nomatch hp), fun _ => rfl⟩⟩
  | cons a l ih =>
    simp only [List.foldl_cons]
    obtain ⟨h1, h2, h3⟩ := ih (min m (px a c))
    refine ⟨by omega, ?_, ?_⟩
    · intro p hp
      rcases List.mem_cons.mp hp with h | h
      · subst h; omega
      · exact h2 p h
    · intro hall
      have ha := hall a (List.mem_cons_self ..)
      have : min m (px a c) = m := by omega
      rw [this] at h3 ⊢
      exact h3 (fun p hp => hall p (List.mem_cons_of_mem _ hp))

/-- `BlockStats::opaque()` ⇔ every pixel has alpha 255 (byte alphas) -/
theorem isOpaque_iff (block : List (List Nat)) (hb : ∀ p ∈ block, px p 3 ≤ 255) :
    isOpaque (blockStats block) = true ↔ ∀ p ∈ block, px p 3 = 255 := by
  rw [blockStats_eq]
  unfold isOpaque
  rw [(stats_chan block _ 3 (by decide)).1]
  obtain ⟨h1, h2, h3⟩ := foldl_min_le block 3 (px [255, 255, 255, 255] 3)
  have e : px [255, 255, 255, 255] 3 = 255 := rfl
  rw [e] at h1 h2 h3 ⊢
  constructor
  · intro h p hp
    have := h2 p hp
    have := hb p hp
    have : List.foldl (fun m p => min m (px p 3)) 255 block = 255 := by simpa using h
    omega
  · intro h
    have := h3 (fun p hp => by rw [h p hp]; exact Nat.le_refl _)
    simp [this]

end Dds.Enc7
