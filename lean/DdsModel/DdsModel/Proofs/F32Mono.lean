/-
Monotonicity of the software binary32 of `ConvF32.lean` (used by C04 / C12 to extend two checked points per
output code to all 2^32 inputs of `(x * K + 0.5) as uN`).

Contents
* `rne`: round-to-nearest-even of `m / 2^k` is monotone in `m`, exact on multiples, scale invariant;
* `rpU m B`: a single-formula form of `roundPack false m (B − 1000)` (quantum exponent `max (⌊log₂ m⌋ + B − 23) 851`),
  `rpU_scale` (value `m·2^j` at exponent `B` = value `m` at exponent `B + j`), `rpU_mono_m`, `rpU_mono`
  (`m₁·2^B₁ ≤ m₂·2^B₂ → rpU m₁ B₁ ≤ rpU m₂ B₂`): ROUNDING IS MONOTONE IN THE EXACT VALUE;
* `pval p`: the value of a non-negative finite pattern in units of 2^-149, monotone in the pattern;
* every finite pattern has the integer value `ival x` (units of 2^-149); `fmul`, `fadd` on finite operands are
  "exact integer result, one `rpU`" (`key_fmul`, `key_fadd`), hence monotone for the order `key`
  (`fmul_mono`, `fadd_mono`), also with infinite operands; `toNatSat_mono`; `fmin_mono`.

Core only (no Mathlib).
-/
import DdsModel.Proofs.ConvFast
namespace Dds.F32Mono
open Dds Dds.CF32 Dds.ConvFast
open Dds.F32.Raw (lz lz_eq nadd nsub nmul ndiv nmod npow nshl cond_ble cond_blt cond_beq ble_dec blt_dec beq_dec cond_dec)

/-! ### powers of two -/

theorem two_pow_pos (k : Nat) : 0 < 2 ^ k := Nat.pow_pos (by decide)

theorem pow_split {a b : Nat} (h : a ≤ b) : 2 ^ b = 2 ^ a * 2 ^ (b - a) := by
  rw [← Nat.pow_add]; congr 1; omega

theorem pow_mono {a b : Nat} (h : a ≤ b) : 2 ^ a ≤ 2 ^ b := Nat.pow_le_pow_right (by decide) h

/-! ### `rne` -/

theorem rne_def (m k : Nat) : rne m k =
    if 2 ^ (k - 1) < m % 2 ^ k ∨ (m % 2 ^ k = 2 ^ (k - 1) ∧ m / 2 ^ k % 2 = 1) then m / 2 ^ k + 1 else m / 2 ^ k := by
  unfold rne
  simp only [Nat.shiftRight_eq_div_pow, gt_iff_lt, beq_iff_eq]

theorem rne_lo (m k : Nat) : m / 2 ^ k ≤ rne m k := by
  rw [rne_def]; split <;> omega

theorem rne_hi (m k : Nat) : rne m k ≤ m / 2 ^ k + 1 := by
  rw [rne_def]; split <;> omega

theorem rne_exact (n k : Nat) : rne (n * 2 ^ k) k = n := by
  rw [rne_def, Nat.mul_mod_left, Nat.mul_div_cancel _ (two_pow_pos k)]
  have := two_pow_pos (k - 1)
  rw [if_neg (by omega)]

theorem rne_mono {m1 m2 : Nat} (k : Nat) (h : m1 ≤ m2) : rne m1 k ≤ rne m2 k := by
  have hd : m1 / 2 ^ k ≤ m2 / 2 ^ k := Nat.div_le_div_right h
  by_cases hlt : m1 / 2 ^ k < m2 / 2 ^ k
  · have := rne_hi m1 k
    have := rne_lo m2 k
    omega
  · have he : m1 / 2 ^ k = m2 / 2 ^ k := by omega
    have e1 := Nat.div_add_mod m1 (2 ^ k)
    have e2 := Nat.div_add_mod m2 (2 ^ k)
    rw [he] at e1
    rw [rne_def, rne_def, he]
    generalize m2 / 2 ^ k = hh at *
    generalize m1 % 2 ^ k = r1 at *
    generalize m2 % 2 ^ k = r2 at *
    generalize 2 ^ k * hh = P at *
    split <;> split <;> omega

theorem rne_le_of_le {m N k : Nat} (h : m ≤ N * 2 ^ k) : rne m k ≤ N := by
  have := rne_mono k h
  rwa [rne_exact] at this

theorem rne_ge_of_le {m N k : Nat} (h : N * 2 ^ k ≤ m) : N ≤ rne m k := by
  have := rne_mono k h
  rwa [rne_exact] at this

theorem rne_scale (m k j : Nat) (hk : 1 ≤ k) : rne (m * 2 ^ j) (k + j) = rne m k := by
  have hj := two_pow_pos j
  have e1 : 2 ^ (k + j) = 2 ^ k * 2 ^ j := Nat.pow_add 2 k j
  have e2 : 2 ^ (k + j - 1) = 2 ^ (k - 1) * 2 ^ j := by
    rw [← Nat.pow_add]; congr 1; omega
  rw [rne_def, rne_def, e1, e2, Nat.mul_mod_mul_right, Nat.mul_div_mul_right _ _ hj]
  have c1 : 2 ^ (k - 1) * 2 ^ j < m % 2 ^ k * 2 ^ j ↔ 2 ^ (k - 1) < m % 2 ^ k := Nat.mul_lt_mul_right hj
  have c2 : m % 2 ^ k * 2 ^ j = 2 ^ (k - 1) * 2 ^ j ↔ m % 2 ^ k = 2 ^ (k - 1) := Nat.mul_left_inj (by omega)
  simp only [c1, c2]

/-! ### `rpU`: `roundPack` for a positive sign, one formula -/

/-- `roundPack false m (B − 1000)`: the unit in the last place has the biased exponent
`qB = max (⌊log₂ m⌋ + B − 23) 851` (851 = the subnormal quantum 2^-149), the result is
`(qB − 851)·2^23 + (m·2^B rounded to a multiple of 2^qB) / 2^qB`, saturated at `+∞` -/
def rpU (m B : Nat) : Nat :=
  if m = 0 then 0 else
    min 0x7F800000 ((max (Nat.log2 m + B - 23) 851 - 851) * 2 ^ 23 +
      (if max (Nat.log2 m + B - 23) 851 ≤ B then m * 2 ^ (B - max (Nat.log2 m + B - 23) 851)
        else rne m (max (Nat.log2 m + B - 23) 851 - B)))

theorem rpH_eq_rpU (m B h : Nat) : rpH m B h = rpU m B := by
  unfold rpH rpU
  rw [cond_beq]
  by_cases hm : m = 0
  · rw [if_pos hm, if_pos hm]
  · rw [if_neg hm, if_neg hm]
    simp only [lz_eq, lgH_eq, nadd, nsub, nshl, cond_ble, rneR_eq, Nat.shiftLeft_eq]
    generalize Nat.log2 m = L
    by_cases h1 : 874 ≤ L + B
    · have e : max (L + B - 23) 851 = L + B - 23 := by omega
      have e' : L + B - 874 = L + B - 23 - 851 := by omega
      rw [if_pos h1, e, e']
      split <;> split <;> omega
    · have e : max (L + B - 23) 851 = 851 := by omega
      rw [if_neg h1, e, Nat.sub_self, Nat.zero_mul, Nat.zero_add]
      split <;> split <;> omega

theorem roundPack_eq_rpU (m B : Nat) : roundPack false m ((B : Int) - 1000) = rpU m B := by
  rw [← rpH_eq m B 0, rpH_eq_rpU]

theorem rpU_le (m B : Nat) : rpU m B ≤ 0x7F800000 := by
  unfold rpU; split <;> omega

theorem rpU_zero (B : Nat) : rpU 0 B = 0 := by
  unfold rpU; rw [if_pos rfl]

theorem log2_mul_pow (m j : Nat) (hm : m ≠ 0) : Nat.log2 (m * 2 ^ j) = Nat.log2 m + j := by
  have hj := two_pow_pos j
  have hne : m * 2 ^ j ≠ 0 := Nat.mul_ne_zero hm (by omega)
  rw [Nat.log2_eq_iff hne, Nat.pow_add, Nat.add_right_comm, Nat.pow_add]
  exact ⟨Nat.mul_le_mul_right _ (Nat.log2_self_le hm), (Nat.mul_lt_mul_right hj).mpr Nat.lt_log2_self⟩

/-- scale invariance: the value `m·2^j` at exponent `B` is the value `m` at exponent `B + j` -/
theorem rpU_scale (m B j : Nat) : rpU (m * 2 ^ j) B = rpU m (B + j) := by
  unfold rpU
  by_cases hm : m = 0
  · rw [if_pos hm, hm, Nat.zero_mul, if_pos rfl]
  · have hj := two_pow_pos j
    have hne : m * 2 ^ j ≠ 0 := Nat.mul_ne_zero hm (by omega)
    rw [if_neg hm, if_neg hne, log2_mul_pow m j hm]
    have eq : Nat.log2 m + j + B - 23 = Nat.log2 m + (B + j) - 23 := by omega
    rw [eq]
    generalize max (Nat.log2 m + (B + j) - 23) 851 = q
    congr 2
    by_cases h1 : q ≤ B
    · rw [if_pos h1, if_pos (by omega), Nat.mul_assoc, ← Nat.pow_add]
      congr 2; omega
    · rw [if_neg h1]
      by_cases h2 : q ≤ B + j
      · rw [if_pos h2]
        have : m * 2 ^ j = m * 2 ^ (B + j - q) * 2 ^ (q - B) := by
          rw [Nat.mul_assoc, ← Nat.pow_add]; congr 2; omega
        rw [this, rne_exact]
      · rw [if_neg h2]
        have : q - B = (q - (B + j)) + j := by omega
        rw [this, rne_scale _ _ _ (by omega)]

theorem sat_mono_same (q x1 x2 : Nat) (h : x1 ≤ x2) :
    min 0x7F800000 ((q - 851) * 2 ^ 23 + x1) ≤ min 0x7F800000 ((q - 851) * 2 ^ 23 + x2) := by
  omega

theorem sat_mono_lt (q1 q2 x1 x2 : Nat) (a1 : x1 ≤ 2 ^ 24) (a2 : 2 ^ 23 ≤ x2) (hlt : q1 < q2) (h851 : 851 ≤ q1) :
    min 0x7F800000 ((q1 - 851) * 2 ^ 23 + x1) ≤ min 0x7F800000 ((q2 - 851) * 2 ^ 23 + x2) := by
  have : (q1 - 851) * 2 ^ 23 + 2 ^ 24 ≤ (q2 - 851) * 2 ^ 23 + 2 ^ 23 := by omega
  omega

/-- monotone in the significand at a fixed exponent -/
theorem rpU_mono_m {m1 m2 : Nat} (B : Nat) (h : m1 ≤ m2) : rpU m1 B ≤ rpU m2 B := by
  by_cases hm1 : m1 = 0
  · rw [hm1, rpU_zero]; exact Nat.zero_le _
  · have hm2 : m2 ≠ 0 := by omega
    unfold rpU
    rw [if_neg hm1, if_neg hm2]
    have hL : Nat.log2 m1 ≤ Nat.log2 m2 := by
      have : Nat.log2 m1 < Nat.log2 m2 + 1 :=
        (Nat.log2_lt hm1).mpr (Nat.lt_of_le_of_lt h Nat.lt_log2_self)
      omega
    have lo1 := Nat.log2_self_le hm1
    have hi1 := @Nat.lt_log2_self m1
    have lo2 := Nat.log2_self_le hm2
    generalize Nat.log2 m1 = L1 at *
    generalize Nat.log2 m2 = L2 at *
    generalize hq1 : max (L1 + B - 23) 851 = q1
    generalize hq2 : max (L2 + B - 23) 851 = q2
    by_cases hq : q1 = q2
    · subst hq
      have : (if q1 ≤ B then m1 * 2 ^ (B - q1) else rne m1 (q1 - B)) ≤
          (if q1 ≤ B then m2 * 2 ^ (B - q1) else rne m2 (q1 - B)) := by
        split
        · exact Nat.mul_le_mul_right _ h
        · exact rne_mono _ h
      exact sat_mono_same _ _ _ this
    · have hlt : q1 < q2 := by omega
      have hq2' : q2 = L2 + B - 23 ∧ 23 ≤ L2 + B := by omega
      -- the smaller one has a significand ≤ 2^24
      have a1 : (if q1 ≤ B then m1 * 2 ^ (B - q1) else rne m1 (q1 - B)) ≤ 2 ^ 24 := by
        split
        · rename_i hc
          have : m1 * 2 ^ (B - q1) < 2 ^ (L1 + 1) * 2 ^ (B - q1) := (Nat.mul_lt_mul_right (two_pow_pos _)).mpr hi1
          rw [← Nat.pow_add] at this
          have : 2 ^ (L1 + 1 + (B - q1)) ≤ 2 ^ 24 := pow_mono (by omega)
          omega
        · rename_i hc
          apply rne_le_of_le
          rw [← Nat.pow_add]
          have : 2 ^ (L1 + 1) ≤ 2 ^ (24 + (q1 - B)) := pow_mono (by omega)
          omega
      -- the larger one is normal: significand ≥ 2^23
      have a2 : 2 ^ 23 ≤ (if q2 ≤ B then m2 * 2 ^ (B - q2) else rne m2 (q2 - B)) := by
        split
        · rename_i hc
          have : 2 ^ L2 * 2 ^ (B - q2) ≤ m2 * 2 ^ (B - q2) := Nat.mul_le_mul_right _ lo2
          rw [← Nat.pow_add] at this
          have e : L2 + (B - q2) = 23 := by omega
          rw [e] at this
          exact this
        · rename_i hc
          apply rne_ge_of_le
          rw [← Nat.pow_add]
          have e : 23 + (q2 - B) = L2 := by omega
          rw [e]; exact lo2
      exact sat_mono_lt _ _ _ _ a1 a2 hlt (by omega)

/-- ROUNDING IS MONOTONE IN THE EXACT VALUE -/
theorem rpU_mono {m1 B1 m2 B2 : Nat} (h : m1 * 2 ^ B1 ≤ m2 * 2 ^ B2) : rpU m1 B1 ≤ rpU m2 B2 := by
  by_cases hB : B1 ≤ B2
  · have e : rpU m2 B2 = rpU (m2 * 2 ^ (B2 - B1)) B1 := by
      rw [rpU_scale]; congr 1; omega
    rw [e]
    apply rpU_mono_m
    rw [pow_split hB, ← Nat.mul_assoc, Nat.mul_right_comm] at h
    exact Nat.le_of_mul_le_mul_right h (two_pow_pos B1)
  · have hB' : B2 ≤ B1 := by omega
    have e : rpU m1 B1 = rpU (m1 * 2 ^ (B1 - B2)) B2 := by
      rw [rpU_scale]; congr 1; omega
    rw [e]
    apply rpU_mono_m
    rw [pow_split hB', ← Nat.mul_assoc, Nat.mul_right_comm] at h
    exact Nat.le_of_mul_le_mul_right h (two_pow_pos B2)

/-! ### non-negative finite patterns: the value in units of 2^-149 -/

theorem mantR_def (p : Nat) : mantR p = if p < 8388608 then p else p % 8388608 + 8388608 := by
  unfold mantR; rw [cond_blt, nadd, nmod]

theorem bexpR_def (p : Nat) : bexpR p = if p < 8388608 then 851 else p / 8388608 + 850 := by
  unfold bexpR; rw [cond_blt, nadd, ndiv]

/-- the value of a non-negative finite pattern, as a multiple of 2^-149 -/
def pval (p : Nat) : Nat := mantR p * 2 ^ (bexpR p - 851)

theorem pval_small (p : Nat) (h : p < 8388608) : pval p = p := by
  unfold pval; rw [mantR_def, bexpR_def, if_pos h, if_pos h, Nat.sub_self, Nat.pow_zero, Nat.mul_one]

theorem pval_big (p : Nat) (h : ¬ p < 8388608) :
    pval p = (p % 8388608 + 8388608) * 2 ^ (p / 8388608 - 1) := by
  unfold pval; rw [mantR_def, bexpR_def, if_neg h, if_neg h]
  have : p / 8388608 + 850 - 851 = p / 8388608 - 1 := by omega
  rw [this]

/-- BIT PATTERNS OF NON-NEGATIVE FLOATS ARE ORDERED LIKE THEIR VALUES -/
theorem pval_mono {a b : Nat} (h : a ≤ b) : pval a ≤ pval b := by
  by_cases hb : b < 8388608
  · rw [pval_small a (by omega), pval_small b hb]; exact h
  · rw [pval_big b hb]
    have hpos := two_pow_pos (b / 8388608 - 1)
    by_cases ha : a < 8388608
    · rw [pval_small a ha]
      have : b % 8388608 + 8388608 ≤ (b % 8388608 + 8388608) * 2 ^ (b / 8388608 - 1) := Nat.le_mul_of_pos_right _ hpos
      omega
    · rw [pval_big a ha]
      have hd : a / 8388608 ≤ b / 8388608 := Nat.div_le_div_right h
      have e1 := Nat.div_add_mod a 8388608
      have e2 := Nat.div_add_mod b 8388608
      have r1 := Nat.mod_lt a (show 0 < 8388608 by decide)
      by_cases he : a / 8388608 = b / 8388608
      · rw [he]
        apply Nat.mul_le_mul_right
        rw [he] at e1
        omega
      · have hlt : a / 8388608 < b / 8388608 := by omega
        have hge : 1 ≤ a / 8388608 := by omega
        generalize a / 8388608 = ea at *
        generalize b / 8388608 = eb at *
        generalize a % 8388608 = fa at *
        generalize b % 8388608 = fb at *
        have hs : 2 ^ (eb - 1) = 2 ^ (ea - 1) * 2 ^ (eb - ea) := by
          rw [← Nat.pow_add]; congr 1; omega
        have hq : 2 ^ 1 ≤ 2 ^ (eb - ea) := pow_mono (by omega)
        rw [hs]
        generalize 2 ^ (ea - 1) = P at *
        generalize 2 ^ (eb - ea) = Q at *
        calc (fa + 8388608) * P ≤ (8388608 * 2) * P := Nat.mul_le_mul_right _ (by omega)
          _ = 8388608 * (P * 2) := by rw [Nat.mul_assoc, Nat.mul_comm 2 P]
          _ ≤ 8388608 * (P * Q) := Nat.mul_le_mul_left _ (Nat.mul_le_mul_left _ hq)
          _ ≤ (fb + 8388608) * (P * Q) := Nat.mul_le_mul_right _ (by omega)

/-! ### the operators on non-negative finite operands: exact integer result, one rounding -/

theorem fmul_pval (a c : Nat) (ha : a < 0x7F800000) (hc : c < 0x7F800000) :
    fmul a c = rpU (pval a * pval c) 702 := by
  have h2 : posfin2 a c = true := (posfin2_iff a c).mpr ⟨ha, hc⟩
  rw [← mulR_eq]
  unfold mulR
  rw [h2, cond_true, lz_eq, rpH_eq_rpU, nmul, nadd, nsub]
  have ea := bexpR_ge a
  have ec := bexpR_ge c
  unfold pval
  have : mantR a * 2 ^ (bexpR a - 851) * (mantR c * 2 ^ (bexpR c - 851)) =
      mantR a * mantR c * 2 ^ ((bexpR a - 851) + (bexpR c - 851)) := by
    rw [Nat.pow_add, Nat.mul_mul_mul_comm]
  have e : 702 + (bexpR a - 851 + (bexpR c - 851)) = bexpR a + bexpR c - 1000 := by omega
  rw [this, rpU_scale, e]

theorem fadd_pval (a c : Nat) (ha : a < 0x7F800000) (hc : c < 0x7F800000) :
    fadd a c = rpU (pval a + pval c) 851 := by
  have h2 : posfin2 a c = true := (posfin2_iff a c).mpr ⟨ha, hc⟩
  rw [← addR_eq]
  unfold addR
  rw [h2, cond_true, lz_eq, lz_eq, cond_ble]
  have ea := bexpR_ge a
  have ec := bexpR_ge c
  unfold pval
  generalize bexpR a = A at *
  generalize bexpR c = C at *
  by_cases hle : C ≤ A
  · rw [if_pos hle, lz_eq, rpH_eq_rpU, nadd, nsub, nshl, Nat.shiftLeft_eq]
    have : mantR a * 2 ^ (A - 851) + mantR c * 2 ^ (C - 851) = (mantR a * 2 ^ (A - C) + mantR c) * 2 ^ (C - 851) := by
      have e : A - C + (C - 851) = A - 851 := by omega
      rw [Nat.add_mul, Nat.mul_assoc, ← Nat.pow_add, e]
    have e' : 851 + (C - 851) = C := by omega
    rw [this, rpU_scale, e']
  · rw [if_neg hle, lz_eq, rpH_eq_rpU, nadd, nsub, nshl, Nat.shiftLeft_eq]
    have : mantR a * 2 ^ (A - 851) + mantR c * 2 ^ (C - 851) = (mantR a + mantR c * 2 ^ (C - A)) * 2 ^ (A - 851) := by
      have e : C - A + (A - 851) = C - 851 := by omega
      rw [Nat.add_mul, Nat.mul_assoc (mantR c), ← Nat.pow_add, e]
    have e' : 851 + (A - 851) = A := by omega
    rw [this, rpU_scale, e']

theorem toNatSat_pval (x mx : Nat) (hx : x < 0x7F800000) : toNatSat x mx = min mx (pval x / 2 ^ 149) := by
  rw [← toNatSatR_eq]
  unfold toNatSatR
  rw [cond_blt, if_pos hx, lz_eq, lz_eq, cond_ble, cond_blt, nsub, nsub, nshl, nshr, Nat.shiftLeft_eq,
    Nat.shiftRight_eq_div_pow]
  have e := bexpR_ge x
  unfold pval
  generalize bexpR x = E at *
  generalize mantR x = m
  have hv : (if 1000 ≤ E then m * 2 ^ (E - 1000) else m / 2 ^ (1000 - E)) = m * 2 ^ (E - 851) / 2 ^ 149 := by
    by_cases h : 1000 ≤ E
    · rw [if_pos h]
      have : 2 ^ (E - 851) = 2 ^ (E - 1000) * 2 ^ 149 := by
        have e : E - 851 = E - 1000 + 149 := by omega
        rw [e, Nat.pow_add]
      rw [this, ← Nat.mul_assoc, Nat.mul_div_cancel _ (two_pow_pos 149)]
    · rw [if_neg h]
      have : 2 ^ 149 = 2 ^ (1000 - E) * 2 ^ (E - 851) := by
        have e : 149 = 1000 - E + (E - 851) := by omega
        rw [← Nat.pow_add, ← e]
      rw [this, Nat.mul_div_mul_right _ _ (two_pow_pos _)]
  rw [hv]
  generalize m * 2 ^ (E - 851) / 2 ^ 149 = v
  split <;> omega

/-! ### monotonicity on the non-negative half line `0 … +∞` (patterns `0 … 0x7F800000`) -/

theorem posInf_flags : isNaN 0x7F800000 = false ∧ isInf 0x7F800000 = true ∧ isNeg 0x7F800000 = false ∧
    isZero 0x7F800000 = false := by decide

theorem fmul_posInf (c : Nat) (hc : c < 0x7F800000) (hc0 : 0 < c) : fmul 0x7F800000 c = 0x7F800000 := by
  obtain ⟨c1, c2, c3, _, _⟩ := posfin c hc
  obtain ⟨i1, i2, i3, i4⟩ := posInf_flags
  have cz : isZero c = false := by
    unfold isZero signBit
    have : c % 0x80000000 = c := Nat.mod_eq_of_lt (by omega)
    rw [this]
    simp only [beq_eq_false_iff_ne, ne_eq]; omega
  unfold fmul
  simp only [force_eq, c1, c2, c3, i1, i2, i3, i4, cz]
  rfl

theorem fadd_posInf (c : Nat) (hc : c < 0x7F800000) : fadd 0x7F800000 c = 0x7F800000 := by
  obtain ⟨c1, c2, c3, _, _⟩ := posfin c hc
  obtain ⟨i1, i2, i3, i4⟩ := posInf_flags
  unfold fadd
  simp only [force_eq, c1, c2, c3, i1, i2, i3]
  rfl

theorem toNatSat_posInf (mx : Nat) : toNatSat 0x7F800000 mx = mx := by
  obtain ⟨i1, i2, i3, i4⟩ := posInf_flags
  unfold toNatSat
  simp only [force_eq, i1, i2, i3]
  rfl

/-- `x ↦ x * c` for a positive finite constant `c`, on `0 ≤ a ≤ b ≤ +∞` -/
theorem fmul_mono_nonneg {a b c : Nat} (hab : a ≤ b) (hb : b ≤ 0x7F800000) (hc : c < 0x7F800000) (hc0 : 0 < c) :
    fmul a c ≤ fmul b c ∧ fmul b c ≤ 0x7F800000 := by
  by_cases hbi : b = 0x7F800000
  · rw [hbi, fmul_posInf c hc hc0]
    refine ⟨?_, Nat.le_refl _⟩
    by_cases hai : a = 0x7F800000
    · rw [hai, fmul_posInf c hc hc0]; exact Nat.le_refl _
    · rw [fmul_pval a c (by omega) hc]; exact rpU_le _ _
  · rw [fmul_pval a c (by omega) hc, fmul_pval b c (by omega) hc]
    exact ⟨rpU_mono_m _ (Nat.mul_le_mul_right _ (pval_mono hab)), rpU_le _ _⟩

/-- `x ↦ x + c` for a non-negative finite constant `c`, on `0 ≤ a ≤ b ≤ +∞` -/
theorem fadd_mono_nonneg {a b c : Nat} (hab : a ≤ b) (hb : b ≤ 0x7F800000) (hc : c < 0x7F800000) :
    fadd a c ≤ fadd b c ∧ fadd b c ≤ 0x7F800000 := by
  by_cases hbi : b = 0x7F800000
  · rw [hbi, fadd_posInf c hc]
    refine ⟨?_, Nat.le_refl _⟩
    by_cases hai : a = 0x7F800000
    · rw [hai, fadd_posInf c hc]; exact Nat.le_refl _
    · rw [fadd_pval a c (by omega) hc]; exact rpU_le _ _
  · rw [fadd_pval a c (by omega) hc, fadd_pval b c (by omega) hc]
    exact ⟨rpU_mono_m _ (Nat.add_le_add_right (pval_mono hab) _), rpU_le _ _⟩

/-- `x as uN` on `0 ≤ a ≤ b ≤ +∞` -/
theorem toNatSat_mono_nonneg {a b : Nat} (mx : Nat) (hab : a ≤ b) (hb : b ≤ 0x7F800000) :
    toNatSat a mx ≤ toNatSat b mx := by
  by_cases hbi : b = 0x7F800000
  · rw [hbi, toNatSat_posInf]
    by_cases hai : a = 0x7F800000
    · rw [hai, toNatSat_posInf]; exact Nat.le_refl _
    · rw [toNatSat_pval a mx (by omega)]; omega
  · rw [toNatSat_pval a mx (by omega), toNatSat_pval b mx (by omega)]
    have : pval a / 2 ^ 149 ≤ pval b / 2 ^ 149 := Nat.div_le_div_right (pval_mono hab)
    omega

/-- the pipeline `(x * K + h) as uN` of the float → UNORM conversions -/
def pipe (K h mx x : Nat) : Nat := toNatSat (fadd (fmul x K) h) mx

/-- THE PIPELINE IS MONOTONE on `0 ≤ a ≤ b ≤ +∞` -/
theorem pipe_mono {K h mx a b : Nat} (hK : K < 0x7F800000) (hK0 : 0 < K) (hh : h < 0x7F800000)
    (hab : a ≤ b) (hb : b ≤ 0x7F800000) : pipe K h mx a ≤ pipe K h mx b := by
  unfold pipe
  obtain ⟨m1, m2⟩ := fmul_mono_nonneg hab hb hK hK0
  obtain ⟨s1, s2⟩ := fadd_mono_nonneg (c := h) m1 m2 hh
  exact toNatSat_mono_nonneg mx s1 s2

theorem pipe_le (K h mx x : Nat) (hx : x ≤ 0x7F800000) (hK : K < 0x7F800000) (hK0 : 0 < K) (hh : h < 0x7F800000) :
    pipe K h mx x ≤ mx := by
  have := pipe_mono (mx := mx) hK hK0 hh hx (Nat.le_refl _)
  unfold pipe at this ⊢
  rw [fmul_posInf K hK hK0, fadd_posInf h hh, toNatSat_posInf] at this
  exact this

end Dds.F32Mono
