/-
Monotonicity of the software binary32 of `ConvF32.lean` (used by C04 / C12 to extend two checked points per
output code to all 2^32 inputs of `(x * K + 0.5) as uN`).

Contents
* `rne`: round-to-nearest-even of `m / 2^k` is monotone in `m`, exact on multiples, scale invariant;
* `rpU m B`: a single-formula form of `roundPack false m (B − 1000)` (quantum exponent `max (⌊log₂ m⌋ + B − 23) 851`),
  `rpU_scale` (value `m·2^j` at exponent `B` = value `m` at exponent `B + j`), `rpU_mono_m`, `rpU_mono`
  (`m₁·2^B₁ ≤ m₂·2^B₂ → rpU m₁ B₁ ≤ rpU m₂ B₂`): ROUNDING IS MONOTONE IN THE EXACT VALUE;
* `pval p`: the value of a non-negative finite pattern in units of 2^-149, monotone in the pattern;
* every finite pattern has the integer value `ival x` (units of 2^-149); `fmul`, `fadd` on finite operands are
  "exact integer result, one `rpU`" (`key_fmul`, `key_fadd`), hence monotone for the order `key`
  (`fmul_mono`, `fadd_mono`), also with infinite operands; `toNatSat_mono`; `fmin_mono`.

Core only (no Mathlib).
-/
import DdsModel.Proofs.ConvFast
namespace Dds.F32Mono
open Dds Dds.CF32 Dds.ConvFast
open Dds.F32.Raw (lz lz_eq nadd nsub nmul ndiv nmod npow nshl cond_ble cond_blt cond_beq ble_dec blt_dec beq_dec cond_dec)

/-! ### powers of two -/

theorem two_pow_pos (k : Nat) : 0 < 2 ^ k := Nat.pow_pos (by decide)

theorem pow_split {a b : Nat} (h : a ≤ b) : 2 ^ b = 2 ^ a * 2 ^ (b - a) := by
  rw [← Nat.pow_add]; congr 1; omega

theorem pow_mono {a b : Nat} (h : a ≤ b) : 2 ^ a ≤ 2 ^ b := Nat.pow_le_pow_right (by decide) h

/-! ### `rne` -/

theorem rne_def (m k : Nat) : rne m k =
    if 2 ^ (k - 1) < m % 2 ^ k ∨ (m % 2 ^ k = 2 ^ (k - 1) ∧ m / 2 ^ k % 2 = 1) then m / 2 ^ k + 1 else m / 2 ^ k := by
  unfold rne
  simp only [Nat.shiftRight_eq_div_pow, gt_iff_lt, beq_iff_eq]

theorem rne_lo (m k : Nat) : m / 2 ^ k ≤ rne m k := by
  rw [rne_def]; split <;> omega

theorem rne_hi (m k : Nat) : rne m k ≤ m / 2 ^ k + 1 := by
  rw [rne_def]; split <;> omega

theorem rne_exact (n k : Nat) : rne (n * 2 ^ k) k = n := by
  rw [rne_def, Nat.mul_mod_left, Nat.mul_div_cancel _ (two_pow_pos k)]
  have := two_pow_pos (k - 1)
  rw [if_neg (by omega)]

theorem rne_mono {m1 m2 : Nat} (k : Nat) (h : m1 ≤ m2) : rne m1 k ≤ rne m2 k := by
  have hd : m1 / 2 ^ k ≤ m2 / 2 ^ k := Nat.div_le_div_right h
  by_cases hlt : m1 / 2 ^ k < m2 / 2 ^ k
  · have := rne_hi m1 k
    have := rne_lo m2 k
    omega
  · have he : m1 / 2 ^ k = m2 / 2 ^ k := by omega
    have e1 := Nat.div_add_mod m1 (2 ^ k)
    have e2 := Nat.div_add_mod m2 (2 ^ k)
    rw [he] at e1
    rw [rne_def, rne_def, he]
    generalize m2 / 2 ^ k = hh at *
    generalize m1 % 2 ^ k = r1 at *
    generalize m2 % 2 ^ k = r2 at *
    generalize 2 ^ k * hh = P at *
    split <;> split <;> omega

theorem rne_le_of_le {m N k : Nat} (h : m ≤ N * 2 ^ k) : rne m k ≤ N := by
  have := rne_mono k h
  rwa [rne_exact] at this

theorem rne_ge_of_le {m N k : Nat} (h : N * 2 ^ k ≤ m) : N ≤ rne m k := by
  have := rne_mono k h
  rwa [rne_exact] at this

theorem rne_scale (m k j : Nat) (hk : 1 ≤ k) : rne (m * 2 ^ j) (k + j) = rne m k := by
  have hj := two_pow_pos j
  have e1 : 2 ^ (k + j) = 2 ^ k * 2 ^ j := Nat.pow_add 2 k j
  have e2 : 2 ^ (k + j - 1) = 2 ^ (k - 1) * 2 ^ j := by
    rw [← Nat.pow_add]; congr 1; omega
  rw [rne_def, rne_def, e1, e2, Nat.mul_mod_mul_right, Nat.mul_div_mul_right _ _ hj]
  have c1 : 2 ^ (k - 1) * 2 ^ j < m % 2 ^ k * 2 ^ j ↔ 2 ^ (k - 1) < m % 2 ^ k := Nat.mul_lt_mul_right hj
  have c2 : m % 2 ^ k * 2 ^ j = 2 ^ (k - 1) * 2 ^ j ↔ m % 2 ^ k = 2 ^ (k - 1) := Nat.mul_left_inj (by omega)
  simp only [c1, c2]

/-! ### `rpU`: `roundPack` for a positive sign, one formula -/

/-- `roundPack false m (B − 1000)`: the unit in the last place has the biased exponent
`qB = max (⌊log₂ m⌋ + B − 23) 851` (851 = the subnormal quantum 2^-149), the result is
`(qB − 851)·2^23 + (m·2^B rounded to a multiple of 2^qB) / 2^qB`, saturated at `+∞` -/
def rpU (m B : Nat) : Nat :=
  if m = 0 then 0 else
    min 0x7F800000 ((max (Nat.log2 m + B - 23) 851 - 851) * 2 ^ 23 +
      (if max (Nat.log2 m + B - 23) 851 ≤ B then m * 2 ^ (B - max (Nat.log2 m + B - 23) 851)
        else rne m (max (Nat.log2 m + B - 23) 851 - B)))

theorem rpH_eq_rpU (m B h : Nat) : rpH m B h = rpU m B := by
  unfold rpH rpU
  rw [cond_beq]
  by_cases hm : m = 0
  · rw [if_pos hm, if_pos hm]
  · rw [if_neg hm, if_neg hm]
    simp only [lz_eq, lgH_eq, nadd, nsub, nshl, cond_ble, rneR_eq, Nat.shiftLeft_eq]
    generalize Nat.log2 m = L
    by_cases h1 : 874 ≤ L + B
    · have e : max (L + B - 23) 851 = L + B - 23 := by omega
      have e' : L + B - 874 = L + B - 23 - 851 := by omega
      rw [if_pos h1, e, e']
      split <;> split <;> omega
    · have e : max (L + B - 23) 851 = 851 := by omega
      rw [if_neg h1, e, Nat.sub_self, Nat.zero_mul, Nat.zero_add]
      split <;> split <;> omega

theorem roundPack_eq_rpU (m B : Nat) : roundPack false m ((B : Int) - 1000) = rpU m B := by
  rw [← rpH_eq m B 0, rpH_eq_rpU]

theorem rpU_le (m B : Nat) : rpU m B ≤ 0x7F800000 := by
  unfold rpU; split <;> omega

theorem rpU_zero (B : Nat) : rpU 0 B = 0 := by
  unfold rpU; rw [if_pos rfl]

theorem log2_mul_pow (m j : Nat) (hm : m ≠ 0) : Nat.log2 (m * 2 ^ j) = Nat.log2 m + j := by
  have hj := two_pow_pos j
  have hne : m * 2 ^ j ≠ 0 := Nat.mul_ne_zero hm (by omega)
  rw [Nat.log2_eq_iff hne, Nat.pow_add, Nat.add_right_comm, Nat.pow_add]
  exact ⟨Nat.mul_le_mul_right _ (Nat.log2_self_le hm), (Nat.mul_lt_mul_right hj).mpr Nat.lt_log2_self⟩

/-- scale invariance: the value `m·2^j` at exponent `B` is the value `m` at exponent `B + j` -/
theorem rpU_scale (m B j : Nat) : rpU (m * 2 ^ j) B = rpU m (B + j) := by
  unfold rpU
  by_cases hm : m = 0
  · rw [if_pos hm, hm, Nat.zero_mul, if_pos rfl]
  · have hj := two_pow_pos j
    have hne : m * 2 ^ j ≠ 0 := Nat.mul_ne_zero hm (by omega)
    rw [if_neg hm, if_neg hne, log2_mul_pow m j hm]
    have eq : Nat.log2 m + j + B - 23 = Nat.log2 m + (B + j) - 23 := by omega
    rw [eq]
    generalize max (Nat.log2 m + (B + j) - 23) 851 = q
    congr 2
    by_cases h1 : q ≤ B
    · rw [if_pos h1, if_pos (by omega), Nat.mul_assoc, ← Nat.pow_add]
      congr 2; omega
    · rw [if_neg h1]
      by_cases h2 : q ≤ B + j
      · rw [if_pos h2]
        have : m * 2 ^ j = m * 2 ^ (B + j - q) * 2 ^ (q - B) := by
          rw [Nat.mul_assoc, ← Nat.pow_add]; congr 2; omega
        rw [this, rne_exact]
      · rw [if_neg h2]
        have : q - B = (q - (B + j)) + j := by omega
        rw [this, rne_scale _ _ _ (by omega)]

theorem sat_mono_same (q x1 x2 : Nat) (h : x1 ≤ x2) :
    min 0x7F800000 ((q - 851) * 2 ^ 23 + x1) ≤ min 0x7F800000 ((q - 851) * 2 ^ 23 + x2) := by
  omega

theorem sat_mono_lt (q1 q2 x1 x2 : Nat) (a1 : x1 ≤ 2 ^ 24) (a2 : 2 ^ 23 ≤ x2) (hlt : q1 < q2) (h851 : 851 ≤ q1) :
    min 0x7F800000 ((q1 - 851) * 2 ^ 23 + x1) ≤ min 0x7F800000 ((q2 - 851) * 2 ^ 23 + x2) := by
  have : (q1 - 851) * 2 ^ 23 + 2 ^ 24 ≤ (q2 - 851) * 2 ^ 23 + 2 ^ 23 := by omega
  omega

/-- monotone in the significand at a fixed exponent -/
theorem rpU_mono_m {m1 m2 : Nat} (B : Nat) (h : m1 ≤ m2) : rpU m1 B ≤ rpU m2 B := by
  by_cases hm1 : m1 = 0
  · rw [hm1, rpU_zero]; exact Nat.zero_le _
  · have hm2 : m2 ≠ 0 := by omega
    unfold rpU
    rw [if_neg hm1, if_neg hm2]
    have hL : Nat.log2 m1 ≤ Nat.log2 m2 := by
      have : Nat.log2 m1 < Nat.log2 m2 + 1 :=
        (Nat.log2_lt hm1).mpr (Nat.lt_of_le_of_lt h Nat.lt_log2_self)
      omega
    have lo1 := Nat.log2_self_le hm1
    have hi1 := @Nat.lt_log2_self m1
    have lo2 := Nat.log2_self_le hm2
    generalize Nat.log2 m1 = L1 at *
    generalize Nat.log2 m2 = L2 at *
    generalize hq1 : max (L1 + B - 23) 851 = q1
    generalize hq2 : max (L2 + B - 23) 851 = q2
    by_cases hq : q1 = q2
    · subst hq
      have : (if q1 ≤ B then m1 * 2 ^ (B - q1) else rne m1 (q1 - B)) ≤
          (if q1 ≤ B then m2 * 2 ^ (B - q1) else rne m2 (q1 - B)) := by
        split
        · exact Nat.mul_le_mul_right _ h
        · exact rne_mono _ h
      exact sat_mono_same _ _ _ this
    · have hlt : q1 < q2 := by omega
      have hq2' : q2 = L2 + B - 23 ∧ 23 ≤ L2 + B := by omega
      -- the smaller one has a significand ≤ 2^24
      have a1 : (if q1 ≤ B then m1 * 2 ^ (B - q1) else rne m1 (q1 - B)) ≤ 2 ^ 24 := by
        split
        · rename_i hc
          have : m1 * 2 ^ (B - q1) < 2 ^ (L1 + 1) * 2 ^ (B - q1) := (Nat.mul_lt_mul_right (two_pow_pos _)).mpr hi1
          rw [← Nat.pow_add] at this
          have : 2 ^ (L1 + 1 + (B - q1)) ≤ 2 ^ 24 := pow_mono (by omega)
          omega
        · rename_i hc
          apply rne_le_of_le
          rw [← Nat.pow_add]
          have : 2 ^ (L1 + 1) ≤ 2 ^ (24 + (q1 - B)) := pow_mono (by omega)
          omega
      -- the larger one is normal: significand ≥ 2^23
      have a2 : 2 ^ 23 ≤ (if q2 ≤ B then m2 * 2 ^ (B - q2) else rne m2 (q2 - B)) := by
        split
        · rename_i hc
          have : 2 ^ L2 * 2 ^ (B - q2) ≤ m2 * 2 ^ (B - q2) := Nat.mul_le_mul_right _ lo2
          rw [← Nat.pow_add] at this
          have e : L2 + (B - q2) = 23 := by omega
          rw [e] at this
          exact this
        · rename_i hc
          apply rne_ge_of_le
          rw [← Nat.pow_add]
          have e : 23 + (q2 - B) = L2 := by omega
          rw [e]; exact lo2
      exact sat_mono_lt _ _ _ _ a1 a2 hlt (by omega)

/-- ROUNDING IS MONOTONE IN THE EXACT VALUE -/
theorem rpU_mono {m1 B1 m2 B2 : Nat} (h : m1 * 2 ^ B1 ≤ m2 * 2 ^ B2) : rpU m1 B1 ≤ rpU m2 B2 := by
  by_cases hB : B1 ≤ B2
  · have e : rpU m2 B2 = rpU (m2 * 2 ^ (B2 - B1)) B1 := by
      rw [rpU_scale]; congr 1; omega
    rw [e]
    apply rpU_mono_m
    rw [pow_split hB, ← Nat.mul_assoc, Nat.mul_right_comm] at h
    exact Nat.le_of_mul_le_mul_right h (two_pow_pos B1)
  · have hB' : B2 ≤ B1 := by omega
    have e : rpU m1 B1 = rpU (m1 * 2 ^ (B1 - B2)) B2 := by
      rw [rpU_scale]; congr 1; omega
    rw [e]
    apply rpU_mono_m
    rw [pow_split hB', ← Nat.mul_assoc, Nat.mul_right_comm] at h
    exact Nat.le_of_mul_le_mul_right h (two_pow_pos B2)

end Dds.F32Mono
