/- Lemmas for C18.defect_recovered: how a defective raw header parses and why the file-length
repair then finds a header of the right length. -/
import DdsModel.Proofs.Header
namespace Dds

/-- the format part of a header: all a pixel-info detection may depend on -/
def Header.fmtKey : Header → Dx9PixelFormat × Nat
  | .dx9 x => (x.pixelFormat, 0)
  | .dx10 x => (.fourCC FOURCC_DX10, x.dxgiFormat)

/-- the pixel info depends on the pixel format / DXGI format only -/
def PiStable (pi : Header → Option PixelInfo) : Prop :=
  ∀ a b : Header, a.fmtKey = b.fmtKey → pi a = pi b

/-- the flag words `to_raw` can produce -/
def toRawFlagForm (f : Nat) : Prop :=
  f = 0x21007 ∨ f = 0x2100F ∨ f = 0xA1007 ∨ f = 0x821007 ∨ f = 0x82100F ∨ f = 0x8A1007

theorem Header.toRaw_flagForm (pi : Header → Option PixelInfo) (h : Header) :
    toRawFlagForm (h.toRaw pi).flags := by
  have hp := pitchOrLinear_flag (pi h) h.width h.height
  have e : (h.toRaw pi).flags =
      (if h.depth.isSome then (DDSD_REQUIRED ||| DDSD_MIPMAPCOUNT) ||| DDSD_DEPTH
        else DDSD_REQUIRED ||| DDSD_MIPMAPCOUNT) ||| (pitchOrLinear (pi h) h.width h.height).2 := by
    cases h <;> rfl
  rw [e]
  cases hd : h.depth.isSome <;> rcases hp with hp | hp | hp <;> rw [hp] <;>
    (unfold toRawFlagForm; decide)

/-- `r` is a raw header that permissive parsing (before the file-length repair) reads as `h` -/
structure RawOf (r : RawHeader) (h : Header) : Prop where
  size : r.size = RAW_HEADER_SIZE ∨ r.size = 24
  pf : Dx9PixelFormat.fromRaw true r.pixelFormat = .ok h.pf
  height : r.height = h.height
  width : r.width = h.width
  depth : r.parsedDepth = h.depth
  mips : parsedMips r.mipmapCount = h.mipmapCount
  flags : toRawFlagForm r.flags
  caps : r.caps = 0x1000 ∨ r.caps = 0x401008
  dx9 : ∀ x, h = .dx9 x → r.caps2 = x.caps2 ∧ r.dx10 = none
  dx10 : ∀ x, h = .dx10 x → dxgiValid x.dxgiFormat = true ∧
    ∃ a v, r.dx10 = some ⟨x.dxgiFormat, x.resourceDimension.toU32, x.miscFlag, a, v⟩ ∧
      (if x.resourceDimension = .tex3D ∧ a ≠ 1 then 1 else a) = x.arraySize ∧
      parseAlphaMode true (v % 8) = some x.alphaMode

theorem toRawFlagForm.mip {f : Nat} (h : toRawFlagForm f) : bitSet f DDSD_MIPMAPCOUNT = true := by
  rcases h with h | h | h | h | h | h <;> rw [h] <;> decide

theorem Dx10Header.fromRaw_perm_eq (ht w : Nat) (dep : Option Nat) (m : Nat) (x : Dx10Header)
    (hv : dxgiValid x.dxgiFormat = true) (a v : Nat)
    (ha : (if x.resourceDimension = .tex3D ∧ a ≠ 1 then 1 else a) = x.arraySize)
    (hal : parseAlphaMode true (v % 8) = some x.alphaMode)
    (e1 : ht = x.height) (e2 : w = x.width) (e3 : dep = x.depth) (e4 : m = x.mipmapCount) :
    Dx10Header.fromRaw true ht w dep m ⟨x.dxgiFormat, x.resourceDimension.toU32, x.miscFlag, a, v⟩ = .ok x := by
  subst e1 e2 e3 e4
  unfold Dx10Header.fromRaw
  simp only [hv, Bool.true_eq_false, if_false, ResDim.ofU32_toU32, hal]
  have : ¬ (x.resourceDimension = .tex3D ∧ a ≠ 1 ∧ False) := fun ⟨_, _, c⟩ => c
  rw [if_neg this, ha]

theorem RawOf.parse {r : RawHeader} {h : Header} (ro : RawOf r h) :
    Header.fromRawNoFix true r = .ok h := by
  have hsz : r.size = RAW_HEADER_SIZE ∨ (true = true ∧ r.size = 24) := by
    rcases ro.size with h | h
    · exact Or.inl h
    · exact Or.inr ⟨rfl, h⟩
  rw [Header.fromRawNoFix_assemble hsz ro.pf, parsedMips_of_flag ro.flags.mip, ro.depth, ro.mips,
    ro.height, ro.width]
  cases h with
  | dx9 x =>
    obtain ⟨hc, hd⟩ := ro.dx9 x rfl
    rw [hd, hc]; rfl
  | dx10 x =>
    obtain ⟨hv, a, v, hd, ha, hal⟩ := ro.dx10 x rfl
    rw [hd]
    simp only [Header.height, Header.width, Header.depth, Header.mipmapCount]
    rw [Dx10Header.fromRaw_perm_eq _ _ _ _ x hv a v ha hal rfl rfl rfl rfl]

theorem RawOf.ofToRaw (pi : Header → Option PixelInfo) (h : Header) (hwf : h.WF) :
    RawOf (h.toRaw pi) h := by
  have hm1 := Header.WF_mipmapCount' hwf
  refine ⟨Or.inl (by cases h <;> rfl), Header.toRaw_pf pi true h hwf, by cases h <;> rfl,
    by cases h <;> rfl, Header.toRaw_parsedDepth pi h, ?_, Header.toRaw_flagForm pi h, ?_, ?_, ?_⟩
  · have : (h.toRaw pi).mipmapCount = h.mipmapCount := by cases h <;> rfl
    rw [this]; unfold parsedMips; rw [if_neg (by omega)]
  · have : (h.toRaw pi).caps = if h.mipmapCount > 1 then CAPS_TEXTURE ||| (CAPS_MIPMAP ||| CAPS_COMPLEX)
        else CAPS_TEXTURE := by cases h <;> rfl
    rw [this]
    split
    · exact Or.inr (by decide)
    · exact Or.inl (by decide)
  · intro x hx; subst hx; exact ⟨rfl, rfl⟩
  · intro x hx; subst hx
    obtain ⟨_, _, _, _, _, hv, _, _, h3⟩ := hwf
    refine ⟨hv, x.arraySize, x.alphaMode.toU32, rfl, ?_, ?_⟩
    · split
      · rename_i hc; exact (h3 hc.1).symm
      · rfl
    · have : x.alphaMode.toU32 % 8 = x.alphaMode.toU32 :=
        Nat.mod_eq_of_lt (by have := x.alphaMode.toU32_lt; omega)
      rw [this]; unfold parseAlphaMode; rw [AlphaMode.ofU32_toU32]

/-! ### what each defect does to the parse -/

theorem RawOf.headerSize24 {r : RawHeader} {h : Header} (ro : RawOf r h) :
    RawOf (Defect.headerSize24.apply r) h :=
  { ro with size := Or.inr rfl }

theorem Dx9PixelFormat.fromRaw_size {pf : RawPixelFormat} (hs : pf.size = RAW_PF_SIZE) (n : Nat)
    (hn : n = 0 ∨ n = 24) :
    Dx9PixelFormat.fromRaw true { pf with size := n } = Dx9PixelFormat.fromRaw true pf := by
  unfold Dx9PixelFormat.fromRaw
  have h1 : ¬ (pf.size ≠ RAW_PF_SIZE ∧ ¬ (true = true ∧ (pf.size = 0 ∨ pf.size = 24))) := fun ⟨a, _⟩ => a hs
  have h2 : ¬ (n ≠ RAW_PF_SIZE ∧ ¬ (true = true ∧ (n = 0 ∨ n = 24))) := fun ⟨_, b⟩ => b ⟨rfl, hn⟩
  rw [if_neg h1, if_neg h2]

theorem RawOf.pfSize {r : RawHeader} {h : Header} (ro : RawOf r h) (hs : r.pixelFormat.size = RAW_PF_SIZE)
    (n : Nat) (hn : n = 0 ∨ n = 24) : RawOf ((Defect.pfSize n).apply r) h := by
  have hp : Dx9PixelFormat.fromRaw true ((Defect.pfSize n).apply r).pixelFormat = .ok h.pf := by
    show Dx9PixelFormat.fromRaw true { r.pixelFormat with size := n } = _
    rw [Dx9PixelFormat.fromRaw_size hs n hn]; exact ro.pf
  exact ⟨ro.size, hp, ro.height, ro.width, ro.depth, ro.mips, ro.flags, ro.caps, ro.dx9, ro.dx10⟩

theorem RawOf.mipCount {r : RawHeader} {h : Header} (ro : RawOf r h) (m : Nat) :
    RawOf ((Defect.mipCount m).apply r) (h.setMipmapCount (parsedMips m)) := by
  refine ⟨ro.size, ?_, ?_, ?_, ?_, ?_, ro.flags, ro.caps, ?_, ?_⟩
  · have : (h.setMipmapCount (parsedMips m)).pf = h.pf := by cases h <;> rfl
    rw [this]; exact ro.pf
  · have : (h.setMipmapCount (parsedMips m)).height = h.height := by cases h <;> rfl
    rw [this]; exact ro.height
  · have : (h.setMipmapCount (parsedMips m)).width = h.width := by cases h <;> rfl
    rw [this]; exact ro.width
  · have : (h.setMipmapCount (parsedMips m)).depth = h.depth := by cases h <;> rfl
    rw [this]; exact ro.depth
  · cases h <;> rfl
  · intro x hx
    cases h with
    | dx9 y =>
      simp only [Header.setMipmapCount, Header.dx9.injEq] at hx
      subst hx
      exact ro.dx9 y rfl
    | dx10 y => cases hx
  · intro x hx
    cases h with
    | dx9 y => cases hx
    | dx10 y =>
      simp only [Header.setMipmapCount, Header.dx10.injEq] at hx
      subst hx
      exact ro.dx10 y rfl

theorem RawOf.arraySize {r : RawHeader} {x : Dx10Header} (ro : RawOf r (.dx10 x)) (a : Nat) :
    RawOf ((Defect.arraySize a).apply r)
      (.dx10 { x with arraySize := if x.resourceDimension = .tex3D ∧ a ≠ 1 then 1 else a }) := by
  obtain ⟨hv, a0, v0, hd, _, hal⟩ := ro.dx10 x rfl
  refine ⟨ro.size, ro.pf, ro.height, ro.width, ro.depth, ro.mips, ro.flags, ro.caps, ?_, ?_⟩
  · intro y hy; cases hy
  · intro y hy
    simp only [Header.dx10.injEq] at hy
    subst hy
    refine ⟨hv, a, v0, ?_, rfl, hal⟩
    show Option.map _ r.dx10 = _
    rw [hd]; rfl

theorem RawOf.miscFlags2 {r : RawHeader} {x : Dx10Header} (ro : RawOf r (.dx10 x)) (v : Nat)
    (hv5 : 5 ≤ v % 8) :
    RawOf ((Defect.miscFlags2 v).apply r) (.dx10 { x with alphaMode := .unknown }) := by
  obtain ⟨hv, a0, v0, hd, ha, _⟩ := ro.dx10 x rfl
  refine ⟨ro.size, ro.pf, ro.height, ro.width, ro.depth, ro.mips, ro.flags, ro.caps, ?_, ?_⟩
  · intro y hy; cases hy
  · intro y hy
    simp only [Header.dx10.injEq] at hy
    subst hy
    refine ⟨hv, a0, v, ?_, ha, ?_⟩
    · show Option.map _ r.dx10 = _
      rw [hd]; rfl
    · have : v % 8 < 8 := Nat.mod_lt _ (by decide)
      unfold parseAlphaMode AlphaMode.ofU32
      have h0 : v % 8 ≠ 0 := by omega
      have h1 : v % 8 ≠ 1 := by omega
      have h2 : v % 8 ≠ 2 := by omega
      have h3 : v % 8 ≠ 3 := by omega
      have h4 : v % 8 ≠ 4 := by omega
      simp [h0, h1, h2, h3, h4]

theorem RawOf.pfFlags {r : RawHeader} {x : Dx9Header} (ro : RawOf r (.dx9 x)) (f c : Nat)
    (hpf : r.pixelFormat = RawPixelFormat.newFourCC c) (hx : x.pixelFormat = .fourCC c)
    (hc0 : c ≠ FOURCC_NONE) (hc1 : c ≠ FOURCC_DX10) (hf : bitSet f PF_FOURCC = false) :
    RawOf ((Defect.pfFlags f).apply r) (.dx9 x) := by
  have hp : Dx9PixelFormat.fromRaw true ((Defect.pfFlags f).apply r).pixelFormat = .ok (Header.dx9 x).pf := by
    show Dx9PixelFormat.fromRaw true { r.pixelFormat with flags := f } = _
    rw [hpf]
    simp [Dx9PixelFormat.fromRaw, RawPixelFormat.newFourCC, hc0, hc1, hf, bitSet_or_fourcc,
      Header.pf, hx]
  exact ⟨ro.size, hp, ro.height, ro.width, ro.depth, ro.mips, ro.flags, ro.caps, ro.dx9, ro.dx10⟩

/-- dropping the mip flags: terminal (the flag words are no longer of the `to_raw` form) -/
theorem RawOf.dropMipFlags_parse {r : RawHeader} {h : Header} (ro : RawOf r h) :
    Header.fromRawNoFix true (Defect.dropMipFlags.apply r) = .ok (h.setMipmapCount 1) := by
  have hsz : (Defect.dropMipFlags.apply r).size = RAW_HEADER_SIZE ∨
      (true = true ∧ (Defect.dropMipFlags.apply r).size = 24) := by
    rcases ro.size with h | h
    · exact Or.inl h
    · exact Or.inr ⟨rfl, h⟩
  have hdep : (Defect.dropMipFlags.apply r).parsedDepth = h.depth := by
    rw [← ro.depth]
    show (if bitSet (clearBit r.flags DDSD_MIPMAPCOUNT) DDSD_DEPTH = true then some r.depth else none) =
      (if bitSet r.flags DDSD_DEPTH = true then some r.depth else none)
    have : bitSet (clearBit r.flags DDSD_MIPMAPCOUNT) DDSD_DEPTH = bitSet r.flags DDSD_DEPTH := by
      rcases ro.flags with h | h | h | h | h | h <;> rw [h] <;> decide
    rw [this]
  have hmip : (Defect.dropMipFlags.apply r).parsedMips = 1 := by
    show (let mip0 := if (bitSet (clearBit r.flags DDSD_MIPMAPCOUNT) DDSD_MIPMAPCOUNT ||
      bitSet (clearBit (clearBit r.caps CAPS_COMPLEX) CAPS_MIPMAP) CAPS_COMPLEX ||
      bitSet (clearBit (clearBit r.caps CAPS_COMPLEX) CAPS_MIPMAP) CAPS_MIPMAP) = true
      then r.mipmapCount else 1; if mip0 = 0 then 1 else mip0) = 1
    have h1 : bitSet (clearBit r.flags DDSD_MIPMAPCOUNT) DDSD_MIPMAPCOUNT = false := by
      rcases ro.flags with h | h | h | h | h | h <;> rw [h] <;> decide
    have h2 : bitSet (clearBit (clearBit r.caps CAPS_COMPLEX) CAPS_MIPMAP) CAPS_COMPLEX = false := by
      rcases ro.caps with h | h <;> rw [h] <;> decide
    have h3 : bitSet (clearBit (clearBit r.caps CAPS_COMPLEX) CAPS_MIPMAP) CAPS_MIPMAP = false := by
      rcases ro.caps with h | h <;> rw [h] <;> decide
    simp [h1, h2, h3]
  have hh : (Defect.dropMipFlags.apply r).height = h.height := ro.height
  have hw : (Defect.dropMipFlags.apply r).width = h.width := ro.width
  have hc2 : (Defect.dropMipFlags.apply r).caps2 = r.caps2 := rfl
  have hdx : (Defect.dropMipFlags.apply r).dx10 = r.dx10 := rfl
  have hpf : Dx9PixelFormat.fromRaw true (Defect.dropMipFlags.apply r).pixelFormat = .ok h.pf := ro.pf
  rw [Header.fromRawNoFix_assemble hsz hpf, hdep, hmip, hh, hw, hc2, hdx]
  cases h with
  | dx9 x =>
    obtain ⟨hc, hd⟩ := ro.dx9 x rfl
    rw [hd, hc]; rfl
  | dx10 x =>
    obtain ⟨hv, a, v, hd, ha, hal⟩ := ro.dx10 x rfl
    rw [hd]
    simp only [Header.height, Header.width, Header.depth]
    rw [Dx10Header.fromRaw_perm_eq _ _ _ _ { x with mipmapCount := 1 } hv a v ha hal rfl rfl rfl rfl]
    rfl


/-! ### the repair finds a candidate of the right length -/

theorem Header.fixCore_finds {test : Header → Bool} {e : Nat} {h0 : Header}
    (hc : test h0 = true ∨ (∃ h1, h0.arrayZero? e = some h1 ∧ test h1 = true) ∨
      (∃ c, ((h0.arrayZero? e).getD h0).cubeSix? = some c ∧ test c = true) ∨
      (∃ g ∈ ((h0.arrayZero? e).getD h0).mipGuesses,
        test (((h0.arrayZero? e).getD h0).setMipmapCount g) = true)) :
    (h0.fixCore test e).2 = true := by
  have hr := Header.fixCore_result test e h0
  generalize h0.fixCore test e = r at *
  cases hr with
  | same _ => rfl
  | zero _ _ _ => rfl
  | six _ _ _ _ _ => rfl
  | mips _ _ _ _ _ => rfl
  | fail h1 hh1 t0 t1 t6 tg =>
    exfalso
    subst hh1
    rcases hc with hc | ⟨h1', hz, hc⟩ | ⟨c, hz, hc⟩ | ⟨g, hg, hc⟩
    · rw [t0] at hc; cases hc
    · rw [hz] at t1; simp only [Option.getD_some] at t1; rw [t1] at hc; cases hc
    · rw [t6 c hz] at hc; cases hc
    · rw [tg g hg] at hc; cases hc

/-- the layout (hence the layout length) does not look at the alpha mode -/
theorem Header.layoutLen_alpha (px : PixelInfo) (x : Dx10Header) (a : AlphaMode) :
    (Header.dx10 { x with alphaMode := a }).layoutLen px = (Header.dx10 x).layoutLen px := rfl

theorem Header.setMipmapCount_self (h : Header) : h.setMipmapCount h.mipmapCount = h := by
  cases h <;> rfl

theorem Header.setMipmapCount_set (h : Header) (a b : Nat) :
    (h.setMipmapCount a).setMipmapCount b = h.setMipmapCount b := by
  cases h <;> rfl

theorem Header.fmtKey_setMipmapCount (h : Header) (m : Nat) : (h.setMipmapCount m).fmtKey = h.fmtKey := by
  cases h <;> rfl

theorem Header.byteLen_setMipmapCount (h : Header) (m : Nat) : (h.setMipmapCount m).byteLen = h.byteLen := by
  cases h <;> rfl

/-- After the defect the permissively parsed header is `h0`; if the repair core finds a
candidate, the parse with the true file length gives a header of the true layout length. -/
theorem recovered_of_finds (pi : Header → Option PixelInfo) (r : RawHeader) (h h0 : Header)
    (px : PixelInfo) (L : Nat) (hparse : Header.fromRawNoFix true r = .ok h0)
    (hbl : h0.byteLen = h.byteLen) (hpi : pi h0 = some px)
    (hfind : (h0.fixCore (Header.testLen px L) L).2 = true) :
    ∃ h', Header.fromRaw pi (ParseOptions.newPermissive (some (4 + h.byteLen + L))) r = .ok h' ∧
      h'.layoutLen px = some L ∧ h'.core = h0.core := by
  have hs : ckSub (4 + h.byteLen + L) (4 + h0.byteLen) = some L := by
    unfold ckSub; rw [hbl, if_pos (by omega)]; congr 1; omega
  refine ⟨(h0.fixCore (Header.testLen px L) L).1, ?_, ?_, Header.fixCore_core _ _ _⟩
  · rw [Header.fromRaw_perm, hparse]
    simp only [Header.fixBasedOnFileLen, hs, hpi]
  · have := Header.fixCore_true hfind
    simpa [Header.testLen] using this


theorem Header.fmtKey_core (h : Header) : h.core.fmtKey = h.fmtKey := by cases h <;> rfl

theorem Header.arrayZero?_none {h : Header} (e : Nat) (ha : h.arraySize ≠ 0) : h.arrayZero? e = none := by
  cases h with
  | dx9 x => rfl
  | dx10 x =>
    simp only [Header.arraySize] at ha
    simp [Header.arrayZero?, ha]

theorem Header.arraySize_setMipmapCount (h : Header) (m : Nat) :
    (h.setMipmapCount m).arraySize = h.arraySize := by cases h <;> rfl

/-- the candidates after a wrong mip count contain the true header -/
theorem finds_mips {test : Header → Bool} {L : Nat} {h : Header} (pm : Nat) (ht : test h = true)
    (harr : h.arraySize ≠ 0) (hg : h.mipmapCount ∈ (h.setMipmapCount pm).mipGuesses) :
    ((h.setMipmapCount pm).fixCore test L).2 = true := by
  apply Header.fixCore_finds
  have hz : (h.setMipmapCount pm).arrayZero? L = none :=
    Header.arrayZero?_none L (by rw [Header.arraySize_setMipmapCount]; exact harr)
  refine Or.inr (Or.inr (Or.inr ⟨h.mipmapCount, ?_, ?_⟩))
  · rw [hz]; exact hg
  · rw [hz]; simp only [Option.getD_none]
    rw [Header.setMipmapCount_set, Header.setMipmapCount_self]; exact ht

theorem defect_recovered_single (pi : Header → Option PixelInfo) (hs : PiStable pi) (h : Header)
    (hwf : h.WF) (px : PixelInfo) (hpx : pi h = some px) (L : Nat) (hL : h.layoutLen px = some L)
    (hLpos : 0 < L) (harr : h.arraySize ≠ 0) (d : Defect) (happ : d.Applies h) :
    ∃ h', Header.fromRaw pi (ParseOptions.newPermissive (some (4 + h.byteLen + L)))
        (d.apply (h.toRaw pi)) = .ok h' ∧ h'.layoutLen px = some L ∧ pi h' = some px := by
  have ro := RawOf.ofToRaw pi h hwf
  have ht : Header.testLen px L h = true := by simp [Header.testLen, hL]
  -- common ending
  have fin : ∀ (h0 : Header), Header.fromRawNoFix true (d.apply (h.toRaw pi)) = .ok h0 →
      h0.byteLen = h.byteLen → h0.fmtKey = h.fmtKey →
      (h0.fixCore (Header.testLen px L) L).2 = true →
      ∃ h', Header.fromRaw pi (ParseOptions.newPermissive (some (4 + h.byteLen + L)))
        (d.apply (h.toRaw pi)) = .ok h' ∧ h'.layoutLen px = some L ∧ pi h' = some px := by
    intro h0 hp hb hk hf
    have hpi0 : pi h0 = some px := by rw [hs h0 h hk]; exact hpx
    obtain ⟨h', e1, e2, e3⟩ := recovered_of_finds pi _ h h0 px L hp hb hpi0 hf
    refine ⟨h', e1, e2, ?_⟩
    have : h'.fmtKey = h.fmtKey := by
      rw [← Header.fmtKey_core h', e3, Header.fmtKey_core, hk]
    rw [hs h' h this]; exact hpx
  cases d with
  | headerSize24 =>
    exact fin h ro.headerSize24.parse rfl rfl (Header.fixCore_finds (Or.inl ht))
  | pfSize n =>
    have hsz : (h.toRaw pi).pixelFormat.size = RAW_PF_SIZE := by
      cases h with
      | dx9 x => cases hp : x.pixelFormat <;> simp [Header.toRaw, hp, RawPixelFormat.newFourCC, RawPixelFormat.newMask]
      | dx10 x => rfl
    exact fin h (ro.pfSize hsz n happ).parse rfl rfl (Header.fixCore_finds (Or.inl ht))
  | pfFlags f =>
    cases h with
    | dx10 x => exact absurd happ (by simp [Defect.Applies])
    | dx9 x =>
      obtain ⟨_, hf, hn⟩ := happ
      cases hp : x.pixelFormat with
      | mask m => rw [hp] at hn; cases hn
      | fourCC c =>
        rw [hp] at hn
        have hc0 : c ≠ FOURCC_NONE := by simpa [Dx9PixelFormat.isNamedFourCC] using hn
        have hc1 : c ≠ FOURCC_DX10 := by
          have := hwf.2.2.2.2.2.2; rw [hp] at this; exact this.2
        have hpf : (Header.toRaw pi (.dx9 x)).pixelFormat = RawPixelFormat.newFourCC c := by
          simp [Header.toRaw, hp]
        exact fin _ (ro.pfFlags f c hpf hp hc0 hc1 hf).parse rfl rfl (Header.fixCore_finds (Or.inl ht))
  | mipCount m =>
    obtain ⟨_, hg⟩ := happ
    exact fin _ (ro.mipCount m).parse (Header.byteLen_setMipmapCount _ _)
      (Header.fmtKey_setMipmapCount _ _) (finds_mips _ ht harr hg)
  | dropMipFlags =>
    exact fin _ ro.dropMipFlags_parse (Header.byteLen_setMipmapCount _ _)
      (Header.fmtKey_setMipmapCount _ _) (finds_mips _ ht harr happ)
  | miscFlags2 v =>
    cases h with
    | dx9 x => exact absurd happ (by simp [Defect.Applies])
    | dx10 x =>
      obtain ⟨_, hv5⟩ := happ
      refine fin _ (ro.miscFlags2 v hv5).parse rfl rfl (Header.fixCore_finds (Or.inl ?_))
      simp only [Header.testLen, Header.layoutLen_alpha]
      exact ht
  | arraySize a =>
    cases h with
    | dx9 x => exact absurd happ (by simp [Defect.Applies])
    | dx10 x =>
      obtain ⟨_, h1, hcases⟩ := happ
      have hx1 : ({ x with arraySize := 1 } : Dx10Header) = x := by cases x; simp_all
      have hp := (ro.arraySize a).parse
      by_cases h3 : x.resourceDimension = .tex3D
      · have : (if x.resourceDimension = .tex3D ∧ a ≠ 1 then 1 else a) = 1 := by
          by_cases ha : a = 1
          · simp [ha]
          · simp [h3, ha]
        rw [this, hx1] at hp
        exact fin _ hp rfl rfl (Header.fixCore_finds (Or.inl ht))
      · have : (if x.resourceDimension = .tex3D ∧ a ≠ 1 then 1 else a) = a := by simp [h3]
        rw [this] at hp
        refine fin _ hp rfl rfl (Header.fixCore_finds ?_)
        rcases hcases with ha | ⟨ha, h2d, hcube⟩ | h3'
        · subst ha
          refine Or.inr (Or.inl ⟨.dx10 x, ?_, ht⟩)
          simp only [Header.arrayZero?]
          rw [if_pos ⟨hLpos, trivial⟩]
          show some (Header.dx10 { x with arraySize := 1 }) = _
          rw [hx1]
        · subst ha
          refine Or.inr (Or.inr (Or.inl ⟨.dx10 x, ?_, ht⟩))
          have hz : (Header.dx10 { x with arraySize := 6 }).arrayZero? L = none :=
            Header.arrayZero?_none L (by simp [Header.arraySize])
          rw [hz]
          simp only [Option.getD_none, Header.cubeSix?]
          rw [if_pos ⟨trivial, h2d, hcube⟩]
          show some (Header.dx10 { x with arraySize := 1 }) = _
          rw [hx1]
        · exact absurd h3' h3

theorem defect_recovered_array0_mips (pi : Header → Option PixelInfo) (hs : PiStable pi)
    (x : Dx10Header) (hwf : (Header.dx10 x).WF) (px : PixelInfo) (hpx : pi (.dx10 x) = some px) (L : Nat)
    (hL : (Header.dx10 x).layoutLen px = some L) (hLpos : 0 < L) (harr : x.arraySize = 1)
    (md : Defect) (hmd : (∃ m, md = .mipCount m) ∨ md = .dropMipFlags) (happ : md.Applies (.dx10 x)) :
    ∃ h', Header.fromRaw pi (ParseOptions.newPermissive (some (4 + (Header.dx10 x).byteLen + L)))
        (Defect.applyAll [.arraySize 0, md] ((Header.dx10 x).toRaw pi)) = .ok h' ∧
      h'.layoutLen px = some L ∧ pi h' = some px := by
  have ro := RawOf.ofToRaw pi (.dx10 x) hwf
  have ht : Header.testLen px L (.dx10 x) = true := by simp [Header.testLen, hL]
  have hx1 : ({ x with arraySize := 1 } : Dx10Header) = x := by cases x; simp_all
  -- the header read after both defects, and the mip count it shows
  have key : ∃ pm a', (a' = 0 ∨ a' = 1) ∧
      Header.fromRawNoFix true (Defect.applyAll [.arraySize 0, md] ((Header.dx10 x).toRaw pi)) =
        .ok ((Header.dx10 { x with arraySize := a' }).setMipmapCount pm) ∧
      (Header.dx10 x).mipmapCount ∈ ((Header.dx10 x).setMipmapCount pm).mipGuesses := by
    have roA := ro.arraySize 0
    refine ⟨(match md with | .mipCount m => parsedMips m | _ => 1),
      (if x.resourceDimension = .tex3D ∧ (0 : Nat) ≠ 1 then 1 else 0), ?_, ?_, ?_⟩
    · split <;> simp
    · rcases hmd with ⟨m, rfl⟩ | rfl
      · exact (roA.mipCount m).parse
      · exact roA.dropMipFlags_parse
    · rcases hmd with ⟨m, rfl⟩ | rfl
      · exact happ.2
      · exact happ
  obtain ⟨pm, a', ha', hparse, hg⟩ := key
  have hpi0 : pi ((Header.dx10 { x with arraySize := a' }).setMipmapCount pm) = some px := by
    have := hs ((Header.dx10 { x with arraySize := a' }).setMipmapCount pm) (.dx10 x) rfl
    rw [this]; exact hpx
  have hfind : (((Header.dx10 { x with arraySize := a' }).setMipmapCount pm).fixCore
      (Header.testLen px L) L).2 = true := by
    rcases ha' with rfl | rfl
    · apply Header.fixCore_finds
      have hz : ((Header.dx10 { x with arraySize := 0 }).setMipmapCount pm).arrayZero? L =
          some ((Header.dx10 x).setMipmapCount pm) := by
        simp only [Header.setMipmapCount, Header.arrayZero?]
        rw [if_pos ⟨hLpos, trivial⟩]
        congr 2
        cases x; simp_all
      refine Or.inr (Or.inr (Or.inr ⟨(Header.dx10 x).mipmapCount, ?_, ?_⟩))
      · rw [hz]; exact hg
      · rw [hz]; simp only [Option.getD_some]
        rw [Header.setMipmapCount_set, Header.setMipmapCount_self]; exact ht
    · rw [hx1]
      exact finds_mips pm ht (by simp [Header.arraySize, harr]) hg
  obtain ⟨h', e1, e2, e3⟩ := recovered_of_finds pi _ (.dx10 x) _ px L hparse rfl hpi0 hfind
  refine ⟨h', e1, e2, ?_⟩
  have : h'.fmtKey = (Header.dx10 x).fmtKey := by
    rw [← Header.fmtKey_core h', e3, Header.fmtKey_core]; rfl
  rw [hs h' _ this]; exact hpx

end Dds
