/-
Helper lemmas for `Theorems/C17.lean` (model: `Progress.lean`).
-/
import DdsModel.Progress
namespace Dds

/-! ### rationals -/

theorem rat_div_le_div_right {a b t : Rat} (h : a ≤ b) (ht : 0 < t) : a / t ≤ b / t := by
  rw [Rat.div_def, Rat.div_def]
  exact Rat.mul_le_mul_of_nonneg_right h (Rat.le_of_lt (Rat.inv_pos.mpr ht))

theorem rat_div_lt_div_right {a b t : Rat} (h : a < b) (ht : 0 < t) : a / t < b / t := by
  rw [Rat.div_def, Rat.div_def]
  exact Rat.mul_lt_mul_of_pos_right h (Rat.inv_pos.mpr ht)

theorem rat_div_nonneg {a t : Rat} (h : 0 ≤ a) (ht : 0 < t) : 0 ≤ a / t := by
  rw [Rat.div_def]
  exact Rat.mul_nonneg h (Rat.le_of_lt (Rat.inv_pos.mpr ht))

theorem natDiv_lt_one {i n : Nat} (h : i < n) : ((i : Rat) / (n : Rat)) < 1 := by
  have hn : (0 : Rat) < (n : Rat) := Rat.natCast_pos.mpr (by omega)
  rw [Rat.div_lt_iff hn, Rat.one_mul]
  exact Rat.natCast_lt_natCast.mpr h

theorem natDiv_nonneg {i n : Nat} (h : i < n) : 0 ≤ ((i : Rat) / (n : Rat)) :=
  rat_div_nonneg Rat.natCast_nonneg (Rat.natCast_pos.mpr (by omega))

theorem natDiv_mono {i j n : Nat} (h : i ≤ j) (hn : 0 < n) :
    ((i : Rat) / (n : Rat)) ≤ ((j : Rat) / (n : Rat)) :=
  rat_div_le_div_right (Rat.natCast_le_natCast.mpr h) (Rat.natCast_pos.mpr hn)

theorem pow25_pos (l : Nat) : (0 : Rat) < (2 / 5 : Rat) ^ l := Rat.pow_pos (by grind)

theorem pow25_succ_le (l : Nat) : (2 / 5 : Rat) ^ (l + 1) ≤ (2 / 5 : Rat) ^ l := by
  rw [Rat.pow_succ]
  have := pow25_pos l
  grind

theorem pow25_le_one (l : Nat) : (2 / 5 : Rat) ^ l ≤ 1 := by
  induction l with
  | zero => simp
  | succ l ih => exact Rat.le_trans (pow25_succ_le l) ih

/-! ### `ProgressRange` -/

namespace ProgressRange

theorem project_mono {r : ProgressRange} (hl : 0 ≤ r.length) {p q : Rat} (h : p ≤ q) :
    r.project p ≤ r.project q := by
  unfold project
  have := Rat.mul_le_mul_of_nonneg_left h hl
  grind

theorem project_mem {r : ProgressRange} (hl : 0 ≤ r.length) {p : Rat} (h0 : 0 ≤ p) (h1 : p ≤ 1) :
    r.start ≤ r.project p ∧ r.project p ≤ r.stop := by
  unfold project stop
  have := Rat.mul_le_mul_of_nonneg_left h1 hl
  have := Rat.mul_nonneg hl h0
  constructor <;> grind

theorem project_lt_stop {r : ProgressRange} (hl : 0 < r.length) {p : Rat} (h1 : p < 1) :
    r.project p < r.stop := by
  unfold project stop
  have := Rat.mul_lt_mul_of_pos_left h1 hl
  grind

theorem project_zero (r : ProgressRange) : r.project 0 = r.start := by
  unfold project; grind
theorem project_one (r : ProgressRange) : r.project 1 = r.stop := by
  unfold project stop; grind
theorem full_project (p : Rat) : full.project p = p := by
  unfold project full; grind

theorem subRange_project (s o : ProgressRange) (p : Rat) :
    (s.subRange o).project p = s.project (o.project p) := by
  unfold subRange project; grind

end ProgressRange

theorem levelRange_zero (l : Nat) : levelRange 0 l = .full := by simp [levelRange]

theorem levelRange_pos {m : Nat} (hm : 0 < m) (l : Nat) :
    (levelRange m l).start = 1 - (2 / 5 : Rat) ^ l ∧
    (levelRange m l).stop = 1 - (2 / 5 : Rat) ^ (l + 1) := by
  unfold levelRange
  rw [if_neg (by omega)]
  unfold ProgressRange.fromTo ProgressRange.stop
  constructor
  · rfl
  · simp only; grind

theorem levelRange_length_nonneg (m l : Nat) : 0 ≤ (levelRange m l).length := by
  unfold levelRange
  by_cases hm : m = 0
  · rw [if_pos hm]; unfold ProgressRange.full; simp only; grind
  · rw [if_neg hm]
    unfold ProgressRange.fromTo
    have := pow25_succ_le l
    simp only; grind

theorem levelRange_start_nonneg (m l : Nat) : 0 ≤ (levelRange m l).start := by
  unfold levelRange
  by_cases hm : m = 0
  · rw [if_pos hm]; unfold ProgressRange.full; simp only; grind
  · rw [if_neg hm]
    unfold ProgressRange.fromTo
    have := pow25_le_one l
    simp only; grind

theorem levelRange_stop_le_one (m l : Nat) : (levelRange m l).stop ≤ 1 := by
  by_cases hm : m = 0
  · subst hm; rw [levelRange_zero]; unfold ProgressRange.full ProgressRange.stop; simp only; grind
  · rw [(levelRange_pos (by omega) l).2]
    have := pow25_pos (l + 1)
    grind

theorem levelRange_abut {m : Nat} (hm : 0 < m) (l : Nat) :
    (levelRange m l).stop = (levelRange m (l + 1)).start := by
  rw [(levelRange_pos hm l).2, (levelRange_pos hm (l + 1)).1]

/-! ### monotone bounded lists -/

/-- non-decreasing and within `[lo, hi]` -/
structure Within (lo hi : Rat) (l : List Rat) : Prop where
  mono : l.Pairwise (· ≤ ·)
  bounds : ∀ x, x ∈ l → lo ≤ x ∧ x ≤ hi

theorem Within.nil (lo hi : Rat) : Within lo hi [] := ⟨List.Pairwise.nil, by simp⟩

theorem Within.single {lo hi x : Rat} (h1 : lo ≤ x) (h2 : x ≤ hi) : Within lo hi [x] :=
  ⟨List.pairwise_singleton _ _, by intro y hy; simp at hy; subst hy; exact ⟨h1, h2⟩⟩

theorem Within.append {a b c : Rat} {l1 l2 : List Rat} (h1 : Within a b l1) (h2 : Within b c l2)
    (hab : a ≤ b) (hbc : b ≤ c) : Within a c (l1 ++ l2) := by
  constructor
  · rw [List.pairwise_append]
    refine ⟨h1.mono, h2.mono, ?_⟩
    intro x hx y hy
    exact Rat.le_trans (h1.bounds x hx).2 (h2.bounds y hy).1
  · intro x hx
    rw [List.mem_append] at hx
    cases hx with
    | inl hx => exact ⟨(h1.bounds x hx).1, Rat.le_trans (h1.bounds x hx).2 hbc⟩
    | inr hx => exact ⟨Rat.le_trans hab (h2.bounds x hx).1, (h2.bounds x hx).2⟩

theorem Within.weaken {a b a' b' : Rat} {l : List Rat} (h : Within a b l) (ha : a' ≤ a)
    (hb : b ≤ b') : Within a' b' l :=
  ⟨h.mono, fun x hx => ⟨Rat.le_trans ha (h.bounds x hx).1, Rat.le_trans (h.bounds x hx).2 hb⟩⟩

theorem Within.map_project {l : List Rat} (h : Within 0 1 l) {r : ProgressRange}
    (hl : 0 ≤ r.length) : Within r.start r.stop (l.map r.project) := by
  constructor
  · rw [List.pairwise_map]
    exact h.mono.imp (fun hab => ProgressRange.project_mono hl hab)
  · intro x hx
    rw [List.mem_map] at hx
    obtain ⟨p, hp, rfl⟩ := hx
    exact ProgressRange.project_mem hl (h.bounds p hp).1 (h.bounds p hp).2

/-! ### reports of traces -/

theorem reports_append (a b : List Ev) : reports (a ++ b) = reports a ++ reports b := by
  induction a with
  | nil => rfl
  | cons e t ih =>
    cases e <;> simp [reports, ih]

theorem reports_replicate_write (n : Nat) : reports (List.replicate n .write) = [] := by
  induction n with
  | zero => rfl
  | succ n ih => simp [List.replicate_succ, reports, ih]

theorem reports_map_project (r : ProgressRange) (tr : List Ev) :
    reports (tr.map (Ev.project r)) = (reports tr).map r.project := by
  induction tr with
  | nil => rfl
  | cons e t ih => cases e <;> simp [reports, Ev.project, ih]

theorem reports_flatMap {α : Type} (l : List α) (g : α → List Ev) :
    reports (l.flatMap g) = l.flatMap (fun a => reports (g a)) := by
  induction l with
  | nil => rfl
  | cons a t ih => simp [List.flatMap_cons, reports_append, ih]

theorem flatMap_if_singleton {α β : Type} (l : List α) (p : α → Bool) (g : α → β) :
    l.flatMap (fun a => if p a = true then [g a] else []) = (l.filter p).map g := by
  induction l with
  | nil => rfl
  | cons a t ih =>
    rw [List.flatMap_cons, ih]
    by_cases h : p a = true
    · simp [h]
    · simp [h]

theorem reports_loopTrace (n f : Nat) (extra : Nat → Nat) :
    reports (loopTrace n f extra) =
      ((List.range n).filter (fun i => decide (i % f = 0))).map (fun (i : Nat) => (i : Rat) / (n : Rat)) := by
  unfold loopTrace
  rw [reports_flatMap, ← flatMap_if_singleton]
  congr 1
  funext i
  rw [reports_append, reports_replicate_write, List.append_nil]
  unfold reportIf
  by_cases h : i % f = 0
  · simp [h, reports]
  · simp [h, reports]

/-- the values reported by a loop: non-decreasing, in `[0,1)` -/
theorem loop_reports (n f : Nat) (extra : Nat → Nat) :
    Within 0 1 (reports (loopTrace n f extra)) ∧ ∀ x, x ∈ reports (loopTrace n f extra) → x < 1 := by
  rw [reports_loopTrace]
  have hmem : ∀ x, x ∈ ((List.range n).filter (fun i => decide (i % f = 0))).map
      (fun (i : Nat) => (i : Rat) / (n : Rat)) → ∃ i, i < n ∧ x = (i : Rat) / (n : Rat) := by
    intro x hx
    rw [List.mem_map] at hx
    obtain ⟨i, hi, rfl⟩ := hx
    exact ⟨i, List.mem_range.mp (List.mem_filter.mp hi).1, rfl⟩
  refine ⟨⟨?_, ?_⟩, ?_⟩
  · by_cases hn : n = 0
    · subst hn; simp
    · rw [List.pairwise_map]
      have := (List.pairwise_lt_range (n := n)).filter (fun i => decide (i % f = 0))
      exact this.imp (fun hab => natDiv_mono (Nat.le_of_lt hab) (by omega))
  · intro x hx
    obtain ⟨i, hi, rfl⟩ := hmem x hx
    exact ⟨natDiv_nonneg hi, Rat.le_of_lt (natDiv_lt_one hi)⟩
  · intro x hx
    obtain ⟨i, hi, rfl⟩ := hmem x hx
    exact natDiv_lt_one hi

theorem family_reports (fam : Family) :
    Within 0 1 (reports fam.trace) ∧ ∀ x, x ∈ reports fam.trace → x < 1 := by
  cases fam with
  | copy w =>
    have : reports (Family.copy w).trace = [0] := by
      simp [Family.trace, reports, reports_replicate_write]
    rw [this]
    exact ⟨Within.single (by grind) (by grind), by intro x hx; simp at hx; subst hx; grind⟩
  | chunked n f => exact loop_reports n f _
  | biPlanar g f =>
    have : reports (Family.biPlanar g f).trace = reports (loopTrace g f (fun _ => 1)) := by
      simp [Family.trace, reports, reports_append]
    rw [this]
    exact loop_reports g f _
  | block bw rows f => exact loop_reports _ f _

/-! ### the parallel jobs -/

theorem reports_parJobs_false (incs : List Nat) (total done : Nat) :
    reports (parJobs false incs total done) = [] := by
  induction incs generalizing done with
  | nil => rfl
  | cons k ks ih => simp [parJobs, reports, ih]

/-- cumulative sums `done+k₁, done+k₁+k₂, …` -/
def cumul : List Nat → Nat → List Nat
  | [], _ => []
  | k :: ks, done => (done + k) :: cumul ks (done + k)

theorem reports_parJobs_true (incs : List Nat) (total done : Nat) :
    reports (parJobs true incs total done) =
      (cumul incs done).map (fun (s : Nat) => (s : Rat) / (total : Rat)) := by
  induction incs generalizing done with
  | nil => rfl
  | cons k ks ih => simp [parJobs, reports, ih, cumul]

theorem cumul_bounds (incs : List Nat) (done : Nat) :
    ∀ s, s ∈ cumul incs done → done ≤ s ∧ s ≤ done + incs.sum := by
  induction incs generalizing done with
  | nil => intro s hs; simp [cumul] at hs
  | cons k ks ih =>
    intro s hs
    simp only [cumul, List.mem_cons] at hs
    simp only [List.sum_cons]
    cases hs with
    | inl h => subst h; omega
    | inr h => have := ih (done + k) s h; omega

theorem cumul_pairwise_le (incs : List Nat) (done : Nat) :
    (cumul incs done).Pairwise (· ≤ ·) := by
  induction incs generalizing done with
  | nil => exact List.Pairwise.nil
  | cons k ks ih =>
    simp only [cumul]
    rw [List.pairwise_cons]
    exact ⟨fun s hs => (cumul_bounds ks (done + k) s hs).1, ih (done + k)⟩

theorem cumul_pairwise_lt (incs : List Nat) (done : Nat) (hpos : ∀ k, k ∈ incs → 0 < k) :
    (cumul incs done).Pairwise (· < ·) ∧ ∀ s, s ∈ cumul incs done → done < s := by
  induction incs generalizing done with
  | nil => exact ⟨List.Pairwise.nil, by intro s hs; simp [cumul] at hs⟩
  | cons k ks ih =>
    have hk : 0 < k := hpos k (by simp)
    have ih' := ih (done + k) (fun k' hk' => hpos k' (by simp [hk']))
    simp only [cumul]
    constructor
    · rw [List.pairwise_cons]
      exact ⟨fun s hs => ih'.2 s hs, ih'.1⟩
    · intro s hs
      simp only [List.mem_cons] at hs
      cases hs with
      | inl h => omega
      | inr h => have := ih'.2 s h; omega

/-- what makes a level run well-formed: for a parallel run the submitted heights sum to less than
`total` (`total = height + 1`) -/
def LevelRun.Valid : LevelRun → Prop
  | .par _ incs total => incs.sum < total
  | _ => True

theorem reports_par (mt : Bool) (incs : List Nat) (total : Nat) :
    reports (LevelRun.par mt incs total).trace = reports (parJobs mt incs total 0) ++ [1] := by
  have : ∀ l : List Nat, reports (l.flatMap fun _ => [Ev.check, Ev.write]) = [] := by
    intro l
    induction l with
    | nil => rfl
    | cons a t ih => simp [List.flatMap_cons, reports, ih]
  simp [LevelRun.trace, reports_append, reports, this]

theorem parJobs_reports (mt : Bool) (incs : List Nat) (total : Nat) (h : incs.sum < total) :
    Within 0 1 (reports (parJobs mt incs total 0)) ∧
      ∀ x, x ∈ reports (parJobs mt incs total 0) → x < 1 := by
  cases mt with
  | false => rw [reports_parJobs_false]; exact ⟨Within.nil _ _, by simp⟩
  | true =>
    rw [reports_parJobs_true]
    have ht : 0 < total := by omega
    have hmem : ∀ x, x ∈ (cumul incs 0).map (fun (s : Nat) => (s : Rat) / (total : Rat)) →
        ∃ s, s < total ∧ x = (s : Rat) / (total : Rat) := by
      intro x hx
      rw [List.mem_map] at hx
      obtain ⟨s, hs, rfl⟩ := hx
      have := cumul_bounds incs 0 s hs
      exact ⟨s, by omega, rfl⟩
    refine ⟨⟨?_, ?_⟩, ?_⟩
    · rw [List.pairwise_map]
      exact (cumul_pairwise_le incs 0).imp (fun hab => natDiv_mono hab ht)
    · intro x hx
      obtain ⟨s, hs, rfl⟩ := hmem x hx
      exact ⟨natDiv_nonneg hs, Rat.le_of_lt (natDiv_lt_one hs)⟩
    · intro x hx
      obtain ⟨s, hs, rfl⟩ := hmem x hx
      exact natDiv_lt_one hs

theorem levelRun_reports (lv : LevelRun) (hv : lv.Valid) : Within 0 1 (reports lv.trace) := by
  cases lv with
  | seq fam =>
    have : reports (LevelRun.seq fam).trace = reports fam.trace := by
      simp [LevelRun.trace, reports_append, reports]
    rw [this]; exact (family_reports fam).1
  | parSingle fam =>
    have : reports (LevelRun.parSingle fam).trace = reports fam.trace := by
      simp [LevelRun.trace, reports_append, reports]
    rw [this]; exact (family_reports fam).1
  | par mt incs total =>
    rw [reports_par]
    exact Within.append (parJobs_reports mt incs total hv).1
      (Within.single (Rat.le_refl) (Rat.le_refl)) (by grind) (Rat.le_refl)

/-! ### levels and surfaces -/

theorem levels_reports {m : Nat} (hm : 0 < m) (xs : List LevelRun) (l : Nat)
    (hv : ∀ x, x ∈ xs → x.Valid) :
    Within (levelRange m l).start 1 (reports (levelsTrace m l xs)) := by
  induction xs generalizing l with
  | nil =>
    exact Within.nil _ _
  | cons x xs ih =>
    simp only [levelsTrace]
    rw [reports_append, reports_map_project]
    have h1 := (levelRun_reports x (hv x (by simp))).map_project (levelRange_length_nonneg m l)
    have h2 := ih (l + 1) (fun y hy => hv y (by simp [hy]))
    rw [← levelRange_abut hm l] at h2
    refine Within.append h1 h2 ?_ (levelRange_stop_le_one m l)
    have := levelRange_length_nonneg m l
    unfold ProgressRange.stop; grind

theorem surface_reports (lv0 : LevelRun) (mips : List LevelRun)
    (hv : ∀ x, x ∈ lv0 :: mips → x.Valid) :
    ∃ pre, reports (surfaceTrace lv0 mips) = pre ++ [1] ∧ Within 0 1 pre := by
  unfold surfaceTrace
  simp only
  rw [reports_append, reports_append, reports_map_project]
  refine ⟨_, rfl, ?_⟩
  have h0 := (levelRun_reports lv0 (hv lv0 (by simp))).map_project
    (levelRange_length_nonneg mips.length 0)
  by_cases hm : mips.length = 0
  · rw [if_pos hm]
    simp only [reports, List.append_nil]
    exact h0.weaken (levelRange_start_nonneg _ _) (levelRange_stop_le_one _ _)
  · rw [if_neg hm]
    simp only [reports]
    have h1 := levels_reports (m := mips.length) (by omega) mips 1
      (fun x hx => hv x (by simp [hx]))
    rw [← levelRange_abut (by omega) 0] at h1
    have := Within.append h0 h1 (by
      have := levelRange_length_nonneg mips.length 0
      unfold ProgressRange.stop; grind) (levelRange_stop_le_one _ _)
    exact this.weaken (levelRange_start_nonneg _ _) Rat.le_refl

/-! ### cancellation -/

/-- every report below 100 % is followed by a check -/
def Honours : List Ev → Prop
  | [] => True
  | .report p :: t => (p < 1 → Ev.check ∈ t) ∧ Honours t
  | _ :: t => Honours t

theorem honours_append_of_check (a b : List Ev) (hb : Honours b) (hc : Ev.check ∈ b) :
    Honours (a ++ b) := by
  induction a with
  | nil => exact hb
  | cons e t ih =>
    cases e with
    | check => exact ih
    | write => exact ih
    | report p => exact ⟨fun _ => List.mem_append_right _ hc, ih⟩

theorem honours_split {tr : List Ev} (h : Honours tr) {pre post : List Ev} {p : Rat}
    (e : tr = pre ++ Ev.report p :: post) (hp : p < 1) : Ev.check ∈ post := by
  induction pre generalizing tr with
  | nil => subst e; exact h.1 hp
  | cons x xs ih =>
    subst e
    cases x with
    | check => exact ih (tr := xs ++ Ev.report p :: post) h rfl
    | write => exact ih (tr := xs ++ Ev.report p :: post) h rfl
    | report q => exact ih (tr := xs ++ Ev.report p :: post) h.2 rfl

theorem exec_ok_of_cancelled (ca : Option Nat) (tr : List Ev) (k : Nat) (hc : Ev.check ∈ tr) :
    (exec ca tr true k).ok = false := by
  induction tr generalizing k with
  | nil => simp at hc
  | cons e t ih =>
    cases e with
    | check => simp [exec]
    | write =>
      have : Ev.check ∈ t := by simpa using hc
      simp [exec, ih k this]
    | report p =>
      have : Ev.check ∈ t := by simpa using hc
      simp [exec, ih (k + 1) this]

theorem exec_cancel_at (tr : List Ev) (h : Honours tr) (k0 j : Nat) (p : Rat)
    (hj : (reports tr)[j]? = some p) (hp : p < 1) :
    (exec (some (k0 + j)) tr false k0).ok = false := by
  induction tr generalizing k0 j with
  | nil => simp [reports] at hj
  | cons e t ih =>
    cases e with
    | check =>
      simp only [exec]
      exact ih h k0 j hj
    | write =>
      simp only [exec]
      exact ih h k0 j hj
    | report q =>
      simp only [exec]
      cases j with
      | zero =>
        simp only [reports, List.getElem?_cons_zero, Option.some.injEq] at hj
        subst hj
        simp only [Nat.add_zero, beq_self_eq_true, Bool.or_true]
        exact exec_ok_of_cancelled _ t (k0 + 1) (h.1 hp)
      | succ j' =>
        simp only [reports, List.getElem?_cons_succ] at hj
        have hne : (some (k0 + (j' + 1)) == some k0) = false := by
          simp
        rw [hne]
        simp only [Bool.or_false]
        have := ih h.2 (k0 + 1) j' hj
        have e : k0 + 1 + j' = k0 + (j' + 1) := by omega
        rw [e] at this
        exact this

theorem exec_none (tr : List Ev) (k : Nat) :
    exec none tr false k = ⟨true, reports tr, writes tr⟩ := by
  induction tr generalizing k with
  | nil => rfl
  | cons e t ih =>
    cases e with
    | check => simp [exec, reports, writes, ih]
    | write => simp [exec, reports, writes, ih]
    | report p => simp [exec, reports, writes, ih]

/-- reports made before the cancelling one are a prefix: a run cancelled at report `k` makes exactly
the reports `0..k` when every report is immediately preceded by a check -/
theorem exec_precancelled (ca : Option Nat) (t : List Ev) (k : Nat) :
    exec ca (Ev.check :: t) true k = ⟨false, [], 0⟩ := by
  simp [exec]


/-! ### every report is guarded by a check (`checked_report`) -/

/-- every `report` is immediately preceded by a `check`; the flag says whether the previous event
was a check -/
def Guarded : Bool → List Ev → Prop
  | _, [] => True
  | _, .check :: t => Guarded true t
  | b, .report _ :: t => b = true ∧ Guarded false t
  | _, .write :: t => Guarded false t

theorem guarded_weaken {t : List Ev} (h : Guarded false t) (b : Bool) : Guarded b t := by
  cases t with
  | nil => trivial
  | cons e t =>
    cases e with
    | check => exact h
    | write => exact h
    | report p => exact absurd h.1 (by simp)

theorem guarded_append {a c : List Ev} {b : Bool} (ha : Guarded b a) (hc : Guarded false c) :
    Guarded b (a ++ c) := by
  induction a generalizing b with
  | nil => exact guarded_weaken hc b
  | cons e t ih =>
    cases e with
    | check => exact ih (b := true) ha
    | write => exact ih (b := false) ha
    | report p => exact ⟨ha.1, ih (b := false) ha.2⟩

theorem guarded_reportIf (i f n : Nat) (b : Bool) : Guarded b (reportIf i f n) := by
  unfold reportIf
  by_cases h : i % f = 0
  · rw [if_pos h]; exact ⟨rfl, trivial⟩
  · rw [if_neg h]; trivial

theorem guarded_replicate_write (k : Nat) (b : Bool) : Guarded b (List.replicate k Ev.write) := by
  induction k generalizing b with
  | zero => trivial
  | succ k ih => rw [List.replicate_succ]; exact ih false

theorem guarded_flatMap {α : Type} (l : List α) (g : α → List Ev) (hg : ∀ a b, Guarded b (g a))
    (b : Bool) : Guarded b (l.flatMap g) := by
  induction l generalizing b with
  | nil => trivial
  | cons a t ih =>
    rw [List.flatMap_cons]
    exact guarded_append (hg a b) (ih false)

theorem guarded_loopTrace (n f : Nat) (extra : Nat → Nat) (b : Bool) :
    Guarded b (loopTrace n f extra) :=
  guarded_flatMap _ _ (fun i b' =>
    guarded_append (guarded_reportIf i f n b') (guarded_replicate_write _ false)) b

theorem guarded_family (fam : Family) (b : Bool) : Guarded b fam.trace := by
  cases fam with
  | copy w => exact ⟨rfl, guarded_replicate_write w false⟩
  | chunked n f => exact guarded_loopTrace n f _ b
  | biPlanar g f => exact guarded_append (guarded_loopTrace g f _ b) (by exact (trivial : Guarded true [Ev.write]))
  | block bw rows f => exact guarded_loopTrace _ f _ b

theorem guarded_parJobs (mt : Bool) (incs : List Nat) (total done : Nat) (b : Bool) :
    Guarded b (parJobs mt incs total done) := by
  induction incs generalizing done b with
  | nil => trivial
  | cons k ks ih =>
    cases mt with
    | true => exact ⟨rfl, ih (done + k) false⟩
    | false => exact ih (done + k) true

theorem guarded_levelRun (lv : LevelRun) (b : Bool) : Guarded b lv.trace := by
  cases lv with
  | seq fam =>
    exact guarded_append (a := [Ev.check] ++ fam.trace) (guarded_family fam true) (trivial : Guarded true [])
  | parSingle fam =>
    exact guarded_append (a := [Ev.check, Ev.check] ++ fam.trace) (guarded_family fam true)
      (trivial : Guarded true [])
  | par mt incs total =>
    refine guarded_append (a := [Ev.check] ++ parJobs mt incs total 0 ++
      (incs.flatMap fun _ => [Ev.check, Ev.write])) ?_ ⟨rfl, trivial⟩
    refine guarded_append (a := [Ev.check] ++ parJobs mt incs total 0) ?_ ?_
    · exact guarded_parJobs mt incs total 0 true
    · exact guarded_flatMap incs (fun _ => [Ev.check, Ev.write]) (fun _ _ => (trivial : Guarded true [Ev.write])) false

theorem guarded_map_project (r : ProgressRange) (tr : List Ev) (b : Bool) (h : Guarded b tr) :
    Guarded b (tr.map (Ev.project r)) := by
  induction tr generalizing b with
  | nil => trivial
  | cons e t ih =>
    cases e with
    | check => exact ih true h
    | write => exact ih false h
    | report p => exact ⟨h.1, ih false h.2⟩

theorem guarded_levels (m : Nat) (xs : List LevelRun) (l : Nat) (b : Bool) :
    Guarded b (levelsTrace m l xs) := by
  induction xs generalizing l b with
  | nil => trivial
  | cons x xs ih =>
    exact guarded_append (guarded_map_project _ _ b (guarded_levelRun x b)) (ih (l + 1) false)

theorem guarded_surface (lv0 : LevelRun) (mips : List LevelRun) (b : Bool) :
    Guarded b (surfaceTrace lv0 mips) := by
  unfold surfaceTrace
  simp only
  refine guarded_append (guarded_append (guarded_map_project _ _ b (guarded_levelRun lv0 b)) ?_)
    ⟨rfl, trivial⟩
  by_cases hm : mips.length = 0
  · rw [if_pos hm]; trivial
  · rw [if_neg hm]; exact guarded_levels _ mips 1 true

theorem exec_reports_of_cancelled (ca : Option Nat) (tr : List Ev) (k : Nat)
    (h : Guarded false tr) : (exec ca tr true k).reports = [] := by
  induction tr generalizing k with
  | nil => rfl
  | cons e t ih =>
    cases e with
    | check => simp [exec]
    | write => simp only [exec]; exact ih k h
    | report p => exact absurd h.1 (by simp)

/-- a run cancelled at report `j` makes exactly the reports `0..j` -/
theorem exec_cancel_reports (tr : List Ev) (b : Bool) (h : Guarded b tr) (k0 j : Nat) (p : Rat)
    (hj : (reports tr)[j]? = some p) :
    (exec (some (k0 + j)) tr false k0).reports = (reports tr).take (j + 1) := by
  induction tr generalizing k0 j b with
  | nil => simp [reports] at hj
  | cons e t ih =>
    cases e with
    | check =>
      simp only [exec, reports]
      exact ih true h k0 j hj
    | write =>
      simp only [exec, reports]
      exact ih false h k0 j hj
    | report q =>
      simp only [exec, reports]
      cases j with
      | zero =>
        simp only [Nat.add_zero, beq_self_eq_true, Bool.or_true]
        rw [exec_reports_of_cancelled _ t (k0 + 1) h.2]
        simp
      | succ j' =>
        simp only [reports, List.getElem?_cons_succ] at hj
        have hne : (some (k0 + (j' + 1)) == some k0) = false := by simp
        rw [hne]
        simp only [Bool.or_false]
        have := ih false h.2 (k0 + 1) j' hj
        have e : k0 + 1 + j' = k0 + (j' + 1) := by omega
        rw [e] at this
        rw [this]
        simp

end Dds
