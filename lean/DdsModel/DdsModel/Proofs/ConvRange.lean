/- Finite-domain checker with logarithmic recursion depth, for `decide +kernel`. -/
namespace Dds.ConvRange

/-- `p` holds on `[lo, lo + n)`; binary splitting `d` times, then a list scan -/
def allRange (p : Nat → Bool) : Nat → Nat → Nat → Bool
  | 0, lo, n => (List.range' lo n).all p
  | d + 1, lo, n => allRange p d lo (n / 2) && allRange p d (lo + n / 2) (n - n / 2)

theorem allRange_sound (p : Nat → Bool) : ∀ d lo n, allRange p d lo n = true →
    ∀ x, lo ≤ x → x < lo + n → p x = true := by
  intro d
  induction d with
  | zero =>
    intro lo n h x h1 h2
    simp only [allRange, List.all_eq_true] at h
    exact h x (List.mem_range'_1.mpr ⟨h1, h2⟩)
  | succ d ih =>
    intro lo n h x h1 h2
    simp only [allRange, Bool.and_eq_true] at h
    by_cases hx : x < lo + n / 2
    · exact ih lo (n / 2) h.1 x h1 hx
    · exact ih (lo + n / 2) (n - n / 2) h.2 x (by omega) (by omega)

/-- all `x < n` -/
theorem forall_lt_of_allRange (p : Nat → Bool) (d n : Nat) (h : allRange p d 0 n = true) :
    ∀ x, x < n → p x = true := fun x hx => allRange_sound p d 0 n h x (Nat.zero_le _) (by omega)

end Dds.ConvRange
