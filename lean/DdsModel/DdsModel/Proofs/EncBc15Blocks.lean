/-
C13, BC1–BC5 encoder core: whole blocks.  What `compress_bc1_block` / `compress_bc4_block` write and what bc.rs
concatenates decodes, under the proved decoders of C03 (`Bc.decodeBlock` = `BcSpec.decodeBlock`), to the palette entries
the index lists name.
-/
import DdsModel.Proofs.EncBc15Writer
namespace Dds.Enc15
open Dds Dds.Bc Dds.Enc13
open Dds.BcSpec (leWord rnd quant)

/-! ### mode of the written pair = mode of the palette the encoder built -/

theorem createEndpoints_spec (mode : PaletteMode) (e0 e1 : C565) (v0 : e0.Valid) (v1 : e1.Valid) :
    (createEndpoints mode e0 e1).1.Valid ∧ (createEndpoints mode e0 e1).2.Valid ∧
    decide ((createEndpoints mode e0 e1).1.toU16 > (createEndpoints mode e0 e1).2.toU16) = decide (mode = .p4) := by
  cases mode with
  | p4 =>
    have h := newP4_spec e0 e1 v0 v1
    exact ⟨h.1, h.2.1, by simp only [createEndpoints, decide_true]; exact decide_eq_true h.2.2⟩
  | p3 =>
    have h := newP3_spec e0 e1 v0 v1
    refine ⟨h.1, h.2.1, ?_⟩
    have hn : ¬ (createEndpoints .p3 e0 e1).1.toU16 > (createEndpoints .p3 e0 e1).2.toU16 := by
      show ¬ (newP3Default e0 e1).1.toU16 > (newP3Default e0 e1).2.toU16
      have := h.2.2; omega
    rw [decide_eq_false hn]; rfl

/-- colour pixel of the specification on a written colour block, as the encoder's intended entry.
`bc1 = true`: the mode follows the pair's order, which the constructors make the palette's mode;
`bc1 = false` (BC2 / BC3 colour): always four colours, so the palette must be P4 -/
theorem colorPx_intended (bc1 : Bool) (mode : PaletteMode) (hb : bc1 = false → mode = .p4) (pre post : List Nat)
    (e0 e1 : C565) (v0 : e0.Valid) (v1 : e1.Valid) (idx : Nat) (hi : idx < 2 ^ 32) (p : Nat) :
    let c := BcSpec.colorPx bc1 (blkOf (pre ++ withIndexes (createEndpoints mode e0 e1) idx ++ post)) pre.length p
    [c.1, c.2.1, c.2.2.1] = intendedRgb mode (createEndpoints mode e0 e1) (idxGet 2 idx p) ∧
    c.2.2.2 = (if bc1 then intendedA mode (idxGet 2 idx p) else 255) := by
  have hc := createEndpoints_spec mode e0 e1 v0 v1
  have h := colorPx_written bc1 pre post (createEndpoints mode e0 e1) idx hc.1 hc.2.1 hi p
  simp only [] at h ⊢
  rw [h, idxGet2_spec]
  have hf : BcSpec.fourMode bc1 (createEndpoints mode e0 e1).1.toU16 (createEndpoints mode e0 e1).2.toU16 =
      decide (mode = .p4) := by
    unfold BcSpec.fourMode
    rw [hc.2.2]
    cases bc1 with
    | true => rfl
    | false => rw [hb rfl]; rfl
  rw [hf]
  refine ⟨rfl, ?_⟩
  have hk : idx / 4 ^ p % 4 < 4 := Nat.mod_lt _ (by decide)
  cases bc1 <;> cases mode <;> simp only [intendedA, if_true, if_false, Bool.false_eq_true, decide_true, decide_false,
    Bool.not_true, Bool.not_false, Bool.false_and, Bool.true_and, reduceCtorEq, false_and, true_and, beq_iff_eq]
  · exact absurd (hb rfl) (by decide)

/-! ### BC1 -/

/-- T1, BC1: for every mode, pair of valid 5:6:5 colours, alpha map and per-pixel choice of `closest`, no assertion
fires, the block has 8 bytes, decodes (every precision) to the intended palette entries, and is `Portable` -/
theorem bc1_block (mode : PaletteMode) (e0 e1 : C565) (v0 : e0.Valid) (v1 : e1.Valid) (alphaMap : Nat) (sel : Nat → Nat)
    (hs : ∀ i, i < 16 → isOpaque alphaMap i = true → sel i < (if mode = .p3 then 3 else 4))
    (hm : mode = .p4 → ∀ i, i < 16 → isOpaque alphaMap i = true) :
    ∃ idx, blockIndexes mode alphaMap sel = some idx ∧ idx < 2 ^ 32 ∧
      (∀ p, p < 16 → idxGet 2 idx p = indexAt alphaMap sel p) ∧
      emitColour mode e0 e1 alphaMap sel = some (withIndexes (createEndpoints mode e0 e1) idx) ∧
      (∀ x ∈ withIndexes (createEndpoints mode e0 e1) idx, x < 256) ∧
      (∀ pr, Bc.decodeBlock .bc1 pr (blkOf (withIndexes (createEndpoints mode e0 e1) idx)) = (List.range 16).map fun p =>
        (intendedColour mode (createEndpoints mode e0 e1) (indexAt alphaMap sel p)).map (BcSpec.widen pr)) ∧
      ∀ ok3, (∀ p, p < 16 → isOpaque alphaMap p = false → ok3.testBit p = true) →
        Portable (some .bc1) (blkOf (withIndexes (createEndpoints mode e0 e1) idx)) ok3 = true := by
  have hs4 : ∀ i, i < 16 → isOpaque alphaMap i = true → sel i < 4 := by
    intro i hi ho; have := hs i hi ho; split at this <;> omega
  obtain ⟨idx, hidx, hlt, hget⟩ := blockIndexes_spec mode alphaMap sel hs4 hm
  have hc := createEndpoints_spec mode e0 e1 v0 v1
  have hbytes := withIndexes_lt (createEndpoints mode e0 e1) idx (toU16_lt _ hc.1) (toU16_lt _ hc.2.1)
  refine ⟨idx, hidx, hlt, hget, by unfold emitColour; rw [hidx]; rfl, hbytes, ?_, ?_⟩
  · intro pr
    rw [Bc.decodeBlock_eq .bc1 (by decide) pr _ (blkOf_lt _ hbytes)]
    unfold BcSpec.decodeBlock
    apply List.map_congr_left
    intro p hp
    rw [List.mem_range] at hp
    have h := colorPx_intended true mode (by intro h; cases h) [] [] e0 e1 v0 v1 idx hlt p
    simp only [List.nil_append, List.append_nil, List.length_nil] at h
    simp only [BcSpec.px, BcSpec.px8, intendedColour, ← hget p hp]
    have h1 := h.1; have h2 := h.2
    simp only [if_true] at h2
    rw [← h1, ← h2]; rfl
  · intro ok3 hok
    unfold Portable
    have hl := le16_written [] [] (createEndpoints mode e0 e1) idx
    simp only [List.nil_append, List.append_nil, List.length_nil, Nat.zero_add] at hl
    rw [hl.1, hl.2, hc.2.2]
    cases mode with
    | p4 => rfl
    | p3 =>
      simp only [reduceCtorEq, decide_false, Bool.false_or, List.all_eq_true, List.mem_range]
      intro p hp
      have hci := colourIndex_written [] [] (createEndpoints .p3 e0 e1) idx hlt p
      simp only [List.nil_append, List.append_nil, List.length_nil] at hci
      rw [hci, hget p hp]
      unfold indexAt
      by_cases ho : isOpaque alphaMap p = true
      · have := hs p hp ho
        simp only [if_true] at this
        rw [if_pos ho]
        have hne : sel p ≠ 3 := by omega
        simp [hne]
      · have ho' : isOpaque alphaMap p = false := by simpa using ho
        rw [hok p hp ho']; simp

/-! ### the colour half of BC2 / BC3 / RXGB / BC3n blocks (`no_p3_default`: always `compress_p4`) -/

theorem concat_lt {a b : List Nat} (ha : ∀ x ∈ a, x < 256) (hb : ∀ x ∈ b, x < 256) : ∀ x ∈ concatBlocks a b, x < 256 := by
  intro x hx
  unfold concatBlocks at hx
  rcases List.mem_append.mp hx with h | h
  · exact ha x h
  · exact hb x h

/-- colour pixel (always-four-colour decoder) of a 16-byte block whose upper half is a written P4 colour block -/
theorem colour_half (first : List Nat) (hl : first.length = 8) (e0 e1 : C565) (v0 : e0.Valid) (v1 : e1.Valid) (idx : Nat)
    (hi : idx < 2 ^ 32) (p : Nat) :
    let c := BcSpec.colorPx false (blkOf (concatBlocks first (withIndexes (createEndpoints .p4 e0 e1) idx))) 8 p
    [c.1, c.2.1, c.2.2.1] = intendedRgb .p4 (createEndpoints .p4 e0 e1) (idxGet 2 idx p) ∧ c.2.2.2 = 255 := by
  have h := colorPx_intended false .p4 (fun _ => rfl) first [] e0 e1 v0 v1 idx hi p
  simp only [List.append_nil, hl] at h
  exact h

/-- `Portable` of every 16-byte block whose upper half is a written P4 colour block -/
theorem colour_half_portable (first : List Nat) (hl : first.length = 8) (e0 e1 : C565) (v0 : e0.Valid) (v1 : e1.Valid)
    (idx ok3 : Nat) (f : Fmt) (hf : f ∈ [Fmt.bc2, .bc2p, .bc3, .bc3p, .rxgb, .bc3n]) :
    Portable (some f) (blkOf (concatBlocks first (withIndexes (createEndpoints .p4 e0 e1) idx))) ok3 = true := by
  have hc := createEndpoints_spec .p4 e0 e1 v0 v1
  have h := le16_written first [] (createEndpoints .p4 e0 e1) idx
  simp only [List.append_nil, hl] at h
  have hp : decide (le16 (blkOf (concatBlocks first (withIndexes (createEndpoints .p4 e0 e1) idx))) 8 >
      le16 (blkOf (concatBlocks first (withIndexes (createEndpoints .p4 e0 e1) idx))) 10) = true := by
    unfold concatBlocks; rw [h.1, h.2, hc.2.2]; rfl
  simp only [List.mem_cons, List.not_mem_nil, or_false] at hf
  rcases hf with rfl | rfl | rfl | rfl | rfl | rfl <;> exact hp

/-! ### BC4-type halves -/

/-- first half: a written BC4 block followed by anything -/
theorem bc4u_first (second : List Nat) (c0 c1 data : Nat) (hd : data < 2 ^ 48) (p : Nat) :
    BcSpec.bc4uVal (blkOf (concatBlocks (withIndexes4 c0 c1 data) second)) 0 p =
      intended4 (decide (c0 > c1)) c0 c1 255 (idxGet 3 data p) := by
  have h := bc4uVal_written [] second c0 c1 data hd p
  simp only [List.nil_append, List.length_nil] at h
  rw [idxGet3_spec]; exact h

theorem bc4s_first (second : List Nat) (c0 c1 data : Nat) (hd : data < 2 ^ 48) (p : Nat) :
    BcSpec.bc4sVal (blkOf (concatBlocks (withIndexes4 c0 c1 data) second)) 0 p =
      intended4 (decide (BcSpec.sraw c0 > BcSpec.sraw c1)) (BcSpec.snormU c0) (BcSpec.snormU c1) 254 (idxGet 3 data p) := by
  have h := bc4sVal_written [] second c0 c1 data hd p
  simp only [List.nil_append, List.length_nil] at h
  rw [idxGet3_spec]; exact h

/-- second half (BC5 green): anything of 8 bytes followed by a written BC4 block -/
theorem bc4u_second (first : List Nat) (hl : first.length = 8) (c0 c1 data : Nat) (hd : data < 2 ^ 48) (p : Nat) :
    BcSpec.bc4uVal (blkOf (concatBlocks first (withIndexes4 c0 c1 data))) 8 p =
      intended4 (decide (c0 > c1)) c0 c1 255 (idxGet 3 data p) := by
  have h := bc4uVal_written first [] c0 c1 data hd p
  simp only [List.append_nil, hl] at h
  rw [idxGet3_spec]; exact h

theorem bc4s_second (first : List Nat) (hl : first.length = 8) (c0 c1 data : Nat) (hd : data < 2 ^ 48) (p : Nat) :
    BcSpec.bc4sVal (blkOf (concatBlocks first (withIndexes4 c0 c1 data))) 8 p =
      intended4 (decide (BcSpec.sraw c0 > BcSpec.sraw c1)) (BcSpec.snormU c0) (BcSpec.snormU c1) 254 (idxGet 3 data p) := by
  have h := bc4sVal_written first [] c0 c1 data hd p
  simp only [List.append_nil, hl] at h
  rw [idxGet3_spec]; exact h

theorem concat_nil (l : List Nat) : concatBlocks l [] = l := List.append_nil l

/-- BC4 UNORM / SNORM: the block of `with_indexes` alone -/
theorem bc4_block (snorm : Bool) (c0 c1 data : Nat) (h0 : c0 < 256) (h1 : c1 < 256) (hd : data < 2 ^ 48) (pr : Prec) :
    Bc.decodeBlock (if snorm then .bc4s else .bc4u) pr (blkOf (withIndexes4 c0 c1 data)) =
      (List.range 16).map fun p => [quant pr (intended4 (sixOfBytes snorm c0 c1) (levelOfByte snorm c0)
        (levelOfByte snorm c1) (if snorm then 254 else 255) (idxGet 3 data p))] := by
  have hb := blkOf_lt _ (withIndexes4_lt c0 c1 data h0 h1)
  cases snorm with
  | false =>
    show Bc.decodeBlock Fmt.bc4u pr _ = _
    rw [Bc.decodeBlock_eq .bc4u (by decide) pr _ hb]
    unfold BcSpec.decodeBlock
    apply List.map_congr_left
    intro p _
    have h := bc4u_first [] c0 c1 data hd p
    rw [concat_nil] at h
    simp only [BcSpec.px, h, sixOfBytes, levelOfByte, Bool.false_eq_true, if_false]
  | true =>
    show Bc.decodeBlock Fmt.bc4s pr _ = _
    rw [Bc.decodeBlock_eq .bc4s (by decide) pr _ hb]
    unfold BcSpec.decodeBlock
    apply List.map_congr_left
    intro p _
    have h := bc4s_first [] c0 c1 data hd p
    rw [concat_nil] at h
    simp only [BcSpec.px, h, sixOfBytes, levelOfByte, if_true]
    rfl

/-- BC5 UNORM / SNORM: `concat_blocks(red, green)` -/
theorem bc5_block (snorm : Bool) (r0 r1 rdata g0 g1 gdata : Nat) (hr0 : r0 < 256) (hr1 : r1 < 256) (hg0 : g0 < 256)
    (hg1 : g1 < 256) (hrd : rdata < 2 ^ 48) (hgd : gdata < 2 ^ 48) (pr : Prec) :
    Bc.decodeBlock (if snorm then .bc5s else .bc5u) pr
        (blkOf (concatBlocks (withIndexes4 r0 r1 rdata) (withIndexes4 g0 g1 gdata))) =
      (List.range 16).map fun p =>
        [quant pr (intended4 (sixOfBytes snorm r0 r1) (levelOfByte snorm r0) (levelOfByte snorm r1)
            (if snorm then 254 else 255) (idxGet 3 rdata p)),
         quant pr (intended4 (sixOfBytes snorm g0 g1) (levelOfByte snorm g0) (levelOfByte snorm g1)
            (if snorm then 254 else 255) (idxGet 3 gdata p)),
         quant pr (if snorm then 1 / 2 else 0)] := by
  have hb := blkOf_lt _ (concat_lt (withIndexes4_lt r0 r1 rdata hr0 hr1) (withIndexes4_lt g0 g1 gdata hg0 hg1))
  cases snorm with
  | false =>
    show Bc.decodeBlock Fmt.bc5u pr _ = _
    rw [Bc.decodeBlock_eq .bc5u (by decide) pr _ hb]
    unfold BcSpec.decodeBlock
    apply List.map_congr_left
    intro p _
    simp only [BcSpec.px, bc4u_first _ r0 r1 rdata hrd p, bc4u_second (withIndexes4 r0 r1 rdata) rfl g0 g1 gdata hgd p, sixOfBytes, levelOfByte,
      Bool.false_eq_true, if_false]
  | true =>
    show Bc.decodeBlock Fmt.bc5s pr _ = _
    rw [Bc.decodeBlock_eq .bc5s (by decide) pr _ hb]
    unfold BcSpec.decodeBlock
    apply List.map_congr_left
    intro p _
    simp only [BcSpec.px, bc4s_first _ r0 r1 rdata hrd p, bc4s_second (withIndexes4 r0 r1 rdata) rfl g0 g1 gdata hgd p, sixOfBytes, levelOfByte,
      if_true]
    rfl

/-! ### BC2, BC3, RXGB, BC3n: `concat_blocks(alpha / BC4 block, colour block)` -/

/-- BC2: any 8 alpha bytes, then the P4 colour block -/
theorem bc2_block (alpha : List Nat) (hl : alpha.length = 8) (ha : ∀ x ∈ alpha, x < 256) (e0 e1 : C565) (v0 : e0.Valid)
    (v1 : e1.Valid) (idx : Nat) (hi : idx < 2 ^ 32) (pr : Prec) :
    Bc.decodeBlock .bc2 pr (blkOf (concatBlocks alpha (withIndexes (createEndpoints .p4 e0 e1) idx))) =
      (List.range 16).map fun p =>
        (intendedRgb .p4 (createEndpoints .p4 e0 e1) (idxGet 2 idx p) ++
          [BcSpec.bc2Alpha (blkOf (concatBlocks alpha (withIndexes (createEndpoints .p4 e0 e1) idx))) p]).map
          (BcSpec.widen pr) := by
  have hc := createEndpoints_spec .p4 e0 e1 v0 v1
  have hb := blkOf_lt _ (concat_lt ha (withIndexes_lt (createEndpoints .p4 e0 e1) idx (toU16_lt _ hc.1) (toU16_lt _ hc.2.1)))
  rw [Bc.decodeBlock_eq .bc2 (by decide) pr _ hb]
  unfold BcSpec.decodeBlock
  apply List.map_congr_left
  intro p _
  have h := colour_half alpha hl e0 e1 v0 v1 idx hi p
  simp only [BcSpec.px, BcSpec.px8]
  rw [← h.1]; rfl

/-- BC3 (and the stored values of BC3 premultiplied): BC4 alpha block, then the P4 colour block -/
theorem bc3_block (a0 a1 adata : Nat) (h0 : a0 < 256) (h1 : a1 < 256) (hd : adata < 2 ^ 48) (e0 e1 : C565) (v0 : e0.Valid)
    (v1 : e1.Valid) (idx : Nat) (hi : idx < 2 ^ 32) (pr : Prec) :
    Bc.decodeBlock .bc3 pr (blkOf (concatBlocks (withIndexes4 a0 a1 adata) (withIndexes (createEndpoints .p4 e0 e1) idx))) =
      (List.range 16).map fun p =>
        (intendedRgb .p4 (createEndpoints .p4 e0 e1) (idxGet 2 idx p) ++
          [rnd (255 * intended4 (decide (a0 > a1)) a0 a1 255 (idxGet 3 adata p))]).map (BcSpec.widen pr) := by
  have hc := createEndpoints_spec .p4 e0 e1 v0 v1
  have hb := blkOf_lt _ (concat_lt (withIndexes4_lt a0 a1 adata h0 h1)
    (withIndexes_lt (createEndpoints .p4 e0 e1) idx (toU16_lt _ hc.1) (toU16_lt _ hc.2.1)))
  rw [Bc.decodeBlock_eq .bc3 (by decide) pr _ hb]
  unfold BcSpec.decodeBlock
  apply List.map_congr_left
  intro p _
  have h := colour_half (withIndexes4 a0 a1 adata) rfl e0 e1 v0 v1 idx hi p
  simp only [BcSpec.px, BcSpec.px8, bc4u_first _ a0 a1 adata hd p]
  rw [← h.1]; rfl

/-- RXGB: the BC4 block carries red, the colour block green and blue -/
theorem rxgb_block (a0 a1 adata : Nat) (h0 : a0 < 256) (h1 : a1 < 256) (hd : adata < 2 ^ 48) (e0 e1 : C565) (v0 : e0.Valid)
    (v1 : e1.Valid) (idx : Nat) (hi : idx < 2 ^ 32) (pr : Prec) :
    Bc.decodeBlock .rxgb pr (blkOf (concatBlocks (withIndexes4 a0 a1 adata) (withIndexes (createEndpoints .p4 e0 e1) idx))) =
      (List.range 16).map fun p =>
        ([rnd (255 * intended4 (decide (a0 > a1)) a0 a1 255 (idxGet 3 adata p))] ++
          (intendedRgb .p4 (createEndpoints .p4 e0 e1) (idxGet 2 idx p)).drop 1).map (BcSpec.widen pr) := by
  have hc := createEndpoints_spec .p4 e0 e1 v0 v1
  have hb := blkOf_lt _ (concat_lt (withIndexes4_lt a0 a1 adata h0 h1)
    (withIndexes_lt (createEndpoints .p4 e0 e1) idx (toU16_lt _ hc.1) (toU16_lt _ hc.2.1)))
  rw [Bc.decodeBlock_eq .rxgb (by decide) pr _ hb]
  unfold BcSpec.decodeBlock
  apply List.map_congr_left
  intro p _
  have h := colour_half (withIndexes4 a0 a1 adata) rfl e0 e1 v0 v1 idx hi p
  simp only [BcSpec.px, BcSpec.px8, bc4u_first _ a0 a1 adata hd p]
  rw [← h.1]; rfl

/-- BC3n at 8 bit: red from the BC4 block, green from the colour block, blue derived by the decoder (`calc_b`) -/
theorem bc3n_block (a0 a1 adata : Nat) (h0 : a0 < 256) (h1 : a1 < 256) (hd : adata < 2 ^ 48) (e0 e1 : C565) (v0 : e0.Valid)
    (v1 : e1.Valid) (idx : Nat) (hi : idx < 2 ^ 32) (p : Nat) (hp : p < 16) :
    Bc.px8 .bc3n (blkOf (concatBlocks (withIndexes4 a0 a1 adata) (withIndexes (createEndpoints .p4 e0 e1) idx))) p =
      (let r := rnd (255 * intended4 (decide (a0 > a1)) a0 a1 255 (idxGet 3 adata p))
       let g := (intendedRgb .p4 (createEndpoints .p4 e0 e1) (idxGet 2 idx p)).getD 1 0
       [r, g, Bc.calcB r g]) := by
  have hc := createEndpoints_spec .p4 e0 e1 v0 v1
  have hb := blkOf_lt _ (concat_lt (withIndexes4_lt a0 a1 adata h0 h1)
    (withIndexes_lt (createEndpoints .p4 e0 e1) idx (toU16_lt _ hc.1) (toU16_lt _ hc.2.1)))
  rw [Bc.px8_bc3n _ hb p hp]
  have h := colour_half (withIndexes4 a0 a1 adata) rfl e0 e1 v0 v1 idx hi p
  simp only [bc4u_first _ a0 a1 adata hd p]
  rw [← h.1]; rfl

/-! ### the endpoint constructors of bc4.rs: order ↔ palette, SNORM bytes -/

theorem fixDistinct_lt (minR maxR minF maxC : Nat) (h1 : minR ≤ maxR) (h2 : minF ≤ maxC) :
    (fixDistinct minR maxR minF maxC).1 < (fixDistinct minR maxR minF maxC).2 := by
  unfold fixDistinct
  by_cases a : minR = maxR
  · rw [if_pos a]
    by_cases b : minF = maxC
    · rw [if_pos b]
      by_cases c : minF = 0
      · rw [if_pos c]; show minF < 1; omega
      · rw [if_neg c]; show minF - 1 < maxC; omega
    · rw [if_neg b]; show minF < maxC; omega
  · rw [if_neg a]; show minR < maxR; omega

theorem fixDistinct_le (minR maxR minF maxC k : Nat) (h1 : maxR ≤ k) (h2 : maxC ≤ k) (hk : 1 ≤ k) :
    (fixDistinct minR maxR minF maxC).2 ≤ k := by
  unfold fixDistinct
  by_cases a : minR = maxR
  · rw [if_pos a]
    by_cases b : minF = maxC
    · rw [if_pos b]
      by_cases c : minF = 0
      · rw [if_pos c]; exact hk
      · rw [if_neg c]; exact h2
    · rw [if_neg b]; exact h2
  · rw [if_neg a]; exact h1

/-- `new_inter6`: `c0 > c1` in the decoder's order (six interpolants); under SNORM the swap never happens, the bytes are
`from_norm` of the two levels and never `0x80`.  `new_inter4` is the exchanged pair (four interpolants + 0, 1). -/
theorem newInter6_spec (snorm : Bool) (minR maxR minF maxC : Nat) (h1 : minR ≤ maxR) (h2 : minF ≤ maxC)
    (hR : maxR ≤ (if snorm then 254 else 255)) (hC : maxC ≤ (if snorm then 254 else 255)) :
    let mm := fixDistinct minR maxR minF maxC
    let e := newInter6 snorm minR maxR minF maxC
    e.c0 < 256 ∧ e.c1 < 256 ∧ sixOfBytes snorm e.c0 e.c1 = true ∧
    sixOfBytes snorm (inter6ToInter4 e).c0 (inter6ToInter4 e).c1 = false ∧
    levelOfByte snorm e.c0 = mm.2 ∧ levelOfByte snorm e.c1 = mm.1 ∧ mm.1 < mm.2 ∧
    (snorm = true → e.c0 = fromNorm mm.2 ∧ e.c1 = fromNorm mm.1 ∧ e.c0 ≠ 128 ∧ e.c1 ≠ 128) := by
  have hlt := fixDistinct_lt minR maxR minF maxC h1 h2
  cases snorm with
  | false =>
    have hle := fixDistinct_le minR maxR minF maxC 255 hR hC (by decide)
    simp only [newInter6, inter6ToInter4, sixOfBytes, levelOfByte, Bool.false_eq_true, if_false]
    generalize fixDistinct minR maxR minF maxC = mm at hlt hle ⊢
    refine ⟨by omega, by omega, decide_eq_true hlt, decide_eq_false (by omega), trivial, trivial, hlt, ?_⟩
    intro h; cases h
  | true =>
    have hle := fixDistinct_le minR maxR minF maxC 254 hR hC (by decide)
    simp only [newInter6, inter6ToInter4, sixOfBytes, levelOfByte, if_true]
    generalize fixDistinct minR maxR minF maxC = mm at hlt hle ⊢
    have f2 := fromNorm_facts mm.2 hle
    have f1 := fromNorm_facts mm.1 (by omega)
    have e1 : asI8 (fromNorm mm.2) = BcSpec.sraw (fromNorm mm.2) := rfl
    have e2 : asI8 (fromNorm mm.1) = BcSpec.sraw (fromNorm mm.1) := rfl
    have hns : i8le (fromNorm mm.2) (fromNorm mm.1) = false := by
      unfold i8le
      rw [e1, e2, f2.2.2.2, f1.2.2.2]
      exact decide_eq_false (by omega)
    simp only [hns, Bool.false_eq_true, if_false]
    refine ⟨f2.1, f1.1, ?_, ?_, f2.2.2.1, f1.2.2.1, hlt, fun _ => ⟨trivial, trivial, f2.2.1, f1.2.1⟩⟩
    · rw [e1, e2, f2.2.2.2, f1.2.2.2]; exact decide_eq_true (by omega)
    · rw [e1, e2, f2.2.2.2, f1.2.2.2]; exact decide_eq_false (by omega)

/-- `new_closest`: endpoint bytes in range, index 0 decodes to the level `n` in either mode, SNORM never `0x80` -/
theorem newClosest_spec (snorm : Bool) (n : Nat) (hn : n ≤ (if snorm then 254 else 255)) :
    (newClosest snorm n).c0 < 256 ∧ (newClosest snorm n).c1 < 256 ∧ levelOfByte snorm (newClosest snorm n).c0 = n ∧
    (snorm = true → (newClosest snorm n).c0 ≠ 128 ∧ (newClosest snorm n).c1 = 129) := by
  cases snorm with
  | false => simp only [newClosest, levelOfByte, Bool.false_eq_true, if_false] at hn ⊢; exact ⟨by omega, by decide, trivial, fun h => by cases h⟩
  | true =>
    simp only [if_true] at hn
    have f := fromNorm_facts n hn
    simp only [newClosest, levelOfByte, if_true]
    exact ⟨f.1, by decide, f.2.2.1, fun _ => ⟨f.2.1, rfl⟩⟩

end Dds.Enc15
