/- Helper lemmas for C16: strategy selection, plans, the look-ahead gather, plan execution. -/
import DdsModel.Mip
import DdsModel.Proofs.Iter
namespace Dds.Mip

/-! ### powers of two and the strategy -/

theorem isPow2_iff (n : Nat) : isPow2 n = true ↔ ∃ k, n = 2 ^ k := by
  unfold isPow2
  simp only [Bool.and_eq_true, bne_iff_ne, ne_eq, beq_iff_eq]
  constructor
  · intro h; exact ⟨n.log2, h.2.symm⟩
  · rintro ⟨k, rfl⟩
    exact ⟨Nat.ne_of_gt (Nat.two_pow_pos k), by rw [Nat.log2_two_pow]⟩

/-- every size, the source included, is a power of two in both dimensions -/
def AllPow2 (src : Sz) (sizes : List Sz) : Prop :=
  ∀ s ∈ src :: sizes, (∃ a, s.1 = 2 ^ a) ∧ (∃ b, s.2 = 2 ^ b)

theorem allPow2_iff (src : Sz) (sizes : List Sz) : allPow2 src sizes = true ↔ AllPow2 src sizes := by
  unfold allPow2 AllPow2
  simp only [List.all_eq_true, Bool.and_eq_true, isPow2_iff, List.mem_append, List.mem_cons,
    List.not_mem_nil, or_false]
  constructor
  · intro h s hs
    exact h s (by rcases hs with h1 | h1; exact Or.inr h1; exact Or.inl h1)
  · intro h s hs
    exact h s (by rcases hs with h1 | h1; exact Or.inr h1; exact Or.inl h1)

/-! ### plans -/

theorem planLoop_fst : ∀ (l : List Sz) (k : Nat), (planLoop l k).map (·.1) = l
  | [], _ => rfl
  | s :: r, k => by simp only [planLoop, List.map_cons, planLoop_fst r (k + 1)]

theorem planLoop_snd : ∀ (l : List Sz) (k : Nat), (planLoop l k).map (·.2) = List.range' k l.length
  | [], _ => rfl
  | s :: r, k => by
    simp only [planLoop, List.map_cons, planLoop_snd r (k + 1), List.length_cons, List.range'_succ]

theorem planSource_fst (sizes : List Sz) : (planSource sizes).map (·.1) = sizes := by
  unfold planSource
  induction sizes with
  | nil => rfl
  | cons s r ih => simp only [List.map_cons, ih]

theorem range'_pred : ∀ (n k : Nat), List.range' k n = (List.range' (k + 1) n).map (· - 1)
  | 0, _ => rfl
  | n + 1, k => by
    simp only [List.range'_succ, List.map_cons]
    rw [← range'_pred n (k + 1)]; rfl

theorem planSource_snd (sizes : List Sz) : (planSource sizes).map (·.2) = List.replicate sizes.length 0 := by
  unfold planSource; rw [List.map_map]
  induction sizes with
  | nil => rfl
  | cons s r ih => simp only [List.map_cons, List.length_cons, List.replicate_succ, ih]; rfl

theorem planPrevious_fst {sizes : List Sz} {pl} (h : planPrevious sizes = some pl) : pl.map (·.1) = sizes := by
  cases sizes with
  | nil => cases h
  | cons s r => simp only [planPrevious, Option.some.injEq] at h; subst h; simp [planLoop_fst]

/-- from-previous: level number k+1 (position k) is resized from image number k -/
theorem planPrevious_snd {sizes : List Sz} {pl} (h : planPrevious sizes = some pl) :
    pl.map (·.2) = List.range' 0 sizes.length := by
  cases sizes with
  | nil => cases h
  | cons s r =>
    simp only [planPrevious, Option.some.injEq] at h; subst h
    simp only [List.map_cons, planLoop_snd, List.length_cons, List.range'_succ]

theorem planPreviousTwo_fst {sizes : List Sz} {pl} (h : planPreviousTwo sizes = some pl) : pl.map (·.1) = sizes := by
  match sizes, h with
  | [s0], h => simp only [planPreviousTwo, Option.some.injEq] at h; subst h; rfl
  | s0 :: s1 :: r, h => simp only [planPreviousTwo, Option.some.injEq] at h; subst h; simp [planLoop_fst]

/-- from-previous-two: positions 0 and 1 from the source, position k ≥ 2 from image number k-1
(the level generated two steps earlier) -/
theorem planPreviousTwo_snd {sizes : List Sz} {pl} (h : planPreviousTwo sizes = some pl) :
    pl.map (·.2) = (List.range' 0 sizes.length).map (· - 1) := by
  match sizes, h with
  | [s0], h => simp only [planPreviousTwo, Option.some.injEq] at h; subst h; rfl
  | s0 :: s1 :: r, h =>
    simp only [planPreviousTwo, Option.some.injEq] at h; subst h
    simp only [List.map_cons, planLoop_snd, List.length_cons, List.range'_succ]
    congr 2
    exact range'_pred r.length 1

theorem plan_fst {f : Filter} {src : Sz} {sizes : List Sz} {pl} (h : plan f src sizes = some pl) :
    pl.map (·.1) = sizes := by
  unfold plan at h
  cases hs : selectStrategy f src sizes <;> rw [hs] at h <;> simp only at h
  · simp only [Option.some.injEq] at h; subst h; exact planSource_fst sizes
  · exact planPrevious_fst h
  · exact planPreviousTwo_fst h

theorem plan_some (f : Filter) (src : Sz) (sizes : List Sz) (hne : sizes ≠ []) :
    ∃ pl, plan f src sizes = some pl := by
  unfold plan
  cases selectStrategy f src sizes <;> simp only
  · exact ⟨_, rfl⟩
  · cases sizes with
    | nil => exact absurd rfl hne
    | cons s r => exact ⟨_, rfl⟩
  · match sizes, hne with
    | [s0], _ => exact ⟨_, rfl⟩
    | s0 :: s1 :: r, _ => exact ⟨_, rfl⟩

/-- the source numbers of a plan, by strategy -/
theorem plan_snd {f : Filter} {src : Sz} {sizes : List Sz} {pl} (h : plan f src sizes = some pl) :
    pl.map (·.2) =
      match selectStrategy f src sizes with
      | .fromSource => List.replicate sizes.length 0
      | .fromPrevious => List.range' 0 sizes.length
      | .fromPreviousTwo => (List.range' 0 sizes.length).map (· - 1) := by
  unfold plan at h
  cases hs : selectStrategy f src sizes <;> rw [hs] at h <;> simp only at h ⊢
  · simp only [Option.some.injEq] at h; subst h; exact planSource_snd sizes
  · exact planPrevious_snd h
  · exact planPreviousTwo_snd h

/-- every level is resized from the source or from a level generated before it -/
theorem plan_earlier {f : Filter} {src : Sz} {sizes : List Sz} {pl} (h : plan f src sizes = some pl)
    (k : Nat) (hk : k < pl.length) : (pl[k]'hk).2 ≤ k := by
  have hs := plan_snd h
  have hlen : pl.length = sizes.length := by rw [← plan_fst h, List.length_map]
  have hg : (pl.map (·.2))[k]? = some (pl[k]'hk).2 := by
    rw [List.getElem?_map, List.getElem?_eq_getElem hk]; rfl
  rw [hs] at hg
  have hk' : k < sizes.length := by omega
  cases hsel : selectStrategy f src sizes <;> rw [hsel] at hg <;> simp only at hg
  · rw [List.getElem?_replicate, if_pos hk'] at hg
    simp only [Option.some.injEq] at hg; omega
  · rw [List.getElem?_range' hk'] at hg
    simp only [Option.some.injEq] at hg; omega
  · rw [List.getElem?_map, List.getElem?_range' hk'] at hg
    simp only [Option.map_some, Option.some.injEq] at hg; omega

/-! ### the look-ahead gather on a texture iterator -/

/-- the declared mipmap levels `l .. mips-1` of a texture -/
def declared (w h : Nat) (l n : Nat) : List Sz :=
  (List.range' l n).map fun k => (mipSize w k, mipSize h k)

theorem gather_tex : ∀ (fuel : Nat) (t : TexIter), t.Inv → t.idx < t.len → 1 ≤ t.level →
    t.first.mips ≤ fuel + t.level →
    gatherSizes fuel (.tex t) = some (declared t.first.w t.first.h t.level (t.first.mips - t.level)) := by
  intro fuel
  induction fuel with
  | zero =>
    intro t v hi _ hf
    have : t.level < t.first.mips := by
      cases v.cursor with
      | inl h' => exact h'.2
      | inr h' => omega
    omega
  | succ fuel ih =>
    intro t v hi hl hf
    have hlm : t.level < t.first.mips := by
      cases v.cursor with
      | inl h' => exact h'.2
      | inr h' => omega
    unfold gatherSizes
    show (match t.currentP with
      | none => none
      | some none => some []
      | some (some s) =>
        if s.level = 0 then some []
        else
          match (SurfIter.tex t).advanceP with
          | none => none
          | some it' => (gatherSizes fuel it').map ((s.w, s.h) :: ·)) = _
    rw [v.currentP, if_pos hi]
    simp only
    rw [if_neg (by omega)]
    show (gatherSizes fuel (.tex t.advance)).map _ = _
    have hm := v.mips_lt
    have hmod : (t.level + 1) % U8 = t.level + 1 := Nat.mod_eq_of_lt (by unfold U8; omega)
    obtain ⟨vadv, _, hfirst, hlen⟩ := v.advance
    have hdecl : declared t.first.w t.first.h t.level (t.first.mips - t.level) =
        (mipSize t.first.w t.level, mipSize t.first.h t.level) ::
          declared t.first.w t.first.h (t.level + 1) (t.first.mips - (t.level + 1)) := by
      unfold declared
      have : t.first.mips - t.level = (t.first.mips - (t.level + 1)) + 1 := by omega
      rw [this, List.range'_succ, List.map_cons]
    rw [hdecl]
    by_cases hn : t.level + 1 < t.first.mips
    · have hadv : t.advance = { t with level := t.level + 1 } := by
        unfold TexIter.advance
        rw [if_pos hi]; simp only [hmod]; rw [if_pos hn]
      have := ih t.advance vadv (by rw [hadv]; exact hi) (by rw [hadv]; show 1 ≤ t.level + 1; omega)
        (by rw [hadv]; show t.first.mips ≤ fuel + (t.level + 1); omega)
      rw [this, hadv]
      rfl
    · have hadv : t.advance = { t with idx := (t.idx + 1) % U32, level := 0 } := by
        unfold TexIter.advance
        rw [if_pos hi]; simp only [hmod]; rw [if_neg hn]
      have hz : t.first.mips - (t.level + 1) = 0 := by omega
      have hnil : declared t.first.w t.first.h (t.level + 1) (t.first.mips - (t.level + 1)) = [] := by
        rw [hz]; rfl
      rw [hnil]
      have hg : gatherSizes fuel (.tex t.advance) = some [] := by
        cases fuel with
        | zero => rfl
        | succ fuel =>
          unfold gatherSizes
          show (match t.advance.currentP with
            | none => none
            | some none => some []
            | some (some s) =>
              if s.level = 0 then some []
              else
                match (SurfIter.tex t.advance).advanceP with
                | none => none
                | some it' => (gatherSizes fuel it').map ((s.w, s.h) :: ·)) = _
          rw [vadv.currentP]
          by_cases h2 : t.advance.idx < t.advance.len
          · rw [if_pos h2]; simp only
            rw [if_pos (by rw [hadv])]
          · rw [if_neg h2]
      rw [hg]; rfl

/-! ### the encoder's loop consumes exactly the gathered surfaces -/

/-- `n` times `advance` -/
def advN : Nat → SurfIter → Option SurfIter
  | 0, it => some it
  | n + 1, it => match it.advanceP with
    | none => none
    | some it' => advN n it'

theorem genLoop_follows_gather : ∀ (fuel : Nat) (e : Enc) (sizes : List Sz),
    gatherSizes fuel e.iter = some sizes → (∀ s ∈ sizes, e.sizeOk s.1 s.2 = true) →
    (e.genLoop fuel).2 = .ok ∧ advN sizes.length e.iter = some (e.genLoop fuel).1.iter ∧
      (e.genLoop fuel).1.layout = e.layout := by
  intro fuel
  induction fuel with
  | zero =>
    intro e sizes hg _
    simp only [gatherSizes, Option.some.injEq] at hg
    subst hg
    exact ⟨rfl, rfl, rfl⟩
  | succ fuel ih =>
    intro e sizes hg hok
    unfold gatherSizes at hg
    unfold Enc.genLoop
    cases hc : e.iter.currentP with
    | none => rw [hc] at hg; cases hg
    | some r =>
      rw [hc] at hg
      cases r with
      | none =>
        simp only [Option.some.injEq] at hg; subst hg
        exact ⟨rfl, rfl, rfl⟩
      | some s =>
        simp only at hg ⊢
        by_cases h0 : s.level = 0
        · rw [if_pos h0] at hg; rw [if_pos h0]
          simp only [Option.some.injEq] at hg; subst hg
          exact ⟨rfl, rfl, rfl⟩
        · rw [if_neg h0] at hg; rw [if_neg h0]
          cases ha : e.iter.advanceP with
          | none => rw [ha] at hg; cases hg
          | some it' =>
            rw [ha] at hg
            simp only at hg ⊢
            cases hr : gatherSizes fuel it' with
            | none => rw [hr] at hg; cases hg
            | some rest =>
              rw [hr] at hg
              simp only [Option.map_some, Option.some.injEq] at hg
              subst hg
              have hs : e.sizeOk s.w s.h = true := hok (s.w, s.h) List.mem_cons_self
              rw [if_neg (by simp [hs])]
              obtain ⟨r1, r2, r3⟩ := ih ({ e with iter := it', written := e.written + s.len }) rest hr
                (fun x hx => hok x (List.mem_cons_of_mem _ hx))
              refine ⟨r1, ?_, r3⟩
              show (match e.iter.advanceP with
                | none => none
                | some it' => advN rest.length it') = _
              rw [ha]; exact r2

/-! ### executing a plan -/

/-- pointwise relation of two lists of the same length -/
def AllRel {α β : Type} (Rel : α → β → Prop) : List α → List β → Prop
  | [], [] => True
  | a :: as, b :: bs => Rel a b ∧ AllRel Rel as bs
  | _, _ => False

theorem AllRel.append {α β : Type} {Rel : α → β → Prop} : ∀ {l1 : List α} {l2 : List β} {a : α} {b : β},
    AllRel Rel l1 l2 → Rel a b → AllRel Rel (l1 ++ [a]) (l2 ++ [b])
  | [], [], _, _, _, h => ⟨h, trivial⟩
  | _ :: _, _ :: _, _, _, h1, h => ⟨h1.1, AllRel.append h1.2 h⟩
  | [], _ :: _, _, _, h1, _ => h1.elim
  | _ :: _, [], _, _, h1, _ => h1.elim

theorem AllRel.getD {α β : Type} {Rel : α → β → Prop} : ∀ {l1 : List α} {l2 : List β} (j : Nat) {a : α} {b : β},
    AllRel Rel l1 l2 → Rel a b → Rel (l1.getD j a) (l2.getD j b)
  | [], [], _, _, _, _, h => by simpa using h
  | _ :: _, _ :: _, 0, _, _, h1, _ => by simpa using h1.1
  | _ :: as, _ :: bs, j + 1, _, _, h1, h => by
    simp only [List.getD_cons_succ]; exact AllRel.getD j h1.2 h
  | [], _ :: _, _, _, _, h1, _ => h1.elim
  | _ :: _, [], _, _, _, h1, _ => h1.elim

theorem AllRel.mono {α β : Type} {Rel Rel' : α → β → Prop} (h : ∀ a b, Rel a b → Rel' a b) :
    ∀ {l1 : List α} {l2 : List β}, AllRel Rel l1 l2 → AllRel Rel' l1 l2
  | [], [], _ => trivial
  | _ :: _, _ :: _, h1 => ⟨h _ _ h1.1, AllRel.mono h h1.2⟩
  | [], _ :: _, h1 => h1.elim
  | _ :: _, [], h1 => h1.elim

/-- Two executions of the same plan: the sources are related by `S`, every resize turns a pair
related by `S` or `Rel` into a pair related by `Rel`; then the generated levels are pointwise
related by `Rel`. -/
theorem runPlan_rel {S Rel : Img → Img → Prop} {R R' : Img → Sz → Img}
    (hR : ∀ i i' s, (S i i' ∨ Rel i i') → Rel (R i s) (R' i' s)) {src src' : Img} (hs : S src src') :
    ∀ (pl : List (Sz × Nat)) (acc acc' : List Img), AllRel Rel acc acc' →
      AllRel Rel (runPlan R src pl acc) (runPlan R' src' pl acc')
  | [], _, _, h => h
  | (s, j) :: rest, acc, acc', h => by
    unfold runPlan
    apply runPlan_rel hR hs rest
    apply AllRel.append h
    apply hR
    exact AllRel.getD (Rel := fun a b => S a b ∨ Rel a b) j (l1 := src :: acc) (l2 := src' :: acc')
      ⟨Or.inl hs, AllRel.mono (fun _ _ h => Or.inr h) h⟩ (Or.inl hs)

theorem AllRel.diag {α : Type} {P : α → Prop} : ∀ {l : List α}, AllRel (fun a _ => P a) l l → ∀ a ∈ l, P a
  | [], _, _, hm => by cases hm
  | x :: xs, h, a, hm => by
    rcases List.mem_cons.mp hm with rfl | hm'
    · exact h.1
    · exact AllRel.diag h.2 a hm'

/-- if the source satisfies `S` and every resize of an image satisfying `S` or `P` satisfies `P`,
every generated level satisfies `P` -/
theorem runPlan_inv {S P : Img → Prop} {R : Img → Sz → Img} (hR : ∀ i s, (S i ∨ P i) → P (R i s)) {src : Img}
    (hs : S src) (pl : List (Sz × Nat)) : ∀ l ∈ runPlan R src pl [], P l := by
  have := runPlan_rel (S := fun a _ => S a) (Rel := fun a _ => P a) (R := R) (R' := R)
    (fun i _ s h => hR i s h) (src := src) (src' := src) hs pl [] [] trivial
  exact AllRel.diag this

theorem AllRel.length {α β : Type} {Rel : α → β → Prop} : ∀ {l1 : List α} {l2 : List β},
    AllRel Rel l1 l2 → l1.length = l2.length
  | [], [], _ => rfl
  | _ :: _, _ :: _, h => by simp only [List.length_cons]; rw [AllRel.length h.2]
  | [], _ :: _, h => h.elim
  | _ :: _, [], h => h.elim

theorem AllRel.get {α β : Type} {Rel : α → β → Prop} : ∀ {l1 : List α} {l2 : List β} (k : Nat) (a : α) (b : β),
    AllRel Rel l1 l2 → l1[k]? = some a → l2[k]? = some b → Rel a b
  | [], [], _, _, _, _, h, _ => by cases h
  | x :: _, y :: _, 0, a, b, h, h1, h2 => by
    simp only [List.getElem?_cons_zero, Option.some.injEq] at h1 h2; subst h1; subst h2; exact h.1
  | _ :: _, _ :: _, k + 1, a, b, h, h1, h2 => by
    simp only [List.getElem?_cons_succ] at h1 h2; exact AllRel.get k a b h.2 h1 h2
  | [], _ :: _, _, _, _, h, _, _ => h.elim
  | _ :: _, [], _, _, _, h, _, _ => h.elim

theorem runPlan_length (R : Img → Sz → Img) (src : Img) : ∀ (pl : List (Sz × Nat)) (acc : List Img),
    (runPlan R src pl acc).length = acc.length + pl.length
  | [], acc => by simp [runPlan]
  | (s, j) :: rest, acc => by
    unfold runPlan
    rw [runPlan_length R src rest]; simp only [List.length_append, List.length_cons, List.length_nil]; omega

end Dds.Mip
