/-
Finite facts about the BC6H/BC7 tables, all by complete evaluation in the kernel.
-/
import DdsModel.BcTables
namespace Dds.BcTables

/-- well-formedness of the pinned specification tables -/
def specWellformed : Bool :=
  specP2.length = 64 && specP3.length = 64 && specAnchor2.length = 64 && specAnchor3a.length = 64 &&
  specAnchor3b.length = 64 &&
  (List.range 64).all (fun p =>
    -- two subsets
    specSubset 2 p 0 = 0 &&
    (List.range 16).all (fun i => specSubset 2 p i ≤ 1) &&
    specAnchor2.getD p 0 < 16 && specAnchor2.getD p 0 ≠ 0 &&
    specSubset 2 p (specAnchor2.getD p 0) = 1 &&
    -- three subsets
    specSubset 3 p 0 = 0 &&
    (List.range 16).all (fun i => specSubset 3 p i ≤ 2) &&
    specAnchor3a.getD p 0 < 16 && specAnchor3b.getD p 0 < 16 &&
    specSubset 3 p (specAnchor3a.getD p 0) = 1 &&
    specSubset 3 p (specAnchor3b.getD p 0) = 2)

theorem specWellformed_true : specWellformed = true := by decide +kernel

/-- the code's tables (parsed from its literals by the models of `subset2`/`subset3`) against the spec tables -/
def implMatchesSpec : Bool :=
  implP2Lit.length = 64 && implP3Lit.length = 64 &&
  (List.range 64).all (fun p =>
    (List.range 16).all (fun i => subset2Index (implP2 p) i = specSubset 2 p i) &&
    (implP2 p).2 = specAnchor2.getD p 0 &&
    (List.range 16).all (fun i => subset3Index (implP3 p) i = specSubset 3 p i) &&
    (implP3 p).2.1 = min (specAnchor3a.getD p 0) (specAnchor3b.getD p 0) &&
    (implP3 p).2.2 = max (specAnchor3a.getD p 0) (specAnchor3b.getD p 0) &&
    0 < (implP2 p).2 && 0 < (implP3 p).2.1 && (implP3 p).2.1 < (implP3 p).2.2 && (implP3 p).2.2 < 16)

theorem implMatchesSpec_true : implMatchesSpec = true := by decide +kernel

theorem weights7_x4 :
    implW7_2 = specW2.map (· * 4) ∧ implW7_3 = specW3.map (· * 4) ∧ implW7_4 = specW4.map (· * 4) := by decide
theorem weights6_eq : implW6_3 = specW3 ∧ implW6_4 = specW4 := by decide

/-- weights are symmetric and end at 64: w[i] + w[n-1-i] = 64 -/
theorem weights_sum_64 :
    (∀ i, i < 4 → specW2.getD i 0 + specW2.getD (3 - i) 0 = 64) ∧
    (∀ i, i < 8 → specW3.getD i 0 + specW3.getD (7 - i) 0 = 64) ∧
    (∀ i, i < 16 → specW4.getD i 0 + specW4.getD (15 - i) 0 = 64) := by decide

end Dds.BcTables
