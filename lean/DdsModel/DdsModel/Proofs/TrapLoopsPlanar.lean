/- Proofs for `TrapLoopsPlanar.lean` (C01): the bi-planar helpers and loops never trap under the callers' invariants. -/
import DdsModel.TrapLoopsPlanar
import DdsModel.Proofs.TrapLoopsBlock
namespace Dds.TrapLoops
open Dds Dds.Trap

/-- writes inside the first `bytes` bytes of `d` -/
def Inside (d : Sl) (bytes : Nat) (s : Sl) : Prop := s.buf = d.buf ∧ d.off ≤ s.off ∧ s.off + s.len ≤ d.off + bytes

theorem Inside.toWrOK {d : Sl} {bytes : Nat} {s : Sl} (h : Inside d bytes s) (hb : bytes ≤ d.len) : WrOK d s :=
  Or.inr ⟨h.1, h.2.1, by have := h.2.2; omega⟩

theorem div_le_divCeil (a b : Nat) : a / b ≤ divCeil a b := by
  unfold divCeil; split <;> omega

theorem div_lt_divCeil_of_rem {a b : Nat} (h : 0 < a % b) : a / b < divCeil a b := by
  unfold divCeil; rw [if_pos h]; omega

theorem mul3_div (f s p : Nat) (hs : 0 < s) (hp : 0 < p) : f * s * p / (s * p) = f ∧ f * s * p % (s * p) = 0 := by
  rw [Nat.mul_assoc]
  exact ⟨Nat.mul_div_cancel _ (Nat.mul_pos hs hp), Nat.mul_mod_left _ _⟩

/-- `process_bi_planar_helper` after the offset part -/
theorem planarTailT_spec {ssx p1 size : Nat} {dec : Sl} {off width total : Nat} (hs : 0 < ssx) (hp1 : 0 < p1)
    (hsz : 0 < size) (hoff : off + width = total) (hw : width < U32B) :
    ∃ e, planarTailT ssx p1 size dec width (divCeil width ssx) width off width = some e ∧
      Quiet (Inside dec (total * size)) e := by
  have hdm := Nat.div_add_mod width ssx
  rw [Nat.mul_comm] at hdm
  have hml := Nat.mod_lt width hs
  have hfl : width / ssx * ssx ≤ width := Nat.div_mul_le_self _ _
  have hUS : U32B < USIZE := by decide
  obtain ⟨q1, m1⟩ := mul3_div (width / ssx) ssx p1 hs hp1
  obtain ⟨q2, m2⟩ := mul3_div (width / ssx) ssx size hs hsz
  have hwr : ∀ (a b : Nat), a + b ≤ total → Inside dec (total * size) ⟨dec.buf, dec.off + a * size, b * size⟩ := by
    intro a b hab
    have : (a + b) * size ≤ total * size := Nat.mul_le_mul_right _ hab
    rw [Nat.add_mul] at this
    exact ⟨rfl, by simp only; omega, by simp only; omega⟩
  have qfull : Quiet (Inside dec (total * size))
      (if width / ssx = 0 then [] else [Ev.wr ⟨dec.buf, dec.off + off * size, width / ssx * ssx * size⟩]) := by
    by_cases h0 : width / ssx = 0
    · rw [if_pos h0]; exact Quiet.nil _
    · rw [if_neg h0]; exact Quiet.one (hwr off (width / ssx * ssx) (by omega))
  unfold planarTailT
  rw [div_of_ne (by omega), bind_some', ckU_of_lt (by omega)]
  simp only [bind_some']
  rw [dbgP_of hfl]
  simp only [bind_some']
  rw [TrapUnc.fromBytesT_of ⟨by have := Nat.mul_pos hs hp1; omega, m1⟩, bind_some', q1,
    dbgP_of (div_le_divCeil _ _), bind_some',
    TrapUnc.fromBytesT_of ⟨by have := Nat.mul_pos hs hsz; omega, m2⟩, bind_some', q2,
    dbgP_of (fun x hx => ⟨hx, hx, hx⟩), bind_some', subU_of_le hfl, bind_some']
  by_cases hr : width - width / ssx * ssx > 0
  · rw [if_pos hr, dbgP_of (fun x hx => ⟨by omega, by omega⟩), bind_some',
      dbgP_of (div_lt_divCeil_of_rem (by omega)), bind_some', dbgP_of (fun x hx => ⟨by omega, by omega⟩), bind_some']
    simp only [bind_some', pure_some']
    exact ⟨_, rfl, qfull.append (Quiet.one (hwr (off + width / ssx * ssx) _ (by omega)))⟩
  · rw [if_neg hr]
    simp only [bind_some', pure_some']
    exact ⟨_, rfl, qfull.append (Quiet.nil _)⟩

/-- the contract of a `ProcessBiPlanarFn` (the `debug_assert_eq!`s of :908–914) -/
structure PlPre (ssx p1 p2 size : Nat) (plane1 plane2 dec : Sl) (offset width : Nat) : Prop where
  ssx_pos : 0 < ssx
  p1_pos : 0 < p1
  p2_pos : 0 < p2
  size_pos : 0 < size
  off_lt : offset < ssx
  w_pos : 0 < width
  wsum_lt : offset + width < U32B
  l1 : plane1.len = width * p1
  l2 : plane2.len = divCeil (offset + width) ssx * p2
  ld : dec.len = width * size

/-- **`process_bi_planar_helper`** -/
theorem planarHelperT_spec {ssx p1 p2 size : Nat} {plane1 plane2 dec : Sl} {offset width : Nat}
    (h : PlPre ssx p1 p2 size plane1 plane2 dec offset width) :
    ∃ e, planarHelperT ssx p1 p2 size plane1 plane2 dec offset width = some e ∧ Quiet (WrOK dec) e := by
  obtain ⟨hs, hp1, hp2, hsz, hol, hw, hws, l1, l2, ld⟩ := h
  have q1 : plane1.len / p1 = width := by rw [l1]; exact Nat.mul_div_cancel _ hp1
  have q2 : plane2.len / p2 = divCeil (offset + width) ssx := by rw [l2]; exact Nat.mul_div_cancel _ hp2
  have q3 : dec.len / size = width := by rw [ld]; exact Nat.mul_div_cancel _ hsz
  unfold planarHelperT
  rw [TrapUnc.fromBytesT_of ⟨by omega, by rw [l1]; exact Nat.mul_mod_left _ _⟩, bind_some', q1,
    TrapUnc.fromBytesT_of ⟨by omega, by rw [l2]; exact Nat.mul_mod_left _ _⟩, bind_some', q2,
    TrapUnc.fromBytesT_of ⟨by omega, by rw [ld]; exact Nat.mul_mod_left _ _⟩, bind_some', q3]
  by_cases ho : offset > 0
  · rw [if_pos ho]
    generalize hpw : min (ssx - offset) width = w
    have hw' : 0 < w ∧ w ≤ width ∧ w + offset ≤ ssx := by subst hpw; omega
    have hD := blocks_after_offset (bx := ssx) (width := width) (wo := offset) hs hol hw
    rw [hpw, Nat.add_comm] at hD
    have hD1 : 0 < divCeil (offset + width) ssx := by omega
    have hmod : w % U32B = w := Nat.mod_eq_of_lt (by omega)
    obtain ⟨e, he, q⟩ := planarTailT_spec (ssx := ssx) (p1 := p1) (size := size) (dec := dec) (off := w)
      (width := width - w) (total := width) hs hp1 hsz (by omega) (by omega)
    have hws1 : w * size ≤ width * size := Nat.mul_le_mul_right _ hw'.2.1
    rw [dbgP_of (by omega), bind_some', subU_of_le (by omega), bind_some']
    simp only [hpw]
    rw [dbgP_of (fun x hx => ⟨by omega, by omega⟩), bind_some', dbgP_of hD1]
    simp only [bind_some']
    rw [dbgP_of (fun x hx => ⟨by omega, by omega⟩), bind_some', hmod, subU_of_le hw'.2.1, bind_some', dbgP_of hw'.2.1]
    simp only [bind_some']
    rw [dbgP_of (show 1 ≤ divCeil (offset + width) ssx from hD1)]
    simp only [bind_some']
    rw [hD, Nat.add_sub_cancel, he, bind_some', pure_some', if_neg (by omega)]
    refine ⟨_, rfl, Quiet.append (Quiet.one (Or.inr ⟨rfl, Nat.le_refl _, by simp only; omega⟩))
      (q.mono fun s hs => hs.toWrOK (by omega))⟩
  · rw [if_neg ho]
    have ho0 : offset = 0 := by omega
    subst ho0
    rw [Nat.zero_add]
    obtain ⟨e, he, q⟩ := planarTailT_spec (ssx := ssx) (p1 := p1) (size := size) (dec := dec) (off := 0)
      (width := width) (total := width) hs hp1 hsz (by omega) (by omega)
    exact ⟨e, he, q.mono fun s hs => hs.toWrOK (by omega)⟩

/-! ### `ChannelConversionBuffer::process_bi_planar` -/

/-- the main loop of `process_bi_planar` on `width` pixels that start at a macro-pixel boundary -/
theorem convPlanarMainT_spec {native : Color} {target : Unc.Channels} {ssx p1 p2 bufPx width : Nat}
    {plane1 plane2 out : Sl} (hp : native.psz = 1 ∨ native.psz = 2 ∨ native.psz = 4) (hs : 0 < ssx) (hp1 : 0 < p1)
    (hp1l : p1 < 16) (hp2 : 0 < p2) (hp2l : p2 < 16) (hge : ssx ≤ bufPx) (hfit : bufPx * native.bpp ≤ BUFFER_BYTES)
    (hw : width < U32B) (l1 : plane1.len = width * p1) (l2 : plane2.len = divCeil width ssx * p2)
    (lo : out.len = width * (Color.mk target native.psz).bpp) :
    ∃ e, convPlanarMainT native target ssx p1 p2 native.bpp (Color.mk target native.psz).bpp bufPx plane1 plane2 out width =
        some e ∧ Quiet (WrOK out) e := by
  obtain ⟨f1, f2, f3⟩ := pref_facts hs hge
  have hNb := Color.bpp_bounds native hp
  have hOb := Color.bpp_bounds ⟨target, native.psz⟩ hp
  generalize hO : (Color.mk target native.psz).bpp = O at lo hOb ⊢
  generalize hN : native.bpp = N at hNb hfit ⊢
  unfold convPlanarMainT
  rw [modT_of_ne (by omega), bind_some', subU_of_le (Nat.mod_le _ _), bind_some', dbgP_of (by omega), bind_some']
  generalize hpref : bufPx - bufPx % ssx = pref at f1 f2 f3
  apply forT_quiet
  intro cs hcs
  obtain ⟨k, hk, rfl⟩ := (Addr.mem_stepStarts f1).1 hcs
  obtain ⟨j, rfl⟩ := f3
  generalize hcs' : k * (ssx * j) = cs at hk
  have hcsm : cs = (k * j) * ssx := by rw [← hcs']; ac_rfl
  have hbo : cs / ssx = k * j := by rw [hcsm]; exact Nat.mul_div_cancel _ hs
  generalize hce : min (cs + ssx * j) width = ce
  have hce' : cs < ce ∧ ce ≤ width ∧ ce - cs ≤ ssx * j := by subst hce; omega
  have hdc : divCeil ce ssx = divCeil (ce - cs) ssx + k * j := by
    have := Addr.divCeil_add_mul (ce - cs) (k * j) ssx hs
    have h2 : ce - cs + (k * j) * ssx = ce := by omega
    rwa [h2] at this
  have hdcm : divCeil ce ssx ≤ divCeil width ssx := Stream.divCeil_mono hs hce'.2.1
  have hdcw : divCeil width ssx ≤ width := divCeil_le_self hs
  unfold U32B at hw
  have hUS : (2 : Nat) ^ 44 < USIZE := by decide
  have hB : BUFFER_BYTES < 2 ^ 20 := by decide
  simp only [Nat.reducePow] at hUS hB
  have a1 : cs * p1 ≤ ce * p1 := Nat.mul_le_mul_right _ (by omega)
  have a2 : ce * p1 ≤ width * p1 := Nat.mul_le_mul_right _ hce'.2.1
  have a3 : width * p1 ≤ width * 16 := Nat.mul_le_mul_left _ (by omega)
  have b1 : k * j * p2 ≤ divCeil ce ssx * p2 := Nat.mul_le_mul_right _ (by omega)
  have b2 : divCeil ce ssx * p2 ≤ divCeil width ssx * p2 := Nat.mul_le_mul_right _ hdcm
  have b3 : divCeil width ssx * p2 ≤ width * 16 := Nat.mul_le_mul hdcw (by omega)
  have c1 : cs * O ≤ ce * O := Nat.mul_le_mul_right _ (by omega)
  have c2 : ce * O ≤ width * O := Nat.mul_le_mul_right _ hce'.2.1
  have c3 : width * O ≤ width * 16 := Nat.mul_le_mul_left _ hOb.2
  have d1 : (ce - cs) * N ≤ (ssx * j) * N := Nat.mul_le_mul_right _ hce'.2.2
  have d2 : (ssx * j) * N ≤ bufPx * N := Nat.mul_le_mul_right _ f2
  have d3 : bufPx * 1 ≤ bufPx * N := Nat.mul_le_mul_left _ hNb.1
  have s1 : ce * p1 - cs * p1 = (ce - cs) * p1 := (Nat.sub_mul _ _ _).symm
  have s2 : divCeil ce ssx * p2 - k * j * p2 = divCeil (ce - cs) ssx * p2 := by rw [hdc, Nat.add_mul]; omega
  have s3 : ce * O - cs * O = (ce - cs) * O := (Nat.sub_mul _ _ _).symm
  have hmod : (ce - cs) % U32B = ce - cs := Nat.mod_eq_of_lt (by unfold U32B; omega)
  rw [ckU_of_lt (by omega), bind_some']
  simp only []
  rw [hce, subU_of_le (by omega), bind_some', div_of_ne (by omega), bind_some', hbo, divCeilT_of_ne (by omega), bind_some',
    ckU_of_lt (by omega), bind_some', ckU_of_lt (by omega), bind_some', Sl.range_of ⟨a1, by omega⟩, bind_some',
    ckU_of_lt (by omega), bind_some', ckU_of_lt (by omega), bind_some', Sl.range_of ⟨b1, by omega⟩, bind_some',
    ckU_of_lt (by omega), bind_some', Sl.upto_of (by rw [tmpBuffer_len]; omega), bind_some',
    ckU_of_lt (by omega), bind_some', ckU_of_lt (by omega), bind_some', Sl.range_of ⟨c1, by omega⟩, bind_some', hmod]
  have pre : PlPre ssx p1 p2 N ⟨plane1.buf, plane1.off + cs * p1, ce * p1 - cs * p1⟩
      ⟨plane2.buf, plane2.off + k * j * p2, divCeil ce ssx * p2 - k * j * p2⟩
      ⟨tmpBuffer.buf, tmpBuffer.off, (ce - cs) * N⟩ 0 (ce - cs) :=
    { ssx_pos := hs, p1_pos := hp1, p2_pos := hp2, size_pos := by omega, off_lt := hs, w_pos := by omega,
      wsum_lt := by unfold U32B; omega, l1 := s1, l2 := by rw [Nat.zero_add]; exact s2, ld := rfl }
  obtain ⟨w1, hw1, q1⟩ := planarHelperT_spec pre
  rw [hw1, bind_some', convertChannelsForT_spec hp (n := ce - cs) (by simp only [hN]) (by simp only [hO]; exact s3),
    bind_some', pure_some']
  refine ⟨_, rfl, Quiet.append (q1.mono fun s hs => hs.tmp rfl out) (Quiet.one ?_)⟩
  exact Or.inr ⟨rfl, by simp only; omega, by simp only; omega⟩

/-- **`ChannelConversionBuffer::process_bi_planar`** -/
theorem convPlanarT_spec {native : Color} {target : Unc.Channels} {ssx p1 p2 : Nat} {plane1 plane2 out : Sl}
    {offset width : Nat} (hp : native.psz = 1 ∨ native.psz = 2 ∨ native.psz = 4) (hsl : ssx < 16) (hp1l : p1 < 16)
    (hp2l : p2 < 16) (h : PlPre ssx p1 p2 (Color.mk target native.psz).bpp plane1 plane2 out offset width) :
    ∃ e, convPlanarT native target ssx p1 p2 plane1 plane2 out offset width = some e ∧ Quiet (WrOK out) e := by
  unfold convPlanarT
  by_cases hc : native.ch = target
  · rw [if_pos hc]
    have hcol : (Color.mk target native.psz) = native := by cases native; simp only at hc; subst hc; rfl
    rw [hcol] at h
    exact planarHelperT_spec h
  · rw [if_neg hc]
    obtain ⟨hs, hp1, hp2, hsz, hol, hw, hws, l1, l2, ld⟩ := h
    have hNb := Color.bpp_bounds native hp
    have hOb := Color.bpp_bounds ⟨target, native.psz⟩ hp
    have hge : ssx ≤ BUFFER_BYTES / native.bpp := by
      rw [Nat.le_div_iff_mul_le (by omega)]
      have : ssx * native.bpp ≤ 15 * 16 := Nat.mul_le_mul (by omega) hNb.2
      have : (240 : Nat) ≤ BUFFER_BYTES := by decide
      omega
    have hfit : BUFFER_BYTES / native.bpp * native.bpp ≤ BUFFER_BYTES := Nat.div_mul_le_self _ _
    have hB : BUFFER_BYTES < 2 ^ 20 := by decide
    have hUS : (2 : Nat) ^ 44 < USIZE := by decide
    simp only [Nat.reducePow] at hB hUS
    have hwl : width < U32B := by omega
    unfold U32B at hwl hws
    generalize hO : (Color.mk target native.psz).bpp = O at ld hOb
    have a1 : width * O ≤ width * 16 := Nat.mul_le_mul_left _ hOb.2
    have a2 : width * p1 ≤ width * 16 := Nat.mul_le_mul_left _ (by omega)
    have hdcw : divCeil (offset + width) ssx ≤ offset + width := divCeil_le_self hs
    have a3 : divCeil (offset + width) ssx * p2 ≤ (offset + width) * 16 := Nat.mul_le_mul hdcw (by omega)
    rw [Color.bppT_eq ⟨target, native.psz⟩ hp, bind_some', hO, ckU_of_lt (by omega), bind_some', dbgP_of ld.symm, bind_some',
      ckU_of_lt (by omega), bind_some', dbgP_of l1, bind_some', ck32_of_lt (by unfold U32B; omega), bind_some',
      divCeilT_of_ne (by omega), bind_some', ckU_of_lt (by omega), bind_some', dbgP_of l2, bind_some',
      Color.bppT_eq native hp, bind_some', div_of_ne (by omega), bind_some']
    by_cases ho : offset ≠ 0
    · rw [if_pos ho]
      generalize hpw : min (ssx - offset) width = ow
      have how : 0 < ow ∧ ow ≤ width ∧ ow + offset ≤ ssx := by subst hpw; omega
      have hD := blocks_after_offset (bx := ssx) (width := width) (wo := offset) hs hol hw
      rw [hpw, Nat.add_comm] at hD
      generalize hN : native.bpp = N at hNb hge hfit
      have b1 : ow * p1 ≤ width * p1 := Nat.mul_le_mul_right _ how.2.1
      have b2 : ow * O ≤ width * O := Nat.mul_le_mul_right _ how.2.1
      have b3 : ow * N ≤ BUFFER_BYTES / N * N := Nat.mul_le_mul_right _ (by omega)
      have b4 : p2 ≤ plane2.len := by rw [l2, hD, Nat.succ_mul]; omega
      have e1 : width * p1 - ow * p1 = (width - ow) * p1 := (Nat.sub_mul _ _ _).symm
      have e2 : width * O - ow * O = (width - ow) * O := (Nat.sub_mul _ _ _).symm
      have e3 : plane2.len - p2 = divCeil (width - ow) ssx * p2 := by rw [l2, hD, succ_mul_sub]
      have pre : PlPre ssx p1 p2 N ⟨plane1.buf, plane1.off, ow * p1⟩ ⟨plane2.buf, plane2.off, p2⟩
          ⟨tmpBuffer.buf, tmpBuffer.off, ow * N⟩ offset ow :=
        { ssx_pos := hs, p1_pos := hp1, p2_pos := hp2, size_pos := by omega, off_lt := hol, w_pos := how.1,
          wsum_lt := by unfold U32B; omega, l1 := rfl,
          l2 := by show p2 = divCeil (offset + ow) ssx * p2
                   rw [Addr.divCeil_le_one hs (by omega) (by omega), Nat.one_mul],
          ld := rfl }
      obtain ⟨w1, hw1, q1⟩ := planarHelperT_spec pre
      have hmain := convPlanarMainT_spec (native := native) (target := target) (ssx := ssx) (p1 := p1) (p2 := p2)
        (bufPx := BUFFER_BYTES / N) (width := width - ow)
        (plane1 := ⟨plane1.buf, plane1.off + ow * p1, plane1.len - ow * p1⟩)
        (plane2 := ⟨plane2.buf, plane2.off + p2, plane2.len - p2⟩) (out := ⟨out.buf, out.off + ow * O, out.len - ow * O⟩)
        hp hs hp1 hp1l hp2 hp2l hge (by rw [hN]; exact hfit) (by unfold U32B; omega) (by simp only; rw [l1]; exact e1) e3
        (by simp only [hO]; rw [ld]; exact e2)
      rw [hN, hO] at hmain
      obtain ⟨e, he, q3⟩ := hmain
      rw [subU_of_le (by omega), bind_some']
      simp only [hpw]
      rw [ckU_of_lt (by omega), bind_some', Sl.upto_of (by omega), bind_some', Sl.upto_of b4, bind_some',
        ckU_of_lt (by omega), bind_some', Sl.upto_of (by rw [tmpBuffer_len]; omega), bind_some', ckU_of_lt (by omega),
        bind_some', Sl.upto_of (by omega), bind_some', hw1, bind_some',
        convertChannelsForT_spec hp (n := ow) (by simp only [hN]) (by simp only [hO]), bind_some', subU_of_le how.2.1,
        bind_some', Sl.drop_of (by omega), bind_some', Sl.drop_of b4, bind_some', Sl.drop_of (by omega), bind_some', he,
        bind_some', pure_some']
      refine ⟨_, rfl, Quiet.append (Quiet.append (q1.mono fun s hs => hs.tmp rfl out) (Quiet.one ?_))
        (q3.mono fun s hs => hs.sub rfl (by simp only; omega) (by simp only; omega))⟩
      exact Or.inr ⟨rfl, by simp only; omega, by simp only; omega⟩
    · rw [if_neg ho]
      have ho0 : offset = 0 := by omega
      subst ho0
      rw [Nat.zero_add] at l2
      have := convPlanarMainT_spec (native := native) (target := target) (ssx := ssx) (p1 := p1) (p2 := p2)
        (bufPx := BUFFER_BYTES / native.bpp) (width := width) (plane1 := plane1) (plane2 := plane2) (out := out)
        hp hs hp1 hp1l hp2 hp2l hge hfit (by unfold U32B; omega) l1 l2 (by rw [hO]; exact ld)
      rw [hO] at this
      exact this

/-! ### the two bi-planar loops -/

/-- how a decoder of `bi_planar.rs` instantiates the loops: `BiPlaneInfo` with `u8` fields in the ranges of `Fam.WF` -/
structure PlanarCfg (img : Img) (native : Color) (p1 p2 ssx ssy : Nat) : Prop where
  prec : img.color.psz = native.psz
  p1_pos : 0 < p1
  p1_lt : p1 < 16
  p2_pos : 0 < p2
  p2_lt : p2 < 16
  ssx_pos : 0 < ssx
  ssx_lt : ssx < 16
  ssy_pos : 0 < ssy
  ssy_lt : ssy < 16

theorem PlanarCfg.native_psz {img : Img} {native : Color} {p1 p2 ssx ssy : Nat} (c : PlanarCfg img native p1 p2 ssx ssy)
    (ok : img.Ok) : native.psz = 1 ∨ native.psz = 2 ∨ native.psz = 4 := c.prec ▸ ok.psz

theorem PlanarCfg.color_eq {img : Img} {native : Color} {p1 p2 ssx ssy : Nat} (c : PlanarCfg img native p1 p2 ssx ssy) :
    (Color.mk img.color.ch native.psz) = img.color := by rw [← c.prec]

/-- one output row through `process_bi_planar`: the writes stay inside row `row` of the view -/
theorem convPlanar_row {img : Img} {native : Color} {p1 p2 ssx ssy : Nat} (ok : img.Ok)
    (c : PlanarCfg img native p1 p2 ssx ssy) {line1 uv : Sl} {offset row : Nat} (hrow : row < img.h)
    (ho : offset < ssx) (hws : offset + img.w < U32B) (l1 : line1.len = img.w * p1)
    (l2 : uv.len = divCeil (offset + img.w) ssx * p2) :
    ∃ e, convPlanarT native img.color.ch ssx p1 p2 line1 uv ⟨.out, row * img.pitch, img.w * img.color.bpp⟩ offset img.w =
        some e ∧ Quiet (InRows 0 img.pitch img.h (img.w * img.color.bpp)) e := by
  have pre : PlPre ssx p1 p2 (Color.mk img.color.ch native.psz).bpp line1 uv
      ⟨.out, row * img.pitch, img.w * img.color.bpp⟩ offset img.w :=
    { ssx_pos := c.ssx_pos, p1_pos := c.p1_pos, p2_pos := c.p2_pos,
      size_pos := by have := Color.bpp_bounds ⟨img.color.ch, native.psz⟩ (c.native_psz ok); omega,
      off_lt := ho, w_pos := ok.w_pos, wsum_lt := hws, l1 := l1, l2 := l2, ld := by rw [c.color_eq] }
  obtain ⟨e, he, q⟩ := convPlanarT_spec (c.native_psz ok) c.ssx_lt c.p1_lt c.p2_lt pre
  exact ⟨e, he, q.mono fun s hs => InRows.of_WrOK hs hrow (by simp) (Nat.le_refl _)⟩

theorem planarFullInnerT_spec {img : Img} {native : Color} {p1 p2 ssx ssy : Nat} (ok : img.Ok)
    (c : PlanarCfg img native p1 p2 ssx ssy) (hsurf : img.w * p1 * img.h ≤ I64MAX) {uvLine : Sl}
    (l2 : uvLine.len = divCeil img.w ssx * p2) :
    ∀ (l : List Nat) (y : Nat), y ≤ img.h →
      ∃ e, planarFullInnerT img native ssx p1 p2 (img.w * p1) ⟨.plane1, 0, img.w * p1 * img.h⟩ uvLine l y =
          some (min img.h (y + l.length), e) ∧ Quiet (InRows 0 img.pitch img.h (img.w * img.color.bpp)) e := by
  have hUS : I64MAX < USIZE := by decide
  intro l
  induction l with
  | nil => intro y hy; exact ⟨[], by simp [planarFullInnerT]; omega, Quiet.nil _⟩
  | cons a rest ih =>
    intro y hy
    unfold planarFullInnerT
    by_cases hge : y ≥ img.h
    · rw [if_pos hge]
      have : min img.h (y + (a :: rest).length) = y := by simp only [List.length_cons]; omega
      rw [this]; exact ⟨[], rfl, Quiet.nil _⟩
    · rw [if_neg hge]
      have hy' : y < img.h := by omega
      have m1 : (y + 1) * (img.w * p1) ≤ img.h * (img.w * p1) := Nat.mul_le_mul_right _ (by omega)
      rw [Nat.succ_mul] at m1
      rw [Nat.mul_comm img.h] at m1
      have hhl := ok.h_lt
      have h32 : U32B < USIZE := by decide
      obtain ⟨e, he, q⟩ := convPlanar_row ok c (line1 := ⟨.plane1, 0 + y * (img.w * p1), y * (img.w * p1) + img.w * p1 - y * (img.w * p1)⟩)
        (uv := uvLine) (offset := 0) hy' c.ssx_pos (by have := ok.w_lt; omega) (by simp only; omega)
        (by rw [Nat.zero_add]; exact l2)
      obtain ⟨e', he', q'⟩ := ih (y + 1) (by omega)
      rw [ckU_of_lt (by omega), bind_some', ckU_of_lt (by omega), bind_some', Nat.succ_mul, ckU_of_lt (by omega),
        bind_some', Sl.range_of ⟨by omega, by simp only; omega⟩, bind_some', ok.getRowT hy', bind_some', he, bind_some',
        bind_some', he', bind_some']
      simp only [pure_some']
      refine ⟨_, ?_, q.append q'⟩
      simp only [List.length_cons]
      congr 2; omega

/-- the part of the surface bound `check_likely_overflow` gives that the bi-planar loops need -/
structure PlanarSurf (p1 p2 ssx ssy W H : Nat) : Prop where
  plane1 : W * p1 * H ≤ I64MAX
  plane2 : divCeil W ssx * p2 * divCeil H ssy ≤ I64MAX

/-- **`for_each_bi_planar`**: no trap; trace = C06's `biPlanarFull`; every write inside a row of the view -/
theorem planarFullT_spec {img : Img} {native : Color} {p1 p2 ssx ssy : Nat} (ok : img.Ok)
    (c : PlanarCfg img native p1 p2 ssx ssy) (hs : PlanarSurf p1 p2 ssx ssy img.w img.h) :
    ∃ evs, planarFullT img native p1 p2 ssx ssy = some evs ∧
      ios evs = Stream.biPlanarFull p1 p2 ssx ssy img.w img.h ∧
      Wr (InRows 0 img.pitch img.h (img.w * img.color.bpp)) evs := by
  have hsx := c.ssx_pos
  have hsy := c.ssy_pos
  have hUS : I64MAX < USIZE := by decide
  have hwb : 0 < divCeil img.w ssx := Stream.divCeil_pos ok.w_pos hsx
  have hhb : 0 < divCeil img.h ssy := Stream.divCeil_pos ok.h_pos hsy
  have hbp : 0 < divCeil img.w ssx * p2 := Nat.mul_pos hwb c.p2_pos
  have hbl : divCeil img.w ssx * p2 < USIZE := by
    have : divCeil img.w ssx * p2 * 1 ≤ divCeil img.w ssx * p2 * divCeil img.h ssy := Nat.mul_le_mul_left _ hhb
    have := hs.plane2; omega
  have hp1l : img.w * p1 ≤ img.w * p1 * img.h := Nat.le_mul_of_pos_right _ ok.h_pos
  have hs1 := hs.plane1
  have hmod : ssy % 256 = ssy := Nat.mod_eq_of_lt (by have := c.ssy_lt; omega)
  obtain ⟨lb, hnew, hbpl, inv⟩ := LB.newT_spec hbp hbl hhb
  obtain ⟨e1, he1, i1, w1⟩ := whileLines_spec
    (fun y uvLine => do
      dbgP (y < img.h)
      planarFullInnerT img native ssx p1 p2 (img.w * p1) ⟨.plane1, 0, img.w * p1 * img.h⟩ uvLine (List.range (ssy % 256)) y)
    (Stream.linesInBuffer (divCeil img.w ssx * p2) (divCeil img.h ssy)) (divCeil img.w ssx * p2) (divCeil img.h ssy)
    (fun k y => y = min img.h (k * ssy)) (InRows 0 img.pitch img.h (img.w * img.color.bpp))
    (by
      intro k y line hk hy _ hl
      subst y
      have hkm : k * ssy < img.h := divCeil_lt_mul hsy hk
      obtain ⟨e, he, q⟩ := planarFullInnerT_spec ok c hs1 hl (List.range ssy) (min img.h (k * ssy)) (Nat.min_le_left _ _)
      refine ⟨min img.h (min img.h (k * ssy) + (List.range ssy).length), e, ?_, ?_, q⟩
      · show (do
          dbgP (min img.h (k * ssy) < img.h)
          planarFullInnerT img native ssx p1 p2 (img.w * p1) ⟨.plane1, 0, img.w * p1 * img.h⟩ line
            (List.range (ssy % 256)) (min img.h (k * ssy))) = _
        rw [dbgP_of (by omega), bind_some', hmod, he]
      · rw [List.length_range, Nat.succ_mul]; omega)
    (divCeil img.h ssy + 1) lb 0 (divCeil img.h ssy) 0 0 inv hbpl (by omega) (by omega) (by simp)
  unfold planarFullT
  rw [dbgP_of c.prec, bind_some', divCeilT_of_ne (by omega), bind_some', divCeilT_of_ne (by omega), bind_some',
    ckU_of_lt hbl, bind_some', hnew, bind_some']
  simp only []
  rw [ckU_of_lt (by omega), bind_some', ckU_of_lt (by omega), bind_some']
  rw [he1, bind_some', pure_some']
  refine ⟨_, rfl, ?_, (((Wr.io _ _).append ((Wr.io _ _).append (Wr.io _ _)))).append w1⟩
  simp only [i1, ios, refillsFrom_stream hbp, Stream.biPlanarFull, Stream.lineBufNew_eq hbp hhb,
    List.cons_append, List.nil_append]

theorem planarRectInnerT_spec {img : Img} {native : Color} {p1 p2 ssx ssy : Nat} (ok : img.Ok)
    (c : PlanarCfg img native p1 p2 ssx ssy) {W ox oy : Nat} (hx : ox + img.w ≤ W) (hW : W < U32B)
    (hoy : oy + img.h < U32B) (hsurf : W * p1 * img.h ≤ I64MAX) {uvLine : Sl} (l2 : uvLine.len = divCeil W ssx * p2) :
    ∀ (l : List Nat) (y : Nat), y ≤ oy + img.h →
      ∃ e, planarRectInnerT img ox oy native ssx p1 p2 (W * p1) ⟨.plane1, 0, W * p1 * img.h⟩ uvLine l y =
          some (min (oy + img.h) (y + l.length), e) ∧ Quiet (InRows 0 img.pitch img.h (img.w * img.color.bpp)) e := by
  have hUS : I64MAX < USIZE := by decide
  have h32 : U32B < USIZE := by decide
  have hUSn : 1099511627776 < USIZE := by decide
  have hsx := c.ssx_pos
  let g : Addr.RectGeom := ⟨ssx, 1, ox, 0, img.w, 1⟩
  obtain ⟨b1, b2, b3, b4, b5, b6⟩ := C05.block_range_covers g hsx ok.w_pos
  have b5' : ox / ssx < divCeil (ox + img.w) ssx := b5
  have b6' : divCeil (ox + img.w) ssx - ox / ssx = divCeil (ox % ssx + img.w) ssx := b6
  have hbre : divCeil (ox + img.w) ssx ≤ divCeil W ssx := Stream.divCeil_mono hsx hx
  have hdW : divCeil W ssx ≤ W := divCeil_le_self hsx
  have hp2l := c.p2_lt
  have hp1l := c.p1_lt
  have u1 : ox / ssx * p2 ≤ divCeil (ox + img.w) ssx * p2 := Nat.mul_le_mul_right _ (by omega)
  have u2 : divCeil (ox + img.w) ssx * p2 ≤ divCeil W ssx * p2 := Nat.mul_le_mul_right _ hbre
  have u3 : divCeil W ssx * p2 ≤ W * 16 := Nat.mul_le_mul hdW (by omega)
  have u4 : divCeil (ox + img.w) ssx * p2 - ox / ssx * p2 = divCeil (ox % ssx + img.w) ssx * p2 := by
    rw [← Nat.sub_mul, b6']
  have v1 : (ox + img.w) * p1 ≤ W * p1 := Nat.mul_le_mul_right _ hx
  rw [Nat.add_mul] at v1
  have v2 : W * p1 ≤ W * 16 := Nat.mul_le_mul_left _ (by omega)
  have hml : ox % ssx < ssx := Nat.mod_lt _ hsx
  have hmle : ox % ssx ≤ ox := Nat.mod_le _ _
  intro l
  induction l with
  | nil => intro y hy; exact ⟨[], by simp [planarRectInnerT]; omega, Quiet.nil _⟩
  | cons a rest ih =>
    intro y hy
    unfold planarRectInnerT
    by_cases hlt : y < oy
    · rw [if_pos hlt, ckU_of_lt (by omega), bind_some']
      obtain ⟨e', he', q'⟩ := ih (y + 1) (by have := ok.h_pos; omega)
      refine ⟨e', ?_, q'⟩
      rw [he']; simp only [List.length_cons]; congr 2; omega
    · rw [if_neg hlt, ck32_of_lt hoy, bind_some']
      by_cases hge : y ≥ oy + img.h
      · rw [if_pos hge, pure_some']
        have : min (oy + img.h) (y + (a :: rest).length) = y := by simp only [List.length_cons]; omega
        rw [this]; exact ⟨[], rfl, Quiet.nil _⟩
      · rw [if_neg hge]
        have hd : y - oy < img.h := by omega
        have m1 : (y - oy + 1) * (W * p1) ≤ img.h * (W * p1) := Nat.mul_le_mul_right _ (by omega)
        rw [Nat.succ_mul, Nat.mul_comm img.h] at m1
        unfold U32B at hW hoy
        have hlen : (y - oy) * (W * p1) + ox * p1 + img.w * p1 - ((y - oy) * (W * p1) + ox * p1) = img.w * p1 := by omega
        obtain ⟨e, he, q⟩ := convPlanar_row ok c
          (line1 := ⟨.plane1, 0 + ((y - oy) * (W * p1) + ox * p1),
            (y - oy) * (W * p1) + ox * p1 + img.w * p1 - ((y - oy) * (W * p1) + ox * p1)⟩)
          (uv := ⟨uvLine.buf, uvLine.off + ox / ssx * p2, divCeil (ox + img.w) ssx * p2 - ox / ssx * p2⟩)
          (offset := ox % ssx) hd hml (by unfold U32B; omega) hlen u4
        obtain ⟨e', he', q'⟩ := ih (y + 1) (by omega)
        rw [subU_of_le (by omega), bind_some', ckU_of_lt (by omega), bind_some', ckU_of_lt (by omega), bind_some',
          ckU_of_lt (by omega), bind_some', ckU_of_lt (by omega), bind_some', ckU_of_lt (by omega), bind_some',
          Sl.range_of ⟨by omega, by simp only; omega⟩, bind_some', bind_some', ok.getRowT hd, bind_some',
          div_of_ne (by omega), bind_some', ckU_of_lt (by omega), bind_some', ck32_of_lt (by unfold U32B; omega),
          bind_some', divCeilT_of_ne (by omega), bind_some', ckU_of_lt (by omega), bind_some',
          Sl.range_of ⟨u1, by omega⟩, bind_some', modT_of_ne (by omega), bind_some', he, bind_some',
          ckU_of_lt (by omega), bind_some', he', bind_some']
        simp only [pure_some']
        refine ⟨_, ?_, q.append q'⟩
        simp only [List.length_cons]
        congr 2; omega

/-- **`for_each_bi_planar_rect`**: surface `W × H` whose encoded length passed `check_likely_overflow`, the image is
the rect at `(ox, oy)` inside it -/
theorem planarRectT_spec {img : Img} {native : Color} {p1 p2 ssx ssy : Nat} (ok : img.Ok)
    (c : PlanarCfg img native p1 p2 ssx ssy) {W H ox oy : Nat} (hx : ox + img.w ≤ W) (hy : oy + img.h ≤ H)
    (hW : W < U32B) (hH : H < U32B) (hs : PlanarSurf p1 p2 ssx ssy W H) :
    ∃ evs, planarRectT img W H ox oy native p1 p2 ssx ssy = some evs ∧
      Stream.biPlanarRect p1 p2 ssx ssy W H oy img.h = .ok (ios evs) ∧
      Wr (InRows 0 img.pitch img.h (img.w * img.color.bpp)) evs := by
  have hsx := c.ssx_pos
  have hsy := c.ssy_pos
  have hUS : 2 * I64MAX < USIZE := by decide
  have hhp := ok.h_pos
  have hhl := ok.h_lt
  have hmod : ssy % 256 = ssy := Nat.mod_eq_of_lt (by have := c.ssy_lt; omega)
  -- chroma line accounting
  have hB : oy / ssy < divCeil (oy + img.h) ssy := Stream.div_lt_divCeil hsy hhp
  have hB2 : divCeil (oy + img.h) ssy ≤ divCeil H ssy := Stream.divCeil_mono hsy hy
  have eLines : divCeil H ssy - oy / ssy - (divCeil H ssy - divCeil (oy + img.h) ssy) =
      divCeil (oy + img.h) ssy - oy / ssy := by omega
  generalize hL : divCeil (oy + img.h) ssy - oy / ssy = L at eLines
  have hLp : 0 < L := by omega
  have hyb : oy / ssy * ssy ≤ oy := Nat.div_mul_le_self _ _
  have hwb : 0 < divCeil W ssx := Stream.divCeil_pos (by have := ok.w_pos; omega) hsx
  have hhb : 0 < divCeil H ssy := Stream.divCeil_pos (by omega) hsy
  have h32 : U32B < USIZE := by decide
  have hbp : 0 < divCeil W ssx * p2 := Nat.mul_pos hwb c.p2_pos
  have hs2 := hs.plane2
  have hs1 := hs.plane1
  have hbl : divCeil W ssx * p2 < USIZE := by
    have : divCeil W ssx * p2 * 1 ≤ divCeil W ssx * p2 * divCeil H ssy := Nat.mul_le_mul_left _ hhb
    omega
  have huv : ∀ n, n ≤ divCeil H ssy → n * (divCeil W ssx * p2) ≤ I64MAX := by
    intro n hn
    have : n * (divCeil W ssx * p2) ≤ divCeil H ssy * (divCeil W ssx * p2) := Nat.mul_le_mul_right _ hn
    rw [Nat.mul_comm (divCeil H ssy)] at this; omega
  have hp1 : ∀ n, n ≤ H → W * p1 * n ≤ I64MAX := by
    intro n hn
    have : W * p1 * n ≤ W * p1 * H := Nat.mul_le_mul_left _ hn
    omega
  have hp1b : W * p1 ≤ W * p1 * H := Nat.le_mul_of_pos_right _ (by omega)
  obtain ⟨lb, hnew, hbpl, inv⟩ := LB.newT_spec hbp hbl hLp
  obtain ⟨e1, he1, i1, w1⟩ := whileLines_spec
    (fun y uvLine => do
      dbgP (y < oy + img.h)
      planarRectInnerT img ox oy native ssx p1 p2 (W * p1) ⟨.plane1, 0, W * p1 * img.h⟩ uvLine (List.range (ssy % 256)) y)
    (Stream.linesInBuffer (divCeil W ssx * p2) L) (divCeil W ssx * p2) L
    (fun k y => y = min (oy + img.h) ((oy / ssy + k) * ssy)) (InRows 0 img.pitch img.h (img.w * img.color.bpp))
    (by
      intro k y line hk hyv _ hl
      subst y
      have hkm : (oy / ssy + k) * ssy < oy + img.h := divCeil_lt_mul hsy (by omega)
      obtain ⟨e, he, q⟩ := planarRectInnerT_spec ok c hx hW (by omega) (hp1 img.h (by omega)) hl (List.range ssy)
        (min (oy + img.h) ((oy / ssy + k) * ssy)) (Nat.min_le_left _ _)
      refine ⟨min (oy + img.h) (min (oy + img.h) ((oy / ssy + k) * ssy) + (List.range ssy).length), e, ?_, ?_, q⟩
      · show (do
          dbgP (min (oy + img.h) ((oy / ssy + k) * ssy) < oy + img.h)
          planarRectInnerT img ox oy native ssx p1 p2 (W * p1) ⟨.plane1, 0, W * p1 * img.h⟩ line
            (List.range (ssy % 256)) (min (oy + img.h) ((oy / ssy + k) * ssy))) = _
        rw [dbgP_of (by omega), bind_some', hmod, he]
      · rw [List.length_range, ← Nat.add_assoc, Nat.succ_mul]; omega)
    (L + 1) lb 0 L (oy / ssy * ssy) 0 inv hbpl (by omega) (by omega) (by simp only [Nat.add_zero]; omega)
  obtain k1 := hp1 img.h (by omega)
  obtain k2 := hp1 oy (by omega)
  obtain k3 := hp1 (H - oy - img.h) (by omega)
  obtain k4 := huv (oy / ssy) (by omega)
  obtain k5 := huv (divCeil H ssy - divCeil (oy + img.h) ssy) (by omega)
  unfold planarRectT
  rw [dbgP_of c.prec, bind_some', div_of_ne (by omega), bind_some', divCeilT_of_ne (by omega), ck32_of_lt (by omega)]
  simp only [bind_some']
  rw [divCeilT_of_ne (by omega), bind_some', subU_of_le hB2, bind_some', divCeilT_of_ne (by omega), bind_some',
    subU_of_le (by omega), bind_some', subU_of_le (by omega), bind_some', ckU_of_lt hbl, bind_some',
    ckU_of_lt (by omega), bind_some', if_pos (by omega)]
  simp only [eLines]
  rw [hnew, bind_some']
  simp only []
  rw [ckU_of_lt (by omega), bind_some', subU_of_le (by omega), bind_some', subU_of_le (by omega), bind_some',
    ckU_of_lt (by omega), bind_some', ckU_of_lt (by omega), bind_some', ckU_of_lt (by omega), bind_some', he1, bind_some',
    ckU_of_lt (by omega), bind_some', pure_some']
  refine ⟨_, rfl, ?_, ?_⟩
  · unfold Stream.biPlanarRect
    simp only []
    rw [if_pos (by unfold U64; unfold USIZE at hUS; omega), eLines]
    simp only [ios_append, i1, ios, refillsFrom_stream hbp, Stream.lineBufNew_eq hbp hLp, List.cons_append,
      List.nil_append]
  · exact (((Wr.io _ _).append (Wr.io _ _)).append
      ((Wr.io _ _).append ((Wr.io _ _).append ((Wr.io _ _).append (Wr.io _ _)))) |>.append w1).append (Wr.io _ _)

end Dds.TrapLoops
