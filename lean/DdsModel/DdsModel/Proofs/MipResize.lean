/- Helper lemmas for C16: what one resize step does to a plane (plain and straight-alpha path). -/
import DdsModel.Proofs.MipArith
import DdsModel.Proofs.MipPlan
namespace Dds.Mip

theorem Plane.at_mem (pl : Plane) (i : Nat) (h : i < pl.length) : pl.at i ∈ pl := by
  unfold Plane.at
  rw [List.getD_eq_getElem?_getD, List.getElem?_eq_getElem h]
  exact List.getElem_mem h

/-- the end points are values the precision can hold exactly (any value for `f32`) -/
def Prec.Grid (p : Prec) (lo hi : Rat) : Prop :=
  p = .f32 ∨ ∃ (l h : Nat), lo = (l : Rat) ∧ hi = (h : Rat) ∧ (h : Rat) ≤ p.maxVal

theorem quant_range' (p : Prec) (lo hi v : Rat) (hg : p.Grid lo hi) (h1 : lo ≤ v) (h2 : v ≤ hi) :
    lo ≤ p.quant v ∧ p.quant v ≤ hi := by
  rcases hg with rfl | ⟨l, h, rfl, rfl, hm⟩
  · exact ⟨h1, h2⟩
  · exact quant_range p l h v (Or.inr hm) h1 h2

theorem quant_fix (p : Prec) (c : Rat) (hg : p.Grid c c) : p.quant c = c := by
  obtain ⟨h1, h2⟩ := quant_range' p c c c hg Rat.le_refl Rat.le_refl
  exact Rat.le_antisymm h2 h1

/-- what is assumed of the taps of one resize call -/
structure TapsOK (ts : List Taps) (n m : Nat) : Prop where
  len : ts.length = m
  inRange : ∀ t ∈ ts, t.InRange n
  sum : ∀ t ∈ ts, t.sumW = 1

theorem Kernel.Normalised.ok {K : Kernel} {f : Filter} (h : K.Normalised f) (sw sh dw dh : Nat) :
    TapsOK (K.taps f sw sh dw dh) (sw * sh) (dw * dh) :=
  ⟨(h sw sh dw dh).1, fun t ht => ((h sw sh dw dh).2 t ht).1, fun t ht => ((h sw sh dw dh).2 t ht).2⟩

theorem resizePlane_length (p : Prec) (ts : List Taps) (pl : Plane) : (resizePlane p ts pl).length = ts.length := by
  unfold resizePlane; rw [List.length_map]

/-! ### plain path -/

/-- range clause, one step: convex taps keep every sample inside `[lo, hi]`, rounding included -/
theorem resizePlane_range (p : Prec) (lo hi : Rat) (hg : p.Grid lo hi) (ts : List Taps) (n m : Nat)
    (ok : TapsOK ts n m) (nn : ∀ t ∈ ts, t.NonNeg) (pl : Plane) (hlen : pl.length = n)
    (hv : ∀ v ∈ pl, lo ≤ v ∧ v ≤ hi) : ∀ v ∈ resizePlane p ts pl, lo ≤ v ∧ v ≤ hi := by
  intro v hm
  unfold resizePlane at hm
  obtain ⟨t, ht, rfl⟩ := List.mem_map.mp hm
  have hb := dot_bounds t pl.at lo hi (nn t ht)
    (fun iw hiw _ => hv _ (Plane.at_mem pl iw.1 (by rw [hlen]; exact ok.inRange t ht iw hiw)))
  rw [ok.sum t ht] at hb
  exact quant_range' p lo hi _ hg (by grind) (by grind)

/-- constant clause, one step: normalised taps (negative lobes allowed) reproduce a constant -/
theorem resizePlane_const (p : Prec) (c : Rat) (hg : p.Grid c c) (ts : List Taps) (n m : Nat)
    (ok : TapsOK ts n m) (pl : Plane) (hlen : pl.length = n) (hv : ∀ v ∈ pl, v = c) :
    ∀ v ∈ resizePlane p ts pl, v = c := by
  intro v hm
  unfold resizePlane at hm
  obtain ⟨t, ht, rfl⟩ := List.mem_map.mp hm
  have hd := dot_const t pl.at c
    (fun iw hiw => hv _ (Plane.at_mem pl iw.1 (by rw [hlen]; exact ok.inRange t ht iw hiw)))
  rw [hd, ok.sum t ht]
  have : c * 1 = c := by grind
  rw [this]; exact quant_fix p c hg

/-! ### straight-alpha path -/

theorem castSat_pos (m : Nat) (v : Rat) (h : 0 < castSat m v) : 1 ≤ v := by
  unfold castSat at h
  have h0 : ((0 : Nat) : Rat) < ((min m v.floor.toNat : Nat) : Rat) := by simpa using h
  have h1 : 0 < min m v.floor.toNat := Rat.natCast_lt_natCast.mp h0
  have h2 : (1 : Int) ≤ v.floor := by omega
  have := Rat.le_floor_iff.mp h2
  simpa using this

theorem castSat_nonneg (m : Nat) (v : Rat) : 0 ≤ castSat m v := by
  unfold castSat
  have : ((0 : Nat) : Rat) ≤ ((min m v.floor.toNat : Nat) : Rat) := Rat.natCast_le_natCast.mpr (Nat.zero_le _)
  simpa using this

/-- a visible output pixel (`alpha > 0`) has a positive accumulated alpha; for `u8` at least 1/2,
so the `a < 0.5/255` branch is not taken -/
theorem saAlpha_pos (p : Prec) (accA : Rat) (h : 0 < saAlpha p accA) :
    0 < accA ∧ (p = .u8 → ¬ accA < 1 / 2 / 255) ∧ (p = .u16 → p.quant accA ≠ 0) := by
  cases p with
  | u8 =>
    have := castSat_pos 255 (accA + 1 / 2) h
    exact ⟨by grind, fun _ => by grind, (fun h => nomatch h)⟩
  | u16 =>
    have h' : 0 < castSat 65535 (accA + 1 / 2) := h
    have := castSat_pos 65535 (accA + 1 / 2) h'
    refine ⟨by grind, (fun h => nomatch h), fun _ => ?_⟩
    show castSat 65535 (accA + 1 / 2) ≠ 0
    grind
  | f32 =>
    unfold saAlpha at h
    simp only at h
    by_cases hz : accA ≤ 0
    · rw [if_pos hz] at h; exact absurd h (by grind)
    · exact ⟨by grind, (fun h => nomatch h), (fun h => nomatch h)⟩

theorem mul_one_div_cancel (d : Rat) (hd : d ≠ 0) : d * (1 / d) = 1 := by
  rw [Rat.div_def, Rat.one_mul]; exact Rat.mul_inv_cancel d hd

theorem one_div_pos (d : Rat) (hd : 0 < d) : 0 < 1 / d := by
  have h1 := mul_one_div_cancel d (by grind)
  by_cases h : 0 < 1 / d
  · exact h
  · have h2 : 1 / d ≤ 0 := by grind
    have := Rat.mul_le_mul_of_nonneg_left h2 (Rat.le_of_lt hd)
    rw [h1] at this
    grind

/-- dividing a weighted sum by the (positive) sum of the weights -/
theorem ratio_bounds (lo hi n d : Rat) (hd : 0 < d) (h1 : lo * d ≤ n) (h2 : n ≤ hi * d) :
    lo ≤ n * (1 / d) ∧ n * (1 / d) ≤ hi := by
  have hc := mul_one_div_cancel d (by grind)
  have hp := Rat.le_of_lt (one_div_pos d hd)
  have m1 := Rat.mul_le_mul_of_nonneg_left h1 hp
  have m2 := Rat.mul_le_mul_of_nonneg_left h2 hp
  have e1 : 1 / d * (lo * d) = lo * (d * (1 / d)) := by grind
  have e2 : 1 / d * (hi * d) = hi * (d * (1 / d)) := by grind
  rw [e1, hc] at m1
  rw [e2, hc] at m2
  constructor <;> grind

/-- the premultiplied accumulator as a weighted sum with weights `wᵢ·aᵢ` -/
theorem dot_premul (t : Taps) (c a : Nat → Rat) :
    dot t (fun i => c i * a i) = dot (t.map fun iw => (iw.1, iw.2 * a iw.1)) c := by
  unfold dot
  rw [List.map_map]
  congr 1
  apply List.map_congr_left
  intro iw _
  show iw.2 * (c iw.1 * a iw.1) = iw.2 * a iw.1 * c iw.1
  grind

theorem sumW_premul (t : Taps) (a : Nat → Rat) :
    Taps.sumW (t.map fun iw => (iw.1, iw.2 * a iw.1)) = dot t a := by
  unfold dot Taps.sumW
  rw [List.map_map]; rfl

/-- accumulated premultiplied colour lies between `lo·accA` and `hi·accA`, where only source
pixels with positive alpha need to be inside `[lo, hi]` -/
theorem premul_bounds (t : Taps) (n : Nat) (hr : t.InRange n) (nn : t.NonNeg) (c a : Plane)
    (hc : c.length = n) (ha : a.length = n) (lo hi : Rat) (ha0 : ∀ v ∈ a, 0 ≤ v)
    (hv : ∀ i, i < n → 0 < a.at i → lo ≤ c.at i ∧ c.at i ≤ hi) :
    lo * dot t a.at ≤ dot t (fun i => c.at i * a.at i) ∧
      dot t (fun i => c.at i * a.at i) ≤ hi * dot t a.at := by
  rw [dot_premul, ← sumW_premul t a.at]
  apply dot_bounds
  · intro iw hm
    obtain ⟨jw, hj, rfl⟩ := List.mem_map.mp hm
    exact Rat.mul_nonneg (nn jw hj) (ha0 _ (Plane.at_mem a jw.1 (by rw [ha]; exact hr jw hj)))
  · intro iw hm hpos
    obtain ⟨jw, hj, rfl⟩ := List.mem_map.mp hm
    have hw := nn jw hj
    have hai := ha0 _ (Plane.at_mem a jw.1 (by rw [ha]; exact hr jw hj))
    apply hv jw.1 (hr jw hj)
    by_cases hz : a.at jw.1 = 0
    · rw [hz] at hpos; simp at hpos
    · grind

theorem dot_nonneg : ∀ (t : Taps) (x : Nat → Rat), t.NonNeg → (∀ iw ∈ t, 0 ≤ x iw.1) → 0 ≤ dot t x := by
  intro t x
  unfold dot
  induction t with
  | nil => intro _ _; simp
  | cons y ys ih =>
    intro nn hx
    simp only [List.map_cons, List.sum_cons]
    have h1 := Rat.mul_nonneg (nn y List.mem_cons_self) (hx y List.mem_cons_self)
    have h2 := ih (fun iw h => nn iw (List.mem_cons_of_mem _ h)) (fun iw h => hx iw (List.mem_cons_of_mem _ h))
    grind

theorem accA_nonneg (t : Taps) (n : Nat) (hr : t.InRange n) (nn : t.NonNeg) (a : Plane) (ha : a.length = n)
    (ha0 : ∀ v ∈ a, 0 ≤ v) : 0 ≤ dot t a.at :=
  dot_nonneg t a.at nn (fun iw hiw => ha0 _ (Plane.at_mem a iw.1 (by rw [ha]; exact hr iw hiw)))

end Dds.Mip
