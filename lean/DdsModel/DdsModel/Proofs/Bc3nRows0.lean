/-
BC3n `calc_b` = specification `z8`: rows `r = 0 … 31` (all 256 values of `g` each), by kernel evaluation
of the checker of `Proofs/Bc3nCalc.lean` (GENERATED: the eight files `Bc3nRows0…7` differ only in the range).
-/
import DdsModel.Proofs.Bc3nCalc
namespace Dds.Bc3n
set_option maxRecDepth 100000

theorem chunk0 : rowsChk 0 8 = true := by decide +kernel
theorem chunk8 : rowsChk 8 8 = true := by decide +kernel
theorem chunk16 : rowsChk 16 8 = true := by decide +kernel
theorem chunk24 : rowsChk 24 8 = true := by decide +kernel

theorem rows0 (r g : Nat) (h1 : 0 ≤ r) (h2 : r < 32) (hg : g < 256) : Bc.calcB r g = BcSpec.z8 r g := by
  by_cases a : r < 8
  · exact of_rows 0 8 chunk0 r g (by omega) (by omega) (by omega) hg
  · by_cases b : r < 16
    · exact of_rows 8 8 chunk8 r g (by omega) (by omega) (by omega) hg
    · by_cases c : r < 24
      · exact of_rows 16 8 chunk16 r g (by omega) (by omega) (by omega) hg
      · exact of_rows 24 8 chunk24 r g (by omega) (by omega) (by omega) hg

end Dds.Bc3n
