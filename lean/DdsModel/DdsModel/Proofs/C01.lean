/- Helper lemmas of C01 (composition of the header / layout / iterator / stream models). -/
import DdsModel.Reader
import DdsModel.Theorems.C06
import DdsModel.Theorems.C08
import DdsModel.Theorems.C09
import DdsModel.Theorems.C18
import DdsModel.Proofs.FormatTables
namespace Dds.Reader
open Dds Dds.Stream Dds.C08

/-! ### every `Format` has a decoder family with the format's pixel info -/

/-- `get_decoders(format)` exists in the table, has admissible unit sizes and the unit sizes of
`PixelInfo::from(format)` -/
def famCheck (f : C19.Format) : Bool :=
  match lookupFormat f.name with
  | some fam => decide fam.WF && decide (fam.px = f.row.px)
  | none => false

theorem famCheck_all : ∀ f : C19.Format, famCheck f = true :=
  C19.forall_format (by decide +kernel)

theorem fam_of_format (f : C19.Format) :
    ∃ fam, lookupFormat f.name = some fam ∧ fam.WF ∧ fam.px = f.row.px := by
  have h := famCheck_all f
  unfold famCheck at h
  cases hl : lookupFormat f.name with
  | none => rw [hl] at h; cases h
  | some fam =>
    rw [hl] at h
    simp only [Bool.and_eq_true, decide_eq_true_eq] at h
    exact ⟨fam, rfl, h.1, h.2⟩

/-! ### a fresh iterator of an accepted layout satisfies the iterator invariant
(the `hfresh` part of `C08.new_inv`, which does not need the `i64::MAX` bound) -/

theorem new_iterInv (hd : LayoutHeader) (px : PixelInfo) (hp : px.WF) (hr : C02.HeaderInRange hd)
    (hm : 1 ≤ hd.mipmapCount) (L : DataLayout) (h : layoutOf hd px = some (.ok L)) :
    IterInv (SurfIter.new L) := by
  obtain ⟨hv, _, hmips, hml, hvol, harr⟩ := C02.layoutOf_valid hd px hp hr L h
  cases L with
  | texture t =>
    obtain ⟨tv, h0⟩ := hv
    have hf := tv.fits
    rw [h0] at hf
    exact ⟨tv.wf, h0, by show 1 ≤ t.mips; rw [show t.mips = hd.mipmapCount from hmips]; exact hm,
      by show t.mips < 256; rw [show t.mips = hd.mipmapCount from hmips]; exact hml,
      by simp [U32], by simpa using hf, tv.len_lt, tv.short,
      Or.inl ⟨by show 0 < 1; omega, by show 0 < t.mips; rw [show t.mips = hd.mipmapCount from hmips]; omega⟩⟩
  | volume v =>
    obtain ⟨hdep, hdpos⟩ := hvol v rfl
    exact ⟨hv, by show 1 ≤ v.mips; rw [show v.mips = hd.mipmapCount from hmips]; exact hm,
      by show v.mips < 256; rw [show v.mips = hd.mipmapCount from hmips]; exact hml,
      hr.d _ hdep, hdpos,
      Or.inl ⟨by show 0 < v.mips; rw [show v.mips = hd.mipmapCount from hmips]; omega,
        mipSize_pos _ _⟩⟩
  | textureArray a =>
    have hal := harr a rfl
    have hmod : a.arrayLen % U32 = a.arrayLen := Nat.mod_eq_of_lt hal
    show TexIter.Inv ⟨a.first, a.arrayLen % U32, 0, 0⟩
    rw [hmod]
    refine ⟨hv.wf, rfl, by show 1 ≤ a.mips; rw [show a.mips = hd.mipmapCount from hmips]; exact hm,
      by show a.mips < 256; rw [show a.mips = hd.mipmapCount from hmips]; exact hml,
      hal, hv.fits, hv.tex, hv.short, ?_⟩
    by_cases h0 : a.arrayLen = 0
    · exact Or.inr ⟨by show 0 = a.arrayLen; omega, rfl⟩
    · exact Or.inl ⟨by show 0 < a.arrayLen; omega,
        by show 0 < a.mips; rw [show a.mips = hd.mipmapCount from hmips]; omega⟩

theorem wf_mips {h : Header} (hwf : h.WF) : 1 ≤ h.toLayoutHeader.mipmapCount := by
  cases h with
  | dx9 x => obtain ⟨_, _, _, hm, _⟩ := hwf; exact hm
  | dx10 x => obtain ⟨_, _, _, hm, _⟩ := hwf; exact hm

/-! ### no decoder call panics, for any stream -/

theorem ofRes_ne_panic {r : Res} (h : r ∈ [Res.ok, .ioError, .memLimit, .rectOutOfBounds]) :
    ofRes r ≠ .panic := by
  simp only [List.mem_cons, List.not_mem_nil, or_false] at h
  rcases h with h | h | h | h <;> rw [h] <;> simp [ofRes]

theorem decodeCall_ne_panic (k : Cfg) (hf : k.fam.WF) (c : Colour) (call : Call) (s : RS) :
    (decodeCall k c call s).1 ≠ .panic :=
  ofRes_ne_panic (C06.result_kinds hf c call k.env [] s.pos s.limit)

theorem readSurface_inv (k : Cfg) (hf : k.fam.WF) (s : RS) (v : IterInv s.iter) (w h : Nat) (c : Colour) :
    IterInv (readSurface k s w h c).1.iter ∧ (readSurface k s w h c).2 ≠ .panic := by
  unfold readSurface
  obtain ⟨r, hr, _⟩ := current_total s.iter v
  rw [hr]
  cases r with
  | none => exact ⟨v, by simp⟩
  | some cur =>
    simp only
    by_cases h1 : normSize w h ≠ (cur.w, cur.h)
    · rw [if_pos h1]; exact ⟨v, by simp⟩
    · rw [if_neg h1]
      have hd := decodeCall_ne_panic k hf c (.full (normSize w h).1 (normSize w h).2) s
      obtain ⟨it', ha, hi, _⟩ := advance_refines s.iter v
      generalize decodeCall k c (.full (normSize w h).1 (normSize w h).2) s = r at hd
      obtain ⟨r1, p⟩ := r
      simp only at hd ⊢
      cases r1 with
      | ok => simp only [ha]; exact ⟨hi, by simp⟩
      | panic => exact absurd rfl hd
      | io => exact ⟨v, by simp⟩
      | noMoreSurfaces => exact ⟨v, by simp⟩
      | unexpectedSurfaceSize => exact ⟨v, by simp⟩
      | rectOutOfBounds => exact ⟨v, by simp⟩
      | cannotSkipMipmapsInVolume => exact ⟨v, by simp⟩
      | notACubeMap => exact ⟨v, by simp⟩
      | memoryLimitExceeded => exact ⟨v, by simp⟩

theorem readRect_inv (k : Cfg) (hf : k.fam.WF) (s : RS) (v : IterInv s.iter) (ox oy w h : Nat) (c : Colour) :
    IterInv (readRect k s ox oy w h c).1.iter ∧ (readRect k s ox oy w h c).2 ≠ .panic := by
  unfold readRect
  obtain ⟨r, hr, _⟩ := current_total s.iter v
  rw [hr]
  cases r with
  | none => exact ⟨v, by simp⟩
  | some cur =>
    simp only
    have hd := decodeCall_ne_panic k hf c (.rect cur.w cur.h ox oy (normSize w h).1 (normSize w h).2) s
    obtain ⟨it', ha, hi, _⟩ := advance_refines s.iter v
    generalize decodeCall k c (.rect cur.w cur.h ox oy (normSize w h).1 (normSize w h).2) s = r at hd
    obtain ⟨r1, p⟩ := r
    simp only at hd ⊢
    cases r1 with
    | ok => simp only [ha]; exact ⟨hi, by simp⟩
    | panic => exact absurd rfl hd
    | io => exact ⟨v, by simp⟩
    | noMoreSurfaces => exact ⟨v, by simp⟩
    | unexpectedSurfaceSize => exact ⟨v, by simp⟩
    | rectOutOfBounds => exact ⟨v, by simp⟩
    | cannotSkipMipmapsInVolume => exact ⟨v, by simp⟩
    | notACubeMap => exact ⟨v, by simp⟩
    | memoryLimitExceeded => exact ⟨v, by simp⟩

theorem skipSurface_inv (k : Cfg) (s : RS) (v : IterInv s.iter) :
    IterInv (skipSurface k s).1.iter ∧ (skipSurface k s).2 ≠ .panic := by
  unfold skipSurface
  obtain ⟨r, hr, _⟩ := current_total s.iter v
  rw [hr]
  cases r with
  | none => exact ⟨v, by simp⟩
  | some cur =>
    simp only
    obtain ⟨it', ha, hi, _⟩ := advance_refines s.iter v
    by_cases hs : (skipExact k.env s.pos cur.len).1 = true
    · rw [if_pos hs]; simp only [ha]; exact ⟨hi, by simp⟩
    · rw [if_neg hs]; exact ⟨v, by simp⟩

theorem skipMipmaps_inv (k : Cfg) (s : RS) (v : IterInv s.iter) :
    IterInv (skipMipmaps k s).1.iter ∧ (skipMipmaps k s).2 ≠ .panic := by
  unfold skipMipmaps
  cases skipMipmaps_refines s.iter v with
  | inl h => rw [h]; exact ⟨v, by simp⟩
  | inr h =>
    obtain ⟨it', n, h0, hi, _⟩ := h
    rw [h0]
    refine ⟨hi, ?_⟩
    simp only
    split <;> simp

theorem cubeLoop_inv (k : Cfg) (hf : k.fam.WF) (faces fw fh : Nat) (c : Colour) :
    ∀ (l : List (Nat × Nat × Nat)) (s : RS), IterInv s.iter →
      IterInv (cubeLoop k faces fw fh c l s).1.iter ∧ (cubeLoop k faces fw fh c l s).2 ≠ .panic := by
  intro l
  induction l with
  | nil => intro s v; exact ⟨v, by simp [cubeLoop]⟩
  | cons x rest ih =>
    intro s v
    obtain ⟨bit, cx, cy⟩ := x
    unfold cubeLoop
    by_cases hfc : (!hasFace faces bit) = true
    · rw [if_pos hfc]; exact ih s v
    · rw [if_neg hfc]
      obtain ⟨r, hr, _⟩ := current_total s.iter v
      rw [hr]
      cases r with
      | none => exact ⟨v, by simp⟩
      | some cur =>
        simp only
        by_cases hs : (cur.w, cur.h) ≠ (fw, fh)
        · rw [if_pos hs]; exact ⟨v, by simp⟩
        · rw [if_neg hs]
          obtain ⟨h1, h2⟩ := readSurface_inv k hf s v fw fh c
          generalize readSurface k s fw fh c = rd at h1 h2
          obtain ⟨s1, r1⟩ := rd
          simp only at h1 h2
          cases r1 with
          | ok =>
            simp only
            obtain ⟨h3, h4⟩ := skipMipmaps_inv k s1 h1
            generalize skipMipmaps k s1 = sk at h3 h4
            obtain ⟨s2, r2⟩ := sk
            simp only at h3 h4
            cases r2 with
            | ok => simp only; exact ih s2 h3
            | panic => exact absurd rfl h4
            | io => exact ⟨h3, by simp⟩
            | noMoreSurfaces => exact ⟨h3, by simp⟩
            | unexpectedSurfaceSize => exact ⟨h3, by simp⟩
            | rectOutOfBounds => exact ⟨h3, by simp⟩
            | cannotSkipMipmapsInVolume => exact ⟨h3, by simp⟩
            | notACubeMap => exact ⟨h3, by simp⟩
            | memoryLimitExceeded => exact ⟨h3, by simp⟩
          | panic => exact absurd rfl h2
          | io => exact ⟨h1, by simp⟩
          | noMoreSurfaces => exact ⟨h1, by simp⟩
          | unexpectedSurfaceSize => exact ⟨h1, by simp⟩
          | rectOutOfBounds => exact ⟨h1, by simp⟩
          | cannotSkipMipmapsInVolume => exact ⟨h1, by simp⟩
          | notACubeMap => exact ⟨h1, by simp⟩
          | memoryLimitExceeded => exact ⟨h1, by simp⟩

theorem readCubeMap_inv (k : Cfg) (hf : k.fam.WF) (s : RS) (v : IterInv s.iter) (w h : Nat) (c : Colour) :
    IterInv (readCubeMap k s w h c).1.iter ∧ (readCubeMap k s w h c).2 ≠ .panic := by
  unfold readCubeMap
  cases hL : k.layout with
  | texture t => exact ⟨v, by simp⟩
  | volume t => exact ⟨v, by simp⟩
  | textureArray a =>
    simp only
    cases a.kind with
    | textures => exact ⟨v, by simp⟩
    | cubeMaps =>
      simp only
      split
      · exact ⟨v, by simp⟩
      · exact cubeLoop_inv k hf _ _ _ c _ s v
    | partialCubeMap f =>
      simp only
      split
      · exact ⟨v, by simp⟩
      · exact cubeLoop_inv k hf _ _ _ c _ s v

/-- every call of C01's list keeps the iterator invariant and does not panic, whatever the stream -/
theorem step_inv (k : Cfg) (hf : k.fam.WF) (s : RS) (v : IterInv s.iter) (op : Op)
    (hop : op.inC01 = true) : IterInv (step k s op).1.iter ∧ (step k s op).2 ≠ .panic := by
  cases op with
  | read w h c => exact readSurface_inv k hf s v w h c
  | rect ox oy w h c => exact readRect_inv k hf s v ox oy w h c
  | skipSurface => exact skipSurface_inv k s v
  | skipMipmaps => exact skipMipmaps_inv k s v
  | cube w h c => exact readCubeMap_inv k hf s v w h c
  | setLimit l => exact ⟨v, by simp [step]⟩
  | rewindPrev => cases hop
  | rewindStart => cases hop

/-! ### a full decode on a stream that ends inside the surface -/

def noSkip : List Stream.Op → Prop
  | [] => True
  | .skip _ :: _ => False
  | _ :: t => noSkip t

theorem noSkip_append : ∀ {a b : List Stream.Op}, noSkip a → noSkip b → noSkip (a ++ b)
  | [], _, _, hb => hb
  | .skip _ :: _, _, ha, _ => ha.elim
  | .read _ :: t, _, ha, hb => noSkip_append (a := t) ha hb
  | .alloc _ :: t, _, ha, hb => noSkip_append (a := t) ha hb
  | .panic :: t, _, ha, hb => noSkip_append (a := t) ha hb

theorem noSkip_replicate_read (k m : Nat) : noSkip (List.replicate k (.read m)) := by
  induction k with
  | zero => trivial
  | succ k ih => simpa [List.replicate_succ, noSkip] using ih

theorem noSkip_refills (bpl lines : Nat) : noSkip (refills bpl lines) := by
  unfold refills
  exact noSkip_append (noSkip_replicate_read _ _) (by split <;> trivial)

theorem noSkip_lineBufNew (bpl lines : Nat) : noSkip (lineBufNew bpl lines) := by
  unfold lineBufNew; split <;> trivial

/-- a full decode never seeks -/
theorem noSkip_fullOps (f : Fam) (c : Colour) (w h : Nat) : noSkip (fullOps f c w h) := by
  cases f with
  | pixel bpp fast =>
    unfold fullOps
    simp only
    split
    · trivial
    · exact noSkip_append (noSkip_lineBufNew _ _) (noSkip_refills _ _)
  | block bw bh bpb =>
    unfold fullOps blockFull
    simp only
    exact noSkip_append (noSkip_append (by split <;> trivial) (noSkip_lineBufNew _ _)) (noSkip_refills _ _)
  | biPlanar e1 e2 sx sy =>
    unfold fullOps biPlanarFull
    simp only
    exact noSkip_append (noSkip_append (noSkip_lineBufNew _ _) trivial) (noSkip_refills _ _)

/-- reads only, and the first unreadable offset (end of the stream, hard error or early end of file)
lies inside the bytes the reads add up to: I/O error -/
theorem interp_short (e : Env) (hok : ∀ n, e.allocOk n = true) :
    ∀ (ops : List Stream.Op) (ps : List (List Nat)) (st : St), noPanic ops → noSkip ops →
      need ops ≤ st.budget → st.pos ≤ e.lim → e.lim < st.pos + span ops →
      (interp e ps ops st).1 = .ioError := by
  intro ops
  induction ops with
  | nil => intro ps st _ _ _ h1 h; simp only [span] at h; omega
  | cons o ops ih =>
    intro ps st hnp hns hneed hpos hshort
    cases o with
    | panic => exact hnp.elim
    | skip n => exact hns.elim
    | alloc n =>
      have hneed' : n + need ops ≤ st.budget := by simpa [need] using hneed
      have hmod : n % U64 ≤ n := Nat.mod_le _ _
      rw [interp_alloc e hok ps n ops st (by omega)]
      exact ih ps { st with budget := st.budget - n % U64, calls := n % U64 :: st.calls } hnp hns
        (by show need ops ≤ st.budget - n % U64; omega) hpos (by simpa [span] using hshort)
    | read n =>
      have hneed' : need ops ≤ st.budget := by simpa [need] using hneed
      simp only [span] at hshort
      rw [interp_read]
      by_cases hr : (readSpec e st.pos n).1 = true
      · have hp := readSpec_true hr
        rw [if_pos hr, hp.1]
        exact ih ps.tail (st.moved (st.pos + n) .read) hnp hns hneed' (by rw [moved_pos]; omega)
          (by rw [moved_pos]; omega)
      · rw [if_neg hr]

end Dds.Reader

namespace Dds.Reader
open Dds Dds.Stream

/-! ### bytes → words, pinned pixel infos -/

theorem leWords_lt : ∀ (n : Nat) (bs : List Nat), bs.length ≤ n → (∀ b ∈ bs, b < 256) →
    ∀ w ∈ leWords bs, w < U32 := by
  intro n
  induction n with
  | zero =>
    intro bs hl _ w hw
    have : bs = [] := List.eq_nil_of_length_eq_zero (by omega)
    subst this; simp [leWords] at hw
  | succ n ih =>
    intro bs hl hb w hw
    match bs, hl, hb, hw with
    | [], _, _, hw => simp [leWords] at hw
    | [_], _, _, hw => simp [leWords] at hw
    | [_, _], _, _, hw => simp [leWords] at hw
    | [_, _, _], _, _, hw => simp [leWords] at hw
    | b0 :: b1 :: b2 :: b3 :: rest, hl, hb, hw =>
      simp only [leWords, List.mem_cons] at hw
      rcases hw with hw | hw
      · have h0 := hb b0 (by simp)
        have h1 := hb b1 (by simp)
        have h2 := hb b2 (by simp)
        have h3 := hb b3 (by simp)
        subst hw; unfold U32; omega
      · exact ih rest (by simp only [List.length_cons] at hl; omega)
          (fun b hm => hb b (by simp [hm])) w hw

/-- every pixel info `PixelInfo::from_header` can return is well-formed -/
theorem pixelInfoOf_wf (h : Header) (px : PixelInfo) (hp : pixelInfoOf h = some px) : px.WF := by
  cases h with
  | dx9 x =>
    simp only [pixelInfoOf] at hp
    cases hpf : x.pixelFormat with
    | fourCC c =>
      rw [hpf] at hp
      simp only at hp
      cases hf : fourCCToSupported c with
      | none => rw [hf] at hp; cases hp
      | some f =>
        rw [hf] at hp
        exact C18.pinned_pixel_infos_wf.2 f (Format.mem_all f) px hp
    | mask m =>
      rw [hpf] at hp
      simp only [Option.some.injEq] at hp
      subst hp
      cases m.rgbBitCount <;> decide
  | dx10 x =>
    simp only [pixelInfoOf, dxgiPixelInfo] at hp
    cases hr : dxgiRow? x.dxgiFormat with
    | none => rw [hr] at hp; cases hp
    | some row =>
      rw [hr] at hp
      have hmem : row ∈ dxgiRows := List.mem_of_find?_eq_some hr
      exact C18.pinned_pixel_infos_wf.1 row hmem px hp

end Dds.Reader
