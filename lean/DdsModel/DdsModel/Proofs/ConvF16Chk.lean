/-
Checkers for the kernel evaluation of `n16::f32`, `s16::uf32` and `fp16::{f32,n8,n16}` over their whole 16-bit
domains (`Proofs/ConvF16Rows*.lean` run them by `decide +kernel`), and what a successful run means in terms of
the model (`Conv.lean`) and the specification (`ConvSpec.lean`).
-/
import DdsModel.Proofs.ConvFastConv
namespace Dds.ConvFast
open Dds Dds.CF32 Dds.Spec Dds.Conv
open Dds.F32.Raw (lz lz_eq nadd nsub nmul ndiv nmod npow nshl cond_ble cond_blt cond_beq ble_dec blt_dec beq_dec cond_dec)

/-- `p` holds on `[x, x + n)`; the kernel runs this as a loop (no list is built) -/
def scan (p : Nat → Bool) : Nat → Nat → Bool
  | 0, _ => true
  | n + 1, x => p x && scan p n (Nat.succ x)

theorem scan_sound (p : Nat → Bool) : ∀ n lo, scan p n lo = true → ∀ x, lo ≤ x → x < lo + n → p x = true
  | 0, lo, _, x, h1, h2 => by omega
  | n + 1, lo, h, x, h1, h2 => by
    simp only [scan, Bool.and_eq_true] at h
    by_cases hx : x = lo
    · rw [hx]; exact h.1
    · exact scan_sound p n (Nat.succ lo) h.2 x (by omega) (by omega)

/-! ### `n16::f32` -/

def chkN16 (v : Nat) : Bool := Nat.beq (n16R v) (rndR v 65535)

theorem chkN16_sound (v : Nat) (h : chkN16 v = true) : n16f32 v = roundF32 (unorm 16 v) := by
  unfold chkN16 at h
  rw [← n16R_eq, unorm16_eq, ← rndR_eq]
  exact Nat.eq_of_beq_eq_true h

/-! ### `s16::uf32` -/

def chkS16 (v : Nat) : Bool := Nat.beq (s16R v) (rndR (s16normR v) 65534)

theorem chkS16_sound (v : Nat) (hv : v < 65536) (h : chkS16 v = true) : s16f32 v = roundF32 (snorm 16 v) := by
  unfold chkS16 at h
  rw [← s16R_eq, snorm16_eq v hv, ← rndR_eq, ← s16normR_eq]
  exact Nat.eq_of_beq_eq_true h

/-! ### `fp16`: the non-negative finite halves `y < 0x7C00` (31 744 values), all three precisions -/

/-- the four halves `0x3801 … 0x3804` whose 16-bit code comes out one too high -/
def devR (y : Nat) : Nat := cond (Nat.ble 14337 y && Nat.ble y 14340) 1 0

def chkHalf (y : Nat) : Bool :=
  lz (Nat.div y 1024) fun exp => lz (Nat.mod y 1024) fun mant =>
  lz (hMagN exp mant) fun N => lz (hMagD exp) fun D =>
    Nat.beq (hF32 exp mant) (rndR N D) && Nat.beq (hN8 exp mant) (codeR 255 N D) &&
      Nat.beq (hN16 exp mant) (Nat.add (codeR 65535 N D) (devR y))

theorem chkHalf_sound (y : Nat) (h : chkHalf y = true) :
    hF32 (y / 1024) (y % 1024) = roundF32 (mkRat (hMagN (y / 1024) (y % 1024)) (hMagD (y / 1024))) ∧
    ((hN8 (y / 1024) (y % 1024) : Nat) : Int) = toCode 255 (mkRat (hMagN (y / 1024) (y % 1024)) (hMagD (y / 1024))) ∧
    ((hN16 (y / 1024) (y % 1024) : Nat) : Int) =
      toCode 65535 (mkRat (hMagN (y / 1024) (y % 1024)) (hMagD (y / 1024))) + (if 14337 ≤ y ∧ y ≤ 14340 then 1 else 0) := by
  unfold chkHalf at h
  simp only [lz_eq, Bool.and_eq_true, ndiv, nmod] at h
  obtain ⟨⟨h1, h2⟩, h3⟩ := h
  have hD := hMagD_ne (y / 1024)
  refine ⟨?_, ?_, ?_⟩
  · rw [← rndR_eq]; exact Nat.eq_of_beq_eq_true h1
  · rw [toCode_mkRat _ _ _ hD, Nat.eq_of_beq_eq_true h2]
  · rw [toCode_mkRat _ _ _ hD, Nat.eq_of_beq_eq_true h3, nadd, Int.natCast_add]
    congr 1
    unfold devR
    rw [ble_dec, ble_dec, ← Bool.decide_and, cond_dec]
    split <;> rfl

end Dds.ConvFast
