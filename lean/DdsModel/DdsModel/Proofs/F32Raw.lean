/-
Kernel-friendly versions of the integer float operations of `Proofs/F32Fast.lean`.

The kernel evaluates `Nat.add`, `Nat.mul`, `Nat.div`, `Nat.log2`, … on literals with GMP, but every type-class
layer (`HAdd.hAdd → Add.add → Nat.add`), every `Decidable` instance and all `Int` arithmetic is unfolded
step by step.  The definitions here are written with the primitives directly (`Nat.add`, `Nat.ble`, `cond`),
exponents are kept as biased natural numbers, `Nat.log2` (not accelerated) is replaced by the checked binary
search `Fast.lg`, and intermediate values are shared by β-redexes (`lz`).  Each is proved equal to the
corresponding `Fast`/`F32` operation for ALL arguments: where the cheap formula needs a side condition
(non-negative operands, denominators below `2^400`) the definition tests it and otherwise falls back to the
general operation, so no range hypotheses leak into the statements.
-/
import DdsModel.Proofs.F32Fast
namespace Dds.F32.Raw
open Dds.F32

/-- sharing by a β-redex: the kernel substitutes the unevaluated `x`, evaluates it at its first use and finds
the result in its cache afterwards -/
def lz {α : Type} (x : Nat) (f : Nat → α) : α := f x
theorem lz_eq {α : Type} (x : Nat) (f : Nat → α) : lz x f = f x := id rfl

/-! ### primitives ↔ notation -/
theorem nadd (a b : Nat) : Nat.add a b = a + b := rfl
theorem nsub (a b : Nat) : Nat.sub a b = a - b := rfl
theorem nmul (a b : Nat) : Nat.mul a b = a * b := rfl
theorem ndiv (a b : Nat) : Nat.div a b = a / b := rfl
theorem nmod (a b : Nat) : Nat.mod a b = a % b := rfl
theorem npow (a b : Nat) : Nat.pow a b = a ^ b := rfl
theorem nshl (a b : Nat) : Nat.shiftLeft a b = a <<< b := rfl
theorem cond_ble {α : Type} (a b : Nat) (x y : α) : cond (Nat.ble a b) x y = if a ≤ b then x else y := by
  cases h : Nat.ble a b
  · have : ¬ a ≤ b := by rw [← Nat.ble_eq]; simp [h]
    rw [if_neg this]; rfl
  · rw [if_pos (Nat.ble_eq.mp h)]; rfl
theorem cond_blt {α : Type} (a b : Nat) (x y : α) : cond (Nat.blt a b) x y = if a < b then x else y := by
  cases h : Nat.blt a b
  · have : ¬ a < b := by rw [← Nat.blt_eq]; simp [h]
    rw [if_neg this]; rfl
  · rw [if_pos (Nat.blt_eq.mp h)]; rfl
theorem cond_beq {α : Type} (a b : Nat) (x y : α) : cond (Nat.beq a b) x y = if a = b then x else y := by
  cases h : Nat.beq a b
  · have : ¬ a = b := Nat.ne_of_beq_eq_false h
    rw [if_neg this]; rfl
  · rw [if_pos (Nat.eq_of_beq_eq_true h)]; rfl

theorem ble_dec (a b : Nat) : Nat.ble a b = decide (a ≤ b) := by
  cases h : Nat.ble a b
  · have : ¬ a ≤ b := by rw [← Nat.ble_eq]; simp [h]
    simp [this]
  · simp [Nat.ble_eq.mp h]
theorem blt_dec (a b : Nat) : Nat.blt a b = decide (a < b) := by
  cases h : Nat.blt a b
  · have : ¬ a < b := by rw [← Nat.blt_eq]; simp [h]
    simp [this]
  · simp [Nat.blt_eq.mp h]
theorem beq_dec (a b : Nat) : Nat.beq a b = decide (a = b) := by
  cases h : Nat.beq a b
  · simp [Nat.ne_of_beq_eq_false h]
  · simp [Nat.eq_of_beq_eq_true h]
theorem cond_dec {α : Type} (p : Prop) [Decidable p] (x y : α) : cond (decide p) x y = if p then x else y := by
  by_cases h : p <;> simp [h]

/-! ### `roundF32Q` with a biased natural exponent -/

/-- the part of `roundF32Q` after the scaling: round `num/den` to an integer (ties to even), add the
biased exponent, saturate to infinity -/
def fin (num den bexp : Nat) : Nat :=
  let q := num / den
  let r := num % den
  let m := if 2 * r > den ∨ (2 * r = den ∧ q % 2 = 1) then q + 1 else q
  let bits := bexp * 8388608 + m
  if bits ≥ 0x7F800000 then 0x7F800000 else bits

theorem roundF32Q_fin (n d : Nat) : roundF32Q n d =
    if n = 0 then 0 else
    let ee : Int := if ilog2Q n d < -126 then -126 else ilog2Q n d
    fin (if 23 - ee ≥ 0 then n <<< (23 - ee).toNat else n) (if 23 - ee ≥ 0 then d else d <<< (-(23 - ee)).toNat)
      (ee + 126).toNat := rfl

/-- `ilog2Q n d + 400` -/
def ilogB (n d : Nat) : Nat :=
  let E0 := Nat.log2 n + 400 - Nat.log2 d
  let ge := if 400 ≤ E0 then decide (d <<< (E0 - 400) ≤ n) else decide (d ≤ n <<< (400 - E0))
  if ge then E0 else E0 - 1

theorem ilogB_eq (n d : Nat) (hd : Nat.log2 d ≤ 399) : (ilogB n d : Int) = ilog2Q n d + 400 := by
  unfold ilogB ilog2Q geTwoPow
  simp only
  generalize Nat.log2 n = ln at *
  generalize Nat.log2 d = ld at *
  have h0 : ((ln : Int) - (ld : Int) ≥ 0) ↔ 400 ≤ ln + 400 - ld := by omega
  have h1 : ((ln : Int) - (ld : Int)).toNat = ln + 400 - ld - 400 := by omega
  have h2 : (-((ln : Int) - (ld : Int))).toNat = 400 - (ln + 400 - ld) := by omega
  rw [h1, h2]
  simp only [h0]
  by_cases h400 : 400 ≤ ln + 400 - ld
  · simp only [h400, if_true]
    generalize decide (d <<< (ln + 400 - ld - 400) ≤ n) = b
    cases b <;> simp <;> omega
  · simp only [h400, if_false]
    generalize decide (d ≤ n <<< (400 - (ln + 400 - ld))) = b
    cases b <;> simp <;> omega

/-- `roundF32Q` with natural-number exponents (bias 400) -/
def rqN (n d : Nat) : Nat :=
  if n = 0 then 0 else
  let E := ilogB n d
  let EE := if E < 274 then 274 else E
  fin (if EE ≤ 423 then n <<< (423 - EE) else n) (if EE ≤ 423 then d else d <<< (EE - 423)) (EE - 274)

theorem rqN_eq (n d : Nat) (hd : Nat.log2 d ≤ 399) : rqN n d = roundF32Q n d := by
  rw [roundF32Q_fin]
  unfold rqN
  have hE := ilogB_eq n d hd
  generalize ilogB n d = E at hE
  generalize ilog2Q n d = e at hE
  by_cases hn : n = 0
  · rw [if_pos hn, if_pos hn]
  · rw [if_neg hn, if_neg hn]
    simp only
    have c1 : (e < -126) ↔ E < 274 := by omega
    simp only [c1]
    by_cases hlt : E < 274
    · simp only [hlt, if_true]
      rfl
    · simp only [hlt, if_false]
      have c2 : (23 - e ≥ 0) ↔ E ≤ 423 := by omega
      have c3 : (23 - e).toNat = 423 - E := by omega
      have c4 : (-(23 - e)).toNat = E - 423 := by omega
      have c5 : (e + 126).toNat = E - 274 := by omega
      simp only [c2, c3, c4, c5]

/-- rounding of `num/den` to an integer, ties to even (primitives only) -/
def rte (num den : Nat) : Nat :=
  lz (Nat.div num den) fun q => lz (Nat.mul 2 (Nat.mod num den)) fun r2 =>
    cond (Nat.blt den r2 || (Nat.beq r2 den && Nat.beq (Nat.mod q 2) 1)) (Nat.add q 1) q

def finR (num den bexp : Nat) : Nat :=
  lz (Nat.add (Nat.mul bexp 8388608) (rte num den)) fun bits => cond (Nat.ble 0x7F800000 bits) 0x7F800000 bits

theorem finR_eq (num den bexp : Nat) : finR num den bexp = fin num den bexp := by
  unfold finR fin rte
  simp only [lz_eq, nadd, nmul, ndiv, nmod, cond_ble, blt_dec, beq_dec, ← Bool.decide_and, ← Bool.decide_or, cond_dec]

/-- `ilogB` on primitives (`ln = log2 n`, `ld = log2 d`) -/
def ilogR (n d ln ld : Nat) : Nat :=
  lz (Nat.sub (Nat.add ln 400) ld) fun E0 =>
    cond (cond (Nat.ble 400 E0) (Nat.ble (Nat.shiftLeft d (Nat.sub E0 400)) n)
            (Nat.ble d (Nat.shiftLeft n (Nat.sub 400 E0)))) E0 (Nat.sub E0 1)

theorem ilogR_eq (n d : Nat) : ilogR n d (Nat.log2 n) (Nat.log2 d) = ilogB n d := by
  unfold ilogR ilogB
  simp only [lz_eq, nadd, nsub, nshl, ble_dec, cond_dec]
  exact cond_eq_ite _ _ _

/-- scaling + rounding for the clamped biased exponent `EE` -/
def scaleR (n d EE : Nat) : Nat :=
  cond (Nat.ble EE 423)
    (lz (Nat.shiftLeft n (Nat.sub 423 EE)) fun num => finR num d (Nat.sub EE 274))
    (lz (Nat.shiftLeft d (Nat.sub EE 423)) fun den => finR n den (Nat.sub EE 274))

theorem scaleR_eq (n d EE : Nat) : scaleR n d EE =
    fin (if EE ≤ 423 then n <<< (423 - EE) else n) (if EE ≤ 423 then d else d <<< (EE - 423)) (EE - 274) := by
  unfold scaleR
  simp only [lz_eq, nsub, nshl, cond_ble, finR_eq]
  split <;> rfl

def clampR (E : Nat) : Nat := cond (Nat.blt E 274) 274 E

/-- `roundF32Q`, kernel-friendly; falls back to `roundF32Q` for denominators `≥ 2^400` -/
def rq (n d : Nat) : Nat :=
  lz (Fast.lg d) fun ld =>
    cond (Nat.ble ld 399)
      (cond (Nat.beq n 0) 0 (lz (clampR (ilogR n d (Fast.lg n) ld)) fun EE => scaleR n d EE))
      (roundF32Q n d)

theorem rq_eq (n d : Nat) : rq n d = roundF32Q n d := by
  unfold rq
  rw [lz_eq, Fast.lg_eq, Fast.lg_eq, cond_ble]
  by_cases hd : Nat.log2 d ≤ 399
  · rw [if_pos hd, ← rqN_eq n d hd]
    unfold rqN
    rw [cond_beq, lz_eq, scaleR_eq, ilogR_eq]
    unfold clampR
    rw [cond_blt]
  · rw [if_neg hd]

/-! ### unpacking a non-negative pattern -/

/-- numerator of the value of a pattern `a < 2^31` -/
def un (a : Nat) : Nat :=
  lz (Nat.div a 8388608) fun ex => lz (Nat.mod a 8388608) fun m =>
    cond (Nat.beq ex 0) m
      (cond (Nat.ble 150 ex) (Nat.mul (Nat.add 8388608 m) (Nat.pow 2 (Nat.sub ex 150))) (Nat.add 8388608 m))

/-- denominator of the value of a pattern `a < 2^31` -/
def ud (a : Nat) : Nat :=
  lz (Nat.div a 8388608) fun ex =>
    cond (Nat.beq ex 0) (Nat.pow 2 149) (cond (Nat.ble 150 ex) 1 (Nat.pow 2 (Nat.sub 150 ex)))

theorem un_eq (a : Nat) (h : a < 2147483648) : Fast.qn a = (un a : Int) := by
  unfold Fast.qn un
  simp only [lz_eq, nadd, nsub, nmul, ndiv, nmod, npow, cond_beq, cond_ble]
  have h1 : a / 8388608 % 256 = a / 8388608 := Nat.mod_eq_of_lt (by omega)
  have h2 : ¬ (a / 2147483648 % 2 = 1) := by
    have : a / 2147483648 = 0 := Nat.div_eq_of_lt h
    rw [this]; decide
  rw [h1, if_neg h2]

theorem ud_eq (a : Nat) (h : a < 2147483648) : Fast.qd a = ud a := by
  unfold Fast.qd ud
  simp only [lz_eq, nsub, ndiv, npow, cond_beq, cond_ble]
  have h1 : a / 8388608 % 256 = a / 8388608 := Nat.mod_eq_of_lt (by omega)
  rw [h1]

/-! ### operations on non-negative patterns -/

/-- `roundF32` of the non-negative fraction `n/d` -/
def rn (n d : Nat) : Nat :=
  lz (Nat.gcd d n) fun g => lz (Nat.div n g) fun n' => lz (Nat.div d g) fun d' => rq n' d'

theorem rn_eq (n d : Nat) : rn n d = Fast.rnd (n : Int) d := by
  unfold rn Fast.rnd
  simp only [lz_eq, ndiv, Int.natAbs_natCast, rq_eq]
  have h1 : (n : Int) / ((d.gcd n : Nat) : Int) = ((n / d.gcd n : Nat) : Int) := (Int.natCast_ediv _ _).symm
  have hnn : ¬ ((n / d.gcd n : Nat) : Int) < 0 := Int.not_lt.mpr (Int.natCast_nonneg _)
  rw [h1, if_neg hnn, Int.natAbs_natCast]

theorem fin_le (num den bexp : Nat) : fin num den bexp ≤ 0x7F800000 := by
  unfold fin
  simp only
  generalize (bexp * 8388608 + if 2 * (num % den) > den ∨ 2 * (num % den) = den ∧ num / den % 2 = 1 then num / den + 1
    else num / den) = bits
  split <;> omega

theorem roundF32Q_le (n d : Nat) : roundF32Q n d ≤ 0x7F800000 := by
  rw [roundF32Q_fin]
  split
  · omega
  · exact fin_le _ _ _

theorem rn_lt (n d : Nat) : rn n d < 2147483648 := by
  unfold rn
  simp only [lz_eq]
  rw [rq_eq]
  have := roundF32Q_le (Nat.div n (Nat.gcd d n)) (Nat.div d (Nat.gcd d n))
  omega

def nonneg2 (a b : Nat) : Bool := Nat.blt a 2147483648 && Nat.blt b 2147483648

theorem nonneg2_iff (a b : Nat) : nonneg2 a b = true ↔ a < 2147483648 ∧ b < 2147483648 := by
  unfold nonneg2
  rw [Bool.and_eq_true, Nat.blt_eq, Nat.blt_eq]

def mul (a b : Nat) : Nat :=
  cond (nonneg2 a b)
    (lz (Nat.mul (un a) (un b)) fun n => lz (Nat.mul (ud a) (ud b)) fun d => rn n d)
    (Fast.mul a b)

theorem mul_eq (a b : Nat) : mul a b = F32.mul a b := by
  unfold mul
  rw [Fast.mul_eq]
  cases h : nonneg2 a b
  · rfl
  · obtain ⟨ha, hb⟩ := (nonneg2_iff a b).mp h
    rw [cond_true, lz_eq, lz_eq, rn_eq]
    unfold Fast.mul
    rw [un_eq a ha, un_eq b hb, ud_eq a ha, ud_eq b hb]
    congr 1

def add (a b : Nat) : Nat :=
  cond (nonneg2 a b)
    (lz (ud a) fun da => lz (ud b) fun db =>
      lz (Nat.add (Nat.mul (un a) db) (Nat.mul (un b) da)) fun n => lz (Nat.mul da db) fun d => rn n d)
    (Fast.add a b)

theorem add_eq (a b : Nat) : add a b = F32.add a b := by
  unfold add
  rw [Fast.add_eq]
  cases h : nonneg2 a b
  · rfl
  · obtain ⟨ha, hb⟩ := (nonneg2_iff a b).mp h
    rw [cond_true, lz_eq, lz_eq, lz_eq, lz_eq, rn_eq]
    unfold Fast.add
    rw [un_eq a ha, un_eq b hb, ud_eq a ha, ud_eq b hb]
    congr 1

/-- `(a - b).max(0.0)`: the cheap formula when both are non-negative and `a ≥ b` -/
def subMax (a b : Nat) : Nat :=
  cond (nonneg2 a b)
    (lz (ud a) fun da => lz (ud b) fun db =>
      lz (Nat.mul (un a) db) fun q => lz (Nat.mul (un b) da) fun p =>
        cond (Nat.ble p q) (lz (Nat.sub q p) fun n => lz (Nat.mul da db) fun d => rn n d)
          (Fast.max0 (Fast.sub a b)))
    (Fast.max0 (Fast.sub a b))

theorem subMax_eq (a b : Nat) : subMax a b = F32.max0 (F32.sub a b) := by
  unfold subMax
  rw [Fast.max0_eq, Fast.sub_eq]
  cases h : nonneg2 a b
  · rfl
  · obtain ⟨ha, hb⟩ := (nonneg2_iff a b).mp h
    rw [cond_true, lz_eq, lz_eq, lz_eq, lz_eq]
    cases h' : Nat.ble (Nat.mul (un b) (ud a)) (Nat.mul (un a) (ud b))
    · rfl
    · have hle : un b * ud a ≤ un a * ud b := Nat.ble_eq.mp h'
      rw [cond_true, lz_eq, lz_eq]
      have hs : Fast.sub a b =
          rn (Nat.sub (Nat.mul (un a) (ud b)) (Nat.mul (un b) (ud a))) (Nat.mul (ud a) (ud b)) := by
        rw [rn_eq]
        unfold Fast.sub
        rw [un_eq a ha, un_eq b hb, ud_eq a ha, ud_eq b hb]
        congr 1
        show _ = ((un a * ud b - un b * ud a : Nat) : Int)
        rw [Int.natCast_sub hle, Int.natCast_mul, Int.natCast_mul, Int.neg_mul, Int.sub_eq_add_neg]
      rw [← hs]
      unfold Fast.max0
      have hlt : Fast.sub a b < 2147483648 := by rw [hs]; exact rn_lt _ _
      have hnn : ¬ ((un (Fast.sub a b) : Nat) : Int) < 0 := Int.not_lt.mpr (Int.natCast_nonneg _)
      rw [un_eq _ hlt, if_neg hnn]

/-! ### square root -/

/-- the rounding step: `v = 2s + sticky`, `H = E/2` (biased) -/
def sqFinN (v H : Nat) : Nat :=
  if 181 ≤ H then roundF32Q (v <<< (H - 181)) 1 else roundF32Q v (1 <<< (181 - H))
def sqVN (s big : Nat) : Nat := 2 * s + if s * s = big then 0 else 1
def sqCoreN (isq : Nat → Nat) (m E : Nat) : Nat :=
  if E % 2 = 1 then sqFinN (sqVN (isq ((2 * m) <<< 60)) ((2 * m) <<< 60)) ((E - 1) / 2)
  else sqFinN (sqVN (isq (m <<< 60)) (m <<< 60)) (E / 2)

/-- `Fast.sqrtWith` for a pattern `a < 2^31`, natural-number exponent `E = e + 300` -/
def sqrtN (isq : Nat → Nat) (a : Nat) : Nat :=
  if a = 0 then 0 else
  sqCoreN isq (if a / 8388608 = 0 then a % 8388608 else 8388608 + a % 8388608)
    (if a / 8388608 = 0 then 151 else a / 8388608 + 150)

theorem sqrtN_eq (isq : Nat → Nat) (a : Nat) (ha : a < 2147483648) : Fast.sqrtWith isq a = sqrtN isq a := by
  unfold Fast.sqrtWith sqrtN sqCoreN sqFinN sqVN
  have h1 : a / 8388608 % 256 = a / 8388608 := Nat.mod_eq_of_lt (by omega)
  simp only [h1]
  have c0 : (a ≥ 0x80000000 ∨ (a / 8388608 = 0 ∧ a % 8388608 = 0)) ↔ a = 0 := by omega
  simp only [c0]
  by_cases h0 : a = 0
  · rw [if_pos h0, if_pos h0]
  · rw [if_neg h0, if_neg h0]
    generalize hm : (if a / 8388608 = 0 then a % 8388608 else 8388608 + a % 8388608) = m
    generalize he : (if a / 8388608 = 0 then (-149 : Int) else ((a / 8388608 : Nat) : Int) - 150) = e
    generalize hE : (if a / 8388608 = 0 then 151 else a / 8388608 + 150) = E
    have hEe : (E : Int) = e + 300 := by
      rw [← he, ← hE]; split <;> omega
    have c1 : (e % 2 ≠ 0) ↔ (E % 2 = 1) := by omega
    simp only [c1]
    by_cases hodd : E % 2 = 1
    · simp only [hodd, if_true]
      have c2 : ((e - 1) / 2 - 31 ≥ 0) ↔ 181 ≤ (E - 1) / 2 := by omega
      have c3 : ((e - 1) / 2 - 31).toNat = (E - 1) / 2 - 181 := by omega
      have c4 : (-((e - 1) / 2 - 31)).toNat = 181 - (E - 1) / 2 := by omega
      simp only [c2, c3, c4]
    · simp only [hodd, if_false]
      have c2 : (e / 2 - 31 ≥ 0) ↔ 181 ≤ E / 2 := by omega
      have c3 : (e / 2 - 31).toNat = E / 2 - 181 := by omega
      have c4 : (-(e / 2 - 31)).toNat = 181 - E / 2 := by omega
      simp only [c2, c3, c4]

def sqFin (v H : Nat) : Nat :=
  cond (Nat.ble 181 H) (lz (Nat.shiftLeft v (Nat.sub H 181)) fun n => rq n 1)
    (lz (Nat.shiftLeft 1 (Nat.sub 181 H)) fun d => rq v d)
theorem sqFin_eq (v H : Nat) : sqFin v H = sqFinN v H := by
  unfold sqFin sqFinN
  rw [cond_ble, lz_eq, lz_eq, rq_eq, rq_eq]
  rfl

def sqV (s big : Nat) : Nat := Nat.add (Nat.mul 2 s) (cond (Nat.beq (Nat.mul s s) big) 0 1)
theorem sqV_eq (s big : Nat) : sqV s big = sqVN s big := by
  unfold sqV sqVN
  rw [cond_beq]
  rfl

/-- root, sticky bit and rounding for the even-exponent significand `big = m·2^60`, `H = E/2` -/
def sqStep (big H : Nat) : Nat :=
  lz (Fast.isqrt big) fun s => lz (sqV s big) fun v => sqFin v H
theorem sqStep_eq (big H : Nat) : sqStep big H = sqFinN (sqVN (Fast.isqrt big) big) H := by
  unfold sqStep
  rw [lz_eq, lz_eq, sqFin_eq, sqV_eq]

def sqCore (m E : Nat) : Nat :=
  cond (Nat.beq (Nat.mod E 2) 1)
    (lz (Nat.shiftLeft (Nat.mul 2 m) 60) fun big => lz (Nat.div (Nat.sub E 1) 2) fun H => sqStep big H)
    (lz (Nat.shiftLeft m 60) fun big => lz (Nat.div E 2) fun H => sqStep big H)
theorem sqCore_eq (m E : Nat) : sqCore m E = sqCoreN Fast.isqrt m E := by
  unfold sqCore sqCoreN
  rw [cond_beq, lz_eq, lz_eq, lz_eq, lz_eq, sqStep_eq, sqStep_eq]
  rfl

/-- mantissa and biased exponent of a pattern `a < 2^31` -/
def sqM (a : Nat) : Nat := cond (Nat.beq (Nat.div a 8388608) 0) (Nat.mod a 8388608) (Nat.add 8388608 (Nat.mod a 8388608))
def sqE (a : Nat) : Nat := cond (Nat.beq (Nat.div a 8388608) 0) 151 (Nat.add (Nat.div a 8388608) 150)

/-- `F32.sqrt`, kernel-friendly -/
def sqrt (a : Nat) : Nat :=
  cond (Nat.blt a 2147483648)
    (cond (Nat.beq a 0) 0 (lz (sqM a) fun m => lz (sqE a) fun E => sqCore m E))
    (Fast.sqrt a)

theorem sqrt_eq (a : Nat) : sqrt a = F32.sqrt a := by
  unfold sqrt
  rw [Fast.sqrt_eq, cond_blt]
  by_cases ha : a < 2147483648
  · rw [if_pos ha]
    unfold Fast.sqrt
    rw [sqrtN_eq _ a ha]
    unfold sqrtN sqM sqE
    rw [cond_beq, lz_eq, lz_eq, cond_beq, cond_beq, sqCore_eq]
    rfl
  · rw [if_neg ha]

/-! ### `as u8` -/

def toU8 (a : Nat) : Nat :=
  cond (Nat.blt a 2147483648)
    (lz (un a) fun n => lz (ud a) fun d => lz (Nat.gcd d n) fun g =>
      lz (Nat.div (Nat.div n g) (Nat.div d g)) fun f => cond (Nat.blt 255 f) 255 f)
    (Fast.toU8 a)

theorem toU8_eq (a : Nat) : toU8 a = F32.toU8 a := by
  unfold toU8
  rw [Fast.toU8_eq, cond_blt]
  by_cases ha : a < 2147483648
  · rw [if_pos ha]
    unfold Fast.toU8
    have hnn : ¬ ((un a : Nat) : Int) < 0 := Int.not_lt.mpr (Int.natCast_nonneg _)
    rw [un_eq a ha, ud_eq a ha, if_neg hnn]
    simp only [lz_eq, Int.natAbs_natCast, cond_blt]
    rw [← Int.natCast_ediv, ← Int.natCast_ediv, Int.toNat_natCast]
    rfl
  · rw [if_neg ha]

end Dds.F32.Raw
