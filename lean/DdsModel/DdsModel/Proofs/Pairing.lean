/- Pairing lemmas: the implementation-shaped row helpers address the unit / chroma sample of the
pixel's own cell, for every width and height. -/
import DdsModel.Uncompressed
namespace Dds.Unc

theorem pairs_length {α} (g : Nat → α × α) (n : Nat) : (pairs g n).length = 2 * n := by
  induction n with
  | zero => rfl
  | succ n ih => simp only [pairs, List.length_append, ih, List.length_cons, List.length_nil]; omega

theorem pairs_get {α} (g : Nat → α × α) (n x : Nat) (h : x < 2 * n) :
    (pairs g n)[x]? = some (if x % 2 = 0 then (g (x / 2)).1 else (g (x / 2)).2) := by
  induction n with
  | zero => omega
  | succ n ih =>
    simp only [pairs]
    by_cases hx : x < 2 * n
    · rw [List.getElem?_append_left (by rw [pairs_length]; exact hx)]
      exact ih hx
    · rw [List.getElem?_append_right (by rw [pairs_length]; omega), pairs_length]
      by_cases h0 : x = 2 * n
      · subst h0
        have h1 : 2 * n % 2 = 0 := by omega
        have h2 : 2 * n / 2 = n := by omega
        simp [h1, h2]
      · have h1 : x = 2 * n + 1 := by omega
        subst h1
        have h2 : (2 * n + 1) % 2 ≠ 0 := by omega
        have h3 : (2 * n + 1) / 2 = n := by omega
        have h4 : 2 * n + 1 - 2 * n = 1 := by omega
        simp [h3, h4]

/-- `process_2x1_blocks_helper`: pixel `x` is pixel `x % 2` of block `x / 2`, odd widths included -/
theorem process2x1_get {α} (g : Nat → α × α) (w x : Nat) (h : x < w) :
    (process2x1 g w)[x]? = some (if x % 2 = 0 then (g (x / 2)).1 else (g (x / 2)).2) := by
  unfold process2x1
  by_cases hx : x < 2 * (w / 2)
  · rw [List.getElem?_append_left (by rw [pairs_length]; exact hx)]
    exact pairs_get g _ x hx
  · rw [List.getElem?_append_right (by rw [pairs_length]; omega), pairs_length]
    have hw : w % 2 = 1 := by omega
    have hxw : x = 2 * (w / 2) := by omega
    have h1 : x % 2 = 0 := by omega
    have h2 : (w + 1) / 2 - 1 = x / 2 := by omega
    have h3 : x - 2 * (w / 2) = 0 := by omega
    simp [hw, h1, h2, h3]

theorem process2x1_length {α} (g : Nat → α × α) (w : Nat) : (process2x1 g w).length = w := by
  unfold process2x1
  rw [List.length_append, pairs_length]
  by_cases hw : w % 2 = 1
  · simp [hw]; omega
  · have : w % 2 = 0 := by omega
    simp [this]; omega

/-- `process_bi_planar_helper`: luma `x` is paired with chroma `x / 2`, odd widths included -/
theorem biPlanarRow_get {α} (f : Nat → Nat → α) (luma chroma : Nat → Nat) (w x : Nat) (h : x < w) :
    (biPlanarRow f luma chroma w)[x]? = some (f (luma x) (chroma (x / 2))) := by
  unfold biPlanarRow
  by_cases hx : x < 2 * (w / 2)
  · rw [List.getElem?_append_left (by rw [pairs_length]; exact hx), pairs_get _ _ x hx]
    by_cases h0 : x % 2 = 0
    · have : 2 * (x / 2) = x := by omega
      simp [h0, this]
    · have : 2 * (x / 2) + 1 = x := by omega
      simp [h0, this]
  · rw [List.getElem?_append_right (by rw [pairs_length]; omega), pairs_length]
    have hxw : x = w / 2 * 2 := by omega
    have h1 : w - w / 2 * 2 > 0 := by omega
    have h2 : w / 2 = x / 2 := by omega
    have h3 : x - 2 * (w / 2) = 0 := by omega
    simp only [h1, if_true, h3, List.getElem?_cons_zero]
    rw [← hxw, h2]

theorem biPlanarRow_length {α} (f : Nat → Nat → α) (luma chroma : Nat → Nat) (w : Nat) :
    (biPlanarRow f luma chroma w).length = w := by
  unfold biPlanarRow
  rw [List.length_append, pairs_length]
  by_cases hw : w - w / 2 * 2 > 0
  · simp [hw]; omega
  · simp [hw]; omega

/-- state of the plane-2 loop of `for_each_bi_planar` after `k` chroma lines -/
theorem biPlanarRows_aux {α} (row : Nat → Nat → α) (h k : Nat) :
    (List.range k).foldl (fun acc uv =>
      let acc := if acc.length < h then acc ++ [row acc.length uv] else acc
      if acc.length < h then acc ++ [row acc.length uv] else acc) []
    = (List.range (min (2 * k) h)).map fun y => row y (y / 2) := by
  induction k with
  | zero => simp
  | succ k ih =>
    rw [List.range_succ, List.foldl_append, ih]
    simp only [List.foldl_cons, List.foldl_nil, List.length_map, List.length_range]
    by_cases h1 : 2 * k < h
    · have m1 : min (2 * k) h = 2 * k := by omega
      rw [m1]
      simp only [h1, if_true, List.length_append, List.length_map, List.length_range,
        List.length_cons, List.length_nil]
      have d1 : 2 * k / 2 = k := by omega
      by_cases h2 : 2 * k + 1 < h
      · have m2 : min (2 * (k + 1)) h = 2 * k + 1 + 1 := by omega
        have d2 : (2 * k + 1) / 2 = k := by omega
        simp only [Nat.zero_add, h2, if_true, m2]
        rw [List.range_succ, List.range_succ, List.map_append, List.map_append]
        simp [d1, d2]
      · have m2 : min (2 * (k + 1)) h = 2 * k + 1 := by omega
        simp only [Nat.zero_add, h2, if_false, m2]
        rw [List.range_succ, List.map_append]
        simp [d1]
    · have m1 : min (2 * k) h = h := by omega
      have m2 : min (2 * (k + 1)) h = h := by omega
      rw [m1, m2]
      simp

/-- `for_each_bi_planar`: luma row `y` is decoded with chroma line `y / 2`, exactly `height` rows are
produced, odd heights included -/
theorem biPlanarRows_eq {α} (row : Nat → Nat → α) (h : Nat) :
    biPlanarRows row h ((h + 1) / 2) = (List.range h).map fun y => row y (y / 2) := by
  unfold biPlanarRows
  rw [biPlanarRows_aux]
  have : min (2 * ((h + 1) / 2)) h = h := by omega
  rw [this]

theorem blocks8_length {α} (g : Nat → List α) (hg : ∀ i, (g i).length = 8) (w n : Nat) :
    (blocks8 g w n).length = min (8 * n) w := by
  induction n with
  | zero => simp [blocks8]
  | succ n ih =>
    simp only [blocks8, List.length_append, ih, List.length_take, hg]
    omega

theorem blocks8_get {α} (g : Nat → List α) (hg : ∀ i, (g i).length = 8) (w n x : Nat)
    (h : x < min (8 * n) w) : (blocks8 g w n)[x]? = (g (x / 8))[x % 8]? := by
  induction n with
  | zero => omega
  | succ n ih =>
    simp only [blocks8]
    by_cases hx : x < min (8 * n) w
    · rw [List.getElem?_append_left (by rw [blocks8_length g hg]; exact hx)]
      exact ih hx
    · rw [List.getElem?_append_right (by rw [blocks8_length g hg]; omega), blocks8_length g hg]
      have h1 : min (8 * n) w = 8 * n := by omega
      have h2 : x / 8 = n := by omega
      have h3 : x % 8 = x - 8 * n := by omega
      rw [h1, List.getElem?_take, h2, h3]
      have h4 : x - 8 * n < min 8 (w - 8 * n) := by omega
      simp [h4]

/-- `process_8x1_blocks_helper` (R1_UNORM): pixel `x` is pixel `x % 8` of byte `x / 8`, widths that
are not a multiple of 8 included -/
theorem process8x1_get {α} (g : Nat → List α) (hg : ∀ i, (g i).length = 8) (w x : Nat) (h : x < w) :
    (process8x1 g w)[x]? = (g (x / 8))[x % 8]? := by
  unfold process8x1
  exact blocks8_get g hg w _ x (by omega)

theorem process8x1_length {α} (g : Nat → List α) (hg : ∀ i, (g i).length = 8) (w : Nat) :
    (process8x1 g w).length = w := by
  unfold process8x1
  rw [blocks8_length g hg]; omega

end Dds.Unc
