/-
BC3n `calc_b` = specification `z8`: rows `r = 160 … 191` (all 256 values of `g` each), by kernel evaluation
of the checker of `Proofs/Bc3nCalc.lean` (GENERATED: the eight files `Bc3nRows0…7` differ only in the range).
-/
import DdsModel.Proofs.Bc3nCalc
namespace Dds.Bc3n
set_option maxRecDepth 100000

theorem chunk160 : rowsChk 160 8 = true := by decide +kernel
theorem chunk168 : rowsChk 168 8 = true := by decide +kernel
theorem chunk176 : rowsChk 176 8 = true := by decide +kernel
theorem chunk184 : rowsChk 184 8 = true := by decide +kernel

theorem rows5 (r g : Nat) (h1 : 160 ≤ r) (h2 : r < 192) (hg : g < 256) : Bc.calcB r g = BcSpec.z8 r g := by
  by_cases a : r < 168
  · exact of_rows 160 8 chunk160 r g (by omega) (by omega) (by omega) hg
  · by_cases b : r < 176
    · exact of_rows 168 8 chunk168 r g (by omega) (by omega) (by omega) hg
    · by_cases c : r < 184
      · exact of_rows 176 8 chunk176 r g (by omega) (by omega) (by omega) hg
      · exact of_rows 184 8 chunk184 r g (by omega) (by omega) (by omega) hg

end Dds.Bc3n
