/-
Helper lemmas of C13 (encoder discrete logic).
-/
import DdsModel.Enc13
import DdsModel.Proofs.BcPixels
namespace Dds.Enc13
open Dds Dds.Bc

theorem toU16_eq (c : C565) (h : c.Valid) : c.toU16 = c.r * 2048 + c.g * 32 + c.b := by
  obtain ⟨hr, hg, hb⟩ := h
  unfold C565.toU16 w16
  have h1 : c.r <<< 11 = c.r * 2048 := by rw [Nat.shiftLeft_eq]
  have h2 : c.g <<< 5 = c.g * 32 := by rw [Nat.shiftLeft_eq]
  rw [Nat.mod_eq_of_lt (by omega), Nat.mod_eq_of_lt (by omega)]
  rw [Nat.or_assoc, ← Nat.shiftLeft_add_eq_or_of_lt (by omega : c.b < 2 ^ 5),
    ← Nat.shiftLeft_add_eq_or_of_lt (by omega : c.g <<< 5 + c.b < 2 ^ 11)]
  omega

theorem toU16_lt (c : C565) (h : c.Valid) : c.toU16 < 65536 := by
  rw [toU16_eq c h]; obtain ⟨hr, hg, hb⟩ := h; omega

/-- the three cases of `new_p4` with the packed values as sums -/
theorem newP4_spec (c0 c1 : C565) (h0 : c0.Valid) (h1 : c1.Valid) :
    (newP4 c0 c1).1.Valid ∧ (newP4 c0 c1).2.Valid ∧ (newP4 c0 c1).1.toU16 > (newP4 c0 c1).2.toU16 := by
  have e0 := toU16_eq c0 h0
  have e1 := toU16_eq c1 h1
  obtain ⟨hr0, hg0, hb0⟩ := h0
  obtain ⟨hr1, hg1, hb1⟩ := h1
  unfold newP4
  simp only []
  by_cases hlt : c0.toU16 < c1.toU16
  · rw [if_pos hlt]; exact ⟨⟨hr1, hg1, hb1⟩, ⟨hr0, hg0, hb0⟩, hlt⟩
  · rw [if_neg hlt]
    by_cases heq : c0.toU16 = c1.toU16
    · rw [if_pos heq]
      by_cases hb : c1.b = 0
      · rw [if_pos hb]
        have v : ({ c0 with b := 1 } : C565).Valid := ⟨hr0, hg0, (by show 1 < 32; omega)⟩
        refine ⟨v, ⟨hr1, hg1, hb1⟩, ?_⟩
        rw [toU16_eq _ v, e1]
        show c0.r * 2048 + c0.g * 32 + 1 > _
        omega
      · rw [if_neg hb]
        have hw : w8 (c1.b + 256 - 1) = c1.b - 1 := by unfold w8; omega
        have v : ({ c1 with b := w8 (c1.b + 256 - 1) } : C565).Valid := ⟨hr1, hg1, (by show w8 (c1.b + 256 - 1) < 32; rw [hw]; omega)⟩
        refine ⟨⟨hr0, hg0, hb0⟩, v, ?_⟩
        rw [toU16_eq _ v, e0]
        show _ > c1.r * 2048 + c1.g * 32 + w8 (c1.b + 256 - 1)
        rw [hw]; omega
    · rw [if_neg heq]
      refine ⟨⟨hr0, hg0, hb0⟩, ⟨hr1, hg1, hb1⟩, ?_⟩
      show c0.toU16 > c1.toU16
      omega

theorem newP3_spec (c0 c1 : C565) (h0 : c0.Valid) (h1 : c1.Valid) :
    (newP3Default c0 c1).1.Valid ∧ (newP3Default c0 c1).2.Valid ∧
      (newP3Default c0 c1).1.toU16 ≤ (newP3Default c0 c1).2.toU16 := by
  unfold newP3Default
  by_cases h : c0.toU16 > c1.toU16
  · rw [if_pos h]; exact ⟨h1, h0, (by show c1.toU16 ≤ c0.toU16; omega)⟩
  · rw [if_neg h]; exact ⟨h0, h1, (by show c0.toU16 ≤ c1.toU16; omega)⟩

/-! ### alpha map -/

/-- the fold of `get_alpha_map` over the first `n` pixels -/
def alphaFold (alphas : List Nat) (n : Nat) : Nat :=
  (List.range n).foldl (fun m i => m ||| w16 ((if opaque8 (alphas.getD i 0) then 1 else 0) <<< i)) 0

theorem alphaFold_testBit (alphas : List Nat) : ∀ n, n ≤ 16 → ∀ i,
    (alphaFold alphas n).testBit i = (decide (i < n) && opaque8 (alphas.getD i 0)) := by
  intro n
  induction n with
  | zero => intro _ i; simp [alphaFold]
  | succ n ih =>
    intro hn i
    have ih' := ih (by omega) i
    unfold alphaFold at ih' ⊢
    rw [List.range_succ, List.foldl_append, List.foldl_cons, List.foldl_nil, Nat.testBit_or, ih']
    unfold w16
    rw [show (65536 : Nat) = 2 ^ 16 from rfl, Nat.testBit_mod_two_pow, Nat.testBit_shiftLeft]
    by_cases hi : i = n
    · subst hi
      have : i < 16 := by omega
      cases h : opaque8 (alphas.getD i 0) <;> simp [this]
    · by_cases hlt : i < n
      · have hge : ¬ i ≥ n := by omega
        have : i < n + 1 := by omega
        simp [hlt, hge, this]
      · have hnl : ¬ i < n + 1 := by omega
        have hge : i ≥ n := by omega
        have hne : i - n ≠ 0 := by omega
        have h1 : Nat.testBit 1 (i - n) = false := by
          cases hb : Nat.testBit 1 (i - n) with
          | false => rfl
          | true => exact absurd (Nat.testBit_one_eq_true_iff_self_eq_zero.mp hb) hne
        cases h : opaque8 (alphas.getD n 0) <;> simp [hlt, hnl, hge, h1]

/-- a block given as its list of bytes -/
def blkOf (l : List Nat) : Nat → Nat := fun i => l.getD i 0


theorem le16_withIndexes (e : C565 × C565) (idx : Nat) (pre : List Nat) :
    le16 (blkOf (pre ++ withIndexes e idx)) pre.length = e.1.toU16 ∧
    le16 (blkOf (pre ++ withIndexes e idx)) (pre.length + 2) = e.2.toU16 := by
  unfold le16 blkOf withIndexes
  simp only [List.getD_eq_getElem?_getD]
  rw [List.getElem?_append_right (by omega), List.getElem?_append_right (by omega),
    List.getElem?_append_right (by omega), List.getElem?_append_right (by omega)]
  have a0 : pre.length - pre.length = 0 := by omega
  have a1 : pre.length + 1 - pre.length = 1 := by omega
  have a2 : pre.length + 2 - pre.length = 2 := by omega
  have a3 : pre.length + 2 + 1 - pre.length = 3 := by omega
  rw [a0, a1, a2, a3]
  simp only [List.getElem?_cons_zero, List.getElem?_cons_succ, Option.getD_some]
  omega


theorem alphaMap_testBit (alphas : List Nat) (hl : alphas.length = 16) (i : Nat) :
    (alphaMap alphas).testBit i = (decide (i < 16) && decide (alphas.getD i 0 ≥ 128)) := by
  have h := alphaFold_testBit alphas alphas.length (by omega) i
  unfold alphaFold at h
  unfold alphaMap
  rw [h, hl]
  congr 1
  unfold opaque8
  exact decide_eq_decide.mpr (by omega)

theorem map_all_transparent (alphas : List Nat) (hl : alphas.length = 16)
    (h : ∀ i, i < 16 → alphas.getD i 0 < 128) : alphaMap alphas = ALL_TRANSPARENT := by
  apply Nat.eq_of_testBit_eq
  intro i
  rw [alphaMap_testBit alphas hl i]
  by_cases hi : i < 16
  · have h2 : ¬ alphas.getD i 0 ≥ 128 := by have := h i hi; omega
    rw [decide_eq_true hi, decide_eq_false h2]; simp [ALL_TRANSPARENT]
  · rw [decide_eq_false hi]; simp [ALL_TRANSPARENT]

theorem map_all_opaque (alphas : List Nat) (hl : alphas.length = 16)
    (h : ∀ i, i < 16 → alphas.getD i 0 ≥ 128) : alphaMap alphas = ALL_OPAQUE := by
  apply Nat.eq_of_testBit_eq
  intro i
  rw [alphaMap_testBit alphas hl i, show ALL_OPAQUE = 2 ^ 16 - 1 from rfl, Nat.testBit_two_pow_sub_one]
  by_cases hi : i < 16
  · rw [decide_eq_true (h i hi)]; simp
  · rw [decide_eq_false hi]; simp


def dist (a b : Nat) : Nat := if a ≥ b then a - b else b - a

/-- error of the nearest-palette assignment of the value `v` -/
def nearestErr (pal : List Nat) (v : Nat) : Nat := pal.foldl (fun m x => min m (dist x v)) 256

theorem foldl_min_le (f : Nat → Nat) (l : List Nat) : ∀ init, l.foldl (fun m x => min m (f x)) init ≤ init ∧
    ∀ x ∈ l, l.foldl (fun m x => min m (f x)) init ≤ f x := by
  induction l with
  | nil => intro init; exact ⟨Nat.le_refl _, fun x hx => absurd hx (by simp)⟩
  | cons a l ih =>
    intro init
    have h := ih (min init (f a))
    refine ⟨Nat.le_trans h.1 (Nat.min_le_left _ _), fun x hx => ?_⟩
    simp only [List.mem_cons] at hx
    rcases hx with rfl | hx
    · exact Nat.le_trans h.1 (Nat.min_le_right _ _)
    · exact h.2 x hx

/-- the four decoded 8-bit values of one channel of a colour palette with `m`-level endpoints (specification) -/
def specPalette (four : Bool) (e0 e1 m : Nat) : List Nat := (List.range 4).map fun k => BcSpec.chan8 four k e0 e1 m

/-- the eight decoded 8-bit values of a BC4 UNORM palette (specification) -/
def specPalette4 (e0 e1 : Nat) : List Nat :=
  (List.range 8).map fun k => BcSpec.rnd (255 * BcSpec.bc4Entry (decide (e0 > e1)) k e0 e1 255)


/-- the interpolation numerator `n = 2·a + b` of the "two thirds" entry reaches every value `0..3·m` -/
def splitThird (m n : Nat) : Nat × Nat := (min m (n / 2), n - 2 * min m (n / 2))

def greyChk5 (g : Nat) : Bool :=
  (List.range 94).any fun n5 =>
    let r := splitThird 31 n5
    decide (r.1 ≤ 31 ∧ r.2 ≤ 31 ∧ dist (third5 r.1 r.2) g ≤ 1)
def greyChk6 (g : Nat) : Bool :=
  (List.range 190).any fun n6 =>
    let gg := splitThird 63 n6
    decide (gg.1 ≤ 63 ∧ gg.2 ≤ 63 ∧ dist (third6 gg.1 gg.2) g ≤ 1)

theorem greyChk5_all : ∀ g, g ≤ 255 → greyChk5 g = true := allUpTo greyChk5 255 (by decide +kernel)
theorem greyChk6_all : ∀ g, g ≤ 255 → greyChk6 g = true := allUpTo greyChk6 255 (by decide +kernel)


end Dds.Enc13
