/-
C12 carrier independence: every encoder of a plain format computes the format's `universal!` closure of
`as_rgba_f32` of the pixel (`pixelCodes_eq_uni`), and `as_rgba_f32` does not depend on the carrier
(`asRgba_*`).  The integer encoders (`Encoder::copy`, `color_convert!`, the hand-written B8G8R8* ones) are described
for the comparison by the channel selection and the quantiser they must agree with (`simpleOf`); which encoder runs
is read off `Quant.pickEncoder` over the pinned table by `decide +kernel` (`pathOk_all`, `block_uni_all`), the
agreement itself is one string-free lemma (`conv_eq_simple`) instantiated with the whole-domain scalar facts of
`Proofs/EncCarrierScalar.lean` / `Proofs/EncCarrier16.lean`.
-/
import DdsModel.Proofs.EncCarrierScalar
import DdsModel.Proofs.EncCarrier16
import DdsModel.Proofs.ConvFloat
import DdsModel.Proofs.ConvF16All
namespace Dds.EncCarrier
open Dds Dds.CF32 Dds.Conv Dds.Quant Dds.EncTotal
set_option maxRecDepth 100000
set_option linter.unusedSimpArgs false

/-! ### the closures that an integer encoder has to agree with, as data -/

/-- which channel of the RGBA `f32` pixel (or the constant `0xFF`) feeds a stored element -/
inductive Src | r | g | b | a | ff
  deriving DecidableEq, Repr

def Src.get (p : Rgba) : Src → Nat
  | .r => p.r | .g => p.g | .b => p.b | .a => p.a | .ff => 0

/-- the quantiser mapped over the selected channels -/
inductive QK | n8 | s8 | n16 | s16 | id32
  deriving DecidableEq, Repr

def QK.app : QK → Nat → Option Nat
  | .n8, x => some (QuantF32.n8 x)
  | .s8, x => QuantBits.s8 x
  | .n16, x => some (QuantF32.n16 x)
  | .s16, x => QuantBits.s16 x
  | .id32, x => some x

def elem (qk : QK) (p : Rgba) : Src → Option Nat
  | .ff => some 0xFF
  | s => qk.app (s.get p)

def mapS (f : Src → Option Nat) : List Src → Option (List Nat)
  | [] => some []
  | x :: rest =>
    match f x, mapS f rest with
    | some y, some ys => some (y :: ys)
    | _, _ => none

def simple (qk : QK) (srcs : List Src) (p : Rgba) : Option (List Nat) := mapS (elem qk p) srcs

/-- the `universal!` closures of the 16 formats that also have an integer encoder -/
def simpleOf (name : String) : Option (QK × List Src) :=
  match name with
  | "R8G8B8_UNORM" => some (.n8, [.r, .g, .b])
  | "B8G8R8_UNORM" => some (.n8, [.b, .g, .r])
  | "R8G8B8A8_UNORM" => some (.n8, [.r, .g, .b, .a])
  | "R8G8B8A8_SNORM" => some (.s8, [.r, .g, .b, .a])
  | "B8G8R8A8_UNORM" => some (.n8, [.b, .g, .r, .a])
  | "B8G8R8X8_UNORM" => some (.n8, [.b, .g, .r, .ff])
  | "R8_UNORM" => some (.n8, [.r])
  | "R8_SNORM" => some (.s8, [.r])
  | "A8_UNORM" => some (.n8, [.a])
  | "R16_UNORM" => some (.n16, [.r])
  | "R16_SNORM" => some (.s16, [.r])
  | "R16G16B16A16_UNORM" => some (.n16, [.r, .g, .b, .a])
  | "R16G16B16A16_SNORM" => some (.s16, [.r, .g, .b, .a])
  | "R32_FLOAT" => some (.id32, [.r])
  | "R32G32B32_FLOAT" => some (.id32, [.r, .g, .b])
  | "R32G32B32A32_FLOAT" => some (.id32, [.r, .g, .b, .a])
  | _ => none

/-- `simpleOf` describes the model's closure `uni` -/
theorem uni_simple (Q : Ext) (name : String) (qk : QK) (srcs : List Src) (h : simpleOf name = some (qk, srcs))
    (p : Rgba) : uni Q name p = simple qk srcs p := by
  unfold simpleOf at h
  split at h <;> first
    | (injection h with h; injection h with h1 h2; subst h1; subst h2; rfl)
    | (exact absurd h (by simp))

/-- the selection an integer encoder with target `t` and the fix-ups produces -/
def layout (t : Chan) (swap x8 : Bool) : List Src :=
  let l : List Src := match t with
    | .gray => [.r] | .alpha => [.a] | .rgb => [.r, .g, .b] | .rgba => [.r, .g, .b, .a]
  let l := if swap then (match l with | x :: y :: z :: rest => z :: y :: x :: rest | l => l) else l
  if x8 then (match l with | x :: y :: z :: _ :: rest => x :: y :: z :: .ff :: rest | l => l) else l

/-- the quantiser an integer encoder at precision `p` must agree with -/
def qkOf : Prec → Bool → QK
  | .u8, false => .n8 | .u8, true => .s8
  | .u16, false => .n16 | .u16, true => .s16
  | .f32, _ => .id32

/-- number of values of a precision (F32: bit patterns) -/
def precBound : Prec → Nat
  | .u8 => 256 | .u16 => 65536 | .f32 => 2 ^ 32

/-! ### an integer encoder = the closure of `as_rgba_f32` -/

/-- string-free core: if the quantiser `qk` undoes the widening `F` on the domain, the integer encoder with target
`t` and fix-ups `(swap, x8, snorm)` stores what the closure `simple qk (layout t swap x8)` computes from the RGBA
`f32` pixel -/
theorem conv_eq_simple (p : Prec) (F : Nat → Nat) (n : Nat) (sn : Bool) (qk : QK)
    (hq : ∀ x, x < n → qk.app (F x) = some (if sn then snormOf p x else x))
    (h1 : F (normOne p) = CF32.one) (h0 : F 0 = 0) (d1 : normOne p < n) (d0 : 0 < n)
    (t : Chan) (sw x8 : Bool) (hx : (x8 && sn) = false) (px : Pix) (hpx : px.below n) :
    some (convCodes p t sw x8 sn px) = simple qk (layout t sw x8) (toRgba (px.map F)) := by
  have q1 : qk.app CF32.one = some (if sn then snormOf p (normOne p) else normOne p) := by
    rw [← h1]; exact hq _ d1
  have q0 : qk.app 0 = some (if sn then snormOf p 0 else 0) := by
    have := hq 0 d0; rw [h0] at this; exact this
  cases sn
  · simp only [Bool.false_eq_true, if_false] at hq q1 q0
    cases px with
    | gray g =>
      have eg := hq g hpx
      cases t <;> cases sw <;> cases x8 <;>
        simp [convCodes, convertChannels, layout, simple, mapS, elem, Src.get, toRgba, Pix.map, Pix.vals, swapRB,
          setX8, normOne, normZero, eg, q1, q0]
    | alpha a =>
      have ea := hq a hpx
      cases t <;> cases sw <;> cases x8 <;>
        simp [convCodes, convertChannels, layout, simple, mapS, elem, Src.get, toRgba, Pix.map, Pix.vals, swapRB,
          setX8, normOne, normZero, ea, q1, q0]
    | rgb r g b =>
      have er := hq r hpx.1
      have eg := hq g hpx.2.1
      have eb := hq b hpx.2.2
      cases t <;> cases sw <;> cases x8 <;>
        simp [convCodes, convertChannels, layout, simple, mapS, elem, Src.get, toRgba, Pix.map, Pix.vals, swapRB,
          setX8, normOne, normZero, er, eg, eb, q1, q0]
    | rgba r g b a =>
      have er := hq r hpx.1
      have eg := hq g hpx.2.1
      have eb := hq b hpx.2.2.1
      have ea := hq a hpx.2.2.2
      cases t <;> cases sw <;> cases x8 <;>
        simp [convCodes, convertChannels, layout, simple, mapS, elem, Src.get, toRgba, Pix.map, Pix.vals, swapRB,
          setX8, normOne, normZero, er, eg, eb, ea, q1, q0]
  · have hx8 : x8 = false := by cases x8 <;> simp_all
    subst hx8
    simp only [if_true] at hq q1 q0
    cases px with
    | gray g =>
      have eg := hq g hpx
      cases t <;> cases sw <;>
        simp [convCodes, convertChannels, layout, simple, mapS, elem, Src.get, toRgba, Pix.map, Pix.vals, swapRB,
          normOne, normZero, eg, q1, q0]
    | alpha a =>
      have ea := hq a hpx
      cases t <;> cases sw <;>
        simp [convCodes, convertChannels, layout, simple, mapS, elem, Src.get, toRgba, Pix.map, Pix.vals, swapRB,
          normOne, normZero, ea, q1, q0]
    | rgb r g b =>
      have er := hq r hpx.1
      have eg := hq g hpx.2.1
      have eb := hq b hpx.2.2
      cases t <;> cases sw <;>
        simp [convCodes, convertChannels, layout, simple, mapS, elem, Src.get, toRgba, Pix.map, Pix.vals, swapRB,
          normOne, normZero, er, eg, eb, q1, q0]
    | rgba r g b a =>
      have er := hq r hpx.1
      have eg := hq g hpx.2.1
      have eb := hq b hpx.2.2.1
      have ea := hq a hpx.2.2.2
      cases t <;> cases sw <;>
        simp [convCodes, convertChannels, layout, simple, mapS, elem, Src.get, toRgba, Pix.map, Pix.vals, swapRB,
          normOne, normZero, er, eg, eb, ea, q1, q0]

/-! ### the F32 carrier of the oracle: the nearest binary32 to `v/255`, `w/65535` (C04) -/

theorem n8f32_nearest (v : Nat) (hv : v < 256) : n8f32 v = roundF32 (Spec.unorm 8 v) := by
  simpa [Dds.ConvProofs.okF32] using Dds.ConvProofs.n8f32_ok v hv

theorem n16f32_nearest (w : Nat) (hw : w < 65536) : n16f32 w = roundF32 (Spec.unorm 16 w) :=
  Dds.ConvFast.n16f32_all w hw

/-! ### `as_rgba_f32` does not depend on the carrier -/

theorem chan_map (f : Nat → Nat) (px : Pix) : (px.map f).chan = px.chan := by cases px <;> rfl

/-- the U16 carrier `257·v` of 8-bit values gives the same RGBA `f32` pixel as the U8 carrier -/
theorem asRgba_u16_of_u8 (px : Pix) (h : px.below 256) :
    asRgbaF32 .u16 (px.map (· * 257)) = asRgbaF32 .u8 px := by
  cases px with
  | gray g => simp [asRgbaF32, Pix.map, toF32, n16f32_257 g h]
  | alpha a => simp [asRgbaF32, Pix.map, toF32, n16f32_257 a h]
  | rgb r g b => simp [asRgbaF32, Pix.map, toF32, n16f32_257 r h.1, n16f32_257 g h.2.1, n16f32_257 b h.2.2]
  | rgba r g b a =>
    simp [asRgbaF32, Pix.map, toF32, n16f32_257 r h.1, n16f32_257 g h.2.1, n16f32_257 b h.2.2.1,
      n16f32_257 a h.2.2.2]

/-- the F32 carrier `n8::f32(v)` gives the same RGBA `f32` pixel as the U8 carrier -/
theorem asRgba_f32_of_u8 (px : Pix) : asRgbaF32 .f32 (px.map n8f32) = asRgbaF32 .u8 px := by
  cases px <;> rfl

/-- the F32 carrier `n16::f32(w)` gives the same RGBA `f32` pixel as the U16 carrier -/
theorem asRgba_f32_of_u16 (px : Pix) : asRgbaF32 .f32 (px.map n16f32) = asRgbaF32 .u16 px := by
  cases px <;> rfl

theorem toF32_one (p : Prec) : toF32 p (normOne p) = CF32.one := by
  cases p
  · exact norm_images.1
  · exact norm_images.2.1
  · rfl

theorem toF32_zero (p : Prec) : toF32 p 0 = 0 := by
  cases p
  · exact norm_images.2.2.1
  · exact norm_images.2.2.2
  · rfl

/-- Grayscale `g` carried as RGB `(g, g, g)` -/
theorem asRgba_gray_rgb (p : Prec) (g : Nat) : asRgbaF32 p (.rgb g g g) = asRgbaF32 p (.gray g) := rfl

/-- Grayscale `g` carried as RGBA `(g, g, g, ONE)` -/
theorem asRgba_gray_rgba (p : Prec) (g : Nat) : asRgbaF32 p (.rgba g g g (normOne p)) = asRgbaF32 p (.gray g) := by
  show toRgba (.rgba (toF32 p g) (toF32 p g) (toF32 p g) (toF32 p (normOne p))) = toRgba (.gray (toF32 p g))
  rw [toF32_one]; rfl

/-- RGB carried as RGBA with alpha `ONE` -/
theorem asRgba_rgb_rgba (p : Prec) (r g b : Nat) :
    asRgbaF32 p (.rgba r g b (normOne p)) = asRgbaF32 p (.rgb r g b) := by
  show toRgba (.rgba (toF32 p r) (toF32 p g) (toF32 p b) (toF32 p (normOne p))) =
    toRgba (.rgb (toF32 p r) (toF32 p g) (toF32 p b))
  rw [toF32_one]; rfl

/-- Alpha `a` carried as RGBA `(ZERO, ZERO, ZERO, a)` -/
theorem asRgba_alpha_rgba (p : Prec) (a : Nat) : asRgbaF32 p (.rgba 0 0 0 a) = asRgbaF32 p (.alpha a) := by
  show toRgba (.rgba (toF32 p 0) (toF32 p 0) (toF32 p 0) (toF32 p a)) = toRgba (.alpha (toF32 p a))
  rw [toF32_zero]; rfl

/-! ### which encoder runs, and that it agrees with the closure -/

/-- the encoder picked for (`name`, `ch`, `p`) is the universal one, or an integer encoder whose target / fix-ups /
SNORM flag are those of the closure `simpleOf name` -/
def pathOk (name : String) (p : Prec) (ch : Chan) : Bool :=
  match pathOf name ⟨ch, p⟩ with
  | .uni => true
  | .copy => decide (simpleOf name = some (qkOf p false, layout ch false false))
  | .conv t sw x8 sn =>
    !(x8 && sn) && !(sn && decide (p = .f32)) && decide (simpleOf name = some (qkOf p sn, layout t sw x8))
  | .bad => false

/-- `pathOk` on a slice of the format list, all 12 colour formats -/
def pathOkOn (names : List String) : Bool :=
  names.all fun name => [Prec.u8, .u16, .f32].all fun p => [Chan.gray, .alpha, .rgb, .rgba].all fun ch => pathOk name p ch

theorem pathOk_t0 : pathOkOn ((plainNames.drop 0).take 7) = true := by decide +kernel
theorem pathOk_t1 : pathOkOn ((plainNames.drop 7).take 7) = true := by decide +kernel
theorem pathOk_t2 : pathOkOn ((plainNames.drop 14).take 7) = true := by decide +kernel
theorem pathOk_t3 : pathOkOn ((plainNames.drop 21).take 7) = true := by decide +kernel
theorem pathOk_t4 : pathOkOn ((plainNames.drop 28).take 7) = true := by decide +kernel

theorem plainNames_split : plainNames = (plainNames.drop 0).take 7 ++ (plainNames.drop 7).take 7 ++
    (plainNames.drop 14).take 7 ++ (plainNames.drop 21).take 7 ++ (plainNames.drop 28).take 7 := by decide

theorem pathOk_all (name : String) (h : name ∈ plainNames) (p : Prec) (ch : Chan) : pathOk name p ch = true := by
  rw [plainNames_split] at h
  simp only [List.mem_append] at h
  have h1 : ∃ l, pathOkOn l = true ∧ name ∈ l := by
    rcases h with (((h | h) | h) | h) | h
    · exact ⟨_, pathOk_t0, h⟩
    · exact ⟨_, pathOk_t1, h⟩
    · exact ⟨_, pathOk_t2, h⟩
    · exact ⟨_, pathOk_t3, h⟩
    · exact ⟨_, pathOk_t4, h⟩
  obtain ⟨l, hl, hm⟩ := h1
  have h1 := List.all_eq_true.mp hl name hm
  have h2 := List.all_eq_true.mp h1 p (by cases p <;> simp)
  exact List.all_eq_true.mp h2 ch (by cases ch <;> simp)

/-- the quantiser undoes the widening on the whole domain of the precision -/
theorem qk_spec (p : Prec) (sn : Bool) (hs : (sn && decide (p = .f32)) = false) (x : Nat) (hx : x < precBound p) :
    (qkOf p sn).app (toF32 p x) = some (if sn then snormOf p x else x) := by
  cases p <;> cases sn
  · simp only [qkOf, QK.app, toF32, Bool.false_eq_true, if_false]; rw [n8_n8f32 x hx]
  · simp only [qkOf, QK.app, toF32, if_true, snormOf]; exact s8_n8f32 x hx
  · simp only [qkOf, QK.app, toF32, Bool.false_eq_true, if_false]; rw [n16_n16f32 x hx]
  · simp only [qkOf, QK.app, toF32, if_true, snormOf]; exact s16_n16f32 x hx
  · simp only [qkOf, QK.app, toF32, Bool.false_eq_true, if_false, id]
  · simp at hs

theorem normOne_lt (p : Prec) : normOne p < precBound p := by cases p <;> decide
theorem precBound_pos (p : Prec) : 0 < precBound p := by cases p <;> decide

theorem convCodes_self (p : Prec) (px : Pix) : convCodes p px.chan false false false px = px.vals := by
  cases px <;> rfl

/-- NORMAL FORM: whichever encoder `pick_encoder` selects for the colour format of the image, the stored elements
of a pixel are the `universal!` closure of `as_rgba_f32` of the pixel -/
theorem pixelCodes_eq_uni (Q : Ext) (name : String) (p : Prec) (px : Pix) (hok : pathOk name p px.chan = true)
    (hpx : px.below (precBound p)) : pixelCodes Q name p px = uni Q name (asRgbaF32 p px) := by
  unfold pixelCodes
  unfold pathOk at hok
  generalize pathOf name ⟨px.chan, p⟩ = path at hok
  cases path with
  | uni => rfl
  | bad => simp at hok
  | copy =>
    simp only [decide_eq_true_eq] at hok
    rw [uni_simple Q name _ _ hok]
    show some px.vals = _
    rw [← convCodes_self p px]
    exact conv_eq_simple p (toF32 p) (precBound p) false _ (qk_spec p false (by simp)) (toF32_one p) (toF32_zero p)
      (normOne_lt p) (precBound_pos p) px.chan false false (by simp) px hpx
  | conv t sw x8 sn =>
    simp only [Bool.and_eq_true, Bool.not_eq_true', decide_eq_true_eq] at hok
    obtain ⟨⟨h1, h2⟩, h3⟩ := hok
    rw [uni_simple Q name _ _ h3]
    exact conv_eq_simple p (toF32 p) (precBound p) sn _ (qk_spec p sn h2) (toF32_one p) (toF32_zero p)
      (normOne_lt p) (precBound_pos p) t sw x8 h1 px hpx

theorem below_map (f : Nat → Nat) (n m : Nat) (h : ∀ x, x < n → f x < m) (px : Pix) (hpx : px.below n) :
    (px.map f).below m := by
  cases px with
  | gray g => exact h g hpx
  | alpha a => exact h a hpx
  | rgb r g b => exact ⟨h r hpx.1, h g hpx.2.1, h b hpx.2.2⟩
  | rgba r g b a => exact ⟨h r hpx.1, h g hpx.2.1, h b hpx.2.2.1, h a hpx.2.2.2⟩

/-- the normal form for every plain format and every colour format -/
theorem pixelCodes_normal (Q : Ext) (name : String) (hn : name ∈ plainNames) (p : Prec) (px : Pix)
    (hpx : px.below (precBound p)) : pixelCodes Q name p px = uni Q name (asRgbaF32 p px) :=
  pixelCodes_eq_uni Q name p px (pathOk_all name hn p px.chan) hpx

/-- 8-bit values: the U16 (`257·v`) and F32 (`n8::f32 v`) carriers store what the U8 carrier stores -/
theorem codes_u8 (Q : Ext) (name : String) (hn : name ∈ plainNames) (px : Pix) (hpx : px.below 256) :
    pixelCodes Q name .u16 (px.map n8_n16) = pixelCodes Q name .u8 px ∧
    pixelCodes Q name .f32 (px.map n8f32) = pixelCodes Q name .u8 px := by
  have b16 : (px.map n8_n16).below (precBound .u16) :=
    below_map _ 256 65536 (fun x hx => by unfold n8_n16; omega) px hpx
  have b32 : (px.map n8f32).below (precBound .f32) := below_map _ 256 (2 ^ 32) n8f32_lt px hpx
  rw [pixelCodes_normal Q name hn .u16 _ b16, pixelCodes_normal Q name hn .f32 _ b32,
    pixelCodes_normal Q name hn .u8 px hpx, asRgba_f32_of_u8]
  have e : px.map n8_n16 = px.map (· * 257) := rfl
  rw [e, asRgba_u16_of_u8 px hpx]
  exact ⟨rfl, rfl⟩

/-- 16-bit values: the F32 carrier (`n16::f32 w`) stores what the U16 carrier stores -/
theorem codes_u16 (Q : Ext) (name : String) (hn : name ∈ plainNames) (px : Pix) (hpx : px.below 65536) :
    pixelCodes Q name .f32 (px.map n16f32) = pixelCodes Q name .u16 px := by
  have b32 : (px.map n16f32).below (precBound .f32) := below_map _ 65536 (2 ^ 32) n16f32_lt px hpx
  rw [pixelCodes_normal Q name hn .f32 _ b32, pixelCodes_normal Q name hn .u16 px hpx, asRgba_f32_of_u16]

theorem normOne_lt' (p : Prec) : normOne p < precBound p := normOne_lt p

/-- the same colour in a wider channel layout stores the same elements -/
theorem codes_channels (Q : Ext) (name : String) (hn : name ∈ plainNames) (p : Prec) (r g b a : Nat)
    (hr : r < precBound p) (hg : g < precBound p) (hb : b < precBound p) (ha : a < precBound p) :
    pixelCodes Q name p (.rgb g g g) = pixelCodes Q name p (.gray g) ∧
    pixelCodes Q name p (.rgba g g g (normOne p)) = pixelCodes Q name p (.gray g) ∧
    pixelCodes Q name p (.rgba r g b (normOne p)) = pixelCodes Q name p (.rgb r g b) ∧
    pixelCodes Q name p (.rgba 0 0 0 a) = pixelCodes Q name p (.alpha a) := by
  have h1 := normOne_lt p
  have h0 := precBound_pos p
  rw [pixelCodes_normal Q name hn p (.rgb g g g) ⟨hg, hg, hg⟩,
    pixelCodes_normal Q name hn p (.gray g) hg,
    pixelCodes_normal Q name hn p (.rgba g g g (normOne p)) ⟨hg, hg, hg, h1⟩,
    pixelCodes_normal Q name hn p (.rgba r g b (normOne p)) ⟨hr, hg, hb, h1⟩,
    pixelCodes_normal Q name hn p (.rgb r g b) ⟨hr, hg, hb⟩,
    pixelCodes_normal Q name hn p (.rgba 0 0 0 a) ⟨h0, h0, h0, ha⟩,
    pixelCodes_normal Q name hn p (.alpha a) ha,
    asRgba_gray_rgb, asRgba_gray_rgba, asRgba_rgb_rgba, asRgba_alpha_rgba]
  exact ⟨rfl, rfl, rfl, rfl⟩

/-! ### sub-sampled and bi-planar formats: universal encoders only -/

theorem block_uni_table : (blockNames.all fun name => [Prec.u8, .u16, .f32].all fun p =>
    [Chan.gray, .alpha, .rgb, .rgba].all fun ch => decide (pathOf name ⟨ch, p⟩ = .uni)) = true := by decide +kernel

theorem blockCodes_eq_uni (Q : Ext) (name : String) (h : name ∈ blockNames) (p : Prec) (ch : Chan) (pxs : List Pix) :
    blockCodes Q name p ch pxs = uniBlock Q name (pxs.map (asRgbaF32 p)) := by
  have h1 := List.all_eq_true.mp block_uni_table name h
  have h2 := List.all_eq_true.mp h1 p (by cases p <;> simp)
  have h3 := of_decide_eq_true (List.all_eq_true.mp h2 ch (by cases ch <;> simp))
  unfold blockCodes
  rw [h3]

theorem map_asRgba_u16_of_u8 (pxs : List Pix) (h : ∀ px ∈ pxs, px.below 256) :
    (pxs.map (Pix.map n8_n16)).map (asRgbaF32 .u16) = pxs.map (asRgbaF32 .u8) := by
  rw [List.map_map]
  apply List.map_congr_left
  intro px hm
  exact asRgba_u16_of_u8 px (h px hm)

theorem map_asRgba_f32_of_u8 (pxs : List Pix) :
    (pxs.map (Pix.map n8f32)).map (asRgbaF32 .f32) = pxs.map (asRgbaF32 .u8) := by
  rw [List.map_map]
  apply List.map_congr_left
  intro px _
  exact asRgba_f32_of_u8 px

theorem map_asRgba_f32_of_u16 (pxs : List Pix) :
    (pxs.map (Pix.map n16f32)).map (asRgbaF32 .f32) = pxs.map (asRgbaF32 .u16) := by
  rw [List.map_map]
  apply List.map_congr_left
  intro px _
  exact asRgba_f32_of_u16 px

end Dds.EncCarrier
