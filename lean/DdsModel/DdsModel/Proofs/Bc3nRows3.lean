/-
BC3n `calc_b` = specification `z8`: rows `r = 96 … 127` (all 256 values of `g` each), by kernel evaluation
of the checker of `Proofs/Bc3nCalc.lean` (GENERATED: the eight files `Bc3nRows0…7` differ only in the range).
-/
import DdsModel.Proofs.Bc3nCalc
namespace Dds.Bc3n
set_option maxRecDepth 100000

theorem chunk96 : rowsChk 96 8 = true := by decide +kernel
theorem chunk104 : rowsChk 104 8 = true := by decide +kernel
theorem chunk112 : rowsChk 112 8 = true := by decide +kernel
theorem chunk120 : rowsChk 120 8 = true := by decide +kernel

theorem rows3 (r g : Nat) (h1 : 96 ≤ r) (h2 : r < 128) (hg : g < 256) : Bc.calcB r g = BcSpec.z8 r g := by
  by_cases a : r < 104
  · exact of_rows 96 8 chunk96 r g (by omega) (by omega) (by omega) hg
  · by_cases b : r < 112
    · exact of_rows 104 8 chunk104 r g (by omega) (by omega) (by omega) hg
    · by_cases c : r < 120
      · exact of_rows 112 8 chunk112 r g (by omega) (by omega) (by omega) hg
      · exact of_rows 120 8 chunk120 r g (by omega) (by omega) (by omega) hg

end Dds.Bc3n
