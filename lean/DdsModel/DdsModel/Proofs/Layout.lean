/- Helper lemmas about the layout model. Property theorems are in `Theorems/C02.lean`. -/
import DdsModel.Layout
namespace Dds

theorem ckMul_eq (a b : Nat) : ckMul a b = if a * b < U64 then some (a * b) else none := rfl
theorem ckAdd_eq (a b : Nat) : ckAdd a b = if a + b < U64 then some (a + b) else none := rfl

theorem mipSize_pos (d l : Nat) : 0 < mipSize d l := by
  unfold mipSize
  generalize d >>> l = x
  split
  · omega
  · split <;> omega

theorem mipSize_le (d l : Nat) (hd : 0 < d) : mipSize d l ≤ d := by
  unfold mipSize
  split
  · omega
  · split
    · omega
    · rw [Nat.shiftRight_eq_div_pow]; exact Nat.div_le_self _ _

theorem mipSize_lt_U32 (d l : Nat) (hd : d < U32) : mipSize d l < U32 := by
  by_cases h0 : d = 0
  · subst h0; unfold mipSize; split
    · unfold U32; omega
    · simp [U32]
  · have := mipSize_le d l (by omega); omega

/-- the property's formula: `max(1, dim >> level)` -/
theorem mipSize_eq_max (d l : Nat) (hd : d < U32) : mipSize d l = max 1 (d / 2 ^ l) := by
  unfold mipSize
  by_cases h31 : l ≥ 31
  · simp only [h31, if_true]
    have hp : 2 ^ 31 ≤ 2 ^ l := Nat.pow_le_pow_right (by omega) h31
    have h1 : d / 2 ^ l ≤ 1 := by
      have hlt : d < 2 * 2 ^ l := by unfold U32 at hd; omega
      have : d / 2 ^ l < 2 := by
        apply (Nat.div_lt_iff_lt_mul (by omega : 0 < 2 ^ l)).2; omega
      omega
    omega
  · simp only [h31, if_false, Nat.shiftRight_eq_div_pow]
    generalize d / 2 ^ l = x
    split <;> omega

/-- `some x` when `x` fits in a `u64` -/
def ckSome (x : Nat) : Option Nat := if x < U64 then some x else none

theorem ckSome_lt {x : Nat} (h : x < U64) : ckSome x = some x := by simp [ckSome, h]
theorem ckSome_ge {x : Nat} (h : ¬ x < U64) : ckSome x = none := by simp [ckSome, h]
theorem ckMul_ckSome (a b : Nat) : ckMul a b = ckSome (a * b) := rfl
theorem ckAdd_ckSome (a b : Nat) : ckAdd a b = ckSome (a + b) := rfl
theorem ckSome_eq_some {x y : Nat} (h : ckSome x = some y) : x = y ∧ x < U64 := by
  unfold ckSome at h; split at h
  · exact ⟨by injection h, by assumption⟩
  · cases h

theorem ckSome_add_ge_left {a b : Nat} (h : ¬ a < U64) : ckSome (a + b) = none :=
  ckSome_ge (by omega)
theorem ckSome_add_ge_right {a b : Nat} (h : ¬ b < U64) : ckSome (a + b) = none :=
  ckSome_ge (by omega)

/-! ### `surface_bytes` against the ideal length -/

theorem surfaceBytes_eq (p : PixelInfo) (hp : p.WF) (w h : Nat) :
    p.surfaceBytes w h = ckSome (p.surfIdeal w h) := by
  cases p with
  | fixed bpp => simp [PixelInfo.surfaceBytes, PixelInfo.surfIdeal, ckMul_ckSome]
  | block bytes bw bh =>
    obtain ⟨_, hbw, _, hbh, _⟩ := hp
    simp [PixelInfo.surfaceBytes, PixelInfo.surfIdeal, ckMul_ckSome, divCeil_eq _ _ hbw,
      divCeil_eq _ _ hbh]
  | biPlanar p1 p2 sx sy =>
    obtain ⟨_, _, hsx, _, hsy, _⟩ := hp
    simp only [PixelInfo.surfaceBytes, PixelInfo.surfIdeal, ckMul_ckSome, ckAdd_ckSome,
      divCeil_eq _ _ hsx, divCeil_eq _ _ hsy]
    by_cases h1 : w * h * p1 < U64
    · rw [ckSome_lt h1]
      by_cases h2 : (w + sx - 1) / sx * ((h + sy - 1) / sy) * p2 < U64
      · rw [ckSome_lt h2]
      · rw [ckSome_ge h2, ckSome_add_ge_right h2]
    · rw [ckSome_ge h1, ckSome_add_ge_left h1]

/-! ### texture lengths -/

/-- ideal length of `n` mip levels starting at `level` -/
def texIdeal (px : PixelInfo) (w h : Nat) : (level n : Nat) → Nat
  | _, 0 => 0
  | level, n + 1 =>
    px.surfIdeal (mipSize w level) (mipSize h level) + texIdeal px w h (level + 1) n

theorem textureLenAux_eq (px : PixelInfo) (hp : px.WF) (w h : Nat) :
    ∀ (n level acc : Nat), acc < U64 →
      textureLenAux px w h level n acc = ckSome (acc + texIdeal px w h level n) := by
  intro n
  induction n with
  | zero => intro level acc hacc; simp [textureLenAux, texIdeal, ckSome_lt hacc]
  | succ n ih =>
    intro level acc hacc
    simp only [textureLenAux, texIdeal, surfaceBytes_eq px hp]
    by_cases h1 : px.surfIdeal (mipSize w level) (mipSize h level) < U64
    · rw [ckSome_lt h1]
      simp only [ckAdd_ckSome]
      by_cases h2 : acc + px.surfIdeal (mipSize w level) (mipSize h level) < U64
      · rw [ckSome_lt h2]
        simp only [ih _ _ h2, Nat.add_assoc]
      · rw [ckSome_ge h2, ← Nat.add_assoc, ckSome_add_ge_left h2]
    · rw [ckSome_ge h1, ← Nat.add_assoc, Nat.add_comm acc, Nat.add_assoc, ckSome_add_ge_left h1]

theorem textureLen_eq (px : PixelInfo) (hp : px.WF) (w h mips : Nat) :
    textureLen px w h mips = ckSome (texIdeal px w h 0 mips) := by
  unfold textureLen
  rw [textureLenAux_eq px hp _ _ _ _ _ (by unfold U64; omega)]
  simp


/-! ### the specification list of mip surfaces (ideal arithmetic) -/

def specMips (px : PixelInfo) (w h : Nat) : (level n off : Nat) → List Surface
  | _, 0, _ => []
  | level, n + 1, off =>
    ⟨mipSize w level, mipSize h level, off, px.surfIdeal (mipSize w level) (mipSize h level)⟩ ::
      specMips px w h (level + 1) n (off + px.surfIdeal (mipSize w level) (mipSize h level))

theorem iterMipsAux_eq (px : PixelInfo) (hp : px.WF) (w h : Nat) :
    ∀ (n level off : Nat), off + texIdeal px w h level n < U64 →
      iterMipsAux px w h level n off = some (specMips px w h level n off) := by
  intro n
  induction n with
  | zero => intro level off _; simp [iterMipsAux, specMips]
  | succ n ih =>
    intro level off hlt
    simp only [texIdeal] at hlt
    have h1 : px.surfIdeal (mipSize w level) (mipSize h level) < U64 := by omega
    have h2 : off + px.surfIdeal (mipSize w level) (mipSize h level) < U64 := by omega
    simp only [iterMipsAux, specMips, surfaceBytes_eq px hp, ckSome_lt h1, wAdd_eq h2]
    rw [ih (level + 1) _ (by omega)]

/-- `Contig s l e`: the surfaces of `l` start at `s`, each starts where the previous one ends,
and the last one ends at `e` (no gap, no overlap). -/
def Contig : Nat → List Surface → Nat → Prop
  | s, [], e => s = e
  | s, x :: r, e => x.offset = s ∧ Contig (s + x.len) r e

theorem Contig_append {l1 l2 : List Surface} : ∀ {a b c : Nat},
    Contig a l1 b → Contig b l2 c → Contig a (l1 ++ l2) c := by
  induction l1 with
  | nil => intro a b c h1 h2; simp only [Contig] at h1; subst h1; simpa using h2
  | cons x r ih =>
    intro a b c h1 h2
    simp only [Contig, List.cons_append] at h1 ⊢
    exact ⟨h1.1, ih h1.2 h2⟩

theorem specMips_contig (px : PixelInfo) (w h : Nat) : ∀ (n level off : Nat),
    Contig off (specMips px w h level n off) (off + texIdeal px w h level n) := by
  intro n
  induction n with
  | zero => intro level off; simp [specMips, Contig, texIdeal]
  | succ n ih =>
    intro level off
    simp only [specMips, Contig, texIdeal, true_and]
    rw [← Nat.add_assoc]
    exact ih _ _

theorem specMips_length (px : PixelInfo) (w h : Nat) : ∀ (n level off : Nat),
    (specMips px w h level n off).length = n := by
  intro n
  induction n with
  | zero => intro _ _; rfl
  | succ n ih => intro level off; simp [specMips, ih]

theorem specMips_getElem (px : PixelInfo) (w h : Nat) : ∀ (n level off j : Nat) (s : Surface),
    (specMips px w h level n off)[j]? = some s →
      j < n ∧ s.w = mipSize w (level + j) ∧ s.h = mipSize h (level + j) ∧
      s.len = px.surfIdeal s.w s.h ∧ s.offset = off + texIdeal px w h level j := by
  intro n
  induction n with
  | zero => intro level off j s h; simp [specMips] at h
  | succ n ih =>
    intro level off j s h
    cases j with
    | zero =>
      simp only [specMips, List.getElem?_cons_zero, Option.some.injEq] at h
      subst h
      simp [texIdeal]
    | succ j =>
      simp only [specMips, List.getElem?_cons_succ] at h
      obtain ⟨h1, h2, h3, h4, h5⟩ := ih _ _ _ _ h
      refine ⟨by omega, ?_, ?_, h4, ?_⟩
      · rw [h2]; congr 1; omega
      · rw [h3]; congr 1; omega
      · rw [h5]; simp only [texIdeal]; omega

/-! ### textures -/

/-- the invariant `Texture::create_at_offset_0` / `TextureArray::get` establish -/
structure Texture.Valid (t : Texture) : Prop where
  wf : t.px.WF
  fits : (t.offsetIndex + 1) * texIdeal t.px t.w t.h 0 t.mips < U64
  idx : t.offsetIndex < U32
  short : t.shortLen = toShortLen (texIdeal t.px t.w t.h 0 t.mips)

def Texture.len (t : Texture) : Nat := texIdeal t.px t.w t.h 0 t.mips

theorem Texture.Valid.len_lt {t : Texture} (v : t.Valid) : t.len < U64 := by
  have := v.fits
  unfold Texture.len
  have : texIdeal t.px t.w t.h 0 t.mips ≤ (t.offsetIndex + 1) * texIdeal t.px t.w t.h 0 t.mips :=
    Nat.le_mul_of_pos_left _ (by omega)
  omega

theorem Texture.Valid.dataLenP {t : Texture} (v : t.Valid) : t.dataLenP = some t.len := by
  unfold Texture.dataLenP
  rw [v.short]
  unfold toShortLen
  by_cases hc : texIdeal t.px t.w t.h 0 t.mips < U32 ∧ texIdeal t.px t.w t.h 0 t.mips ≠ 0
  · rw [if_pos hc]; rfl
  · rw [if_neg hc]
    show textureLen t.px t.w t.h t.mips = some t.len
    rw [textureLen_eq _ v.wf]; exact ckSome_lt v.len_lt

theorem Texture.Valid.dataOffsetP {t : Texture} (v : t.Valid) :
    t.dataOffsetP = some (t.offsetIndex * t.len) := by
  unfold Texture.dataOffsetP
  rw [v.dataLenP]
  have := v.fits
  have h : t.offsetIndex * t.len < U64 := by
    unfold Texture.len; rw [Nat.add_mul] at this; omega
  simp [wMul_eq h]

theorem Texture.Valid.dataEndP {t : Texture} (v : t.Valid) :
    t.dataEndP = some ((t.offsetIndex + 1) * t.len) := by
  unfold Texture.dataEndP
  rw [v.dataLenP]
  have h1 : t.offsetIndex + 1 < U64 := by have := v.idx; unfold U32 at this; unfold U64; omega
  simp [wAdd_eq h1, wMul_eq v.fits, Texture.len]

theorem Texture.Valid.iterMipsP {t : Texture} (v : t.Valid) :
    t.iterMipsP = some (specMips t.px t.w t.h 0 t.mips (t.offsetIndex * t.len)) := by
  unfold Texture.iterMipsP
  rw [v.dataOffsetP]
  simp only
  apply iterMipsAux_eq _ v.wf
  have := v.fits
  unfold Texture.len
  rw [Nat.add_mul] at this; omega

theorem Texture.create_ok {w h mips : Nat} {px : PixelInfo} (hp : px.WF) {t : Texture}
    (hc : Texture.create w h mips px = .ok t) :
    t.Valid ∧ t.w = w ∧ t.h = h ∧ t.mips = mips ∧ t.px = px ∧ t.offsetIndex = 0 := by
  unfold Texture.create at hc
  rw [textureLen_eq _ hp] at hc
  by_cases hl : texIdeal px w h 0 mips < U64
  · rw [ckSome_lt hl] at hc
    simp only [Except.ok.injEq] at hc
    subst hc
    refine ⟨⟨hp, ?_, ?_, rfl⟩, rfl, rfl, rfl, rfl, rfl⟩
    · simpa using hl
    · simp [U32]
  · rw [ckSome_ge hl] at hc; cases hc

theorem Texture.create_eq {w h mips : Nat} {px : PixelInfo} (hp : px.WF) :
    Texture.create w h mips px =
      if texIdeal px w h 0 mips < U64 then
        .ok { w, h, mips, px, offsetIndex := 0, shortLen := toShortLen (texIdeal px w h 0 mips) }
      else .error .dataLayoutTooBig := by
  unfold Texture.create
  rw [textureLen_eq _ hp]
  by_cases hl : texIdeal px w h 0 mips < U64
  · rw [ckSome_lt hl, if_pos hl]
  · rw [ckSome_ge hl, if_neg hl]

/-! ### arrays -/

theorem sequenceOpt_map_some {α β : Type} (f : α → Option β) (g : α → β) :
    ∀ (l : List α), (∀ x ∈ l, f x = some (g x)) → sequenceOpt (l.map f) = some (l.map g) := by
  intro l
  induction l with
  | nil => intro _; rfl
  | cons a r ih =>
    intro h
    have ha := h a (by simp)
    have hr := ih (fun x hx => h x (by simp [hx]))
    simp [sequenceOpt, ha, hr]

/-- the specification of an array's surfaces -/
def specArray (px : PixelInfo) (w h mips n : Nat) : List Surface :=
  ((List.range n).map fun i => specMips px w h 0 mips (i * texIdeal px w h 0 mips)).flatten

theorem specArray_contig (px : PixelInfo) (w h mips : Nat) : ∀ n,
    Contig 0 (specArray px w h mips n) (n * texIdeal px w h 0 mips) := by
  intro n
  induction n with
  | zero => simp [specArray, Contig]
  | succ n ih =>
    unfold specArray at ih ⊢
    rw [List.range_succ, List.map_append, List.flatten_append]
    apply Contig_append ih
    simp only [List.map_cons, List.map_nil, List.flatten_cons, List.flatten_nil, List.append_nil]
    have := specMips_contig px w h mips 0 (n * texIdeal px w h 0 mips)
    rw [Nat.add_mul, Nat.one_mul]
    exact this

/-- the invariant `TextureArray::new` establishes -/
structure TextureArray.Valid (a : TextureArray) : Prop where
  wf : a.px.WF
  fits : a.arrayLen * texIdeal a.px a.w a.h 0 a.mips < U64
  len : a.arrayLen < U32
  tex : texIdeal a.px a.w a.h 0 a.mips < U64
  short : a.shortLen = toShortLen (texIdeal a.px a.w a.h 0 a.mips)

theorem TextureArray.Valid.elem {a : TextureArray} (v : a.Valid) {i : Nat} (hi : i < a.arrayLen) :
    ({ a.first with offsetIndex := i } : Texture).Valid := by
  refine ⟨v.wf, ?_, ?_, v.short⟩
  · show (i + 1) * texIdeal a.px a.w a.h 0 a.mips < U64
    have h1 : (i + 1) * texIdeal a.px a.w a.h 0 a.mips ≤ a.arrayLen * texIdeal a.px a.w a.h 0 a.mips :=
      Nat.mul_le_mul_right _ (by omega)
    have := v.fits
    omega
  · show i < U32
    have := v.len; omega

theorem TextureArray.Valid.first {a : TextureArray} (v : a.Valid) : a.first.Valid := by
  refine ⟨v.wf, ?_, ?_, v.short⟩
  · show (0 + 1) * texIdeal a.px a.w a.h 0 a.mips < U64
    have := v.tex; omega
  · show 0 < U32
    simp [U32]

theorem TextureArray.Valid.dataLenP {a : TextureArray} (v : a.Valid) :
    a.dataLenP = some (a.arrayLen * texIdeal a.px a.w a.h 0 a.mips) := by
  unfold TextureArray.dataLenP
  rw [v.first.dataLenP]
  have h : a.first.len * a.arrayLen < U64 := by
    show texIdeal a.px a.w a.h 0 a.mips * a.arrayLen < U64
    rw [Nat.mul_comm]; exact v.fits
  simp only [Option.map_some, wMul_eq h]
  show some (texIdeal a.px a.w a.h 0 a.mips * a.arrayLen) = _
  rw [Nat.mul_comm]

theorem TextureArray.Valid.flattenP {a : TextureArray} (v : a.Valid) :
    (DataLayout.textureArray a).flattenP = some (specArray a.px a.w a.h a.mips a.arrayLen) := by
  simp only [DataLayout.flattenP, TextureArray.iter, List.map_map]
  rw [sequenceOpt_map_some _
    (fun i => specMips a.px a.w a.h 0 a.mips (i * texIdeal a.px a.w a.h 0 a.mips))]
  · rfl
  · intro i hi
    have hi' : i < a.arrayLen := by simpa using hi
    simp only [Function.comp]
    exact (v.elem hi').iterMipsP

theorem TextureArray.new_eq {kind : ArrayKind} {n : Nat} {first : Texture} (v : first.Valid)
    (_h0 : first.offsetIndex = 0) :
    TextureArray.new kind n first =
      some (if first.len * n < U64 then
        .ok { kind, arrayLen := n, w := first.w, h := first.h, mips := first.mips,
              px := first.px, shortLen := first.shortLen }
      else .error .dataLayoutTooBig) := by
  unfold TextureArray.new
  rw [v.dataLenP]
  simp only [ckMul_ckSome]
  by_cases hl : first.len * n < U64
  · rw [ckSome_lt hl, if_pos hl]
  · rw [ckSome_ge hl, if_neg hl]

/-! ### volumes -/

def volIdeal (px : PixelInfo) (w h d : Nat) : (level n : Nat) → Nat
  | _, 0 => 0
  | level, n + 1 =>
    px.surfIdeal (mipSize w level) (mipSize h level) * mipSize d level
      + volIdeal px w h d (level + 1) n

theorem volumeLenAux_eq (px : PixelInfo) (hp : px.WF) (w h d : Nat) :
    ∀ (n level acc : Nat), acc < U64 →
      volumeLenAux px w h d level n acc = ckSome (acc + volIdeal px w h d level n) := by
  intro n
  induction n with
  | zero => intro level acc hacc; simp [volumeLenAux, volIdeal, ckSome_lt hacc]
  | succ n ih =>
    intro level acc hacc
    simp only [volumeLenAux, volIdeal, surfaceBytes_eq px hp]
    have hd := mipSize_pos d level
    by_cases h1 : px.surfIdeal (mipSize w level) (mipSize h level) < U64
    · rw [ckSome_lt h1]
      simp only [ckMul_ckSome, ckAdd_ckSome]
      by_cases h2 : px.surfIdeal (mipSize w level) (mipSize h level) * mipSize d level < U64
      · rw [ckSome_lt h2]
        simp only
        by_cases h3 : acc + px.surfIdeal (mipSize w level) (mipSize h level) * mipSize d level < U64
        · rw [ckSome_lt h3]
          simp only [ih _ _ h3, Nat.add_assoc]
        · rw [ckSome_ge h3, ← Nat.add_assoc, ckSome_add_ge_left h3]
      · rw [ckSome_ge h2, ← Nat.add_assoc, Nat.add_comm acc, Nat.add_assoc, ckSome_add_ge_left h2]
    · rw [ckSome_ge h1]
      have h2 : ¬ px.surfIdeal (mipSize w level) (mipSize h level) * mipSize d level < U64 := by
        have := Nat.le_mul_of_pos_right (px.surfIdeal (mipSize w level) (mipSize h level)) hd
        omega
      rw [← Nat.add_assoc, Nat.add_comm acc, Nat.add_assoc, ckSome_add_ge_left h2]

theorem volumeLen_eq (px : PixelInfo) (hp : px.WF) (w h d mips : Nat) :
    volumeLen px w h d mips = ckSome (volIdeal px w h d 0 mips) := by
  unfold volumeLen
  rw [volumeLenAux_eq px hp _ _ _ _ _ _ (by unfold U64; omega)]
  simp

def specVol (px : PixelInfo) (w h d : Nat) : (level n off : Nat) → List VolumeDesc
  | _, 0, _ => []
  | level, n + 1, off =>
    ⟨mipSize w level, mipSize h level, mipSize d level, off,
      px.surfIdeal (mipSize w level) (mipSize h level)⟩ ::
      specVol px w h d (level + 1) n
        (off + px.surfIdeal (mipSize w level) (mipSize h level) * mipSize d level)

theorem volIterMipsAux_eq (px : PixelInfo) (hp : px.WF) (w h d : Nat) :
    ∀ (n level off : Nat), off + volIdeal px w h d level n < U64 →
      volIterMipsAux px w h d level n off = some (specVol px w h d level n off) := by
  intro n
  induction n with
  | zero => intro level off _; simp [volIterMipsAux, specVol]
  | succ n ih =>
    intro level off hlt
    simp only [volIdeal] at hlt
    have hd := mipSize_pos d level
    have h0 : px.surfIdeal (mipSize w level) (mipSize h level) * mipSize d level < U64 := by omega
    have h1 : px.surfIdeal (mipSize w level) (mipSize h level) < U64 := by
      have := Nat.le_mul_of_pos_right (px.surfIdeal (mipSize w level) (mipSize h level)) hd
      omega
    have h0' : mipSize d level * px.surfIdeal (mipSize w level) (mipSize h level) < U64 := by
      rw [Nat.mul_comm]; exact h0
    have h2 : off + mipSize d level * px.surfIdeal (mipSize w level) (mipSize h level) < U64 := by
      rw [Nat.mul_comm]; omega
    simp only [volIterMipsAux, specVol, surfaceBytes_eq px hp, ckSome_lt h1, wMul_eq h0',
      wAdd_eq h2]
    rw [Nat.mul_comm (mipSize d level)]
    rw [ih (level + 1) _ (by omega)]

/-- ideal depth slices of one mip level -/
def specSlices (v : VolumeDesc) : List Surface :=
  (List.range v.d).map fun k => ⟨v.w, v.h, v.offset + k * v.sliceLen, v.sliceLen⟩

theorem slices_contig (w h off sl : Nat) : ∀ d,
    Contig off ((List.range d).map fun k => (⟨w, h, off + k * sl, sl⟩ : Surface)) (off + d * sl) := by
  intro d
  induction d with
  | zero => simp [Contig]
  | succ d ih =>
    rw [List.range_succ, List.map_append]
    apply Contig_append ih
    simp only [List.map_cons, List.map_nil, Contig, true_and]
    rw [Nat.add_mul]; omega

theorem iterDepthSlices_eq (v : VolumeDesc) (h : v.offset + v.d * v.sliceLen < U64) :
    v.iterDepthSlices = specSlices v := by
  unfold VolumeDesc.iterDepthSlices specSlices
  apply List.map_congr_left
  intro k hk
  have hk' : k < v.d := by simpa using hk
  have h1 : k * v.sliceLen ≤ v.d * v.sliceLen := Nat.mul_le_mul_right _ (by omega)
  rw [wMul_eq (by omega), wAdd_eq (by omega)]

def specVolFlat (px : PixelInfo) (w h d level n off : Nat) : List Surface :=
  ((specVol px w h d level n off).map specSlices).flatten

theorem specVolFlat_contig (px : PixelInfo) (w h d : Nat) : ∀ (n level off : Nat),
    Contig off (specVolFlat px w h d level n off) (off + volIdeal px w h d level n) := by
  intro n
  induction n with
  | zero => intro level off; simp [specVolFlat, specVol, Contig, volIdeal]
  | succ n ih =>
    intro level off
    unfold specVolFlat
    simp only [specVol, List.map_cons, List.flatten_cons, volIdeal]
    apply Contig_append
    · unfold specSlices
      simp only
      exact slices_contig _ _ off _ (mipSize d level)
    · rw [← Nat.add_assoc, Nat.mul_comm (mipSize d level)]
      exact ih _ _

theorem specVol_bound (px : PixelInfo) (w h d : Nat) : ∀ (n level off : Nat) (v : VolumeDesc),
    v ∈ specVol px w h d level n off →
      v.offset + v.d * v.sliceLen ≤ off + volIdeal px w h d level n := by
  intro n
  induction n with
  | zero => intro level off v hv; simp [specVol] at hv
  | succ n ih =>
    intro level off v hv
    simp only [specVol, List.mem_cons] at hv
    simp only [volIdeal]
    cases hv with
    | inl h => subst h; simp only; rw [Nat.mul_comm]; omega
    | inr h => have := ih _ _ _ h; omega

structure Volume.Valid (v : Volume) : Prop where
  wf : v.px.WF
  fits : volIdeal v.px v.w v.h v.d 0 v.mips < U64

theorem Volume.Valid.dataLenP {v : Volume} (hv : v.Valid) :
    v.dataLenP = some (volIdeal v.px v.w v.h v.d 0 v.mips) := by
  unfold Volume.dataLenP
  rw [volumeLen_eq _ hv.wf, ckSome_lt hv.fits]

theorem Volume.Valid.iterMipsP {v : Volume} (hv : v.Valid) :
    v.iterMipsP = some (specVol v.px v.w v.h v.d 0 v.mips 0) := by
  unfold Volume.iterMipsP
  apply volIterMipsAux_eq _ hv.wf
  have := hv.fits; omega

theorem Volume.Valid.flattenP {v : Volume} (hv : v.Valid) :
    (DataLayout.volume v).flattenP = some (specVolFlat v.px v.w v.h v.d 0 v.mips 0) := by
  simp only [DataLayout.flattenP]
  rw [hv.iterMipsP]
  simp only [Option.map_some, specVolFlat]
  congr 2
  apply List.map_congr_left
  intro x hx
  apply iterDepthSlices_eq
  have := specVol_bound _ _ _ _ _ _ _ _ hx
  have := hv.fits
  omega

theorem Volume.create_eq {w h d mips : Nat} {px : PixelInfo} (hp : px.WF) :
    Volume.create w h d mips px =
      if volIdeal px w h d 0 mips < U64 then .ok { w, h, d, mips, px }
      else .error .dataLayoutTooBig := by
  unfold Volume.create
  rw [volumeLen_eq _ hp]
  by_cases hl : volIdeal px w h d 0 mips < U64
  · rw [ckSome_lt hl, if_pos hl]
  · rw [ckSome_ge hl, if_neg hl]

end Dds
