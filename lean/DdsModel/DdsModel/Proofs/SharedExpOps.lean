/-
C15, R9G9B9E5: the three binary32 operations of `(c * two_powi(k) + 0.5) as u32` on bit
patterns, bounded with the rounding lemmas of `SharedExpRound.lean`.
-/
import DdsModel.Proofs.SharedExpRound
namespace Dds.EncTotal.SharedExp
open Dds.CF32

/-! ### positive finite patterns -/

theorem shr23 (b : Nat) : b >>> 23 = b / 8388608 := Nat.shiftRight_eq_div_pow b 23

theorem expField_eq (b : Nat) : expField b = b / 8388608 % 256 := by
  unfold expField; rw [shr23]

theorem fracField_eq (b : Nat) : fracField b = b % 8388608 := rfl

/-- a pattern below `+∞` is neither NaN nor infinite nor negative -/
theorem posfin_flags (p : Nat) (h : p < posInf) :
    isNaN p = false ∧ isInf p = false ∧ isNeg p = false := by
  have he : expField p ≠ 255 := by rw [expField_eq]; simp only [posInf] at h; omega
  refine ⟨?_, ?_, ?_⟩
  · unfold isNaN; simp [he]
  · unfold isInf; simp [he]
  · unfold isNeg signBit; simp only [posInf] at h; simp; omega

theorem mant_lt (p : Nat) : mant p < 2 ^ 24 := by
  unfold mant
  have : fracField p < 8388608 := by rw [fracField_eq]; omega
  split <;> omega

theorem mant_normal (p : Nat) (h : 1 ≤ expField p) :
    mant p = fracField p + 8388608 ∧ expo p = (expField p : Int) - 150 := by
  have h0 : (expField p == 0) = false := by simp; omega
  unfold mant expo
  simp [h0]

theorem mant_subnormal (p : Nat) (h : expField p = 0) :
    mant p = fracField p ∧ expo p = -149 := by
  unfold mant expo
  simp [h]

theorem pattern_split (p : Nat) (h : p < posInf) :
    p = expField p * 8388608 + fracField p := by
  rw [expField_eq, fracField_eq]; simp only [posInf] at h; omega

theorem log2_eq (m k : Nat) (h1 : 2 ^ k ≤ m) (h2 : m < 2 ^ (k + 1)) : Nat.log2 m = k := by
  have hm : m ≠ 0 := by
    have := Nat.two_pow_pos k
    omega
  have a := (Nat.le_log2 hm).mpr h1
  have b := (Nat.log2_lt hm).mpr h2
  omega

/-! ### `two_powi` -/

/-- `util::two_powi(n)` for `-126 ≤ n ≤ 127` is the positive normal pattern with significand
`2^23` and exponent `n − 23`, i.e. the value `2^n` -/
theorem twoPowi_facts (n : Int) (h1 : -126 ≤ n) (h2 : n ≤ 127) :
    twoPowi n < posInf ∧ mant (twoPowi n) = 2 ^ 23 ∧ expo (twoPowi n) = n - 23 := by
  have hx1 : 1 ≤ (n + 127).toNat := by omega
  have hx2 : (n + 127).toNat ≤ 254 := by omega
  have hxn : ((n + 127).toNat : Int) = n + 127 := by omega
  have hE : expField (twoPowi n) = (n + 127).toNat := by
    rw [expField_eq]; unfold twoPowi; rw [Nat.shiftLeft_eq]
    generalize (n + 127).toNat = x at *
    simp only [Nat.reducePow]; omega
  have hF : fracField (twoPowi n) = 0 := by
    rw [fracField_eq]; unfold twoPowi; rw [Nat.shiftLeft_eq]
    simp only [Nat.reducePow]; omega
  obtain ⟨m1, m2⟩ := mant_normal (twoPowi n) (by omega)
  refine ⟨?_, ?_, ?_⟩
  · unfold twoPowi posInf; rw [Nat.shiftLeft_eq]
    generalize (n + 127).toNat = x at *
    simp only [Nat.reducePow]; omega
  · rw [m1, hF]
  · rw [m2, hE]; omega

/-! ### `c * 2^n` -/

/-- one multiplication of a positive finite number by `two_powi(n)`: the exact product is the
significand of `c` shifted, and it is rounded once -/
theorem fmul_twoPowi (c : Nat) (n : Int) (hc : c < posInf) (h1 : -126 ≤ n) (h2 : n ≤ 127) :
    fmul c (twoPowi n) = roundPack false (mant c * 2 ^ 23) (expo c + (n - 23)) := by
  obtain ⟨f1, f2, f3⟩ := twoPowi_facts n h1 h2
  obtain ⟨a1, a2, a3⟩ := posfin_flags c hc
  obtain ⟨b1, b2, b3⟩ := posfin_flags _ f1
  unfold fmul
  simp only [force_eq, a1, a2, a3, b1, b2, b3, f2, f3]
  simp

/-- **multiplication by a power of two is exact** when operand and result are normal: the
exponent field moves by `n`, the fraction is untouched (no rounding happens) -/
theorem fmul_twoPowi_exact (c : Nat) (n : Int) (hc : c < posInf) (h1 : -126 ≤ n) (h2 : n ≤ 127)
    (hX : 1 ≤ expField c) (hr1 : 1 ≤ (expField c : Int) + n) (hr2 : (expField c : Int) + n ≤ 254) :
    fmul c (twoPowi n) = ((expField c : Int) + n).toNat * 2 ^ 23 + fracField c := by
  rw [fmul_twoPowi c n hc h1 h2]
  obtain ⟨m1, m2⟩ := mant_normal c hX
  have hf : fracField c < 8388608 := by rw [fracField_eq]; omega
  have hlog : Nat.log2 (mant c * 2 ^ 23) = 46 := by
    apply log2_eq
    · rw [show 46 = 23 + 23 from rfl, Nat.pow_add]
      exact Nat.mul_le_mul_right _ (by rw [m1]; simp only [Nat.reducePow]; omega)
    · rw [show 46 + 1 = 24 + 23 from rfl, Nat.pow_add]
      exact Nat.mul_lt_mul_of_pos_right (mant_lt c) (Nat.two_pow_pos 23)
  have hm : mant c * 2 ^ 23 ≠ 0 := by
    have : 0 < mant c * 2 ^ 23 := Nat.mul_pos (by rw [m1]; omega) (Nat.two_pow_pos 23)
    omega
  rw [roundPack_pos _ _ hm, hlog, m2]
  have hE : ((46 : Nat) : Int) + ((expField c : Int) - 150 + (n - 23)) ≥ -126 := by omega
  simp only [hE, if_true]
  have hsh : ((46 : Nat) : Int) + ((expField c : Int) - 150 + (n - 23)) - 23 -
      ((expField c : Int) - 150 + (n - 23)) = 23 := by omega
  rw [hsh]
  have hr : rne (mant c * 2 ^ 23) 23 = mant c := by
    unfold rne
    rw [Nat.shiftRight_eq_div_pow, Nat.mul_div_cancel _ (Nat.two_pow_pos 23), Nat.mul_mod_left]
    simp
  simp only [show ¬ ((23 : Int) ≤ 0) by omega, if_false, show (23 : Int).toNat = 23 from rfl, hr]
  have hb : ((46 : Nat) : Int) + ((expField c : Int) - 150 + (n - 23)) + 126 =
      (expField c : Int) + n - 1 := by omega
  rw [hb, Nat.shiftLeft_eq, m1]
  have hk : ((expField c : Int) + n - 1).toNat + 1 = ((expField c : Int) + n).toNat := by omega
  have hk2 : ((expField c : Int) + n).toNat ≤ 254 := by omega
  rw [← hk] at hk2 ⊢
  generalize ((expField c : Int) + n - 1).toNat = k at *
  rw [Nat.add_mul, Nat.one_mul]
  have hk3 : k * 2 ^ 23 ≤ 2122317824 :=
    Nat.le_trans (Nat.mul_le_mul_right (2 ^ 23) (show k ≤ 253 by omega)) (by decide)
  generalize k * 2 ^ 23 = K at hk3 ⊢
  simp only [Nat.reducePow] at hk3 ⊢
  have hp : posInf = 2139095040 := rfl
  rw [if_neg (by rw [hp]; omega)]
  omega

/-- in every case — subnormal operand, underflow of the result — the rounded product stays at or
below the power of two above the exact product -/
theorem fmul_twoPowi_le (c : Nat) (n K : Int) (hc : c < posInf) (hc0 : mant c ≠ 0)
    (h1 : -126 ≤ n) (h2 : n ≤ 127) (hK : (expField c : Int) + n - 127 ≤ K) (hK2 : -127 ≤ K) :
    fmul c (twoPowi n) ≤ (K + 128).toNat * 2 ^ 23 := by
  rw [fmul_twoPowi c n hc h1 h2]
  have hm : mant c * 2 ^ 23 ≠ 0 := by
    have : 0 < mant c * 2 ^ 23 := Nat.mul_pos (by omega) (Nat.two_pow_pos 23)
    omega
  apply roundPack_le_pow _ _ hm K _ hK2
  by_cases hX : 1 ≤ expField c
  · obtain ⟨_, m2⟩ := mant_normal c hX
    have : Nat.log2 (mant c * 2 ^ 23) < 47 := by
      rw [Nat.log2_lt hm, show 47 = 24 + 23 from rfl, Nat.pow_add]
      exact Nat.mul_lt_mul_of_pos_right (mant_lt c) (Nat.two_pow_pos 23)
    rw [m2]; omega
  · obtain ⟨m1, m2⟩ := mant_subnormal c (by omega)
    have hf : fracField c < 2 ^ 23 := by rw [fracField_eq]; simp only [Nat.reducePow]; omega
    have : Nat.log2 (mant c * 2 ^ 23) < 46 := by
      rw [Nat.log2_lt hm, show 46 = 23 + 23 from rfl, Nat.pow_add, m1]
      exact Nat.mul_lt_mul_of_pos_right hf (Nat.two_pow_pos 23)
    rw [m2]; omega

/-- a zero (of either sign) times `two_powi(n)` is a zero -/
theorem fmul_zero (c : Nat) (n : Int) (hc : c = 0 ∨ c = signBit) (h1 : -126 ≤ n) (h2 : n ≤ 127) :
    fmul c (twoPowi n) = c := by
  obtain ⟨f1, f2, f3⟩ := twoPowi_facts n h1 h2
  obtain ⟨b1, b2, b3⟩ := posfin_flags _ f1
  rcases hc with rfl | rfl
  · unfold fmul
    simp only [force_eq, b1, b2, b3, show isNaN 0 = false from rfl, show isInf 0 = false from rfl,
      show isNeg 0 = false from rfl, show mant 0 = 0 from rfl]
    simp [roundPack, force_eq, forceI_eq]
  · unfold fmul
    simp only [force_eq, b1, b2, b3, show isNaN signBit = false from rfl,
      show isInf signBit = false from rfl, show isNeg signBit = true from rfl,
      show mant signBit = 0 from rfl]
    simp [roundPack, force_eq, forceI_eq]

/-! ### `p + 0.5` -/

theorem half_facts : isNaN half = false ∧ isInf half = false ∧ isNeg half = false ∧
    mant half = 2 ^ 23 ∧ expo half = -24 := by decide

/-- `p + 0.5` for a non-negative finite `p`: the operands are aligned at the smaller exponent,
added exactly, and the sum is rounded once -/
theorem fadd_half (p : Nat) (hp : p < posInf) :
    fadd p half = roundPack false
      (mant p <<< (expo p - min (expo p) (-24)).toNat +
        2 ^ 23 <<< (-24 - min (expo p) (-24)).toNat) (min (expo p) (-24)) := by
  obtain ⟨a1, a2, a3⟩ := posfin_flags p hp
  obtain ⟨b1, b2, b3, b4, b5⟩ := half_facts
  unfold fadd
  simp only [force_eq, forceI_eq, a1, a2, a3, b1, b2, b3, b4, b5]
  have hB : 0 < 2 ^ 23 <<< (-24 - min (expo p) (-24)).toNat := by
    rw [Nat.shiftLeft_eq]; exact Nat.mul_pos (Nat.two_pow_pos _) (Nat.two_pow_pos _)
  generalize 2 ^ 23 <<< (-24 - min (expo p) (-24)).toNat = B at *
  generalize mant p <<< (expo p - min (expo p) (-24)).toNat = A at *
  have h0 : (((A : Int) + (B : Int)) == 0) = false := by simp; omega
  have h1 : decide (((A : Int) + (B : Int)) < 0) = false := by simp; omega
  have h2 : ((A : Int) + (B : Int)).natAbs = A + B := by omega
  simp [h0, h1, h2]

/-- `p + 0.5 ≤ β + 0.5` on patterns: `(Eb+126)·2^23 + N` is the pattern of `N·2^(Eb−23)`; the
hypothesis says that the exact sum, in units of `2^-24`, is at most that value -/
theorem fadd_half_le (p Eb N : Nat) (hp : p < posInf) (hN1 : 2 ^ 23 ≤ N) (hN2 : N < 2 ^ 24)
    (h : 126 ≤ expField p → mant p * 2 ^ (expField p - 126) + 2 ^ 23 ≤ N * 2 ^ (Eb + 1)) :
    fadd p half ≤ (Eb + 126) * 2 ^ 23 + N := by
  rw [fadd_half p hp]
  have hml := mant_lt p
  by_cases hY : 126 ≤ expField p
  · obtain ⟨_, m2⟩ := mant_normal p (by omega)
    have hmin : min (expo p) (-24) = -24 := by rw [m2]; omega
    rw [hmin]
    have e1 : (expo p - -24).toNat = expField p - 126 := by rw [m2]; omega
    have e2 : ((-24 : Int) - -24).toNat = 0 := rfl
    rw [e1, e2, Nat.shiftLeft_eq, Nat.shiftLeft_eq, Nat.pow_zero, Nat.mul_one]
    have hS : mant p * 2 ^ (expField p - 126) + 2 ^ 23 ≠ 0 := by
      have := Nat.two_pow_pos 23
      omega
    have := roundPack_le_val _ (-24) hS (Eb : Int) N (by omega) hN1 hN2 (by
      have e3 : ((-24 : Int) + 23 - (Eb : Int)).toNat = 0 := by omega
      have e4 : ((Eb : Int) - 23 - -24).toNat = Eb + 1 := by omega
      rw [e3, e4, Nat.pow_zero, Nat.mul_one]
      exact h hY)
    have e5 : ((Eb : Int) + 126).toNat = Eb + 126 := by omega
    rw [e5] at this
    exact this
  · -- `p < 0.5`: the sum is below 1
    have hexp : expo p ≤ -25 := by
      by_cases hX : 1 ≤ expField p
      · rw [(mant_normal p hX).2]; omega
      · rw [(mant_subnormal p (by omega)).2]; omega
    have hmin : min (expo p) (-24) = expo p := by omega
    rw [hmin]
    have e1 : (expo p - expo p).toNat = 0 := by omega
    rw [e1, Nat.shiftLeft_eq, Nat.shiftLeft_eq, Nat.pow_zero, Nat.mul_one, ← Nat.pow_add]
    generalize ht : (-24 - expo p).toNat = t
    have ht1 : 1 ≤ t := by omega
    have hS : mant p + 2 ^ (23 + t) ≠ 0 := by
      have := Nat.two_pow_pos (23 + t)
      omega
    have hlt : mant p + 2 ^ (23 + t) < 2 ^ (24 + t) := by
      have h1 : 2 ^ 24 ≤ 2 ^ (23 + t) := Nat.pow_le_pow_right (by omega) (by omega)
      have h2 : 2 ^ (24 + t) = 2 * 2 ^ (23 + t) := by
        rw [show 24 + t = (23 + t) + 1 by omega, Nat.pow_succ, Nat.mul_comm]
      omega
    have hlog := (Nat.log2_lt hS).mpr hlt
    have := roundPack_le_pow _ (expo p) hS (-1) (by omega) (by omega)
    have h3 : 126 * 2 ^ 23 ≤ (Eb + 126) * 2 ^ 23 := Nat.mul_le_mul_right _ (by omega)
    have h4 : ((-1 : Int) + 128).toNat * 2 ^ 23 = 126 * 2 ^ 23 + 2 ^ 23 := by decide
    rw [h4] at this
    exact Nat.le_trans this (Nat.add_le_add h3 hN1)

/-! ### `x as u32` -/

/-- the saturating cast of a pattern whose exponent field is at most `T` (`127 ≤ T ≤ 149`, so
the value is below `2^24` and the cast only shifts right) -/
theorem toNatSat_le (x T n M : Nat) (hx : x < posInf) (hT : expField x ≤ T) (hT1 : 127 ≤ T)
    (hT2 : T ≤ 149) (h1 : expField x = T → mant x >>> (150 - T) ≤ n) (h2 : 2 ^ (T - 127) ≤ n) :
    toNatSat x M ≤ n := by
  obtain ⟨a1, a2, a3⟩ := posfin_flags x hx
  unfold toNatSat
  simp only [force_eq, a1, a2, a3]
  have hneg : ¬ (expo x ≥ 0) := by
    by_cases hX : 1 ≤ expField x
    · rw [(mant_normal x hX).2]; omega
    · rw [(mant_subnormal x (by omega)).2]; omega
  simp only [hneg, if_false, Bool.false_eq_true]
  have hv : mant x >>> (-expo x).toNat ≤ n := by
    by_cases hY : expField x = T
    · have : (-expo x).toNat = 150 - T := by rw [(mant_normal x (by omega)).2]; omega
      rw [this]; exact h1 hY
    · have hs : 151 - T ≤ (-expo x).toNat := by
        by_cases hX : 1 ≤ expField x
        · rw [(mant_normal x hX).2]; omega
        · rw [(mant_subnormal x (by omega)).2]; omega
      rw [Nat.shiftRight_eq_div_pow]
      have : mant x / 2 ^ (-expo x).toNat < 2 ^ (T - 127) := by
        apply Nat.div_lt_of_lt_mul
        rw [← Nat.pow_add]
        exact Nat.lt_of_lt_of_le (mant_lt x) (Nat.pow_le_pow_right (by omega) (by omega))
      omega
  split <;> omega

end Dds.EncTotal.SharedExp
