/-
Specification side of C04 on integers: `roundF32 (mkRat N D)` and `toCode max (mkRat N D)` evaluated with the
kernel-accelerated primitives (the rational specification itself goes through normalised `Rat` fractions, `Int`
and `Decidable` instances: ≈ 2–5 ms per point in the kernel).  Every equality is proved for ALL arguments.
-/
import DdsModel.Proofs.ConvFast
import DdsModel.ConvSpec
namespace Dds.ConvFast
open Dds Dds.CF32 Dds.Spec
open Dds.F32.Raw (lz lz_eq nadd nsub nmul ndiv nmod npow nshl cond_ble cond_blt cond_beq ble_dec blt_dec beq_dec cond_dec)
open Dds.F32.Fast (lg lg_eq)

/-! ### `roundF32` of a non-negative fraction -/

/-- `roundF32 (N / D)` -/
def rndR (N D : Nat) : Nat :=
  cond (Nat.beq D 0) 0
    (lz (Nat.gcd D N) fun g => lz (Nat.div N g) fun n => lz (Nat.div D g) fun d =>
      cond (Nat.beq n 0) 0
        (lz (Nat.sub (Nat.add (lgA d) 34) (lgA n)) fun k =>
          cond (Nat.ble k 999)
            (lz (Nat.shiftLeft n k) fun num =>
              rpH (Nat.add (Nat.mul 2 (Nat.div num d)) (cond (Nat.beq (Nat.mod num d) 0) 0 1)) (Nat.sub 999 k) 34)
            (roundF32 (mkRat N D))))

theorem roundF32_unfold (q : Rat) : roundF32 q =
    if (q.num == 0) = true then 0 else
      roundPack (decide (q.num < 0))
        (2 * (q.num.natAbs <<< (Nat.log2 q.den + 34 - Nat.log2 q.num.natAbs) / q.den) +
          if (q.num.natAbs <<< (Nat.log2 q.den + 34 - Nat.log2 q.num.natAbs) % q.den == 0) = true then 0 else 1)
        (-((Nat.log2 q.den + 34 - Nat.log2 q.num.natAbs : Nat) : Int) - 1) := by
  unfold roundF32
  simp only [force_eq, forceI_eq]

theorem rndR_eq (N D : Nat) : rndR N D = roundF32 (mkRat N D) := by
  unfold rndR
  rw [cond_beq]
  by_cases hD : D = 0
  · rw [if_pos hD, hD, Rat.mkRat_zero]; rfl
  · rw [if_neg hD, lz_eq, lz_eq, lz_eq, cond_beq, lz_eq, cond_ble]
    have h1 : (N : Int) / ((D.gcd N : Nat) : Int) = ((N / D.gcd N : Nat) : Int) := (Int.natCast_ediv _ _).symm
    have hu : roundF32 (mkRat N D) = _ := roundF32_unfold (mkRat N D)
    rw [Rat.num_mkRat, Rat.den_mkRat, if_neg hD, if_neg hD, Int.natAbs_natCast, h1, Int.natAbs_natCast] at hu
    simp only [lgA_eq, nadd, nsub, nmul, ndiv, nmod, nshl, cond_beq]
    generalize N / D.gcd N = n at *
    generalize D / D.gcd N = d at *
    by_cases hn0 : n = 0
    · rw [if_pos hn0, hu, hn0]; rfl
    · rw [if_neg hn0]
      by_cases hk : Nat.log2 d + 34 - Nat.log2 n ≤ 999
      · rw [if_pos hk, lz_eq, rpH_eq, hu]
        have e1 : ¬ (((n : Nat) : Int) == 0) = true := by simp; omega
        have e2 : ¬ (((n : Nat) : Int) < 0) := by omega
        rw [if_neg e1, decide_eq_false e2]
        generalize Nat.log2 d + 34 - Nat.log2 n = k at *
        have e3 : (((999 - k : Nat) : Int) - 1000) = -(k : Int) - 1 := by omega
        rw [e3]
        simp only [beq_iff_eq]
      · rw [if_neg hk]

/-- rounding commutes with negation (for a positive value) -/
theorem roundF32_neg (q : Rat) (h : 0 < q.num) : roundF32 (-q) = signBit + roundF32 q := by
  rw [roundF32_unfold, roundF32_unfold, Rat.neg_num, Rat.neg_den, Int.natAbs_neg]
  have e1 : ¬ ((-q.num == 0) = true) := by intro h'; have := eq_of_beq h'; omega
  have e2 : ¬ ((q.num == 0) = true) := by intro h'; have := eq_of_beq h'; omega
  have e3 : -q.num < 0 := by omega
  have e4 : ¬ q.num < 0 := by omega
  rw [if_neg e1, if_neg e2, decide_eq_true e3, decide_eq_false e4, roundPack_sign]

theorem num_mkRat_nat (N D : Nat) (hD : D ≠ 0) : (mkRat N D).num = ((N / D.gcd N : Nat) : Int) := by
  rw [Rat.num_mkRat, if_neg hD, Int.natAbs_natCast]
  exact (Int.natCast_ediv _ _).symm

theorem num_mkRat_pos (N D : Nat) (hD : D ≠ 0) (hN : N ≠ 0) : 0 < (mkRat N D).num := by
  rw [num_mkRat_nat N D hD]
  have hg : 0 < D.gcd N := Nat.gcd_pos_of_pos_left _ (Nat.pos_of_ne_zero hD)
  have : D.gcd N ≤ N := Nat.le_of_dvd (Nat.pos_of_ne_zero hN) (Nat.gcd_dvd_right D N)
  have : 0 < N / D.gcd N := Nat.div_pos this hg
  omega

/-! ### `toCode` of a fraction -/

theorem mkRat_nonneg (N D : Nat) : 0 ≤ mkRat N D := by
  by_cases hD : D = 0
  · rw [hD, Rat.mkRat_zero]; exact Rat.le_refl
  · rw [← Rat.num_nonneg, num_mkRat_nat N D hD]; exact Int.natCast_nonneg _

theorem clamp01_nonpos (q : Rat) (h : q ≤ 0) : clamp01 q = 0 := by
  unfold clamp01
  have h1 : ¬ (1 : Rat) ≤ q := by
    intro h'
    have : (1 : Rat) ≤ 0 := Rat.le_trans h' h
    exact absurd this (by decide)
  rw [Rat.min_def, if_neg h1, Rat.max_def]
  split
  · rename_i h0; exact Rat.le_antisymm h h0
  · rfl

theorem toCode_nonpos (mx : Nat) (q : Rat) (h : q ≤ 0) : toCode mx q = 0 := by
  unfold toCode nearest
  rw [clamp01_nonpos q h, Rat.mul_zero, Rat.zero_add]
  decide +kernel

theorem toCode_neg_mkRat (mx N D : Nat) : toCode mx (-(mkRat N D)) = 0 := by
  apply toCode_nonpos
  have := mkRat_nonneg N D
  rw [← Rat.neg_le_neg_iff, Rat.neg_neg]
  exact this

theorem mkRat_eq_natDiv (N D : Nat) : mkRat N D = (N : Rat) / (D : Rat) := by
  rw [Rat.mkRat_eq_div]; rfl

theorem one_le_mkRat (N D : Nat) (hD : D ≠ 0) : (1 : Rat) ≤ mkRat N D ↔ D ≤ N := by
  rw [← Rat.not_lt, mkRat_eq_natDiv, Rat.div_lt_iff (Rat.natCast_pos.mpr (Nat.pos_of_ne_zero hD)), Rat.one_mul,
    Rat.natCast_lt_natCast]
  omega

theorem floor_mkRat (A B : Nat) (hB : B ≠ 0) : (mkRat A B).floor = ((A / B : Nat) : Int) := by
  rw [Rat.floor_def, num_mkRat_nat A B hB, Rat.den_mkRat, if_neg hB, Int.natAbs_natCast, ← Int.natCast_ediv]
  congr 1
  have hg : 0 < B.gcd A := Nat.gcd_pos_of_pos_left _ (Nat.pos_of_ne_zero hB)
  obtain ⟨a', ha⟩ := Nat.gcd_dvd_right B A
  obtain ⟨b', hb⟩ := Nat.gcd_dvd_left B A
  generalize B.gcd A = g at *
  subst ha hb
  rw [Nat.mul_div_cancel_left _ hg, Nat.mul_div_cancel_left _ hg, Nat.mul_div_mul_left _ _ hg]

/-- nearest code (tie up) of the clamped fraction `N / D` -/
def codeR (mx N D : Nat) : Nat :=
  cond (Nat.ble D N) mx (Nat.div (Nat.add (Nat.mul (Nat.mul 2 mx) N) D) (Nat.mul 2 D))

theorem toCode_mkRat (mx N D : Nat) (hD : D ≠ 0) : toCode mx (mkRat N D) = ((codeR mx N D : Nat) : Int) := by
  unfold codeR toCode nearest clamp01
  rw [cond_ble, Rat.min_def]
  by_cases h : D ≤ N
  · rw [if_pos h, if_pos ((one_le_mkRat N D hD).mpr h), Rat.max_def, if_pos (by decide), Rat.mul_one, Rat.add_comm]
    have : ((mx : Nat) : Rat) = ((mx : Int) : Rat) := rfl
    rw [this, Rat.floor_add_intCast]
    have : (1 / 2 : Rat).floor = 0 := by decide +kernel
    rw [this]; omega
  · rw [if_neg h, if_neg (fun h' => h ((one_le_mkRat N D hD).mp h')), Rat.max_def, if_pos (mkRat_nonneg N D)]
    have e1 : ((mx : Nat) : Rat) = mkRat (mx : Int) 1 := by rw [F32.Fast.mkRat_one]; rfl
    have e2 : (1 / 2 : Rat) = mkRat 1 2 := by decide +kernel
    rw [e1, e2, Rat.mkRat_mul_mkRat, Rat.mkRat_add_mkRat _ _ (by omega) (by decide)]
    have e3 : ((mx : Int) * (N : Int) * ((2 : Nat) : Int) + 1 * ((1 * D : Nat) : Int)) = ((2 * mx * N + D : Nat) : Int) := by
      grind
    have e4 : 1 * D * 2 = 2 * D := by omega
    rw [e3, e4, floor_mkRat _ _ (by omega)]
    rfl

end Dds.ConvFast
