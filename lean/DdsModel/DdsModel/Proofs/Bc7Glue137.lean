/-
C03x glue, part 5: BC7 modes 1, 3, 7 (two subsets): `Bc7.decodeBlock = Bc7Spec.decodeBlock` for every block of
these modes.
-/
import DdsModel.Proofs.Bc7GlueCommon
set_option linter.unusedSimpArgs false
namespace Dds.Bc7
open Dds.BcTables Dds.Bc7Spec

def r1 : ModeRec := ⟨2, 6, 0, 0, 6, 0, 0, 1, 3, 0⟩
def r3 : ModeRec := ⟨2, 6, 0, 0, 7, 0, 1, 0, 2, 0⟩
def r7 : ModeRec := ⟨2, 6, 0, 0, 5, 5, 1, 0, 2, 0⟩

theorem eps1 (b : Nat) : getEndPoints4 1 (b >>> 8) = (epTable 1 r1 b 4, b >>> 82) := by
  simp only [getEndPoints4, Nat.reduceEqDiff, if_false, if_true,
    consumeN_at _ _ b _ (by decide : 0 < 6) (by decide : 6 ≤ 8), consumeBitsEach_at,
    range4, List.map, Nat.reduceDiv,
    px_rdN _ _ _ _ _ (by decide : 0 < 4), px_rdN _ _ _ _ _ (by decide : 1 < 4),
    px_rdN _ _ _ _ _ (by decide : 2 < 4), px_rdN _ _ _ _ _ (by decide : 3 < 4),
    px_rdN _ _ _ _ _ (by decide : 0 < 2), px_rdN _ _ _ _ _ (by decide : 1 < 2),
    withP_rd _ _ _ _ (by decide : 6 ≤ 7), promote_rdp _ _ _ _ (by decide : 3 ≤ 6) (by decide : 6 < 7)]
  simp only [epTable, range4, List.map, endpoint, r1, colorStart, alphaStart, pStart,
    Nat.reduceAdd, Nat.reduceMul, Nat.reduceEqDiff, Nat.reduceDiv, false_and, true_and, and_true, and_self,
    if_true, if_false]

theorem eps3 (b : Nat) : getEndPoints4 3 (b >>> 10) = (epTable 3 r3 b 4, b >>> 98) := by
  simp only [getEndPoints4, Nat.reduceEqDiff, if_false, if_true,
    consumeN_at _ _ b _ (by decide : 0 < 7) (by decide : 7 ≤ 8), consumeBitsEach_at,
    range4, List.map, Nat.reduceDiv,
    px_rdN _ _ _ _ _ (by decide : 0 < 4), px_rdN _ _ _ _ _ (by decide : 1 < 4),
    px_rdN _ _ _ _ _ (by decide : 2 < 4), px_rdN _ _ _ _ _ (by decide : 3 < 4),
    withP_rd _ _ _ _ (by decide : 7 ≤ 7)]
  simp only [epTable, range4, List.map, endpoint, r3, colorStart, alphaStart, pStart,
    Nat.reduceAdd, Nat.reduceMul, Nat.reduceEqDiff, Nat.reduceDiv, false_and, true_and, and_true, and_self,
    if_true, if_false, expand8_rdp]

theorem eps7 (b : Nat) : getEndPoints4 7 (b >>> 14) = (epTable 7 r7 b 4, b >>> 98) := by
  simp only [getEndPoints4, Nat.reduceEqDiff, if_false, if_true,
    consumeN_at _ _ b _ (by decide : 0 < 5) (by decide : 5 ≤ 8), consumeBitsEach_at,
    range4, List.map, Nat.reduceDiv,
    px_rdN _ _ _ _ _ (by decide : 0 < 4), px_rdN _ _ _ _ _ (by decide : 1 < 4),
    px_rdN _ _ _ _ _ (by decide : 2 < 4), px_rdN _ _ _ _ _ (by decide : 3 < 4),
    withP_rd _ _ _ _ (by decide : 5 ≤ 7), promote_rdp _ _ _ _ (by decide : 3 ≤ 5) (by decide : 5 < 7)]
  simp only [epTable, range4, List.map, endpoint, r7, colorStart, alphaStart, pStart,
    Nat.reduceAdd, Nat.reduceMul, Nat.reduceEqDiff, Nat.reduceDiv, false_and, true_and, and_true, and_self,
    if_true, if_false]

theorem mode1_eq (b : Nat) (h : modeOf b = 1) : Bc7.decodeBlock b = Bc7Spec.decodeBlock b := by
  rw [spec_decodeBlock_mode b 1 r1 h rfl]
  simp only [Bc7.decodeBlock, extractMode_eq, h, Nat.reduceEqDiff, if_false, if_true, Nat.reduceAdd, modeSubset2,
    consumeBits_at 6 b 2 (by decide) (by decide), eps1, decodeMode]
  apply map_range16_congr
  intro i hi
  have hp : rd b 2 6 < 64 := rd_lt b 2 6
  obtain ⟨_, _, hsub, hs2, _, _⟩ := anchors2 (rd b 2 6) i hp hi
  have hidx : getIndex (newP2 3 (b >>> 82) (implP2 (rd b 2 6)).2).1 i = index1 1 r1 b (rd b 2 r1.partBits) i :=
    index_impl2 3 b 82 _ i (by omega) hi hp
  have hk : index1 1 r1 b (rd b 2 r1.partBits) i < 2 ^ 3 := index1_lt 1 r1 b _ i
  have hm : r1 ∈ modes := by decide
  rw [hidx, hsub]
  generalize index1 1 r1 b (rd b 2 r1.partBits) i = k at hk
  have e1 : specSubset r1.subsets (rd b 2 r1.partBits) i = specSubset 2 (rd b 2 6) i := rfl
  have e2 : specWeights r1.idxBits = specW3 := rfl
  have e3 : rd b (2 + r1.partBits) r1.rotBits = 0 := rd_zero _ _
  have e4 : r1.idx2Bits = 0 := rfl
  rw [e1]
  generalize specSubset 2 (rd b 2 6) i = s at hs2
  have hs : s = 0 ∨ s = 1 := by omega
  rcases hs with hs | hs <;> subst hs <;>
  simp only [e2, e3, e4, if_true, Nat.mul_zero, Nat.zero_add, Nat.reduceMul, Nat.reduceAdd, interpolate23,
    ep_epTable _ _ _ _ _ (by decide : 0 < 4), ep_epTable _ _ _ _ _ (by decide : 1 < 4),
    ep_epTable _ _ _ _ _ (by decide : 2 < 4), ep_epTable _ _ _ _ _ (by decide : 3 < 4), px4,
    lerpW3 _ _ _ (endpoint_lt _ _ _ _ _ hm) (endpoint_lt _ _ _ _ _ hm) hk, rotate4, swapChannels,
    Nat.reduceEqDiff, if_false]

theorem mode3_eq (b : Nat) (h : modeOf b = 3) : Bc7.decodeBlock b = Bc7Spec.decodeBlock b := by
  rw [spec_decodeBlock_mode b 3 r3 h rfl]
  simp only [Bc7.decodeBlock, extractMode_eq, h, Nat.reduceEqDiff, if_false, if_true, Nat.reduceAdd, modeSubset2,
    consumeBits_at 6 b 4 (by decide) (by decide), eps3, decodeMode]
  apply map_range16_congr
  intro i hi
  have hp : rd b 4 6 < 64 := rd_lt b 4 6
  obtain ⟨_, _, hsub, hs2, _, _⟩ := anchors2 (rd b 4 6) i hp hi
  have hidx : getIndex (newP2 2 (b >>> 98) (implP2 (rd b 4 6)).2).1 i = index1 3 r3 b (rd b 4 r3.partBits) i :=
    index_impl2 2 b 98 _ i (by omega) hi hp
  have hk : index1 3 r3 b (rd b 4 r3.partBits) i < 2 ^ 2 := index1_lt 3 r3 b _ i
  have hm : r3 ∈ modes := by decide
  rw [hidx, hsub]
  generalize index1 3 r3 b (rd b 4 r3.partBits) i = k at hk
  have e1 : specSubset r3.subsets (rd b 4 r3.partBits) i = specSubset 2 (rd b 4 6) i := rfl
  have e2 : specWeights r3.idxBits = specW2 := rfl
  have e3 : rd b (4 + r3.partBits) r3.rotBits = 0 := rd_zero _ _
  have e4 : r3.idx2Bits = 0 := rfl
  rw [e1]
  generalize specSubset 2 (rd b 4 6) i = s at hs2
  have hs : s = 0 ∨ s = 1 := by omega
  rcases hs with hs | hs <;> subst hs <;>
  simp only [e2, e3, e4, if_true, Nat.mul_zero, Nat.zero_add, Nat.reduceMul, Nat.reduceAdd, interpolate23,
    ep_epTable _ _ _ _ _ (by decide : 0 < 4), ep_epTable _ _ _ _ _ (by decide : 1 < 4),
    ep_epTable _ _ _ _ _ (by decide : 2 < 4), ep_epTable _ _ _ _ _ (by decide : 3 < 4), px4,
    lerpW2 _ _ _ (endpoint_lt _ _ _ _ _ hm) (endpoint_lt _ _ _ _ _ hm) hk, rotate4, swapChannels,
    Nat.reduceEqDiff, if_false]

theorem mode7_eq (b : Nat) (h : modeOf b = 7) : Bc7.decodeBlock b = Bc7Spec.decodeBlock b := by
  rw [spec_decodeBlock_mode b 7 r7 h rfl]
  simp only [Bc7.decodeBlock, extractMode_eq, h, Nat.reduceEqDiff, if_false, if_true, Nat.reduceAdd, modeSubset2,
    consumeBits_at 6 b 8 (by decide) (by decide), eps7, decodeMode]
  apply map_range16_congr
  intro i hi
  have hp : rd b 8 6 < 64 := rd_lt b 8 6
  obtain ⟨_, _, hsub, hs2, _, _⟩ := anchors2 (rd b 8 6) i hp hi
  have hidx : getIndex (newP2 2 (b >>> 98) (implP2 (rd b 8 6)).2).1 i = index1 7 r7 b (rd b 8 r7.partBits) i :=
    index_impl2 2 b 98 _ i (by omega) hi hp
  have hk : index1 7 r7 b (rd b 8 r7.partBits) i < 2 ^ 2 := index1_lt 7 r7 b _ i
  have hm : r7 ∈ modes := by decide
  rw [hidx, hsub]
  generalize index1 7 r7 b (rd b 8 r7.partBits) i = k at hk
  have e1 : specSubset r7.subsets (rd b 8 r7.partBits) i = specSubset 2 (rd b 8 6) i := rfl
  have e2 : specWeights r7.idxBits = specW2 := rfl
  have e3 : rd b (8 + r7.partBits) r7.rotBits = 0 := rd_zero _ _
  have e4 : r7.idx2Bits = 0 := rfl
  rw [e1]
  generalize specSubset 2 (rd b 8 6) i = s at hs2
  have hs : s = 0 ∨ s = 1 := by omega
  rcases hs with hs | hs <;> subst hs <;>
  simp only [e2, e3, e4, if_true, Nat.mul_zero, Nat.zero_add, Nat.reduceMul, Nat.reduceAdd, interpolate23,
    ep_epTable _ _ _ _ _ (by decide : 0 < 4), ep_epTable _ _ _ _ _ (by decide : 1 < 4),
    ep_epTable _ _ _ _ _ (by decide : 2 < 4), ep_epTable _ _ _ _ _ (by decide : 3 < 4), px4,
    lerpW2 _ _ _ (endpoint_lt _ _ _ _ _ hm) (endpoint_lt _ _ _ _ _ hm) hk, rotate4, swapChannels,
    Nat.reduceEqDiff, if_false]

end Dds.Bc7
