/- Per-path facts about the traces of `Stream.lean`: every allocation precedes the first reader
operation, the reader is moved by exactly the surface's byte length, closed form of the need. -/
import DdsModel.Proofs.Stream
import DdsModel.Proofs.Layout
namespace Dds.Stream
open Dds

/-! ### line buffer -/

theorem span_replicate_read (k m : Nat) : span (List.replicate k (.read m)) = k * m := by
  induction k with
  | zero => simp [span]
  | succ k ih => simp only [List.replicate_succ, span, ih, Nat.succ_mul]; omega

theorem ioOnly_replicate_read (k m : Nat) : ioOnly (List.replicate k (.read m)) := by
  induction k with
  | zero => trivial
  | succ k ih => simp only [List.replicate_succ]; exact ih

theorem linesInBuffer_pos {bpl lines : Nat} (hl : 0 < lines) : 0 < linesInBuffer bpl lines := by
  unfold linesInBuffer; simp only; split
  · omega
  · split <;> omega

theorem linesInBuffer_le {bpl lines : Nat} (hl : 0 < lines) : linesInBuffer bpl lines ≤ lines := by
  unfold linesInBuffer; simp only; split
  · omega
  · split <;> omega

theorem lineBufLen_div {bpl lines : Nat} (hb : 0 < bpl) :
    lineBufLen bpl lines / bpl = linesInBuffer bpl lines := Nat.mul_div_cancel _ hb

theorem lineBufNew_eq {bpl lines : Nat} (hb : 0 < bpl) (hl : 0 < lines) :
    lineBufNew bpl lines = [.alloc (lineBufLen bpl lines)] := by
  unfold lineBufNew; rw [if_neg (by omega)]

/-- the line buffer is never larger than the lines it buffers -/
theorem lineBufLen_le_total {bpl lines : Nat} (hl : 0 < lines) : lineBufLen bpl lines ≤ lines * bpl :=
  Nat.mul_le_mul_right _ (linesInBuffer_le hl)

/-- the line buffer has at most 64 KiB, or exactly one line -/
theorem lineBufLen_le_max (bpl lines : Nat) :
    lineBufLen bpl lines ≤ TARGET_BUFFER_SIZE ∨ lineBufLen bpl lines = bpl := by
  unfold lineBufLen linesInBuffer
  simp only
  by_cases h1 : TARGET_BUFFER_SIZE / bpl < 1
  · right; rw [if_pos h1, Nat.one_mul]
  · left; rw [if_neg h1]
    have hm : TARGET_BUFFER_SIZE / bpl * bpl ≤ TARGET_BUFFER_SIZE := Nat.div_mul_le_self _ _
    split
    · rename_i h2
      exact Nat.le_trans (Nat.mul_le_mul_right _ (Nat.le_of_lt h2)) hm
    · exact hm

theorem span_refills {bpl lines : Nat} (hb : 0 < bpl) (hl : 0 < lines) :
    span (refills bpl lines) = lines * bpl := by
  unfold refills
  simp only [lineBufLen_div hb]
  generalize hL : linesInBuffer bpl lines = L
  have hLp : 0 < L := hL ▸ linesInBuffer_pos hl
  have hdm := Nat.div_add_mod lines L
  rw [span_append, span_replicate_read]
  by_cases hr : lines % L = 0
  · rw [if_pos hr]; simp only [span]
    generalize lines / L = q at *
    have : lines = L * q := by omega
    subst this; grind
  · rw [if_neg hr]; simp only [span]
    generalize lines / L = q at *
    generalize lines % L = r at *
    subst hdm; grind

theorem ioOnly_refills (bpl lines : Nat) : ioOnly (refills bpl lines) := by
  unfold refills
  apply ioOnly_append (ioOnly_replicate_read _ _)
  split <;> trivial

theorem need_refills (bpl lines : Nat) : need (refills bpl lines) = 0 :=
  ioOnly_need (ioOnly_refills bpl lines)

/-! ### ceil division -/

theorem divCeil_pos {a b : Nat} (ha : 0 < a) (hb : 0 < b) : 0 < divCeil a b := by
  have := (divCeil_spec a b hb).1
  apply Nat.pos_of_ne_zero; intro h; rw [h] at this; omega

theorem divCeil_mono {a c b : Nat} (hb : 0 < b) (h : a ≤ c) : divCeil a b ≤ divCeil c b := by
  rw [divCeil_eq a b hb, divCeil_eq c b hb]
  exact Nat.div_le_div_right (by omega)

/-- `y / b < ceil((y + h) / b)` for `h > 0` -/
theorem div_lt_divCeil {y h b : Nat} (hb : 0 < b) (hh : 0 < h) : y / b < divCeil (y + h) b := by
  rw [divCeil_eq _ b hb]
  have : y / b + 1 ≤ (y + h + b - 1) / b := by
    rw [← Nat.add_div_right y hb]
    exact Nat.div_le_div_right (by omega)
  omega

theorem divCeil_zero (b : Nat) : divCeil 0 b = 0 := by
  unfold divCeil; simp

/-! ### the helpers -/

structure Facts (ops : List Op) (bytes : Nat) : Prop where
  /-- every allocation precedes the first reader operation -/
  af : allocFirst ops
  /-- the reader operations cover exactly the surface -/
  sp : span ops = bytes
  /-- no more is requested than the surface is long -/
  nd : need ops ≤ bytes

theorem copyFull_facts (bpp w h : Nat) : Facts (copyFull bpp w h) (w * h * bpp) :=
  ⟨trivial, by simp [copyFull, span], by simp [copyFull, need]⟩

theorem pixelFull_eq {bpp w h : Nat} (hb : 0 < bpp) (hw : 0 < w) (hh : 0 < h) :
    pixelFull bpp w h = .alloc (lineBufLen (w * bpp) h) :: refills (w * bpp) h := by
  unfold pixelFull; rw [lineBufNew_eq (Nat.mul_pos hw hb) hh]; rfl

theorem pixelFull_facts {bpp w h : Nat} (hb : 0 < bpp) (hw : 0 < w) (hh : 0 < h) :
    Facts (pixelFull bpp w h) (w * h * bpp) := by
  have hbpl : 0 < w * bpp := Nat.mul_pos hw hb
  rw [pixelFull_eq hb hw hh]
  refine ⟨?_, ?_, ?_⟩
  · show allocFirst (refills _ _); exact ioOnly_allocFirst (ioOnly_refills _ _)
  · simp only [span]; rw [span_refills hbpl hh]; grind
  · simp only [need, need_refills, Nat.add_zero]
    have := lineBufLen_le_total (bpl := w * bpp) hh
    have e : h * (w * bpp) = w * h * bpp := by grind
    omega

theorem span_rectRowsRest (gap rd : Nat) : ∀ k, span (rectRowsRest gap rd k) = k * (gap + rd)
  | 0 => by simp [rectRowsRest, span]
  | k + 1 => by simp only [rectRowsRest, span, span_rectRowsRest gap rd k, Nat.succ_mul]; omega

theorem ioOnly_rectRowsRest (gap rd : Nat) : ∀ k, ioOnly (rectRowsRest gap rd k)
  | 0 => trivial
  | k + 1 => ioOnly_rectRowsRest gap rd k

theorem pixelRect_facts {bpp W H x y w h : Nat} (hx : x + w ≤ W) (hy : y + h ≤ H)
    (hh : 0 < h) (hfit : W * H * bpp ≤ I64MAX) : Facts (pixelRect bpp W H x y w h) (W * H * bpp) := by
  obtain ⟨k, rfl⟩ : ∃ k, h = k + 1 := ⟨h - 1, by omega⟩
  have hops : pixelRect bpp W H x y w (k + 1) =
      .alloc (w * bpp) :: .skip (W * bpp * y + x * bpp) :: .read (w * bpp) ::
        (rectRowsRest (x * bpp + (W - x - w) * bpp) (w * bpp) k ++
          [.skip ((W - x - w) * bpp + (H - y - (k + 1)) * (W * bpp))]) := by
    unfold pixelRect; simp only [if_pos hfit, rectRows]; rfl
  rw [hops]
  refine ⟨?_, ?_, ?_⟩
  · exact ioOnly_append (ioOnly_rectRowsRest _ _ _) trivial
  · simp only [span, span_append, span_rectRowsRest]
    obtain ⟨a, rfl⟩ : ∃ a, W = x + w + a := ⟨W - x - w, by omega⟩
    obtain ⟨b, rfl⟩ : ∃ b, H = y + (k + 1) + b := ⟨H - y - (k + 1), by omega⟩
    have e1 : x + w + a - x - w = a := by omega
    have e2 : y + (k + 1) + b - y - (k + 1) = b := by omega
    rw [e1, e2]
    grind
  · simp only [need, need_append, ioOnly_need (ioOnly_rectRowsRest _ _ _)]
    have h1 : w * bpp ≤ W * bpp := Nat.mul_le_mul_right _ (by omega)
    have h2 : W * bpp * 1 ≤ W * bpp * H := Nat.mul_le_mul_left _ (by omega)
    have e : W * bpp * H = W * H * bpp := by grind
    omega

theorem blockFull_facts {bw bh bpb w h : Nat} (hbw : 0 < bw) (hbh : 0 < bh) (hb : 0 < bpb)
    (hw : 0 < w) (hh : 0 < h) :
    Facts (blockFull bw bh bpb w h) (divCeil w bw * divCeil h bh * bpb) := by
  have hwb := divCeil_pos hw hbw
  have hhb := divCeil_pos hh hbh
  have hbpl : 0 < divCeil w bw * bpb := Nat.mul_pos hwb hb
  have hops : blockFull bw bh bpb w h =
      .alloc (lineBufLen (divCeil w bw * bpb) (divCeil h bh)) ::
        refills (divCeil w bw * bpb) (divCeil h bh) := by
    unfold blockFull; rw [if_neg (by omega), lineBufNew_eq hbpl hhb]; rfl
  rw [hops]
  refine ⟨?_, ?_, ?_⟩
  · show allocFirst (refills _ _); exact ioOnly_allocFirst (ioOnly_refills _ _)
  · simp only [span]; rw [span_refills hbpl hhb]; grind
  · simp only [need, need_refills, Nat.add_zero]
    have := lineBufLen_le_total (bpl := divCeil w bw * bpb) hhb
    have e : divCeil h bh * (divCeil w bw * bpb) = divCeil w bw * divCeil h bh * bpb := by grind
    omega

theorem blockRect_facts {bw bh bpb W H y h : Nat} (hbw : 0 < bw) (hbh : 0 < bh) (hb : 0 < bpb)
    (hW : 0 < W) (hy : y + h ≤ H) (hh : 0 < h) :
    Facts (blockRect bw bh bpb W H y h) (divCeil W bw * divCeil H bh * bpb) := by
  have hwb := divCeil_pos hW hbw
  have hbpl : 0 < divCeil W bw * bpb := Nat.mul_pos hwb hb
  have h1 : y / bh < divCeil (h + y) bh := by rw [Nat.add_comm]; exact div_lt_divCeil hbh hh
  have h2 : divCeil (h + y) bh ≤ divCeil H bh := divCeil_mono hbh (by omega)
  generalize hA : divCeil H bh = A at *
  generalize hB : divCeil (h + y) bh = B at *
  generalize hC : y / bh = C at *
  generalize hP : divCeil W bw = P at *
  have hops : blockRect bw bh bpb W H y h =
      .alloc (lineBufLen (P * bpb) (B - C)) :: .skip (P * C * bpb) ::
        (refills (P * bpb) (B - C) ++ [.skip (P * (A - C - (B - C)) * bpb)]) := by
    unfold blockRect; simp only [hA, hB, hC, hP]
    rw [lineBufNew_eq hbpl (by omega)]; rfl
  rw [hops]
  refine ⟨ioOnly_append (ioOnly_refills _ _) trivial, ?_, ?_⟩
  · simp only [span, span_append]; rw [span_refills hbpl (by omega)]
    obtain ⟨t, rfl⟩ : ∃ t, B = C + 1 + t := ⟨B - C - 1, by omega⟩
    obtain ⟨a, rfl⟩ : ∃ a, A = C + 1 + t + a := ⟨A - (C + 1 + t), by omega⟩
    have e1 : C + 1 + t - C = 1 + t := by omega
    have e2 : C + 1 + t + a - C - (1 + t) = a := by omega
    rw [e1, e2]; grind
  · simp only [need, need_append, need_refills, Nat.add_zero]
    have := lineBufLen_le_total (bpl := P * bpb) (lines := B - C) (by omega)
    have h3 : (B - C) * (P * bpb) ≤ A * (P * bpb) := Nat.mul_le_mul_right _ (by omega)
    have e : A * (P * bpb) = P * A * bpb := by grind
    omega

theorem biPlanarFull_facts {e1 e2 sx sy w h : Nat} (he2 : 0 < e2) (hsx : 0 < sx) (hsy : 0 < sy)
    (hw : 0 < w) (hh : 0 < h) :
    Facts (biPlanarFull e1 e2 sx sy w h) (w * h * e1 + divCeil w sx * divCeil h sy * e2) := by
  have hwb := divCeil_pos hw hsx
  have hhb := divCeil_pos hh hsy
  have hbpl : 0 < divCeil w sx * e2 := Nat.mul_pos hwb he2
  have hops : biPlanarFull e1 e2 sx sy w h =
      .alloc (lineBufLen (divCeil w sx * e2) (divCeil h sy)) :: .alloc (w * e1 * h) ::
        .read (w * e1 * h) :: refills (divCeil w sx * e2) (divCeil h sy) := by
    unfold biPlanarFull; simp only; rw [lineBufNew_eq hbpl hhb]; rfl
  rw [hops]
  refine ⟨ioOnly_refills _ _, ?_, ?_⟩
  · simp only [span]; rw [span_refills hbpl hhb]; grind
  · simp only [need, need_refills, Nat.add_zero]
    have := lineBufLen_le_total (bpl := divCeil w sx * e2) hhb
    have e : divCeil h sy * (divCeil w sx * e2) = divCeil w sx * divCeil h sy * e2 := by grind
    have e' : w * e1 * h = w * h * e1 := by grind
    omega

theorem biPlanarRect_facts {e1 e2 sx sy W H y h : Nat} {ops : List Op} (he2 : 0 < e2) (hsx : 0 < sx)
    (hsy : 0 < sy) (hW : 0 < W) (hy : y + h ≤ H) (hh : 0 < h)
    (hops : biPlanarRect e1 e2 sx sy W H y h = .ok ops) :
    Facts ops (W * H * e1 + divCeil W sx * divCeil H sy * e2) := by
  have hwb := divCeil_pos hW hsx
  have hbpl : 0 < divCeil W sx * e2 := Nat.mul_pos hwb he2
  have h1 : y / sy < divCeil (y + h) sy := div_lt_divCeil hsy hh
  have h2 : divCeil (y + h) sy ≤ divCeil H sy := divCeil_mono hsy (by omega)
  generalize hA : divCeil H sy = A at *
  generalize hB : divCeil (y + h) sy = B at *
  generalize hC : y / sy = C at *
  generalize hP : divCeil W sx = P at *
  unfold biPlanarRect at hops
  simp only [hA, hB, hC, hP] at hops
  split at hops
  · simp only [Except.ok.injEq] at hops
    have hL : 0 < A - C - (A - B) := by omega
    rw [lineBufNew_eq hbpl hL] at hops
    simp only [List.cons_append, List.nil_append] at hops
    subst hops
    refine ⟨ioOnly_append (ioOnly_refills _ _) trivial, ?_, ?_⟩
    · simp only [span, span_append]
      rw [span_refills hbpl hL]
      obtain ⟨t, rfl⟩ : ∃ t, B = C + 1 + t := ⟨B - C - 1, by omega⟩
      obtain ⟨a, rfl⟩ : ∃ a, A = C + 1 + t + a := ⟨A - (C + 1 + t), by omega⟩
      obtain ⟨b, rfl⟩ : ∃ b, H = y + h + b := ⟨H - y - h, by omega⟩
      have e1' : C + 1 + t + a - (C + 1 + t) = a := by omega
      have e2' : C + 1 + t + a - C - a = 1 + t := by omega
      have e3' : y + h + b - y - h = b := by omega
      rw [e1', e2', e3']; grind
    · simp only [need, need_append, need_refills, Nat.add_zero]
      have := lineBufLen_le_total (bpl := P * e2) (lines := A - C - (A - B)) hL
      have h3 : (A - C - (A - B)) * (P * e2) ≤ A * (P * e2) := Nat.mul_le_mul_right _ (by omega)
      have e : A * (P * e2) = P * A * e2 := by grind
      have h4 : W * e1 * h ≤ W * e1 * H := Nat.mul_le_mul_left _ (by omega)
      have e' : W * e1 * H = W * H * e1 := by grind
      omega
  · cases hops


/-! ### closed form of the need -/

theorem lineBufLen_le (bpl lines : Nat) : lineBufLen bpl lines ≤ max TARGET_BUFFER_SIZE bpl := by
  rcases lineBufLen_le_max bpl lines with h | h
  · exact Nat.le_trans h (Nat.le_max_left _ _)
  · rw [h]; exact Nat.le_max_right _ _

theorem ioOnly_rectRows (gap rd : Nat) : ∀ k, ioOnly (rectRows gap rd k)
  | 0 => trivial
  | k + 1 => ioOnly_rectRowsRest gap rd k

theorem need_pixelFull {bpp w h : Nat} (hb : 0 < bpp) (hw : 0 < w) (hh : 0 < h) :
    need (pixelFull bpp w h) = lineBufLen (w * bpp) h := by
  rw [pixelFull_eq hb hw hh]; simp [need, need_refills]

theorem need_pixelRect {bpp W H x y w h : Nat} (hfit : W * H * bpp ≤ I64MAX) :
    need (pixelRect bpp W H x y w h) = w * bpp := by
  unfold pixelRect
  simp only [if_pos hfit, List.nil_append, List.cons_append, need, need_append,
    ioOnly_need (ioOnly_rectRows _ _ _), Nat.add_zero]

theorem need_blockFull {bw bh bpb w h : Nat} (hbw : 0 < bw) (hbh : 0 < bh) (hb : 0 < bpb)
    (hw : 0 < w) (hh : 0 < h) :
    need (blockFull bw bh bpb w h) = lineBufLen (divCeil w bw * bpb) (divCeil h bh) := by
  unfold blockFull
  rw [if_neg (by omega), lineBufNew_eq (Nat.mul_pos (divCeil_pos hw hbw) hb) (divCeil_pos hh hbh)]
  simp [need, need_refills]

theorem need_blockRect {bw bh bpb W H y h : Nat} (hbw : 0 < bw) (hbh : 0 < bh) (hb : 0 < bpb)
    (hW : 0 < W) (hh : 0 < h) :
    need (blockRect bw bh bpb W H y h) =
      lineBufLen (divCeil W bw * bpb) (divCeil (h + y) bh - y / bh) := by
  have h1 : y / bh < divCeil (h + y) bh := by rw [Nat.add_comm]; exact div_lt_divCeil hbh hh
  unfold blockRect
  simp only
  rw [lineBufNew_eq (Nat.mul_pos (divCeil_pos hW hbw) hb) (by omega)]
  simp [need, need_append, need_refills]

theorem need_biPlanarFull {e1 e2 sx sy w h : Nat} (he2 : 0 < e2) (hsx : 0 < sx) (hsy : 0 < sy)
    (hw : 0 < w) (hh : 0 < h) :
    need (biPlanarFull e1 e2 sx sy w h) =
      lineBufLen (divCeil w sx * e2) (divCeil h sy) + w * e1 * h := by
  unfold biPlanarFull
  simp only
  rw [lineBufNew_eq (Nat.mul_pos (divCeil_pos hw hsx) he2) (divCeil_pos hh hsy)]
  simp [need, need_refills]

theorem need_biPlanarRect {e1 e2 sx sy W H y h : Nat} {ops : List Op} (he2 : 0 < e2) (hsx : 0 < sx)
    (hsy : 0 < sy) (hW : 0 < W) (hy : y + h ≤ H) (hh : 0 < h)
    (hops : biPlanarRect e1 e2 sx sy W H y h = .ok ops) :
    need ops = W * e1 * h + lineBufLen (divCeil W sx * e2) (divCeil (y + h) sy - y / sy) := by
  have h1 : y / sy < divCeil (y + h) sy := div_lt_divCeil hsy hh
  have h2 : divCeil (y + h) sy ≤ divCeil H sy := divCeil_mono hsy (by omega)
  have hl : divCeil H sy - y / sy - (divCeil H sy - divCeil (y + h) sy) = divCeil (y + h) sy - y / sy := by
    omega
  unfold biPlanarRect at hops
  simp only [hl] at hops
  split at hops
  · simp only [Except.ok.injEq] at hops
    rw [lineBufNew_eq (Nat.mul_pos (divCeil_pos hW hsx) he2) (by omega)] at hops
    subst hops
    simp [need, need_append, need_refills]
  · cases hops

/-- the need of a call in closed form, per family -/
def needOf (f : Fam) (c : Colour) : Call → Nat
  | .full w h =>
    if w = 0 ∨ h = 0 then 0 else
    match f with
    | .pixel bpp fast => if fast = some c then 0 else lineBufLen (w * bpp) h
    | .block bw bh bpb => lineBufLen (divCeil w bw * bpb) (divCeil h bh)
    | .biPlanar e1 e2 sx sy => lineBufLen (divCeil w sx * e2) (divCeil h sy) + w * e1 * h
  | .rect W _ _ y w h =>
    if w = 0 ∨ h = 0 then 0 else
    match f with
    | .pixel bpp _ => w * bpp
    | .block bw bh bpb => lineBufLen (divCeil W bw * bpb) (divCeil (h + y) bh - y / bh)
    | .biPlanar e1 e2 sx sy =>
      W * e1 * h + lineBufLen (divCeil W sx * e2) (divCeil (y + h) sy - y / sy)

/-- bytes of one encoded line held in the line buffer (0 if the path has no line buffer) -/
def lineBytes (f : Fam) : Call → Nat
  | .full w _ =>
    match f with
    | .pixel bpp _ => w * bpp
    | .block bw _ bpb => divCeil w bw * bpb
    | .biPlanar _ e2 sx _ => divCeil w sx * e2
  | .rect W _ _ _ _ _ =>
    match f with
    | .pixel _ _ => 0
    | .block bw _ bpb => divCeil W bw * bpb
    | .biPlanar _ e2 sx _ => divCeil W sx * e2

/-- the row buffer of a pixel rect / the plane-1 buffer of a bi-planar decode -/
def rowOrPlaneBytes (f : Fam) : Call → Nat
  | .full w h =>
    match f with
    | .biPlanar e1 _ _ _ => w * e1 * h
    | _ => 0
  | .rect W _ _ _ w h =>
    match f with
    | .pixel bpp _ => w * bpp
    | .block _ _ _ => 0
    | .biPlanar e1 _ _ _ => W * e1 * h

theorem needOf_le (f : Fam) (c : Colour) (call : Call) :
    needOf f c call ≤ max TARGET_BUFFER_SIZE (lineBytes f call) + rowOrPlaneBytes f call := by
  cases call with
  | full w h =>
    simp only [needOf, lineBytes, rowOrPlaneBytes]
    split
    · exact Nat.zero_le _
    · cases f with
      | pixel bpp fast =>
        simp only
        split
        · exact Nat.zero_le _
        · exact Nat.le_trans (lineBufLen_le _ _) (Nat.le_add_right _ _)
      | block bw bh bpb => exact Nat.le_trans (lineBufLen_le _ _) (Nat.le_add_right _ _)
      | biPlanar e1 e2 sx sy => exact Nat.add_le_add_right (lineBufLen_le _ _) _
  | rect W H x y w h =>
    simp only [needOf, lineBytes, rowOrPlaneBytes]
    split
    · exact Nat.zero_le _
    · cases f with
      | pixel bpp fast => exact Nat.le_add_left _ _
      | block bw bh bpb => exact Nat.le_trans (lineBufLen_le _ _) (Nat.le_add_right _ _)
      | biPlanar e1 e2 sx sy =>
        simp only
        have := lineBufLen_le (divCeil W sx * e2) (divCeil (y + h) sy - y / sy)
        omega

/-! ### `decode` / `decode_rect` as a whole -/

theorem Fam.WF.px {f : Fam} (h : f.WF) : f.px.WF := by
  cases f with
  | pixel bpp fast => exact h.2.1
  | block bw bh bpb => obtain ⟨a, b, c, d, _, g⟩ := h; exact ⟨g, a, b, c, d⟩
  | biPlanar e1 e2 sx sy => obtain ⟨_, b, _, d, e, f', g, i⟩ := h; exact ⟨b, d, e, f', g, i⟩

/-- encoded byte length of the surface the call is positioned at (the property's formula) -/
def Call.bytes (f : Fam) (c : Call) : Nat := f.px.surfIdeal c.surface.1 c.surface.2

theorem surfIdeal_empty {f : Fam} (hf : f.WF) {w h : Nat} (he : w = 0 ∨ h = 0) :
    f.px.surfIdeal w h = 0 := by
  cases f with
  | pixel bpp fast => simp only [Fam.px, PixelInfo.surfIdeal]; rcases he with rfl | rfl <;> simp
  | block bw bh bpb =>
    obtain ⟨a, _, c, _, _, _⟩ := hf
    simp only [Fam.px, PixelInfo.surfIdeal]
    rcases he with rfl | rfl
    · have : (0 + bw - 1) / bw = 0 := Nat.div_eq_of_lt (by omega)
      rw [this]; simp
    · have : (0 + bh - 1) / bh = 0 := Nat.div_eq_of_lt (by omega)
      rw [this]; simp
  | biPlanar e1 e2 sx sy =>
    obtain ⟨_, _, _, _, e, _, g, _⟩ := hf
    simp only [Fam.px, PixelInfo.surfIdeal]
    rcases he with rfl | rfl
    · have : (0 + sx - 1) / sx = 0 := Nat.div_eq_of_lt (by omega)
      rw [this]; simp
    · have : (0 + sy - 1) / sy = 0 := Nat.div_eq_of_lt (by omega)
      rw [this]; simp

/-- `check_likely_overflow` passes exactly when the formula length is at most `isize::MAX` -/
theorem checkLikelyOverflow_iff {f : Fam} (hf : f.WF) (w h : Nat) :
    checkLikelyOverflow f w h = true ↔ f.px.surfIdeal w h ≤ ISIZE_MAX := by
  unfold checkLikelyOverflow
  rw [surfaceBytes_eq f.px hf.px w h]
  by_cases hU : f.px.surfIdeal w h < U64
  · rw [ckSome_lt hU]; simp
  · rw [ckSome_ge hU]; simp; unfold ISIZE_MAX; unfold U64 at hU; omega

theorem surfaceBytes_of_check {f : Fam} (hf : f.WF) {w h : Nat}
    (hc : f.px.surfIdeal w h ≤ ISIZE_MAX) : f.px.surfaceBytes w h = some (f.px.surfIdeal w h) := by
  rw [surfaceBytes_eq f.px hf.px w h, ckSome_lt (by unfold ISIZE_MAX at hc; unfold U64; omega)]

theorem ISIZE_MAX_eq : ISIZE_MAX = I64MAX := rfl

/-- Every successful validation leads to a trace whose allocations precede the first reader
operation, whose reader operations cover exactly the surface, and that never requests more memory
than the surface is long; and the surface has at most `isize::MAX` bytes. -/
theorem plan_facts {f : Fam} (hf : f.WF) {c : Colour} {call : Call} {ops : List Op}
    (h : plan f c call = .ok ops) : Facts ops (call.bytes f) ∧ call.bytes f ≤ ISIZE_MAX := by
  cases call with
  | full w h' =>
    simp only [plan] at h
    simp only [Call.bytes, Call.surface]
    by_cases hc : checkLikelyOverflow f w h' = false
    · rw [if_pos hc] at h; cases h
    · rw [if_neg hc] at h
      have hc' : f.px.surfIdeal w h' ≤ ISIZE_MAX := (checkLikelyOverflow_iff hf w h').1 (by simpa using hc)
      refine ⟨?_, hc'⟩
      by_cases he : w = 0 ∨ h' = 0
      · rw [if_pos he] at h
        simp only [Except.ok.injEq] at h; subst h
        rw [surfIdeal_empty hf he]
        exact ⟨trivial, rfl, Nat.le_refl _⟩
      · rw [if_neg he] at h
        simp only [Except.ok.injEq] at h; subst h
        have hw : 0 < w := by omega
        have hh : 0 < h' := by omega
        cases f with
        | pixel bpp fast =>
          obtain ⟨hb, _, hfast⟩ := hf
          simp only [fullOps, Fam.px, PixelInfo.surfIdeal]
          by_cases hfc : fast = some c
          · rw [if_pos hfc, hfast c hfc]; exact copyFull_facts bpp w h'
          · rw [if_neg hfc]; exact pixelFull_facts hb hw hh
        | block bw bh bpb =>
          obtain ⟨a, _, b, _, d, _⟩ := hf
          simp only [fullOps, Fam.px, PixelInfo.surfIdeal]
          rw [← divCeil_eq w bw a, ← divCeil_eq h' bh b]
          exact blockFull_facts a b d hw hh
        | biPlanar e1 e2 sx sy =>
          obtain ⟨_, _, a, _, b, _, d, _⟩ := hf
          simp only [fullOps, Fam.px, PixelInfo.surfIdeal]
          rw [← divCeil_eq w sx b, ← divCeil_eq h' sy d]
          exact biPlanarFull_facts a b d hw hh
  | rect W H x y w h' =>
    simp only [plan] at h
    simp only [Call.bytes, Call.surface]
    by_cases hc : checkLikelyOverflow f W H = false
    · rw [if_pos hc] at h; cases h
    · rw [if_neg hc] at h
      have hc' : f.px.surfIdeal W H ≤ ISIZE_MAX := (checkLikelyOverflow_iff hf W H).1 (by simpa using hc)
      refine ⟨?_, hc'⟩
      by_cases he : w = 0 ∨ h' = 0
      · rw [if_pos he] at h
        split at h
        · simp only [Except.ok.injEq] at h; subst h
          rw [surfaceBytes_of_check hf hc']
          exact ⟨trivial, by simp [span], by simp [need]⟩
        · cases h
      · rw [if_neg he] at h
        split at h
        · rename_i hin
          have hh : 0 < h' := by omega
          have hW : 0 < W := by omega
          cases f with
          | pixel bpp fast =>
            simp only [rectOps, Except.ok.injEq] at h; subst h
            simp only [Fam.px, PixelInfo.surfIdeal] at hc' ⊢
            exact pixelRect_facts hin.1 hin.2 hh (by rw [← ISIZE_MAX_eq]; exact hc')
          | block bw bh bpb =>
            obtain ⟨a, _, b, _, d, _⟩ := hf
            simp only [rectOps, Except.ok.injEq] at h; subst h
            simp only [Fam.px, PixelInfo.surfIdeal]
            rw [← divCeil_eq W bw a, ← divCeil_eq H bh b]
            exact blockRect_facts a b d hW hin.2 hh
          | biPlanar e1 e2 sx sy =>
            obtain ⟨_, _, a, _, b, _, d, _⟩ := hf
            simp only [rectOps] at h
            simp only [Fam.px, PixelInfo.surfIdeal]
            rw [← divCeil_eq W sx b, ← divCeil_eq H sy d]
            exact biPlanarRect_facts a b d hW hin.2 hh h
        · cases h

/-- the total of the allocation requests of an accepted call is the closed form `needOf` -/
theorem plan_need {f : Fam} (hf : f.WF) {c : Colour} {call : Call} {ops : List Op}
    (h : plan f c call = .ok ops) : need ops = needOf f c call := by
  have hbytes := (plan_facts hf h).2
  cases call with
  | full w h' =>
    simp only [plan] at h
    simp only [needOf]
    split at h
    · cases h
    · by_cases he : w = 0 ∨ h' = 0
      · rw [if_pos he] at h ⊢; simp only [Except.ok.injEq] at h; subst h; rfl
      · rw [if_neg he] at h ⊢; simp only [Except.ok.injEq] at h; subst h
        have hw : 0 < w := by omega
        have hh : 0 < h' := by omega
        cases f with
        | pixel bpp fast =>
          simp only [fullOps]
          by_cases hfc : fast = some c
          · rw [if_pos hfc, if_pos hfc]; simp [copyFull, need]
          · rw [if_neg hfc, if_neg hfc]; exact need_pixelFull hf.1 hw hh
        | block bw bh bpb =>
          obtain ⟨a, _, b, _, d, _⟩ := hf
          exact need_blockFull a b d hw hh
        | biPlanar e1 e2 sx sy =>
          obtain ⟨_, _, a, _, b, _, d, _⟩ := hf
          exact need_biPlanarFull a b d hw hh
  | rect W H x y w h' =>
    simp only [plan] at h
    simp only [needOf]
    split at h
    · cases h
    · by_cases he : w = 0 ∨ h' = 0
      · rw [if_pos he] at h ⊢
        split at h
        · simp only [Except.ok.injEq] at h; subst h; rfl
        · cases h
      · rw [if_neg he] at h ⊢
        split at h
        · rename_i hin
          have hh : 0 < h' := by omega
          have hW : 0 < W := by omega
          cases f with
          | pixel bpp fast =>
            simp only [rectOps, Except.ok.injEq] at h; subst h
            simp only [Call.bytes, Call.surface, Fam.px, PixelInfo.surfIdeal] at hbytes
            exact need_pixelRect (by rw [← ISIZE_MAX_eq]; exact hbytes)
          | block bw bh bpb =>
            obtain ⟨a, _, b, _, d, _⟩ := hf
            simp only [rectOps, Except.ok.injEq] at h; subst h
            exact need_blockRect a b d hW hh
          | biPlanar e1 e2 sx sy =>
            obtain ⟨_, _, a, _, b, _, d, _⟩ := hf
            simp only [rectOps] at h
            exact need_biPlanarRect a b d hW hin.2 hh h
        · cases h

/-- the only errors returned before the first operation -/
theorem plan_error {f : Fam} {c : Colour} {call : Call} {r : Res} (h : plan f c call = .error r) :
    r = .memLimit ∨ r = .rectOutOfBounds := by
  cases call with
  | full w h' =>
    simp only [plan] at h
    split at h
    · cases h; left; rfl
    · split at h <;> cases h
  | rect W H x y w h' =>
    simp only [plan] at h
    split at h
    · cases h; left; rfl
    · split at h
      · split at h
        · cases h
        · cases h; right; rfl
      · split at h
        · cases f with
          | pixel => simp [rectOps] at h
          | block => simp [rectOps] at h
          | biPlanar e1 e2 sx sy =>
            simp only [rectOps, biPlanarRect] at h
            split at h
            · cases h
            · cases h; left; rfl
        · cases h; right; rfl

end Dds.Stream
